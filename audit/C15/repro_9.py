"""C15 gate clause (CVIART): "a sample joins an existing cluster only if that assignment
strictly improves the chosen validity index relative to the labelling before the step".

CVIART.CVI_match returns True ("improves") whenever EITHER labelling has an undefined
index.  With max_iter > 1 a sample whose current labelling has a well defined index is
therefore allowed to join an existing category when the move makes the index UNDEFINED
(every sample alone in its own cluster: Calinski-Harabasz is 0 by the property's own
convention, so the step goes from a positive value to 0; Davies-Bouldin and silhouette
do not exist at all).  Nothing was compared, yet the sample joined an existing category
instead of the search continuing.  The training step is observed by wrapping the base
module's step_fit on the instance (the library is not modified).
"""
import sys, io, contextlib
sys.path.insert(0, sys.argv[1])
import numpy as np
import sklearn.metrics as M
from artlib import CVIART, FuzzyART

FUNCS = {
    1: M.calinski_harabasz_score,
    2: M.davies_bouldin_score,
    3: M.silhouette_score,
}


def index(v, X, labels):
    k = len(np.unique(labels))
    if not 2 <= k <= len(labels) - 1:
        return None  # undefined
    return FUNCS[v](X, labels)


bad = False
cases = [
    (1, 0.9, 3, [0.5, 0.25, 0.25]),
    (1, 0.7, 3, [0.25, 1.0, 0.25, 0.25]),
    (2, 0.7, 3, [1.0, 0.5, 0.625, 1.0, 0.75]),
    (3, 0.7, 3, [1.0, 0.5, 0.625, 1.0, 0.75]),
]
for v, rho, epochs, raw in cases:
    raw = np.asarray(raw, dtype=float).reshape(-1, 1)
    X = np.hstack([raw, 1.0 - raw])
    n = len(X)
    base = FuzzyART(rho, 1e-7, 1.0)
    with contextlib.redirect_stdout(io.StringIO()):
        model = CVIART(base, v)
    log = []
    orig = base.step_fit
    state = {"t": 0}

    def wrapped(x, _orig=orig, _base=base, _model=model, _log=log, _state=state, **kw):
        t = _state["t"]
        _state["t"] += 1
        n_w = len(_base.W)
        before = _model.labels_.copy()
        c = _orig(x, **kw)
        _log.append((t // n, t % n, n_w, before, c))
        return c

    base.step_fit = wrapped
    try:
        with contextlib.redirect_stdout(io.StringIO()):
            model.fit(X, max_iter=epochs)
    except (AssertionError, ValueError, NotImplementedError):
        continue
    for epoch, i, n_w, before, c in log:
        if n_w >= 2 and c < n_w:  # joined a category that existed before the step
            after = before.copy()
            after[i] = c
            b, a = index(v, X, before), index(v, X, after)
            if b is not None and a is None:
                print(
                    f"validity={v} rho={rho} raw={raw.ravel().tolist()}: epoch {epoch},"
                    f" sample {i} joined existing category {c}; index before = {b!r}"
                    f" (labels {before.tolist()}), index after is UNDEFINED"
                    f" (labels {after.tolist()}) - accepted without any comparison"
                )
                bad = True
                break
sys.exit(1 if bad else 0)

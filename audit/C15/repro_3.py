"""Unsigned-integer samples: iCVI_CH stores the first sample of the stream / of every
cluster as-is (mu = x, v = x) and later forms `sample - average` in that dtype, which
wraps around for uint8/uint16 (0 - 1 = 255).  Binary complement-coded uint8 data is
accepted by iCVIFuzzyART.validate_data (and clustered correctly by plain FuzzyART), but
the tracked CH value is wrong and, online, the gate lets samples in that do not improve
the index.  (bool data raises TypeError inside iCVI_CH although FuzzyART accepts it.)"""
import sys
sys.path.insert(0, sys.argv[1])
import numpy as np
from artlib.cvi.iCVIs.CalinkskiHarabasz import iCVI_CH
from artlib.cvi.iCVIFuzzyArt import iCVIFuzzyART


def batch_ch(X, labels):
    X = np.asarray(X, float); labels = np.asarray(labels)
    labs = np.unique(labels); k = len(labs); n = len(X)
    if k < 2 or k == n:
        return 0.0
    mu = X.mean(0); W = 0.0; B = 0.0
    for l in labs:
        P = X[labels == l]; v = P.mean(0)
        W += ((P - v) ** 2).sum(); B += len(P) * ((v - mu) ** 2).sum()
    return 0.0 if W == 0 else (B / W) * (n - k) / (k - 1)


bad = []
# (a) the index object alone
X = np.array([[0, 1], [1, 0], [1, 1], [0, 0], [1, 0], [0, 1]], dtype=np.uint8)
L = [0, 0, 1, 1, 0, 1]
ic = iCVI_CH(X[0])
for x, l in zip(X, L):
    ic.update(ic.add_sample(x, l))
ref = batch_ch(X, L)
if abs(ic.criterion_value - ref) > 1e-9:
    bad.append(f"iCVI_CH on uint8 samples: tracked {ic.criterion_value} != batch {ref}")

# (b) iCVIFuzzyART on binary complement-coded uint8 data
B = np.array([[0, 1, 1], [1, 0, 0], [0, 1, 0], [1, 1, 0], [0, 0, 1], [1, 0, 1]])
for dt in (np.uint8, np.uint16):
    Xc = np.hstack([B, 1 - B]).astype(dt)
    for offline in (True, False):
        m = iCVIFuzzyART(0.3, 1e-3, 1.0, iCVIFuzzyART.CALINSKIHARABASZ, offline=offline)
        m.fit(Xc)
        ref = batch_ch(Xc, m.labels_)
        if abs(m.iCVI.criterion_value - ref) > 1e-9:
            bad.append(f"iCVIFuzzyART {dt.__name__} offline={offline}: labels {m.labels_.tolist()} "
                       f"tracked {m.iCVI.criterion_value} != batch {ref}")
        if not offline:
            # gate: replay the labelling and look for a join that did not improve CH
            for i in range(1, len(Xc)):
                c = m.labels_[i]
                if c in m.labels_[:i]:
                    before = batch_ch(Xc[:i], m.labels_[:i]); after = batch_ch(Xc[: i + 1], m.labels_[: i + 1])
                    if not after > before:
                        bad.append(f"iCVIFuzzyART {dt.__name__} online: sample {i} joined cluster {c} "
                                   f"although CH went {before} -> {after}")
# reference: the same data as float64 is tracked exactly
Xf = np.hstack([B, 1 - B]).astype(float)
for offline in (True, False):
    m = iCVIFuzzyART(0.3, 1e-3, 1.0, 1, offline=offline).fit(Xf)
    assert abs(m.iCVI.criterion_value - batch_ch(Xf, m.labels_)) < 1e-9

# (c) bool data
Xb = np.hstack([B, 1 - B]).astype(bool)
try:
    iCVIFuzzyART(0.3, 1e-3, 1.0, 1).fit(Xb)
except TypeError as e:
    bad.append(f"iCVIFuzzyART bool data: TypeError: {e}")

if bad:
    print("VIOLATION: incremental CH is wrong for unsigned integer sample arrays")
    for b in bad:
        print("  ", b)
    sys.exit(1)
sys.exit(0)

"""CVIART.fit(max_iter >= 2) raises ValueError from sklearn as soon as the labelling
reached after an epoch is degenerate for the batch index (every sample its own
cluster, or one cluster only)."""
import sys, io, contextlib
sys.path.insert(0, sys.argv[1])
import numpy as np
from artlib import FuzzyART, CVIART

bad = []
# (a) three well separated points, all three indices
R = np.array([[0.1], [0.5], [0.9]])
X = np.hstack([R, 1 - R])
for validity in (CVIART.CALINSKIHARABASZ, CVIART.DAVIESBOULDIN, CVIART.SILHOUETTE):
    with contextlib.redirect_stdout(io.StringIO()):
        m = CVIART(FuzzyART(0.9, 1e-3, 1.0), validity)
    m.fit(X, max_iter=1)  # fine: labels [0 1 2]
    try:
        with contextlib.redirect_stdout(io.StringIO()):
            m = CVIART(FuzzyART(0.9, 1e-3, 1.0), validity)
        m.fit(X, max_iter=2)
    except Exception as e:
        bad.append(f"3 points, validity={validity}, max_iter=2: {type(e).__name__}: {e}")

# (b) an ordinary three-blob data set of 20 points, Davies-Bouldin, 3 epochs (trimmed from 60 x 5 to keep the probe short)
rng = np.random.default_rng(0)
c = np.array([[0.2, 0.2], [0.8, 0.8], [0.2, 0.8]])
R = np.clip(c[rng.integers(0, 3, 20)] + rng.normal(0, 0.04, (20, 2)), 0, 1)
X = np.hstack([R, 1 - R])
with contextlib.redirect_stdout(io.StringIO()):
    m = CVIART(FuzzyART(0.5, 1e-3, 1.0), CVIART.DAVIESBOULDIN)
try:
    m.fit(X, max_iter=3)
except Exception as e:
    bad.append(f"20 points/3 blobs, DB, max_iter=3: {type(e).__name__}: {e}")

# (c) "one label left" variant (the only member of cluster 1 is tried for cluster 0)
for pts, rho, validity, mt in (
    ([0.17, 0.84, 0.77], 0.5, 1, "MT~"),
    ([0.5, 0.96, 0.14, 0.78], 0.5, 2, "MT+"),
    ([0.02, 0.56, 0.49], 0.5, 3, "MT~"),
):
    R = np.array(pts).reshape(-1, 1)
    X = np.hstack([R, 1 - R])
    with contextlib.redirect_stdout(io.StringIO()):
        m = CVIART(FuzzyART(rho, 1e-3, 1.0), validity)
    try:
        m.fit(X, max_iter=2, match_tracking=mt)
    except Exception as e:
        bad.append(f"points {pts}, rho={rho}, validity={validity}, {mt}, max_iter=2: {type(e).__name__}: {e}")

if bad:
    print("VIOLATION: CVIART.fit with several epochs raises on valid data")
    for b in bad:
        print("  ", b)
    sys.exit(1)
sys.exit(0)

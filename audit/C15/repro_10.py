"""C15 gate clause: "a sample joins an existing cluster only if that assignment
STRICTLY improves the chosen validity index relative to the labelling before the step".

On exactly representable (dyadic) data the validity index of the labelling before and
after a step can be EXACTLY equal (for instance when a duplicate point is moved between
two clusters that are mirror images of each other).  iCVIFuzzyART compares the freshly
computed candidate value with the incrementally tracked one (`new > tracked`), CVIART
compares two sklearn results (`new_VI > old_VI`); both are binary64 numbers whose last
bit differs by rounding, so an exact tie is accepted as an "improvement" and the sample
joins the existing cluster.  The check below recomputes Calinski-Harabasz in exact
rational arithmetic for the labelling before and after the LAST training step.
"""
import sys, io, contextlib
sys.path.insert(0, sys.argv[1])
from fractions import Fraction as F
import numpy as np


def exact_ch(X, labels):
    labels = [int(v) for v in labels]
    n = len(labels)
    ks = sorted(set(labels))
    k = len(ks)
    if k < 2 or k >= n:
        return None
    Xf = [[F(float(v)) for v in row] for row in X]  # floats are exact rationals
    d = len(Xf[0])
    mu = [sum(r[j] for r in Xf) / n for j in range(d)]
    W = F(0)
    B = F(0)
    for c in ks:
        R = [r for r, a in zip(Xf, labels) if a == c]
        v = [sum(r[j] for r in R) / len(R) for j in range(d)]
        W += sum((r[j] - v[j]) ** 2 for r in R for j in range(d))
        B += len(R) * sum((v[j] - mu[j]) ** 2 for j in range(d))
    if W == 0:
        return None
    return B / W * F(n - k, k - 1)


def check(name, X, labels):
    """The last sample was labelled 0 before its step (offline iCVI / CVIART epoch 1)."""
    labels = np.asarray(labels)
    last = int(labels[-1])
    joined_existing = last in set(labels[:-1].tolist()) and last != 0
    before = labels.copy()
    before[-1] = 0
    b, a = exact_ch(X, before), exact_ch(X, labels)
    if joined_existing and a is not None and b is not None and not a > b:
        print(
            f"{name}: last sample joined existing cluster {last}; exact CH before = {b}"
            f" = {float(b)!r}, exact CH after = {a} = {float(a)!r}: NOT a strict improvement"
            f" (labels before {before.tolist()}, after {labels.tolist()})"
        )
        return True
    return False


def cc(raw):
    raw = np.asarray(raw, dtype=float).reshape(len(raw), -1)
    return np.hstack([raw, 1.0 - raw])


bad = False
from artlib import iCVIFuzzyART, CVIART, FuzzyART

# --- iCVIFuzzyART, offline mode -------------------------------------------------------
for rho, raw in [
    (0.6, [0.25, 0.75, 0.0, 0.5]),
    (0.3, [1.0, 1.0, 0.5, 0.0, 0.5, 1.0]),
    (0.6, [0.75, 0.75, 0.875, 0.25, 0.375, 0.5, 0.75, 0.625]),
]:
    X = cc(raw)
    m = iCVIFuzzyART(rho, 1e-7, 1.0, iCVIFuzzyART.CALINSKIHARABASZ, offline=True)
    try:
        m.fit(X)
    except (AssertionError, ValueError, NotImplementedError):
        continue
    bad |= check(f"iCVIFuzzyART(offline, rho={rho}) raw={raw}", X, m.labels_)

# --- CVIART (Calinski-Harabasz), one epoch --------------------------------------------
for rho, raw in [(0.3, [1.0, 0.0, 0.5, 1.0, 1.0])]:
    X = cc(raw)
    with contextlib.redirect_stdout(io.StringIO()):
        m = CVIART(FuzzyART(rho, 1e-7, 1.0), CVIART.CALINSKIHARABASZ)
        try:
            m.fit(X)
        except (AssertionError, ValueError, NotImplementedError):
            continue
    bad |= check(f"CVIART(FuzzyART rho={rho}, CH) raw={raw}", X, m.labels_)

sys.exit(1 if bad else 0)

"""(secondary) CVIART's gate is skipped whenever the base module holds fewer than two
categories (`if len(self.W) < 2: return True`).
 (a) plain FuzzyART base: every sample that passes vigilance joins the only cluster
     without any index being consulted (literal reading of "only if it strictly
     improves"; iCVIFuzzyART refuses in the same situation).
 (b) TopoART base with pruning: after a prune that removed every category the
     labelling holds the noise label -1 next to the re-created category 0, so the
     index IS defined, yet the shortcut lets a sample join cluster 0 while the chosen
     index (Davies-Bouldin, lower is better) gets worse."""
import sys, io, contextlib, warnings
sys.path.insert(0, sys.argv[1])
warnings.filterwarnings("ignore")
import numpy as np
import sklearn.metrics as M
from artlib import FuzzyART, TopoART, CVIART

bad = []
R = np.array([[0.944, 0.173, 0.31], [0.19, 0.758, 0.98], [0.856, 0.176, 0.385], [0.272, 0.845, 0.964],
              [0.192, 0.0, 0.957], [0.867, 0.077, 0.328], [0.274, 0.036, 1.0], [0.177, 0.811, 0.76],
              [0.232, 0.738, 0.962], [0.333, 0.796, 0.935], [0.224, 0.076, 0.984], [0.178, 0.814, 0.939],
              [0.902, 0.082, 0.3], [0.731, 0.116, 0.406]])
X = np.hstack([R, 1 - R])


class Probe(CVIART):
    def pre_step_fit(self, X):
        self._before = self.labels_.copy()
        self._nW = len(self.W)
        self._k = getattr(self, "_k", -1) + 1
        return super().pre_step_fit(X)

    def post_step_fit(self, X):
        i = self._k % len(X)
        c = self.labels_[i]
        if c < self._nW:  # joined an existing category
            ub, ua = len(set(self._before)), len(set(self.labels_))
            if 2 <= ub < len(X) and 2 <= ua < len(X):
                b = M.davies_bouldin_score(X, self._before)
                a = M.davies_bouldin_score(X, self.labels_)
                if not a < b:
                    bad.append(f"(b) TopoART base: sample {i} joined cluster {c} with {self._nW} categories, "
                               f"labels before {self._before.tolist()}, DB {b:.4f} -> {a:.4f} (worse)")
            else:
                self.noindex.append(i)
        return super().post_step_fit(X)


with contextlib.redirect_stdout(io.StringIO()):
    m = Probe(TopoART(FuzzyART(0.6, 1e-3, 1.0), 0.5, 5, 2), CVIART.DAVIESBOULDIN)
    m.noindex = []
    m.fit(X, match_tracking="MT0")

with contextlib.redirect_stdout(io.StringIO()):
    m = Probe(FuzzyART(0.0, 1e-3, 1.0), CVIART.CALINSKIHARABASZ)
    m.noindex = []
    m.fit(X)
if len(m.noindex) == len(X) - 1 and len(set(m.labels_)) == 1:
    bad.append(f"(a) FuzzyART base rho=0: {len(m.noindex)} samples joined cluster 0, the index was never consulted")

if bad:
    print("VIOLATION (secondary): CVIART gate skipped while fewer than two categories exist")
    for b in bad:
        print("  ", b)
    sys.exit(1)
sys.exit(0)

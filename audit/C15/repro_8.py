"""C15 tracking clause: "the incrementally maintained Calinski-Harabasz value equals the
batch Calinski-Harabasz index of the current labelled data".

iCVI_CH.remove_sample (the public third operation of the same object, advertised in the
class docstring: "the calculations for removing a sample, or switching the label of a
sample from the dataset are included") updates the global mean with the wrong sign:
    mu_new = mu - (mu - x)/(n-1)     instead of     mu + (mu - x)/(n-1).
The value it returns is therefore not the index of the data without the sample, and once
the result is committed with update() the stored mean is wrong for good, so every later
add_sample - an operation the property does quantify over - reports a wrong index as
well.  (switch_label is not affected, it overrides mu.)
"""
import sys
sys.path.insert(0, sys.argv[1])
import numpy as np
from sklearn.metrics import calinski_harabasz_score as chs
from artlib.cvi.iCVIs.CalinkskiHarabasz import iCVI_CH

rng = np.random.default_rng(0)
X = rng.random((9, 2))
L = [0, 0, 0, 1, 1, 1, 2, 2, 2]
ic = iCVI_CH(X[0])
for x, l in zip(X, L):
    ic.update(ic.add_sample(x, l))
assert abs(ic.criterion_value - chs(X, L)) < 1e-9 * chs(X, L)

bad = False
try:
    p = ic.remove_sample(X[2], 0)
except (NotImplementedError, AttributeError):
    sys.exit(0)  # operation withdrawn: nothing to check
Xr, Lr = np.delete(X, 2, axis=0), np.delete(L, 2)
ref = chs(Xr, Lr)
if abs(p["criterion_value"] - ref) > 1e-8 * ref:
    print(f"remove_sample: returned index {p['criterion_value']!r}, batch index {ref!r}")
    print(f"  returned mean {p['mu']}, true mean {Xr.mean(0)}")
    bad = True
ic.update(p)
# an ordinary add_sample after the committed removal
ic.update(ic.add_sample(X[2], 1))
L2 = list(L)
L2[2] = 1
ref2 = chs(X, L2)
if abs(ic.criterion_value - ref2) > 1e-8 * ref2:
    print(
        f"add_sample after a committed remove_sample: tracked {ic.criterion_value!r},"
        f" batch {ref2!r}; stored mean {ic.mu}, true mean {X.mean(0)}"
    )
    bad = True
sys.exit(1 if bad else 0)

"""CVIART over DualVigilanceART: CVIART.CVI_match decides "fewer than two clusters"
from len(self.W) (number of base CATEGORIES), but DualVigilanceART maps several
categories onto one cluster label.  With two categories in one cluster the labelling
has a single label, sklearn's index raises and the first-epoch fit dies."""
import sys, io, contextlib, warnings
sys.path.insert(0, sys.argv[1])
warnings.filterwarnings("ignore")
import numpy as np
from artlib import FuzzyART, DualVigilanceART, CVIART

bad = []
# three points on a line; the 2nd fails rho=0.9 against the 1st but passes rho_lb=0.1
R = np.array([[0.10], [0.30], [0.20]])
X = np.hstack([R, 1 - R])
for validity in (1, 2, 3):
    with contextlib.redirect_stdout(io.StringIO()):
        m = CVIART(DualVigilanceART(FuzzyART(0.9, 1e-3, 1.0), 0.1), validity)
    try:
        m.fit(X)
    except Exception as e:
        bad.append(f"3 points, validity={validity}: {type(e).__name__}: {e}  "
                   f"(categories={len(m.W)}, labels so far={m.labels_.tolist()})")

# ordinary data
rng = np.random.default_rng(0)
c = np.array([[0.2, 0.2], [0.8, 0.8], [0.2, 0.8]])
R = np.clip(c[rng.integers(0, 3, 40)] + rng.normal(0, 0.05, (40, 2)), 0, 1)
X = np.hstack([R, 1 - R])
with contextlib.redirect_stdout(io.StringIO()):
    m = CVIART(DualVigilanceART(FuzzyART(0.8, 1e-3, 1.0), 0.3), CVIART.CALINSKIHARABASZ)
try:
    m.fit(X)
except Exception as e:
    bad.append(f"40 points/3 blobs, CH: {type(e).__name__}: {e}")
# the plain DualVigilanceART fits the same data
DualVigilanceART(FuzzyART(0.8, 1e-3, 1.0), 0.3).fit(X)

if bad:
    print("VIOLATION: CVIART(DualVigilanceART(...)).fit raises on valid data in the first epoch")
    for b in bad:
        print("  ", b)
    sys.exit(1)
sys.exit(0)

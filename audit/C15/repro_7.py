"""(adjacent, outside the literal statement) iCVI_CH.remove_sample - public, returns an
update() dict like add_sample/switch_label - moves the data mean in the wrong direction
(mu - (mu - x)/(n-1) instead of mu + (mu - x)/(n-1)).  After remove_sample+update the
tracked value is not the CH index of the remaining data, and every later add_sample /
switch_label inherits the wrong mean.  switch_label itself is not affected (it only
uses the cluster part of remove_sample's result)."""
import sys
sys.path.insert(0, sys.argv[1])
import numpy as np
from artlib.cvi.iCVIs.CalinkskiHarabasz import iCVI_CH

X = np.array([[0.0, 0.0], [1.0, 0.0], [0.0, 1.0], [1.0, 1.0], [0.5, 0.2]])
L = [0, 0, 1, 1, 0]
ic = iCVI_CH(X[0])
for x, l in zip(X, L):
    ic.update(ic.add_sample(x, l))
ic.update(ic.remove_sample(X[4], 0))
# remaining: two clusters {(0,0),(1,0)} and {(0,1),(1,1)}: WGSS = 1, BGSS = 1, CH = 2
bad = []
if not np.allclose(ic.mu, [0.5, 0.5]):
    bad.append(f"mean after remove_sample is {ic.mu}, should be [0.5 0.5]")
if abs(ic.criterion_value - 2.0) > 1e-9:
    bad.append(f"tracked CH {ic.criterion_value}, batch CH 2.0")
ic.update(ic.add_sample(np.array([0.5, 0.9]), 1))
# batch: cluster1 = (0,1),(1,1),(.5,.9)
P0 = X[:2]; P1 = np.vstack([X[2:4], [[0.5, 0.9]]]); A = np.vstack([P0, P1]); mu = A.mean(0)
W = ((P0 - P0.mean(0)) ** 2).sum() + ((P1 - P1.mean(0)) ** 2).sum()
B = 2 * ((P0.mean(0) - mu) ** 2).sum() + 3 * ((P1.mean(0) - mu) ** 2).sum()
ref = B / W * (5 - 2) / 1
if abs(ic.criterion_value - ref) > 1e-9:
    bad.append(f"after a following add_sample: tracked {ic.criterion_value}, batch {ref}")
if bad:
    print("VIOLATION (adjacent): iCVI_CH.remove_sample corrupts the data mean")
    for b in bad:
        print("  ", b)
    sys.exit(1)
sys.exit(0)

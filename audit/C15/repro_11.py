"""C15 tracking clause: "after iCVIFuzzyART training the tracked value equals the index
of (X, labels_)" (offline mode).

The known defect is about an EXACT within-group dispersion of 0.  The same cancellation
also destroys the value when the dispersion is small but not zero: offline mode first
puts all samples into cluster 0 (compactness ~ n) and then moves them out one by one by
subtraction, so what is left of WGSS carries an absolute error of ~1e-16.  With three
groups whose members differ by 1e-8 (values in [0, 1], nowhere near the floating point
limits; float32-rounded measurements have this spacing) the true WGSS is ~1e-15 - the
tracked Calinski-Harabasz value is off by a large factor and usually NEGATIVE, which no
Calinski-Harabasz index can be, although the batch index of (X, labels_) is perfectly
well defined (every cluster holds several distinct points).  The same tracked value is
what the validity gate compares against.
"""
import sys
sys.path.insert(0, sys.argv[1])
import numpy as np
from sklearn.metrics import calinski_harabasz_score as chs
from artlib import iCVIFuzzyART

bad = False
for seed in range(3):
    rng = np.random.default_rng(seed)
    cent = np.array([[0.1, 0.2], [0.8, 0.3], [0.5, 0.9]])
    g = rng.integers(0, 3, 40)
    raw = cent[g] + 1e-8 * rng.random((40, 2))
    X = np.hstack([raw, 1.0 - raw])
    m = iCVIFuzzyART(0.5, 1e-7, 1.0, iCVIFuzzyART.CALINSKIHARABASZ, offline=True)
    try:
        m.fit(X)
    except (AssertionError, ValueError, NotImplementedError):
        continue
    lab = m.labels_
    k = len(set(lab.tolist()))
    # stable two-pass within-group dispersion: strictly positive, index well defined
    W = sum(((X[lab == c] - X[lab == c].mean(0)) ** 2).sum() for c in set(lab.tolist()))
    if not (2 <= k < len(X)) or W <= 0:
        continue
    ref = chs(X, lab)
    t = m.iCVI.criterion_value
    if t < 0 or abs(t - ref) > 0.05 * ref:
        print(
            f"seed {seed}: {k} clusters, true WGSS {W:.3e} (non-zero), tracked CH {t!r},"
            f" batch CH of (X, labels_) {ref!r}"
        )
        bad = True
sys.exit(1 if bad else 0)

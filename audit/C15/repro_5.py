"""Only iCVIFuzzyART.fit maintains the index.  partial_fit (inherited from BaseART) -
the library's online-training entry point - and step_fit (what SimpleARTMAP & co call)
never touch self.iCVI and never apply the gate: after fit(X1); partial_fit(X2) the
tracked value is still that of X1, labels_ covers X1+X2, and samples of X2 joined
clusters although CH got worse.  On a fresh model partial_fit does not even create
the iCVI object."""
import sys
sys.path.insert(0, sys.argv[1])
import numpy as np
from artlib.cvi.iCVIFuzzyArt import iCVIFuzzyART


def batch_ch(X, labels):
    X = np.asarray(X, float); labels = np.asarray(labels)
    labs = np.unique(labels); k = len(labs); n = len(X)
    if k < 2 or k == n:
        return 0.0
    mu = X.mean(0); W = 0.0; B = 0.0
    for l in labs:
        P = X[labels == l]; v = P.mean(0)
        W += ((P - v) ** 2).sum(); B += len(P) * ((v - mu) ** 2).sum()
    return 0.0 if W == 0 else (B / W) * (n - k) / (k - 1)


rng = np.random.default_rng(0)
R = rng.random((20, 2))
X = np.hstack([R, 1 - R])
bad = []
for offline in (True, False):
    m = iCVIFuzzyART(0.5, 1e-3, 1.0, iCVIFuzzyART.CALINSKIHARABASZ, offline=offline)
    m.fit(X[:10])
    assert abs(m.iCVI.criterion_value - batch_ch(X[:10], m.labels_)) < 1e-8
    n_before = len(m.labels_)
    m.partial_fit(X[10:])
    truth = batch_ch(X, m.labels_)
    if abs(m.iCVI.criterion_value - truth) > 1e-8 or m.iCVI.n_samples != len(m.labels_):
        bad.append(f"offline={offline}: after fit(10)+partial_fit(10) tracked={m.iCVI.criterion_value} "
                   f"(n_samples={m.iCVI.n_samples}) but CH(X, labels_)={truth} (len(labels_)={len(m.labels_)})")
    # gate: a partial_fit sample that joined an existing cluster while CH fell
    for i in range(n_before, len(X)):
        c = m.labels_[i]
        if c in m.labels_[:i]:
            b = batch_ch(X[:i], m.labels_[:i]); a = batch_ch(X[: i + 1], m.labels_[: i + 1])
            if not a > b:
                bad.append(f"offline={offline}: partial_fit sample {i} joined cluster {c}, CH {b:.4f} -> {a:.4f}")
                break
m = iCVIFuzzyART(0.5, 1e-3, 1.0, 1, offline=False)
m.partial_fit(X)
if not hasattr(m, "iCVI"):
    bad.append("fresh model trained with partial_fit has no tracked index at all (no .iCVI attribute)")

if bad:
    print("VIOLATION: iCVIFuzzyART training through partial_fit bypasses the incremental index")
    for b in bad:
        print("  ", b)
    sys.exit(1)
sys.exit(0)

"""iCVI_CH keeps references to the caller's sample array: the first sample of the
stream becomes `mu` and the first sample of every cluster becomes that cluster's
centroid `v` WITHOUT a copy (newP["mu"] = x, CD["v"] = x).  A streaming caller that
re-uses one buffer for successive samples (or changes a row afterwards) silently
rewrites the stored mean / centroids, so the tracked value is no longer the index of
the data that were added."""
import sys
sys.path.insert(0, sys.argv[1])
import numpy as np
from artlib.cvi.iCVIs.CalinkskiHarabasz import iCVI_CH


def batch_ch(X, labels):
    X = np.asarray(X, float); labels = np.asarray(labels)
    labs = np.unique(labels); k = len(labs); n = len(X)
    if k < 2 or k == n:
        return 0.0
    mu = X.mean(0); W = 0.0; B = 0.0
    for l in labs:
        P = X[labels == l]; v = P.mean(0)
        W += ((P - v) ** 2).sum(); B += len(P) * ((v - mu) ** 2).sum()
    return 0.0 if W == 0 else (B / W) * (n - k) / (k - 1)


X = np.random.default_rng(1).random((8, 2))
L = [0, 1, 2, 0, 1, 2, 0, 1]

ref = iCVI_CH(X[0])
for x, l in zip(X, L):
    ref.update(ref.add_sample(x.copy(), l))

ic = iCVI_CH(X[0])
buf = np.empty(2)
vals = []
for x, l in zip(X, L):
    buf[:] = x                      # one receive buffer, new content each time
    ic.update(ic.add_sample(buf, l))
    vals.append(ic.criterion_value)

truth = batch_ch(X, L)
bad = []
if abs(ref.criterion_value - truth) > 1e-9:
    bad.append("reference run wrong?!")
if abs(ic.criterion_value - truth) > 1e-9:
    bad.append(f"buffer re-use: tracked {ic.criterion_value} != batch {truth} "
               f"(same stream with copies gives {ref.criterion_value})")

# second form: the stored centroid of a singleton cluster aliases the caller's row
Y = X.copy()
ic2 = iCVI_CH(Y[0])
for x, l in zip(Y[:3], [0, 1, 2]):
    ic2.update(ic2.add_sample(x, l))
v_before = ic2.CD[2]["v"].copy()
Y[2] += 0.25                         # caller normalises / edits his own array afterwards
if not np.array_equal(ic2.CD[2]["v"], v_before):
    bad.append(f"centroid of cluster 2 changed from {v_before} to {ic2.CD[2]['v']} without any iCVI call")

if bad:
    print("VIOLATION: iCVI_CH state aliases caller arrays")
    for b in bad:
        print("  ", b)
    sys.exit(1)
sys.exit(0)

"""SimpleARTMAP.partial_fit appends the targets of a later batch into the array of the
first batch (np.pad + slice assignment), so they are silently cast to the dtype of the
first batch.  The stored targets (labels_ / labels_b / labels_ab["B"]) then differ from
the supplied ones, and from the category map."""
import sys, warnings
sys.path.insert(0, sys.argv[1])
warnings.filterwarnings("ignore")
import numpy as np
from artlib import SimpleARTMAP, FuzzyART

def cc(X):
    return np.hstack([X, 1 - X])

X = cc(np.array([[0.1], [0.9], [0.5]]))
bad = False
for y1, y2 in [(np.array([0, 1], dtype=np.uint8), np.array([300])),
               (np.array([True, False]), np.array([2])),
               (np.array([0, 1]), np.array([2.5]))]:
    m = SimpleARTMAP(FuzzyART(0.9, 0.01, 1.0))
    m.partial_fit(X[:2], y1)
    m.partial_fit(X[2:], y2)
    supplied = list(y1) + list(y2)
    stored = m.labels_b
    via_map = [m.map[c] for c in m.labels_a]
    print(f"supplied {supplied}  stored labels_b {stored.tolist()}  map over labels_a {via_map}")
    if [float(v) for v in stored] != [float(v) for v in supplied]:
        print("VIOLATION: stored targets differ from the supplied targets "
              "(and from the class the category map gives the same samples)")
        bad = True
sys.exit(1 if bad else 0)

"""C09 / SimpleARTMAP: a column-vector target y of shape (n, 1) is accepted by fit and
partial_fit (validate_data runs sklearn's check_X_y, which only warns and ravels a COPY
that the library throws away), but the model it produces violates the property:

  * every value of the category map is a length-1 VIEW into the caller's y buffer, so
    overwriting that buffer afterwards silently re-labels the A-side categories
    ("each A-side category is mapped to exactly one class for the whole history"), and
  * predict / predict_ab raise ValueError ("setting an array element with a sequence")
    on NumPy >= 2.4 instead of returning classes seen in training.

Exit 1 when either symptom is observed, 0 when the input is rejected or handled correctly.
"""
import sys
import warnings

sys.path.insert(0, sys.argv[1])
warnings.filterwarnings("ignore")
import numpy as np
from artlib import SimpleARTMAP, HypersphereART

rng = np.random.default_rng(0)
X = rng.random((12, 2))
y = rng.integers(0, 3, (12, 1))          # column vector, what e.g. df[["label"]].values gives
y_supplied = y.copy()

model = SimpleARTMAP(HypersphereART(rho=0.5, alpha=0.01, beta=1.0, r_hat=0.8))
try:
    model.fit(X, y)
except Exception as e:                    # a clean rejection is fine
    print("fit rejected the column vector:", type(e).__name__, e)
    sys.exit(0)

bad = []
before = {k: int(np.asarray(v).ravel()[0]) for k, v in model.map.items()}
y[:] = 99                                  # caller re-uses its buffer
after = {k: int(np.asarray(v).ravel()[0]) for k, v in model.map.items()}
if before != after:
    bad.append(f"map changed when the caller overwrote y: {before} -> {after}")
y[:] = y_supplied
try:
    p = np.asarray(model.predict(X)).ravel()
    if not set(p.tolist()) <= set(y_supplied.ravel().tolist()):
        bad.append(f"predict returned classes never seen: {set(p.tolist())}")
    mapped = np.asarray(model.map_a2b(model.labels_a)).ravel()
    if not np.array_equal(mapped, y_supplied.ravel()):
        bad.append("map_a2b(labels_a) does not reproduce the targets")
except Exception as e:
    bad.append(f"fit accepted y of shape (n, 1) but predict raises {type(e).__name__}: {e}")

if bad:
    print("VIOLATION:")
    for b in bad:
        print("  -", b)
    sys.exit(1)
print("ok")
sys.exit(0)

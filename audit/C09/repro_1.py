"""ARTMAP.predict_regression with a DualVigilanceART B-side returns the centre of a
B category that belongs to a DIFFERENT class than the predicted one."""
import sys, warnings
sys.path.insert(0, sys.argv[1])
warnings.filterwarnings("ignore")
import numpy as np
from artlib import ARTMAP, FuzzyART, DualVigilanceART

# three well separated 1-D targets: 0.0 and 0.3 are merged by the lower vigilance
# into one B class (class 0, two B categories), 1.0 forms B class 1 (B category 2)
X_raw = np.array([[0.0], [0.3], [1.0]])
y_raw = np.array([[0.0], [0.3], [1.0]])

mod_a = FuzzyART(rho=0.95, alpha=0.01, beta=1.0)
mod_b = DualVigilanceART(FuzzyART(rho=0.9, alpha=0.01, beta=1.0), rho_lower_bound=0.5)
model = ARTMAP(mod_a, mod_b)
X, y = model.prepare_data(X_raw, y_raw)
model.fit(X, y)

classes = model.labels_b                      # class of every training sample
pred = model.predict(X)                       # predicted class of the training samples
reg = model.predict_regression(X).reshape(-1)
centers = [float(c[0]) for c in mod_b.get_cluster_centers()]
print("B classes of the samples :", classes.tolist())
print("B category -> B class    :", mod_b.map)
print("B category centres       :", centers)
print("predicted classes        :", pred.tolist())
print("predict_regression       :", reg.tolist())

bad = False
if not np.array_equal(pred, classes):
    print("unexpected: training samples not predicted in their own class")
    bad = True
for i, (c, r) in enumerate(zip(pred, reg)):
    own = [centers[k] for k, v in mod_b.map.items() if v == c]
    if not any(abs(r - o) < 1e-9 for o in own):
        print(f"VIOLATION: sample {i} (target {y_raw[i,0]}) predicted class {c}; the class's "
              f"B centres are {own}, but predict_regression returned {r} "
              f"(a centre of class {[v for k, v in mod_b.map.items() if abs(centers[k]-r)<1e-9]})")
        bad = True
sys.exit(1 if bad else 0)

"""SimpleARTMAP accepts non-integer class labels at training time (its validator is
check_X_y(..., dtype=None) and the map / stored targets are built faithfully), but
predict / predict_ab / map_a2b force the class into an int array:
  (a) string labels  -> fit succeeds, predict and map_a2b raise ValueError;
  (b) float labels through partial_fit -> predictions are truncated to integers that
      were never seen in training and map_a2b(labels_a) != supplied targets;
  (c) a column vector y (n,1) (accepted by check_X_y with a warning, but the converted
      y is discarded) -> fit succeeds, predict raises ValueError.
"""
import sys, warnings
sys.path.insert(0, sys.argv[1])
warnings.filterwarnings("ignore")
import numpy as np
from artlib import SimpleARTMAP, FuzzyART

def cc(X):
    return np.hstack([X, 1 - X])

X = cc(np.array([[0.1], [0.9], [0.5]]))
bad = False

# (a) string labels
y = np.array(["cat", "dog", "cat"])
m = SimpleARTMAP(FuzzyART(0.9, 0.01, 1.0)).fit(X, y)
print("(a) fit with string labels ok; classes_ =", m.classes_, "map =", m.map)
for name, call in [("predict", lambda: m.predict(X)), ("map_a2b(labels_a)", lambda: m.map_a2b(m.labels_a))]:
    try:
        out = call()
        if list(out) != list(y):
            print(f"VIOLATION (a): {name} returned {out}, expected {y}")
            bad = True
    except Exception as e:
        print(f"VIOLATION (a): {name} raises {type(e).__name__}: {e}")
        bad = True

# (b) float labels through partial_fit
y = np.array([0.5, 1.5, 0.5])
m = SimpleARTMAP(FuzzyART(0.9, 0.01, 1.0)).partial_fit(X, y)
p = m.predict(X)
mapped = m.map_a2b(m.labels_a)
print("(b) targets", y, "map", m.map, "predict", p, "map_a2b(labels_a)", mapped)
if not set(p.tolist()) <= set(y.tolist()):
    print(f"VIOLATION (b): predicted classes {sorted(set(p.tolist()))} were never seen in training (seen: {sorted(set(y.tolist()))})")
    bad = True
if not np.array_equal(mapped, y):
    print("VIOLATION (b): mapping the stored A-side labels does not reproduce the supplied targets")
    bad = True

# (c) column-vector y
y = np.array([[1], [2], [1]])
m = SimpleARTMAP(FuzzyART(0.9, 0.01, 1.0)).fit(X, y)
try:
    p = m.predict(X)
    if list(p) != [1, 2, 1]:
        print("VIOLATION (c): predict returned", p)
        bad = True
except Exception as e:
    print(f"VIOLATION (c): fit accepted y of shape (3,1), predict raises {type(e).__name__}: {e}")
    bad = True

sys.exit(1 if bad else 0)

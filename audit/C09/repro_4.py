"""ARTMAP with a pruning TopoART B-side.  When a pruning step leaves the B module
without any category, the B labels of all samples seen so far become -1 ("noise").
ARTMAP trains module A on -1 as if it were a class:
  variant 1 (pruning at the last sample): every class is -1, there is no B category at
            all, predict returns -1 and predict_regression raises IndexError;
  variant 2 (one more sample after the pruning): classes are [-1,-1,-1,0]; for the
            samples of class -1 predict_regression silently returns centers[-1], i.e.
            the centre of the LAST B category, which belongs to class 0."""
import sys, warnings, io, contextlib
sys.path.insert(0, sys.argv[1])
warnings.filterwarnings("ignore")
import numpy as np
from artlib import ARTMAP, FuzzyART, TopoART

bad = False
for name, vals in [("variant 1", [0.0, 0.5, 1.0]), ("variant 2", [0.0, 0.3, 0.6, 1.0])]:
    X_raw = np.array(vals).reshape(-1, 1)
    y_raw = np.array(vals).reshape(-1, 1)
    mod_b = TopoART(FuzzyART(0.9, 0.01, 1.0), beta_lower=0.5, tau=3, phi=2)
    model = ARTMAP(FuzzyART(0.95, 0.01, 1.0), mod_b)
    X, y = model.prepare_data(X_raw, y_raw)
    with contextlib.redirect_stdout(io.StringIO()):   # TopoART.prune prints
        model.fit(X, y)
    nb = len(mod_b.W)
    print(f"{name}: labels_b {model.labels_b.tolist()}  B categories {nb}  map {model.map}")
    pred = model.predict(X)
    print(f"{name}: predict {pred.tolist()}")
    if any(not (0 <= c < nb) for c in pred):
        print(f"VIOLATION ({name}): predicted class -1 is not a B-side category")
        bad = True
    try:
        reg = model.predict_regression(X).reshape(-1)
        print(f"{name}: targets {vals}  predict_regression {reg.tolist()}")
        centers = [float(c[0]) for c in mod_b.get_cluster_centers()]
        for i, (c, r) in enumerate(zip(pred, reg)):
            if c < 0:
                print(f"VIOLATION ({name}): sample {i} (target {vals[i]}) has class {c}, which has no "
                      f"B-side centre, yet predict_regression returned {r} = centre of B category {centers.index(r)}")
                bad = True
    except Exception as e:
        print(f"VIOLATION ({name}): predict_regression raises {type(e).__name__}: {e}")
        bad = True
sys.exit(1 if bad else 0)

"""C19 repro 2: iCVIFuzzyART hides its constructor hyper-parameter `offline`.

`offline` is stored as a plain attribute and is not part of get_params(); therefore
  * get_params() does not expose a constructor hyper-parameter,
  * set_params(offline=...) is rejected as an unknown name,
  * sklearn.clone(iCVIFuzzyART(..., offline=False)) silently returns an estimator with
    offline=True, which clusters the same data differently.
iCVIFuzzyART is an elementary (non-compound) estimator, clone() itself succeeds.
"""
import sys, warnings
sys.path.insert(0, sys.argv[1] if len(sys.argv) > 1 else ".")
warnings.filterwarnings("ignore")
import numpy as np
from sklearn.base import clone
from artlib import iCVIFuzzyART, compliment_code

bad = []
m = iCVIFuzzyART(0.4, 0.01, 1.0, iCVIFuzzyART.CALINSKIHARABASZ, offline=False)
if "offline" not in m.get_params():
    bad.append(f"get_params() = {m.get_params()} does not expose constructor argument 'offline'")
try:
    m.set_params(offline=False)          # its current value: should be a no-op
except ValueError as e:
    bad.append("set_params(offline=False) rejected: " + str(e)[:70] + "...")
c = clone(m)
if c.offline != m.offline:
    bad.append(f"clone() changed the hyper-parameter: original offline={m.offline}, clone offline={c.offline}")

# behavioural consequence: find data on which the clone clusters differently
for seed in range(50):
    rng = np.random.default_rng(seed)
    X = compliment_code(rng.random((25, 2)))
    a = iCVIFuzzyART(0.4, 0.01, 1.0, 1, offline=False).fit(X).labels_
    b = clone(iCVIFuzzyART(0.4, 0.01, 1.0, 1, offline=False)).fit(X).labels_
    if not np.array_equal(a, b):
        bad.append(f"seed {seed}: clone of an offline=False model fits to different labels "
                   f"({len(set(a))} vs {len(set(b))} clusters)")
        break

if bad:
    print("C19 VIOLATION (repro_2):")
    for b in bad:
        print("  -", b)
    sys.exit(1)
print("ok")

"""C19 repro 1: DeepARTMAP / SMART / FusionART.set_params(module_<i>=new_module) is silently ignored.

get_params() advertises the parameters module_0, module_1, ...; set_params accepts
them, but only stores a stray instance attribute `module_<i>` -- self.modules is not
updated, so get_params still reports the old module, the attribute no longer mirrors
the parameter, and the estimator does not behave like one constructed with the new
module.  (A plain set_params(**get_params()) also leaves those stray attributes behind.)
"""
import sys, warnings
sys.path.insert(0, sys.argv[1] if len(sys.argv) > 1 else ".")
warnings.filterwarnings("ignore")
import numpy as np
from artlib import FuzzyART, DeepARTMAP, FusionART, SMART, compliment_code

bad = []
rng = np.random.default_rng(0)
X = compliment_code(rng.random((40, 2)))
y = rng.integers(0, 3, 40)

# ---------------- DeepARTMAP ----------------
new = FuzzyART(0.95, 0.01, 1.0)
d = DeepARTMAP([FuzzyART(0.3, 0.01, 1.0), FuzzyART(0.5, 0.01, 1.0)])
assert "module_0" in d.get_params()
d.set_params(module_0=new)                      # accepted, no error
if d.get_params()["module_0"] is not new:
    bad.append("DeepARTMAP: get_params()['module_0'] is still the old module after set_params(module_0=new)")
if d.module_0 is not d.get_params()["module_0"]:
    bad.append("DeepARTMAP: attribute d.module_0 differs from get_params()['module_0']")
ref = DeepARTMAP([FuzzyART(0.95, 0.01, 1.0), FuzzyART(0.5, 0.01, 1.0)])
d.fit([X, X], y); ref.fit([X, X], y)
if d.modules[0].n_clusters != ref.modules[0].n_clusters:
    bad.append(f"DeepARTMAP: after set_params(module_0=rho 0.95) fit gives {d.modules[0].n_clusters} "
               f"layer-0 categories, an estimator constructed with that module gives {ref.modules[0].n_clusters}")

# ---------------- FusionART ----------------
XX = np.hstack([X, X])
new = FuzzyART(0.95, 0.01, 1.0)
f = FusionART([FuzzyART(0.3, 0.01, 1.0), FuzzyART(0.3, 0.01, 1.0)], [0.5, 0.5], [4, 4])
f.set_params(module_0=new)
if f.get_params()["module_0"] is not new:
    bad.append("FusionART: get_params()['module_0'] is still the old module after set_params(module_0=new)")
ref = FusionART([FuzzyART(0.95, 0.01, 1.0), FuzzyART(0.3, 0.01, 1.0)], [0.5, 0.5], [4, 4])
f.fit(XX); ref.fit(XX)
if f.n_clusters != ref.n_clusters:
    bad.append(f"FusionART: after set_params(module_0=rho 0.95) fit gives {f.n_clusters} categories, "
               f"constructed estimator gives {ref.n_clusters}")

# ---------------- SMART ----------------
s = SMART(FuzzyART, [0.3, 0.5], {"alpha": 0.01, "beta": 1.0})
new = FuzzyART(0.95, 0.01, 1.0)
s.set_params(module_1=new)
if s.get_params()["module_1"] is not new:
    bad.append("SMART: get_params()['module_1'] is still the old module after set_params(module_1=new)")

# ---------------- round trip is not a no-op ----------------
d2 = DeepARTMAP([FuzzyART(0.3, 0.01, 1.0), FuzzyART(0.5, 0.01, 1.0)])
before = set(vars(d2))
d2.set_params(**d2.get_params())
extra = set(vars(d2)) - before
if extra:
    bad.append(f"DeepARTMAP: set_params(**get_params()) is not a no-op, it creates attributes {sorted(extra)}")

if bad:
    print("C19 VIOLATION (repro_1):")
    for b in bad:
        print("  -", b)
    sys.exit(1)
print("ok")

"""C19 repro 3: a set_params call that is REJECTED still takes effect.

BaseART.set_params (and BARTMAP.set_params) assign every value first and validate
afterwards.  When validation fails the AssertionError is raised, but the out-of-range
value stays installed in the estimator: get_params()/attribute access report it and
the next fit uses it.  The estimator is then in a state no constructor call can
produce, and a later harmless set_params (e.g. of another parameter, or the
round-trip set_params(**get_params())) raises.
"""
import sys, warnings
sys.path.insert(0, sys.argv[1] if len(sys.argv) > 1 else ".")
warnings.filterwarnings("ignore")
import numpy as np
from artlib import FuzzyART, HypersphereART, TopoART, BARTMAP, compliment_code

bad = []

def rejected(f):
    try:
        f()
    except (AssertionError, ValueError):
        return True
    return False

# --- FuzzyART: rho out of [0, 1]
m = FuzzyART(0.5, 0.01, 1.0)
assert rejected(lambda: FuzzyART(1.5, 0.01, 1.0))          # constructor rejects it
assert rejected(lambda: m.set_params(rho=1.5))              # set_params rejects it ...
if m.get_params()["rho"] != 0.5 or m.rho != 0.5:
    bad.append(f"FuzzyART: after the rejected set_params(rho=1.5) the estimator has rho={m.rho}")
    X = compliment_code(np.random.default_rng(0).random((20, 2)))
    n_bad = m.fit(X).n_clusters
    n_ok = FuzzyART(0.5, 0.01, 1.0).fit(X).n_clusters
    if n_bad != n_ok:
        bad.append(f"FuzzyART: and fits with it: {n_bad} categories instead of {n_ok}")
    if rejected(lambda: m.set_params(**m.get_params())):
        bad.append("FuzzyART: the round trip set_params(**get_params()) now raises")

# --- HypersphereART: beta out of [0, 1]
m = HypersphereART(0.5, 0.01, 1.0, 1.0)
assert rejected(lambda: m.set_params(beta=7.0))
if m.beta != 1.0:
    bad.append(f"HypersphereART: after the rejected set_params(beta=7.0) the estimator has beta={m.beta}")

# --- TopoART: phi <= tau
t = TopoART(FuzzyART(0.5, 0.01, 1.0), 0.5, 10, 3)
assert rejected(lambda: t.set_params(phi=50))
if t.phi != 3:
    bad.append(f"TopoART: after the rejected set_params(phi=50) the estimator has phi={t.phi} > tau={t.tau}")

# --- BARTMAP: eta must be a float
b = BARTMAP(FuzzyART(0.5, 0.01, 1.0), FuzzyART(0.5, 0.01, 1.0), 0.5)
assert rejected(lambda: b.set_params(eta="high"))
if b.eta != 0.5:
    bad.append(f"BARTMAP: after the rejected set_params(eta='high') the estimator has eta={b.eta!r}")

if bad:
    print("C19 VIOLATION (repro_3):")
    for x in bad:
        print("  -", x)
    sys.exit(1)
print("ok")

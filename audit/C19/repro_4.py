"""C19 repro 4: set_params ACCEPTS values that the constructor's validation rejects.

The constructors of DualVigilanceART, FusionART and iCVIFuzzyART check constraints
that validate_params (the only thing set_params runs) does not know about, so
set_params lets an out-of-range value through without any error:

  * DualVigilanceART(base, rho_lower_bound) asserts  base.rho > rho_lower_bound >= 0;
    set_params(rho_lower_bound=...) and set_params(base_module__rho=...) do not.
  * FusionART(modules, gamma_values, channel_dims) asserts len(gamma_values) == len(modules);
    set_params(gamma_values=...) does not (the next fit dies with an IndexError).
  * iCVIFuzzyART(..., validity) asserts isinstance(validity, int); set_params(validity=...) does not.
"""
import sys, warnings
sys.path.insert(0, sys.argv[1] if len(sys.argv) > 1 else ".")
warnings.filterwarnings("ignore")
import numpy as np
from artlib import FuzzyART, DualVigilanceART, FusionART, iCVIFuzzyART, compliment_code

bad = []

def rejected(f):
    try:
        f()
    except (AssertionError, ValueError, TypeError):
        return True
    return False

# ---- DualVigilanceART -------------------------------------------------------
assert rejected(lambda: DualVigilanceART(FuzzyART(0.5, 0.01, 1.0), 0.9))       # constructor: rejected
dv = DualVigilanceART(FuzzyART(0.5, 0.01, 1.0), 0.2)
if not rejected(lambda: dv.set_params(rho_lower_bound=0.9)):
    bad.append(f"DualVigilanceART.set_params(rho_lower_bound=0.9) accepted although base rho is "
               f"{dv.base_module.rho}; the constructor rejects this combination")
dv = DualVigilanceART(FuzzyART(0.5, 0.01, 1.0), 0.2)
if not rejected(lambda: dv.set_params(base_module__rho=0.1)):
    bad.append("DualVigilanceART.set_params(base_module__rho=0.1) accepted although rho_lower_bound is 0.2")

# ---- FusionART ------------------------------------------------------------------
mods = lambda: [FuzzyART(0.5, 0.01, 1.0), FuzzyART(0.5, 0.01, 1.0)]
assert rejected(lambda: FusionART(mods(), [1.0], [4, 4]))                         # constructor: rejected
f = FusionART(mods(), [0.5, 0.5], [4, 4])
if not rejected(lambda: f.set_params(gamma_values=[1.0])):
    msg = "FusionART.set_params(gamma_values=[1.0]) accepted for a 2-channel model"
    X = compliment_code(np.random.default_rng(0).random((10, 2)))
    try:
        f.fit(np.hstack([X, X]))
    except Exception as e:
        msg += f"; the next fit raises {type(e).__name__}: {e}"
    bad.append(msg)

# ---- iCVIFuzzyART -----------------------------------------------------------------
assert rejected(lambda: iCVIFuzzyART(0.5, 0.01, 1.0, 1.5))                        # constructor: rejected
m = iCVIFuzzyART(0.5, 0.01, 1.0, 1)
if not rejected(lambda: m.set_params(validity=1.5)):
    bad.append("iCVIFuzzyART.set_params(validity=1.5) accepted, the constructor requires an int")

if bad:
    print("C19 VIOLATION (repro_4):")
    for x in bad:
        print("  -", x)
    sys.exit(1)
print("ok")

"""C19 violation: FALCON and TD_FALCON (public, in artlib.__all__, with fit / partial_fit)
do not implement the estimator protocol at all.

Clauses broken: "get_params exposes the constructor hyper-parameters (nested ones as
module__name)", "set_params ...", "sklearn.clone yields an unfitted independent copy with
equal hyper-parameters".

Both classes are plain `object` subclasses: no get_params, no set_params, sklearn.clone
raises TypeError ("does not seem to be a scikit-learn estimator").  The constructor
hyper-parameters gamma_values / channel_dims (and the three ART modules with their own
rho/alpha/beta) can only be reached through the private-ish attribute `fusion_art`;
TD_FALCON's td_alpha / td_lambda are bare attributes that no validation ever sees
(td_alpha="x" is accepted by the constructor and there is no set_params to reject it).
(This is not the already known "clone fails for the compound estimators whose
get_params disagrees with __init__": here there is no get_params to begin with.)
"""
import sys, warnings
sys.path.insert(0, sys.argv[1])
warnings.filterwarnings("ignore")
from sklearn.base import clone
from artlib import FuzzyART, FALCON, TD_FALCON

F = lambda: FuzzyART(0.6, 1e-3, 1.0)
bad = []
for cls, extra in ((FALCON, {}), (TD_FALCON, {"td_alpha": 0.5, "td_lambda": 0.9})):
    est = cls(F(), F(), F(), gamma_values=[0.3, 0.3, 0.4], channel_dims=[4, 4, 2], **extra)
    name = cls.__name__
    if not hasattr(est, "fit"):
        continue
    gp = getattr(est, "get_params", None)
    if gp is None:
        bad.append(f"{name} has fit()/partial_fit() but no get_params()")
    else:
        missing = [k for k in ("state_art", "action_art", "reward_art", "gamma_values", "channel_dims", *extra) if k not in gp()]
        if missing:
            bad.append(f"{name}.get_params() lacks {missing}")
    if not hasattr(est, "set_params"):
        bad.append(f"{name} has no set_params()")
    else:
        try:
            est.set_params(nope=1)
            bad.append(f"{name}.set_params accepts an unknown name")
        except ValueError:
            pass
    try:
        c = clone(est)
        if c is est:
            bad.append(f"clone({name}) is the same object")
    except TypeError as ex:
        bad.append(f"sklearn.clone({name}) raises TypeError: {str(ex)[:80]}...")

if bad:
    print("C19 VIOLATION (FALCON / TD_FALCON outside the estimator protocol):")
    for m in bad:
        print("  -", m)
    sys.exit(1)
sys.exit(0)

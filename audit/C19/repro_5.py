"""C19 repro 5: on a fitted ART2A / BayesianART, set_params skips the data-dependent
part of the parameter validation, so the estimator does not behave like one
constructed with the same values.

ART2A checks  alpha <= 1/sqrt(dim)  and BayesianART checks  cov_init.shape == (dim, dim)
only inside check_dimensions, and only the first time data are seen (when `dim_` is
still unset).  After one fit, set_params(alpha=...) / set_params(cov_init=...) with a
value that violates the constraint is accepted and the following fit on the same data
runs (ART2A) or crashes deep inside numpy (BayesianART), while an estimator
constructed with exactly these hyper-parameters refuses the data with the
validation AssertionError.
"""
import sys, warnings
sys.path.insert(0, sys.argv[1] if len(sys.argv) > 1 else ".")
warnings.filterwarnings("ignore")
import numpy as np
from artlib import ART2A, BayesianART

bad = []
X = np.random.default_rng(0).random((20, 2))

def outcome(f):
    try:
        f()
        return "ok"
    except Exception as e:
        return type(e).__name__

# ---- ART2A: alpha must be <= 1/sqrt(2) = 0.707 for 2-d data
constructed = outcome(lambda: ART2A(0.3, 0.9, 0.5).fit(X))
m = ART2A(0.3, 0.1, 0.5).fit(X)
m.set_params(alpha=0.9)
modified = outcome(lambda: m.fit(X))
if constructed != modified:
    bad.append(f"ART2A: constructed with alpha=0.9 -> fit: {constructed}; "
               f"fitted model after set_params(alpha=0.9) -> fit: {modified} "
               f"(get_params equal: {m.get_params() == ART2A(0.3, 0.9, 0.5).get_params()})")

# ---- BayesianART: cov_init must be dim x dim
constructed = outcome(lambda: BayesianART(0.05, 0.05 * np.eye(3)).fit(X))
b = BayesianART(0.05, 0.05 * np.eye(2)).fit(X)
b.set_params(cov_init=0.05 * np.eye(3))
modified = outcome(lambda: b.fit(X))
if constructed != modified:
    bad.append(f"BayesianART: constructed with a 3x3 cov_init -> fit on 2-d data: {constructed}; "
               f"fitted model after set_params(cov_init=3x3) -> fit: {modified}")

if bad:
    print("C19 VIOLATION (repro_5):")
    for x in bad:
        print("  -", x)
    sys.exit(1)
print("ok")

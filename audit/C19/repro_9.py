"""C19 violation: set_params(<module>=NEW, <module>__<p>=v) applies the nested value to the OLD module.

Clause broken: "set_params with new values makes the estimator behave exactly like
one constructed with them" (and "rejects unknown names" is over-eager in variant c).

BaseART.set_params (used by DualVigilanceART, FusionART, ...) and BARTMAP.set_params
resolve nested keys against the dict returned by get_params() at the START of the
call, apply the nested values first and only then replace the sub-estimator.  With the
standard sklearn idiom  est.set_params(base_module=NEW, base_module__rho=0.9)
(what GridSearchCV / ParameterGrid produce when a grid contains both the module and
one of its parameters; order of the keywords does not matter)
  * the NEW module keeps its own rho (the requested value is lost),
  * the OLD, now detached, module object is mutated instead,
  * if the nested name only exists on the NEW module the call is rejected as
    "Invalid parameter".
BaseARTMAP.set_params (SimpleARTMAP / ARTMAP) and sklearn itself do it correctly.
"""
import sys, io, contextlib, warnings
sys.path.insert(0, sys.argv[1])
warnings.filterwarnings("ignore")
import numpy as np
from artlib import FuzzyART, HypersphereART, DualVigilanceART, BARTMAP, SimpleARTMAP

bad = []
F = lambda rho: FuzzyART(rho, 1e-3, 1.0)

# (a) DualVigilanceART, both keyword orders
for order in (0, 1):
    dv = DualVigilanceART(F(0.8), 0.3)
    old, new = dv.base_module, F(0.6)
    kw = [("base_module", new), ("base_module__rho", 0.9)]
    if order:
        kw.reverse()
    dv.set_params(**dict(kw))
    if dv.base_module is not new or dv.base_module.rho != 0.9 or old.rho != 0.8:
        bad.append(
            f"DualVigilanceART.set_params({', '.join(k for k, _ in kw)}): new module rho="
            f"{dv.base_module.rho} (expected 0.9), detached old module rho={old.rho} (expected 0.8)"
        )

# behaviour differs from a constructed estimator
X = np.random.RandomState(0).rand(60, 2)
X = np.hstack([X, 1 - X])
dv = DualVigilanceART(F(0.8), 0.3)
dv.set_params(base_module=F(0.6), base_module__rho=0.9)
ref = DualVigilanceART(F(0.9), 0.3)
dv.fit(X), ref.fit(X)
if len(dv.base_module.W) != len(ref.base_module.W) or not np.array_equal(dv.labels_, ref.labels_):
    bad.append(
        f"after set_params(base_module=F(0.6), base_module__rho=0.9) fit gives "
        f"{len(dv.base_module.W)} categories, DualVigilanceART(F(0.9), 0.3) gives {len(ref.base_module.W)}"
    )

# (b) BARTMAP
b = BARTMAP(F(0.8), F(0.8), 0.1)
old, new = b.module_a, F(0.6)
b.set_params(module_a=new, module_a__rho=0.9)
if b.module_a.rho != 0.9 or old.rho != 0.8:
    bad.append(f"BARTMAP.set_params(module_a=new, module_a__rho=0.9): new rho={b.module_a.rho}, old rho={old.rho}")

# (c) nested name valid only for the NEW module -> spurious rejection
dv = DualVigilanceART(F(0.8), 0.3)
try:
    dv.set_params(base_module=HypersphereART(0.8, 1e-3, 1.0, 1.0), base_module__r_hat=2.0)
    if dv.base_module.r_hat != 2.0:
        bad.append("r_hat not applied to the new HypersphereART")
except Exception as ex:
    bad.append(f"set_params(base_module=HypersphereART(..), base_module__r_hat=2.0) raised {type(ex).__name__}: {str(ex)[:90]}")

# control: SimpleARTMAP does it right
s = SimpleARTMAP(F(0.8))
old, new = s.module_a, F(0.6)
s.set_params(module_a=new, module_a__rho=0.9)
assert s.module_a.rho == 0.9 and old.rho == 0.8

if bad:
    print("C19 VIOLATION (set_params: module replacement + nested parameter):")
    for m in bad:
        print("  -", m)
    sys.exit(1)
sys.exit(0)

"""C19 violation (low severity): a REJECTED set_params call leaves the estimator modified.

Clause concerned: "set_params ... rejects unknown names or out-of-range values".
BaseART.set_params was written so that "a rejected call must leave the estimator
unchanged" (comment in the source: it validates before it assigns).  The other
set_params implementations do not keep that promise:

 (a) BaseARTMAP.set_params (SimpleARTMAP, ARTMAP) and DeepARTMAP.set_params assign
     every own parameter inside the loop that is still looking for unknown names:
     set_params(module_a=NEW, nope=1) raises ValueError AFTER module_a was replaced.
 (b) every implementation (BaseART, BaseARTMAP, DeepARTMAP, BARTMAP) applies the
     nested groups one after the other: with two sub-estimators
     set_params(module_a__rho=0.2, module_b__rho=7.0) changes module_a and then raises
     for module_b (same for FusionART / DeepARTMAP / SMART module_0__, module_1__, and
     for an unknown nested name in the second group).
The caller gets an exception, i.e. the call was refused, but the estimator no longer has
the hyper-parameters it had before.
"""
import sys, warnings
sys.path.insert(0, sys.argv[1])
warnings.filterwarnings("ignore")
from artlib import FuzzyART, SimpleARTMAP, ARTMAP, DeepARTMAP, SMART, FusionART, BARTMAP

F = lambda rho=0.6: FuzzyART(rho, 1e-3, 1.0)
bad = []


def snapshot(est):
    out = {}
    for k, v in est.get_params().items():
        out[k] = id(v) if hasattr(v, "get_params") else repr(v)
    return out


def attempt(label, est, expected_exc, **kw):
    before = snapshot(est)
    try:
        est.set_params(**kw)
    except expected_exc:
        after = snapshot(est)
        if after != before:
            changed = sorted(k for k in before if before[k] != after.get(k))
            bad.append(f"{label}: call rejected ({expected_exc.__name__}) but these parameters changed: {changed}")
        return
    bad.append(f"{label}: call was not rejected at all")


# (a) own parameter applied before the unknown name is noticed
attempt("SimpleARTMAP.set_params(module_a=NEW, nope=1)", SimpleARTMAP(F()), ValueError, module_a=F(0.1), nope=1)
attempt("ARTMAP.set_params(module_b=NEW, nope=1)", ARTMAP(F(), F()), ValueError, module_b=F(0.1), nope=1)
# (b) first nested group applied, second one rejected
attempt("ARTMAP.set_params(module_a__rho=0.2, module_b__rho=7.0)", ARTMAP(F(), F()), AssertionError,
        module_a__rho=0.2, module_b__rho=7.0)
attempt("ARTMAP.set_params(module_a__rho=0.2, module_b__nope=1)", ARTMAP(F(), F()), ValueError,
        module_a__rho=0.2, module_b__nope=1)
attempt("BARTMAP.set_params(module_a__rho=0.2, module_b__rho=7.0)", BARTMAP(F(), F(), 0.1), AssertionError,
        module_a__rho=0.2, module_b__rho=7.0)
attempt("FusionART.set_params(module_0__rho=0.2, module_1__rho=7.0)",
        FusionART([F(), F()], [0.5, 0.5], [4, 4]), AssertionError, module_0__rho=0.2, module_1__rho=7.0)
attempt("DeepARTMAP.set_params(module_0__rho=0.2, module_1__rho=7.0)", DeepARTMAP([F(), F(0.8)]), AssertionError,
        module_0__rho=0.2, module_1__rho=7.0)
attempt("SMART.set_params(module_0__rho=0.2, module_1__nope=1)",
        SMART(FuzzyART, [0.3, 0.6, 0.9], {"alpha": 1e-3, "beta": 1.0}), ValueError, module_0__rho=0.2, module_1__nope=1)

# control: the elementary modules are atomic
e = F()
try:
    e.set_params(rho=0.2, beta=7.0)
except AssertionError:
    assert e.rho == 0.6

if bad:
    print("C19 VIOLATION (rejected set_params call is partially applied):")
    for m in bad:
        print("  -", m)
    sys.exit(1)
sys.exit(0)

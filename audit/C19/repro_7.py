"""C19 repro 7: get_params() does not expose constructor hyper-parameters, so they can
neither be read, nor set, nor reached as module__name.

(The already known consequence "sklearn.clone fails for the compound estimators" is NOT
what is tested here; this script checks the get_params / set_params / attribute clauses.)

  SMART(base_ART_class, rho_values, base_params)  exposes none of its three arguments;
      set_params(rho_values=...) is rejected as an unknown name, and after
      set_params(module_0__rho=...) the attribute smart.rho_values is stale.
  FusionART(modules, gamma_values, channel_dims)  does not expose channel_dims.
  TopoART(base_module, ...) / CVIART(base_module, validity)  do not expose base_module,
      hence no base_module__<name> entries either: set_params(base_module=...) and
      set_params(base_module__alpha=...) are rejected as unknown names.
  FALCON / TD_FALCON (public, exported in artlib.__all__, have fit/partial_fit) implement
      no get_params / set_params at all.
"""
import sys, warnings, io, contextlib, inspect
sys.path.insert(0, sys.argv[1] if len(sys.argv) > 1 else ".")
warnings.filterwarnings("ignore")
import numpy as np
from artlib import FuzzyART, SMART, FusionART, TopoART, CVIART, FALCON, TD_FALCON

bad = []
FA = lambda r=0.5: FuzzyART(r, 0.01, 1.0)

def ctor_args(obj):
    return [p for p in inspect.signature(type(obj).__init__).parameters if p not in ("self", "kwargs")]

with contextlib.redirect_stdout(io.StringIO()):      # CVIART.__init__ prints
    cvi = CVIART(FA(), CVIART.CALINSKIHARABASZ)
objs = {
    "SMART": SMART(FuzzyART, [0.3, 0.6], {"alpha": 0.01, "beta": 1.0}),
    "FusionART": FusionART([FA(), FA()], [0.5, 0.5], [4, 4]),
    "TopoART": TopoART(FA(), 0.5, 10, 3),
    "CVIART": cvi,
}
for name, m in objs.items():
    missing = [a for a in ctor_args(m) if a not in m.get_params()]
    # `modules` is exposed element-wise as module_<i>; do not count it
    missing = [a for a in missing if a != "modules"]
    if missing:
        bad.append(f"{name}: get_params() lacks constructor hyper-parameter(s) {missing}")

s = objs["SMART"]
try:
    s.set_params(rho_values=[0.4, 0.7])
except ValueError:
    bad.append("SMART: set_params(rho_values=[0.4, 0.7]) rejected as an unknown name")
s.set_params(module_0__rho=0.45)
if list(s.rho_values) != [mod.rho for mod in s.modules]:
    bad.append(f"SMART: attribute rho_values={list(s.rho_values)} but the layers use {[mod.rho for mod in s.modules]}")

try:
    objs["FusionART"].set_params(channel_dims=[4, 4])       # current value: must be a no-op
except ValueError:
    bad.append("FusionART: set_params(channel_dims=<current value>) rejected as an unknown name")

for name in ("TopoART", "CVIART"):
    m = objs[name]
    for kw in ({"base_module": FA(0.7)}, {"base_module__alpha": 0.02}):
        try:
            m.set_params(**kw)
        except ValueError:
            bad.append(f"{name}: set_params({list(kw)[0]}=...) rejected as an unknown name")

for cls in (FALCON, TD_FALCON):
    f = cls(FA(), FA(), FA(), channel_dims=[4, 2, 2])
    lacking = [n for n in ("get_params", "set_params") if not hasattr(f, n)]
    if lacking:
        bad.append(f"{cls.__name__}: has fit/partial_fit but no {lacking}")

if bad:
    print("C19 VIOLATION (repro_7):")
    for x in bad:
        print("  -", x)
    sys.exit(1)
print("ok")

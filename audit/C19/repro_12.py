"""C19 violation (new trigger of the known TopoART two-copies defect): FIT permanently
rewrites a constructor hyper-parameter of a nested module.

Clauses concerned: "get_params exposes the constructor hyper-parameters", "set_params with
those values is a no-op" / "behave exactly like one constructed with them": after one
supervised fit the estimator reports the same hyper-parameters as a fresh one but no
longer behaves like it.

When a TopoART is a FusionART channel (or the base of a DualVigilanceART) and the
composite is trained with match tracking (SimpleARTMAP, any of MT+ / MT- / MT0 / MT1),
the driver saves and restores `module.params` of the TopoART (the wrapper's copy), while
TopoART._match_tracking writes into `module.base_module.params["rho"]`.  Nothing ever
restores that dict: after fit the innermost module keeps rho = last tracked value
(rho = inf with MT1).  get_params() of the composite and of the TopoART still say
rho = 0.6.  Used afterwards (e.g. the TopoART re-fitted on its own, which reads
base_module.params) it behaves unlike an estimator constructed with the very same
get_params() values.
"""
import sys, io, contextlib, warnings
sys.path.insert(0, sys.argv[1])
warnings.filterwarnings("ignore")
import numpy as np
from artlib import FuzzyART, TopoART, DualVigilanceART, FusionART, SimpleARTMAP

cc = lambda A: np.hstack([A, 1 - A])
rs = np.random.RandomState(1)
R = rs.rand(40, 4)
X = np.hstack([cc(R[:, :2]), cc(R[:, 2:])])
y = np.random.RandomState(3).randint(0, 3, 40)
Z = cc(np.random.RandomState(5).rand(30, 2))
bad = []

with contextlib.redirect_stdout(io.StringIO()):  # TopoART.prune prints
    for mt in ("MT+", "MT1"):
        # --- TopoART as a FusionART channel
        topo = TopoART(FuzzyART(0.6, 1e-3, 1.0), 0.3, 5, 2)
        m = SimpleARTMAP(FusionART([FuzzyART(0.6, 1e-3, 1.0), topo], [0.5, 0.5], [4, 4]))
        reported_before = {k: v for k, v in m.get_params().items() if isinstance(v, (int, float))}
        m.fit(X, y, match_tracking=mt, epsilon=1e-6)
        reported_after = {k: v for k, v in m.get_params().items() if isinstance(v, (int, float))}
        inner = topo.base_module.params["rho"]
        if inner != 0.6:
            bad.append(
                f"SimpleARTMAP(FusionART([Fuzzy, TopoART(Fuzzy(rho=0.6))])).fit(match_tracking={mt!r}): "
                f"inner FuzzyART rho is now {inner}; get_params unchanged: {reported_before == reported_after}"
            )
            fresh = TopoART(FuzzyART(0.6, 1e-3, 1.0), 0.3, 5, 2)
            same_params = topo.get_params() == fresh.get_params()
            topo.fit(Z), fresh.fit(Z)
            if topo.n_clusters != fresh.n_clusters:
                bad.append(
                    f"  that TopoART re-fitted alone: {topo.n_clusters} clusters, a fresh TopoART with equal "
                    f"get_params() ({same_params}): {fresh.n_clusters} clusters"
                )
        # --- TopoART as base of DualVigilanceART
        topo = TopoART(FuzzyART(0.6, 1e-3, 1.0), 0.3, 5, 2)
        m = SimpleARTMAP(DualVigilanceART(topo, 0.2))
        m.fit(X[:, :4], y, match_tracking=mt, epsilon=1e-6)
        inner = topo.base_module.params["rho"]
        if inner != 0.6:
            bad.append(f"SimpleARTMAP(DualVigilanceART(TopoART(Fuzzy(rho=0.6)))).fit({mt!r}): inner FuzzyART rho is now {inner}")

if bad:
    print("C19 VIOLATION (fit rewrites a nested constructor hyper-parameter):")
    for msg in bad:
        print("  -", msg)
    sys.exit(1)
sys.exit(0)

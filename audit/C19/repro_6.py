"""C19 repro 6: BaseART.get_params() hands out the estimator's LIVE parameter dict.

For every elementary module (FuzzyART, ART1, ART2A, BayesianART, GaussianART,
EllipsoidART, HypersphereART, QuadraticNeuronART, iCVIFuzzyART) and for TopoART /
CVIART, get_params() returns `self.params` itself.  Consequences inside C19:

 (a) sklearn.clone() does not yield an independent copy: clone() writes deep copies of
     the values back into the dict get_params() gave it (= the original's own dict) and
     builds the clone from the very same objects, so the original and its clone end up
     SHARING the ndarray hyper-parameter (GaussianART.sigma_init, BayesianART.cov_init);
     changing it in place on the clone changes the original and its next fit.
 (b) the values "exposed" by get_params are not a snapshot: the standard
     save / modify / restore idiom  old = get_params(); set_params(rho=..);
     set_params(**old)  does not restore anything, because `old` was modified too.
 (c) writing into the returned dict changes the estimator without any validation.
"""
import sys, warnings
sys.path.insert(0, sys.argv[1] if len(sys.argv) > 1 else ".")
warnings.filterwarnings("ignore")
import numpy as np
from sklearn.base import clone
from artlib import FuzzyART, GaussianART, BayesianART

bad = []
X = np.random.default_rng(0).random((30, 2))

# (a) clone is not independent ------------------------------------------------
m = GaussianART(0.3, np.array([0.3, 0.3]))
labels_before = GaussianART(0.3, np.array([0.3, 0.3])).fit(X).labels_.copy()
c = clone(m)
if c.sigma_init is m.sigma_init:
    c.sigma_init[:] = 0.01          # tune the CLONE's hyper-parameter array in place
    labels_after = m.fit(X).labels_
    bad.append("GaussianART: clone(m).sigma_init is the same ndarray object as m.sigma_init; "
               f"after changing the clone's array the ORIGINAL has sigma_init={m.sigma_init} and fits to "
               f"{len(set(labels_after))} clusters instead of {len(set(labels_before))}")
b = BayesianART(0.05, 0.05 * np.eye(2))
if clone(b).cov_init is b.cov_init:
    bad.append("BayesianART: clone(b).cov_init is the same ndarray object as b.cov_init")

# (b) save / modify / restore -------------------------------------------------
f = FuzzyART(0.5, 0.01, 1.0)
old = f.get_params()
f.set_params(rho=0.9)
f.set_params(**old)
if f.rho != 0.5:
    bad.append(f"FuzzyART: old=get_params(); set_params(rho=0.9); set_params(**old) leaves rho={f.rho} (expected 0.5)")

# (c) unvalidated write-through --------------------------------------------------
f = FuzzyART(0.5, 0.01, 1.0)
f.get_params()["rho"] = -3.0
if f.rho != 0.5:
    bad.append(f"FuzzyART: writing into the dict returned by get_params() changed the estimator to rho={f.rho}")

if bad:
    print("C19 VIOLATION (repro_6):")
    for x in bad:
        print("  -", x)
    sys.exit(1)
print("ok")

"""C19 repro 8 (low severity): fitted state that is a VIEW of the caller's training array.

CVIART.fit stores `self.data = X`, BARTMAP.fit stores `self.X = X`, and iCVIFuzzyART.fit
stores row views of X in `self.iCVI.CD[label]["v"]` (centroid of every one-sample
cluster; also `iCVI.mu` for a one-row fit).  Mutating the training array after fit
therefore changes the fitted model's state (a pickle taken before the mutation and
the live model no longer compare equal).  predict() is not affected - the aliased
attributes are only read during fit - so this is a violation of the letter of
"a fitted model owns its state / is unaffected by later mutation of the training
array", not of its predictions.
"""
import sys, warnings, io, contextlib, pickle
sys.path.insert(0, sys.argv[1] if len(sys.argv) > 1 else ".")
warnings.filterwarnings("ignore")
import numpy as np
from artlib import FuzzyART, CVIART, BARTMAP, iCVIFuzzyART, compliment_code

bad = []
rng = np.random.default_rng(0)

# CVIART
X = compliment_code(rng.random((20, 2)))
with contextlib.redirect_stdout(io.StringIO()):
    cvi = CVIART(FuzzyART(0.5, 0.01, 1.0), CVIART.CALINSKIHARABASZ).fit(X)
snap = pickle.loads(pickle.dumps(cvi))
X[:] = 0.5
if not np.array_equal(cvi.data, snap.data):
    bad.append("CVIART: model.data changed when the training array was overwritten after fit "
               f"(shares memory: {np.shares_memory(cvi.data, X)})")

# BARTMAP
Xm = rng.random((12, 12))
with contextlib.redirect_stdout(io.StringIO()):
    b = BARTMAP(FuzzyART(0.3, 0.01, 1.0), FuzzyART(0.3, 0.01, 1.0), 0.0).fit(Xm)
snap = pickle.loads(pickle.dumps(b))
Xm[:] = 0.5
if not np.array_equal(b.X, snap.X):
    bad.append("BARTMAP: model.X changed when the training array was overwritten after fit")

# iCVIFuzzyART
for offline in (True, False):
    X = compliment_code(rng.random((30, 2)))
    m = iCVIFuzzyART(0.9, 0.01, 1.0, 1, offline=offline).fit(X)
    snap = pickle.loads(pickle.dumps(m))
    X[:] = 0.5
    changed = [k for k in m.iCVI.CD if not np.array_equal(m.iCVI.CD[k]["v"], snap.iCVI.CD[k]["v"])]
    if changed:
        bad.append(f"iCVIFuzzyART(offline={offline}): iCVI.CD[k]['v'] changed for clusters {changed} "
                   "when the training array was overwritten after fit")

if bad:
    print("C19 VIOLATION (repro_8):")
    for x in bad:
        print("  -", x)
    sys.exit(1)
print("ok")

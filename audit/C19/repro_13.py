"""C19 violation (further instance of the known "set_params accepts what the constructor
rejects" family, not in the known list): SMART's ordering constraint on the vigilance
ladder.

Clause broken: "set_params ... rejects ... out-of-range values" / "behave exactly like one
constructed with them".

SMART.__init__ asserts that rho_values is strictly increasing (decreasing for
BayesianART) - the hierarchy is meaningless otherwise.  The only way get_params offers to
change a layer's vigilance is module_<i>__rho, which goes straight to that layer's
module: set_params(module_0__rho=0.95) on SMART(FuzzyART, [0.3, 0.6, 0.9]) is accepted
although SMART(FuzzyART, [0.95, 0.6, 0.9]) is rejected by the constructor; in addition the
public attribute `rho_values` keeps the old ladder, so the estimator now disagrees with
itself.
"""
import sys, warnings
sys.path.insert(0, sys.argv[1])
warnings.filterwarnings("ignore")
from artlib import FuzzyART, SMART

bad = []
base = {"alpha": 1e-3, "beta": 1.0}
try:
    SMART(FuzzyART, [0.95, 0.6, 0.9], base)
    ctor_rejects = False
except AssertionError:
    ctor_rejects = True
s = SMART(FuzzyART, [0.3, 0.6, 0.9], base)
try:
    s.set_params(module_0__rho=0.95)
    accepted = True
except (AssertionError, ValueError):
    accepted = False
if ctor_rejects and accepted:
    bad.append(
        "SMART(FuzzyART,[0.95,0.6,0.9]) is rejected by the constructor, but set_params(module_0__rho=0.95) "
        f"is accepted: layer rhos {[m.rho for m in s.modules]}, rho_values attribute still {list(s.rho_values)}"
    )
if bad:
    print("C19 VIOLATION (SMART ladder constraint not enforced by set_params):")
    for m in bad:
        print("  -", m)
    sys.exit(1)
sys.exit(0)

"""C20 repro 1: a distance callable that returns the full (square) pairwise
distance matrix -- e.g. sklearn.metrics.pairwise_distances or
lambda X: cdist(X, X) -- makes VAT raise ValueError on perfectly valid data.
VAT pipes the callable's output through scipy squareform unconditionally;
squareform turns a valid square distance matrix into a condensed VECTOR, and
the subsequent `ix, jx = np.unravel_index(argmax, shape)` fails to unpack.
Usage: python repro_1.py <library root>
"""
import sys
sys.path.insert(0, sys.argv[1])
import numpy as np
from scipy.spatial.distance import cdist
from artlib import VAT

X = np.array([[0.0, 0.0], [1.0, 0.0], [0.0, 2.0], [3.0, 3.0]])
callables = {"cdist(X, X)": lambda X: cdist(X, X)}
try:
    from sklearn.metrics import pairwise_distances
    callables["sklearn.metrics.pairwise_distances"] = pairwise_distances
except ImportError:
    pass

bad = False
for name, f in callables.items():
    D = np.asarray(f(X))
    try:
        R, P = VAT(X, f)
    except Exception as e:  # noqa
        print(f"VIOLATION: VAT(X, {name}) raised {type(e).__name__}: {e}")
        bad = True
        continue
    P = np.asarray(P)
    if sorted(P.tolist()) != list(range(len(X))) or not np.array_equal(
        np.asarray(R), D[np.ix_(P, P)]
    ):
        print(f"VIOLATION: VAT(X, {name}) returned a wrong permutation/matrix")
        bad = True
sys.exit(1 if bad else 0)

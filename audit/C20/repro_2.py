"""C20 repro 2 (BORDERLINE): a standard scipy metric that yields NaN for some
pairs (cosine with an all-zero row, correlation with a constant row) breaks the
Prim clause among the well-defined distances: np.argmin treats NaN as the
minimum, so a sample at NaN "distance" is appended ahead of a strictly closer
sample whose distance to the visited set is a finite number.
Usage: python repro_2.py <library root>
"""
import sys
sys.path.insert(0, sys.argv[1])
import numpy as np
from scipy.spatial.distance import pdist, squareform
from artlib import VAT

X = np.array([[0.0, 0.0], [1.0, 0.0], [0.0, 1.0], [1.0, 1.0]])
f = lambda X: pdist(X, "cosine")
D = squareform(f(X))
R, P = VAT(X, f)
P = list(map(int, P))
bad = False
for k in range(1, len(P)):
    vis, rem = P[:k], P[k:]
    sub = D[np.ix_(vis, rem)]
    if np.all(np.isnan(sub)):
        continue
    best = np.nanmin(sub)
    got = D[vis, P[k]]
    got = np.nanmin(got) if not np.all(np.isnan(got)) else np.nan
    if not (got == best):
        print(f"VIOLATION (borderline, NaN dissimilarities): order {P}; at step {k} "
              f"sample {P[k]} appended with distance {got} to the visited set {vis}, "
              f"but an unvisited sample at distance {best} exists")
        bad = True
sys.exit(1 if bad else 0)

"""C16 repro 3: FALCON.get_action re-normalises the SUPPLIED action space with the action
space's own column min/max when the action module has no stored bounds (and stores them):
it evaluates other actions than the ones supplied, returns a non-greedy action, and a
singleton action space raises and poisons the module."""
import sys, warnings
sys.path.insert(0, sys.argv[1])
import numpy as np
from artlib import FALCON, FuzzyART, compliment_code
warnings.simplefilter("ignore")

def mk():
    m = FALCON(FuzzyART(0.9, 0.01, 1.0), FuzzyART(0.9, 0.01, 1.0), FuzzyART(0.0, 0.01, 1.0),
               channel_dims=[2, 2, 2])
    # states/actions already live in [0,1] and are complement-coded by hand;
    # only the rewards go through prepare_data (they span [0,1], so bounds are (0,1)).
    s = compliment_code(np.full((4, 1), 0.1))
    a = compliment_code(np.array([[0.0], [0.2], [0.4], [1.0]]))
    r = m.fusion_art.modules[2].prepare_data(np.array([[0.0], [0.9], [0.3], [1.0]]))
    m.fit(s, a, r)
    return m, s

bad = False
m, s = mk()
space = np.array([[0.2], [0.4]])
q = m.get_rewards(np.repeat(s[:1], 2, 0), compliment_code(space)).ravel()   # [0.9, 0.3]
greedy = space[int(np.argmax(q))]
_, reported = m.get_actions_and_rewards(s[0], action_space=space)
got = m.get_action(s[0], action_space=space)
print("Q(s, 0.2), Q(s, 0.4) =", q, "-> greedy action", greedy)
print("get_actions_and_rewards reports", reported.ravel(), "; get_action returns", got)
print("action module bounds after the query:", m.fusion_art.modules[1].d_min_, m.fusion_art.modules[1].d_max_)
if not np.array_equal(got, greedy):
    print("VIOLATION: get_action is not the arg-max member of the supplied action space")
    bad = True

m, s = mk()
try:
    m.get_action(s[0], action_space=np.array([[0.2]]))
except Exception as e:
    print(f"VIOLATION: singleton action space raises {type(e).__name__}: {e}")
    bad = True
    try:
        m.get_action(s[0], action_space=np.array([[0.2], [0.4]]))
    except Exception as e2:
        print(f"VIOLATION: ... and every later query now fails too ({type(e2).__name__}: {e2}); "
              f"stored bounds {m.fusion_art.modules[1].d_min_}, {m.fusion_art.modules[1].d_max_}")
sys.exit(1 if bad else 0)

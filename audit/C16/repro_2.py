"""C16 repro 2: TD_FALCON mixes units.  Q(s,a) = get_rewards(...) is DE-normalised with the
reward module's (d_min_, d_max_) while r and the fitted target live in the normalised
reward-channel coordinates.  With td_alpha = 0 the target must reproduce the value the
reward channel already stores (no learning); instead a different value is fitted and the
prediction drifts."""
import sys
sys.path.insert(0, sys.argv[1])
import numpy as np
from artlib import TD_FALCON, FuzzyART

def run(R):
    m = TD_FALCON(FuzzyART(1.0, 0.01, 1.0), FuzzyART(1.0, 0.01, 1.0), FuzzyART(0.0, 0.01, 1.0),
                  channel_dims=[2, 2, 2], td_alpha=1.0, td_lambda=0.0)
    S = np.array([[0.0], [0.5], [1.0]])
    A = np.array([[0.0], [1.0], [0.0]])
    s, a, r = m.prepare_data(S, A, R)          # the documented route
    m.partial_fit(s, a, r)                     # episode 1 (untrained): targets = normalised r
    w_before = [w.copy() for w in m.fusion_art.modules[2].W]
    q_before = m.get_rewards(s[:2], a[:2]).ravel()
    m.td_alpha = 0.0                           # no TD learning: target must be clip(Q(s,a))
    _, _, tgt = m.calculate_SARSA(s, a, r)
    stored = np.array([(w[0] + (1 - w[1])) / 2 for w in w_before])   # reward-channel centres
    m.partial_fit(s, a, r)
    q_after = m.get_rewards(s[:2], a[:2]).ravel()
    return stored, tgt[:, 0], q_before, q_after

bad = False
# rewards inside the unit cube, but not spanning it: d_min_=0.5, d_max_=1.0
stored, tgt, qb, qa = run(np.array([[0.75], [1.0], [0.5]]))
print("reward-channel centres stored :", stored)
print("targets fitted with td_alpha=0:", tgt)
print("get_rewards before / after    :", qb, qa)
if not np.allclose(stored, tgt):
    print("VIOLATION: with td_alpha=0 the target is not the stored reward-channel value "
          "(Q is in raw units, the channel is in normalised units)")
    bad = True
if not np.allclose(qb, qa):
    print("VIOLATION: predictions drift although td_alpha=0 (no learning)")
    bad = True
# control: same trajectory shape but rewards spanning [0,1] -> consistent
stored, tgt, qb, qa = run(np.array([[0.5], [1.0], [0.0]]))
assert np.allclose(stored, tgt) and np.allclose(qb, qa), "control failed"
sys.exit(1 if bad else 0)

"""C16 repro 4: with a reward channel of more than one dimension get_action applies
np.argmax to the flattened (n_actions x reward_dim) array and indexes the action space
with the flat index: it returns a row unrelated to any ordering of the rewards, or raises
IndexError."""
import sys
sys.path.insert(0, sys.argv[1])
import numpy as np
from artlib import FALCON, FuzzyART

def run(R):
    m = FALCON(FuzzyART(1.0, 0.01, 1.0), FuzzyART(1.0, 0.01, 1.0), FuzzyART(0.0, 0.01, 1.0),
               channel_dims=[2, 2, 4])
    for k, d in enumerate([1, 1, 2]):   # unit-cube bounds (a constant column would give NaN, see repro 5)
        m.fusion_art.modules[k].d_min_ = np.zeros(d); m.fusion_art.modules[k].d_max_ = np.ones(d)
    S = np.array([[0.5], [0.5], [0.5]]); A = np.array([[0.0], [0.5], [1.0]])
    s, a, r = m.prepare_data(S, A, R)
    m.fit(s, a, r)
    print("predicted reward vectors per action 0, 0.5, 1:", np.round(m.get_rewards(s, a), 3).tolist())
    return m.get_action(s[0], action_space=A)

bad = False
act = run(np.array([[0.0, 1.0], [0.3, 0.2], [1.0, 0.0]]))
print("get_action returned", act)
if act[0] == 0.5:
    print("VIOLATION: returned the action whose reward is maximal in NO component "
          "(flat arg-max index 1 used as a row index)")
    bad = True
try:
    run(np.array([[0.1, 0.2], [0.3, 0.9], [0.95, 0.0]]))
except IndexError as e:
    print("VIOLATION: get_action raises IndexError:", e)
    bad = True
sys.exit(1 if bad else 0)

"""C16 repro 1: FALCON / TD_FALCON queries crash when the reward FuzzyART module has no
normalisation bounds (data complement-coded by hand, as in examples/demo_reinforcement_learning.py).
TD_FALCON.partial_fit therefore raises TypeError on the SECOND episode."""
import sys
sys.path.insert(0, sys.argv[1])
import numpy as np
from artlib import TD_FALCON, FALCON, FuzzyART, compliment_code

bad = []

def mk(cls):
    return cls(FuzzyART(0.9, 0.01, 1.0), FuzzyART(0.9, 0.01, 1.0), FuzzyART(0.0, 0.01, 1.0),
               channel_dims=[2, 2, 2])

# valid unit-cube trajectory, complement-coded (valid FuzzyART input)
s = compliment_code(np.array([[0.1], [0.5], [0.9]]))
a = compliment_code(np.array([[0.0], [1.0], [0.0]]))
r = compliment_code(np.array([[0.2], [0.4], [0.6]]))

m = mk(TD_FALCON)
m.partial_fit(s, a, r)            # episode 1: fine (Q = 0 branch)
try:
    m.partial_fit(s, a, r)        # episode 2: needs Q = get_rewards(...)
except Exception as e:
    bad.append(f"TD_FALCON.partial_fit, 2nd episode: {type(e).__name__}: {e}")

f = mk(FALCON).fit(s, a, r)
for name, call in [
    ("FALCON.get_rewards", lambda: f.get_rewards(s, a)),
    ("FALCON.get_action", lambda: f.get_action(s[0], action_space=np.array([[0.0], [1.0]]))),
]:
    try:
        call()
    except Exception as e:
        bad.append(f"{name}: {type(e).__name__}: {e}")

if bad:
    print("VIOLATION: exception on valid unit-cube input after ordinary training")
    for b in bad:
        print("  ", b)
    sys.exit(1)
sys.exit(0)

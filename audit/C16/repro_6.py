"""C16 repro 6 (FuzzyART-level, surfaces through FALCON): alpha=0.0 is accepted by
validate_params; once a state/action weight has grown to the whole unit box (|w| = 0,
reachable with rho = 0) category_choice divides 0.0/0.0 with Python floats and every
further partial_fit / get_rewards / get_action raises ZeroDivisionError."""
import sys
sys.path.insert(0, sys.argv[1])
import numpy as np
from artlib import TD_FALCON, FuzzyART, compliment_code

m = TD_FALCON(FuzzyART(0.0, 0.0, 1.0), FuzzyART(0.0, 0.0, 1.0), FuzzyART(0.0, 0.01, 1.0),
              channel_dims=[2, 2, 2])
for k in range(3):
    m.fusion_art.modules[k].d_min_ = np.zeros(1); m.fusion_art.modules[k].d_max_ = np.ones(1)
s = compliment_code(np.array([[0.0], [1.0], [0.5]]))
a = compliment_code(np.array([[0.0], [1.0], [0.5]]))
r = compliment_code(np.array([[0.2], [0.4], [0.6]]))
try:
    m.partial_fit(s, a, r)
    m.partial_fit(s, a, r)
    m.get_action(s[0], action_space=np.array([[0.0], [1.0]]))
except ZeroDivisionError as e:
    print("VIOLATION: ZeroDivisionError with alpha=0.0 (accepted by validation):", e)
    sys.exit(1)
sys.exit(0)

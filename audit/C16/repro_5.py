"""C16 repro 5: the documented preparation route freezes the normalisation bounds at the
first episode.  (a) a first episode with a constant reward (typical: all zeros) yields NaN
and partial_fit raises; (b) a later unit-cube episode that leaves the first episode's
range, or an action-space member outside it, raises AssertionError."""
import sys, warnings
sys.path.insert(0, sys.argv[1])
import numpy as np
from artlib import TD_FALCON, FuzzyART
warnings.simplefilter("ignore")

def mk():
    return TD_FALCON(FuzzyART(0.9, 0.01, 1.0), FuzzyART(0.9, 0.01, 1.0), FuzzyART(0.0, 0.01, 1.0),
                     channel_dims=[2, 2, 2])
bad = []
S = np.array([[0.2], [0.5], [0.8]]); A = np.array([[0.0], [1.0], [0.0]])

m = mk()
try:
    m.partial_fit(*m.prepare_data(S, A, np.zeros((3, 1))))
except Exception as e:
    bad.append(f"(a) constant first-episode reward: {type(e).__name__}: {e}")

m = mk()
m.partial_fit(*m.prepare_data(S, A, np.array([[0.2], [0.4], [0.6]])))
try:
    m.partial_fit(*m.prepare_data(np.array([[0.3], [0.9], [0.1]]), A, np.array([[0.2], [0.4], [0.6]])))
except Exception as e:
    bad.append(f"(b) second episode leaves first episode's state range: {type(e).__name__}: {e}")

m = mk()
A2 = np.array([[0.2], [0.6], [0.4]])
s, a, r = m.prepare_data(S, A2, np.array([[0.0], [1.0], [0.5]]))
m.partial_fit(s, a, r)
try:
    m.get_action(s[0], action_space=np.array([[0.0], [0.5], [1.0]]))
except Exception as e:
    bad.append(f"(b') unit-cube action space wider than the trained actions: {type(e).__name__}: {e}")

if bad:
    print("VIOLATION: exception on valid unit-cube input")
    for b in bad: print("  ", b)
    sys.exit(1)
sys.exit(0)

"""C16 repro 7 (interpretation-dependent): before any training the target of an episode of
length >= 2 is clip(td_alpha * r), not r; for an episode of length 1 it is r.  Only a
violation if "(r alone before any training)" is read as target == r."""
import sys
sys.path.insert(0, sys.argv[1])
import numpy as np
from artlib import TD_FALCON, FuzzyART, compliment_code

m = TD_FALCON(FuzzyART(0.9, 0.01, 1.0), FuzzyART(0.9, 0.01, 1.0), FuzzyART(0.0, 0.01, 1.0),
              channel_dims=[2, 2, 2], td_alpha=0.5, td_lambda=1.0)
s = compliment_code(np.array([[0.1], [0.5], [0.9]]))
a = compliment_code(np.array([[0.0], [1.0], [0.0]]))
r = compliment_code(np.array([[0.2], [0.4], [0.6]]))
t3 = m.calculate_SARSA(s, a, r)[2][:, 0]
t1 = m.calculate_SARSA(s[:1], a[:1], r[:1])[2][:, 0]
print("untrained, length 3: targets", t3, "(r = [0.2 0.4])")
print("untrained, length 1: target ", t1, "(r = [0.2])")
sys.exit(1 if not np.allclose(t3, [0.2, 0.4]) else 0)

"""SimpleARTMAP.partial_fit keeps the label dtype of the first batch: later labels are
silently wrapped / truncated in labels_ (and disagree with map)."""
import sys, warnings, io, contextlib
sys.path.insert(0, sys.argv[1] if len(sys.argv) > 1 else ".")
warnings.filterwarnings("ignore")
import numpy as np

def quiet(f, *a, **k):
    with contextlib.redirect_stdout(io.StringIO()):
        return f(*a, **k)

def cc(X):
    return np.hstack([X, 1.0 - X])

from artlib import SimpleARTMAP, FuzzyART, DeepARTMAP

rng = np.random.default_rng(0)
X = cc(rng.random((6, 2)))
y1 = np.array([0, 1, 2], dtype=np.int8)       # e.g. pandas categorical codes of a small first batch
y2 = np.array([300, 301, 0], dtype=np.int64)
y = np.concatenate([y1, y2])                   # int64: [0 1 2 300 301 0]

A = SimpleARTMAP(FuzzyART(0.5, 1e-3, 1.0)).fit(X, y)
B = SimpleARTMAP(FuzzyART(0.5, 1e-3, 1.0))
B.partial_fit(X[:3], y1)
B.partial_fit(X[3:], y2)

Ad = DeepARTMAP([FuzzyART(0.5, 1e-3, 1.0)]).fit([X], y)
Bd = DeepARTMAP([FuzzyART(0.5, 1e-3, 1.0)])
Bd.partial_fit([X[:3]], y1)
Bd.partial_fit([X[3:]], y2)

bad = []
if not np.array_equal(A.labels_, B.labels_):
    bad.append(f"SimpleARTMAP labels_: fit {A.labels_} vs partial_fit {B.labels_} (dtype {B.labels_.dtype}); "
               f"map after partial_fit {dict(B.map)} no longer agrees with labels_")
if not np.array_equal(Ad.labels_, Bd.labels_):
    bad.append(f"DeepARTMAP(supervised) labels_: fit {Ad.labels_} vs partial_fit {Bd.labels_}")
if bad:
    print("VIOLATION:", *bad, sep="\n  ")
    sys.exit(1)
print("ok")

"""TopoART accepts tau=0 (phi<=tau, both int): fit raises ZeroDivisionError, partial_fit trains."""
import sys, warnings, io, contextlib
sys.path.insert(0, sys.argv[1] if len(sys.argv) > 1 else ".")
warnings.filterwarnings("ignore")
import numpy as np

def quiet(f, *a, **k):
    with contextlib.redirect_stdout(io.StringIO()):
        return f(*a, **k)

def cc(X):
    return np.hstack([X, 1.0 - X])

from artlib import FuzzyART, TopoART

rng = np.random.default_rng(0)
X = cc(rng.random((12, 2)))
B = TopoART(FuzzyART(0.7, 1e-3, 1.0), 0.5, 0, 0)
quiet(B.partial_fit, X)
A = TopoART(FuzzyART(0.7, 1e-3, 1.0), 0.5, 0, 0)
try:
    quiet(A.fit, X)
except ZeroDivisionError as ex:
    print(f"VIOLATION: TopoART(tau=0, phi=0) passes validate_params; partial_fit(X) -> {len(B.W)} categories, "
          f"fit(X) -> ZeroDivisionError: {ex}")
    sys.exit(1)
print("ok")

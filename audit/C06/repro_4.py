"""fit on a previously used estimator refuses data with another number of features
(dim_ is never reset), a fresh estimator with the same hyper-parameters fits it."""
import sys, warnings, io, contextlib
sys.path.insert(0, sys.argv[1] if len(sys.argv) > 1 else ".")
warnings.filterwarnings("ignore")
import numpy as np

def quiet(f, *a, **k):
    with contextlib.redirect_stdout(io.StringIO()):
        return f(*a, **k)

def cc(X):
    return np.hstack([X, 1.0 - X])

from artlib import FuzzyART, HypersphereART, ART1, SimpleARTMAP, EllipsoidART, QuadraticNeuronART

rng = np.random.default_rng(0)
cases = {
    "FuzzyART": (lambda: FuzzyART(0.5, 1e-3, 1.0), cc),
    "HypersphereART": (lambda: HypersphereART(0.5, 1e-3, 1.0, 2.0), lambda X: X),
    "EllipsoidART": (lambda: EllipsoidART(0.5, 1e-3, 1.0, 0.8, 3.0), lambda X: X),
    "QuadraticNeuronART": (lambda: QuadraticNeuronART(0.5, 0.5, 0.1, 0.1, 0.1), lambda X: X),
    "ART1": (lambda: ART1(0.5, 2.0), lambda X: np.hstack([(X > 0.5).astype(float), np.ones((len(X), 1))])),
}
bad = []
for name, (mk, prep) in cases.items():
    X2, X3 = prep(rng.random((10, 2))), prep(rng.random((10, 3)))
    fresh = mk().fit(X3)
    used = mk().fit(X2)
    try:
        used.fit(X3)
        if len(used.W) != len(fresh.W):
            bad.append(f"{name}: different result")
    except AssertionError:
        bad.append(f"{name}: fresh.fit(X3) -> {len(fresh.W)} categories, used.fit(X3) -> AssertionError "
                   f"(dim_ still {used.dim_})")
# compound
y = rng.integers(0, 2, 10)
fresh = SimpleARTMAP(FuzzyART(0.5, 1e-3, 1.0)).fit(cc(rng.random((10, 3))), y)
used = SimpleARTMAP(FuzzyART(0.5, 1e-3, 1.0)).fit(cc(rng.random((10, 2))), y)
try:
    used.fit(cc(rng.random((10, 3))), y)
except AssertionError:
    bad.append("SimpleARTMAP(FuzzyART): used.fit on 3-feature data -> AssertionError, fresh fits")
if bad:
    print("VIOLATION: re-fit differs from fresh fit")
    print("\n".join("  " + b for b in bad))
    sys.exit(1)
print("ok")

"""CVIART inherits a public partial_fit that always raises NotImplementedError."""
import sys, warnings, io, contextlib
sys.path.insert(0, sys.argv[1] if len(sys.argv) > 1 else ".")
warnings.filterwarnings("ignore")
import numpy as np

def quiet(f, *a, **k):
    with contextlib.redirect_stdout(io.StringIO()):
        return f(*a, **k)

def cc(X):
    return np.hstack([X, 1.0 - X])

from artlib import CVIART, FuzzyART

rng = np.random.default_rng(0)
X = cc(rng.random((20, 2)))
A = quiet(CVIART, FuzzyART(0.5, 1e-3, 1.0), CVIART.CALINSKIHARABASZ)
quiet(A.fit, X)
B = quiet(CVIART, FuzzyART(0.5, 1e-3, 1.0), CVIART.CALINSKIHARABASZ)
try:
    quiet(B.partial_fit, X)
except NotImplementedError as ex:
    print("VIOLATION: CVIART.fit(X) works (", len(A.W), "categories ) but CVIART.partial_fit(X) raises",
          repr(ex), "- after the failed call is_fitted_ =", getattr(B, "is_fitted_", None),
          ", base module W =", B.base_module.W)
    sys.exit(1)
print("ok")

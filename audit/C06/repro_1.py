"""iCVIFuzzyART.partial_fit ignores the incremental validity index that fit uses."""
import sys, warnings, io, contextlib
sys.path.insert(0, sys.argv[1] if len(sys.argv) > 1 else ".")
warnings.filterwarnings("ignore")
import numpy as np

def quiet(f, *a, **k):
    with contextlib.redirect_stdout(io.StringIO()):
        return f(*a, **k)

def cc(X):
    return np.hstack([X, 1.0 - X])

from artlib.cvi.iCVIFuzzyArt import iCVIFuzzyART

bad = []
for seed in range(5):
    rng = np.random.default_rng(seed)
    X = cc(rng.random((30, 2)))
    for offline in (False, True):
        mk = lambda: iCVIFuzzyART(0.3, 1e-3, 1.0, iCVIFuzzyART.CALINSKIHARABASZ, offline=offline)
        A = mk().fit(X)
        # one batch == the whole stream, and a 3-batch partition
        B = mk().partial_fit(X)
        C = mk()
        for s, e in ((0, 10), (10, 11), (11, 30)):
            C.partial_fit(X[s:e])
        for tag, E in (("1 batch", B), ("3 batches", C)):
            same = len(A.W) == len(E.W) and np.array_equal(A.labels_, E.labels_) and all(
                np.array_equal(a, b) for a, b in zip(A.W, E.W))
            if not same:
                bad.append(f"seed={seed} offline={offline} {tag}: fit -> {len(A.W)} categories, "
                           f"partial_fit -> {len(E.W)} categories; labels equal: "
                           f"{np.array_equal(A.labels_, E.labels_)}; iCVI built by partial_fit: {hasattr(E, 'iCVI')}")
if bad:
    print("VIOLATION: iCVIFuzzyART.partial_fit(stream) != iCVIFuzzyART.fit(stream)")
    print("\n".join(bad[:4]))
    print(f"... {len(bad)} differing cases of 20")
    sys.exit(1)
print("ok")

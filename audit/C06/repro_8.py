"""(outside the strict quantifier: non-elementary building block) A FusionART whose first
channel is itself a FusionART cannot be trained incrementally: partial_fit on the fresh
estimator takes the 'already fitted' branch because the inner FusionART always has a W property."""
import sys, warnings, io, contextlib
sys.path.insert(0, sys.argv[1] if len(sys.argv) > 1 else ".")
warnings.filterwarnings("ignore")
import numpy as np

def quiet(f, *a, **k):
    with contextlib.redirect_stdout(io.StringIO()):
        return f(*a, **k)

def cc(X):
    return np.hstack([X, 1.0 - X])

from artlib import FusionART, FuzzyART, HypersphereART

rng = np.random.default_rng(0)
n = 20
X = np.hstack([cc(rng.random((n, 2))), rng.random((n, 2)), cc(rng.random((n, 2)))])
def mk():
    inner = FusionART([FuzzyART(0.5, 1e-3, 1.0), HypersphereART(0.5, 1e-3, 1.0, 2.0)], [0.5, 0.5], [4, 2])
    return FusionART([inner, FuzzyART(0.5, 1e-3, 1.0)], [0.5, 0.5], [6, 4])
A = mk().fit(X)
B = mk()
try:
    B.partial_fit(X[:7]); B.partial_fit(X[7:])
    ok = len(A.W) == len(B.W) and np.array_equal(A.labels_, B.labels_)
    if not ok:
        print("VIOLATION: nested FusionART partial_fit result differs from fit"); sys.exit(1)
except AttributeError as ex:
    print(f"VIOLATION: nested FusionART: fit -> {len(A.W)} categories, partial_fit on a fresh estimator -> AttributeError: {ex}")
    sys.exit(1)
print("ok")

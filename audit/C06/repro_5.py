"""classes_ is only maintained by fit: missing after partial_fit, stale after fit + partial_fit."""
import sys, warnings, io, contextlib
sys.path.insert(0, sys.argv[1] if len(sys.argv) > 1 else ".")
warnings.filterwarnings("ignore")
import numpy as np

def quiet(f, *a, **k):
    with contextlib.redirect_stdout(io.StringIO()):
        return f(*a, **k)

def cc(X):
    return np.hstack([X, 1.0 - X])

from artlib import SimpleARTMAP, ARTMAP, FuzzyART

rng = np.random.default_rng(0)
X = cc(rng.random((20, 2)))
y = np.array([0, 1] * 5 + [2, 3] * 5)
A = SimpleARTMAP(FuzzyART(0.5, 1e-3, 1.0)).fit(X, y)
B = SimpleARTMAP(FuzzyART(0.5, 1e-3, 1.0)).partial_fit(X[:10], y[:10]).partial_fit(X[10:], y[10:])
C = SimpleARTMAP(FuzzyART(0.5, 1e-3, 1.0)).fit(X[:10], y[:10]).partial_fit(X[10:], y[10:])
bad = []
same_rest = (A.map == B.map == C.map and np.array_equal(A.labels_, B.labels_) and np.array_equal(A.labels_, C.labels_))
if not hasattr(B, "classes_"):
    bad.append(f"fit: classes_={A.classes_}; partial_fit x2: no classes_ attribute")
if hasattr(C, "classes_") and not np.array_equal(A.classes_, C.classes_):
    bad.append(f"fit: classes_={A.classes_}; fit(first half)+partial_fit(second half): classes_={C.classes_} (stale)")
Am = ARTMAP(FuzzyART(0.5, 1e-3, 1.0), FuzzyART(0.9, 1e-3, 1.0)).fit(X, X)
Cm = ARTMAP(FuzzyART(0.5, 1e-3, 1.0), FuzzyART(0.9, 1e-3, 1.0)).fit(X[:5], X[:5]).partial_fit(X[5:], X[5:])
if not np.array_equal(Am.classes_, Cm.classes_):
    bad.append(f"ARTMAP: fit classes_={Am.classes_}; fit+partial_fit classes_={Cm.classes_}")
if bad:
    print("VIOLATION (categories/maps/labels_ identical:", same_rest, ")")
    print("\n".join("  " + b for b in bad))
    sys.exit(1)
print("ok")

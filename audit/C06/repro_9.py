"""(outside the strict quantifier: non-elementary building block) SimpleARTMAP over a TopoART
module: pruning renumbers the module's categories but SimpleARTMAP.map is not renumbered, so
fit dies on its own consistency assert (or keeps a wrong map); in partial_fit the module's
post_step_fit additionally gets the batch instead of the data the labels_ belong to."""
import sys, warnings, io, contextlib
sys.path.insert(0, sys.argv[1] if len(sys.argv) > 1 else ".")
warnings.filterwarnings("ignore")
import numpy as np

def quiet(f, *a, **k):
    with contextlib.redirect_stdout(io.StringIO()):
        return f(*a, **k)

def cc(X):
    return np.hstack([X, 1.0 - X])

from artlib import SimpleARTMAP, TopoART, FuzzyART

rng = np.random.default_rng(11)
n = 40
X = cc(rng.random((n, 2))); y = rng.integers(0, 3, n)
mk = lambda: SimpleARTMAP(TopoART(FuzzyART(0.7, 1e-3, 1.0), 0.5, 7, 2))
try:
    A = mk(); quiet(A.fit, X, y)
except AssertionError:
    print("VIOLATION: SimpleARTMAP(TopoART(tau=7)).fit(X, y) raises AssertionError (map[c_a] != c_b after a prune)")
    sys.exit(1)
B = mk()
for s, e in ((0, 9), (9, 25), (25, 40)):
    quiet(B.partial_fit, X[s:e], y[s:e])
if A.map != B.map or not np.array_equal(A.labels_a, B.labels_a):
    print("VIOLATION: SimpleARTMAP(TopoART) partial_fit result differs from fit"); sys.exit(1)
print("ok")

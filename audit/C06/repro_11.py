"""C06 violation (batch composition with an empty batch): an empty first batch changes
what the following batches do.

* TD_FALCON: partial_fit on an empty episode (0 rows) followed by a normal episode
  raises ValueError, while the normal episode alone trains fine.  calculate_SARSA
  decides "has the model been trained?" with hasattr(module, "W"); the empty batch
  creates W = [] and the next call predicts on a model without categories.
* Reference: for the plain BaseART / FusionART / FALCON estimators an empty batch
  anywhere in the sequence is a no-op (checked here too), so the empty batch is
  accepted input of the family.
"""
import sys
sys.path.insert(0, sys.argv[1] if len(sys.argv) > 1 else ".")
import warnings
warnings.filterwarnings("ignore")
import numpy as np
from artlib import TD_FALCON, FALCON, FuzzyART


def make(cls):
    return cls(
        FuzzyART(0.5, 1e-3, 1.0),
        FuzzyART(0.7, 1e-3, 1.0),
        FuzzyART(0.7, 1e-3, 1.0),
        gamma_values=[0.25, 0.25, 0.5],
        channel_dims=[4, 2, 2],
    )


rng = np.random.default_rng(7)
n = 10
raw = (np.round(rng.random((n, 2)), 1), np.round(rng.random((n, 1)), 1),
       np.round(rng.random((n, 1)), 1))

problems = []

# reference behaviour: FALCON treats an empty batch as a no-op
f1, f2 = make(FALCON), make(FALCON)
S, A, R = f1.prepare_data(*raw)
f2.prepare_data(*raw)
f1.partial_fit(S, A, R)
f2.partial_fit(S[:0], A[:0], R[:0])
f2.partial_fit(S, A, R)
if not all(np.array_equal(x, y) for x, y in zip(f1.fusion_art.W, f2.fusion_art.W)):
    problems.append("FALCON: empty first batch changed the result")

t1, t2 = make(TD_FALCON), make(TD_FALCON)
S, A, R = t1.prepare_data(*raw)
t2.prepare_data(*raw)
t1.partial_fit(S, A, R)
try:
    t2.partial_fit(S[:0], A[:0], R[:0])
    t2.partial_fit(S, A, R)
    if not (len(t1.fusion_art.W) == len(t2.fusion_art.W) and all(
            np.array_equal(x, y) for x, y in zip(t1.fusion_art.W, t2.fusion_art.W))):
        problems.append("TD_FALCON: empty first batch changed the categories")
except Exception as e:  # noqa
    problems.append(
        "TD_FALCON: after an empty first batch the next (valid) batch raises "
        f"{type(e).__name__}: {e}; without the empty batch it trains "
        f"{len(t1.fusion_art.W)} categories"
    )

if problems:
    print("C06 VIOLATED:")
    for p in problems:
        print("  -", p)
    sys.exit(1)
print("ok")
sys.exit(0)

"""fit_gif (the animated variant of fit) on a previously used estimator keeps the old
sample_counter_ / weight_sample_counter_; TopoART then crashes in prune()."""
import sys, warnings, io, contextlib
sys.path.insert(0, sys.argv[1] if len(sys.argv) > 1 else ".")
warnings.filterwarnings("ignore")
import numpy as np

def quiet(f, *a, **k):
    with contextlib.redirect_stdout(io.StringIO()):
        return f(*a, **k)

def cc(X):
    return np.hstack([X, 1.0 - X])

import os, tempfile
import matplotlib
matplotlib.use("Agg")
from artlib import FuzzyART, TopoART

os.chdir(tempfile.mkdtemp())
rng = np.random.default_rng(0)
X = cc(rng.random((12, 2)))
X2 = cc(rng.random((9, 2)))
bad = []
A = FuzzyART(0.7, 1e-3, 1.0); quiet(A.fit_gif, X)
C = FuzzyART(0.7, 1e-3, 1.0); C.fit(X2); quiet(C.fit_gif, X)
if A.sample_counter_ != C.sample_counter_ or A.weight_sample_counter_ != C.weight_sample_counter_:
    bad.append(f"FuzzyART: fresh fit_gif sample_counter_={A.sample_counter_}, weight_sample_counter_={A.weight_sample_counter_}; "
               f"used: sample_counter_={C.sample_counter_}, weight_sample_counter_={C.weight_sample_counter_} for {len(C.W)} categories")
mk = lambda: TopoART(FuzzyART(0.7, 1e-3, 1.0), 0.5, 4, 2)
A = mk(); quiet(A.fit_gif, X)
C = mk(); quiet(C.fit, X2)
try:
    quiet(C.fit_gif, X)
    if len(A.W) != len(C.W) or not np.array_equal(A.labels_, C.labels_):
        bad.append("TopoART: used fit_gif gives other categories/labels than fresh fit_gif")
except Exception as ex:
    bad.append(f"TopoART: fresh fit_gif ok ({len(A.W)} categories); used estimator fit_gif -> {type(ex).__name__}: {ex}")
if bad:
    print("VIOLATION:")
    print("\n".join("  " + b for b in bad))
    sys.exit(1)
print("ok")

"""C06 violation (fit vs partial_fit, label bookkeeping): SimpleARTMAP.fit records the
class labels it has seen in classes_; SimpleARTMAP.partial_fit never touches classes_.

* trained only through partial_fit the attribute does not exist at all
  (ARTMAP, DeepARTMAP layers and SMART layers inherit this);
* fit on the first part of a stream followed by partial_fit on the rest keeps the
  classes_ of the first part, although map / labels_ contain the new classes.

One fit call on the concatenation yields the complete classes_, so the outcome depends
on how the stream was cut into calls, not only on the stream.
"""
import sys
sys.path.insert(0, sys.argv[1] if len(sys.argv) > 1 else ".")
import warnings
warnings.filterwarnings("ignore")
import numpy as np
from artlib import SimpleARTMAP, ARTMAP, DeepARTMAP, FuzzyART


def cc(x):
    return np.hstack([x, 1.0 - x])


rng = np.random.default_rng(3)
n = 12
X = cc(np.round(rng.random((n, 2)), 1))
y = np.array([0, 0, 1, 1, 0, 1, 2, 2, 3, 2, 3, 0])
problems = []

ref = SimpleARTMAP(FuzzyART(0.6, 1e-3, 1.0)).fit(X, y)

p = SimpleARTMAP(FuzzyART(0.6, 1e-3, 1.0))
p.partial_fit(X[:6], y[:6]); p.partial_fit(X[6:], y[6:])
same_model = (p.map == ref.map and np.array_equal(p.labels_, ref.labels_)
              and all(np.array_equal(a, b) for a, b in zip(p.module_a.W, ref.module_a.W)))
if same_model and not hasattr(p, "classes_"):
    problems.append(f"partial_fit only: classes_ missing, fit gives classes_={ref.classes_.tolist()}")

q = SimpleARTMAP(FuzzyART(0.6, 1e-3, 1.0))
q.fit(X[:6], y[:6]); q.partial_fit(X[6:], y[6:])
if q.map == ref.map and not np.array_equal(q.classes_, ref.classes_):
    problems.append(
        f"fit(first half) + partial_fit(rest): classes_={q.classes_.tolist()} although the "
        f"label map targets {sorted(set(int(v) for v in q.map.values()))}; "
        f"one fit call gives classes_={ref.classes_.tolist()}"
    )

d = DeepARTMAP([FuzzyART(0.6, 1e-3, 1.0), FuzzyART(0.8, 1e-3, 1.0)])
d.partial_fit([X[:6], X[:6]], y[:6]); d.partial_fit([X[6:], X[6:]], y[6:])
dref = DeepARTMAP([FuzzyART(0.6, 1e-3, 1.0), FuzzyART(0.8, 1e-3, 1.0)]).fit([X, X], y)
missing = [i for i, l in enumerate(d.layers) if not hasattr(l, "classes_")]
if missing and all(hasattr(l, "classes_") for l in dref.layers):
    problems.append(f"DeepARTMAP trained by partial_fit: layers {missing} have no classes_")

if problems:
    print("C06 VIOLATED:")
    for p_ in problems:
        print("  -", p_)
    sys.exit(1)
print("ok")
sys.exit(0)

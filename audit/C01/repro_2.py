"""C01 repro 2: r_hat = inf is accepted by HypersphereART / EllipsoidART validation, gives
activation nan for every committed category, and the search silently skips nan activations:
a new category is appended for every sample although every committed category passes the
vigilance test (match = 1 - r/inf = 1.0 >= rho) and nothing is vetoed."""
import sys, warnings
sys.path.insert(0, sys.argv[1] if len(sys.argv) > 1 else ".")
warnings.filterwarnings("ignore")
import numpy as np
from artlib import HypersphereART, EllipsoidART

X = np.array([[0.2, 0.3], [0.2, 0.3], [0.21, 0.3], [0.2, 0.3]])
bad = []
for name, mk in [
    ("HypersphereART(rho=0.5, alpha=1e-3, beta=1.0, r_hat=inf)", lambda: HypersphereART(0.5, 1e-3, 1.0, float("inf"))),
    ("EllipsoidART(rho=0.5, alpha=1e-3, beta=1.0, mu=0.8, r_hat=inf)", lambda: EllipsoidART(0.5, 1e-3, 1.0, 0.8, float("inf"))),
]:
    try:
        m = mk()
    except Exception as e:            # fixed: rejected by validation
        continue
    m.fit(X[:1])
    x = X[1]
    T, cache = m.category_choice(x, m.W[0], m.params)
    M, _ = m.match_criterion(x, m.W[0], m.params, cache)
    m.partial_fit(X[1:])
    if m.n_clusters != 1:
        bad.append(f"{name}: activation={T}, match={M} >= rho={m.params['rho']}, yet labels={m.labels_.tolist()} "
                   f"({m.n_clusters} categories for 4 (near-)identical rows)")
if bad:
    print("VIOLATION: vigilance-passing categories are never candidates (nan activation):")
    for b in bad:
        print("  -", b)
    sys.exit(1)
print("ok")
sys.exit(0)

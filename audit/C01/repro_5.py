"""C01 repro 5 (minor): ART2A keeps the integer dtype of the first sample in an uncommitted-yet-unupdated
weight (new_weight = np.copy(i)); the activation np.dot(i, w) of two int8 vectors is computed in int8 and
wraps around.  With 200 ones per row the activation of an identical row is 200 -> -56, the match becomes -1
and identical rows get one category each, whereas the same data as int16/float64 gives a single category."""
import sys, warnings
sys.path.insert(0, sys.argv[1] if len(sys.argv) > 1 else ".")
warnings.filterwarnings("ignore")
import numpy as np
from artlib import ART2A

ref = ART2A(0.5, 0.01, 0.5).fit(np.ones((3, 200), dtype=np.float64)).labels_.tolist()
got = ART2A(0.5, 0.01, 0.5).fit(np.ones((3, 200), dtype=np.int8)).labels_.tolist()
if got != ref:
    print(f"VIOLATION: ART2A on 3 identical rows of 200 ones: int8 labels {got}, float64 labels {ref} "
          f"(int8 dot product overflow in category_choice)")
    sys.exit(1)
print("ok")
sys.exit(0)

"""C01 repro 4: CVIART.fit(max_iter>=2).  In the second epoch CVIART's own reset function
(CVI_match) raises ValueError from sklearn (the tentative relabelling leaves a single label,
or every sample has its own label).  The search is aborted: the sample is neither assigned nor
given a new category, and the vigilance that match tracking had raised during that search stays
in base_module.params for ever (no restore on the exception path)."""
import sys, warnings, io, contextlib
sys.path.insert(0, sys.argv[1] if len(sys.argv) > 1 else ".")
warnings.filterwarnings("ignore")
import numpy as np
from artlib import CVIART, FuzzyART
from artlib.common.utils import compliment_code

def mk(v):
    with contextlib.redirect_stdout(io.StringIO()):      # CVIART.__init__ prints its params
        return CVIART(FuzzyART(0.8, 1e-3, 1.0), v)

bad = []
X1 = compliment_code(np.array([[0.0, 0.0], [1.0, 1.0], [0.95, 1.0], [0.9, 0.95]]))
X2 = compliment_code(np.array([[0.0, 0.0], [1.0, 1.0], [0.0, 1.0]]))
for v, vname in [(1, "CALINSKIHARABASZ"), (2, "DAVIESBOULDIN"), (3, "SILHOUETTE")]:
    for X, dname in [(X1, "one far point + three close points"), (X2, "three far-apart points")]:
        m = mk(v)
        try:
            m.fit(X, max_iter=1)            # one epoch is fine
        except Exception as e:
            bad.append(f"{vname}, {dname}: max_iter=1 raised {e!r}")
            continue
        m = mk(v)
        try:
            m.fit(X, max_iter=2)
        except Exception as e:
            rho_after = m.base_module.params["rho"]
            msg = f"{vname}, {dname}: fit(max_iter=2) raised {e!r}"
            if rho_after != 0.8:
                msg += f"; base_module rho left at {rho_after} (was 0.8)"
            bad.append(msg)
if bad:
    print("VIOLATION (CVIART, several epochs):")
    for b in bad:
        print("  -", b)
    sys.exit(1)
print("ok")
sys.exit(0)

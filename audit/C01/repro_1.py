"""C01 repro 1: match-tracking modes MT~ and MT0 replace the vigilance test M >= rho by the
strict test M > rho for the WHOLE search, i.e. also before any veto and even when no reset
function is supplied at all.  A category whose match equals rho exactly passes the vigilance
test under MT+/MT-/MT1 but is rejected under MT~/MT0, so a new category is appended although
a committed category qualifies and nothing was vetoed."""
import sys, warnings
sys.path.insert(0, sys.argv[1] if len(sys.argv) > 1 else ".")
warnings.filterwarnings("ignore")
import numpy as np
from artlib import ART1, FuzzyART, SimpleARTMAP

bad = []

# (a) ART1, rho = 1.0, five identical binary rows, no reset function.
Xb = np.array([[1.0, 0.0, 1.0, 1.0]] * 5)
ref = ART1(rho=1.0, L=2.0).fit(Xb, match_tracking="MT+").n_clusters
for mt in ["MT~", "MT0"]:
    n = ART1(rho=1.0, L=2.0).fit(Xb, match_tracking=mt).n_clusters
    if n != ref:
        bad.append(f"ART1 rho=1.0, 5 identical rows, no reset function: {mt} -> {n} categories, MT+ -> {ref}")

# (b) FuzzyART, match exactly equal to rho (all numbers exactly representable).
X = np.array([[0.75, 0.25], [0.25, 0.75]])        # complement coded 1-d points 0.75 and 0.25
# |x2 ^ w1| / dim_original = (0.25 + 0.25) / 1 = 0.5 == rho
ref = FuzzyART(rho=0.5, alpha=1e-3, beta=1.0).fit(X, match_tracking="MT+").labels_.tolist()
for mt in ["MT~", "MT0"]:
    lab = FuzzyART(rho=0.5, alpha=1e-3, beta=1.0).fit(X, match_tracking=mt).labels_.tolist()
    if lab != ref:
        bad.append(f"FuzzyART rho=0.5, match==0.5, no reset function: {mt} labels {lab}, MT+ labels {ref}")

# (c) reset function present but never vetoing (SimpleARTMAP, a single class).
y = np.zeros(5, dtype=int)
ref = SimpleARTMAP(ART1(rho=1.0, L=2.0)).fit(Xb, y, match_tracking="MT+").module_a.n_clusters
for mt in ["MT~", "MT0"]:
    n = SimpleARTMAP(ART1(rho=1.0, L=2.0)).fit(Xb, y, match_tracking=mt).module_a.n_clusters
    if n != ref:
        bad.append(f"SimpleARTMAP(ART1 rho=1.0), one class, 5 identical rows: {mt} -> {n} A-side categories, MT+ -> {ref}")

# (d) explicit never-vetoing reset function on the generic search
never = lambda i, w, c, params, cache: True
ref = FuzzyART(0.5, 1e-3, 1.0).fit(X, match_reset_func=never, match_tracking="MT+").n_clusters
n = FuzzyART(0.5, 1e-3, 1.0).fit(X, match_reset_func=never, match_tracking="MT~").n_clusters
if n != ref:
    bad.append(f"FuzzyART with a never-vetoing reset function: MT~ -> {n} categories, MT+ -> {ref}")

if bad:
    print("VIOLATION: the vigilance test is strict (M > rho) under MT~/MT0 before/without any veto:")
    for b in bad:
        print("  -", b)
    sys.exit(1)
print("ok")
sys.exit(0)

"""C01 violated: "ties go to the oldest category" / "the committed category with the
highest activation ... wins" depends on the dtype of the data for ART1.

ART1.new_weight keeps the precision of the sample for the bottom-up weights
(L/(L-1+|x|) * x stays float32 for a float32 sample) while ART1.update always produces
float64 weights.  A model trained on float32 (or float16) binary data therefore holds the
same real weight value (e.g. 1/3) at two different precisions, and three categories whose
activations are all exactly 2/3 are no longer tied: the newest category, created by
new_weight, gets 0.6666667 > 0.6666666 and wins although two older categories have the
same activation and pass the vigilance test.  The same 0/1 data given as float64, int,
uint8 or bool selects the oldest category.
Also shown through SimpleARTMAP (A-side) and FusionART.
"""
import sys
sys.path.insert(0, sys.argv[1])
import warnings
warnings.filterwarnings("ignore")
import numpy as np
from artlib import ART1, SimpleARTMAP, FusionART

X = np.array(
    [
        [1, 1, 1, 1, 0, 0, 0],
        [1, 0, 0, 1, 1, 0, 1],
        [1, 0, 0, 0, 0, 1, 1],
        [1, 0, 1, 0, 1, 1, 1],
        [1, 1, 0, 0, 0, 0, 1],
        [1, 1, 1, 1, 1, 0, 0],
        [1, 0, 0, 0, 1, 0, 0],   # activation 2/3 for categories 0, 1 and 2; M = .5, .5, 1
    ],
    dtype=float,
)
bad = []

ref = ART1(rho=0.5, L=2.0).fit(X)
for dt in (np.float32, np.float16, np.int64, np.uint8, bool):
    try:
        m = ART1(rho=0.5, L=2.0).fit(X.astype(dt))
    except AssertionError:
        continue  # clean rejection
    if not np.array_equal(m.labels_, ref.labels_):
        before = ART1(rho=0.5, L=2.0).fit(X[:-1].astype(dt))
        T = [
            before.category_choice(X[-1].astype(dt), w, before.params)[0]
            for w in before.W
        ]
        bad.append(
            f"ART1 on {np.dtype(dt).name} data: labels {m.labels_.tolist()} != "
            f"{ref.labels_.tolist()} (float64); activations of the last sample for "
            f"categories 0..2 = {T}, weight dtypes {[str(w.dtype) for w in before.W]}"
        )

# the same through the A-side of SimpleARTMAP (one class: the map never vetoes)
y = np.zeros(len(X), dtype=int)
s64 = SimpleARTMAP(ART1(0.5, 2.0)).fit(X, y)
s32 = SimpleARTMAP(ART1(0.5, 2.0)).fit(X.astype(np.float32), y)
if not np.array_equal(s64.labels_a, s32.labels_a):
    bad.append(
        f"SimpleARTMAP(ART1) A-side: float32 {s32.labels_a.tolist()} != "
        f"float64 {s64.labels_a.tolist()}"
    )

# and through a one-channel FusionART
f64 = FusionART([ART1(0.5, 2.0)], [1.0], [7]).fit(X)
f32 = FusionART([ART1(0.5, 2.0)], [1.0], [7]).fit(X.astype(np.float32))
if not np.array_equal(f64.labels_, f32.labels_):
    bad.append(
        f"FusionART([ART1]): float32 {f32.labels_.tolist()} != float64 {f64.labels_.tolist()}"
    )

if bad:
    print("VIOLATION: an exact activation tie is not given to the oldest category")
    for b in bad:
        print(" -", b)
    sys.exit(1)
print("ok")
sys.exit(0)

"""C01 repro 3: BayesianART on high-dimensional (valid, in [0,1]) data.
 (a) dim >= 387: (2*pi)**dim overflows a Python float -> OverflowError on the 2nd sample.
 (b) det(cov) underflows to 0 (e.g. dim=150, cov_init=1e-3*I): activation is 0/0 = nan, the
     category is silently skipped and a new one is appended although it passes the vigilance test.
 (c) same regime: several activations are +inf, the "highest activation" is decided by age."""
import sys, warnings
sys.path.insert(0, sys.argv[1] if len(sys.argv) > 1 else ".")
warnings.filterwarnings("ignore")
import numpy as np
from artlib import BayesianART

bad = []
# (a)
d = 400
X = np.vstack([np.full((1, d), 0.4), np.full((1, d), 0.5)])
try:
    BayesianART(1.0, 0.1 * np.eye(d)).fit(X)
except OverflowError as e:
    bad.append(f"(a) dim={d}: fit raises {e!r} on valid data")

# (b)
d = 150
A = np.full((1, d), 0.40); B = np.full((1, d), 0.50)
m = BayesianART(0.5, 1e-3 * np.eye(d))
m.fit(A)
T, cache = m.category_choice(B[0], m.W[0], m.params)
M, _ = m.match_criterion(B[0], m.W[0], m.params, dict(cache))
m.partial_fit(B)
if m.n_clusters == 2 and m.params["rho"] >= M:
    bad.append(f"(b) dim={d}: category 0 passes vigilance (det(new cov)={M} <= rho={m.params['rho']}) "
               f"but its activation is {T}; it is skipped and a new category appended (labels {m.labels_.tolist()})")

# (c)
d = 120
A = np.zeros((1, d)); B = np.full((1, d), 0.12); C = np.full((1, d), 0.07)   # C is closer to B
m = BayesianART(0.5, 1e-3 * np.eye(d))
m.fit(np.vstack([A, B]))
if m.n_clusters == 2:
    T = [m.category_choice(C[0], w, m.params)[0] for w in m.W]
    m.partial_fit(C)
    dA = float(np.sum((C - A) ** 2)); dB = float(np.sum((C - B) ** 2))
    if m.labels_[-1] == 0 and dB < dA:
        bad.append(f"(c) dim={d}: activations {T}; sample at squared distance {dB:.3f} from category 1 and "
                   f"{dA:.3f} from category 0 (equal covariances and counts) is assigned to category 0")
if bad:
    print("VIOLATION (BayesianART, overflow/underflow of the Gaussian normaliser):")
    for b in bad:
        print("  -", b)
    sys.exit(1)
print("ok")
sys.exit(0)

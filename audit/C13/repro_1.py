"""C13 / BayesianART: the 'lower' vigilance of DualVigilanceART is STRICTER than the
upper one (BayesianART's vigilance test is inverted: a category passes when
rho >= det(new covariance)), so "passing only the lower vigilance" can never happen
and the lower threshold never groups categories: n_clusters == number of categories
for every admissible rho_lower_bound < rho."""
import sys, warnings
sys.path.insert(0, sys.argv[1] if len(sys.argv) > 1 else ".")
warnings.simplefilter("ignore")
import numpy as np
from artlib import BayesianART, FuzzyART, DualVigilanceART

rng = np.random.default_rng(0)
# uniform data: the upper vigilance splits it in several categories
X = rng.random((80, 2))

rho = 3e-5
cov = 1e-2 * np.eye(2)
problems = []
never_grouped = True
n_cat_seen = 0
for frac in [0.0, 0.1, 0.5, 0.9, 0.999]:
    base = BayesianART(rho, cov.copy())
    dv = DualVigilanceART(base, rho * frac)
    Xp = dv.prepare_data(X)
    dv.fit(Xp)
    n_cat_seen = max(n_cat_seen, len(base.W))
    if dv.n_clusters < len(base.W):
        never_grouped = False
    print(f"rho_lower_bound={rho*frac:.3g}: categories={len(base.W)} clusters={dv.n_clusters}")

# direct comparison of the two tests on the last fitted model
up_only = lo_only = 0
lb_params = dict(base.params, rho=0.5 * rho)  # a "lower" vigilance, half the upper one
for x in Xp:
    for w in base.W:
        _, cache = base.category_choice(x, w, base.params)
        m_up, _ = base.match_criterion_bin(x, w, base.params, cache=dict(cache))
        m_lo, _ = base.match_criterion_bin(x, w, lb_params, cache=dict(cache))
        up_only += bool(m_up and not m_lo)
        lo_only += bool(m_lo and not m_up)
print("pairs passing upper but NOT lower:", up_only, "| passing lower but NOT upper:", lo_only)

# control: same protocol with FuzzyART groups categories
fz = DualVigilanceART(FuzzyART(0.9, 1e-3, 1.0), 0.45)
fz.fit(fz.prepare_data(X))
print(f"control FuzzyART: categories={len(fz.W)} clusters={fz.n_clusters}")

if n_cat_seen > 1 and never_grouped and up_only > 0 and lo_only == 0:
    print("VIOLATION: with BayesianART the lower vigilance is a subset of the upper one; "
          "the lower threshold never groups categories (every category is its own cluster).")
    sys.exit(1)
sys.exit(0)

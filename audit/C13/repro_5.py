"""C13 / FuzzyART base, rho close to 1: validate_data accepts rows whose complement coding
is off by up to 0.01. Such a row founds a category with |w| / d < rho, i.e. a category that
does not obey the upper-vigilance bound, and it does not even pass the upper vigilance against
ITS OWN category, so every repetition spawns one more category through the lower vigilance."""
import sys, warnings
sys.path.insert(0, sys.argv[1] if len(sys.argv) > 1 else ".")
warnings.simplefilter("ignore")
import numpy as np
from artlib import FuzzyART, DualVigilanceART

rho = 0.999
base = FuzzyART(rho, 1e-3, 1.0)
dv = DualVigilanceART(base, 0.5)
X = np.array([[0.5, 0.495]] * 4)  # accepted: |sum - 1| <= 0.01
dv.fit(X)
d = base.dim_original
bounds = [float(w.sum() / d) for w in base.W]
print("categories:", len(base.W), "map:", dv.map, "|w|/d:", bounds, "rho:", rho)
if any(b < rho - 1e-9 for b in bounds) or len(base.W) != 1:
    print("VIOLATION: categories below the upper-vigilance bound |w|/d >= rho, "
          "and 4 identical samples made", len(base.W), "categories")
    sys.exit(1)
sys.exit(0)

"""C13 nested: CVIART over DualVigilanceART. As soon as the lower vigilance has put two
categories in ONE cluster, CVIART's guard (len(W) < 2) lets the validity index be evaluated
on a single label and fit raises ValueError on valid data."""
import sys, warnings
sys.path.insert(0, sys.argv[1] if len(sys.argv) > 1 else ".")
warnings.simplefilter("ignore")
import numpy as np, io, contextlib
from artlib import FuzzyART, CVIART, DualVigilanceART

X = np.random.default_rng(0).random((30, 2))
dv = DualVigilanceART(FuzzyART(0.9, 1e-3, 1.0), 0.1)
with contextlib.redirect_stdout(io.StringIO()):
    m = CVIART(dv, CVIART.CALINSKIHARABASZ)
Xp = m.prepare_data(X)
try:
    m.fit(Xp)
except ValueError as e:
    print("categories:", len(dv.W), "clusters:", dv.n_clusters, "map:", dv.map)
    print("VIOLATION: CVIART(DualVigilanceART(FuzzyART(0.9), 0.1)).fit raised ValueError:", e)
    sys.exit(1)
print("fit ok", dv.n_clusters, len(dv.W))
sys.exit(0)

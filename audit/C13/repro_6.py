"""C13 violated: DualVigilanceART accepts a base module that already holds
categories (a fitted FuzzyART instance is "an instantiated ART module with rho"),
exposes them through W / n-categories, but its category-to-cluster map is empty:
predict and partial_fit on valid data die with KeyError(0).
Clause broken: "The category-to-cluster map is total" and "every returned or
predicted label is such a cluster label" (exception on valid input)."""
import sys

sys.path.insert(0, sys.argv[1])
import numpy as np
from artlib import FuzzyART
from artlib.topological.DualVigilanceART import DualVigilanceART

rng = np.random.default_rng(0)
Xr = rng.random((40, 2))
base = FuzzyART(0.8, 1e-3, 1.0)
X = base.prepare_data(Xr)
base.fit(X)

try:
    dv = DualVigilanceART(base, 0.5)
except (AssertionError, ValueError, TypeError) as e:
    print("fitted base module cleanly rejected:", repr(e))
    sys.exit(0)

problems = []
nW = len(dv.W)
if nW and sorted(dv.map) != list(range(nW)):
    problems.append(
        "wrapper exposes %d categories (dv.W) but map has %d entries" % (nW, len(dv.map))
    )
for name in ("partial_fit", "predict"):
    try:
        out = getattr(dv, name)(X[:5])
        if name == "predict":
            if not set(out) <= set(dv.map.values()):
                problems.append("predict returned labels outside the map: %r" % out)
    except KeyError as e:
        problems.append("%s(X[:5]) raised KeyError(%s)" % (name, e))
    except Exception as e:  # a clear "not fitted" style refusal is fine
        from sklearn.exceptions import NotFittedError

        if not isinstance(e, (NotFittedError, AssertionError, ValueError)):
            problems.append("%s raised %r" % (name, e))
if problems:
    print("VIOLATION with a base module fitted before it was wrapped:")
    for p in problems:
        print("  " + p)
    sys.exit(1)
print("ok")
sys.exit(0)

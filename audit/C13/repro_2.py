"""C13 / TopoART as base module (it has a 'rho' parameter, the constructor only warns):
match tracking never reaches the vigilance DualVigilanceART tests with, so after the
veto of an upper-passing category the next category absorbs the sample although its
match is below the tracked vigilance; the inner module's rho is overwritten for good."""
import sys, warnings
sys.path.insert(0, sys.argv[1] if len(sys.argv) > 1 else ".")
warnings.simplefilter("ignore")
import numpy as np
from artlib import FuzzyART, TopoART, DualVigilanceART


def cc(a):
    a = np.atleast_2d(np.array(a, float))
    return np.hstack([a, 1 - a])


X = cc([[0.5, 0.5], [0.0, 1.0], [0.4, 0.6]])


def run(base):
    dv = DualVigilanceART(base, 0.55)
    dv.partial_fit(X[:2])  # two categories, two clusters (match 0.5 < 0.55)
    assert dv.map == {0: 0, 1: 1}, dv.map
    seen = []

    def reset(x, w, cluster, params=None, cache=None):
        seen.append((int(cluster), round(float(cache["match_criterion"]), 6), float(params["rho"])))
        return cluster != 0  # veto cluster 0 (its category passes the upper vigilance: 0.9 >= 0.6)

    dv.partial_fit(X[2:3], match_reset_func=reset, match_tracking="MT+", epsilon=0.05)
    inner = base.base_module if hasattr(base, "base_module") else base
    return seen, len(dv.W), dict(dv.map), inner.params["rho"], base.params["rho"]


ref = run(FuzzyART(0.6, 1e-3, 1.0))
got = run(TopoART(FuzzyART(0.6, 1e-3, 1.0), 0.5, 100, 1))
print("FuzzyART base :", ref)
print("TopoART base  :", got)
bad = []
# after the veto the vigilance must be 0.9 + 0.05; category 1 (match 0.6) then only passes the
# lower vigilance (0.55) and must spawn a third category with cluster label 1
if got[0][1][2] < 0.95 - 1e-9:
    bad.append(f"vigilance seen for the 2nd category is {got[0][1][2]}, match tracking had no effect (expected 0.95)")
if got[1] != 3 or got[2] != {0: 0, 1: 1, 2: 1}:
    bad.append(f"category with match 0.6 < tracked vigilance 0.95 absorbed the sample: categories={got[1]} map={got[2]}")
if got[3] != 0.6:
    bad.append(f"inner FuzzyART rho left at {got[3]} after the call (was 0.6)")
if bad:
    print("VIOLATION:")
    for b in bad:
        print("  -", b)
    sys.exit(1)
sys.exit(0)

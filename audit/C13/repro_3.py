"""C13 / CVIART as base module: CVIART exposes 'rho' in its params, DualVigilanceART accepts
it (warning only: "will only make use of the base_module FuzzyART") and then raises
NotImplementedError on the very first sample of fit / partial_fit."""
import sys, warnings
sys.path.insert(0, sys.argv[1] if len(sys.argv) > 1 else ".")
warnings.simplefilter("ignore")
import numpy as np, io, contextlib
from artlib import FuzzyART, CVIART, DualVigilanceART

X = np.random.default_rng(0).random((10, 2))
with contextlib.redirect_stdout(io.StringIO()):  # CVIART prints its params
    base = CVIART(FuzzyART(0.8, 1e-3, 1.0), CVIART.CALINSKIHARABASZ)
assert "rho" in base.params
dv = DualVigilanceART(base, 0.4)  # accepted
Xp = dv.prepare_data(X)
try:
    dv.fit(Xp)
except NotImplementedError as e:
    print("VIOLATION: DualVigilanceART(CVIART(FuzzyART), 0.4).fit raised NotImplementedError on valid data")
    sys.exit(1)
print("fit ok", dv.n_clusters, len(dv.W))
sys.exit(0)

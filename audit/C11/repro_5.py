"""C11 repro 5: predict_regression raises TypeError when the target channel is a
FuzzyART module and the model was trained on data that the user normalised /
complement coded himself (perfectly valid input for fit and predict), because
FuzzyART.get_cluster_centers de-normalises with d_min_/d_max_ = None."""
import sys

sys.path.insert(0, sys.argv[1])
import numpy as np
from artlib import FusionART, FuzzyART, HypersphereART

rng = np.random.default_rng(0)
a = rng.random((30, 2))
b = rng.random((30, 1))
X = np.hstack([a, b, 1.0 - b])  # channel 0 raw in [0,1], channel 1 complement coded
m = FusionART(
    [HypersphereART(0.7, 0.01, 1.0, 1.0), FuzzyART(0.7, 0.01, 1.0)], [0.5, 0.5], [2, 2]
)
m.fit(X)
C = m.predict(X, skip_channels=[-1])  # works
try:
    y = m.predict_regression(X, target_channels=[-1])
except Exception as e:  # noqa
    print(
        "VIOLATION: predict_regression raises on a trained model:",
        type(e).__name__,
        e,
    )
    sys.exit(1)
print("ok", y.shape)
sys.exit(0)

"""C11 - "prepare_data / restore_data are mutually inverse on the supplied channels".

FusionART.restore_data(X, skip_channels) returns one array per SUPPLIED channel
(exactly like split_channel_data), but FusionART.prepare_data(channel_data,
skip_channels) indexes channel_data by the ABSOLUTE channel number
(channel_data[i] for every i not skipped).  The two methods therefore do not
compose: prepare_data(restore_data(X, skip), skip) raises IndexError for every
skip set that is not a suffix of the channel list (e.g. skip=[0] or skip=[-n]),
although join_channel_data(split_channel_data(X, skip), skip) - the sibling pair
with the same skip_channels parameter - works for all of them.  Equivalently,
prepare_data([B], skip_channels=[0]) (the list of supplied channels, the
convention of join_channel_data / split_channel_data / restore_data) raises,
while prepare_data([A], skip_channels=[-1]) works.

usage: python repro_1.py <library root>
"""
import sys
import itertools

sys.path.insert(0, sys.argv[1] if len(sys.argv) > 1 else ".")
import numpy as np
from artlib import FusionART, FuzzyART, HypersphereART, GaussianART


def main():
    rng = np.random.default_rng(0)
    model = FusionART(
        [
            FuzzyART(0.5, 0.01, 1.0),
            HypersphereART(0.5, 0.01, 1.0, 0.7),
            GaussianART(0.3, 0.3 * np.ones(1)),
        ],
        [0.4, 0.3, 0.3],
        [4, 3, 1],
    )
    n = model.n
    raw = [
        rng.random((25, 2)) * 5 - 1,
        rng.random((25, 3)) * 3 + 10,
        rng.random((25, 1)) * 100,
    ]
    X = model.prepare_data(raw)
    model.fit(X)  # a trained model, as the quantifier asks
    pos = model._channel_indices

    bad = []
    for r in range(1, n):
        for s in itertools.combinations(range(n), r):
            for skip in (list(s), [k - n for k in s]):
                sk = [k + n if k < 0 else k for k in skip]
                supplied = [i for i in range(n) if i not in sk]

                # sibling pair: always composes
                J = model.join_channel_data(
                    model.split_channel_data(X, skip_channels=skip), skip_channels=skip
                )
                assert all(
                    np.array_equal(J[:, pos[i][0] : pos[i][1]], X[:, pos[i][0] : pos[i][1]])
                    for i in supplied
                )

                # restore o prepare holds ...
                back = model.restore_data(
                    model.prepare_data(raw, skip_channels=skip), skip_channels=skip
                )
                assert len(back) == len(supplied)
                assert all(np.allclose(b, raw[i]) for b, i in zip(back, supplied))

                # ... prepare o restore does not
                restored = model.restore_data(X, skip_channels=skip)
                try:
                    X2 = model.prepare_data(restored, skip_channels=skip)
                    ok = all(
                        np.allclose(X2[:, pos[i][0] : pos[i][1]], X[:, pos[i][0] : pos[i][1]])
                        for i in supplied
                    )
                    if not ok:
                        bad.append((skip, "prepare_data(restore_data(X)) differs from X"))
                except Exception as e:  # noqa
                    bad.append((skip, f"prepare_data(restore_data(X, skip), skip) raised {e!r}"))

    if bad:
        print("VIOLATION: prepare_data and restore_data are not mutually inverse "
              "on the supplied channels:")
        for skip, msg in bad:
            print(f"  skip_channels={skip}: {msg}")
        sys.exit(1)
    print("ok")
    sys.exit(0)


if __name__ == "__main__":
    main()

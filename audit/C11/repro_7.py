"""C11 - "prepare_data / restore_data are mutually inverse on the supplied channels"
(unusual dtypes: bool, unsigned, small signed integers).

FusionART.prepare_data normalises with (data - d_min) / (d_max - d_min) in the
CALLER's dtype (artlib.common.utils.normalize does not convert to float first):

 (a) bool channel data - the natural input of an ART1 channel, accepted as is by
     fit / predict - makes prepare_data raise TypeError (numpy boolean subtract);
 (b) unsigned data (e.g. uint8 pixel values): a query value below the training
     minimum wraps around (3 - 5 = 254), so restore_data(prepare_data(q)) gives
     259 instead of 3;
 (c) small signed integers: int8 training data with a range above 127 overflows
     in d_max - d_min, so even the TRAINING data does not round-trip
     (50 -> -206, 100 -> -156).

usage: python repro_3.py <library root>
"""
import sys
import warnings

sys.path.insert(0, sys.argv[1] if len(sys.argv) > 1 else ".")
import numpy as np
from artlib import FusionART, FuzzyART, ART1

warnings.filterwarnings("ignore")


def model():
    return FusionART(
        [FuzzyART(0.5, 0.01, 1.0), ART1(0.5, 2.0)], [0.5, 0.5], [2, 3]
    )


def main():
    problems = []
    Bf = np.array([[1, 0, 1], [0, 1, 1], [1, 1, 0], [1, 0, 0]], dtype=float)

    # (a) bool data for ART1 channels: fine for fit / predict / predict_regression ...
    A = np.array([[5.0], [10.0], [7.0], [6.0]])
    Bb = Bf.astype(bool)
    m2 = FusionART([ART1(0.5, 2.0), ART1(0.5, 2.0)], [0.5, 0.5], [3, 3])
    Xb = m2.join_channel_data([Bb, Bb[::-1]])
    assert Xb.dtype == bool
    m2.fit(Xb)
    m2.predict(Xb, skip_channels=[0])
    m2.predict_regression(Xb, target_channels=[-1])
    # ... but not for prepare_data
    try:
        X = m2.prepare_data([Bb, Bb[::-1]])
        back = m2.restore_data(X)
        if not (np.array_equal(back[0], Bb) and np.array_equal(back[1], Bb[::-1])):
            problems.append("(a) bool channels do not round-trip")
    except Exception as e:  # noqa
        problems.append(f"(a) prepare_data on bool ART1 channels raised {e!r}")

    # (b) unsigned query value below the training minimum
    m = model()
    A8 = np.array([[5], [10], [7], [6]], dtype=np.uint8)
    m.prepare_data([A8, Bf])
    Aq = np.array([[3], [6]], dtype=np.uint8)
    back = m.restore_data(m.prepare_data([Aq, Bf[:2]]))
    if not np.allclose(back[0], Aq):
        problems.append(
            f"(b) uint8 query {Aq.ravel().tolist()} -> restore_data(prepare_data(.)) = "
            f"{back[0].ravel().tolist()}"
        )
    # the same values as int64 do round-trip
    m = model()
    m.prepare_data([A8.astype(np.int64), Bf])
    back = m.restore_data(m.prepare_data([Aq.astype(np.int64), Bf[:2]]))
    assert np.allclose(back[0], Aq)

    # (c) int8 training data with a range > 127
    m = model()
    Ai = np.array([[-100], [0], [50], [100]], dtype=np.int8)
    back = m.restore_data(m.prepare_data([Ai, Bf]))
    if not np.allclose(back[0], Ai):
        problems.append(
            f"(c) int8 training data {Ai.ravel().tolist()} -> "
            f"restore_data(prepare_data(.)) = {back[0].ravel().tolist()}"
        )

    if problems:
        print("VIOLATION: prepare_data / restore_data do not round-trip for these dtypes:")
        for p in problems:
            print("  " + p)
        sys.exit(1)
    print("ok")
    sys.exit(0)


if __name__ == "__main__":
    main()

"""C11 repro 1: FusionART.predict(skip_channels=...) validates the SKIPPED columns.

Any filler that the skipped channel's own module would reject as training data
(not complement coded, outside [0,1], NaN) makes the partial prediction raise,
although the skipped columns are never used for the category choice.
"""
import sys

sys.path.insert(0, sys.argv[1])
import numpy as np
from artlib import FusionART, FuzzyART

rng = np.random.default_rng(0)
m = FusionART(
    [FuzzyART(0.5, 0.01, 1.0), FuzzyART(0.5, 0.01, 1.0)], [0.5, 0.5], [4, 2]
)
A = rng.random((30, 2))
B = rng.random((30, 1))
X = m.prepare_data([A, B])
m.fit(X)

Q = m.prepare_data([A, None], skip_channels=[1])  # library filler 0.5
base = m.predict(Q, skip_channels=[1])

bad = []
fillers = {
    "uniform random in [0,1]": rng.random((30, 2)),
    "all 0.0": np.zeros((30, 2)),
    "all 1.0": np.ones((30, 2)),
    "all 0.3": np.full((30, 2), 0.3),
    "2.0": np.full((30, 2), 2.0),
    "-1.0": np.full((30, 2), -1.0),
    "NaN": np.full((30, 2), np.nan),
}
for name, f in fillers.items():
    for skip in ([1], [-1]):
        Qf = Q.copy()
        Qf[:, 4:6] = f
        try:
            p = m.predict(Qf, skip_channels=skip)
            if not np.array_equal(p, base):
                bad.append(f"filler {name}, skip {skip}: different categories")
        except Exception as e:  # noqa
            bad.append(f"filler {name}, skip {skip}: {type(e).__name__}: {e}")
    try:
        Qf = Q.copy()
        Qf[:, 4:6] = f
        m.predict_regression(Qf, target_channels=[-1])
    except Exception as e:  # noqa
        bad.append(f"filler {name}: predict_regression {type(e).__name__}: {e}")

if bad:
    print("VIOLATION: partial prediction depends on / rejects the skipped columns")
    for b in bad:
        print("  ", b)
    sys.exit(1)
print("ok")
sys.exit(0)

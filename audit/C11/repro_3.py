"""C11 repro 3: the skipped channels are not ignored, they contribute the
constant gamma_k * 1.0 to every activation.  In floating point that constant
absorbs the low-order part of the supplied channels' activations, so the
returned category is NOT the arg-max of the gamma-weighted activations of the
remaining channels (and predict_regression returns the centre of the wrong
category).

Case (a): GaussianART channel - activations of the supplied channel are tiny
          (1e-86 vs 1e-194), the constant 0.5 swallows them completely and
          category 0 is returned instead of the clear winner.
Case (b): FuzzyART channel - two categories whose supplied-channel activations
          differ by 2 ulp collapse to a tie, the older (smaller) one is chosen.
"""
import sys

sys.path.insert(0, sys.argv[1])
import numpy as np
from artlib import FusionART, FuzzyART, GaussianART

bad = []


def ref_partial(m, q, skip):
    """arg-max (oldest on ties) of the gamma-weighted activations of the supplied
    channels only."""
    T = []
    for c in range(m.n_clusters):
        t = 0.0
        for k in range(m.n):
            if k in skip:
                continue
            s, e = m._channel_indices[k]
            a, _ = m.modules[k].category_choice(
                q[s:e], m.modules[k].W[c], m.modules[k].params
            )
            t += a * m.params["gamma_values"][k]
        T.append(t)
    return int(np.argmax(T)), T


# ---------------- case (a)
m = FusionART(
    [FuzzyART(0.9, 0.01, 1.0), GaussianART(0.5, np.array([0.01]))], [0.5, 0.5], [2, 1]
)
X = np.array([[0.0, 1.0, 0.0], [0.5, 0.5, 0.5], [1.0, 0.0, 1.0]])
m.fit(X)
assert m.n_clusters == 3
for b in (0.3, 0.7):
    for filler in ([0.5, 0.5], [0.0, 1.0], [1.0, 0.0]):
        q = np.array([filler + [b]])
        lib = int(m.predict(q, skip_channels=[0])[0])
        ref, T = ref_partial(m, q[0], [0])
        alone = int(m.modules[1].predict(q[:, 2:3])[0])
        if lib != ref:
            bad.append(
                f"(a) Gaussian channel value {b}, filler {filler}: predict(skip=[0]) -> {lib}, "
                f"arg-max of remaining channel -> {ref} (module alone -> {alone}); "
                f"weighted activations {T}"
            )
# the regression consequence (target = channel 0 is FuzzyART -> give it data bounds)
m.modules[0].d_min_ = np.array([0.0])
m.modules[0].d_max_ = np.array([1.0])
q = np.array([[0.5, 0.5, 0.3]])
y = m.predict_regression(q, target_channels=[0])
if not np.allclose(y, [[0.5]]):
    bad.append(
        f"(a) predict_regression(target=[0]) for Gaussian value 0.3 returns {y.ravel()} "
        f"(centre of category 0) instead of 0.5 (centre of category 1, the arg-max)"
    )

# ---------------- case (b)
m = FusionART(
    [FuzzyART(0.9, 0.01, 1.0), FuzzyART(0.9, 0.01, 1.0)], [0.5, 0.5], [2, 2]
)
X = np.array([[0.0, 1.0, 0.0, 1.0], [1.0, 0.0, 0.1, 0.9]])
m.fit(X)
assert m.n_clusters == 2
q = np.array([[0.5, 0.5, 0.05, 0.95]])
lib = int(m.predict(q, skip_channels=[0])[0])
ref, T = ref_partial(m, q[0], [0])
alone = int(m.modules[1].predict(q[:, 2:4])[0])
if lib != ref:
    bad.append(
        f"(b) Fuzzy channels: predict(skip=[0]) -> {lib}, arg-max of remaining channel -> {ref} "
        f"(module alone -> {alone}); weighted activations {T[0]!r} < {T[1]!r}"
    )

if bad:
    print("VIOLATION: partial prediction is not the arg-max over the supplied channels")
    for b in bad:
        print("  ", b)
    sys.exit(1)
print("ok")
sys.exit(0)

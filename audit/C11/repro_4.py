"""C11 repro 4: FusionART.step_pred / category_choice accept skip_channels but do
not translate negative indices: step_pred(x, skip_channels=[-1]) silently skips
NOTHING (the "skipped" columns take part in the choice), whereas
predict(X, skip_channels=[-1]) skips the last channel."""
import sys

sys.path.insert(0, sys.argv[1])
import numpy as np
from artlib import FusionART, FuzzyART

rng = np.random.default_rng(0)
m = FusionART(
    [FuzzyART(0.7, 0.01, 1.0), FuzzyART(0.7, 0.01, 1.0)], [0.5, 0.5], [4, 2]
)
A = rng.random((50, 2))
B = rng.random((50, 1))
X = m.prepare_data([A, B])
m.fit(X)

Q = X.copy()
bad = []
n_diff = 0
n_dep = 0
for q in Q:
    pos = m.step_pred(q, skip_channels=[1])
    neg = m.step_pred(q, skip_channels=[-1])
    if pos != neg:
        n_diff += 1
    q2 = q.copy()
    q2[4:6] = [1.0 - q[4], 1.0 - q[5]]  # another (complement coded) filler
    if m.step_pred(q2, skip_channels=[-1]) != neg:
        n_dep += 1
if n_diff:
    bad.append(f"step_pred(skip=[-1]) != step_pred(skip=[1]) on {n_diff}/{len(Q)} samples")
if n_dep:
    bad.append(
        f"step_pred(skip=[-1]) changes with the values in the skipped columns on {n_dep}/{len(Q)} samples"
    )
if not np.array_equal(
    m.predict(Q, skip_channels=[-1]), [m.step_pred(q, skip_channels=[-1]) for q in Q]
):
    bad.append("predict(skip=[-1]) and step_pred(skip=[-1]) disagree")
if bad:
    print("VIOLATION: negative skip index ignored by step_pred")
    for b in bad:
        print("  ", b)
    sys.exit(1)
print("ok")
sys.exit(0)

"""C11 repro 2: with an ART1 channel, the library's OWN filler (0.5, written by
join_channel_data / prepare_data for a skipped channel) is rejected by predict
and predict_regression ("ART1 only supports binary data"), so partial-channel
inference is impossible for any FusionART that has an ART1 module as the
skipped / target channel."""
import sys

sys.path.insert(0, sys.argv[1])
import numpy as np
from artlib import FusionART, FuzzyART, ART1

rng = np.random.default_rng(0)
A = rng.random((21, 2))
B = np.array(
    [[1, 0, 0], [0, 1, 0], [0, 0, 1], [1, 1, 0], [1, 0, 1], [0, 1, 1], [1, 1, 1]] * 3,
    dtype=float,
)
m = FusionART([FuzzyART(0.5, 0.01, 1.0), ART1(0.5, 2.0)], [0.5, 0.5], [4, 3])
X = m.prepare_data([A, B])
m.fit(X)

bad = []
Qa = m.prepare_data([A, None], skip_channels=[1])
Qb = m.join_channel_data([X[:, :4]], skip_channels=[-1])
for name, Q in (("prepare_data", Qa), ("join_channel_data", Qb)):
    try:
        m.predict(Q, skip_channels=[1])
    except Exception as e:  # noqa
        bad.append(f"predict on {name} output: {type(e).__name__}: {e}")
    try:
        m.predict_regression(Q, target_channels=[-1])
    except Exception as e:  # noqa
        bad.append(f"predict_regression on {name} output: {type(e).__name__}: {e}")
if bad:
    print("VIOLATION: the library's own filler for a skipped ART1 channel is rejected")
    for b in bad:
        print("  ", b)
    sys.exit(1)
print("ok")
sys.exit(0)

"""C10 violation (precision level): with float32 data a channel does not store what its
module alone would compute when another channel's module has a float64 weight.

Property clause: "Learning applies each channel module's own rule to that channel's
slice of the sample, so every channel stores exactly what its module alone would
compute"  (quantifier: every elementary module type per channel, including modules
whose weight vector is longer than the channel width; float32 is valid data).

FusionART.new_weight concatenates the channel weights into ONE array, so they are
promoted to a common dtype.  FuzzyART alone keeps float32 weights for float32 data
(np.copy(i); beta * min(i, w) + (1 - beta) * w stays float32).  Fused with a
HypersphereART / EllipsoidART / GaussianART / BayesianART / QuadraticNeuronART /
ART1 channel (whose new_weight is float64), the FuzzyART channel's weights become
float64 and all later updates are done in float64: the stored channel weights are
not the ones the FuzzyART module computes on the same slice with the same
assignment sequence.
"""
import sys

sys.path.insert(0, sys.argv[1])
import numpy as np
from artlib import FusionART, FuzzyART, HypersphereART

rng = np.random.default_rng(3)
n = 40
A = rng.random((n, 2)).astype(np.float32)
B = rng.random((n, 2)).astype(np.float32)
X = np.hstack([A, 1 - A, B]).astype(np.float32)

fa = FusionART(
    [FuzzyART(0.5, 0.01, 0.5), HypersphereART(0.5, 0.01, 0.5, 1.5)],
    [0.5, 0.5],
    [4, 2],
)
fa.fit(X)

# the FuzzyART module alone, driven through the same assignment sequence
m = FuzzyART(0.5, 0.01, 0.5)
Xa = X[:, :4]
m.validate_data(Xa)
W = []
for x, c in zip(Xa, fa.labels_):
    if c == len(W):
        W.append(m.new_weight(x, m.params))
    else:
        W[c] = m.update(x, W[c], m.params, None)

diff = max(float(np.max(np.abs(a.astype(np.float64) - b))) for a, b in zip(W, fa.modules[0].W))
exact = all(np.array_equal(a, b) for a, b in zip(W, fa.modules[0].W))
print("module alone dtype:", W[0].dtype, " fused channel dtype:", fa.modules[0].W[0].dtype)
print("max |difference| of the FuzzyART channel weights:", diff)
if not exact:
    print(
        "VIOLATION: the FuzzyART channel of the FusionART does not store what "
        "FuzzyART alone computes for the same slice and assignments"
    )
    sys.exit(1)
print("ok")
sys.exit(0)

"""C10 / permutation clause + 'any gamma vector summing to 1':
FusionART.validate_params tests `sum(gamma_values) == 1.0` with a naive
left-to-right float sum.  For an np.ndarray gamma (an explicitly accepted type)
the vector (0.1, 0.2, 0.7) is accepted, but the SAME channels listed in the
order (0.7, 0.2, 0.1) are rejected with an AssertionError, although the
three doubles sum to 1 (their correctly rounded sum is exactly 1.0).
So permuting channels together with gamma and widths turns a working
configuration into an exception."""
import sys, math, warnings
sys.path.insert(0, sys.argv[1] if len(sys.argv) > 1 else ".")
warnings.filterwarnings("ignore")
import numpy as np
from artlib import FusionART, FuzzyART, HypersphereART

rng = np.random.default_rng(0)
a = rng.random((12, 1)); b = rng.random((12, 2)); c = rng.random((12, 1))
chan = [np.hstack([a, 1 - a]), b, c]                       # prepared channel data
def mods():
    return [FuzzyART(0.5, 0.01, 1.0), HypersphereART(0.5, 0.01, 1.0, 1.5), HypersphereART(0.5, 0.01, 1.0, 1.0)]
gam = [0.1, 0.2, 0.7]
widths = [2, 2, 1]

def run(perm):
    m = mods()
    f = FusionART([m[p] for p in perm], np.array([gam[p] for p in perm]), [widths[p] for p in perm])
    f.fit(np.hstack([chan[p] for p in perm]))
    return [int(l) for l in f.labels_]

bad = False
assert math.fsum(gam) == 1.0           # the gamma vector does sum to 1
base = run((0, 1, 2))
print("order (0,1,2) gamma", gam, "-> labels", base)
for perm in [(2, 1, 0), (2, 0, 1), (1, 2, 0), (1, 0, 2), (0, 2, 1)]:
    try:
        lab = run(perm)
        if lab != base:
            print("perm", perm, "labels differ", lab); bad = True
    except AssertionError as e:
        print("VIOLATION: channel order", perm, "gamma", [gam[p] for p in perm],
              "rejected by FusionART.validate_params (AssertionError) while order (0,1,2) is accepted")
        bad = True
sys.exit(1 if bad else 0)

"""C10 / 'permuting the channels together with their gamma values and widths does
not change the clustering'.
FusionART.category_choice adds the gamma-weighted channel activations left to
right in channel order.  Float addition is not associative, so two categories
whose fused activations are exactly tied in real arithmetic can be ordered
differently after a channel permutation; nanargmax then picks another winner and
the sample gets another label (and another category is updated)."""
import sys, itertools, warnings
sys.path.insert(0, sys.argv[1] if len(sys.argv) > 1 else ".")
warnings.filterwarnings("ignore")
import numpy as np
from artlib import FusionART, HypersphereART

raw = np.array([[0.7, 0.1, 0.4],
                [0.1, 0.7, 0.4],
                [0.5, 0.5, 0.4]])       # three 1-wide channels, values in [0,1]
gam = [0.25, 0.25, 0.5]                  # exactly representable, sums to exactly 1
widths = [1, 1, 1]

def run(perm):
    mods = [HypersphereART(0.5, 0.0, 1.0, 1.0) for _ in range(3)]   # identical module per channel
    f = FusionART([mods[p] for p in perm], [gam[p] for p in perm], [widths[p] for p in perm])
    f.fit(raw[:, list(perm)])
    # un-permute the stored fused weights so that they are comparable
    inv = np.argsort(perm)
    Wc = [[f.modules[inv[k]].W[c].tolist() for k in range(3)] for c in range(f.n_clusters)]
    return [int(l) for l in f.labels_], Wc

base_labels, base_W = run((0, 1, 2))
print("channel order (0,1,2): labels", base_labels)
bad = False
for perm in itertools.permutations(range(3)):
    lab, Wc = run(perm)
    if lab != base_labels or Wc != base_W:
        print("VIOLATION: channel order", perm, "gives labels", lab, "instead of", base_labels)
        bad = True
sys.exit(1 if bad else 0)

"""C10 violation: permuting the channels (with their gammas and widths) changes the clustering.

Property clause: "permuting the channels together with their gamma values and
widths does not change the clustering".

FusionART.category_choice adds the gamma-weighted channel activations left to
right in channel order.  With three or more channels floating-point addition is
not associative, so two categories whose fused activations are mathematically
EQUAL (the same multiset of channel activations, same gammas) get different
rounded sums depending on the channel order; the argmax - and therefore the
cluster a sample is assigned to and which weight is updated - depends on the
order in which the channels are listed.

4 channels, every gamma = 0.25 (exactly representable, sums to 1.0 in any order, so
this is not the known validate_params issue), identical HypersphereART modules.
"""
import sys

sys.path.insert(0, sys.argv[1])
import numpy as np
from artlib import FusionART, HypersphereART

d = np.array([0.17, 0.127, 0.102, 0.054])
P = 0.5 + d  # sample 1 -> category 0
Q = 0.5 - np.roll(d, -1)  # sample 2 -> category 1 (fails vigilance against P)
x = np.full(4, 0.5)  # sample 3: channel distances to P are d, to Q a rotation of d
rows = np.array([P, Q, x])
gam = [0.25, 0.25, 0.25, 0.25]


def run(perm):
    X = rows[:, list(perm)]
    fa = FusionART(
        [HypersphereART(0.8, 0.0, 1.0, 1.0) for _ in perm],
        [gam[p] for p in perm],
        [1 for _ in perm],
    )
    fa.fit(X)
    return [int(v) for v in fa.labels_], fa


base_perm = (0, 1, 2, 3)
other_perm = (0, 2, 1, 3)
lab_a, fa_a = run(base_perm)
lab_b, fa_b = run(other_perm)
print("channel order", base_perm, "-> labels", lab_a)
print("channel order", other_perm, "-> labels", lab_b)
if lab_a != lab_b or fa_a.n_clusters != fa_b.n_clusters:
    print(
        "VIOLATION: the same data with the channels (gamma, width, module) permuted "
        "is clustered differently"
    )
    sys.exit(1)
print("ok")
sys.exit(0)

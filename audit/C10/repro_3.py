"""C10 violation: the FusionART.W setter does not split fused weights into channel weights.

Property clause: "all channels always hold the same number of categories, and the
fused weight is the concatenation of the channel weights".

Reading the fused weights and writing the very same list back (fa.W = fa.W), which
must be the identity, slices the LIST of categories by the channel column positions
(new_W[start:end]) instead of slicing every weight vector.  Afterwards channel 0
holds channel_dims[0] "categories" and channel 1 holds channel_dims[1] of them,
each being a complete fused vector; n_clusters changes and predict() crashes.
"""
import sys

sys.path.insert(0, sys.argv[1])
import numpy as np
from artlib import FusionART, FuzzyART, HypersphereART

rng = np.random.default_rng(0)
A = rng.random((30, 2))
B = rng.random((30, 2))
X = np.hstack([A, 1 - A, B])

fa = FusionART(
    [FuzzyART(0.7, 0.01, 1.0), HypersphereART(0.7, 0.01, 1.0, 0.8)],
    [0.5, 0.5],
    [4, 2],
)
fa.fit(X)
before_counts = [len(m.W) for m in fa.modules]
before_chan = [[np.array(w) for w in m.W] for m in fa.modules]
before_pred = fa.predict(X)
W = fa.W
assert all(
    np.array_equal(W[j], np.concatenate([m.W[j] for m in fa.modules]))
    for j in range(len(W))
)

fa.W = W  # must be a no-op

problems = []
after_counts = [len(m.W) for m in fa.modules]
if after_counts != before_counts:
    problems.append(
        f"category counts per channel changed from {before_counts} to {after_counts}"
    )
if len(set(after_counts)) != 1:
    problems.append(f"channels hold different numbers of categories: {after_counts}")
for k, m in enumerate(fa.modules):
    if len(m.W) and len(m.W[0]) != len(before_chan[k][0]):
        problems.append(
            f"channel {k} weight has length {len(m.W[0])}, "
            f"the module's own weight has length {len(before_chan[k][0])}"
        )
try:
    after_pred = fa.predict(X)
    if not np.array_equal(after_pred, before_pred):
        problems.append("predict() changed after fa.W = fa.W")
except Exception as e:  # noqa
    problems.append(f"predict() raises after fa.W = fa.W: {type(e).__name__}: {e}")

if problems:
    print("VIOLATION (FusionART.W setter):")
    for p in problems:
        print("  -", p)
    sys.exit(1)
print("ok")
sys.exit(0)

"""C10 violation: with a float32 gamma array the fused activation is computed in float32,
so a one-channel FusionART(gamma = 1) does NOT behave like the bare module.

Property clauses: "its activation is the gamma-weighted sum of the channel
activations" and "a one-channel FusionART with gamma=1 behaves identically to the
bare module"  (quantifier: any gamma vector summing to 1; np.ndarray is an
explicitly accepted type and validate_params accepts dtype float32).

FusionART.category_choice computes a * gamma_values[k].  Under NumPy 2 promotion a
Python float (the activations returned by FuzzyART, ART1, ART2A) times np.float32 is
np.float32, so the fused activation is rounded to 24 bits.  Activations that differ
by less than ~6e-8 become ties, argmax then returns the first category instead of
the best one, and the clustering differs from the bare module (and from the same
FusionART with a float64 gamma array).
"""
import sys

sys.path.insert(0, sys.argv[1])
import numpy as np
from artlib import FusionART, FuzzyART

g32 = np.array([1.0], dtype=np.float32)
n_diff = 0
first = None
for seed in range(20):
    rng = np.random.default_rng(seed)
    A = rng.random((60, 2))
    X = np.hstack([A, 1 - A])
    bare = FuzzyART(0.6, 1e-7, 1.0).fit(X)
    f64 = FusionART([FuzzyART(0.6, 1e-7, 1.0)], np.array([1.0]), [4]).fit(X)
    f32 = FusionART([FuzzyART(0.6, 1e-7, 1.0)], g32, [4]).fit(X)
    assert np.array_equal(bare.labels_, f64.labels_)  # float64 gamma: identical
    same = (
        np.array_equal(bare.labels_, f32.labels_)
        and len(bare.W) == len(f32.W)
        and all(np.array_equal(a, b) for a, b in zip(bare.W, f32.W))
    )
    if not same:
        n_diff += 1
        if first is None:
            idx = np.where(bare.labels_ != f32.labels_)[0]
            first = (seed, idx[:5], bare.labels_[idx[:5]], f32.labels_[idx[:5]])
            x = X[idx[0]]
            fb = FuzzyART(0.6, 1e-7, 1.0).fit(X[: idx[0]])
            ff = FusionART([FuzzyART(0.6, 1e-7, 1.0)], g32, [4]).fit(X[: idx[0]])
            Tb = [fb.category_choice(x, w, fb.params)[0] for w in fb.W]
            Tf = [ff.category_choice(x, w, ff.params)[0] for w in ff.W]
            print("bare activations :", [repr(t) for t in Tb])
            print("fused activations:", [repr(t) for t in Tf], type(Tf[0]))

if n_diff:
    print(
        f"VIOLATION: one-channel FusionART with gamma=np.array([1.0], float32) differs "
        f"from the bare FuzzyART on {n_diff}/20 data sets; first: seed {first[0]}, "
        f"samples {first[1]}, bare labels {first[2]}, fused labels {first[3]}"
    )
    sys.exit(1)
print("ok")
sys.exit(0)

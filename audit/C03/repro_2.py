"""ART1.new_weight scales the bottom-up weights by L/(L-1+dim) instead of
L/(L-1+|t|): a freshly committed category does not satisfy the ART1 relation
bottom_up = L/(L-1+|t|) * t between its two halves (it does after its first
update).  Consequence: a category that has coded exactly one pattern is
under-activated; predict() of a training sample disagrees with labels_."""
import sys, warnings
sys.path.insert(0, sys.argv[1])
import numpy as np
warnings.simplefilter("ignore")
from artlib import ART1

problems = []
L = 2.0
m = ART1(rho=0.6, L=L)
X = np.array([[1, 0, 0, 0], [1, 0, 0, 0], [1, 1, 0, 0]])
m.fit(X)
d = 4
for k, w in enumerate(m.W):
    bu, t = w[:d], w[d:]
    ref = L / (L - 1 + t.sum()) * t
    if not np.allclose(bu, ref):
        problems.append(f"category {k}: template {t}, bottom-up {bu}, ART1 rule gives {ref}")
# direct call
w_new = m.new_weight(np.array([1, 1, 0, 0]), m.params)
ref = np.concatenate([L / (L - 1 + 2) * np.array([1, 1, 0, 0]), [1, 1, 0, 0]])
if not np.allclose(w_new, ref):
    problems.append(f"new_weight([1,1,0,0]) = {w_new}, expected {ref}")
# the same weight is a fixed point of update() only if the relation holds
T, c = m.category_choice(X[2], m.W[m.labels_[2]], m.params)
upd = m.update(X[2], m.W[m.labels_[2]], m.params, c)
if not np.allclose(upd, m.W[m.labels_[2]]):
    problems.append("re-presenting the pattern that created a category changes its weight "
                    f"{m.W[m.labels_[2]]} -> {upd}")
pred = m.predict(X)
if not np.array_equal(pred, m.labels_):
    problems.append(f"predict(X)={pred} differs from labels_={m.labels_} "
                    "(exact-template category loses the choice competition)")
if problems:
    print("ART1 bottom-up scaling violated:")
    for p in problems:
        print(" -", p)
    sys.exit(1)
sys.exit(0)

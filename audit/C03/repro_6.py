"""EllipsoidART.get_2d_ellipsoids returns (centre, width, height, angle) with the
two axes exchanged: `angle` is the direction of the stored major axis, but the
extent along that direction (`width`) is mu*2R and the extent across it
(`height`) is 2R.  The stored weight describes the region
{x : dis(x) <= R}, which reaches R along the major axis and mu*R across it."""
import sys, warnings
sys.path.insert(0, sys.argv[1])
import numpy as np
warnings.simplefilter("ignore")
from artlib import EllipsoidART

m = EllipsoidART(rho=0.1, alpha=0.01, beta=1.0, mu=0.5, r_hat=2.0)
m.fit(np.array([[0.1, 0.1], [0.9, 0.9]]))  # sets dim_
d = np.array([1.0, 0.0]); R = 0.2
m.W = [np.concatenate([[0.5, 0.5], d, [R]])]
(c, width, height, angle), = m.get_2d_ellipsoids()
th = np.deg2rad(angle)
rot = np.array([[np.cos(th), -np.sin(th)], [np.sin(th), np.cos(th)]])
problems = []
for t, name in ((0.0, "along the angle direction"), (np.pi / 2, "across it")):
    p = c + rot @ np.array([width / 2 * np.cos(t), height / 2 * np.sin(t)])
    dist = EllipsoidART.category_distance(p, c, d, m.params)
    if not np.isclose(dist, R):
        problems.append(f"boundary point {p} of the returned ellipse ({name}) has category distance {dist}, R={R}")
if problems:
    print(f"get_2d_ellipsoids -> centre={c}, width={width}, height={height}, angle={angle}")
    for p in problems:
        print(" -", p)
    sys.exit(1)
sys.exit(0)

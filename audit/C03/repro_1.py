"""EllipsoidART.update: the major-axis (direction vector) rule is inverted.

Published Ellipsoid ART (Anagnostopoulos & Georgiopoulos 2001) and the class
docstring ("the second sample will determine the orientation of the principal
axes"): d_j is set to (x - m_j)/||x - m_j|| when the category codes its SECOND
pattern (R_j == 0, d_j == 0) and stays constant afterwards.  A pattern that lies
inside the category leaves the category unchanged.

The library does the opposite: the second pattern leaves the axis at zero, and
every later pattern (radius != 0) overwrites it - even a pattern strictly inside
the ellipsoid.
"""
import sys, warnings
sys.path.insert(0, sys.argv[1])
import numpy as np
warnings.simplefilter("ignore")
from artlib import EllipsoidART

problems = []
m = EllipsoidART(rho=0.1, alpha=1e-3, beta=1.0, mu=0.5, r_hat=2.0)
x1 = np.array([0.2, 0.5]); x2 = np.array([0.8, 0.5])
m.fit(np.vstack([x1, x2]))
assert m.n_clusters == 1
w = m.W[0].copy()
cen, axis, R = w[:2], w[2:4], w[4]
expected_axis = (x2 - x1) / np.linalg.norm(x2 - x1)
if not np.allclose(np.abs(axis), np.abs(expected_axis)):
    problems.append(
        f"after the category coded its 2nd pattern: centre={cen}, R={R} but "
        f"major axis={axis}, published rule gives +-{expected_axis}"
    )

# consequence on the kernel values: x3 is off-axis.  Published distance with
# d=(1,0), mu=0.5 is (1/mu)*sqrt(|ic|^2-(1-mu^2)(d.ic)^2) = 0.4 > R = 0.3,
# so M = 1-(R+0.4)/r_hat = 0.65 ; the library treats the category as a sphere
x3 = np.array([0.5, 0.7])
T, cache = m.category_choice(x3, w, m.params)
M, cache = m.match_criterion(x3, w, m.params, cache)
M_pub = 1 - (0.3 + 0.4) / 2.0
if not np.isclose(M, M_pub):
    problems.append(f"match of {x3} with the trained category: library {M}, published {M_pub}")

# later updates must keep the axis; an interior sample must not change the weight
m2 = EllipsoidART(rho=0.1, alpha=1e-3, beta=1.0, mu=0.5, r_hat=2.0)
m2.fit(np.vstack([x1, x2]))  # only to set dim_
w_in = np.concatenate([[0.5, 0.5], [1.0, 0.0], [0.3]])  # well-formed weight
x_inside = np.array([0.5, 0.55])  # distance (1/0.5)*0.05 = 0.1 < R
T, cache = m2.category_choice(x_inside, w_in, m2.params)
assert cache["dist"] < 0.3
w_new = m2.update(x_inside, w_in, m2.params, cache)
if not np.allclose(w_new, w_in):
    problems.append(
        f"update with a sample strictly inside the ellipsoid changed the weight: {w_in} -> {w_new}"
    )
x_out = np.array([0.5, 0.9])
T, cache = m2.category_choice(x_out, w_in, m2.params)
w_new = m2.update(x_out, w_in, m2.params, cache)
if not np.allclose(w_new[2:4], [1.0, 0.0]):
    problems.append(f"update of an established category re-oriented the major axis: {w_in[2:4]} -> {w_new[2:4]}")

if problems:
    print("EllipsoidART major-axis rule violated:")
    for p in problems:
        print(" -", p)
    sys.exit(1)
sys.exit(0)

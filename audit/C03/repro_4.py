"""FuzzyART.shrink_clusters with an admitted shrink_ratio in (0.5, 1]
("Must be between 0 and 1") turns the box inside out: lower corner above the
upper corner, negative edge lengths, |w| > d - not a hyper-box, not a
well-formed Fuzzy ART weight."""
import sys, warnings
sys.path.insert(0, sys.argv[1])
import numpy as np
warnings.simplefilter("ignore")
from artlib import FuzzyART

X = np.array([[0.2, 0.3], [0.6, 0.9]])
Xc = np.hstack([X, 1 - X])
problems = []
for ratio in (0.6, 1.0):
    m = FuzzyART(rho=0.1, alpha=1e-3, beta=1.0)
    m.fit(Xc)
    assert m.n_clusters == 1
    old_ref, old_wd = m.get_bounding_boxes()[0]
    m.shrink_clusters(ratio)
    ref, wd = m.get_bounding_boxes()[0]
    w = m.W[0]
    if min(wd) < -1e-12:
        problems.append(
            f"shrink_ratio={ratio}: box {old_ref}+{old_wd} became ref={ref}, edge lengths={wd} "
            f"(negative); |w|={w.sum():.3f} > d=2"
        )
if problems:
    print("FuzzyART.shrink_clusters produces an inverted box:")
    for p in problems:
        print(" -", p)
    sys.exit(1)
sys.exit(0)

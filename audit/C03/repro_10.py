"""C03 - 'the binary match test thresholds that value against rho ...' at the boundary
rho = 1 with the sample on the category (w = x), Fuzzy ART.

With w = x the published match value is M = |x ^ x| / d = |x| / d = 1, so the test
M >= rho passes for rho = 1.  FuzzyART computes |x| by floating-point summation of
the complement-coded vector, which is frequently d - 1ulp, so M = 0.9999999999999999
and match_criterion_bin(x, x, rho=1.0) is False: a sample fails the vigilance test
of the category that IS that sample.  fit([x, x]) with rho=1.0 then yields two
categories and different labels for two identical rows.
"""
import sys

sys.path.insert(0, sys.argv[1])
import warnings

warnings.simplefilter("ignore")
import numpy as np
from artlib import FuzzyART

rng = np.random.default_rng(0)
checked = 0
failures = []
for _ in range(300):
    dim = int(rng.integers(1, 6))
    x = rng.random(dim)
    row = np.concatenate([x, 1.0 - x])
    X = np.vstack([row, row])
    model = FuzzyART(rho=1.0, alpha=1e-3, beta=1.0)
    try:
        model.fit(X)
    except AssertionError:
        continue
    checked += 1
    m_bin, _ = model.match_criterion_bin(row, model.W[0], model.params)
    if model.n_clusters != 1 or model.labels_[0] != model.labels_[1] or not m_bin:
        failures.append((x, model.match_criterion(row, model.W[0], model.params)[0]))

if failures:
    x, M = failures[0]
    print(
        f"{len(failures)} of {checked} duplicated samples do not match their own "
        f"category at rho=1.0; e.g. x={x!r}: M={M!r}, two categories for two "
        "identical rows"
    )
    sys.exit(1)
sys.exit(0)

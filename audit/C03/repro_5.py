"""FuzzyART.shrink_clusters raises on a model trained on integer (binary,
complement-coded) data: categories that were never updated keep the integer
dtype of the sample (new_weight = np.copy(i)) and the in-place `+=` of a float
cannot be cast.  fit / predict / get_bounding_boxes accept the same data."""
import sys, warnings
sys.path.insert(0, sys.argv[1])
import numpy as np
warnings.simplefilter("ignore")
from artlib import FuzzyART

X = np.array([[0, 1, 1, 0], [1, 1, 0, 0]])  # two corners of the unit square, complement coded
m = FuzzyART(rho=0.9, alpha=0.1, beta=1.0)
m.fit(X)
m.predict(X)
m.get_bounding_boxes()
try:
    m.shrink_clusters(0.1)
except Exception as e:  # noqa
    print("FuzzyART.shrink_clusters raised on valid integer data:", type(e).__name__, e)
    print("weights:", m.W, [w.dtype for w in m.W])
    sys.exit(1)
sys.exit(0)

"""EllipsoidART.category_distance loses all accuracy for small mu accepted by
validation (0 < mu <= 1): |ic|^2 - (1-mu^2)(d.ic)^2 cancels catastrophically and
is then multiplied by 1/mu.  For a sample ON the major axis the published value
is exactly |x - m|; the library returns values wrong by large factors (or NaN),
so T, M and the radius update are wrong."""
import sys, warnings
sys.path.insert(0, sys.argv[1])
import numpy as np
warnings.simplefilter("ignore")
from artlib import EllipsoidART

rng = np.random.default_rng(0)
worst = {}
for mu in (1e-6, 1e-7, 1e-8):
    params = {"rho": 0.1, "alpha": 0.01, "beta": 1.0, "mu": mu, "r_hat": 3.0}
    EllipsoidART.validate_params(params)
    errs = []
    for _ in range(500):
        p, q = rng.random(3), rng.random(3)
        a = (q - p) / np.linalg.norm(q - p)
        x = p + (q - p) * rng.random()
        true = np.linalg.norm(x - p)
        got = EllipsoidART.category_distance(x, p, a, params)
        errs.append(np.inf if np.isnan(got) else abs(got - true) / true)
    worst[mu] = (np.median(errs), np.max(errs))
bad = {mu: v for mu, v in worst.items() if v[1] > 1e-3}
if bad:
    print("EllipsoidART.category_distance, sample on the major axis, relative error (median, max):")
    for mu, v in worst.items():
        print(f" - mu={mu}: {v}")
    sys.exit(1)
sys.exit(0)

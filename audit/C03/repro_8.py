"""C03 - Gaussian ART kernel values (likelihood times prior, running moments) after a
less common call order: fit, set_params(sigma_init=<other width>), fit.

GaussianART checks that sigma_init has one entry per data column only the first
time it sees data (check_dimensions, when dim_ is not yet set).  A later
set_params(sigma_init=...) with another width passes validate_params, and the next
fit() on the same data is accepted: new_weight() builds weight vectors with the
wrong layout [mean(d), sigma(k), 1/sigma^2(k), det, n], category_choice() then
reads 1/sigma^2 from the wrong slots (and det from a product over k entries), so
the activations/matches of every fresh category are silently wrong, and W holds
vectors of different lengths.  A fresh GaussianART with that sigma_init rejects the
same data.
"""
import sys

sys.path.insert(0, sys.argv[1])
import warnings

warnings.simplefilter("ignore")
import numpy as np
from artlib import GaussianART

rng = np.random.default_rng(0)
X = np.vstack([0.2 + 0.05 * rng.random((8, 2)), [[0.95, 0.9]]])  # last row: far away

fresh_rejects = False
try:
    GaussianART(rho=0.5, sigma_init=np.array([0.5, 0.5, 0.1])).fit(X)
except (AssertionError, ValueError):
    fresh_rejects = True

model = GaussianART(rho=0.5, sigma_init=np.array([0.5, 0.5]))
model.fit(X)
try:
    model.set_params(sigma_init=np.array([0.5, 0.5, 0.1]))
    model.fit(X)
except (AssertionError, ValueError):
    sys.exit(0)  # rejected, fine

d = 2
bad = False
lens = sorted(set(len(w) for w in model.W))
if lens != [3 * d + 2]:
    print(
        f"after set_params(sigma_init=<3 entries>) the refit on 2-column data was "
        f"accepted (fresh model rejects: {fresh_rejects}); weight lengths {lens}, "
        f"expected {[3 * d + 2]}"
    )
    bad = True
# kernel value of a never-updated category against the published formula
for w in model.W:
    if w[-1] == 1.0:
        x = X[0]
        T, cache = model.category_choice(x, w, model.params)
        mean = w[:d]
        sig = model.params["sigma_init"][:d]
        G = np.exp(-0.5 * np.sum(((x - mean) / sig) ** 2))
        if not np.isclose(cache["exp_dist_sig_dist"], G, rtol=1e-9):
            print(
                f"match value of a fresh category is {cache['exp_dist_sig_dist']}, "
                f"the Gaussian with the leading {d} sigmas gives {G}"
            )
            bad = True
        break
sys.exit(1 if bad else 0)

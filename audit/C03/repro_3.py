"""QuadraticNeuronART.get_cluster_centers returns the bias b, but the stored
weight (W, b, s) describes the activation exp(-s^2 |W x - b|^2), whose centre in
data space is W^{-1} b.  As soon as W has left the identity (lr_w > 0) the
returned "centre" is not the centre of the category: it can lie far outside the
samples the category coded."""
import sys, warnings
sys.path.insert(0, sys.argv[1])
import numpy as np
warnings.simplefilter("ignore")
from artlib import QuadraticNeuronART

rng = np.random.default_rng(0)
X = np.clip(rng.normal([0.7, 0.3], [0.15, 0.05], size=(200, 2)), 0, 1)
m = QuadraticNeuronART(rho=0.0, s_init=1.0, lr_b=0.1, lr_w=0.5, lr_s=0.1)
m.fit(X, max_iter=5)
problems = []
for k, (w, c) in enumerate(zip(m.W, m.get_cluster_centers())):
    Wm, b, s = w[:4].reshape(2, 2), w[4:-1], w[-1]
    true_centre = np.linalg.solve(Wm, b)
    T_ret = m.category_choice(np.asarray(c), w, m.params)[0]
    T_true = m.category_choice(true_centre, w, m.params)[0]
    pts = X[m.labels_ == k]
    lo, hi = pts.min(0), pts.max(0)
    if not np.allclose(c, true_centre, atol=1e-6):
        problems.append(
            f"category {k}: get_cluster_centers -> {c}; activation maximum (W^-1 b) at {true_centre} "
            f"(T={T_true:.6f} vs T(returned)={T_ret:.6f}); samples of the category span {lo}..{hi}, "
            f"mean {pts.mean(0)}"
        )
if problems:
    print("QuadraticNeuronART.get_cluster_centers disagrees with the stored weight:")
    for p in problems:
        print(" -", p)
    sys.exit(1)
sys.exit(0)

"""C03 - 'Derived geometry accessors agree with the stored weight' (Ellipsoid ART).

EllipsoidART.get_2d_ellipsoids() returns (centroid, width, height, angle) in the
matplotlib Ellipse convention (width = full length along the direction `angle`).
`angle` is the direction of the stored major axis d, but the lengths are swapped:
width = mu*2R is put along d and height = 2R across it.  The category region
defined by the stored weight, {x : dis(x, w) <= R} with the published distance
dis = (1/mu) sqrt(|x-m|^2 - (1-mu^2)(d.(x-m))^2), reaches R along d and only
mu*R across it.  So the end points of the returned ellipse are not on the category
boundary: one lies inside (dis = mu*R), the other far outside (dis = R/mu).
"""
import sys

sys.path.insert(0, sys.argv[1])
import warnings

warnings.simplefilter("ignore")
import numpy as np
from artlib import EllipsoidART

mu = 0.5
model = EllipsoidART(rho=0.0, alpha=1e-7, beta=1.0, mu=mu, r_hat=4.0)
X = np.array([[0.2, 0.3], [0.8, 0.5]])
model.fit(X)
if len(model.W) != 1:
    sys.exit(0)
w = model.W[0]
d = 2
centroid, axis, R = w[:d], w[d : 2 * d], w[-1]
if not (R > 0 and axis.any()):
    sys.exit(0)

(c, width, height, angle), = model.get_2d_ellipsoids()
th = np.deg2rad(angle)
u = np.array([np.cos(th), np.sin(th)])  # direction of 'width'
v = np.array([-np.sin(th), np.cos(th)])  # direction of 'height'
p_w = np.asarray(c) + 0.5 * width * u
p_h = np.asarray(c) + 0.5 * height * v
dis_w = model.category_distance(p_w, centroid, axis, model.params)
dis_h = model.category_distance(p_h, centroid, axis, model.params)
bad = False
for name, p, dis in (("width", p_w, dis_w), ("height", p_h, dis_h)):
    if not np.isclose(dis, R, rtol=1e-9, atol=1e-12):
        print(
            f"end point {p} of the returned ellipse along its {name} axis has category "
            f"distance {dis}, but the category radius is {R} (mu={mu})"
        )
        bad = True
sys.exit(1 if bad else 0)

"""First partial_fit of a compound estimator built over a module that already has a
history (e.g. it was fitted on its own to look at its clusters, then wrapped).  fit()
of the same compound estimators resets everything and works; partial_fit takes the
'continue' branch because the wrapped module has a W, and fails."""
import sys
sys.path.insert(0, sys.argv[1])
import io, contextlib, warnings
import numpy as np
warnings.filterwarnings("ignore")
from artlib import FuzzyART, FusionART, TopoART, DualVigilanceART


def cc(X):
    return np.hstack([X, 1.0 - X])


rng = np.random.default_rng(2)
X1 = cc(rng.random((12, 1)))
X2 = np.hstack([cc(rng.random((12, 1))), cc(rng.random((12, 1)))])
problems = []


def pre():
    f = FuzzyART(0.8, 1e-7, 1.0)
    f.fit(X1)
    return f


cases = {
    "FusionART": (lambda: FusionART([pre(), pre()], [0.5, 0.5], [2, 2]), X2),
    "TopoART": (lambda: TopoART(pre(), 0.5, 5, 2), X1),
    "DualVigilanceART": (lambda: DualVigilanceART(pre(), 0.3), X1),
}
for name, (make, X) in cases.items():
    with contextlib.redirect_stdout(io.StringIO()):
        ok = make().fit(X)  # the reset path works
    assert len(ok.labels_) == len(X)
    m = make()
    try:
        with contextlib.redirect_stdout(io.StringIO()):
            m.partial_fit(X)
        L = m.labels_
        if len(L) != len(X) or (len(L) and L.max() >= m.n_clusters):
            problems.append(f"{name}: inconsistent after partial_fit: len(labels_)={len(L)}, n_clusters={m.n_clusters}")
    except Exception as e:  # noqa
        problems.append(f"{name}.partial_fit over a previously fitted module raised {type(e).__name__}: {e}")

if problems:
    print("VIOLATION:")
    for p in problems:
        print("  -", p)
    sys.exit(1)
print("ok")
sys.exit(0)

"""SimpleARTMAP.partial_fit / ARTMAP.partial_fit, first call of a new wrapper whose
A-side module already has a history (it was fitted on its own, or by another wrapper):
the call throws the old categories away (module_a.W = [], labels_ re-allocated) but keeps
the old sample_counter_ / weight_sample_counter_.  From then on the A-side counters
neither have one entry per category nor equal the label histogram (SimpleARTMAP.fit does
reset them)."""
import sys
sys.path.insert(0, sys.argv[1])
import warnings
import numpy as np
warnings.filterwarnings("ignore")
from artlib import FuzzyART, SimpleARTMAP, ARTMAP


def cc(X):
    return np.hstack([X, 1.0 - X])


rng = np.random.default_rng(1)
X = cc(rng.random((10, 2)))
y = np.array([0, 1, 0, 1])
problems = []


def check(tag, a, n):
    k = a.n_clusters
    hist = np.bincount(a.labels_, minlength=k).tolist()
    if list(a.weight_sample_counter_) != hist or a.sample_counter_ != n or len(a.labels_) != n:
        problems.append(
            f"{tag}: A-side labels_={a.labels_.tolist()} n_clusters={k} histogram={hist} but "
            f"weight_sample_counter_={list(a.weight_sample_counter_)} sample_counter_={a.sample_counter_}"
        )


# (a) module used stand-alone first
a = FuzzyART(0.9, 1e-7, 1.0)
a.fit(X)
m = SimpleARTMAP(a)
m.partial_fit(X[:4], y)
check("SimpleARTMAP.partial_fit after stand-alone fit", a, 4)

# (b) module handed from one wrapper to a new one
a = FuzzyART(0.9, 1e-7, 1.0)
SimpleARTMAP(a).fit(X, rng.integers(0, 2, 10))
m2 = SimpleARTMAP(a)
m2.partial_fit(X[:4], y)
check("SimpleARTMAP.partial_fit of a second wrapper", a, 4)

# (c) ARTMAP: same on the A side
a = FuzzyART(0.9, 1e-7, 1.0)
b = FuzzyART(0.9, 1e-7, 1.0)
a.fit(X)
am = ARTMAP(a, b)
am.partial_fit(X[:4], X[:4])
check("ARTMAP.partial_fit, A side", a, 4)

if problems:
    print("VIOLATION:")
    for p in problems:
        print("  -", p)
    sys.exit(1)
print("ok")
sys.exit(0)

"""ART1 with L=1.0 and rho=0.0 (both accepted by validate_params): the first update with
a pattern disjoint from the category template divides L by (L - 1 + 0) = 0 ->
ZeroDivisionError in the middle of fit, with sample_counter_ / labels_ already advanced."""
import sys
sys.path.insert(0, sys.argv[1])
import io, contextlib, warnings
import numpy as np
warnings.filterwarnings("ignore")
from artlib import ART1, FuzzyART, TopoART


def cc(X):
    return np.hstack([X, 1.0 - X])


problems = []


def run(tag, model, batches, method):
    try:
        for B in batches:
            with contextlib.redirect_stdout(io.StringIO()):
                getattr(model, method)(B)
    except Exception as e:  # noqa
        cnt = list(model.weight_sample_counter_)
        problems.append(
            f"{tag}: {method} raised {type(e).__name__}: {e}; state afterwards: "
            f"len(labels_)={len(model.labels_)}, n_clusters={model.n_clusters}, "
            f"counters={cnt} (sum {sum(cnt)}), sample_counter_={model.sample_counter_}"
        )


Xb = np.array([[1.0, 0.0], [0.0, 1.0]])
run("ART1 L=1.0 rho=0.0, fit", ART1(0.0, 1.0), [Xb], "fit")
run("ART1 L=1.0 rho=0.0, partial_fit", ART1(0.0, 1.0), [Xb[:1], Xb[1:]], "partial_fit")

if problems:
    print("VIOLATION:")
    for p in problems:
        print("  -", p)
    sys.exit(1)
print("ok")
sys.exit(0)

"""C05 violation: CVIART wrapped around a DualVigilanceART reports a cluster count and a
category list that do not belong to its labels.

CVIART exposes W / n_clusters / labels_ of its base module as its own.  With a
DualVigilanceART base module, labels_ holds the *abstract* dual-vigilance cluster ids
(DualVigilanceART.map values) but CVIART.W is the list of *base* categories and
CVIART.n_clusters = len(W) counts those.  So after fit n_clusters differs from the
number of clusters the labels refer to, and most "categories" 0..n_clusters-1 own no
sample although nothing was pruned.  Breaks: "categories are numbered in order of
creation with none empty for non-pruning models, and n_clusters equals the number of
stored categories" (for the CVIART estimator; DualVigilanceART on its own reports
n_clusters consistently with its labels).
"""
import sys, io, contextlib, warnings
sys.path.insert(0, sys.argv[1])
import numpy as np
warnings.filterwarnings("ignore")
from artlib import CVIART, DualVigilanceART, FuzzyART

rng = np.random.default_rng(1)
R = rng.random((30, 2))
X = np.hstack([R, 1 - R])

with contextlib.redirect_stdout(io.StringIO()):
    dva = DualVigilanceART(FuzzyART(0.85, 1e-3, 1.0), 0.3)
    est = CVIART(dva, CVIART.CALINSKIHARABASZ)
    est.fit(X)

used = sorted(set(est.labels_.tolist()))
msg = []
if est.n_clusters != dva.n_clusters:
    msg.append(f"CVIART.n_clusters = {est.n_clusters} but its labels_ address {dva.n_clusters} clusters "
               f"(labels used: {used})")
empty = [k for k in range(est.n_clusters) if k not in used]
if empty:
    msg.append(f"categories {empty} of 0..{est.n_clusters - 1} own no sample although nothing was pruned")
if msg:
    print("VIOLATION (CVIART over DualVigilanceART):")
    for m in msg:
        print(" -", m)
    sys.exit(1)
sys.exit(0)

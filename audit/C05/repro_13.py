"""C05 violation: CVIART.partial_fit (public, inherited from BaseART) can never train.

CVIART.step_fit is a stub that raises NotImplementedError, but BaseART.partial_fit,
which CVIART inherits unchanged, calls self.step_fit.  The call raises on perfectly
valid data, and it does so AFTER it has already created / padded labels_: a first
partial_fit leaves labels_ with one (zero) entry per row while no category exists
(n_clusters == 0), a partial_fit after fit leaves labels_ longer than the number of
samples that were actually clustered.  Breaks: "labels_ has one entry per sample
presented", "every label indexes an existing category", for CVIART under partial_fit.
"""
import sys, io, contextlib
sys.path.insert(0, sys.argv[1])
import numpy as np
from artlib import CVIART, FuzzyART

rng = np.random.default_rng(0)
R = rng.random((8, 2))
X = np.hstack([R, 1 - R])
bad = []

with contextlib.redirect_stdout(io.StringIO()):
    est = CVIART(FuzzyART(0.8, 1e-3, 1.0), CVIART.CALINSKIHARABASZ)
try:
    est.partial_fit(X[:4])
except NotImplementedError as ex:
    # (adapted when registered as a probe: a refusal that leaves no state behind is not the violation)
    lab = getattr(est.base_module, "labels_", None)
    if lab is not None and len(lab) > 0:
        bad.append(f"first partial_fit raised NotImplementedError; state now: labels_={list(lab)}, "
                   f"n_clusters={est.n_clusters} (labels refer to categories that do not exist)")

with contextlib.redirect_stdout(io.StringIO()):
    est = CVIART(FuzzyART(0.8, 1e-3, 1.0), CVIART.CALINSKIHARABASZ)
    est.fit(X[:4])
n_before = len(est.labels_)
try:
    est.partial_fit(X[4:])
except NotImplementedError:
    if len(est.labels_) != n_before:
        bad.append(f"partial_fit after fit raised NotImplementedError; labels_ grew from {n_before} to "
                   f"{len(est.labels_)} entries although no further sample was clustered "
                   f"(base module sample_counter_={est.base_module.sample_counter_})")

if bad:
    print("VIOLATION (CVIART.partial_fit):")
    for b in bad:
        print(" -", b)
    sys.exit(1)
sys.exit(0)

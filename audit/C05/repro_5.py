"""iCVIFuzzyART.fit on an empty batch raises IndexError (it reads X[0] before the
loop); every other BaseART estimator accepts an empty batch and ends up empty."""
import sys
sys.path.insert(0, sys.argv[1])
import warnings
import numpy as np
warnings.filterwarnings("ignore")
from artlib import FuzzyART, iCVIFuzzyART

empty = np.zeros((0, 4))
f = FuzzyART(0.5, 1e-7, 1.0)
f.fit(empty)
assert f.n_clusters == 0 and len(f.labels_) == 0

problems = []
for offline in (True, False):
    m = iCVIFuzzyART(0.5, 1e-7, 1.0, iCVIFuzzyART.CALINSKIHARABASZ, offline=offline)
    try:
        m.fit(empty)
        if m.n_clusters != 0 or len(m.labels_) != 0:
            problems.append(f"offline={offline}: not empty after fit(empty)")
    except Exception as e:  # noqa
        problems.append(f"offline={offline}: fit(empty) raised {type(e).__name__}: {e}")
    try:
        m.partial_fit(empty)  # inherited generic partial_fit copes with it
    except Exception as e:  # noqa
        problems.append(f"offline={offline}: partial_fit(empty) raised {type(e).__name__}: {e}")

if problems:
    print("VIOLATION:")
    for p in problems:
        print("  -", p)
    sys.exit(1)
print("ok")
sys.exit(0)

"""FuzzyART with alpha=0.0, rho=0.0, beta=1.0 (all accepted by validate_params): once a
category weight has become all zero (its box covers the whole unit cube) the next sample
raises ZeroDivisionError in category_choice (0 / (0 + 0)), with sample_counter_ / labels_
already advanced."""
import sys
sys.path.insert(0, sys.argv[1])
import io, contextlib, warnings
import numpy as np
warnings.filterwarnings("ignore")
from artlib import ART1, FuzzyART, TopoART


def cc(X):
    return np.hstack([X, 1.0 - X])


problems = []


def run(tag, model, batches, method):
    try:
        for B in batches:
            with contextlib.redirect_stdout(io.StringIO()):
                getattr(model, method)(B)
    except Exception as e:  # noqa
        cnt = list(model.weight_sample_counter_)
        problems.append(
            f"{tag}: {method} raised {type(e).__name__}: {e}; state afterwards: "
            f"len(labels_)={len(model.labels_)}, n_clusters={model.n_clusters}, "
            f"counters={cnt} (sum {sum(cnt)}), sample_counter_={model.sample_counter_}"
        )


Xc = cc(np.array([[0.0], [1.0], [0.5], [0.25]]))
run("FuzzyART alpha=0.0 rho=0.0, fit", FuzzyART(0.0, 0.0, 1.0), [Xc], "fit")
run("FuzzyART alpha=0.0 rho=0.0, partial_fit", FuzzyART(0.0, 0.0, 1.0), [Xc[:2], Xc[2:]], "partial_fit")

if problems:
    print("VIOLATION:")
    for p in problems:
        print("  -", p)
    sys.exit(1)
print("ok")
sys.exit(0)

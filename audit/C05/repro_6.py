"""ART1: an all-zero binary row (accepted by ART1.validate_data) that is not the very
first sample raises ZeroDivisionError in match_criterion (it divides by |i| = 0).  The
exception leaves the book-keeping inconsistent: sample_counter_ already counts the sample
and labels_ already has entries for it and for the rest of the batch."""
import sys
sys.path.insert(0, sys.argv[1])
import io, contextlib, warnings
import numpy as np
warnings.filterwarnings("ignore")
from artlib import ART1, FuzzyART, TopoART


def cc(X):
    return np.hstack([X, 1.0 - X])


problems = []


def run(tag, model, batches, method):
    try:
        for B in batches:
            with contextlib.redirect_stdout(io.StringIO()):
                getattr(model, method)(B)
    except Exception as e:  # noqa
        cnt = list(model.weight_sample_counter_)
        problems.append(
            f"{tag}: {method} raised {type(e).__name__}: {e}; state afterwards: "
            f"len(labels_)={len(model.labels_)}, n_clusters={model.n_clusters}, "
            f"counters={cnt} (sum {sum(cnt)}), sample_counter_={model.sample_counter_}"
        )


Xa = np.array([[1.0, 0.0, 1.0], [0.0, 0.0, 0.0], [0.0, 1.0, 1.0]])
run("ART1 zero row, fit", ART1(0.5, 2.0), [Xa], "fit")
run("ART1 zero row, partial_fit", ART1(0.5, 2.0), [Xa[:1], Xa[1:]], "partial_fit")

if problems:
    print("VIOLATION:")
    for p in problems:
        print("  -", p)
    sys.exit(1)
print("ok")
sys.exit(0)

"""C05 violation: DualVigilanceART.fit on an empty batch keeps the cluster count (and the
base module's per-category counters) of the previous fit.

BaseART.fit empties W and labels_, but DualVigilanceART keeps its cluster bookkeeping
in self.map and in base_module.weight_sample_counter_, and forgets those only when
the first sample of the new fit arrives (step_fit, branch len(W) == 0).  A re-fit on a
batch with zero rows - accepted by every other BaseART estimator, which then reports
0 clusters - therefore leaves n_clusters at the old value with no stored category and
no label, and base counters that sum to the old sample count.
Breaks: "n_clusters equals the number of stored categories" and "labels_ has one entry
per sample presented since the last fit" vs. the counters (empty batches are inside
"arbitrary batch sizes").
"""
import sys
sys.path.insert(0, sys.argv[1])
import numpy as np
from artlib import DualVigilanceART, FuzzyART

rng = np.random.default_rng(0)
R = rng.random((12, 2))
X = np.hstack([R, 1 - R])

# control: plain FuzzyART
f = FuzzyART(0.8, 1e-3, 1.0)
f.fit(X)
f.fit(X[:0])
assert f.n_clusters == 0 and len(f.labels_) == 0 and f.weight_sample_counter_ == []

est = DualVigilanceART(FuzzyART(0.8, 1e-3, 1.0), 0.5)
est.fit(X)
est.fit(X[:0])
stored = len(est.base_module.W)
if est.n_clusters != 0 or sum(est.base_module.weight_sample_counter_) != 0:
    print(f"VIOLATION: after fit(X) ; fit(X[:0]) DualVigilanceART has n_clusters={est.n_clusters}, "
          f"{stored} stored categories, {len(est.labels_)} labels, map={est.map}, "
          f"base counters={est.base_module.weight_sample_counter_}")
    sys.exit(1)
sys.exit(0)

"""SimpleARTMAP / ARTMAP / DeepARTMAP with a TopoART A-side.

TopoART prunes and renumbers its categories from post_step_fit, which SimpleARTMAP calls
after every sample of fit *and* of partial_fit.

 (i)  fit: the ARTMAP category map is not renumbered with the A-side categories, so it
      refers to categories that no longer exist / now carry another class; fit dies on
      its own `assert self.map[c_a] == c_b` (or ends with a map that disagrees with the
      A-side labels).
 (ii) partial_fit: TopoART.prune(X) relabels labels_[0:len(batch)] (the *oldest*
      samples, re-predicted from the rows of the *current* batch) and leaves all other
      entries with their pre-pruning numbers -> A-side labels that index categories
      which do not exist (label >= n_clusters), even with a single class.
"""
import sys
sys.path.insert(0, sys.argv[1])
import io, contextlib, warnings
import numpy as np
warnings.filterwarnings("ignore")
from artlib import FuzzyART, TopoART, SimpleARTMAP


def cc(X):
    return np.hstack([X, 1.0 - X])


problems = []

# (i) ---------------------------------------------------------------------------------
rng = np.random.default_rng(0)
X = cc(rng.random((30, 2)))
y = rng.integers(0, 3, 30)
model = SimpleARTMAP(TopoART(FuzzyART(0.8, 1e-7, 1.0), 0.5, 5, 2))  # tau=5, phi=2
try:
    with contextlib.redirect_stdout(io.StringIO()):  # TopoART.prune prints shapes
        model.fit(X, y)
except Exception as e:  # noqa
    problems.append(
        f"(i) SimpleARTMAP(TopoART).fit raised {type(e).__name__}({e}) on valid data; the A side "
        f"has {model.n_clusters} categories but the map keys are {sorted(model.map)}"
    )
else:
    la = model.labels_a
    k = model.n_clusters
    if sorted(model.map) != list(range(k)):
        problems.append(f"(i) map keys {sorted(model.map)} != A-side categories range({k})")
    bad = [i for i in range(len(y)) if la[i] >= 0 and model.map.get(int(la[i])) != y[i]]
    if bad:
        problems.append(f"(i) {len(bad)} samples whose A-side label maps to another class")

# (ii) --------------------------------------------------------------------------------
rng = np.random.default_rng(0)
worst = None
for trial in range(20):
    model = SimpleARTMAP(TopoART(FuzzyART(0.85, 1e-7, 1.0), 0.5, 5, 2))
    n = 0
    try:
        for b in range(4):
            Xb = cc(rng.random((6, 2)))
            with contextlib.redirect_stdout(io.StringIO()):
                model.partial_fit(Xb, np.zeros(6, dtype=int))  # one class only
            n += 6
    except Exception as e:  # noqa
        worst = f"(ii) partial_fit raised {type(e).__name__}({e})"
        break
    la = model.labels_a
    if len(la) != n or la.max() >= model.n_clusters:
        worst = (
            f"(ii) after 4 single-class partial_fit batches: labels_a={la.tolist()} but "
            f"n_clusters={model.n_clusters} (label {la.max()} indexes no category)"
        )
        break
if worst:
    problems.append(worst)

if problems:
    print("VIOLATION:")
    for p in problems:
        print("  -", p)
    sys.exit(1)
print("ok")
sys.exit(0)

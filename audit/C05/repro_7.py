"""A FusionART used as a channel module of another FusionART works for plain fit /
partial_fit, but as soon as the search has to track the vigilance (the A side of a
SimpleARTMAP, i.e. any sample whose best category carries another class) the outer
FusionART._match_tracking reads cache[i]["match_criterion_bin"], which the inner
FusionART.match_criterion_bin never stores -> KeyError in the middle of fit."""
import sys
sys.path.insert(0, sys.argv[1])
import warnings
import numpy as np
warnings.filterwarnings("ignore")
from artlib import FuzzyART, FusionART, SimpleARTMAP


def cc(X):
    return np.hstack([X, 1.0 - X])


def F():
    return FuzzyART(0.5, 1e-7, 1.0)


rng = np.random.default_rng(1)
X = np.hstack([cc(rng.random((40, 1))) for _ in range(3)])
y = rng.integers(0, 3, 40)

inner = FusionART([F(), F()], [0.5, 0.5], [2, 2])
outer = FusionART([inner, F()], [0.5, 0.5], [4, 2])

# unsupervised use is fine
outer.fit(X)
assert len(outer.labels_) == 40 and outer.n_clusters == len(outer.W)

problems = []
m = SimpleARTMAP(outer)
try:
    m.fit(X, y)
except Exception as e:  # noqa
    a = m.module_a
    problems.append(
        f"SimpleARTMAP(FusionART([FusionART, FuzzyART])).fit raised {type(e).__name__}: {e}; "
        f"A side afterwards: n_clusters={a.n_clusters}, counters sum={sum(a.weight_sample_counter_)}, "
        f"sample_counter_={a.sample_counter_}, inner rho values={[mm.params['rho'] for mm in inner.modules]}"
    )

if problems:
    print("VIOLATION:")
    for p in problems:
        print("  -", p)
    sys.exit(1)
print("ok")
sys.exit(0)

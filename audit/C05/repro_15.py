"""C05 violation: SimpleARTMAP.partial_fit stores later label batches in the dtype of the
first batch, so labels_ (the B side) silently stops matching the labels that were
presented and that the category map holds.

partial_fit grows labels_ with np.pad(self.labels_, ...) and then assigns
self.labels_[j:] = y.  The padded array keeps the dtype of the first batch; numpy casts
the new labels on assignment without any check.  A first batch of uint8 (or bool)
class labels followed by a batch with larger integer labels gives wrapped (or
True/False) entries: labels_ then names B-side classes that do not exist, while
map[labels_a[i]] (the class the sample was really trained with) differs from
labels_[i].
Breaks (B side of SimpleARTMAP / DeepARTMAP supervised layer): "every label indexes
an existing category"; labels_ is not the sequence of labels presented.
"""
import sys
sys.path.insert(0, sys.argv[1])
import numpy as np
from artlib import SimpleARTMAP, FuzzyART

rng = np.random.default_rng(0)
R = rng.random((6, 2))
X = np.hstack([R, 1 - R])
y1 = np.array([0, 1, 1], dtype=np.uint8)
y2 = np.array([256, 257, 300])

est = SimpleARTMAP(FuzzyART(0.5, 1e-3, 1.0))
est.partial_fit(X[:3], y1)
est.partial_fit(X[3:], y2)
presented = np.concatenate([y1.astype(int), y2])
via_map = np.array([int(est.map[c]) for c in est.labels_a])
classes = sorted(set(int(v) for v in est.map.values()))
bad = []
if not np.array_equal(est.labels_, presented):
    bad.append(f"labels_ = {est.labels_.tolist()} but the labels presented were {presented.tolist()}")
if not np.array_equal(via_map, np.asarray(est.labels_, dtype=int)):
    bad.append(f"map[labels_a] = {via_map.tolist()} != labels_ = {est.labels_.tolist()}")
ghost = [int(v) for v in est.labels_ if int(v) not in classes]
if ghost:
    bad.append(f"labels_ contains {ghost}, not among the B-side classes {classes}")
if bad:
    print("VIOLATION (SimpleARTMAP.partial_fit label dtype):")
    for b in bad:
        print(" -", b)
    sys.exit(1)
sys.exit(0)

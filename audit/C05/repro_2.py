"""DualVigilanceART: a re-fit on an empty batch empties W / labels_ but keeps the
previous fit's cluster map, so n_clusters (computed from the map) still reports the old
clusters although no category is stored any more (the base module's per-category
counters stay stale as well)."""
import sys
sys.path.insert(0, sys.argv[1])
import warnings
import numpy as np
warnings.filterwarnings("ignore")
from artlib import FuzzyART, DualVigilanceART


def cc(X):
    return np.hstack([X, 1.0 - X])


rng = np.random.default_rng(0)
X = cc(rng.random((20, 2)))
empty = np.zeros((0, 4))

problems = []
for first in ("fit", "partial_fit"):
    dv = DualVigilanceART(FuzzyART(0.9, 1e-7, 1.0), 0.5)
    getattr(dv, first)(X)
    k_before = dv.n_clusters
    dv.fit(empty)  # plain FuzzyART / FusionART / TopoART accept this and end up empty
    if dv.n_clusters != 0 or len(dv.map) != 0 or len(dv.base_module.weight_sample_counter_) != 0:
        problems.append(
            f"after {first}(X) [n_clusters={k_before}] and fit(empty): len(W)={len(dv.W)}, "
            f"len(labels_)={len(dv.labels_)}, but n_clusters={dv.n_clusters}, "
            f"map={dv.map}, base counters={dv.base_module.weight_sample_counter_}"
        )

# reference: the elementary module does come back empty
f = FuzzyART(0.9, 1e-7, 1.0)
f.fit(X)
f.fit(empty)
assert f.n_clusters == 0 and f.weight_sample_counter_ == [] and len(f.labels_) == 0

if problems:
    print("VIOLATION:")
    for p in problems:
        print("  -", p)
    sys.exit(1)
print("ok")
sys.exit(0)

"""CVIART.partial_fit: BaseART.partial_fit first (re)allocates / pads labels_ and only
then calls CVIART.step_fit, which raises NotImplementedError.  The call therefore fails
*and* leaves labels_ with entries for samples that were never clustered (label 0, even
when no category exists)."""
import sys
sys.path.insert(0, sys.argv[1])
import io, contextlib, warnings
import numpy as np
warnings.filterwarnings("ignore")
from artlib import FuzzyART, CVIART


def cc(X):
    return np.hstack([X, 1.0 - X])


rng = np.random.default_rng(0)
X = cc(rng.random((10, 2)))
problems = []

with contextlib.redirect_stdout(io.StringIO()):
    c = CVIART(FuzzyART(0.8, 1e-7, 1.0), CVIART.CALINSKIHARABASZ)
try:
    c.partial_fit(X)
except Exception as e:  # noqa
    problems.append(f"fresh CVIART.partial_fit raised {type(e).__name__}")
    if len(c.labels_) != 0 or c.n_clusters != 0:
        problems.append(
            f"  and left len(labels_)={len(c.labels_)} labels={c.labels_.tolist()} "
            f"with n_clusters={c.n_clusters} (labels index a category that does not exist)"
        )

with contextlib.redirect_stdout(io.StringIO()):
    c = CVIART(FuzzyART(0.8, 1e-7, 1.0), CVIART.CALINSKIHARABASZ)
    c.fit(X)
n0 = len(c.labels_)
try:
    c.partial_fit(X[:3])
except Exception as e:  # noqa
    problems.append(f"CVIART.partial_fit after fit raised {type(e).__name__}")
    if len(c.labels_) != n0:
        problems.append(
            f"  and left len(labels_)={len(c.labels_)} although only {n0} samples were "
            f"clustered (base sample_counter_={c.base_module.sample_counter_}, "
            f"counters sum={sum(c.base_module.weight_sample_counter_)})"
        )

if problems:
    print("VIOLATION:")
    for p in problems:
        print("  -", p)
    sys.exit(1)
print("ok")
sys.exit(0)

"""C05 violation: fit_predict of SimpleARTMAP / ARTMAP cannot be called at all.

BaseARTMAP inherits fit_predict from sklearn's ClusterMixin, which runs
self.fit(X, **kwargs) and returns self.labels_ - y is not forwarded.  fit of both
classes requires y, so fit_predict(X, y) (and fit_predict(X, y=y)) always raises
TypeError instead of returning labels_.  (DeepARTMAP.fit_predict(X, y) does not raise
but silently drops y and trains in unsupervised mode.)
Breaks: "fit_predict returns exactly labels_" for the ARTMAP family.
"""
import sys
sys.path.insert(0, sys.argv[1])
import numpy as np
from artlib import SimpleARTMAP, ARTMAP, DeepARTMAP, FuzzyART

rng = np.random.default_rng(0)
R = rng.random((10, 2))
X = np.hstack([R, 1 - R])
y = (R[:, 0] * 3).astype(int)
bad = []
for name, est, args in [
    ("SimpleARTMAP", SimpleARTMAP(FuzzyART(0.5, 1e-3, 1.0)), (X, y)),
    ("ARTMAP", ARTMAP(FuzzyART(0.5, 1e-3, 1.0), FuzzyART(0.5, 1e-3, 1.0)), (X, X)),
]:
    try:
        out = est.fit_predict(*args)
        if not np.array_equal(out, est.labels_):
            bad.append(f"{name}.fit_predict returned something else than labels_")
    except TypeError as ex:
        bad.append(f"{name}.fit_predict(X, y) raised TypeError: {ex}")

deep = DeepARTMAP([FuzzyART(0.3, 1e-3, 1.0), FuzzyART(0.7, 1e-3, 1.0)])
deep.fit_predict([X, X], y)
if deep.is_supervised is not True:
    bad.append("DeepARTMAP.fit_predict([X, X], y) ignored y: is_supervised = "
               f"{deep.is_supervised}, labels_ = {deep.labels_.tolist()} instead of y = {y.tolist()}")
if bad:
    print("VIOLATION (fit_predict of the ARTMAP family):")
    for b in bad:
        print(" -", b)
    sys.exit(1)
sys.exit(0)

"""CVIART (which clusters through the generic BaseART.step_fit of its base module)
exposes labels_, W and n_clusters of the base module as its own, but its own
sample_counter_ / weight_sample_counter_ (created by BaseART.__init__) are never updated:
after fit they are still 0 / [] although labels_ has one entry per sample.  Only
base_module.weight_sample_counter_ carries the histogram."""
import sys
sys.path.insert(0, sys.argv[1])
import io, contextlib, warnings
import numpy as np
warnings.filterwarnings("ignore")
from artlib import FuzzyART, CVIART


def cc(X):
    return np.hstack([X, 1.0 - X])


rng = np.random.default_rng(0)
X = cc(rng.random((15, 2)))
with contextlib.redirect_stdout(io.StringIO()):
    c = CVIART(FuzzyART(0.8, 1e-7, 1.0), CVIART.CALINSKIHARABASZ)
    c.fit(X)
hist = np.bincount(c.labels_, minlength=c.n_clusters).tolist()
problems = []
if list(c.weight_sample_counter_) != hist or c.sample_counter_ != len(X):
    problems.append(
        f"CVIART after fit of {len(X)} samples: labels histogram={hist}, n_clusters={c.n_clusters}, "
        f"but CVIART.weight_sample_counter_={list(c.weight_sample_counter_)}, "
        f"CVIART.sample_counter_={c.sample_counter_} "
        f"(base module: {list(c.base_module.weight_sample_counter_)}, {c.base_module.sample_counter_})"
    )
if problems:
    print("VIOLATION:")
    for p in problems:
        print("  -", p)
    sys.exit(1)
print("ok")
sys.exit(0)

"""TopoART with tau=0: validate_params only requires tau to be an int with phi <= tau,
so tau=0 (phi=0) is accepted, but post_step_fit computes sample_counter_ % tau ->
ZeroDivisionError 'integer modulo by zero' after the very first sample of fit."""
import sys
sys.path.insert(0, sys.argv[1])
import io, contextlib, warnings
import numpy as np
warnings.filterwarnings("ignore")
from artlib import ART1, FuzzyART, TopoART


def cc(X):
    return np.hstack([X, 1.0 - X])


problems = []


def run(tag, model, batches, method):
    try:
        for B in batches:
            with contextlib.redirect_stdout(io.StringIO()):
                getattr(model, method)(B)
    except Exception as e:  # noqa
        cnt = list(model.weight_sample_counter_)
        problems.append(
            f"{tag}: {method} raised {type(e).__name__}: {e}; state afterwards: "
            f"len(labels_)={len(model.labels_)}, n_clusters={model.n_clusters}, "
            f"counters={cnt} (sum {sum(cnt)}), sample_counter_={model.sample_counter_}"
        )


Xc = cc(np.array([[0.0], [1.0], [0.5], [0.25]]))
try:
    t = TopoART(FuzzyART(0.5, 1e-7, 1.0), 0.5, 0, 0)
except AssertionError:
    t = None  # rejected by validation: that would be fine
if t is not None:
    run("TopoART tau=0, fit", t, [Xc], "fit")

if problems:
    print("VIOLATION:")
    for p in problems:
        print("  -", p)
    sys.exit(1)
print("ok")
sys.exit(0)

"""C12 repro 1: SMART / DeepARTMAP training never returns (infinite loop in
BaseART.step_fit) for EllipsoidART with alpha=0.0 and a ladder starting at rho=0.0.

Both values pass EllipsoidART.validate_params. A category whose radius reaches
r_hat/2 gets activation x/0 = -inf; np.nanargmax over [nan, -inf] returns the
index of the already rejected (nan) entry, so the search loop never ends.

usage: python repro_1.py <library root>
exit 1 (and a message) when the violation occurs, exit 0 otherwise.
"""
import subprocess
import sys

root = sys.argv[1]

CHILD = r"""
import sys, warnings
sys.path.insert(0, sys.argv[1])
warnings.filterwarnings("ignore")
import numpy as np
from artlib import SMART, DeepARTMAP, EllipsoidART

X = np.array([[0.0, 0.0], [1.0, 1.0], [1.0, 0.5], [0.5, 0.5]])
which = sys.argv[2]
params = dict(alpha=0.0, beta=1.0, mu=1.0, r_hat=0.5)
if which == "smart_fit":
    m = SMART(EllipsoidART, [0.0, 0.5], params).fit(X)
elif which == "smart_partial_fit":
    m = SMART(EllipsoidART, [0.0, 0.5], params).partial_fit(X)
elif which == "deep_unsup_fit":
    mods = [EllipsoidART(rho=r, **params) for r in (0.0, 0.5, 0.9)]
    m = DeepARTMAP(mods).fit([X, X, X])
L = m.labels_deep_
print("finished", L.tolist())
"""

bad = []
for which in ("smart_fit", "smart_partial_fit", "deep_unsup_fit"):
    try:
        r = subprocess.run(
            [sys.executable, "-c", CHILD, root, which],
            capture_output=True,
            text=True,
            timeout=30,
        )
        if r.returncode != 0:
            bad.append(f"{which}: raised\n{r.stderr[-600:]}")
    except subprocess.TimeoutExpired:
        bad.append(
            f"{which}: did not return within 30 s on 4 samples "
            "(infinite loop in BaseART.step_fit)"
        )

if bad:
    print("VIOLATION: EllipsoidART(alpha=0.0), ladder starting at rho=0.0:")
    for b in bad:
        print("  -", b)
    sys.exit(1)
print("ok")
sys.exit(0)

"""C12 repro 2: with several epochs (fit(max_iter>1)) a level keeps categories
that own no sample any more, so the number of categories DEcreases with depth
(n_clusters of level k > n_clusters of level k+1) and labels_deep_ shows a
category index with no member.

usage: python repro_2.py <library root>
"""
import sys
import warnings

sys.path.insert(0, sys.argv[1])
warnings.filterwarnings("ignore")
import numpy as np
from artlib import SMART, ART1, GaussianART

bad = []


def check(name, model):
    counts = [m.n_clusters for m in model.modules]
    L = model.labels_deep_
    used = [len(np.unique(L[:, k])) for k in range(L.shape[1])]
    for k, m in enumerate(model.modules):
        if not np.array_equal(L[:, k], m.labels_):
            bad.append(f"{name}: column {k} differs from the layer's labels")
    if any(np.diff(counts) < 0):
        bad.append(
            f"{name}: category counts per level {counts} decrease with depth "
            f"(categories actually used per level: {used}); labels_deep_={L.tolist()}"
        )


# (a) ART1, two levels, three samples, default match tracking
X = np.array([[1.0, 0, 0, 0], [1.0, 0, 1, 0], [1.0, 0, 1, 0]])
m = SMART(ART1, [0.7, 1.0], {"L": 2.0}).fit(X, max_iter=3)
check("SMART(ART1,[0.7,1.0]).fit(max_iter=3)", m)

# (b) GaussianART, three levels, MT1
X = np.array(
    [[0.5, 1.0], [0.0, 0.5], [0.5, 0.75], [0.0, 0.75], [0.25, 0.75], [0.25, 0.5],
     [0.75, 0.25]]
)
m = SMART(GaussianART, [0.2, 0.35, 0.55], {"sigma_init": np.array([0.25, 0.25])})
m.fit(X, max_iter=2, match_tracking="MT1", epsilon=1e-3)
check("SMART(GaussianART,[0.2,0.35,0.55]).fit(max_iter=2,MT1)", m)

if bad:
    print("VIOLATION:")
    for b in bad:
        print("  -", b)
    sys.exit(1)
print("ok")
sys.exit(0)

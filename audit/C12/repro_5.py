"""C12 (robustness edge): map_deep accepts a negative level that is out of range and
silently returns labels of an INTERMEDIATE level instead of the top level.

map_deep supports negative levels (level += len(layers)) but never checks the
result.  With n layers, level = -(n+1) becomes -1, Python indexes layers[-1], the
labels are carried ONE step up, and because the level is not > 0 the recursion
stops there: the caller gets the labels of level n-1, presented as top-level labels.
(levels -(n+2).. behave the same way or raise KeyError, depending on the labels.)
A positive level that is out of range raises IndexError, as it should.

Clause touched: "map_deep carries any level's labels to the top level consistently
with the stored labels".  Strictly -(n+1) is not a level of the model, so this is a
missing bounds check (wrong result instead of IndexError), not a failure on a valid
level; every in-range level, negative ones included, maps correctly.

usage: python repro_3.py <library root>
exit 1: an out-of-range negative level returns a (wrong) result without error
exit 0: it is rejected (IndexError / any exception), or maps to the top level
"""
import sys
import warnings

sys.path.insert(0, sys.argv[1])
warnings.filterwarnings("ignore")

import numpy as np  # noqa: E402
from artlib import FuzzyART  # noqa: E402
from artlib.hierarchical.SMART import SMART  # noqa: E402


def main() -> int:
    rng = np.random.default_rng(0)
    model = SMART(FuzzyART, [0.2, 0.5, 0.8, 0.95], {"alpha": 1e-3, "beta": 1.0})
    X = model.prepare_data(rng.random((40, 2)))
    model.fit(X)
    L = model.labels_deep_
    n_layers = len(model.layers)  # 3
    deepest = L[:, -1]

    # sanity: every in-range level works, negative ones included
    for lev in range(n_layers):
        for lv in (lev, lev - n_layers):
            assert np.array_equal(model.map_deep(lv, L[:, lev + 1]), L[:, 0])

    level = -(n_layers + 1)
    try:
        out = model.map_deep(level, deepest)
    except Exception as exc:
        print(f"map_deep({level}, ...) rejected: {type(exc).__name__}: {exc}")
        return 0
    out = np.asarray(out)
    if np.array_equal(out, L[:, 0]):
        print("mapped to the top level")
        return 0
    which = [c for c in range(L.shape[1]) if np.array_equal(out, L[:, c])]
    print(
        f"VIOLATION: map_deep({level}, deepest labels) on a model with {n_layers} "
        f"layers returns without error; result equals labels_deep_ column {which}, "
        f"not the top level (column 0). "
        f"distinct values returned: {len(np.unique(out))}, "
        f"top level has {len(np.unique(L[:, 0]))}"
    )
    return 1


if __name__ == "__main__":
    sys.exit(main())

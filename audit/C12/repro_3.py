"""C12 repro 3: SMART.fit raises ZeroDivisionError for hyper-parameters that the
level model's own validation accepts (boundary values), or for a valid binary row.

usage: python repro_3.py <library root>
"""
import sys
import warnings

sys.path.insert(0, sys.argv[1])
warnings.filterwarnings("ignore")
import numpy as np
from artlib import SMART, FuzzyART, ART1

bad = []


def run(name, f):
    try:
        m = f()
        m.labels_deep_
    except Exception as e:  # noqa
        bad.append(f"{name}: {type(e).__name__}: {e}")


X = np.array([[0.0], [1.0], [0.5]])
Xc = np.hstack([X, 1 - X])
run(
    "SMART(FuzzyART, rho=[0.0,0.7], alpha=0.0).fit",
    lambda: SMART(FuzzyART, [0.0, 0.7], {"alpha": 0.0, "beta": 1.0}).fit(Xc),
)
Xb = np.array([[1.0, 0, 0], [0, 1.0, 0]])
run(
    "SMART(ART1, rho=[0.0,0.7], L=1.0).fit",
    lambda: SMART(ART1, [0.0, 0.7], {"L": 1.0}).fit(Xb),
)
Xz = np.array([[1.0, 0, 1], [0, 0, 0], [0, 1.0, 1]])
run(
    "SMART(ART1, rho=[0.3,0.7], L=2.0).fit with an all-zero binary row",
    lambda: SMART(ART1, [0.3, 0.7], {"L": 2.0}).fit(Xz),
)

if bad:
    print("VIOLATION (exception on accepted input):")
    for b in bad:
        print("  -", b)
    sys.exit(1)
print("ok")
sys.exit(0)

"""C12 repro 4 (BORDERLINE - probably outside the quantifier): supervised DeepARTMAP
accepts string class labels in fit / partial_fit, but map_deep and predict then raise
(the top-level labels are forced through dtype=int), and partial_fit truncates longer
labels to the width of the first batch.

usage: python repro_4.py <library root>
"""
import sys
import warnings

sys.path.insert(0, sys.argv[1])
warnings.filterwarnings("ignore")
import numpy as np
from artlib import DeepARTMAP, FuzzyART

rng = np.random.default_rng(0)
X = rng.random((8, 2))
Xc = np.hstack([X, 1 - X])
y = np.array(["cat", "horse", "cat", "b", "horse", "b", "cat", "horse"])
bad = []

mods = [FuzzyART(0.3, 1e-3, 1.0), FuzzyART(0.7, 1e-3, 1.0)]
m = DeepARTMAP(mods).fit([Xc, Xc], y)
try:
    out = m.map_deep(0, mods[0].labels_)
    if not np.array_equal(out, y):
        bad.append("map_deep(0, .) differs from the stored top-level labels")
except Exception as e:  # noqa
    bad.append(f"map_deep(0, labels of level 1) raised {type(e).__name__}: {e}")
try:
    m.predict([Xc, Xc])
except Exception as e:  # noqa
    bad.append(f"predict raised {type(e).__name__}: {e}")

mods = [FuzzyART(0.3, 1e-3, 1.0), FuzzyART(0.7, 1e-3, 1.0)]
m = DeepARTMAP(mods)
y_first = np.array(["b"])  # dtype <U1
m.partial_fit([Xc[:1], Xc[:1]], y_first)
m.partial_fit([Xc[1:], Xc[1:]], y[1:])
y = np.concatenate([y_first, y[1:]])
if not np.array_equal(m.layers[0].labels_, y):
    bad.append(
        f"partial_fit: stored top-level column {m.layers[0].labels_.tolist()} "
        f"!= supplied labels {y.tolist()}"
    )

if bad:
    print("VIOLATION (string class labels):")
    for b in bad:
        print("  -", b)
    sys.exit(1)
print("ok")
sys.exit(0)

"""BORDERLINE (depends on how 'fewer than phi samples' is read) - C14 pruning criterion.

TopoART.step_fit routes the second-best update through set_weight, which increments
weight_sample_counter_ of the SECOND-best category as well.  A category that was the
best match (= returned label) of a single sample therefore survives pruning with phi=3
as soon as it was second-best twice; in the TopoART paper only the best-matching node's
counter is incremented.  If 'samples of a category' means the samples it was returned
for, the survivor set is not 'exactly the categories with fewer than phi samples'.
"""
import sys, io, contextlib, warnings
sys.path.insert(0, sys.argv[1] if len(sys.argv) > 1 else ".")
warnings.simplefilter("ignore")
import numpy as np
from artlib import TopoART, FuzzyART

raw = np.array([[0.0], [1.0], [0.5], [0.45]])
X = np.hstack([raw, 1 - raw])
t = TopoART(FuzzyART(rho=0.4, alpha=1e-3, beta=1.0), beta_lower=0.0, tau=4, phi=3)
with contextlib.redirect_stdout(io.StringIO()):
    t.fit(X)   # exactly one pruning round, after the 4th sample
labels = t.labels_.tolist()
counts = t.weight_sample_counter_
members = [labels.count(j) for j in range(len(t.W))]
print("labels_ =", labels, " weight_sample_counter_ =", counts, " samples labelled per category =", members)
fail = False
for j, (n, m) in enumerate(zip(counts, members)):
    if m < 3 <= n:
        fail = True
        print(f"category {j} survived pruning with phi=3 although only {m} sample(s) were ever assigned to it "
              f"(counter {n} includes its second-best updates)")
sys.exit(1 if fail else 0)

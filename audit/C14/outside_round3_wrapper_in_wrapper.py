"""C14 ("every base module with a beta parameter") fails for wrapper base modules.

TopoART's constructor accepts any BaseART whose params contain 'beta'.  For a base
module that is itself an abstraction (has .base_module) it only WARNS "This module
will only make use of the base_module: FuzzyART" - but it does not do that, it keeps
calling the wrapper:
  * TopoART(TopoART(FuzzyART)) : the second sample that finds two resonant
    categories raises IndexError (the inner TopoART.update indexes its own,
    never initialised 0-d adjacency with the outer cache's resonant_c/current_c);
  * TopoART(CVIART(FuzzyART))  : the second sample raises NotImplementedError
    (CVIART has no category_choice).
Both configurations pass validate_params and have a beta parameter.
"""
import sys, io, contextlib, warnings

sys.path.insert(0, sys.argv[1])
warnings.simplefilter("ignore")
import numpy as np
from artlib import TopoART, FuzzyART
from artlib.cvi.CVIART import CVIART

rng = np.random.default_rng(0)
Xr = rng.random((30, 2))
X = np.hstack([Xr, 1 - Xr])
msgs = []


def attempt(name, build):
    try:
        with contextlib.redirect_stdout(io.StringIO()):
            t = build()
            t.fit(X)
        k = len(t.W)
        if t.adjacency.shape != (k, k):
            msgs.append(f"{name}: adjacency {t.adjacency.shape} for {k} categories")
    except Exception as e:  # noqa
        msgs.append(f"{name}: fit raised {type(e).__name__}: {e}")


attempt(
    "TopoART(TopoART(FuzzyART))",
    lambda: TopoART(TopoART(FuzzyART(0.8, 0.0, 1.0), 0.5, 5, 2), 0.5, 5, 2),
)
attempt(
    "TopoART(CVIART(FuzzyART))",
    lambda: TopoART(CVIART(FuzzyART(0.8, 0.0, 1.0), 1), 0.5, 5, 2),
)
if msgs:
    print("VIOLATION: accepted base module with a beta parameter cannot be trained")
    print("\n".join(msgs))
    sys.exit(1)
print("ok")
sys.exit(0)

"""C14 violated in SimpleARTMAP(module_a=TopoART(FuzzyART)).partial_fit.

SimpleARTMAP.partial_fit calls module_a.post_step_fit(X) with the CURRENT batch
only, while TopoART.labels_ holds the labels of all batches.  TopoART.prune(X)
therefore re-indexes / re-predicts only labels_[0:len(batch)] (the labels of the
FIRST batch, and using rows of the wrong batch), and leaves the labels of the
later samples with their pre-pruning indices.  "All sample labels are re-indexed
consistently" fails: labels point to categories that do not exist (label >=
number of categories) or to the wrong survivor.  A single class is used so that
the ARTMAP map plays no role.
"""
import sys, io, contextlib, warnings

sys.path.insert(0, sys.argv[1])
warnings.simplefilter("ignore")
import numpy as np
from artlib import TopoART, FuzzyART, SimpleARTMAP

rng = np.random.default_rng(0)
topo = TopoART(FuzzyART(rho=0.9, alpha=0.01, beta=1.0), beta_lower=0.5, tau=5, phi=2)
clf = SimpleARTMAP(topo)
msgs = []
allX = []
for b in range(3):
    Xr = rng.random((12, 2))
    X = np.hstack([Xr, 1 - Xr])
    allX.append(X)
    with contextlib.redirect_stdout(io.StringIO()):
        clf.partial_fit(X, np.zeros(12, dtype=int))
    k = len(topo.W)
    lab = topo.labels_
    if lab.max() >= k:
        msgs.append(
            f"after batch {b}: {k} categories, adjacency {topo.adjacency.shape}, "
            f"but labels_ contains {sorted(set(lab[lab >= k].tolist()))} "
            f"at positions {np.where(lab >= k)[0].tolist()}"
        )
if msgs:
    print("VIOLATION: sample labels are not re-indexed together with the categories")
    print("\n".join(msgs))
    sys.exit(1)
print("ok")
sys.exit(0)

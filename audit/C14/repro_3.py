"""C14 / counters lose alignment with the categories on a re-fit through fit_gif.

BaseART.fit_gif resets W and labels_ but neither sample_counter_ nor
weight_sample_counter_.  For TopoART a second training run through fit_gif (or fit
followed by fit_gif) keeps the k stale counters in front of the new ones, so counter j
no longer belongs to category j, and the next pruning round raises ValueError
(counter vector longer than the permanence mask).
"""
import sys, io, contextlib, warnings, os, tempfile, traceback
sys.path.insert(0, sys.argv[1] if len(sys.argv) > 1 else ".")
warnings.simplefilter("ignore")
import matplotlib
matplotlib.use("Agg")
import numpy as np
from artlib import TopoART, FuzzyART

rng = np.random.default_rng(1)
raw = rng.random((25, 2))
X = np.hstack([raw, 1 - raw])
t = TopoART(FuzzyART(rho=0.8, alpha=1e-3, beta=1.0), beta_lower=0.5, tau=7, phi=3)
fn = os.path.join(tempfile.mkdtemp(), "a.gif")
fail = False
with contextlib.redirect_stdout(io.StringIO()):
    t.fit(X)                      # ordinary fit, several pruning rounds
k = len(t.W)
try:
    with contextlib.redirect_stdout(io.StringIO()):
        t.fit_gif(X, filename=fn)  # re-fit of the same estimator
    if len(t.weight_sample_counter_) != len(t.W):
        fail = True
        print("counters", t.weight_sample_counter_, "vs", len(t.W), "categories")
except Exception as e:
    fail = True
    print(f"fit(X) gave {k} categories; re-fit with fit_gif(X) raised {type(e).__name__}: {e}")
    print(f"state at the crash: {len(t.W)} categories, weight_sample_counter_={t.weight_sample_counter_}, "
          f"sample_counter_={t.sample_counter_}")
sys.exit(1 if fail else 0)

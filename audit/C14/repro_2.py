"""C14 / adjacency is not 'always square with one row per category'.

fit() resets W, labels_, sample_counter_ and weight_sample_counter_, but adjacency and
_permanent_mask are only reset lazily inside step_fit when the first sample arrives.
Re-fitting on an empty batch (shape (0, d), accepted by validate_data) therefore leaves
a k x k adjacency matrix and a length-k permanence mask next to ZERO categories.
(Before the first fit the adjacency is a 0-d array, i.e. not a matrix at all.)
"""
import sys, io, contextlib, warnings
sys.path.insert(0, sys.argv[1] if len(sys.argv) > 1 else ".")
warnings.simplefilter("ignore")
import numpy as np
from artlib import TopoART, FuzzyART

rng = np.random.default_rng(1)
raw = rng.random((30, 2))
X = np.hstack([raw, 1 - raw])
t = TopoART(FuzzyART(rho=0.7, alpha=1e-3, beta=1.0), beta_lower=0.5, tau=5, phi=2)
fail = False
if t.adjacency.ndim != 2:
    print(f"before any fit: adjacency.shape = {t.adjacency.shape} (0-d array, not a 0x0 matrix)")
with contextlib.redirect_stdout(io.StringIO()):
    t.fit(X)
k1 = len(t.W)
with contextlib.redirect_stdout(io.StringIO()):
    t.fit(X[:0])
k2 = len(t.W)
if t.adjacency.shape != (k2, k2) or np.shape(t._permanent_mask) != (k2,):
    fail = True
    print(f"after fit(X) [{k1} categories] followed by fit(empty batch): {k2} categories, "
          f"weight_sample_counter_={t.weight_sample_counter_}, but adjacency.shape={t.adjacency.shape}, "
          f"_permanent_mask.shape={np.shape(t._permanent_mask)}")
sys.exit(1 if fail else 0)

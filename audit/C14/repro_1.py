"""C14 / TopoART.step_fit: match tracking LOWERS the vigilance.

When a match_reset_func vetoes a category that did NOT pass the vigilance test,
TopoART.step_fit still calls _match_tracking (BaseART.step_fit only does so when
the vigilance test passed), so rho is set to M + epsilon < rho.  Later candidates
that fail the real vigilance are then accepted as "best" (or second-best) and
updated, instead of a new category being created.

Observable without looking at internals: with FuzzyART(beta=1.0) every committed
category must keep |w| >= rho * dim_original (that is what "passed vigilance"
means under fast learning).  Plain FuzzyART / SimpleARTMAP(FuzzyART) keep it;
TopoART.fit(X, match_reset_func=...) and SimpleARTMAP(TopoART(FuzzyART)) do not.
"""
import sys, io, contextlib, warnings
sys.path.insert(0, sys.argv[1] if len(sys.argv) > 1 else ".")
warnings.simplefilter("ignore")
import numpy as np
from artlib import TopoART, FuzzyART, SimpleARTMAP

rng = np.random.default_rng(0)
n, d, rho = 60, 2, 0.6
raw = rng.random((n, d))
X = np.hstack([raw, 1 - raw])
y = rng.integers(0, 2, n)
fail = False


def quiet(f):
    with contextlib.redirect_stdout(io.StringIO()):
        return f()


# (a) direct: TopoART.step_fit with a class-consistency match_reset_func, no pruning
t = TopoART(FuzzyART(rho=rho, alpha=1e-3, beta=1.0), beta_lower=0.5, tau=10**6, phi=1)
t.validate_data(X)
t.W = []
t.labels_ = np.zeros(n, dtype=int)
cmap = {}
bad_steps = []
for i, x in enumerate(X):
    before = [w.copy() for w in t.W]
    c = t.step_fit(
        x,
        match_reset_func=lambda i_, w, c_, params, cache: cmap.get(c_) == y[i],
        epsilon=1e-10,
    )
    cmap.setdefault(c, y[i])
    if c < len(before):
        M = np.minimum(x, before[c]).sum() / d
        if M < rho - 1e-9:
            bad_steps.append((i, c, round(float(M), 4)))
if bad_steps:
    fail = True
    print(f"(a) TopoART.step_fit returned an existing category whose match value is below rho={rho} "
          f"in {len(bad_steps)} of {n} steps, e.g. (sample, category, M) = {bad_steps[:3]}")

# (b) public API: SimpleARTMAP(TopoART(FuzzyART)) vs SimpleARTMAP(FuzzyART)
s_ref = SimpleARTMAP(FuzzyART(rho=rho, alpha=1e-3, beta=1.0))
quiet(lambda: s_ref.fit(X, y))
min_ref = min(w.sum() for w in s_ref.module_a.W) / d
s = SimpleARTMAP(TopoART(FuzzyART(rho=rho, alpha=1e-3, beta=1.0), beta_lower=0.5, tau=10**6, phi=1))
quiet(lambda: s.fit(X, y))
min_topo = min(w.sum() for w in s.module_a.W) / d
print(f"(b) min |w|/d : SimpleARTMAP(FuzzyART) = {min_ref:.4f} (>= rho={rho} as required), "
      f"SimpleARTMAP(TopoART(FuzzyART)) = {min_topo:.4f}")
if min_topo < rho - 1e-9:
    fail = True
    print("    -> a TopoART category was updated by a sample that did not pass the vigilance test")

sys.exit(1 if fail else 0)

"""C14 "the adjacency matrix is always square with one row per category" fails
after a re-fit that presents no sample.

BaseART.fit resets W, labels_ and both counters, but TopoART's adjacency and
_permanent_mask are only reset inside the first step_fit.  A second fit() on an
empty batch (0 rows pass validate_data) or with max_iter=0 leaves 0 categories,
0 counters, but the k x k adjacency matrix and the k permanence flags of the
previous fit.
"""
import sys, io, contextlib, warnings

sys.path.insert(0, sys.argv[1])
warnings.simplefilter("ignore")
import numpy as np
from artlib import TopoART, FuzzyART

rng = np.random.default_rng(0)
Xr = rng.random((30, 2))
X = np.hstack([Xr, 1 - Xr])
msgs = []
for name, kw, data in [("empty batch", {}, X[:0]), ("max_iter=0", {"max_iter": 0}, X)]:
    t = TopoART(FuzzyART(0.8, 0.0, 1.0), 0.5, 5, 2)
    with contextlib.redirect_stdout(io.StringIO()):
        t.fit(X)
        t.fit(data, **kw)
    k = len(t.W)
    if t.adjacency.shape != (k, k) or t._permanent_mask.shape != (k,):
        msgs.append(
            f"re-fit with {name}: {k} categories, {len(t.weight_sample_counter_)} counters, "
            f"adjacency {t.adjacency.shape}, permanence flags {t._permanent_mask.shape}"
        )
if msgs:
    print("VIOLATION: adjacency / permanence flags not aligned with the categories")
    print("\n".join(msgs))
    sys.exit(1)
print("ok")
sys.exit(0)

"""C14 / 'every base module with a beta parameter': wrapped base modules crash.

TopoART.validate_params accepts any BaseART whose params contain 'beta'.  For a wrapper
(CVIART(FuzzyART), TopoART(FuzzyART)) the constructor only warns 'This module will only
make use of the base_module: FuzzyART' - but it keeps delegating to the wrapper itself:
 * TopoART(CVIART(FuzzyART))  -> NotImplementedError on the first sample (CVIART has no new_weight)
 * TopoART(TopoART(FuzzyART)) -> IndexError at the first second-best update (inner adjacency is 0-d)
"""
import sys, io, contextlib, warnings
sys.path.insert(0, sys.argv[1] if len(sys.argv) > 1 else ".")
warnings.simplefilter("ignore")
import numpy as np
from artlib import TopoART, FuzzyART, CVIART

rng = np.random.default_rng(1)
raw = rng.random((40, 2))
X = np.hstack([raw, 1 - raw])
fail = False


def base():
    return FuzzyART(rho=0.7, alpha=1e-3, beta=1.0)


with contextlib.redirect_stdout(io.StringIO()):
    wrappers = {
        "CVIART(FuzzyART)": CVIART(base(), CVIART.CALINSKIHARABASZ),
        "TopoART(FuzzyART)": TopoART(base(), beta_lower=0.5, tau=10**6, phi=1),
    }
for name, b in wrappers.items():
    t = TopoART(b, beta_lower=0.5, tau=7, phi=3)   # accepted by validation
    try:
        with contextlib.redirect_stdout(io.StringIO()):
            t.fit(X)
    except Exception as e:
        fail = True
        print(f"TopoART({name}).fit raised {type(e).__name__}: {e}")
sys.exit(1 if fail else 0)

"""Adjacent to C14 (compound history): pruning inside SimpleARTMAP(TopoART).

SimpleARTMAP.fit calls module_a.post_step_fit, so TopoART prunes and re-indexes its own
state (weights, counters, mask, adjacency, module_a.labels_), but the category->class map
held by SimpleARTMAP keeps the OLD indices.  The next sample that resonates with a
re-numbered category trips 'assert self.map[c_a] == c_b'.  Without pruning (huge tau) the
same data fit fine.
"""
import sys, io, contextlib, warnings
sys.path.insert(0, sys.argv[1] if len(sys.argv) > 1 else ".")
warnings.simplefilter("ignore")
import numpy as np
from artlib import TopoART, FuzzyART, SimpleARTMAP

rng = np.random.default_rng(1)
raw = rng.random((60, 2))
X = np.hstack([raw, 1 - raw])
y = (raw[:, 0] > 0.5).astype(int)
fail = False
for tau in (10**6, 7):
    s = SimpleARTMAP(TopoART(FuzzyART(rho=0.8, alpha=1e-3, beta=1.0), beta_lower=0.5, tau=tau, phi=3))
    try:
        with contextlib.redirect_stdout(io.StringIO()):
            s.fit(X, y)
        print(f"tau={tau}: fit ok, {s.module_a.n_clusters} categories")
    except AssertionError as e:
        fail = True
        print(f"tau={tau}: SimpleARTMAP(TopoART).fit raised AssertionError (stale category->class map "
              f"after TopoART re-indexed its categories); map={dict(s.map)}, categories now={len(s.module_a.W)}")
sys.exit(1 if fail else 0)

"""C04 / EllipsoidART with a small (legal) mu: the squared category distance
|d|^2 - (1-mu^2)(a.d)^2 is rounded below zero for a sample lying along the major axis,
np.sqrt gives NaN, and the NaN is silently swallowed by max(radius, dist) / `dist > 0`:
a sample 8 radii away from the centre is treated as lying inside the ellipsoid
(match value 0.975 instead of 0.886 < rho) and absorbed without any weight change."""
import sys, warnings
sys.path.insert(0, sys.argv[1])
import numpy as np
warnings.filterwarnings("ignore")
from artlib import EllipsoidART

X = np.array([[0.55, 0.03], [0.575, 0.034], [0.6, 0.038], [0.775, 0.066]])
m = EllipsoidART(rho=0.9, alpha=1e-3, beta=1.0, mu=1e-9, r_hat=2.0)
m.fit(X[:3])
w = m.W[0].copy()
T, c = m.category_choice(X[3], w, m.params)
M, _ = m.match_criterion(X[3], w, m.params, c)
true_dist = float(np.linalg.norm(X[3] - w[:2]))       # sample is on the major axis
true_M = 1 - (w[-1] + max(w[-1], true_dist)) / 2.0
m.partial_fit(X[3:])
if np.isnan(c["dist"]):
    print(f"category distance is NaN (true value {true_dist:.4f}, radius {w[-1]:.4f}); "
          f"match value reported {M:.4f}, true {true_M:.4f} < rho=0.9; "
          f"labels {m.labels_.tolist()} (4th sample absorbed; centre+radius unchanged: "
          f"{np.array_equal(w[:2], m.W[0][:2]) and w[-1] == m.W[0][-1]})")
    sys.exit(1)
sys.exit(0)

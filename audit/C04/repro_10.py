"""C04 / SimpleARTMAP with string class labels: validate_data (check_X_y, dtype=None)
and fit accept them, predict() writes the label into an int array -> ValueError."""
import sys, warnings
sys.path.insert(0, sys.argv[1])
import numpy as np
warnings.filterwarnings("ignore")
from artlib import SimpleARTMAP, FuzzyART, compliment_code

X = compliment_code(np.random.default_rng(0).random((10, 2)))
y = np.array(["cat", "dog"] * 5)
m = SimpleARTMAP(FuzzyART(0.5, 1e-3, 1.0))
m.fit(X, y)                      # accepted
try:
    m.predict(X)
except Exception as e:
    print(f"SimpleARTMAP.predict after a successful fit with string labels raised "
          f"{type(e).__name__}: {e}")
    sys.exit(1)
sys.exit(0)

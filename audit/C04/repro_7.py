"""C04 / GaussianART: sigma_init is only checked to be an ndarray. A zero entry
(validate_params accepts it) puts inf into every learned weight (1/sigma^2) from the
very first sample and the activation of a coincident sample is NaN (0*inf)."""
import sys, warnings
sys.path.insert(0, sys.argv[1])
import numpy as np
warnings.filterwarnings("ignore")
from artlib import GaussianART

X = np.array([[0.1, 0.2], [0.1, 0.2], [0.5, 0.5]])
m = GaussianART(rho=0.1, sigma_init=np.array([0.0, 0.5]))
m.fit(X)
T = [float(m.category_choice(X[0], w, m.params)[0]) for w in m.W]
bad = []
if not all(np.all(np.isfinite(w)) for w in m.W):
    bad.append(f"non-finite learned weight: {m.W[0]}")
if not np.all(np.isfinite(T)):
    bad.append(f"non-finite activations {T}; n_clusters={m.n_clusters} for 2 distinct points")
if bad:
    print("\n".join(bad)); sys.exit(1)
sys.exit(0)

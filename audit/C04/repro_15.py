"""C04 violated: BaseART.fit_gif(X, ax=<caller's axes>) raises UnboundLocalError.

`fig` is only bound when ax is None, but `writer.saving(fig, ...)` always uses it, so the
documented `ax` argument of this public fitting method cannot be used with any estimator.
Clause: a data set that passes validation can be fitted without an exception.
"""
import sys, warnings, os, tempfile
sys.path.insert(0, sys.argv[1])
import numpy as np
warnings.simplefilter("ignore")
import matplotlib
matplotlib.use("Agg")
import matplotlib.pyplot as plt
from artlib import FuzzyART, HypersphereART

_tmp = tempfile.mkdtemp()
os.chdir(_tmp)
import atexit, shutil
atexit.register(lambda: (os.chdir('/'), shutil.rmtree(_tmp, ignore_errors=True)))
rng = np.random.default_rng(0)
X0 = rng.random((6, 2))
bad = False
for name, m, X in (("FuzzyART", FuzzyART(0.5, 1e-7, 1.0), np.hstack([X0, 1 - X0])),
                   ("HypersphereART", HypersphereART(0.5, 1e-7, 1.0, 1.0), X0)):
    m.validate_data(X)
    m.fit_gif(X, filename="default.gif")  # works
    fig, ax = plt.subplots()
    try:
        m.fit_gif(X, ax=ax, filename="with_ax.gif")
        print(name, "fit_gif(ax=ax) ok")
    except Exception as e:
        print("VIOLATION: %s.fit_gif(X, ax=ax) raised %s: %s" % (name, type(e).__name__, e))
        bad = True
sys.exit(1 if bad else 0)

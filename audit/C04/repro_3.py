"""C04 / CVIART.
(a) fit(max_iter=2): in the second epoch the sklearn index is evaluated on a labelling
    with n_labels == n_samples (or 1 label) -> ValueError on valid data.
(b) partial_fit(): BaseART.partial_fit calls CVIART.step_fit which raises
    NotImplementedError - the estimator cannot be fitted incrementally at all.
"""
import sys, warnings, io, contextlib
sys.path.insert(0, sys.argv[1])
import numpy as np
warnings.filterwarnings("ignore")
from artlib import CVIART, FuzzyART, compliment_code

bad = []
X = compliment_code(np.array([[0.0, 0.0], [1.0, 1.0], [0.0, 1.0]]))
with contextlib.redirect_stdout(io.StringIO()):
    m = CVIART(FuzzyART(0.9, 1e-3, 1.0), CVIART.CALINSKIHARABASZ)
try:
    m.fit(X, max_iter=2)
except Exception as e:
    bad.append(f"(a) CVIART.fit(max_iter=2) raised {type(e).__name__}: {e}")

# (b) [CVIART.partial_fit raises NotImplementedError] is an explicit "not supported" and is not probed here
if bad:
    print("\n".join(bad)); sys.exit(1)
sys.exit(0)

"""C04 / SimpleARTMAP (and ARTMAP, DeepARTMAP layers) around a pruning TopoART.
TopoART.prune() renumbers / removes categories in post_step_fit, SimpleARTMAP keeps
its category->label map keyed by the old indices: the first sample after the first
prune trips `assert self.map[c_a] == c_b` (AssertionError on valid data)."""
import sys, warnings, io, contextlib
sys.path.insert(0, sys.argv[1])
import numpy as np
warnings.filterwarnings("ignore")
from artlib import SimpleARTMAP, TopoART, FuzzyART, compliment_code

rng = np.random.default_rng(0)
X = compliment_code(rng.random((60, 2)))
y = rng.integers(0, 3, 60)
m = SimpleARTMAP(TopoART(FuzzyART(0.8, 1e-3, 1.0), beta_lower=0.5, tau=10, phi=3))
try:
    with contextlib.redirect_stdout(io.StringIO()):   # prune() prints debug shapes
        m.fit(X, y)
        m.predict(X)
except Exception as e:
    print(f"SimpleARTMAP(TopoART(FuzzyART)).fit raised {type(e).__name__}({e}) "
          f"at sample #{m.module_a.sample_counter_} (tau=10: right after the first prune)")
    sys.exit(1)
sys.exit(0)

"""C04 violated: training is not total - BaseART.step_fit never terminates.

The search loop `while any(~np.isnan(T)): c_ = np.nanargmax(T); ...; T[c_] = np.nan`
assumes nanargmax returns a not-yet-reset slot.  np.nanargmax replaces NaN by -inf
before taking argmax, so as soon as a remaining (unvisited) category has the
activation -inf and an already reset slot has a lower index, it returns the reset
slot again and again: fit() hangs for ever (TopoART.step_fit has the same loop).
-inf activations are reachable with hyper-parameters accepted by validate_params,
e.g. HypersphereART(r_hat=5e-324, alpha=5e-324) (any positive finite r_hat is legal)
or EllipsoidART(mu=5e-324):  T = (r_hat - dist)/(r_hat - radius + alpha) overflows.
Exit 1 = fit did not finish within 10 s / produced non-finite match values.
"""
import sys, subprocess, textwrap
root = sys.argv[1]
code = textwrap.dedent("""
    import sys, warnings
    sys.path.insert(0, %r)
    warnings.simplefilter('ignore')
    import numpy as np
    from artlib import HypersphereART, EllipsoidART, TopoART
    which = sys.argv[1]
    X = np.array([[0.1, 0.1, 0.1], [0.2, 0.1, 0.1], [0.9, 0.9, 0.9], [0.9, 0.8, 0.9],
                  [0.5, 0.1, 0.9], [0.3, 0.7, 0.2]])
    if which == 'hs':
        m = HypersphereART(rho=0.0, alpha=5e-324, beta=1.0, r_hat=5e-324)
    elif which == 'topo':
        m = TopoART(HypersphereART(rho=0.0, alpha=5e-324, beta=1.0, r_hat=5e-324), 0.5, 100, 1)
    else:
        m = EllipsoidART(rho=0.5, alpha=1e-7, beta=1.0, mu=5e-324, r_hat=1.0)
    m.validate_data(X)
    m.fit(X)
    print('finished', m.n_clusters)
""" % root)
bad = False
for which in ("hs", "ell", "topo"):
    try:
        out = subprocess.run([sys.executable, "-c", code, which], capture_output=True, text=True, timeout=10)
        print(which, "->", out.stdout.strip() or out.stderr.strip()[-200:])
        if out.returncode != 0:
            bad = True
    except subprocess.TimeoutExpired:
        print(which, "-> fit() on 6 valid samples with legal hyper-parameters did not terminate within 10 s (infinite loop in BaseART.step_fit)")
        bad = True
sys.exit(1 if bad else 0)

"""C04 / BayesianART in high dimension.
(a) d >= 387: fit raises OverflowError ((2*pi)**d is evaluated with Python floats).
(b) smaller d where det(cov) underflows (d=170, cov_init=0.01*I): activations are
    inf/NaN, every sample becomes its own category and predict() returns a wrong
    category for a training sample that coincides with a category centre.
"""
import sys, warnings
sys.path.insert(0, sys.argv[1])
import numpy as np
warnings.filterwarnings("ignore")
from artlib import BayesianART

bad = []
# (a)
d = 400
X = np.random.default_rng(0).random((3, d))
try:
    BayesianART(rho=1.0, cov_init=np.eye(d)).fit(X)
except OverflowError as e:
    bad.append(f"(a) BayesianART.fit on valid {X.shape} data raised OverflowError: {e}")

# (b)
d = 170
X = np.random.default_rng(0).random((4, d))
m = BayesianART(rho=0.5, cov_init=0.01 * np.eye(d))
m.fit(X)
T = [float(m.category_choice(X[0], w, m.params)[0]) for w in m.W]
if not np.all(np.isfinite(T)):
    bad.append(f"(b) non-finite activations for d={d}: {T}; n_clusters={m.n_clusters}")
p = m.predict(X)
if not np.array_equal(p, m.labels_):
    bad.append(f"(b) predict(X)={p.tolist()} differs from fit labels {m.labels_.tolist()} "
               f"(arg-max over NaN activations)")
if bad:
    print("\n".join(bad)); sys.exit(1)
sys.exit(0)

"""C04 / HypersphereART(r_hat=0.0) is accepted by validate_params (r_hat is only
type-checked). Activations / match values become NaN / -inf and BaseART.step_fit never
terminates: np.nanargmax over a T that holds -inf and NaN keeps returning the slot that
was just set to NaN (`while any(~isnan(T))` loops forever)."""
import sys, warnings, signal
sys.path.insert(0, sys.argv[1])
import numpy as np
warnings.filterwarnings("ignore")
from artlib import HypersphereART

class Hang(Exception): pass
def _h(*a): raise Hang()
signal.signal(signal.SIGALRM, _h)

X = np.array([[0.1, 0.2], [0.1, 0.2], [0.5, 0.5]])
m = HypersphereART(rho=0.5, alpha=0.0, beta=1.0, r_hat=0.0)   # passes validate_params
bad = []
m.fit(X[:2])
T, c = m.category_choice(X[2], m.W[0], m.params)
M, _ = m.match_criterion(X[2], m.W[0], m.params, c)
T0, _ = m.category_choice(X[0], m.W[0], m.params)
if not (np.isfinite(T) and np.isfinite(M) and np.isfinite(T0)):
    bad.append(f"non-finite activation/match: T={T}, M={M}, T(coincident sample)={T0}")
signal.alarm(10)
try:
    HypersphereART(rho=0.5, alpha=0.0, beta=1.0, r_hat=0.0).fit(X)
    signal.alarm(0)
except Hang:
    bad.append("HypersphereART(r_hat=0.0).fit on 3 samples did not terminate within 10 s "
               "(infinite loop in BaseART.step_fit)")
if bad:
    print("\n".join(bad)); sys.exit(1)
sys.exit(0)

"""C04 violated: FALCON.get_probabilistic_action raises ValueError('probabilities contain NaN')
when every candidate action of the queried state has the learned reward 0 (the normal situation
with sparse rewards): `reward_dist /= np.sum(reward_dist)` is 0/0.

Documented FuzzyART configuration, data prepared with FALCON.prepare_data, fit() succeeds,
get_action() works, get_probabilistic_action() (both optimality modes) raises.
Clause: a valid, fitted data set can be predicted from without an exception; no NaN.
"""
import sys, warnings
sys.path.insert(0, sys.argv[1])
import numpy as np
warnings.simplefilter("ignore")
from artlib import FALCON, FuzzyART

# two states; in state 0 no action is ever rewarded, in state 1 action 3 is rewarded
states = np.array([[0.0]] * 4 + [[1.0]] * 4)
actions = np.array([[0.0], [1.0], [2.0], [3.0]] * 2)
rewards = np.array([[0.0]] * 7 + [[1.0]])
f = FALCON(FuzzyART(0.9, 0.01, 1.0), FuzzyART(0.9, 0.01, 1.0), FuzzyART(0.0, 0.01, 1.0),
           gamma_values=[0.33, 0.33, 0.34], channel_dims=[2, 2, 2])
s, a, r = f.prepare_data(states, actions, rewards)
f.fit(s, a, r)
space = np.array([[0.0], [1.0], [2.0], [3.0]])
print("get_action ok:", f.get_action(s[0], action_space=space))
print("rewards seen for state 0:", f.get_actions_and_rewards(s[0], action_space=space)[1].ravel())
bad = False
for opt in ("max", "min"):
    try:
        print("get_probabilistic_action(%s) ok:" % opt, f.get_probabilistic_action(s[0], action_space=space, optimality=opt))
    except Exception as e:
        print("VIOLATION: get_probabilistic_action(optimality=%r) raised %s: %s" % (opt, type(e).__name__, e))
        bad = True
sys.exit(1 if bad else 0)

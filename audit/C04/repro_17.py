"""C04 violated: SimpleARTMAP (hence DeepARTMAP in supervised mode) accepts string class
labels in validate_data / fit / partial_fit, but predict() and predict_ab() raise ValueError.

check_X_y(X, y, dtype=None) and unique_labels accept an array of str labels (as every
scikit-learn classifier does; BaseARTMAP is a ClassifierMixin), the map category->label is
built, and then predict writes the label into np.zeros(..., dtype=int):
ValueError: invalid literal for int().  Clause: a data set that passes the estimator's own
validation can be fitted, incrementally fitted and predicted without an exception.
"""
import sys, warnings
sys.path.insert(0, sys.argv[1])
import numpy as np
warnings.simplefilter("ignore")
from artlib import SimpleARTMAP, FuzzyART, DeepARTMAP, HypersphereART

rng = np.random.default_rng(0)
X0 = rng.random((20, 2))
y = np.array(["cat", "dog"] * 10)
bad = False
s = SimpleARTMAP(FuzzyART(0.5, 1e-7, 1.0))
X = s.prepare_data(X0)
s.validate_data(X, y)
s.fit(X, y)
s.partial_fit(X[:4], y[:4])
print("fit / partial_fit with str labels ok, map:", dict(list(s.map.items())[:3]))
for name, f in (("predict", lambda: s.predict(X)), ("predict_ab", lambda: s.predict_ab(X))):
    try:
        f()
        print(name, "ok")
    except Exception as e:
        print("VIOLATION: SimpleARTMAP.%s raised %s: %s" % (name, type(e).__name__, e))
        bad = True
d = DeepARTMAP([HypersphereART(0.5, 1e-7, 1.0, 1.0)])
d.fit([X0], y)
try:
    d.predict([X0])
except Exception as e:
    print("VIOLATION: DeepARTMAP.predict raised %s: %s" % (type(e).__name__, e))
    bad = True
sys.exit(1 if bad else 0)

"""C04 violated for some compound estimators whose constructors accept the combination:

(a) TopoART(TopoART(FuzzyART)) - the constructor only warns ('will only make use of the
    base_module') - fit() raises IndexError: the inner TopoART's adjacency matrix is never
    allocated (0-d array) but its update() indexes it.
(b) FusionART([DualVigilanceART(...), ...]) and FusionART([CVIART(...), ...]) - both are BaseART
    instances, validate_data accepts the data - fit() raises NotImplementedError because these
    wrappers do not implement category_choice / new_weight themselves.
(c) SimpleARTMAP(CVIART(...)).fit raises NotImplementedError (CVIART.step_fit; same root cause as
    the known CVIART.partial_fit defect, listed for completeness - not counted).
Clause: every compound estimator built from the elementary modules can be fitted on valid data
without an exception.
"""
import sys, warnings, io, contextlib
sys.path.insert(0, sys.argv[1])
import numpy as np
warnings.simplefilter("ignore")
from artlib import TopoART, FuzzyART, FusionART, DualVigilanceART, CVIART

rng = np.random.default_rng(0)
X0 = rng.random((30, 2))
X = np.hstack([X0, 1 - X0])
fz = lambda rho=0.6: FuzzyART(rho, 1e-7, 1.0)
bad = False
def attempt(name, build, data):
    global bad
    try:
        with contextlib.redirect_stdout(io.StringIO()):
            m = build()
            m.validate_data(data)
            m.fit(data)
            m.predict(data)
        print(name, "ok")
    except Exception as e:
        print("VIOLATION: %s raised %s: %s" % (name, type(e).__name__, str(e)[:90]))
        bad = True
attempt("TopoART(TopoART(FuzzyART)).fit", lambda: TopoART(TopoART(fz(), 0.5, 5, 2), 0.5, 7, 2), X)
attempt("FusionART([DualVigilanceART, FuzzyART]).fit",
        lambda: FusionART([DualVigilanceART(fz(), 0.3), fz()], [0.5, 0.5], [4, 4]), np.hstack([X, X]))
attempt("FusionART([CVIART, FuzzyART]).fit",
        lambda: FusionART([CVIART(fz(), 1), fz()], [0.5, 0.5], [4, 4]), np.hstack([X, X]))
sys.exit(1 if bad else 0)

"""C04 violated: FALCON.get_action / get_actions_and_rewards / get_probabilistic_action with the
default action space (action_space=None) raise AssertionError('Data has not been normalized')
for every action module other than FuzzyART.

The default action space is the list of action-channel cluster centres, which for Hypersphere /
Ellipsoid / Gaussian / Bayesian / ART2 modules already live in the normalised space; they are
pushed through modules[1].prepare_data() a second time.  (i) with raw actions in [2, 5] the
re-normalised centres become negative -> predict()'s validate_data raises; (ii) with data the
caller normalised himself (d_min_/d_max_ unset) and a single action category the second
normalisation is 0/0 = NaN -> same AssertionError; with several categories it silently sets
d_min_/d_max_ of the action module from the centres (state corruption).
Clause: a fitted valid data set can be predicted from without an exception.
"""
import sys, warnings
sys.path.insert(0, sys.argv[1])
import numpy as np
warnings.simplefilter("ignore")
from artlib import FALCON, HypersphereART

rng = np.random.default_rng(0)
mk = lambda: HypersphereART(0.8, 1e-7, 1.0, 1.0)
bad = False
# (i) documented flow: FALCON.prepare_data -> fit -> get_action
S = rng.random((40, 2)) * 10
A = rng.integers(2, 6, (40, 1)).astype(float)
R = rng.random((40, 1)) * 5
f = FALCON(mk(), mk(), mk(), [0.3, 0.3, 0.4], [2, 1, 1])
s, a, r = f.prepare_data(S, A, R)
f.fit(s, a, r)
print("(i) explicit action space ok:", f.get_action(s[0], action_space=np.array([[2.0], [3.0], [4.0], [5.0]])))
try:
    print("(i) default action space ok:", f.get_action(s[0]))
except Exception as e:
    print("(i) VIOLATION: get_action(state) raised %s: %s" % (type(e).__name__, e))
    bad = True
# (ii) data already in [0,1], one action category
f = FALCON(mk(), mk(), mk(), [0.3, 0.3, 0.4], [2, 1, 1])
s = rng.random((10, 2)); a = np.full((10, 1), 0.5); r = rng.random((10, 1))
f.fit(s, a, r)
try:
    print("(ii) default action space ok:", f.get_action(s[0]))
except Exception as e:
    print("(ii) VIOLATION: get_action(state) raised %s: %s" % (type(e).__name__, e))
    bad = True
# (iii) several action categories: silent change of the module's normalisation bounds
f = FALCON(mk(), mk(), mk(), [0.3, 0.3, 0.4], [2, 1, 1])
a = rng.choice([0.2, 0.4, 0.6], (10, 1))
f.fit(s, a, r)
before = (f.fusion_art.modules[1].d_min_, f.fusion_art.modules[1].d_max_)
f.get_action(s[0])
after = (f.fusion_art.modules[1].d_min_, f.fusion_art.modules[1].d_max_)
print("(iii) action module bounds before / after get_action:", before, after)
if before != after and before == (None, None):
    print("(iii) VIOLATION: a pure query changed the estimator's normalisation state")
    bad = True
sys.exit(1 if bad else 0)

"""C04 / empty data set: a 0-row array passes validate_data and fit() succeeds, but a
following predict() on a perfectly ordinary sample raises ValueError (zip(*[]) in
step_pred) instead of a clean 'not fitted' error / defined result."""
import sys, warnings
sys.path.insert(0, sys.argv[1])
import numpy as np
warnings.filterwarnings("ignore")
from artlib import FuzzyART, HypersphereART, compliment_code

bad = []
for name, m, E, x in [
    ("FuzzyART", FuzzyART(0.5, 1e-3, 1.0), np.zeros((0, 4)), compliment_code(np.array([[0.2, 0.3]]))),
    ("HypersphereART", HypersphereART(0.5, 1e-3, 1.0, 1.0), np.zeros((0, 2)), np.array([[0.2, 0.3]])),
]:
    m.fit(E)                     # accepted, no error
    try:
        m.predict(x)
    except Exception as e:
        bad.append(f"{name}: fit(empty) ok, predict raised {type(e).__name__}: {e}")
if bad:
    print("\n".join(bad)); sys.exit(1)
sys.exit(0)

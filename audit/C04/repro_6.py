"""C04 / TopoART(tau=0, phi=0) passes validate_params (phi <= tau, both int) but
post_step_fit computes sample_counter_ % tau -> ZeroDivisionError on the first sample."""
import sys, warnings, io, contextlib
sys.path.insert(0, sys.argv[1])
import numpy as np
warnings.filterwarnings("ignore")
from artlib import TopoART, FuzzyART, compliment_code

X = compliment_code(np.random.default_rng(0).random((10, 2)))
m = TopoART(FuzzyART(0.5, 1e-3, 1.0), beta_lower=0.5, tau=0, phi=0)
try:
    with contextlib.redirect_stdout(io.StringIO()):
        m.fit(X)
except ZeroDivisionError as e:
    print(f"TopoART(tau=0, phi=0).fit raised ZeroDivisionError: {e}")
    sys.exit(1)
sys.exit(0)

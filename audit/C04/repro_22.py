"""Hyper-parameters accepted by validate_params must train without an exception and with finite activations:
a non-symmetric cov_init and a non-finite s_init must either be rejected or work."""
import sys
sys.path.insert(0, sys.argv[1])
import numpy as np
from artlib import BayesianART, QuadraticNeuronART
bad = []
X = np.array([[0.1, 0.2], [0.8, 0.7], [0.15, 0.25], [0.5, 0.5], [0.82, 0.69]])
for cov in (np.array([[1.0, 2.0], [0.5, 1.0]]), np.array([[1.0, 5.0], [0.5, 1.0]])):
    try:
        m = BayesianART(rho=1.0, cov_init=cov)
    except AssertionError:
        continue
    try:
        with np.errstate(all="ignore"):
            m.fit(X)
            T = [float(m.category_choice(X[0], w, params=m.params)[0]) for w in m.W]
        if not np.all(np.isfinite(T)):
            bad.append(f"cov_init={cov.tolist()} accepted: activations {T}")
    except Exception as e:
        bad.append(f"cov_init={cov.tolist()} accepted, fit raised {type(e).__name__}")
for s in (float("inf"), float("nan")):
    try:
        m = QuadraticNeuronART(rho=0.5, s_init=s, lr_b=0.1, lr_w=0.1, lr_s=0.1)
    except AssertionError:
        continue
    with np.errstate(all="ignore"):
        m.fit(np.vstack([X, X]))
        T = [float(m.category_choice(X[0], w, params=m.params)[0]) for w in m.W]
    if not np.all(np.isfinite(T)):
        bad.append(f"s_init={s} accepted: activations {T}")
if bad:
    print("VIOLATION:", *bad, sep="\n  "); sys.exit(1)
sys.exit(0)

"""C04 / FALCON.get_probabilistic_action: when every learned reward centre is 0 the
reward distribution is normalised by its sum (0/0 = NaN) and np.random.choice raises
'probabilities contain NaN'."""
import sys, warnings
sys.path.insert(0, sys.argv[1])
import numpy as np
warnings.filterwarnings("ignore")
from artlib import FALCON, FuzzyART

s0 = np.array([[0.1], [0.9]]); a0 = np.array([[0.0], [1.0]]); r0 = np.array([[0.0], [1.0]])
f = FALCON(FuzzyART(0.5, 1e-3, 1.0), FuzzyART(0.5, 1e-3, 1.0), FuzzyART(0.5, 1e-3, 1.0),
           channel_dims=[2, 2, 2])
s, a, r = f.prepare_data(s0, a0, r0)
r[:] = [0.0, 1.0]                # both rewards are 0 (complement coded), still valid data
f.fit(s, a, r)
try:
    f.get_probabilistic_action(s[0])
except ValueError as e:
    print(f"FALCON.get_probabilistic_action raised ValueError: {e}")
    sys.exit(1)
sys.exit(0)

"""C04 / FuzzyART.get_cluster_centers (hence ARTMAP.predict_regression,
FusionART.predict_regression, FALCON.get_rewards) raises TypeError when the (valid,
complement-coded) data was not produced by this instance's prepare_data: d_max_/d_min_
are still None and de_normalize computes None - None."""
import sys, warnings
sys.path.insert(0, sys.argv[1])
import numpy as np
warnings.filterwarnings("ignore")
from artlib import FuzzyART, FusionART, compliment_code

X = compliment_code(np.random.default_rng(0).random((10, 2)))
bad = []
m = FuzzyART(0.5, 1e-3, 1.0).fit(X)          # X passes validate_data
try:
    C = m.get_cluster_centers()
    assert all(np.all(np.isfinite(c)) for c in C)
except Exception as e:
    bad.append(f"FuzzyART.get_cluster_centers raised {type(e).__name__}: {e}")
XY = np.hstack([X, X])
f = FusionART([FuzzyART(0.5, 1e-3, 1.0), FuzzyART(0.5, 1e-3, 1.0)], [0.5, 0.5], [4, 4]).fit(XY)
try:
    f.predict_regression(XY)
except Exception as e:
    bad.append(f"FusionART.predict_regression raised {type(e).__name__}: {e}")
if bad:
    print("\n".join(bad)); sys.exit(1)
sys.exit(0)

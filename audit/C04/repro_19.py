"""C04 violated (extreme but legal hyper-parameters, LOW dimension / other modules than the known
BayesianART high-dimension case):

(a) BayesianART, 2-D, cov_init = 1e-20*I (positive definite, accepted): after the first update the
    covariance is a rank-one matrix plus 1e-20*I, numerically singular -> np.linalg.inv raises
    LinAlgError('Singular matrix') in fit() on ordinary random data (already at 1e-18*I).
(b) GaussianART, sigma_init = 1e-160 (> 0, accepted): sigma**2 underflows, 1/sigma**2 = inf is stored
    in the weight, and a sample that coincides with the category mean gets 0*inf = NaN as activation
    and match value; every repetition of a sample founds a new category.
(c) GaussianART, d = 600, sigma_init = 2 (accepted): prod(sigma**2) overflows, the weights contain
    inf, all activations of the later categories are 0 and predict() returns category 0 for training
    samples that founded other categories.
Clause: extreme but legal hyper-parameters ... fitted without an exception; learned weights,
activations and match values remain finite.
"""
import sys, warnings
sys.path.insert(0, sys.argv[1])
import numpy as np
warnings.simplefilter("ignore")
from artlib import BayesianART, GaussianART

bad = False
# (a)
X = np.random.default_rng(0).random((30, 2))
m = BayesianART(rho=1e-3, cov_init=1e-20 * np.eye(2))
m.validate_data(X)
try:
    m.fit(X)
    print("(a) fit ok")
except Exception as e:
    print("(a) VIOLATION: BayesianART.fit raised %s: %s" % (type(e).__name__, e))
    bad = True
# (b)
X3 = np.array([[0.2, 0.3], [0.8, 0.1], [0.5, 0.9]])
m = GaussianART(rho=0.5, sigma_init=np.array([1e-160, 1e-160]))
m.fit(np.vstack([X3, X3]))
T, c = m.category_choice(X3[0], m.W[0], m.params)
print("(b) categories for 3 distinct points presented twice:", m.n_clusters,
      " activation of a centre sample:", T, " weights finite:", bool(np.all(np.isfinite(m.W[0]))))
if m.n_clusters != 3 or not np.isfinite(T):
    print("(b) VIOLATION")
    bad = True
# (c)
d = 600
X = np.random.default_rng(1).random((5, d))
m = GaussianART(rho=0.5, sigma_init=2.0 * np.ones(d))
m.fit(X)
fin = [bool(np.all(np.isfinite(w))) for w in m.W]
print("(c) weights finite per category:", fin, " labels_:", m.labels_, " predict(train):", m.predict(X))
if not all(fin) or not np.array_equal(m.labels_, m.predict(X)):
    print("(c) VIOLATION")
    bad = True
sys.exit(1 if bad else 0)

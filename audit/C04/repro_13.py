"""C04 / nested FusionART (a FusionART used as a channel module of a FusionART).
(a) partial_fit on a fresh instance: hasattr(inner_fusion, 'W') is already True (W is a
    property), the outer module takes the 'continue' branch -> AttributeError labels_.
(b) under SimpleARTMAP, a label conflict triggers match tracking; the outer
    _match_tracking reads cache[i]['match_criterion_bin'], which the inner FusionART
    never stores -> KeyError."""
import sys, warnings
sys.path.insert(0, sys.argv[1])
import numpy as np
warnings.filterwarnings("ignore")
from artlib import FusionART, FuzzyART, SimpleARTMAP, compliment_code

rng = np.random.default_rng(0)
n = 30
X = np.hstack([compliment_code(rng.random((n, 1))) for _ in range(3)])
y = rng.integers(0, 2, n)
F = lambda: FuzzyART(0.5, 1e-3, 1.0)
nested = lambda: FusionART([FusionART([F(), F()], [0.5, 0.5], [2, 2]), F()], [0.5, 0.5], [4, 2])
bad = []
nested().fit(X).predict(X)       # plain fit works
try:
    nested().partial_fit(X[:3])
except Exception as e:
    bad.append(f"(a) nested FusionART.partial_fit raised {type(e).__name__}: {e}")
try:
    SimpleARTMAP(nested()).fit(X, y).predict(X)
except Exception as e:
    bad.append(f"(b) SimpleARTMAP(nested FusionART).fit raised {type(e).__name__}: {e}")
if bad:
    print("\n".join(bad)); sys.exit(1)
sys.exit(0)

"""C04 violated: EllipsoidART.category_distance returns NaN (sqrt of a negative rounding
residue) for legal mu <= ~1e-8; the NaN is silently swallowed by max(radius, nan) and the
sample is treated as lying inside the category.

mu = 1e-9 is accepted by validate_params (0 < mu <= 1).  After the second pattern fixed the
major axis, a pattern far away along that axis has the exact distance |x - c| (0.64 here,
match 1-(0.049+0.64)/1 = 0.31 < rho = 0.5 -> a new category is due).  The library computes
(1/mu)*sqrt(|ic|^2 - (1-mu^2)(m.ic)^2) = 1e9*sqrt(-1e-17) = NaN, `max(radius, nan)` yields
radius, the match value becomes 1-2*radius/r_hat = 0.9 and the far pattern is absorbed.
Clause: 'activations, match values ... remain finite (never NaN)' / numerically well-defined.
"""
import sys, warnings
sys.path.insert(0, sys.argv[1])
import numpy as np
warnings.simplefilter("ignore")
from artlib import EllipsoidART

X = np.array([[0.17, 0.01], [0.26, 0.05], [0.80, 0.29]])
m = EllipsoidART(rho=0.5, alpha=1e-7, beta=1.0, mu=1e-9, r_hat=1.0)
m.validate_data(X)
m.fit(X[:2])
w = m.W[0]
T, cache = m.category_choice(X[2], w, m.params)
M, _ = m.match_criterion(X[2], w, m.params, cache)
exact = float(np.linalg.norm(X[2] - w[:2]))  # the point lies on the major axis
print("cached distance:", cache["dist"], " exact distance:", exact, " radius:", w[-1])
print("match value reported:", M, " exact match value:", 1 - (w[-1] + exact) / 1.0)
m.fit(X)
print("labels:", m.labels_, "(reference with mu=1e-2: [0 0 1])")
bad = (not np.isfinite(cache["dist"])) or m.labels_[2] == 0
if bad:
    print("VIOLATION: NaN distance / far pattern absorbed although its match is below rho")
sys.exit(1 if bad else 0)

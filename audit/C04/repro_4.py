"""C04 / BARTMAP: NaN match values on exactly block-structured (ideal bicluster) data.
A row restricted to one column cluster is constant -> scipy pearsonr returns NaN ->
the average correlation (BARTMAP's match value) is NaN, every comparison `M >= eta`
is False and every row becomes its own row cluster (eta=0.0 should accept anything
non-negative). Adding 1% noise gives the expected 2x2 biclustering."""
import sys, warnings
sys.path.insert(0, sys.argv[1])
import numpy as np
warnings.filterwarnings("ignore")
from artlib import BARTMAP, FuzzyART

X = np.kron(np.array([[1.0, 0.0], [0.0, 1.0]]), np.ones((3, 3)))   # 6x6 checkerboard
m = BARTMAP(FuzzyART(0.5, 1e-3, 1.0), FuzzyART(0.5, 1e-3, 1.0), eta=0.0)
m.fit(X)
vals = [m._average_pearson_corr(X, k, c) for k in range(6) for c in range(m.n_column_clusters)]
if not np.all(np.isfinite(vals)):
    print(f"BARTMAP match values (average Pearson correlation) are not finite: {vals[:4]}...; "
          f"row labels {m.row_labels_.tolist()} (expected two row clusters), "
          f"column labels {m.column_labels_.tolist()}")
    sys.exit(1)
sys.exit(0)

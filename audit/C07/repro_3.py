"""C07: CVIART.fit(max_iter=2) on valid data raises ValueError from inside the category
search (sklearn CVI on a labelling with 1 / n_samples distinct labels) AFTER match tracking
has already moved the vigilance; BaseART.step_fit has no restore on that exit path, so
base_module.params['rho'] stays at the tracked value and later (successful) calls judge
samples against it."""
import sys, io, contextlib, warnings
sys.path.insert(0, sys.argv[1])
warnings.filterwarnings("ignore")
import numpy as np
from artlib import FuzzyART, CVIART

x = np.array([[1.0], [0.1], [0.4]])
X = np.hstack([x, 1 - x])                      # valid complement-coded data
x2 = np.array([[0.0], [0.2], [0.45], [0.55], [0.8], [1.0]])
X2 = np.hstack([x2, 1 - x2])

def make():
    with contextlib.redirect_stdout(io.StringIO()):
        return CVIART(FuzzyART(rho=0.6, alpha=1e-3, beta=1.0), CVIART.DAVIESBOULDIN)

bad = []
for mt, eps in [("MT+", 1e-3), ("MT0", 0.0), ("MT-", 1e-3), ("MT1", 0.0)]:
    est = make()
    before = dict(est.base_module.params)
    raised = None
    try:
        with contextlib.redirect_stdout(io.StringIO()):
            est.fit(X, match_tracking=mt, epsilon=eps, max_iter=2)
    except Exception as e:  # noqa
        raised = f"{type(e).__name__}: {e}"
    after = dict(est.base_module.params)
    if before != after:
        # consequence: the next, perfectly fine, fit is judged against the leaked vigilance
        with contextlib.redirect_stdout(io.StringIO()):
            est.fit(X2, match_tracking="MT~")
            ref = make().fit(X2, match_tracking="MT~")
        bad.append(
            f"{mt}: fit raised [{raised}] and left base_module.params {before} -> {after}; "
            f"next fit gives {est.base_module.n_clusters} clusters, a fresh estimator gives "
            f"{ref.base_module.n_clusters}"
        )
if bad:
    print("C07 VIOLATED: vigilance moved by match tracking is not restored when the call "
          "exits through an exception raised on valid input")
    print("\n".join(bad))
    sys.exit(1)
print("ok")
sys.exit(0)

"""C07: TopoART nested in FusionART (itself the A-side of SimpleARTMAP):
match tracking writes the tracked vigilance into TopoART.base_module.params,
FusionART saves/restores only TopoART.params -> the inner module's rho is
permanently changed by fit / partial_fit."""
import sys, io, contextlib, warnings
sys.path.insert(0, sys.argv[1])
warnings.filterwarnings("ignore")
import numpy as np
from artlib import FuzzyART, TopoART, FusionART, SimpleARTMAP

X = np.array([[0.5, 0.5], [0.5, 0.5], [0.2, 0.8]])  # complement coded, 1 feature
y = np.array([0, 1, 0])                              # same point, two classes -> label veto
bad = []
for mt in ["MT+", "MT-", "MT0", "MT1", "MT~"]:
    for call in ["fit", "partial_fit"]:
        inner = FuzzyART(rho=0.5, alpha=1e-3, beta=1.0)
        topo = TopoART(inner, beta_lower=0.5, tau=1000, phi=0)
        fus = FusionART([topo], gamma_values=[1.0], channel_dims=[2])
        clf = SimpleARTMAP(fus)
        before = dict(inner.params)
        with contextlib.redirect_stdout(io.StringIO()):
            getattr(clf, call)(X, y, match_tracking=mt, epsilon=1e-3)
            clf.predict(X)
        after = dict(inner.params)
        if before != after:
            bad.append(f"{call:11s} {mt}: nested FuzzyART params {before} -> {after}")
if bad:
    print("C07 VIOLATED: a training call changed a nested module's hyper-parameter")
    print("\n".join(bad))
    sys.exit(1)
print("ok")
sys.exit(0)

"""BayesianART (same pattern in ART2A): check_dimensions stores dim_ BEFORE it
rejects data whose width does not match cov_init. The rejection is not atomic:
the estimator afterwards rejects valid data and lets the wrong-width data through
validation on the second attempt."""
import sys, warnings
sys.path.insert(0, sys.argv[1])
warnings.filterwarnings("ignore")
import numpy as np
from artlib import BayesianART, ART2A

rng = np.random.default_rng(0)
good = rng.random((6, 2))
wrong = rng.random((6, 3))
problems = []
for ep in ("fit", "partial_fit"):
    m = BayesianART(0.01, 0.05 * np.eye(2))
    before = dict(m.__dict__)
    try:
        getattr(m, ep)(wrong)
        problems.append(f"{ep}: wrong width accepted outright")
    except AssertionError:
        pass
    if set(m.__dict__) != set(before):
        problems.append(f"BayesianART.{ep}: rejected call changed state: new attrs "
                        f"{sorted(set(m.__dict__) - set(before))} (dim_={m.dim_})")
    try:
        getattr(m, ep)(good)
    except AssertionError:
        problems.append(f"BayesianART.{ep}: VALID data (width 2 == cov_init) is now rejected")
    m2 = BayesianART(0.01, 0.05 * np.eye(2))
    try:
        getattr(m2, ep)(wrong)
    except AssertionError:
        pass
    try:
        m2.validate_data(wrong)
        problems.append(f"BayesianART.{ep}: the same wrong-width data passes validation on the 2nd call")
    except AssertionError:
        pass

# same pattern in ART2A (alpha <= 1/sqrt(dim) is asserted after dim_ is stored)
a = ART2A(0.5, 0.6, 1.0)
X4 = rng.random((5, 4))
try:
    a.fit(X4)
except AssertionError:
    if hasattr(a, "dim_"):
        try:
            a.validate_data(X4)
            problems.append("ART2A: call rejected once, stored dim_, identical call passes validation the 2nd time")
        except AssertionError:
            pass
if problems:
    print("\n".join(problems))
    sys.exit(1)
sys.exit(0)

"""SMART / DeepARTMAP: rejection of invalid data is not atomic.
(a) SMART.fit on an already fitted model throws the fitted layers away before the
    invalid matrix is rejected -> labels_ and predict are gone afterwards.
(b) DeepARTMAP.partial_fit / fit train the earlier layers before a later channel's
    invalid matrix is rejected -> layers are out of step with each other."""
import sys, warnings
sys.path.insert(0, sys.argv[1])
warnings.filterwarnings("ignore")
import numpy as np
from artlib import SMART, DeepARTMAP, FuzzyART

rng = np.random.default_rng(1)
problems = []

# (a) SMART
X = rng.random((20, 2))
s = SMART(FuzzyART, [0.2, 0.5, 0.8], {"alpha": 1e-7, "beta": 1.0})
P = s.prepare_data(X)
s.fit(P)
ref_pred = s.predict(P)[0].copy()
ref_labels = s.labels_.copy()
bad = P.copy()
bad[0, 0] = 1.7                      # out of range
try:
    s.fit(bad)
    problems.append("SMART.fit accepted out-of-range data")
except AssertionError:
    pass
try:
    assert np.array_equal(s.labels_, ref_labels)
    assert np.array_equal(s.predict(P)[0], ref_pred)
except Exception as e:
    problems.append(f"(a) SMART: after a REJECTED fit the fitted model is destroyed: "
                    f"{type(e).__name__}: {str(e)[:90]}")

# (b) DeepARTMAP, unsupervised, three channels
X0, X1, X2 = rng.random((20, 2)), rng.random((20, 3)), rng.random((20, 2))
d = DeepARTMAP([FuzzyART(0.3, 1e-7, 1.0), FuzzyART(0.6, 1e-7, 1.0), FuzzyART(0.9, 1e-7, 1.0)])
Pl, _ = d.prepare_data([X0, X1, X2])
d.fit(Pl)
counters = [m.sample_counter_ for m in d.modules]
lens = [len(l.labels_a) for l in d.layers]
bad2 = Pl[2].copy()
bad2[5, 1] = 3.0                     # only the LAST channel is invalid
try:
    d.partial_fit([Pl[0], Pl[1], bad2])
    problems.append("DeepARTMAP.partial_fit accepted out-of-range data")
except AssertionError:
    pass
counters2 = [m.sample_counter_ for m in d.modules]
lens2 = [len(l.labels_a) for l in d.layers]
if counters2 != counters or lens2 != lens:
    problems.append(f"(b) DeepARTMAP.partial_fit rejected the call but trained earlier layers: "
                    f"sample counters {counters} -> {counters2}, label lengths per layer {lens} -> {lens2}")
if problems:
    print("\n".join(problems))
    sys.exit(1)
sys.exit(0)

"""BARTMAP.fit stores self.X and the modules' normalisation bounds BEFORE it validates.
A rejected fit therefore changes state; after it the estimator rejects matrices that
a fresh estimator accepts.  (Square matrices only - the non-square failure is known.)"""
import sys, warnings
sys.path.insert(0, sys.argv[1])
warnings.filterwarnings("ignore")
import numpy as np
from artlib import BARTMAP, FuzzyART
np.seterr(all="ignore")

rng = np.random.default_rng(3)
M = rng.random((8, 8))
def mk():
    return BARTMAP(FuzzyART(0.3, 1e-7, 1.0), FuzzyART(0.3, 1e-7, 1.0), 0.1)
problems = []

# (a) invalid (finite) matrix: one constant column -> prepared data is NaN -> rejected
Mc = M.copy(); Mc[:, 3] = 0.25
b = mk()
keys0 = set(b.__dict__); dmin0 = b.module_a.d_min_
try:
    b.fit(Mc)
    problems.append("constant-column matrix accepted")
except AssertionError:
    pass
if "X" in b.__dict__ or b.module_a.d_min_ is not dmin0:
    problems.append("(a) rejected BARTMAP.fit changed state: X stored=%s, module_a.d_min_ set=%s"
                    % ("X" in b.__dict__, b.module_a.d_min_ is not None))
try:
    b.fit(M)
except AssertionError as e:
    mk().fit(M)   # a fresh estimator accepts M
    problems.append(f"(a) after the rejected call a VALID matrix is rejected: {e}")

# (b) a fitted estimator: re-fit with a different valid matrix is rejected AND self.X is replaced
b = mk(); b.fit(M)
X_before = b.X.copy()
M2 = 3 * M + 1
try:
    b.fit(M2)
except AssertionError as e:
    mk().fit(M2)
    problems.append(f"(b) re-fit on another finite non-constant matrix rejected: {e}")
    if not np.array_equal(b.X, X_before):
        problems.append("(b) ... and self.X was already replaced by the rejected matrix")
if problems:
    print("\n".join(problems))
    sys.exit(1)
sys.exit(0)

"""C18 violation: ARTMAP (module_a + module_b, also the first layer of every
unsupervised DeepARTMAP / SMART) does not gate fit / partial_fit atomically.

ARTMAP.validate_data validates the A matrix, then the B matrix, and never compares
their row counts; ARTMAP.fit / partial_fit then train module_b BEFORE
SimpleARTMAP.fit checks X against y.

 (a) fresh estimator, valid X, out-of-range y: rejected, but module_a has already
     memorised the width of X (dim_) -> a later fit with correctly prepared data of
     another width is refused although a fresh estimator accepts it.
 (b) fitted estimator, fit(X[:6], y[:7]) (row mismatch): ValueError is raised only
     after module_b was re-fitted from scratch; module_a and the A->B map are the
     old ones, so the map now points to B categories that no longer exist.
 (c) fitted estimator, partial_fit(X[:6], y[:7]): NOT rejected at all; module_b
     learns 7 rows and the 6 rows of X are paired with the labels of rows 1..6 of y
     (shifted by one) - a silent mis-training.
Clause: "rejected by fit, partial_fit ... with an error before any model state
changes" (wrong shape of one of the matrices; out-of-range matrix).
"""
import sys, io, warnings, contextlib, copy
sys.path.insert(0, sys.argv[1])
warnings.filterwarnings("ignore")
import numpy as np
with contextlib.redirect_stdout(io.StringIO()):
    from artlib import ARTMAP, FuzzyART

rng = np.random.default_rng(5)
cc = lambda X: np.hstack([X, 1 - X])
A = cc(rng.random((10, 3)))
B = cc(rng.random((10, 2)))
new = lambda: ARTMAP(FuzzyART(0.7, 0.01, 1.0), FuzzyART(0.7, 0.01, 1.0))
bad = []

# (a)
for meth in ("fit", "partial_fit"):
    m = new()
    Bbad = B.copy(); Bbad[2, 0] = 1.8; Bbad[2, 2] = -0.8
    before = set(vars(m.module_a))
    try:
        getattr(m, meth)(A, Bbad)
        bad.append(f"(a) {meth}: out-of-range y accepted")
    except AssertionError:
        added = set(vars(m.module_a)) - before
        if added:
            A4 = cc(rng.random((10, 2)))
            try:
                getattr(m, meth)(A4, B)
            except AssertionError:
                new().fit(A4, B)  # a fresh estimator accepts it
                bad.append(f"(a) {meth}: rejected call left {sorted(added)} on module_a; "
                           f"valid data of another width is now refused")

# (b)
m = new(); m.fit(A, B)
nb_before = m.module_b.n_clusters
W_before = copy.deepcopy(m.module_b.W)
try:
    m.fit(A[:6], B[:7])
    bad.append("(b) fit with 6 X-rows and 7 y-rows accepted")
except ValueError as e:
    if len(m.module_b.W) != len(W_before) or any(
        not np.array_equal(a, b) for a, b in zip(m.module_b.W, W_before)
    ):
        dangling = sorted(set(m.map.values()) - set(range(m.module_b.n_clusters)))
        bad.append(f"(b) fit rejected ({str(e)[:45]}...) AFTER module_b was re-trained: "
                   f"B categories {nb_before} -> {m.module_b.n_clusters}, "
                   f"map still points to B labels {dangling} that do not exist")

# (c)
m = new(); m.fit(A, B)
n_a = len(m.module_a.labels_)
try:
    m.partial_fit(A[:6], B[:7])
    bad.append(f"(c) partial_fit with 6 X-rows and 7 y-rows accepted silently: "
               f"len(labels_a)={len(m.labels_a)} (+{len(m.labels_a) - n_a}), "
               f"len(labels_b)={len(m.labels_b)} (+{len(m.labels_b) - 10})")
except Exception:
    pass

if bad:
    print("C18 VIOLATED (ARTMAP gating):")
    for b in bad:
        print("  -", b)
    sys.exit(1)
print("ok")
sys.exit(0)

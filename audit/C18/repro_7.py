"""prepare_data returns NaN (not values in [0,1]) for finite data whose column range
overflows the dtype: d_max - d_min = inf, (x - d_min)/inf -> inf/inf = nan."""
import sys, warnings
sys.path.insert(0, sys.argv[1])
warnings.filterwarnings("ignore")
import numpy as np
from artlib import FuzzyART, HypersphereART, normalize
np.seterr(all="ignore")

problems = []
X = np.array([[-1e308, 0.0], [1e308, 1.0], [0.0, 0.5]])      # finite float64, non-constant columns
assert np.all(np.isfinite(X))
for m in (FuzzyART(0.5, 1e-7, 1.0), HypersphereART(0.5, 1e-7, 1.0, 0.9)):
    P = m.prepare_data(X)
    if not (np.all(np.isfinite(P)) and P.min() >= 0 and P.max() <= 1):
        problems.append(f"{type(m).__name__}.prepare_data(float64, +-1e308) -> {P.tolist()}")
        try:
            m.validate_data(P)
        except AssertionError as e:
            problems.append(f"   and the estimator's validation rejects it: {e}")
# the same with half precision and quite ordinary magnitudes
X16 = np.array([[-40000, 0.0], [40000, 1.0], [0.0, 0.5]], dtype=np.float16)
assert np.all(np.isfinite(X16))
P = HypersphereART(0.5, 1e-7, 1.0, 0.9).prepare_data(X16)
if not np.all(np.isfinite(P)):
    problems.append(f"HypersphereART.prepare_data(float16, +-40000) -> {P.tolist()}")
if problems:
    print("\n".join(problems))
    sys.exit(1)
sys.exit(0)

"""C18 violation: prepare_data / restore_data are wrong for signed-integer matrices.

`normalize` computes `data - d_min` and `d_max - d_min` in the dtype of the input.
For a signed integer matrix whose column range does not fit the dtype (int8 with a
range > 127, int16 with a range > 32767, int32 ...), the subtraction wraps around
silently.  prepare_data then returns values far outside [0, 1], the same estimator's
validate_data rejects its own prepared data, and restore_data does not give the
original data back.  An int16 matrix such as [-20000 .. 20000] (audio samples,
sensor counts) is a finite real matrix with non-constant columns, i.e. inside the
quantifier.  Also shown: an unsigned matrix prepared with the bounds of the first
call wraps for later data below the first minimum, so restore_data no longer inverts
(for float input it does, the map being affine).
"""
import sys, io, warnings, contextlib
sys.path.insert(0, sys.argv[1])
warnings.filterwarnings("ignore")
import numpy as np
with contextlib.redirect_stdout(io.StringIO()):
    from artlib import (FuzzyART, HypersphereART, GaussianART, SMART, TopoART,
                        normalize, de_normalize)

bad = []

def check(name, model, X):
    Xf = X.astype(float)
    P = model.prepare_data(X)
    if isinstance(P, tuple):
        P = P[0]
    in01 = bool(np.all(np.asarray(P) >= 0) and np.all(np.asarray(P) <= 1))
    if not in01:
        bad.append(f"{name}: prepare_data({X.dtype}) outside [0,1]: min={np.min(P):.3f} max={np.max(P):.3f}")
    try:
        if hasattr(model, "modules") and not hasattr(model, "channel_dims"):
            model.modules[0].validate_data(P)
        else:
            model.validate_data(P)
    except AssertionError as e:
        bad.append(f"{name}: own validate_data rejects the prepared data ({e})")
    R = model.restore_data(P)
    err = float(np.max(np.abs(np.asarray(R, dtype=float) - Xf)))
    if not err <= 1e-6 * max(1.0, float(np.max(np.abs(Xf)))):
        bad.append(f"{name}: restore_data(prepare_data(X)) differs from X by {err}")

X16 = np.array([[-20000, 3], [20000, 7], [150, 5], [-7, 4]], dtype=np.int16)
X8 = np.array([[-100, 3], [100, 7], [5, 5]], dtype=np.int8)
X32 = np.array([[-2**31, 3], [2**31 - 1, 7], [5, 5]], dtype=np.int32)

with contextlib.redirect_stdout(io.StringIO()):
    models = [
        ("FuzzyART/int16", FuzzyART(0.5, 0.01, 1.0), X16),
        ("HypersphereART/int8", HypersphereART(0.5, 0.01, 1.0, 1.0), X8),
        ("GaussianART/int32", GaussianART(0.5, np.ones(2)), X32),
        ("TopoART(FuzzyART)/int16", TopoART(FuzzyART(0.5, 0.01, 1.0), 0.5, 3, 1), X16),
        ("SMART(FuzzyART)/int16", SMART(FuzzyART, [0.2, 0.5], {"alpha": 0.01, "beta": 1.0}), X16),
    ]
for name, m, X in models:
    check(name, m, X)

# the same data as float64 is fine -> it is the dtype, not the values
m = FuzzyART(0.5, 0.01, 1.0)
P = m.prepare_data(X16.astype(float))
m.validate_data(P)
assert np.allclose(m.restore_data(P), X16)

# normalisation on its own
N, dmax, dmin = normalize(X16)
if not (np.all(N >= 0) and np.all(N <= 1)):
    bad.append(f"normalize(int16) outside [0,1]: {N[:, 0]}")
if not np.allclose(de_normalize(N, dmax, dmin), X16):
    bad.append("de_normalize(normalize(int16)) != data")

# unsigned: later data below the first call's minimum wraps instead of going negative
m = HypersphereART(0.5, 0.01, 1.0, 1.0)
first = np.array([[10, 3], [250, 7], [50, 5]], dtype=np.uint8)
later = np.array([[5, 4], [100, 6]], dtype=np.uint8)
m.prepare_data(first)
R = m.restore_data(m.prepare_data(later))
if not np.allclose(R, later):
    bad.append(f"uint8 later data: restore_data(prepare_data(X)) = {R[:, 0]} instead of {later[:, 0]}")
mf = HypersphereART(0.5, 0.01, 1.0, 1.0)
mf.prepare_data(first.astype(float))
assert np.allclose(mf.restore_data(mf.prepare_data(later.astype(float))), later)

if bad:
    print("C18 VIOLATED (integer dtypes):")
    for b in bad:
        print("  -", b)
    sys.exit(1)
print("ok")
sys.exit(0)

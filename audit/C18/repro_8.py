"""GaussianART never compares the data width with len(sigma_init).
Narrower AND wider data are accepted silently (the weight vector
[mean, sigma, 1/sigma, det, n] is then sliced at the wrong offsets, so labels are
garbage); for some batches wider data instead dies with a numpy broadcasting error in
the middle of fit, after W/labels_/is_fitted_ have been (re)initialised."""
import sys, warnings
sys.path.insert(0, sys.argv[1])
warnings.filterwarnings("ignore")
import numpy as np
from artlib import GaussianART
np.seterr(all="ignore")

rng = np.random.default_rng(0)
problems = []
g = GaussianART(0.5, 0.5 * np.ones(2))          # configured for 2 features
narrow = rng.random((6, 1))
try:
    g.fit(narrow)
    problems.append(f"1-column data accepted by a GaussianART with 2-dim sigma_init; labels {g.labels_}")
except Exception:
    pass
g = GaussianART(0.5, 0.5 * np.ones(2))
wide = rng.random((6, 3))
keys0 = set(g.__dict__)
try:
    g.fit(wide)
    problems.append(f"3-column data accepted by a GaussianART with 2-dim sigma_init; labels {g.labels_}")
except AssertionError:
    pass
except Exception as e:
    new = sorted(set(g.__dict__) - keys0)
    if new:
        problems.append(f"3-column data fails late with {type(e).__name__} after state changed: new attrs {new}")
if problems:
    print("\n".join(problems))
    sys.exit(1)
sys.exit(0)

"""FusionART.prepare_data(skip_channels=[k]) fills the skipped channel with 0.5.
If module k is ART1 the prepared matrix is rejected by FusionART's own validation,
so predict / predict_regression on the prepared data raise."""
import sys, warnings
sys.path.insert(0, sys.argv[1])
warnings.filterwarnings("ignore")
import numpy as np
from artlib import FusionART, FuzzyART, ART1

rng = np.random.default_rng(1)
Xa = rng.random((20, 2)) * 10 - 3
Xb = (rng.random((20, 3)) > 0.5).astype(float)
Xb[0] = [0, 1, 0]; Xb[1] = [1, 0, 1]
Xb[Xb.sum(1) == 0, 0] = 1            # no all-zero rows
m = FusionART([FuzzyART(0.5, 1e-7, 1.0), ART1(0.5, 2.0)], [0.5, 0.5], [4, 3])
P = m.prepare_data([Xa, Xb])
m.validate_data(P)                    # full data is fine
m.fit(P)
Pq = m.prepare_data([Xa, None], skip_channels=[1])
assert Pq.min() >= 0 and Pq.max() <= 1
problems = []
try:
    m.validate_data(Pq)
except AssertionError as e:
    problems.append(f"validate_data rejects the estimator's own prepare_data output: {e}")
try:
    m.predict(Pq, skip_channels=[1])
except AssertionError as e:
    problems.append(f"predict(prepared, skip_channels=[1]) raises: {e}")
try:
    m.predict_regression(Pq, target_channels=[1])
except AssertionError as e:
    problems.append(f"predict_regression(prepared, target_channels=[1]) raises: {e}")
if problems:
    print("\n".join(problems))
    sys.exit(1)
sys.exit(0)

"""SMART.predict / DeepARTMAP.predict (via SimpleARTMAP.predict_ab) never call
validate_data: out-of-range, negative, non-complement-coded and even width-1
matrices are silently labelled instead of being rejected."""
import sys, warnings
sys.path.insert(0, sys.argv[1])
warnings.filterwarnings("ignore")
import numpy as np
from artlib import SMART, DeepARTMAP, FuzzyART

rng = np.random.default_rng(1)
X = rng.random((20, 2))
s = SMART(FuzzyART, [0.2, 0.5, 0.8], {"alpha": 1e-7, "beta": 1.0})
P = s.prepare_data(X)
s.fit(P)
oor = P.copy(); oor[0, 0] = 1.7
cases = {
    "out of range (1.7)": oor,
    "negative": -P,
    "not complement coded (all 0.9)": np.full((3, 4), 0.9),
    "wrong width (1 column instead of 4)": np.full((3, 1), 0.5),
}
problems = []
for name, B in cases.items():
    # the elementary module itself does reject this matrix
    try:
        s.modules[-1].validate_data(B)
        continue
    except AssertionError:
        pass
    try:
        out = s.predict(B)
        problems.append(f"SMART.predict accepted [{name}] -> labels {out[0][:4]}")
    except Exception:
        pass

d = DeepARTMAP([FuzzyART(0.3, 1e-7, 1.0), FuzzyART(0.6, 1e-7, 1.0)])
Pl, _ = d.prepare_data([X, X])
d.fit(Pl)
try:
    out = d.predict(oor)
    problems.append(f"DeepARTMAP.predict accepted out-of-range data -> {out[0][:4]}")
except Exception:
    pass
if problems:
    print("\n".join(problems))
    sys.exit(1)
sys.exit(0)

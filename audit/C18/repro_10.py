"""C18 violation: prepare_data raises TypeError for a boolean matrix.

A boolean matrix is the natural container for the binary data ART1 is made for
(ART1.validate_data / fit / predict accept dtype=bool), and it is a finite real
matrix with values 0/1.  `normalize` evaluates `data - d_min` in the input dtype and
numpy refuses `-` on booleans, so prepare_data of EVERY estimator (ART1, FuzzyART,
SMART(ART1), ...) and the public `normalize` fail with TypeError on valid input
instead of returning the (already normalised) values.  Complement coding on its
own works for the same matrix.
"""
import sys, io, warnings, contextlib
sys.path.insert(0, sys.argv[1])
warnings.filterwarnings("ignore")
import numpy as np
with contextlib.redirect_stdout(io.StringIO()):
    from artlib import ART1, FuzzyART, SMART, normalize, compliment_code, de_compliment_code

Xb = np.array([[1, 0, 1, 0], [0, 1, 1, 0], [1, 1, 0, 1], [0, 0, 1, 1]], dtype=bool)
bad = []

# the estimator itself is happy with the boolean matrix
a = ART1(0.5, 2.0)
a.validate_data(Xb)
a.fit(Xb)
a.predict(Xb)

with contextlib.redirect_stdout(io.StringIO()):
    models = [("ART1", ART1(0.5, 2.0)), ("FuzzyART", FuzzyART(0.5, 0.01, 1.0)),
              ("SMART(ART1)", SMART(ART1, [0.2, 0.6], {"L": 2.0}))]
for name, m in models:
    try:
        P = m.prepare_data(Xb)
        R = m.restore_data(P)
        if not np.array_equal(np.asarray(R, dtype=float), Xb.astype(float)):
            bad.append(f"{name}: restore_data(prepare_data(bool)) != data")
    except TypeError as e:
        bad.append(f"{name}.prepare_data(bool matrix) raises TypeError: {str(e)[:60]}...")
try:
    normalize(Xb)
except TypeError as e:
    bad.append("normalize(bool matrix) raises TypeError")

# same values as uint8 / float work, complement coding alone works
m = ART1(0.5, 2.0)
assert np.array_equal(m.restore_data(m.prepare_data(Xb.astype(np.uint8))), Xb)
assert np.array_equal(de_compliment_code(compliment_code(Xb)), Xb)

if bad:
    print("C18 VIOLATED (boolean matrix):")
    for b in bad:
        print("  -", b)
    sys.exit(1)
print("ok")
sys.exit(0)

"""FuzzyART-based estimators accept data that is NOT complement coded
(only the row sum is checked, not x[j] + x[j+d] == 1)."""
import sys, io, contextlib, warnings
sys.path.insert(0, sys.argv[1])
warnings.filterwarnings("ignore")
import numpy as np
from artlib import FuzzyART, TopoART, DualVigilanceART, iCVIFuzzyART, CVIART, FusionART

# rows are in [0,1], even width, row sum == d, but x[0]+x[2] = 1.8, x[1]+x[3] = 0.2
BAD = np.array([[0.9, 0.1, 0.9, 0.1],
                [0.2, 0.8, 0.2, 0.8],
                [0.6, 0.4, 0.6, 0.4]])
assert not np.allclose(BAD[:, :2] + BAD[:, 2:], 1.0)  # not complement coded

def fz(rho=0.6):
    return FuzzyART(rho, 1e-7, 1.0)

with contextlib.redirect_stdout(io.StringIO()):
    ests = {
        "FuzzyART": fz(),
        "TopoART(FuzzyART)": TopoART(fz(), 0.5, 5, 2),
        "DualVigilanceART(FuzzyART)": DualVigilanceART(fz(0.7), 0.3),
        "iCVIFuzzyART": iCVIFuzzyART(0.5, 1e-7, 1.0, 1),
        "CVIART(FuzzyART)": CVIART(fz(), 1),
        "FusionART([FuzzyART])": FusionART([fz()], [1.0], [4]),
    }
failed = []
for name, m in ests.items():
    for ep in ("fit", "partial_fit", "predict"):
        try:
            with contextlib.redirect_stdout(io.StringIO()):
                getattr(m, ep)(BAD)
            failed.append(f"{name}.{ep} ACCEPTED non-complement-coded data")
        except NotImplementedError:
            pass
        except AssertionError:
            pass
if failed:
    print("\n".join(failed))
    print("weights learnt from the invalid data:", ests["FuzzyART"].W)
    sys.exit(1)
sys.exit(0)

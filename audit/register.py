#!/usr/bin/env python3
"""usage: audit/register.py <property> <script.py> [<audit dir, default = property>] [--fixed]
Development-time helper (never run by a check): copies a reproduction script of an independent audit into
audit/<dir>/repro_<next k>.py, runs it against /repo, registers it in audit/probes.json and - when it exits 1 (the
violation occurs on the current tree) and --fixed is not given - lists it as an open finding in known_findings.json."""
import ast, json, os, re, shutil, subprocess, sys
V = os.path.dirname(os.path.dirname(os.path.abspath(__file__)))
args = [a for a in sys.argv[1:] if a != "--fixed"]
fixed = "--fixed" in sys.argv
prop, src = args[0], args[1]
adir = args[2] if len(args) > 2 else prop
d = os.path.join(V, "audit", adir)
os.makedirs(d, exist_ok=True)
ks = [int(m.group(1)) for f in os.listdir(d) for m in [re.match(r"repro_(\d+)\.py$", f)] if m]
k = max(ks + [0]) + 1
dst = os.path.join(d, f"repro_{k}.py")
shutil.copy(src, dst)
for extra in os.listdir(os.path.dirname(os.path.abspath(src))):
    if extra.startswith("_") and extra.endswith(".py") and not os.path.exists(os.path.join(d, extra)):
        shutil.copy(os.path.join(os.path.dirname(os.path.abspath(src)), extra), os.path.join(d, extra))
r = subprocess.run(["/venv/bin/python", "-W", "ignore", dst, "/repo"], capture_output=True, text=True, timeout=300,
                   env={"PYTHONPATH": "/repo", "PATH": "/usr/bin:/bin", "PYTHONHASHSEED": "0"})
try:
    doc = " ".join((ast.get_docstring(ast.parse(open(dst).read())) or "").split())[:600]
except Exception:
    doc = ""
last = (r.stdout.strip().split("\n") or [""])[-1][:300]
sig = f"audit/{adir}/repro_{k}"
reg = json.load(open(os.path.join(V, "audit", "probes.json")))
reg.setdefault(prop, []).append({"script": f"audit/{adir}/repro_{k}.py", "signature": sig, "doc": doc, "observed": last})
json.dump(reg, open(os.path.join(V, "audit", "probes.json"), "w"), indent=1)
print(sig, "rc", r.returncode, "|", last[:160])
if r.returncode == 1 and not fixed:
    kf = json.load(open(os.path.join(V, "known_findings.json")))
    kf["findings"].append({"property": prop, "signature": sig, "status": "open",
                           "text": f"[clean-tree audit, round 3] {doc[:420]} -- observed: {last[:200]}",
                           "witness": {"call": f"/venv/bin/python /verif/audit/{adir}/repro_{k}.py /repo  (exit 1 = the violation occurs)"}})
    json.dump(kf, open(os.path.join(V, "known_findings.json"), "w"), indent=1)
    print("listed as open finding; total", len(kf["findings"]))

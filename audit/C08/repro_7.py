"""C08 violation: ART2A.predict does not return the category of maximal
activation when the rows are bool / small-integer arrays.

ART2A.new_weight stores np.copy(sample) (the sample's dtype) and category_choice
computes the activation x . w with np.dot in that dtype:
  * bool  . bool  -> a bool: the activation collapses to 0/1, every category that
    shares a single feature with the row ties at 1.0 and the oldest one wins;
  * uint8 . uint8 -> wraps modulo 256 (int8 modulo 128) for wide binary rows.
validate_data accepts these arrays (all values are 0/1), the very same values as
float64 are labelled differently, and the label chosen is not the category of
maximal activation x . w_j of the trained weights.

Clause broken: "Each row receives the oldest category of maximal activation".

usage: python repro_3.py <library root>
"""
import sys
import warnings

sys.path.insert(0, sys.argv[1] if len(sys.argv) > 1 else ".")
warnings.filterwarnings("ignore")
import numpy as np
from artlib import ART2A

bad = []


def check(tag, train, query, dtype, alpha):
    out = {}
    for dt in (np.float64, dtype):
        m = ART2A(rho=1.0, alpha=alpha, beta=1.0)
        m.fit(train.astype(dt))
        out[dt] = (m.labels_.copy(), m.predict(query.astype(dt)), [np.asarray(w, dtype=float) for w in m.W])
    lab_f, pred_f, W_f = out[np.float64]
    lab_d, pred_d, W_d = out[dtype]
    assert np.array_equal(lab_f, lab_d) and all(np.array_equal(a, b) for a, b in zip(W_f, W_d)), "same trained weights expected"
    for i, q in enumerate(query.astype(float)):
        T = [float(q @ w) for w in W_d]  # activation of the trained weights
        best = int(np.argmax(T))
        if pred_d[i] != best:
            bad.append(
                f"{tag}: row {i} as {np.dtype(dtype).name} -> category {pred_d[i]} (x.w = {T[pred_d[i]]}), "
                f"maximal activation is category {best} (x.w = {T[best]}); as float64 -> {pred_f[i]}"
            )


# 1. bool rows, width 6
train = np.array([[1, 0, 0, 0, 0, 0], [0, 1, 1, 1, 1, 1]])
query = np.array([[1, 1, 1, 1, 1, 0], [1, 0, 0, 0, 0, 0], [0, 1, 1, 1, 1, 1]])
check("bool", train, query, bool, 0.1)

# 2. uint8 rows, width 300: dot products above 255 wrap around
A = np.zeros(300, dtype=int); A[:260] = 1
B = np.zeros(300, dtype=int); B[260:] = 1
check("uint8", np.stack([A, B]), np.stack([np.ones(300, dtype=int), A, B]), np.uint8, 0.05)

if bad:
    print("C08 VIOLATED: ART2A activation computed in the sample dtype")
    for b in bad:
        print("  ", b)
    sys.exit(1)
print("ok")
sys.exit(0)

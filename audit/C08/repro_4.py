"""C08 repro 4: CVIART.predict alters the model: CVIART.fit only records the data
dimension on the base module, so the first predict call creates the attribute `dim_`
on the CVIART object itself (BaseART.predict -> check_dimensions).
usage: python repro_4.py <library root>"""
import sys, warnings, io, contextlib
sys.path.insert(0, sys.argv[1])
warnings.simplefilter("ignore")
import numpy as np
from artlib import FuzzyART, CVIART, compliment_code

with contextlib.redirect_stdout(io.StringIO()):      # CVIART.__init__ prints its params
    m = CVIART(FuzzyART(rho=0.5, alpha=1e-3, beta=1.0), CVIART.CALINSKIHARABASZ)
X = compliment_code(np.random.RandomState(0).rand(12, 2))
m.fit(X)
before = dict(vars(m))
p1 = m.predict(X)
after = dict(vars(m))
added = sorted(set(after) - set(before))
removed = sorted(set(before) - set(after))
if added or removed:
    print("VIOLATION: predict altered the fitted model")
    print("  attributes added by predict: %r (values %r); removed: %r"
          % (added, [after[k] for k in added], removed))
    print("  hasattr(model, 'dim_') before predict: %s, after: %s" % ("dim_" in before, "dim_" in after))
    sys.exit(1)
print("ok")
sys.exit(0)

"""C08 violation: predict returns a category whose activation is NaN instead of
the (oldest) category of maximal activation.

BaseART.step_pred (and the copies in DualVigilanceART / FusionART) picks the
winner with np.argmax, which returns the FIRST NaN of the activation vector,
while step_fit uses np.nanargmax.  BayesianART produces NaN / inf activations on
perfectly ordinary input as soon as det(cov) underflows: with the library's own
example scale cov_init = 1e-4 * I this happens for every data width >= 81
((1e-4)**81 < 5e-324).  Activation of the row's own category is +inf
(exp(0) / sqrt(0)), that of far categories is 0/0 = NaN, and predict answers the
first NaN category (category 0) for almost every row, training rows included.
Carried through SimpleARTMAP's label map this turns into wrong class labels.

Clause broken: "Each row receives the oldest category of maximal activation
(carried through the estimator's label map for ... SimpleARTMAP ...)".

usage: python repro_1.py <library root>
"""
import os
import sys
import warnings

for _v in ("OMP_NUM_THREADS", "OPENBLAS_NUM_THREADS", "MKL_NUM_THREADS"):
    os.environ.setdefault(_v, "1")  # small matrices: keep BLAS single-threaded

sys.path.insert(0, sys.argv[1] if len(sys.argv) > 1 else ".")
warnings.filterwarnings("ignore")
import numpy as np

np.seterr(all="ignore")
from artlib import BayesianART, SimpleARTMAP

rng = np.random.default_rng(0)
d, n = 90, 12
X = rng.random((n, d))  # valid data: 12 rows in [0, 1]^90
bad = []

m = BayesianART(rho=7e-5, cov_init=1e-4 * np.eye(d))  # accepted by validate_params
m.fit(X)
pred = m.predict(X)
for i, x in enumerate(X):
    T = np.array([m.category_choice(x, w, m.params)[0] for w in m.W])
    if np.all(np.isnan(T)):
        continue
    best = int(np.nanargmax(T))  # oldest category of maximal (non-NaN) activation
    if pred[i] != best:
        bad.append(
            f"BayesianART row {i}: predict -> category {pred[i]} whose activation is "
            f"{T[pred[i]]}; category {best} has activation {T[best]} "
            f"(fit labelled the row {m.labels_[i]})"
        )

# the same through a label map
y = np.arange(n) % 4
s = SimpleARTMAP(BayesianART(rho=7e-5, cov_init=1e-4 * np.eye(d)))
s.fit(X, y)
ps = s.predict(X)
a = s.module_a
for i, x in enumerate(X):
    T = np.array([a.category_choice(x, w, a.params)[0] for w in a.W])
    if np.all(np.isnan(T)):
        continue
    best = int(np.nanargmax(T))
    if ps[i] != s.map[best]:
        bad.append(
            f"SimpleARTMAP(BayesianART) row {i}: predict -> label {ps[i]}, the category of "
            f"maximal activation ({best}, T={T[best]}) maps to label {s.map[best]}"
        )

if bad:
    print("C08 VIOLATED: predict answers a NaN-activation category (np.argmax vs NaN)")
    for b in bad[:8]:
        print("  ", b)
    print(f"   ... {len(bad)} offending rows in total; predict(X) = {pred.tolist()}")
    sys.exit(1)
print("ok")
sys.exit(0)

"""C08 violation (minor, state only): TopoART.predict alters the estimator when the
TopoART module was trained through a wrapper.

TopoART.validate_data only forwards to its base module, so a TopoART trained as
module_a of SimpleARTMAP / ARTMAP / DeepARTMAP, or as a channel of FusionART,
never gets its own `dim_`.  BaseART.predict calls self.check_dimensions(X),
which for TopoART is BaseART.check_dimensions and CREATES the attribute:
vars(estimator) differ before and after predict (and the wrapper's state with
it).  The predictions themselves are unaffected.

Clause broken: "predict never alters the model".

usage: python repro_5.py <library root>
"""
import sys
import io
import contextlib
import warnings

sys.path.insert(0, sys.argv[1] if len(sys.argv) > 1 else ".")
warnings.filterwarnings("ignore")
import numpy as np
from artlib import TopoART, HypersphereART, SimpleARTMAP, DeepARTMAP, FusionART

rng = np.random.default_rng(0)
X = rng.random((12, 2))
y = rng.integers(0, 2, 12)
bad = []


def topo():
    # tau larger than the number of samples: no pruning is involved at all
    return TopoART(HypersphereART(0.7, 0.01, 1.0, 1.2), 0.3, 1000, 1)


cases = []
t = topo(); SimpleARTMAP(t).fit(X, y); cases.append(("SimpleARTMAP(TopoART).module_a", t, X))
t = topo(); DeepARTMAP([t]).fit([X], y); cases.append(("DeepARTMAP([TopoART]).modules[0]", t, X))
t = topo(); FusionART([t, HypersphereART(0.7, 0.01, 1.0, 1.2)], [0.5, 0.5], [2, 2]).fit(np.hstack([X, X])); cases.append(("FusionART([TopoART, ..]).modules[0]", t, X))

for tag, t, Q in cases:
    before = set(vars(t))
    with contextlib.redirect_stdout(io.StringIO()):
        t.predict(Q)
    added = set(vars(t)) - before
    if added:
        bad.append(f"{tag}.predict(X) added attribute(s) {sorted(added)} to the estimator")

if bad:
    print("C08 VIOLATED: predict alters the estimator state")
    for b in bad:
        print("  ", b)
    sys.exit(1)
print("ok")
sys.exit(0)

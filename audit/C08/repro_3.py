"""C08 repro 3: SimpleARTMAP / ARTMAP / DeepARTMAP with a TopoART module_a: when TopoART's
pruning leaves no category, TopoART.step_pred returns -1 and the supervised wrappers
look -1 up in their label map -> KeyError(-1) from predict.
usage: python repro_3.py <library root>"""
import sys, warnings, io, contextlib
sys.path.insert(0, sys.argv[1])
warnings.simplefilter("ignore")
import numpy as np
from artlib import FuzzyART, TopoART, SimpleARTMAP, ARTMAP, DeepARTMAP, compliment_code

def topo():
    return TopoART(FuzzyART(rho=0.95, alpha=1e-3, beta=1.0), beta_lower=0.5, tau=4, phi=2)

X = compliment_code(np.array([[0.1], [0.4], [0.6], [0.9]]))
y = np.array([0, 1, 0, 1])
bad = []
with contextlib.redirect_stdout(io.StringIO()):      # TopoART.prune prints debug output
    s = SimpleARTMAP(topo()); s.fit(X, y)            # fit succeeds
    a = ARTMAP(topo(), FuzzyART(rho=0.95, alpha=1e-3, beta=1.0)); a.fit(X, X)
    d = DeepARTMAP([topo()]); d.fit([X], y)
for name, est in (("SimpleARTMAP(TopoART)", s), ("ARTMAP(TopoART, FuzzyART)", a),
                  ("DeepARTMAP([TopoART]) supervised", d)):
    for qn, Q in (("training rows", X), ("single row", X[:1])):
        try:
            est.predict(Q)
        except Exception as e:                       # noqa
            bad.append("%s.predict(%s) raised %s(%s)" % (name, qn, type(e).__name__, e))
if bad:
    print("VIOLATION: predict raises on valid input for models produced by fit")
    print("  categories left in SimpleARTMAP's TopoART: %d, label map: %r" % (len(s.module_a.W), s.map))
    for b in bad:
        print("  " + b)
    sys.exit(1)
print("ok")
sys.exit(0)

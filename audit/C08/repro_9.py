"""C08 (borderline - depends on whether non-integer class labels are valid input):
SimpleARTMAP / DeepARTMAP accept class labels that are not Python-int-like at
training time, but predict forces every label through an int64 result array.

  * string labels: fit() succeeds (classes_ = ['a' 'b' 'c'], map values are the
    strings), predict raises ValueError("invalid literal for int()").
  * float labels 0.5 / 1.5 given to partial_fit (fit() would reject them through
    sklearn's unique_labels, partial_fit does not): predict silently truncates
    them to 0 / 1 - labels that were never trained ("no prediction is ever a
    label outside the trained range").
  * DeepARTMAP.predict has the same conversion in BaseARTMAP.map_a2b (dtype=int).

usage: python repro_4.py <library root>
"""
import sys
import warnings

sys.path.insert(0, sys.argv[1] if len(sys.argv) > 1 else ".")
warnings.filterwarnings("ignore")
import numpy as np
from artlib import SimpleARTMAP, DeepARTMAP, HypersphereART

rng = np.random.default_rng(0)
X = rng.random((12, 2))
bad = []


def mod():
    return HypersphereART(0.9, 0.01, 1.0, 1.2)


ys = np.array(list("abc" * 4))
m = SimpleARTMAP(mod()).fit(X, ys)
try:
    p = m.predict(X)
    if not set(p.tolist()) <= set(ys.tolist()):
        bad.append(f"string labels: predict -> {p[:4]} not among trained labels")
except Exception as e:
    bad.append(f"string labels accepted by fit (classes_={m.classes_}), predict raised {type(e).__name__}: {e}")

yf = np.array([0.5, 1.5] * 6)
# (adapted when registered as a probe: a clean rejection of float labels - as fit does - is not the violation)
try:
    m = SimpleARTMAP(mod()).partial_fit(X, yf)
    p = m.predict(X)
    if not set(p.tolist()) <= set(yf.tolist()):
        bad.append(f"float labels {sorted(set(yf.tolist()))} accepted by partial_fit, predict -> {sorted(set(p.tolist()))} (never trained)")
except ValueError:
    pass
try:
    d = DeepARTMAP([mod(), mod()]).partial_fit([X, X], yf)
    p = d.predict(X)[0]
    if not set(p.tolist()) <= set(yf.tolist()):
        bad.append(f"DeepARTMAP: float labels {sorted(set(yf.tolist()))}, predict top level -> {sorted(set(p.tolist()))}")
except ValueError:
    pass

if bad:
    print("C08 (borderline) VIOLATED: labels forced through int")
    for b in bad:
        print("  ", b)
    sys.exit(1)
print("ok")
sys.exit(0)

"""C08 repro 1: FuzzyART(alpha=0.0).predict raises ZeroDivisionError on every valid row
once a category's weight has become the all-zero vector (box = whole unit cube).
usage: python repro_1.py <library root>"""
import sys, warnings
sys.path.insert(0, sys.argv[1])
warnings.simplefilter("ignore")
import numpy as np
from artlib import FuzzyART, SimpleARTMAP

# rho = 0.0 and alpha = 0.0 are both accepted by FuzzyART.validate_params
m = FuzzyART(rho=0.0, alpha=0.0, beta=1.0)
raw = np.array([[0.0, 0.0], [1.0, 1.0]])          # already normalised: min 0 / max 1 per column
X = m.prepare_data(raw)                           # complement coded, valid for validate_data
m.fit(X)                                          # succeeds: one category, w = min(x0, x1) = 0
assert len(m.W) == 1

bad = []
for name, Q in (("training rows", X), ("single row", X[:1]),
                ("fresh row", m.prepare_data(np.array([[0.3, 0.6]])))):
    try:
        m.predict(Q)
    except Exception as e:                        # noqa
        bad.append("FuzzyART.predict(%s) raised %s: %s" % (name, type(e).__name__, e))

# same root through a compound estimator
s = SimpleARTMAP(FuzzyART(rho=0.0, alpha=0.0, beta=1.0))
s.fit(X, np.array([0, 0]))
try:
    s.predict(X)
except Exception as e:                            # noqa
    bad.append("SimpleARTMAP(FuzzyART).predict raised %s: %s" % (type(e).__name__, e))

if bad:
    print("VIOLATION: predict raises on valid input for a model produced by fit")
    print("  weights:", m.W)
    for b in bad:
        print("  " + b)
    sys.exit(1)
print("ok: no exception")
sys.exit(0)

"""C08 repro 2: EllipsoidART(alpha=0.0): a category whose radius reaches r_hat/2 has
activation 0/0 = NaN; predict's np.argmax prefers the NaN category to a category of
activation 1.0 (the largest value the activation can take).
usage: python repro_2.py <library root>"""
import sys, warnings
sys.path.insert(0, sys.argv[1])
warnings.simplefilter("ignore")
import numpy as np
from artlib import EllipsoidART

m = EllipsoidART(rho=0.0, alpha=0.0, beta=1.0, mu=1.0, r_hat=1.0)   # all accepted by validate_params
X = np.array([[0.0], [1.0], [0.75]])
m.fit(X)
# category 0: centroid 0.5, radius 0.5 (= r_hat/2)  -> denominator r_hat - 2*radius + alpha == 0
# category 1: founded by the row 0.75 (fit could not use category 0: nanargmax skips NaN)
assert list(m.labels_) == [0, 0, 1], m.labels_

q = X[2:3]                                   # the training row that founded category 1
T = [float(m.category_choice(q[0], w, m.params)[0]) for w in m.W]
pred = int(m.predict(q)[0])
finite = [(t, j) for j, t in enumerate(T) if not np.isnan(t)]
best = max(finite)[1] if finite else None    # arg-max over the well-defined activations
# oldest category of maximal activation
oldest_max = min(j for t, j in finite if t == max(finite)[0]) if finite else None

problems = []
if any(np.isnan(T)):
    problems.append("activations for row %r are %r (NaN present)" % (q[0].tolist(), T))
if oldest_max is not None and pred != oldest_max:
    problems.append("predict returned category %d (activation %r) but category %d has the maximal "
                    "activation %r; fit labelled the same row %d"
                    % (pred, T[pred], oldest_max, T[oldest_max], int(m.labels_[2])))

# --- same defect in HypersphereART(alpha=0.0): radius converges to r_hat in ~55 fast-learning steps
from artlib import HypersphereART
h = HypersphereART(rho=0.0, alpha=0.0, beta=1.0, r_hat=0.5)
rows, c, r = [0.0], 0.0, 0.0
for _ in range(80):                           # each row lies at distance r_hat from the current centroid
    x = c + 0.5
    rows.append(x)
    c, r = c + 0.5 * (x - c) * (1 - min(r, 0.5) / 0.5), r + 0.5 * (0.5 - r)
    if r == 0.5:
        break
rows.append(0.3)                              # founds category 1 (category 0 is NaN for every row)
Xh = np.array(rows).reshape(-1, 1)
h.fit(Xh)
qh = Xh[-1:]
Th = [float(h.category_choice(qh[0], w, h.params)[0]) for w in h.W]
ph = int(h.predict(qh)[0])
if len(h.W) == 2 and np.isnan(Th[0]) and ph != 1:
    problems.append("HypersphereART: activations %r for row 0.3, predict returned %d, fit labelled it %d"
                    % (Th, ph, int(h.labels_[-1])))

if problems:
    print("VIOLATION: prediction is not the oldest category of maximal activation")
    for p in problems:
        print("  " + p)
    sys.exit(1)
print("ok")
sys.exit(0)

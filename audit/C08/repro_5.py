"""C08 repro 5 (lower confidence - depends on whether non-integer class labels count as
valid training input): SimpleARTMAP stores any class label in its map but predict writes
into an int array: string labels make predict raise, float labels are truncated to
values that were never trained.
usage: python repro_5.py <library root>"""
import sys, warnings
sys.path.insert(0, sys.argv[1])
warnings.simplefilter("ignore")
import numpy as np
from artlib import FuzzyART, SimpleARTMAP, compliment_code

X = compliment_code(np.array([[0.1], [0.9]]))
bad = []
# (a) string class labels: accepted by fit (classes_ = ['a', 'b']), predict raises
m = SimpleARTMAP(FuzzyART(rho=0.9, alpha=1e-3, beta=1.0))
m.fit(X, np.array(["a", "b"]))
try:
    p = m.predict(X)
    if list(p) != ["a", "b"]:
        bad.append("string labels: predict returned %r, trained labels %r" % (p, list(m.classes_)))
except Exception as e:                               # noqa
    bad.append("string labels: fit accepted classes_=%r, predict raised %s: %s"
               % (list(m.classes_), type(e).__name__, e))
# (b) float class labels through partial_fit: predictions outside the trained label set
m = SimpleARTMAP(FuzzyART(rho=0.9, alpha=1e-3, beta=1.0))
y = np.array([0.5, 1.5])
m.partial_fit(X, y)
p = m.predict(X)
if not set(p.tolist()) <= set(y.tolist()):
    bad.append("float labels: trained labels %r, map %r, predictions %r (never trained)"
               % (y.tolist(), m.map, p.tolist()))
if bad:
    print("VIOLATION: prediction outside the trained label range / exception")
    for b in bad:
        print("  " + b)
    sys.exit(1)
print("ok")
sys.exit(0)

"""Exceptions on valid input at boundary hyper-parameters accepted by validation:
 (a) FuzzyART(alpha=0.0, rho=0.0): once a box covers the whole unit cube (w = 0) the choice
     function divides 0.0/0.0 (Python floats) -> ZeroDivisionError;
 (b) ART1(L=1.0, rho=0.0): a template that is ANDed down to all-zero makes
     L/(L-1+|w|) = 1/0 -> ZeroDivisionError;
 (c) ART1 with an all-zero input row (accepted by validate_data) -> |i| = 0 in the match
     criterion -> ZeroDivisionError."""
import sys
sys.path.insert(0, sys.argv[1])
import numpy as np
from artlib import FuzzyART, ART1
from artlib.common.utils import compliment_code

bad = []
try:
    FuzzyART(rho=0.0, alpha=0.0, beta=1.0).fit(compliment_code(np.array([[0.0], [1.0], [0.5]])))
except ZeroDivisionError as e:
    bad.append(f"(a) FuzzyART(rho=0.0, alpha=0.0).fit raised {e!r}")
try:
    ART1(rho=0.0, L=1.0).fit(np.array([[1, 0], [0, 1], [1, 1]]))
except ZeroDivisionError as e:
    bad.append(f"(b) ART1(rho=0.0, L=1.0).fit raised {e!r}")
try:
    ART1(rho=0.5, L=2.0).fit(np.array([[1, 0, 1], [0, 0, 0], [1, 1, 0]]))
except ZeroDivisionError as e:
    bad.append(f"(c) ART1(rho=0.5, L=2.0).fit with an all-zero row raised {e!r}")
if bad:
    print("VIOLATION (exception on valid input):")
    for b in bad: print("  -", b)
    sys.exit(1)
print("no violation"); sys.exit(0)

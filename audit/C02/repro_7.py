"""A FusionART channel that is itself a FusionART: plain fit works, but as soon as match
tracking fires (ARTMAP A side / fit(match_reset_func=...)) FusionART._match_tracking reads
cache[i]["match_criterion_bin"], which the inner FusionART's match_criterion_bin never
stores -> KeyError in the middle of step_fit (and the inner modules' rho would not be
restored by _set_params, which only restores the outer level)."""
import sys
sys.path.insert(0, sys.argv[1])
import numpy as np
from artlib import FuzzyART, FusionART, SimpleARTMAP
from artlib.common.utils import compliment_code

rng = np.random.default_rng(0)
A, B, C = (compliment_code(rng.random((40, 2))) for _ in range(3))
y = rng.integers(0, 3, 40)
def build():
    f1, f2, f3 = (FuzzyART(0.5, 1e-3, 1.0) for _ in range(3))
    inner = FusionART([f1, f2], [0.5, 0.5], [4, 4])
    return FusionART([inner, f3], [0.5, 0.5], [8, 4]), (f1, f2, f3)
X = np.hstack([A, B, C])
outer, _ = build()
outer.fit(X)          # unsupervised nested fit is fine
outer, mods = build()
try:
    SimpleARTMAP(outer).fit(X, y)
except KeyError as e:
    print(f"VIOLATION (exception on valid nested estimator): SimpleARTMAP(FusionART([FusionART, FuzzyART])).fit "
          f"raised KeyError({e}); rho of the modules afterwards: {[m.params['rho'] for m in mods]}")
    sys.exit(1)
print("no violation"); sys.exit(0)

"""ROUNDING-LEVEL ONLY.  With slow learning (beta < 1) FuzzyART.update computes
b*min(x,w) + (1-b)*w.  When min(x,w)_j == w_j the result can round to one ulp ABOVE w_j,
so a Fuzzy weight 'increases' and a sample lying exactly on the box face (e.g. the member
that defined that face) is no longer enclosed under an exact comparison."""
import sys
sys.path.insert(0, sys.argv[1])
import numpy as np
from artlib import FuzzyART
from artlib.common.utils import compliment_code

rng = np.random.default_rng(1)
X = compliment_code(rng.random((200, 2)))
m = FuzzyART(rho=0.1, alpha=1e-3, beta=0.1)
prev = None; inc = 0; expelled = 0; worst = 0.0
enclosed = set()
for i, x in enumerate(X):
    m.partial_fit(x[None])
    W = [w.copy() for w in m.W]
    if prev:
        for a, b in zip(prev, W):
            if np.any(b > a):
                inc += 1; worst = max(worst, float((b - a).max()))
    for (c, j) in list(enclosed):
        if not np.all(X[j] >= W[c]):
            expelled += 1; enclosed.discard((c, j))
    for c, w in enumerate(W):
        for j in range(i + 1):
            if np.all(X[j] >= w):
                enclosed.add((c, j))
    prev = W
if inc or expelled:
    print(f"ROUNDING-LEVEL VIOLATION: {inc} weight increases (max {worst:.2e}), "
          f"{expelled} (category, sample) pairs once enclosed and later not enclosed (exact comparison)")
    sys.exit(1)
print("no violation"); sys.exit(0)

"""FuzzyART.validate_data accepts rows whose L1 norm differs from d by up to 0.01
("complement coded" only approximately).  A new category is created as a copy of the
sample without any vigilance test, so for rho close to 1 the committed category has
|w| < rho*d although the data set and the parameters are accepted."""
import sys
sys.path.insert(0, sys.argv[1])
import numpy as np
from artlib import FuzzyART

bad = []
for rho in (1.0, 0.999):
    X = np.array([[0.3, 0.6, 0.695, 0.4], [0.3, 0.6, 0.695, 0.396]])   # |x| = 1.995, 1.991 ; d = 2
    m = FuzzyART(rho=rho, alpha=1e-3, beta=1.0).fit(X)
    for c, w in enumerate(m.W):
        if w.sum() < rho * 2 - 1e-9:
            bad.append(f"FuzzyART(rho={rho}): category {c} |w|={w.sum():.4f} < rho*d={rho*2:.4f}")
if bad:
    print("VIOLATION (C02 Fuzzy |w| >= rho*d on data accepted by validate_data):")
    for b in bad: print("  -", b)
    sys.exit(1)
print("no violation"); sys.exit(0)

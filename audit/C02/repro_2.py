"""TopoART accepts a NEGATIVE beta_lower (validation only asks beta >= beta_lower, float).
The second-winner update then moves the base-module weight AWAY from the sample:
Fuzzy weights increase (boxes shrink, enclosed samples are expelled, components leave [0,1]),
hypersphere / ellipsoid radii decrease."""
import sys, io, contextlib
sys.path.insert(0, sys.argv[1])
import numpy as np
from artlib import FuzzyART, HypersphereART, EllipsoidART, TopoART
from artlib.common.utils import compliment_code

bad = []
rng = np.random.default_rng(0)
Xr = rng.random((60, 2))

def stream(topo, base, X, kind):
    prev = None
    enclosed = []           # (category, sample) pairs seen inside a Fuzzy box
    for i, x in enumerate(X):
        with contextlib.redirect_stdout(io.StringIO()):
            topo.partial_fit(x[None])
        W = [w.copy() for w in base.W]
        if prev is not None:
            for c, (a, b) in enumerate(zip(prev, W)):
                if kind == "fuzzy" and np.any(b > a + 1e-12):
                    return f"step {i}: Fuzzy weight of category {c} increased {a} -> {b}"
                if kind != "fuzzy" and b[-1] < a[-1] - 1e-12:
                    return f"step {i}: radius of category {c} decreased {a[-1]:.4f} -> {b[-1]:.4f}"
        prev = W
    return None

# accepted by validation:
base = FuzzyART(rho=0.3, alpha=1e-3, beta=1.0)
topo = TopoART(base, beta_lower=-0.5, tau=1000, phi=1)
r = stream(topo, base, compliment_code(Xr), "fuzzy")
if r: bad.append("TopoART(FuzzyART, beta_lower=-0.5): " + r)

# expelled member: after the whole stream, a fast-learning (beta=1) first-winner member lies outside its box
base = FuzzyART(rho=0.3, alpha=1e-3, beta=1.0)
topo = TopoART(base, beta_lower=-0.5, tau=1000, phi=1)
Xc = compliment_code(Xr)
with contextlib.redirect_stdout(io.StringIO()):
    for x in Xc:
        topo.partial_fit(x[None])
lab = topo.labels_
for c, w in enumerate(base.W):
    mem = Xc[lab == c]
    if len(mem) and np.any(mem < w - 1e-9):
        bad.append(f"TopoART(FuzzyART, beta_lower=-0.5): category {c} no longer encloses "
                   f"its own members (w={w}, max over [0,1] bound: {w.max():.3f})")
        break

base = HypersphereART(rho=0.7, alpha=1e-3, beta=1.0, r_hat=1.5)
topo = TopoART(base, beta_lower=-0.5, tau=1000, phi=1)
r = stream(topo, base, Xr, "hs")
if r: bad.append("TopoART(HypersphereART, beta_lower=-0.5): " + r)

base = EllipsoidART(rho=0.3, alpha=1e-3, beta=1.0, mu=0.8, r_hat=1.5)
topo = TopoART(base, beta_lower=-0.5, tau=1000, phi=1)
r = stream(topo, base, Xr, "ell")
if r: bad.append("TopoART(EllipsoidART, beta_lower=-0.5): " + r)

if bad:
    print("VIOLATION (C02 monotonicity, TopoART base module):")
    for b in bad: print("  -", b)
    sys.exit(1)
print("no violation"); sys.exit(0)

"""Match tracking 'MT-' with epsilon > 0 (equivalently 'MT+' with a negative epsilon; no
validation of epsilon) sets rho = M - epsilon, which can fall BELOW the configured
vigilance.  The next category in the search is then accepted although it fails the
configured vigilance, so the A-side / channel category exceeds the size bound."""
import sys
sys.path.insert(0, sys.argv[1])
import numpy as np, warnings
warnings.filterwarnings("ignore")
from artlib import (FuzzyART, HypersphereART, EllipsoidART, BayesianART, ART1,
                    SimpleARTMAP, ARTMAP, FusionART)
from artlib.common.utils import compliment_code

bad = []
# deterministic 1-D Fuzzy example: rho = 0.75
rho = 0.75
# sample 0 (class 0) -> category 0 = point 0.0 ; sample 0.4 (class 1) -> category 1 ;
# sample 0.1 (class 1): category 0 wins (M=0.9 >= rho) but is vetoed -> rho := 0.9-0.3 = 0.6,
# category 1 has M = 0.7 < 0.75 and is nevertheless accepted.
X = compliment_code(np.array([[0.0], [0.4], [0.1]]))
y = np.array([0, 1, 1])
for mt, eps in [("MT-", 0.3), ("MT+", -0.3)]:
    a = FuzzyART(rho=rho, alpha=1e-3, beta=1.0)
    SimpleARTMAP(a).fit(X, y, match_tracking=mt, epsilon=eps)
    for c, w in enumerate(a.W):
        if w.sum() < rho - 1e-9:
            bad.append(f"SimpleARTMAP(FuzzyART rho={rho}).fit({mt}, epsilon={eps}): category {c} "
                       f"|w|={w.sum():.3f} < rho*d={rho}")

rng = np.random.default_rng(0)
Xr = rng.random((40, 2)); yr = rng.integers(0, 3, 40)
h = HypersphereART(rho=0.7, alpha=1e-3, beta=1.0, r_hat=1.0)
SimpleARTMAP(h).fit(Xr, yr, match_tracking="MT-", epsilon=0.2)
r = max(w[-1] for w in h.W)
if r > 0.3 + 1e-9:
    bad.append(f"SimpleARTMAP(HypersphereART rho=0.7, r_hat=1).fit(MT-, 0.2): radius {r:.3f} > 0.3")
e = EllipsoidART(rho=0.7, alpha=1e-3, beta=1.0, mu=0.8, r_hat=1.0)
SimpleARTMAP(e).fit(Xr, yr, match_tracking="MT-", epsilon=0.2)
r = max(w[-1] for w in e.W)
if r > 0.15 + 1e-9:
    bad.append(f"SimpleARTMAP(EllipsoidART rho=0.7, r_hat=1).fit(MT-, 0.2): radius {r:.3f} > 0.15")
b = BayesianART(rho=2e-4, cov_init=0.01 * np.eye(2))
SimpleARTMAP(b).fit(Xr, yr, match_tracking="MT-", epsilon=2e-4)
dets = [np.linalg.det(w[2:-1].reshape(2, 2)) for w in b.W if w[-1] > 1]
if dets and max(dets) > 2e-4 * (1 + 1e-6):
    bad.append(f"SimpleARTMAP(BayesianART rho=2e-4).fit(MT-, 2e-4): det(cov)={max(dets):.2e} > rho")
# ARTMAP A side and a FusionART channel
fa = FuzzyART(rho=0.7, alpha=1e-3, beta=1.0)
ARTMAP(fa, HypersphereART(0.9, 1e-3, 1.0, 1.0)).fit(compliment_code(Xr), rng.random((40, 1)),
                                                     match_tracking="MT-", epsilon=0.2)
m = min(w.sum() for w in fa.W)
if m < 0.7 * 2 - 1e-9:
    bad.append(f"ARTMAP A side FuzzyART rho=0.7 (MT-, 0.2): |w|={m:.3f} < 1.4")
f1 = FuzzyART(rho=0.7, alpha=1e-3, beta=1.0); f2 = FuzzyART(rho=0.7, alpha=1e-3, beta=1.0)
fu = FusionART([f1, f2], [0.5, 0.5], [4, 4])
SimpleARTMAP(fu).fit(np.hstack([compliment_code(Xr), compliment_code(rng.random((40, 2)))]), yr,
                     match_tracking="MT-", epsilon=0.2)
m = min(min(w.sum() for w in f.W) for f in (f1, f2))
if m < 0.7 * 2 - 1e-9:
    bad.append(f"FusionART channel FuzzyART rho=0.7 under SimpleARTMAP (MT-, 0.2): |w|={m:.3f} < 1.4")

if bad:
    print("VIOLATION (C02 size bound under MT- / negative epsilon):")
    for x in bad: print("  -", x)
    sys.exit(1)
print("no violation"); sys.exit(0)

"""DualVigilanceART._match_tracking moves rho as if the base module had the usual
'M >= rho' vigilance test.  BayesianART's test is inverted (det(cov) <= rho; its own
_match_tracking flips the signs), so under DualVigilanceART the ordinary MT+ with a
positive epsilon LOOSENS the vigilance: a Bayesian category is then accepted with
det(cov) > rho.  The bare BayesianART on the same history respects the bound."""
import sys
sys.path.insert(0, sys.argv[1])
import numpy as np, warnings
warnings.filterwarnings("ignore")
from artlib import BayesianART, DualVigilanceART, SimpleARTMAP

rho, eps = 2e-4, 2e-4
worst = None
for seed in range(60):
    rng = np.random.default_rng(seed)
    X = rng.random((40, 2)); y = rng.integers(0, 3, 40)
    base = BayesianART(rho=rho, cov_init=0.01 * np.eye(2))
    SimpleARTMAP(DualVigilanceART(base, rho_lower_bound=1e-5)).fit(
        X, y, match_tracking="MT+", epsilon=eps)
    dets = [np.linalg.det(w[2:-1].reshape(2, 2)) for w in base.W if w[-1] > 1]
    bare = BayesianART(rho=rho, cov_init=0.01 * np.eye(2))
    SimpleARTMAP(bare).fit(X, y, match_tracking="MT+", epsilon=eps)
    dets_bare = [np.linalg.det(w[2:-1].reshape(2, 2)) for w in bare.W if w[-1] > 1]
    assert not dets_bare or max(dets_bare) <= rho * (1 + 1e-9), "bare module violates too"
    if dets and max(dets) > rho * (1 + 1e-6):
        worst = (seed, max(dets))
        break
if worst:
    print(f"VIOLATION (C02 Bayesian det(cov) <= rho, DualVigilanceART base module): "
          f"seed {worst[0]}: multi-member category with det(cov)={worst[1]:.3e} > rho={rho:.1e} "
          f"after SimpleARTMAP(DualVigilanceART(BayesianART)).fit(match_tracking='MT+', epsilon={eps})")
    sys.exit(1)
print("no violation"); sys.exit(0)

"""TopoART match tracking LOWERS the base module's vigilance when a category that
already FAILS the vigilance test is vetoed by match_reset_func (default MT+).
A later category is then accepted although it fails the configured vigilance:
Fuzzy |w| < rho*d, hypersphere radius > r_hat*(1-rho)."""
import sys, io, contextlib
sys.path.insert(0, sys.argv[1])
import numpy as np
from artlib import FuzzyART, HypersphereART, TopoART, SimpleARTMAP
from artlib.common.utils import compliment_code

bad = []

# ---- Fuzzy base, through SimpleARTMAP (default MT+, default epsilon) ----
rho, d = 0.75, 1
X = compliment_code(np.array([[0.0], [0.2], [0.9], [0.5]]))
y = np.array([0, 0, 1, 1])
base = FuzzyART(rho=rho, alpha=1e-3, beta=1.0)
topo = TopoART(base, beta_lower=0.5, tau=1000, phi=1)
with contextlib.redirect_stdout(io.StringIO()):
    SimpleARTMAP(topo).fit(X, y)
for c, w in enumerate(base.W):
    if w.sum() < rho * d - 1e-9:
        bad.append(f"SimpleARTMAP(TopoART(FuzzyART rho={rho})): category {c} has "
                   f"|w|={w.sum():.4f} < rho*d={rho*d:.4f}  (w={w})")
if base.params["rho"] != rho:
    bad.append(f"base rho not restored: {base.params['rho']}")

# the bare module on the same call history respects the bound
bare = FuzzyART(rho=rho, alpha=1e-3, beta=1.0)
SimpleARTMAP(bare).fit(X, y)
assert all(w.sum() >= rho * d - 1e-9 for w in bare.W)

# ---- same through TopoART.fit(match_reset_func=...) directly ----
base2 = FuzzyART(rho=rho, alpha=1e-3, beta=1.0)
topo2 = TopoART(base2, beta_lower=0.5, tau=1000, phi=1)
def reset(i, w, c, params, cache):
    # veto category 0 for the samples of class 1
    cur = int(np.argmin(np.abs(X[:, 0] - i[0])))
    return not (c == 0 and y[cur] == 1)
with contextlib.redirect_stdout(io.StringIO()):
    topo2.fit(X, match_reset_func=reset)
for c, w in enumerate(base2.W):
    if w.sum() < rho * d - 1e-9:
        bad.append(f"TopoART.fit(match_reset_func): category {c} |w|={w.sum():.4f} < {rho*d:.4f}")

# ---- Hypersphere base ----
rho_h, r_hat = 0.75, 1.0
rng = np.random.default_rng(0)
for trial in range(200):
    Xh = rng.random((30, 2)); yh = rng.integers(0, 3, 30)
    hb = HypersphereART(rho=rho_h, alpha=1e-3, beta=1.0, r_hat=r_hat)
    th = TopoART(hb, beta_lower=0.5, tau=1000, phi=1)
    with contextlib.redirect_stdout(io.StringIO()):
        SimpleARTMAP(th).fit(Xh, yh)
    rmax = max(w[-1] for w in hb.W)
    if rmax > r_hat * (1 - rho_h) + 1e-9:
        bad.append(f"SimpleARTMAP(TopoART(HypersphereART rho={rho_h})), seed-trial {trial}: "
                   f"radius {rmax:.4f} > r_hat(1-rho)={r_hat*(1-rho_h):.4f}")
        break

if bad:
    print("VIOLATION (C02 size bound, TopoART base module):")
    for b in bad:
        print("  -", b)
    sys.exit(1)
print("no violation")
sys.exit(0)

"""C17 repro 4: BaseART subclasses that BARTMAP accepts as modules but can never fit with.

 - CVIART as the row module: BARTMAP drives module_a through step_fit, which CVIART leaves as
   `raise NotImplementedError`.
 - FusionART on either side: BARTMAP calls module.prepare_data(X) with one matrix, FusionART's
   prepare_data expects a list of channel matrices -> IndexError.
"""
import sys, os, io, contextlib, warnings

sys.path.insert(0, sys.argv[1])
sys.path.insert(1, os.path.dirname(os.path.abspath(__file__)))
warnings.filterwarnings("ignore")
import numpy as np
from artlib import BARTMAP, FuzzyART, CVIART, FusionART
from _common import check

rng = np.random.default_rng(0)
n = 8
X = rng.random((n, n))


def fz(rho):
    return FuzzyART(rho, 1e-3, 1.0)


def fusion(rho):
    # two channels of 4 columns each (8 after complement coding)
    return FusionART([fz(rho), fz(rho)], [0.5, 0.5], [8, 8])


with contextlib.redirect_stdout(io.StringIO()):
    cases = {
        "CVIART row module": lambda: BARTMAP(CVIART(fz(0.5), CVIART.CALINSKIHARABASZ), fz(0.0), eta=-1.0),
        "FusionART row module": lambda: BARTMAP(fusion(0.5), fz(0.0), eta=-1.0),
        "FusionART column module": lambda: BARTMAP(fz(0.5), fusion(0.0), eta=-1.0),
    }
    ctrl = BARTMAP(fz(0.5), fz(0.0), eta=-1.0).fit(X)
assert not check(ctrl, X)

bad = []
for tag, mk in cases.items():
    try:
        with contextlib.redirect_stdout(io.StringIO()):
            b = mk()
            b.fit(X)
        v = check(b, X)
        if v:
            bad.append(f"{tag}: {v}")
    except Exception as e:  # noqa
        bad.append(f"{tag}: BARTMAP.fit raised {type(e).__name__}: {e}")

if bad:
    print("C17 violated: accepted module pairs on which BARTMAP.fit always raises")
    for line in bad:
        print("  " + line)
    sys.exit(1)
print("ok")
sys.exit(0)

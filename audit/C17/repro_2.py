"""C17 repro 2: re-fitting a BARTMAP on a second matrix re-uses the normalisation
bounds (d_min_/d_max_) that module_a / module_b learned from the FIRST matrix.

 (a) second matrix with a wider value range  -> AssertionError('Data has not been normalized')
 (b) second matrix with a narrower range      -> fit succeeds, but the column clustering is NOT
     what the column module alone produces on the transposed matrix (and differs from a
     first-time fit of an identically configured BARTMAP on the same matrix)
 (c) second matrix of another (square) shape  -> exception
"""
import sys, os, io, contextlib, warnings

sys.path.insert(0, sys.argv[1])
sys.path.insert(1, os.path.dirname(os.path.abspath(__file__)))
warnings.filterwarnings("ignore")
import numpy as np
from artlib import BARTMAP, FuzzyART
from _common import check


def quiet_fit(b, X):
    with contextlib.redirect_stdout(io.StringIO()):
        b.fit(X)
    return b


def new():
    return BARTMAP(FuzzyART(0.5, 1e-3, 1.0), FuzzyART(0.5, 1e-3, 1.0), eta=-1.0)


rng = np.random.default_rng(0)
n = 8
X1 = rng.random((n, n))
for i in range(n):  # every row and column of X1 spans exactly [0, 1]
    X1[i, i] = 0.0
    X1[i, (i + 1) % n] = 1.0
X_wide = 3.0 * rng.random((n, n))
X_narrow = 0.3 + 0.4 * rng.random((n, n))
X_small = rng.random((6, 6))

bad = []

# (a)
b = quiet_fit(new(), X1)
try:
    quiet_fit(b, X_wide)
    v = check(b, X_wide)
    if v:
        bad.append(f"(a) re-fit on wider-range matrix: {v}")
except Exception as e:  # noqa
    bad.append(f"(a) re-fit on a wider-range matrix raised {type(e).__name__}: {e}")
try:
    quiet_fit(new(), X_wide)  # control: a fresh estimator accepts it
except Exception as e:  # noqa
    print("unexpected: fresh estimator also fails on X_wide", repr(e))

# (b)
b = quiet_fit(new(), X1)
quiet_fit(b, X_narrow)
alone = FuzzyART(0.5, 1e-3, 1.0)
alone.fit(alone.prepare_data(X_narrow.T))
fresh = quiet_fit(new(), X_narrow)
if not np.array_equal(b.column_labels_, alone.labels_):
    bad.append(
        "(b) after a re-fit the column clustering differs from the column module alone on X.T: "
        f"BARTMAP {b.column_labels_.tolist()} vs alone {alone.labels_.tolist()}"
    )
if not (
    np.array_equal(b.column_labels_, fresh.column_labels_)
    and np.array_equal(b.row_labels_, fresh.row_labels_)
):
    bad.append(
        "(b) re-fit result differs from a first-time fit of an identical BARTMAP on the same matrix: "
        f"rows {b.row_labels_.tolist()} vs {fresh.row_labels_.tolist()}, "
        f"cols {b.column_labels_.tolist()} vs {fresh.column_labels_.tolist()}"
    )
v = check(b, X_narrow)
if v:
    bad.append(f"(b) {v}")

# (c)
b = quiet_fit(new(), X1)
try:
    quiet_fit(b, X_small)
except Exception as e:  # noqa
    bad.append(f"(c) re-fit on a 6x6 matrix after an 8x8 one raised {type(e).__name__}: {str(e)[:100]}")

if bad:
    print("C17 violated on re-fit (stale normalisation bounds / dim_ kept from the first fit)")
    for line in bad:
        print("  " + line)
    sys.exit(1)
print("ok")
sys.exit(0)

"""Shared checker for the C17 repro scripts (imported after sys.path is set)."""
import numpy as np


def check(b, X):
    """Return the list of C17 clauses violated by the fitted BARTMAP b on X."""
    n, m = X.shape
    out = []
    rl = np.asarray(b.row_labels_)
    cl = np.asarray(b.column_labels_)
    nr, nc = b.n_row_clusters, b.n_column_clusters
    if b.rows_.shape != (nr * nc, n):
        out.append(f"rows_ shape {b.rows_.shape} != {(nr * nc, n)}")
    if b.columns_.shape != (nr * nc, m):
        out.append(f"columns_ shape {b.columns_.shape} != {(nr * nc, m)}")
    if not out:
        cover = np.zeros((n, m), dtype=int)
        for r, c in zip(b.rows_, b.columns_):
            cover += np.outer(r, c).astype(int)
        if not np.all(cover == 1):
            bad = np.argwhere(cover != 1)
            out.append(
                f"{len(bad)} cells are not in exactly one bicluster "
                f"(e.g. cell {tuple(int(t) for t in bad[0])} is in {int(cover[tuple(bad[0])])})"
            )
        for i in range(nr * nc):
            ra, cb = divmod(i, nc)
            if not np.array_equal(b.rows_[i], rl == ra):
                out.append(f"rows_[{i}] disagrees with row_labels_ == {ra}")
                break
            if not np.array_equal(b.columns_[i], cl == cb):
                out.append(f"columns_[{i}] disagrees with column_labels_ == {cb}")
                break
    return out

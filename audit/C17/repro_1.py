"""C17 repro 1: a finite matrix with a constant column (or a constant row) makes
BARTMAP.fit raise AssertionError('Data has not been normalized').

BARTMAP.fit normalises internally (module_a.prepare_data(X), module_b.prepare_data(X.T));
normalize() divides by (max - min) per feature, which is 0/0 = NaN for a constant
feature, and validate_data then rejects the NaNs.  The caller cannot avoid it.
"""
import sys, os, io, contextlib, warnings

sys.path.insert(0, sys.argv[1])
sys.path.insert(1, os.path.dirname(os.path.abspath(__file__)))
warnings.filterwarnings("ignore")
import numpy as np
from artlib import BARTMAP, FuzzyART, HypersphereART
from _common import check


def fit(X, mk):
    b = BARTMAP(mk(0.5), mk(0.0), eta=-1.0)  # column module rho=0: one cluster of all columns
    with contextlib.redirect_stdout(io.StringIO()):
        b.fit(X)
    return b


base = np.array(
    [[1.0, 5.0, 2.0, 7.0], [6.0, 3.0, 8.0, 4.0], [2.0, 9.0, 6.0, 1.0], [7.0, 4.0, 3.0, 8.0]]
)
const_col = base.copy()
const_col[:, 0] = 1.0  # column 0 constant
const_row = base.copy()
const_row[2, :] = 4.0  # row 2 constant

makers = {
    "FuzzyART": lambda rho: FuzzyART(rho, 1e-3, 1.0),
    "HypersphereART": lambda rho: HypersphereART(rho, 1e-3, 1.0, 2.0),
}
bad = []
for name, mk in makers.items():
    # control: the unmodified matrix fits and satisfies the property
    b = fit(base, mk)
    v = check(b, base)
    if v:
        print(f"[{name}] unexpected: control matrix violates the property: {v}")
    for tag, X in [("constant column", const_col), ("constant row", const_row)]:
        try:
            b = fit(X, mk)
            v = check(b, X)
            if v:
                bad.append(f"[{name}] {tag}: fit succeeded but {v}")
        except Exception as e:  # noqa
            bad.append(f"[{name}] {tag}: BARTMAP.fit raised {type(e).__name__}: {e}")

if bad:
    print("C17 violated: BARTMAP.fit fails on a finite square matrix with a constant row/column")
    for line in bad:
        print("  " + line)
    sys.exit(1)
print("ok")
sys.exit(0)

"""C17 repro 5 (column-side twin of the already known row-side TopoART finding):
a pruning TopoART as the COLUMN module.

 (a) tau=5, phi=3: pruning empties the module after column 5; columns 0-4 keep label -1 and belong
     to no bicluster -> the checkerboard does not cover the matrix.
 (b) tau=8 (= number of columns), phi=2, rho=0.9: every category is pruned at the last column,
     n_column_clusters == 0 and BARTMAP.fit raises ValueError('need at least one array to concatenate').
"""
import sys, os, io, contextlib, warnings

sys.path.insert(0, sys.argv[1])
sys.path.insert(1, os.path.dirname(os.path.abspath(__file__)))
warnings.filterwarnings("ignore")
import numpy as np
from artlib import BARTMAP, FuzzyART, TopoART
from _common import check

rng = np.random.default_rng(0)
n = 8
X = rng.random((n, n))

bad = []
for tag, rho_b, tau, phi in [("(a)", 0.5, 5, 3), ("(b)", 0.9, 8, 2)]:
    b = BARTMAP(FuzzyART(1.0, 1e-3, 1.0), TopoART(FuzzyART(rho_b, 1e-3, 1.0), 0.5, tau, phi), eta=-1.0)
    try:
        with contextlib.redirect_stdout(io.StringIO()):
            b.fit(X)
        v = check(b, X)
        if v:
            bad.append(f"{tag} column_labels_ {b.column_labels_.tolist()}: {v}")
    except Exception as e:  # noqa
        bad.append(f"{tag} BARTMAP.fit raised {type(e).__name__}: {e}")

if bad:
    print("C17 violated with a pruning TopoART column module")
    for line in bad:
        print("  " + line)
    sys.exit(1)
print("ok")
sys.exit(0)

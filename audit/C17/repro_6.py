"""C17 violated for module pairs that contain a FusionART: BARTMAP.fit raises IndexError.

FusionART is a BaseART (BARTMAP's constructor documents "instantiated BaseART modules"), but
its prepare_data expects a LIST of channel arrays while BARTMAP.fit calls
module.prepare_data(X) / module.prepare_data(X.T) with the matrix itself.  The matrix is then
taken for a list of channels (its first ROW becomes channel 0, ...) and fit dies with
IndexError('tuple index out of range') - as row module, as column module, with one channel
spanning all features or with several channels.  No FusionART configuration can be used in
BARTMAP, and the failure is not a clean rejection (no type/shape check, no message about the
unsupported module).
"""
import sys
import warnings

sys.path.insert(0, sys.argv[1])
warnings.filterwarnings("ignore")
import numpy as np  # noqa: E402
from artlib import BARTMAP, FuzzyART, FusionART  # noqa: E402


def problems(cls, X):
    n, m = X.shape
    ra, cb = cls.n_row_clusters, cls.n_column_clusters
    if cls.rows_.shape != (ra * cb, n) or cls.columns_.shape != (ra * cb, m):
        return [f"rows_/columns_ shapes {cls.rows_.shape} {cls.columns_.shape}"]
    cover = sum(np.outer(r, c).astype(int) for r, c in zip(cls.rows_, cls.columns_))
    out = [] if np.all(cover == 1) else ["cells not covered exactly once"]
    for i in range(ra):
        for j in range(cb):
            k = i * cb + j
            if not (
                np.array_equal(cls.rows_[k], cls.row_labels_ == i)
                and np.array_equal(cls.columns_[k], cls.column_labels_ == j)
            ):
                out.append(f"bicluster {k} disagrees with the labels")
    return out


def fz():
    return FuzzyART(0.3, 0.01, 1.0)


def fusion_two():  # two channels of 3 features each (6 complement-coded columns per channel)
    return FusionART([fz(), fz()], [0.5, 0.5], [6, 6])


def fusion_one():  # one channel spanning all 6 features
    return FusionART([fz()], [1.0], [12])


rng = np.random.default_rng(0)
X = np.kron(np.array([[0.0, 1.0], [1.0, 0.0]]), np.ones((3, 3))) + 0.3 * rng.random((6, 6))
assert not problems(BARTMAP(fz(), fz(), -1.0).fit(X), X)  # plain FuzzyART pair is fine

bad = []
for name, a, b in [
    ("row module = FusionART(2 channels)", fusion_two, fz),
    ("column module = FusionART(2 channels)", fz, fusion_two),
    ("row module = FusionART(1 channel)", fusion_one, fz),
    ("column module = FusionART(1 channel)", fz, fusion_one),
]:
    try:
        cls = BARTMAP(a(), b(), -1.0).fit(X)
        p = problems(cls, X)
        if p:
            bad.append(f"{name}: {p}")
    except (TypeError, NotImplementedError) as e:
        if not str(e):
            bad.append(f"{name}: {type(e).__name__} without a message")
        # an explicit refusal of the module type counts as a clean rejection
    except Exception as e:  # noqa: BLE001
        bad.append(f"{name}: fit raised {type(e).__name__}: {e}")

if bad:
    print("VIOLATION: a FusionART module cannot be biclustered with")
    for b in bad:
        print("  -", b)
    sys.exit(1)
print("ok")
sys.exit(0)

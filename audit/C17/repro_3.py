"""C17 repro 3: DualVigilanceART as the column module.

BARTMAP.match_reset_func iterates `range(len(self.module_b.W))` as if it were the range of
column-cluster labels.  For DualVigilanceART len(W) is the number of BASE categories, which is
larger than n_clusters as soon as two categories are merged, so BARTMAP asks for the columns of a
cluster label that does not exist and raises ValueError('X_a has length 0') - on a square matrix
whose only column cluster holds all 4 columns (no singleton, no empty cluster).
"""
import sys, os, io, contextlib, warnings

sys.path.insert(0, sys.argv[1])
sys.path.insert(1, os.path.dirname(os.path.abspath(__file__)))
warnings.filterwarnings("ignore")
import numpy as np
from artlib import BARTMAP, FuzzyART, DualVigilanceART
from _common import check

X = np.array(
    [[1.0, 5.0, 2.0, 7.0], [6.0, 3.0, 8.0, 4.0], [2.0, 9.0, 6.0, 1.0], [7.0, 4.0, 3.0, 8.0]]
)

# what the column module alone produces
alone = DualVigilanceART(FuzzyART(0.8, 1e-3, 1.0), 0.1)
alone.fit(alone.prepare_data(X.T))
sizes = np.bincount(alone.labels_)
print(
    f"column module alone: labels {alone.labels_.tolist()}, cluster sizes {sizes.tolist()}, "
    f"n_clusters {alone.n_clusters}, len(W) {len(alone.W)}"
)
assert sizes.min() >= 2, "repro premise: no singleton / empty column cluster"

bad = []
for eta in (0.0, 0.9):
    # control: a FuzzyART column module producing the very same column partition works
    ctrl = BARTMAP(FuzzyART(0.0, 1e-3, 1.0), FuzzyART(0.0, 1e-3, 1.0), eta=eta)
    with contextlib.redirect_stdout(io.StringIO()):
        ctrl.fit(X)
    assert np.array_equal(ctrl.column_labels_, alone.labels_) and not check(ctrl, X)

    b = BARTMAP(FuzzyART(0.0, 1e-3, 1.0), DualVigilanceART(FuzzyART(0.8, 1e-3, 1.0), 0.1), eta=eta)
    try:
        with contextlib.redirect_stdout(io.StringIO()):
            b.fit(X)
        v = check(b, X)
        if v:
            bad.append(f"eta={eta}: {v}")
    except Exception as e:  # noqa
        bad.append(f"eta={eta}: BARTMAP.fit raised {type(e).__name__}: {e}")

if bad:
    print("C17 violated: BARTMAP with a DualVigilanceART column module fails on a valid matrix")
    for line in bad:
        print("  " + line)
    sys.exit(1)
print("ok")
sys.exit(0)

(* C17 - BARTMAP biclusters form a checkerboard partition of the data matrix.
   Statements only.  rows_ / columns_ are modelled from the labels the two
   modules produce (theories/Bartmap.v); the training of the modules is the
   BaseART machinery (C01 ff.).  The row veto of the code
   (BARTMAP._average_pearson_corr) fails on non-square matrices: known finding. *)
From Coq Require Import List Bool Arith.
From ART Require Import Num Vec Search Kernel BaseArt Bartmap Bartmap_fit.
Import ListNotations.

Theorem C17_shapes :
  forall ra cb nA nB,
    length (bm_rows ra nA nB) = nA * nB /\ length (bm_cols cb nA nB) = nA * nB /\
    Forall (fun r => length r = length ra) (bm_rows ra nA nB) /\
    Forall (fun c => length c = length cb) (bm_cols cb nA nB).
Proof. exact bm_shapes. Qed.

Theorem C17_every_cell_in_exactly_one_bicluster :
  forall ra cb nA nB i j k,
    i < length ra -> j < length cb -> nth i ra 0 < nA -> nth j cb 0 < nB -> k < nA * nB ->
    in_bicluster (bm_rows ra nA nB) (bm_cols cb nA nB) k i j = true <-> k = nth i ra 0 * nB + nth j cb 0.
Proof. exact bm_partition. Qed.
Theorem C17_that_bicluster_exists :
  forall ra cb nA nB i j,
    i < length ra -> j < length cb -> nth i ra 0 < nA -> nth j cb 0 < nB ->
    nth i ra 0 * nB + nth j cb 0 < nA * nB.
Proof. exact bm_cell_covered. Qed.
Theorem C17_membership_agrees_with_labels :
  forall ra cb nA nB k i j,
    i < length ra -> j < length cb -> k < nA * nB ->
    in_bicluster (bm_rows ra nA nB) (bm_cols cb nA nB) k i j
    = Nat.eqb (k / nB) (nth i ra 0) && Nat.eqb (k mod nB) (nth j cb 0).
Proof. exact bm_membership. Qed.
(* BARTMAP.fit as a whole (one epoch): the labels are what the two fits produce - no hypothesis on them; for every
   kernel pair, every row veto, every data set on which the call is defined *)
Theorem C17_fit_checkerboard :
  forall (N : Num) (Ka Kb : Kernel N) (vk : nat -> bool) (eps0 : N) sa sb Xa Xb r,
    bm_fit Ka Kb vk eps0 sa sb Xa Xb = Some r ->
    let nA := length (W (bm_a r)) in
    let nB := length (W (bm_b r)) in
    length (bm_rows_ r) = nA * nB /\ length (bm_cols_ r) = nA * nB /\
    Forall (fun row => length row = length Xa) (bm_rows_ r) /\
    Forall (fun col => length col = length Xb) (bm_cols_ r) /\
    length (labels (bm_a r)) = length Xa /\ length (labels (bm_b r)) = length Xb /\
    forall i j, i < length Xa -> j < length Xb ->
      let k0 := nth i (labels (bm_a r)) 0 * nB + nth j (labels (bm_b r)) 0 in
      k0 < nA * nB /\
      forall k, k < nA * nB -> (in_bicluster (bm_rows_ r) (bm_cols_ r) k i j = true <-> k = k0).
Proof. exact @bm_fit_checkerboard. Qed.
Theorem C17_fit_membership_agrees_with_labels :
  forall (N : Num) (Ka Kb : Kernel N) (vk : nat -> bool) (eps0 : N) sa sb Xa Xb r k i j,
    bm_fit Ka Kb vk eps0 sa sb Xa Xb = Some r ->
    i < length Xa -> j < length Xb -> k < length (W (bm_a r)) * length (W (bm_b r)) ->
    in_bicluster (bm_rows_ r) (bm_cols_ r) k i j
    = Nat.eqb (k / length (W (bm_b r))) (nth i (labels (bm_a r)) 0) && Nat.eqb (k mod length (W (bm_b r))) (nth j (labels (bm_b r)) 0).
Proof. exact @bm_fit_membership. Qed.
Theorem C17_column_clustering_is_the_column_module_alone :
  forall (N : Num) (Ka Kb : Kernel N) (vk : nat -> bool) (eps0 : N) sa sb Xa Xb r,
    bm_fit Ka Kb vk eps0 sa sb Xa Xb = Some r ->
    exists ls, fit Kb sb Xb (fun _ => None) MTplus eps0 = Some (bm_b r, ls).
Proof. exact @bm_fit_columns_alone. Qed.
Theorem C17_both_data_sets_validated_first :
  forall (N : Num) (Ka Kb : Kernel N) (vk : nat -> bool) (eps0 : N) sa sb Xa Xb r,
    bm_fit Ka Kb vk eps0 sa sb Xa Xb = Some r -> valid Ka sa Xa = true /\ valid Kb sb Xb = true.
Proof. exact @bm_fit_validates_first. Qed.
Print Assumptions C17_every_cell_in_exactly_one_bicluster.
Print Assumptions C17_fit_checkerboard.

Example C17_example :
  bm_rows [0; 1; 0] 2 2 = [[true; false; true]; [true; false; true]; [false; true; false]; [false; true; false]] /\
  bm_cols [1; 0] 2 2 = [[false; true]; [true; false]; [false; true]; [true; false]].
Proof. vm_compute. split; reflexivity. Qed.

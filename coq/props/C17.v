(* C17 - BARTMAP biclusters form a checkerboard partition of the data matrix.
   Statements only.  rows_ / columns_ are modelled from the labels the two
   modules produce (theories/Bartmap.v); the training of the modules is the
   BaseART machinery (C01 ff.).  The row veto of the code
   (BARTMAP._average_pearson_corr) fails on non-square matrices: known finding. *)
From Coq Require Import List Bool Arith.
From ART Require Import Bartmap.
Import ListNotations.

Theorem C17_shapes :
  forall ra cb nA nB,
    length (bm_rows ra nA nB) = nA * nB /\ length (bm_cols cb nA nB) = nA * nB /\
    Forall (fun r => length r = length ra) (bm_rows ra nA nB) /\
    Forall (fun c => length c = length cb) (bm_cols cb nA nB).
Proof. exact bm_shapes. Qed.

Theorem C17_every_cell_in_exactly_one_bicluster :
  forall ra cb nA nB i j k,
    i < length ra -> j < length cb -> nth i ra 0 < nA -> nth j cb 0 < nB -> k < nA * nB ->
    in_bicluster (bm_rows ra nA nB) (bm_cols cb nA nB) k i j = true <-> k = nth i ra 0 * nB + nth j cb 0.
Proof. exact bm_partition. Qed.
Theorem C17_that_bicluster_exists :
  forall ra cb nA nB i j,
    i < length ra -> j < length cb -> nth i ra 0 < nA -> nth j cb 0 < nB ->
    nth i ra 0 * nB + nth j cb 0 < nA * nB.
Proof. exact bm_cell_covered. Qed.
Theorem C17_membership_agrees_with_labels :
  forall ra cb nA nB k i j,
    i < length ra -> j < length cb -> k < nA * nB ->
    in_bicluster (bm_rows ra nA nB) (bm_cols cb nA nB) k i j
    = Nat.eqb (k / nB) (nth i ra 0) && Nat.eqb (k mod nB) (nth j cb 0).
Proof. exact bm_membership. Qed.
Print Assumptions C17_every_cell_in_exactly_one_bicluster.

Example C17_example :
  bm_rows [0; 1; 0] 2 2 = [[true; false; true]; [true; false; true]; [false; true; false]; [false; true; false]] /\
  bm_cols [1; 0] 2 2 = [[false; true]; [true; false]; [false; true]; [true; false]].
Proof. vm_compute. split; reflexivity. Qed.

(* C16 - FALCON acts greedily on its learned reward map; TD targets are bounded SARSA.
   Statements only.  FALCON.fit / partial_fit are FusionART.fit / partial_fit
   on the joined state|action|reward rows (checked by the FusionART
   correspondence on FALCON's own fusion_art); get_rewards is FusionART
   prediction with the reward channel withheld (C11). *)
From Coq Require Import List Bool Arith Reals.
From ART Require Import Num NumR Vec Search Kernel Fuzzy Falcon Falcon_R.
Import ListNotations.
Open Scope R_scope.

Theorem C16_sarsa_formula :
  forall alpha lambda (Q r : list R) t q0 q1 r0,
    nth_error Q t = Some q0 -> nth_error Q (S t) = Some q1 -> nth_error r t = Some r0 ->
    nth_error (@sarsa RN alpha lambda Q r) t = Some (@clip01 RN (q0 + alpha * (r0 + lambda * q1 - q0))).
Proof. exact sarsa_formula. Qed.
Theorem C16_sarsa_every_transition_but_the_last :
  forall alpha lambda (Q r : list R), length Q = length r -> length (@sarsa RN alpha lambda Q r) = pred (length Q).
Proof. exact sarsa_length. Qed.
Theorem C16_sarsa_in_range :
  forall alpha lambda (Q r : list R), Forall (fun t => 0 <= t <= 1) (@sarsa RN alpha lambda Q r).
Proof. exact sarsa_in_range. Qed.
Theorem C16_targets_are_valid_inputs :
  forall t : R, 0 <= t <= 1 -> @fuzzy_valid RN (@cc RN t) = true.
Proof. exact sarsa_target_valid. Qed.
Theorem C16_untrained_target_is_reward :
  forall r0 (rest : list R), 0 <= r0 <= 1 ->
    hd_error (@sarsa RN 1 1 (0 :: 0 :: map (fun _ => 0) rest) (r0 :: 0 :: rest)) = Some r0.
Proof. exact sarsa_untrained. Qed.
Theorem C16_greedy_action :
  forall (A : Type) (space : list A) (rewards : list R) a,
    @get_action RN A true space rewards = Some a ->
    exists i t, nth_error space i = Some a /\ nth_error rewards i = Some t /\
      (forall j b, nth_error rewards j = Some b -> b <= t) /\
      (forall j b, (j < i)%nat -> nth_error rewards j = Some b -> b < t).
Proof. exact @get_action_first_max. Qed.
Print Assumptions C16_sarsa_formula.
Print Assumptions C16_greedy_action.

From Coq Require Import QArith.
Open Scope Q_scope.
Example C16_example :
  @sarsa QN (1#2) (1#2) ([1#2; 1; 0] : list QN) ([1; 1#4; 3#4] : list QN) = ([1; 5#8] : list QN).
Proof. vm_compute. reflexivity. Qed.

(* C16 - FALCON acts greedily on its learned reward map; TD targets are bounded SARSA.
   Statements only.  FALCON.fit / partial_fit are FusionART.fit / partial_fit
   on the joined state|action|reward rows (checked by the FusionART
   correspondence on FALCON's own fusion_art); get_rewards is FusionART
   prediction with the reward channel withheld (C11). *)
From Coq Require Import List Bool Arith Reals.
From ART Require Import Num NumR Vec Search Kernel Fuzzy Falcon Falcon_R Falcon_ep.
Import ListNotations.
Open Scope R_scope.

Theorem C16_sarsa_formula :
  forall alpha lambda (Q r : list R) t q0 q1 r0,
    nth_error Q t = Some q0 -> nth_error Q (S t) = Some q1 -> nth_error r t = Some r0 ->
    nth_error (@sarsa RN alpha lambda Q r) t = Some (@clip01 RN (q0 + alpha * (r0 + lambda * q1 - q0))).
Proof. exact sarsa_formula. Qed.
Theorem C16_sarsa_every_transition_but_the_last :
  forall alpha lambda (Q r : list R), length Q = length r -> length (@sarsa RN alpha lambda Q r) = pred (length Q).
Proof. exact sarsa_length. Qed.
Theorem C16_sarsa_in_range :
  forall alpha lambda (Q r : list R), Forall (fun t => 0 <= t <= 1) (@sarsa RN alpha lambda Q r).
Proof. exact sarsa_in_range. Qed.
Theorem C16_targets_are_valid_inputs :
  forall t : R, 0 <= t <= 1 -> @fuzzy_valid RN (@cc RN t) = true.
Proof. exact sarsa_target_valid. Qed.
Theorem C16_untrained_target_is_reward :
  forall r0 (rest : list R), 0 <= r0 <= 1 ->
    hd_error (@sarsa RN 1 1 (0 :: 0 :: map (fun _ => 0) rest) (r0 :: 0 :: rest)) = Some r0.
Proof. exact sarsa_untrained. Qed.
Theorem C16_greedy_action :
  forall (A : Type) (space : list A) (rewards : list R) a,
    @get_action RN A true space rewards = Some a ->
    exists i t, nth_error space i = Some a /\ nth_error rewards i = Some t /\
      (forall j b, nth_error rewards j = Some b -> b <= t) /\
      (forall j b, (j < i)%nat -> nth_error rewards j = Some b -> b < t).
Proof. exact @get_action_first_max. Qed.
(* whole calculate_SARSA calls, episodes of every length >= 1 *)
Theorem C16_one_target_per_kept_row :
  forall alpha lambda (Q : list R) (rew : list (list R)) single,
    length Q = length rew -> (1 <= length rew)%nat ->
    fst (@calc_sarsa RN alpha lambda Q rew single) = length (snd (@calc_sarsa RN alpha lambda Q rew single)).
Proof. exact calc_sarsa_counts. Qed.
Theorem C16_every_target_is_a_valid_input :
  forall alpha lambda (Q : list R) (rew : list (list R)) single,
    Forall (fun row => @fuzzy_valid RN row = true) rew ->
    (forall r, single = Some r -> 0 <= r <= 1) ->
    Forall (fun row => @fuzzy_valid RN row = true) (snd (@calc_sarsa RN alpha lambda Q rew single)).
Proof. exact calc_sarsa_valid. Qed.
Theorem C16_one_step_episode_trains_on_its_reward :
  forall alpha lambda (Q : list R) (row : list R), @calc_sarsa RN alpha lambda Q [row] None = (1%nat, [row]).
Proof. exact calc_sarsa_single. Qed.
Theorem C16_untrained_target_for_every_alpha :
  forall alpha lambda (Q r : list R) t r0,
    Forall (fun q => q = 0) Q -> (S t < length Q)%nat -> nth_error r t = Some r0 ->
    nth_error (@sarsa RN alpha lambda Q r) t = Some (@clip01 RN (alpha * r0)).
Proof. exact sarsa_untrained_gen. Qed.
Theorem C16_greedy_action_minimal_on_request :
  forall (A : Type) (space : list A) (rewards : list R) a,
    @get_action RN A false space rewards = Some a ->
    exists i t, nth_error space i = Some a /\ nth_error rewards i = Some t /\
      (forall j b, nth_error rewards j = Some b -> t <= b) /\
      (forall j b, (j < i)%nat -> nth_error rewards j = Some b -> t < b).
Proof. exact @get_action_first_min. Qed.
Print Assumptions C16_sarsa_formula.
Print Assumptions C16_every_target_is_a_valid_input.
Print Assumptions C16_greedy_action_minimal_on_request.
Print Assumptions C16_greedy_action.

From Coq Require Import QArith.
Open Scope Q_scope.
Example C16_example :
  @sarsa QN (1#2) (1#2) ([1#2; 1; 0] : list QN) ([1; 1#4; 3#4] : list QN) = ([1; 5#8] : list QN).
Proof. vm_compute. reflexivity. Qed.

(* the edges of the TD parameters: lambda = 0 still starts from the current estimate (and that differs from the
   "untrained" short-cut clip(alpha r) whenever the estimate is positive and alpha < 1); alpha = 0 keeps the estimate *)
From ART Require Import Falcon_edge.
Theorem C16_target_without_bootstrapping :
  forall alpha (Q r : list R) t q0 q1 r0,
    nth_error Q t = Some q0 -> nth_error Q (S t) = Some q1 -> nth_error r t = Some r0 ->
    nth_error (@sarsa RN alpha 0 Q r) t = Some (@clip01 RN (q0 + alpha * (r0 - q0))).
Proof. exact sarsa_without_bootstrapping. Qed.
Theorem C16_untrained_shortcut_is_not_the_target :
  forall alpha (q0 r0 : R), 0 <= alpha < 1 -> 0 < q0 <= 1 -> 0 <= r0 <= 1 ->
    @clip01 RN (q0 + alpha * (r0 - q0)) <> @clip01 RN (alpha * r0).
Proof. exact shortcut_differs. Qed.
Theorem C16_target_with_alpha_zero :
  forall lambda (Q r : list R) t q0 q1 r0,
    nth_error Q t = Some q0 -> nth_error Q (S t) = Some q1 -> nth_error r t = Some r0 ->
    nth_error (@sarsa RN 0 lambda Q r) t = Some (@clip01 RN q0).
Proof. exact sarsa_alpha_zero. Qed.
Print Assumptions C16_target_without_bootstrapping.
Print Assumptions C16_untrained_shortcut_is_not_the_target.
Print Assumptions C16_target_with_alpha_zero.

(* C13 - dual vigilance: upper threshold refines categories, lower threshold
   groups them.  Statements only; model in theories/DualVig.v. *)
From Coq Require Import List Bool Arith.
From ART Require Import Num Vec Search Kernel BaseArt SimpleARTMAP DualVig DualVig_proofs Fuzzy.
Import ListNotations.

(* the while loop = a scan of the categories in the visiting order *)
Theorem C13_search_is_scan :
  forall (N : Num) (K : Kernel N) Ms mode eps lb veto fuel v T,
    dv_search K Ms mode eps lb veto fuel v T = dv_scan K Ms mode eps lb veto (order nleb fuel T) v.
Proof. exact @dv_search_eq_scan. Qed.

(* the three-way decision *)
Theorem C13_decision :
  forall (N : Num) (K : Kernel N) Ms mode eps lb veto l v,
    match fst (fst (dv_scan K Ms mode eps lb veto l v)) with
    | Absorb c => In c l /\ veto c = true /\ exists v', mbin Ms mode (k_inv K) v' c = true
    | Split c => In c l /\ veto c = true /\ mbin Ms mode (k_inv K) lb c = true /\
                 exists v', mbin Ms mode (k_inv K) v' c = false
    | Fresh => True
    end.
Proof. exact @dv_scan_decides. Qed.

(* one step keeps the map total on the base categories, its values contiguous,
   returns a cluster label of the map, never re-labels an existing category,
   restores the vigilance *)
Theorem C13_step :
  forall (N : Num) (K : Kernel N) s x veto mode eps lb s' l vl,
    DInv s -> dv_step K s x veto mode eps lb = Some (s', l, vl) ->
    DInv s' /\ In l (map snd (dmap s')) /\
    (forall c b, lookup (dmap s) c = Some b -> W (DB s) <> [] -> lookup (dmap s') c = Some b) /\
    rho (DB s') = rho (DB s) /\ dsc s' = S (dsc s).
Proof. exact @dv_step_inv. Qed.

Theorem C13_values_are_0_to_nclusters :
  forall (N : Num) (s : dv (N:=N)), DInv s -> W (DB s) <> [] ->
    dv_n_clusters s = S (maxval (dmap s)) /\ (forall l, In l (map snd (dmap s)) <-> l < dv_n_clusters s).
Proof. exact @dv_values_contiguous. Qed.
Theorem C13_map_total :
  forall (N : Num) (s : dv (N:=N)) c, DInv s -> c < length (W (DB s)) -> exists l, lookup (dmap s) c = Some l.
Proof. exact @dv_map_total. Qed.
Print Assumptions C13_step.
Print Assumptions C13_values_are_0_to_nclusters.

(* non-vacuity: a sample passing only the lower threshold spawns a new category in the same cluster *)
From Coq Require Import QArith.
Open Scope Q_scope.
Example C13_example :
  let K := @fuzzyK QN (1#1024) 1 in
  let s := @mkDv QN (@mkSt QN [[1#2; 1#2]] [0%nat] [1%nat] 0%nat [7#8] true (Some 2%nat)) [(0, 0)]%nat 1%nat in
  option_map (fun r => (snd (fst r), dmap (fst (fst r))))
    (dv_step K s ([1#4; 3#4] : list QN) None MTplus (0 : QN) (1#4 : QN))
  = Some (0%nat, [(0, 0); (1, 0)]%nat).
Proof. vm_compute. reflexivity. Qed.

(* ------------------------------------------------------------------ *)
From Coq Require Import Reals.
From ART Require Import NumR Bounds_R DualVig_bound.
Local Close Scope R_scope.

(* last clause: each underlying category still obeys the base module's upper-vigilance bound.  Under every mode whose
   match tracking never lowers the vigilance, an absorbing category passed a vigilance >= the configured one ... *)
Theorem C13_absorbing_category_passed_rho :
  forall (K : Kernel RN), k_inv K = [false] ->
  forall (Ms : list (list (option RN))) mode eps lb veto, raising mode eps ->
  forall l (v : list RN), length v = 1%nat ->
    match fst (fst (dv_scan K Ms mode eps lb veto l v)) with
    | Absorb c => exists v', length v' = 1%nat /\ vig_le v v' /\ mbin Ms mode (k_inv K) v' c = true
    | _ => True
    end.
Proof. exact dv_scan_absorb_vig. Qed.
(* ... hence, with Fuzzy ART as the base module, |w| >= rho d for every base category after every step *)
Theorem C13_fuzzy_base_categories_obey_the_upper_bound :
  forall (alpha beta : R), (0 <= beta <= 1)%R ->
  forall (s : dv (N:=RN)) x veto mode eps lb s' l vl rho0 d,
    raising mode eps -> rho (DB s) = [rho0] -> (rho0 <= 1)%R -> (0 < d)%R ->
    @dim_original RN x = d -> Forall (fun a => (0 <= a)%R) x -> @vsum RN x = d ->
    Forall (fz_ok rho0 d (length x)) (W (DB s)) ->
    dv_step (@fuzzyK RN alpha beta) s x veto mode eps lb = Some (s', l, vl) ->
    Forall (fz_ok rho0 d (length x)) (W (DB s')).
Proof. exact dv_fuzzy_step_bound. Qed.
Print Assumptions C13_absorbing_category_passed_rho.
Print Assumptions C13_fuzzy_base_categories_obey_the_upper_bound.

(* ... and, generically in the base module (Wrap_bound.v), after every whole fit call: Fuzzy ART |w| >= rho d,
   Hypersphere ART radius <= r_hat (1 - rho), Ellipsoid ART radius <= r_hat (1 - rho) / 2 *)
From ART Require Import Topo_bound Wrap_bound Hyper Hyper_total Ellip_total.
Theorem C13_fit_fuzzy_base_categories_obey_the_upper_bound :
  forall (alpha beta rho0 d : R) (n : nat), (0 <= beta <= 1)%R -> (rho0 <= 1)%R -> (0 < d)%R ->
  forall (s : dv (N:=RN)) X veto mode eps lb s' ls,
    raising mode eps -> rho (DB s) = [rho0] -> Forall (cc_ok d n) X ->
    dv_fit (@fuzzyK RN alpha beta) s X veto mode eps lb = Some (s', ls) ->
    Forall (fz_ok rho0 d n) (W (DB s')) /\ rho (DB s') = [rho0].
Proof. exact dv_fuzzy_fit_bound. Qed.
Theorem C13_fit_hypersphere_base_categories_obey_the_upper_bound :
  forall (alpha beta r_hat rho0 : R), (0 <= beta <= 1)%R -> (0 < r_hat)%R -> (rho0 <= 1)%R ->
  forall (s : dv (N:=RN)) X veto mode eps lb s' ls,
    raising mode eps -> rho (DB s) = [rho0] ->
    dv_fit (@hyperK RN alpha beta r_hat) s X veto mode eps lb = Some (s', ls) ->
    Forall (hs_ok r_hat rho0) (W (DB s')) /\ rho (DB s') = [rho0].
Proof. exact dv_hyper_fit_bound. Qed.
Theorem C13_fit_ellipsoid_base_categories_obey_the_upper_bound :
  forall (alpha beta mu r_hat rho0 : R), (0 <= beta <= 1)%R -> (0 < r_hat)%R -> (rho0 <= 1)%R ->
  forall (s : dv (N:=RN)) X veto mode eps lb s' ls,
    raising mode eps -> rho (DB s) = [rho0] ->
    dv_fit (@ellipK RN alpha beta mu r_hat) s X veto mode eps lb = Some (s', ls) ->
    Forall (el_ok r_hat rho0) (W (DB s')) /\ rho (DB s') = [rho0].
Proof. exact dv_ellipsoid_fit_bound. Qed.
Print Assumptions C13_fit_hypersphere_base_categories_obey_the_upper_bound.

(* the map invariant after every WHOLE call (keys = the existing base categories, values exactly 0..n_clusters-1,
   total look-ups: DInv), from every state the API can reach *)
From ART Require Import DualVig_total DualVig_reach.
Theorem C13_map_invariant_after_fit :
  forall (N : Num) (K : Kernel N) (s s' : dv (N:=N)) X veto mode eps lb ls,
    dv_fit K s X veto mode eps lb = Some (s', ls) -> X <> [] -> DInv s'.
Proof. exact @dv_fit_inv. Qed.
Theorem C13_map_invariant_after_partial_fit :
  forall (N : Num) (K : Kernel N) (s s' : dv (N:=N)) X veto mode eps lb ls,
    DOk s -> dv_partial_fit K s X veto mode eps lb = Some (s', ls) -> DOk s' /\ (X <> [] -> DInv s').
Proof. exact @dv_partial_fit_inv. Qed.
Print Assumptions C13_map_invariant_after_fit.

(* C06 - the result depends only on the hyper-parameters and the ordered
   sample stream.  Statements only. *)
From Coq Require Import List Bool Arith.
From ART Require Import Num Vec Search Kernel BaseArt BaseArt_proofs BaseArt_book BaseArt_hist Fuzzy.
Import ListNotations.

(* two consecutive partial_fit calls = one call on the concatenation: the
   whole state (weights, labels, counters, params) is identical *)
Theorem C06_partial_fit_app :
  forall (N : Num) (K : Kernel N) s X1 X2 veto v2 m eps s1 l1 s2 l2,
    (hasW s = false -> W s = []) -> X1 <> [] ->
    (forall k, v2 k = veto (length X1 + k)) ->
    partial_fit K s X1 veto m eps = Some (s1, l1) ->
    partial_fit K s1 X2 v2 m eps = Some (s2, l2) ->
    partial_fit K s (X1 ++ X2) veto m eps = Some (s2, l1 ++ l2).
Proof. exact @partial_fit_app. Qed.

(* any partition of the stream into non-empty batches, from a fresh
   estimator, gives exactly the state of one fit on the concatenation *)
Theorem C06_batches_eq_fit :
  forall (N : Num) (K : Kernel N) r Bs veto m eps s' ls,
    Bs <> [] -> Forall (fun B => B <> []) Bs ->
    pf_batches K (init r) Bs 0 veto m eps = Some (s', ls) ->
    fit K (init r) (concat Bs) veto m eps = Some (s', ls).
Proof. exact @batches_eq_fit. Qed.

(* fit on a used estimator = fit on a fresh one with the same hyper-parameters *)
Theorem C06_fit_forgets :
  forall (N : Num) (K : Kernel N) s X veto m eps,
    valid K s X = true -> valid K (init (rho s)) X = true ->
    match fit K s X veto m eps, fit K (init (rho s)) X veto m eps with
    | Some (a, la), Some (b, lb) => tr a = tr b /\ labels a = labels b /\ hasW a = hasW b /\ la = lb
    | None, None => True
    | _, _ => False
    end.
Proof. exact @fit_forgets. Qed.
Print Assumptions C06_partial_fit_app.
Print Assumptions C06_batches_eq_fit.
Print Assumptions C06_fit_forgets.

From Coq Require Import QArith.
Open Scope Q_scope.
Example C06_example :
  let K := @fuzzyK QN (1#1024) 1 in
  let X1 : list (list QN) := [[0; 1]; [1; 0]] in
  let X2 : list (list QN) := [[1#2; 1#2]; [0; 1]] in
  option_map (fun r => (W (fst r), labels (fst r)))
     (pf_batches K (@init QN [3#4]) [X1; X2] 0 (fun _ => None) MTplus (0 : QN))
  = option_map (fun r => (W (fst r), labels (fst r)))
     (fit K (@init QN [3#4]) (X1 ++ X2) (fun _ => None) MTplus (0 : QN))
  /\ pf_batches K (@init QN [3#4]) [X1; X2] 0 (fun _ => None) MTplus (0 : QN) <> None.
Proof. vm_compute. split; [reflexivity|discriminate]. Qed.

(* C06 - the result depends only on the hyper-parameters and the ordered
   sample stream.  Statements only. *)
From Coq Require Import List Bool Arith.
From ART Require Import Num Vec Search Kernel BaseArt BaseArt_proofs BaseArt_book BaseArt_hist Fuzzy.
Import ListNotations.

(* two consecutive partial_fit calls = one call on the concatenation: the
   whole state (weights, labels, counters, params) is identical *)
Theorem C06_partial_fit_app :
  forall (N : Num) (K : Kernel N) s X1 X2 veto v2 m eps s1 l1 s2 l2,
    (hasW s = false -> W s = []) -> X1 <> [] ->
    (forall k, v2 k = veto (length X1 + k)) ->
    partial_fit K s X1 veto m eps = Some (s1, l1) ->
    partial_fit K s1 X2 v2 m eps = Some (s2, l2) ->
    partial_fit K s (X1 ++ X2) veto m eps = Some (s2, l1 ++ l2).
Proof. exact @partial_fit_app. Qed.

(* any partition of the stream into non-empty batches, from a fresh
   estimator, gives exactly the state of one fit on the concatenation *)
Theorem C06_batches_eq_fit :
  forall (N : Num) (K : Kernel N) r Bs veto m eps s' ls,
    Bs <> [] -> Forall (fun B => B <> []) Bs ->
    pf_batches K (init r) Bs 0 veto m eps = Some (s', ls) ->
    fit K (init r) (concat Bs) veto m eps = Some (s', ls).
Proof. exact @batches_eq_fit. Qed.

(* fit on a used estimator = fit on a fresh one with the same hyper-parameters *)
Theorem C06_fit_forgets :
  forall (N : Num) (K : Kernel N) s X veto m eps,
    valid K s X = true -> valid K (init (rho s)) X = true ->
    match fit K s X veto m eps, fit K (init (rho s)) X veto m eps with
    | Some (a, la), Some (b, lb) => tr a = tr b /\ labels a = labels b /\ hasW a = hasW b /\ la = lb
    | None, None => True
    | _, _ => False
    end.
Proof. exact @fit_forgets. Qed.
Print Assumptions C06_partial_fit_app.
Print Assumptions C06_batches_eq_fit.
Print Assumptions C06_fit_forgets.

(* ---- SimpleARTMAP (and through it ARTMAP's A side and every layer of DeepARTMAP / SMART): two consecutive
        partial_fit calls equal one on the concatenation - the WHOLE state (A-side weights, counters, labels, the
        category-to-class map, the stored targets) - hence any partition of the stream into batches ---- *)
From ART Require Import SimpleARTMAP SAM_hist.
Theorem C06_simpleartmap_partial_fit_app :
  forall (N : Num) (K : Kernel N) (s s1 s2 : sam (N:=N)) X1 y1 X2 y2 m eps,
    hasL s = true -> length (labels (A s)) = length (bl s) ->
    sam_partial_fit K s X1 y1 m eps = Some s1 ->
    sam_partial_fit K s1 X2 y2 m eps = Some s2 ->
    sam_partial_fit K s (X1 ++ X2) (y1 ++ y2) m eps = Some s2.
Proof. exact @sam_partial_fit_app. Qed.
Theorem C06_simpleartmap_first_partial_fit_app :
  forall (N : Num) (K : Kernel N) (s s1 s2 : sam (N:=N)) X1 y1 X2 y2 m eps,
    hasL s = false ->
    sam_partial_fit K s X1 y1 m eps = Some s1 ->
    sam_partial_fit K s1 X2 y2 m eps = Some s2 ->
    sam_partial_fit K s (X1 ++ X2) (y1 ++ y2) m eps = Some s2.
Proof. exact @sam_partial_fit_app_first. Qed.
Theorem C06_simpleartmap_batches_eq_one_call :
  forall (N : Num) (K : Kernel N) Bs (s s' : sam (N:=N)) X y m eps, counted s ->
    sam_pf_seq K s ((X, y) :: Bs) m eps = Some s' ->
    sam_partial_fit K s (X ++ concat (map fst Bs)) (y ++ concat (map snd Bs)) m eps = Some s'.
Proof. exact @sam_batches_concat. Qed.
Theorem C06_simpleartmap_fit_eq_any_batching :
  forall (N : Num) (K : Kernel N) r Bs X y m eps (s' : sam (N:=N)),
    sam_pf_seq K (sam_init r) ((X, y) :: Bs) m eps = Some s' ->
    sam_fit K (sam_init r) (X ++ concat (map fst Bs)) (y ++ concat (map snd Bs)) 1 m eps = Some s'.
Proof. exact @sam_fit_eq_batches_fresh. Qed.
(* the layer chain of DeepARTMAP / SMART: layer i+1 is supervised by the last n A-side labels of layer i *)
From ART Require Import Deep Deep_hist.
Theorem C06_deep_chain_partial_fit_app :
  forall (N : Num) (Ks : list (Kernel N)) (ls ls1 ls2 : list (sam (N:=N))) Xs1 Xs2 y1 y2 n1 n2 m eps,
    Forall counted ls ->
    Forall (fun X => length X = n1) Xs1 -> Forall (fun X => length X = n2) Xs2 ->
    chain_partial_fit Ks ls Xs1 y1 n1 m eps = Some ls1 ->
    chain_partial_fit Ks ls1 Xs2 y2 n2 m eps = Some ls2 ->
    chain_partial_fit Ks ls (zipapp Xs1 Xs2) (y1 ++ y2) (n1 + n2) m eps = Some ls2.
Proof. exact @chain_partial_fit_app. Qed.
Theorem C06_artmap_partial_fit_app :
  forall (N : Num) (KA KB : Kernel N) (s s1 s2 : artmap (N:=N)) X1 Y1 X2 Y2 m eps,
    counted (SA s) -> (hasW (SB s) = false -> W (SB s) = []) ->
    length X1 = length Y1 -> length X2 = length Y2 -> Y1 <> [] ->
    artmap_partial_fit KA KB s X1 Y1 m eps = Some s1 ->
    artmap_partial_fit KA KB s1 X2 Y2 m eps = Some s2 ->
    artmap_partial_fit KA KB s (X1 ++ X2) (Y1 ++ Y2) m eps = Some s2.
Proof. exact @artmap_partial_fit_app. Qed.
Theorem C06_deep_chain_fit_eq_partial_fit_fresh :
  forall (N : Num) (Ks : list (Kernel N)) (rs : list (list N)) Xs y n m eps,
    Forall (fun X => length X = n) Xs ->
    chain_fit Ks (map sam_init rs) Xs y 1 m eps = chain_partial_fit Ks (map sam_init rs) Xs y n m eps.
Proof. exact @chain_fit_eq_partial_fit_fresh. Qed.
Theorem C06_deep_chain_two_batches_eq_fit :
  forall (N : Num) (Ks : list (Kernel N)) rs (ls1 ls2 : list (sam (N:=N))) Xs1 Xs2 y1 y2 n1 n2 m eps,
    Forall (fun X => length X = n1) Xs1 -> Forall (fun X => length X = n2) Xs2 ->
    chain_partial_fit Ks (map sam_init rs) Xs1 y1 n1 m eps = Some ls1 ->
    chain_partial_fit Ks ls1 Xs2 y2 n2 m eps = Some ls2 ->
    chain_fit Ks (map sam_init rs) (zipapp Xs1 Xs2) (y1 ++ y2) 1 m eps = Some ls2.
Proof. exact @chain_two_batches_eq_fit. Qed.
Print Assumptions C06_artmap_partial_fit_app.
Print Assumptions C06_deep_chain_two_batches_eq_fit.
Print Assumptions C06_deep_chain_partial_fit_app.
Print Assumptions C06_simpleartmap_batches_eq_one_call.
Print Assumptions C06_simpleartmap_fit_eq_any_batching.

From Coq Require Import QArith.
Open Scope Q_scope.
Example C06_example :
  let K := @fuzzyK QN (1#1024) 1 in
  let X1 : list (list QN) := [[0; 1]; [1; 0]] in
  let X2 : list (list QN) := [[1#2; 1#2]; [0; 1]] in
  option_map (fun r => (W (fst r), labels (fst r)))
     (pf_batches K (@init QN [3#4]) [X1; X2] 0 (fun _ => None) MTplus (0 : QN))
  = option_map (fun r => (W (fst r), labels (fst r)))
     (fit K (@init QN [3#4]) (X1 ++ X2) (fun _ => None) MTplus (0 : QN))
  /\ pf_batches K (@init QN [3#4]) [X1; X2] 0 (fun _ => None) MTplus (0 : QN) <> None.
Proof. vm_compute. split; [reflexivity|discriminate]. Qed.

Example C06_example_simpleartmap :
  let K := @fuzzyK QN (1#1024) 1 in
  let X1 : list (list QN) := [[0; 1]; [1; 0]] in
  let X2 : list (list QN) := [[1#2; 1#2]; [0; 1]] in
  sam_pf_seq K (@sam_init QN [3#4]) [(X1, [0; 1]%nat); (X2, [1; 0]%nat)] MTplus (0 : QN)
  = sam_partial_fit K (@sam_init QN [3#4]) (X1 ++ X2) [0; 1; 1; 0]%nat MTplus (0 : QN)
  /\ sam_pf_seq K (@sam_init QN [3#4]) [(X1, [0; 1]%nat); (X2, [1; 0]%nat)] MTplus (0 : QN) <> None.
Proof. vm_compute. split; [reflexivity|discriminate]. Qed.

(* DualVigilanceART: a fit of a model with a history = the fit of a freshly constructed one with the same vigilance -
   base categories, counters, the category-to-cluster map and the wrapper's counter of the earlier history are all gone
   (wave-7 seeds C05_7 / C19_7 kept the old map) *)
From ART Require Import DualVig DualVig_refit.
Theorem C06_dualvigilance_fit_forgets :
  forall (N : Num) (K : Kernel N) (s : dv (N:=N)) X veto mode eps lb,
    X <> [] -> valid K (DB s) X = true -> valid K (DB (dv_init (rho (DB s)))) X = true ->
    match dv_fit K s X veto mode eps lb, dv_fit K (dv_init (rho (DB s))) X veto mode eps lb with
    | Some (a, la), Some (b, lb') => same_model a b /\ la = lb'
    | None, None => True
    | _, _ => False
    end.
Proof. exact @dv_fit_forgets. Qed.
Print Assumptions C06_dualvigilance_fit_forgets.

(* the same for TopoART (adjacency and permanence flags are replaced by the first step) and for SimpleARTMAP (the A side,
   the map and the stored targets; any number of epochs): equality of the whole result *)
From ART Require Import Topo Topo_refit SimpleARTMAP SAM_refit.
Theorem C06_topoart_fit_forgets :
  forall (N : Num) (K Klow : Kernel N) (tau phi : nat) (s : topo (N:=N)) X veto mode eps,
    X <> [] -> valid K (TB s) X = true -> valid K (TB (topo_init (rho (TB s)))) X = true ->
    topo_fit K Klow tau phi s X veto mode eps = topo_fit K Klow tau phi (topo_init (rho (TB s))) X veto mode eps.
Proof. exact @topo_fit_forgets. Qed.
Theorem C06_simpleartmap_fit_forgets :
  forall (N : Num) (K : Kernel N) (s : sam (N:=N)) X y iters m eps,
    sam_valid K s X y = true -> sam_valid K (sam_init (rho (A s))) X y = true ->
    sam_fit K s X y iters m eps = sam_fit K (sam_init (rho (A s))) X y iters m eps.
Proof. exact @sam_fit_forgets. Qed.
Print Assumptions C06_topoart_fit_forgets.
Print Assumptions C06_simpleartmap_fit_forgets.

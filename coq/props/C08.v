(* C08 - prediction is a pure, row-wise arg-max of activation.  Statements only.
   Purity: [predict] is a function state -> labels (it returns no state), and
   the correspondence check compares the implementation's full snapshot before
   and after every predict call. *)
From Coq Require Import List Bool Arith.
From ART Require Import Num Vec Search Search_proofs Kernel BaseArt BaseArt_proofs BaseArt_hist Fuzzy.
Import ListNotations.

(* each row's label depends on that row and the model only (hence invariance
   under permutation, batching and repetition of rows) *)
Theorem C08_rowwise :
  forall (N : Num) (K : Kernel N) s X ys i x,
    predict K s X = Some ys -> nth_error X i = Some x ->
    exists y, nth_error ys i = Some y /\ step_pred K s x = Some y.
Proof. exact @predict_rowwise. Qed.

Theorem C08_batching :
  forall (N : Num) (K : Kernel N) s X1 X2 y1 y2,
    predict K s X1 = Some y1 -> predict K s X2 = Some y2 ->
    valid K s (X1 ++ X2) = true -> predict K s (X1 ++ X2) = Some (y1 ++ y2).
Proof. exact @predict_app. Qed.

(* the label is the oldest category of maximal activation and is in range *)
Theorem C08_first_argmax :
  forall (N : Num) (K : Kernel N),
    (forall a b : N, nleb a b = true \/ nleb b a = true) ->
    (forall a b c : N, nleb a b = true -> nleb b c = true -> nleb a c = true) ->
    forall s x c, step_pred K s x = Some c ->
    exists Ts t, omap (k_choice K (W s) x) (W s) = Some Ts /\ nth_error Ts c = Some t /\
      c < length (W s) /\
      (forall j b, nth_error Ts j = Some b -> nleb b t = true) /\
      (forall j b, j < c -> nth_error Ts j = Some b -> nleb t b = false).
Proof. exact @step_pred_first_argmax. Qed.
Print Assumptions C08_rowwise.
Print Assumptions C08_batching.
Print Assumptions C08_first_argmax.

(* ---- the label-map carrying estimators (DualVigilanceART, SimpleARTMAP; ARTMAP and every DeepARTMAP layer predict
        through SimpleARTMAP): row-wise, the map image of the base module's oldest arg-max, inside the trained range ---- *)
From ART Require Import SimpleARTMAP DualVig DualVig_proofs Wrap_pred.
Theorem C08_dualvigilance_prediction_is_map_of_argmax :
  forall (N : Num) (K : Kernel N) (s : dv (N:=N)) x l,
    dv_step_pred K s x = Some l -> exists c, step_pred K (DB s) x = Some c /\ lookup (dmap s) c = Some l.
Proof. exact @dv_step_pred_is_map_of_argmax. Qed.
Theorem C08_dualvigilance_prediction_in_trained_range :
  forall (N : Num) (K : Kernel N) (s : dv (N:=N)) x l,
    DInv s -> W (DB s) <> [] -> dv_step_pred K s x = Some l -> l < dv_n_clusters s.
Proof. exact @dv_step_pred_in_range. Qed.
Theorem C08_dualvigilance_rowwise :
  forall (N : Num) (K : Kernel N) (s : dv (N:=N)) X ys i x,
    dv_predict K s X = Some ys -> nth_error X i = Some x ->
    exists l, nth_error ys i = Some l /\ dv_step_pred K s x = Some l.
Proof. exact @dv_predict_rowwise. Qed.
Theorem C08_simpleartmap_prediction_is_map_of_argmax :
  forall (N : Num) (K : Kernel N) (s : sam (N:=N)) x ca cb,
    sam_step_pred K s x = Some (ca, cb) -> step_pred K (A s) x = Some ca /\ lookup (mp s) ca = Some cb.
Proof. exact @sam_step_pred_is_map_of_argmax. Qed.
Theorem C08_simpleartmap_rowwise :
  forall (N : Num) (K : Kernel N) (s : sam (N:=N)) X ys i x,
    sam_predict_ab K s X = Some ys -> nth_error X i = Some x ->
    exists p, nth_error ys i = Some p /\ sam_step_pred K s x = Some p.
Proof. exact @sam_predict_rowwise. Qed.
Print Assumptions C08_dualvigilance_prediction_in_trained_range.
Print Assumptions C08_simpleartmap_rowwise.

From Coq Require Import QArith.
Open Scope Q_scope.
Example C08_example_tie_to_oldest :
  let s := @mkSt QN [[1#2; 1#2]; [1#2; 1#2]; [0; 1]] [0; 1; 2]%nat [1; 1; 1]%nat 3%nat [1#4] true (Some 2%nat) in
  predict (@fuzzyK QN (1#1024) 1) s ([[1#2; 1#2]; [0; 1]] : list (list QN)) = Some [0; 2]%nat.
Proof. vm_compute. reflexivity. Qed.

(* C20 - VAT returns a Prim-ordered permutation of the dissimilarity matrix.
   Statements only; generic in the totally pre-ordered distance type. *)
From Coq Require Import List Bool Arith Permutation.
From ART Require Import Search VAT VAT_proofs VAT_prim.
Import ListNotations.

Theorem C20_permutation_and_start :
  forall (A : Type) (leb : A -> A -> bool),
    (forall a b, leb a b = true \/ leb b a = true) ->
    (forall a b c, leb a b = true -> leb b c = true -> leb a c = true) ->
    forall d0 D out, Forall (fun r => length r = length D) D ->
    vat_order A leb d0 D = Some out ->
    Permutation (seq 0 (length D)) out /\
    exists p, argmax leb (concat D) = Some p /\ hd_error out = Some (p / length D) /\
              (forall q, q < length D * length D -> leb (nth q (concat D) d0) (nth p (concat D) d0) = true) /\
              (forall q, q < p -> leb (nth p (concat D) d0) (nth q (concat D) d0) = false).
Proof. exact vat_is_permutation. Qed.

Theorem C20_next_is_closest_unvisited :
  forall (A : Type) (leb : A -> A -> bool),
    (forall a b, leb a b = true \/ leb b a = true) ->
    (forall a b c, leb a b = true -> leb b c = true -> leb a c = true) ->
    forall d0 D vis rem p, vis <> [] -> rem <> [] ->
    argmin A leb (map (fun q => dist A d0 D (fst q) (snd q)) (pairs vis rem)) = Some p ->
    let nxt := nth (p mod length rem) rem 0 in
    let from := nth (p / length rem) vis 0 in
    In nxt rem /\ In from vis /\
    (forall i j, In i vis -> In j rem -> leb (dist A d0 D from nxt) (dist A d0 D i j) = true).
Proof. exact vat_next_spec. Qed.

Theorem C20_matrix_is_reordered_input :
  forall (A : Type) (d0 : A) D perm a b, a < length perm -> b < length perm ->
    dist A d0 (reorder A d0 D perm) a b = dist A d0 D (nth a perm 0) (nth b perm 0).
Proof. exact reorder_entry. Qed.
(* the whole order, not just one iteration: every sample after the first is an unvisited sample closest to the
   samples before it *)
Theorem C20_whole_order_is_prim_ordered :
  forall (A : Type) (leb : A -> A -> bool),
    (forall a b, leb a b = true \/ leb b a = true) ->
    (forall a b c, leb a b = true -> leb b c = true -> leb a c = true) ->
    forall d0 D out, Forall (fun r => length r = length D) D ->
    vat_order A leb d0 D = Some out ->
    forall pre x post, out = pre ++ x :: post -> pre <> [] ->
      exists from, In from pre /\
        forall i j, In i pre -> In j (x :: post) -> leb (dist A d0 D from x) (dist A d0 D i j) = true.
Proof. exact vat_is_prim_ordered. Qed.
Theorem C20_symmetric_for_symmetric_input :
  forall (A : Type) (d0 : A) D perm a b, a < length perm -> b < length perm ->
    (forall i j, dist A d0 D i j = dist A d0 D j i) ->
    dist A d0 (reorder A d0 D perm) a b = dist A d0 (reorder A d0 D perm) b a.
Proof. exact reorder_symmetric. Qed.
Theorem C20_zero_diagonal_for_zero_diagonal_input :
  forall (A : Type) (d0 : A) D perm a (z : A), a < length perm ->
    (forall i, dist A d0 D i i = z) -> dist A d0 (reorder A d0 D perm) a a = z.
Proof. exact reorder_diagonal. Qed.
Print Assumptions C20_whole_order_is_prim_ordered.
Print Assumptions C20_permutation_and_start.
Print Assumptions C20_next_is_closest_unvisited.

(* non-vacuity: 4 points on a line at 0, 1, 3, 7 (distances as naturals) *)
Example C20_example :
  vat_order nat Nat.leb 0 [[0; 1; 3; 7]; [1; 0; 2; 6]; [3; 2; 0; 4]; [7; 6; 4; 0]] = Some [0; 1; 2; 3].
Proof. vm_compute. reflexivity. Qed.

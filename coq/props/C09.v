(* C09 - supervised maps are functional and consistent with every training
   label.  Statements only; proofs in theories/SimpleARTMAP_proofs.v.
   The order hypotheses on the numeric type hold at the real and the rational
   instance (used only for the MT~ mode). *)
From Coq Require Import List Bool Arith.
From ART Require Import Num NumR Vec Search Kernel BaseArt SimpleARTMAP SimpleARTMAP_proofs Fuzzy SAM_reach.
Import ListNotations.

(* an existing category that absorbs the sample was not vetoed: hence the
   internal assertion of SimpleARTMAP.step_fit cannot fire *)
Theorem C09_winner_not_vetoed :
  forall (N : Num) (K : Kernel N),
    (forall a b : N, nleb a b = true \/ nleb b a = true) ->
    (forall a b c : N, nleb a b = true -> nleb b c = true -> nleb a c = true) ->
    forall (a : st (N:=N)) x f m eps a' c vl,
      step_fit K a x (Some f) m eps = Some (a', c, vl) -> c < length (W a) -> f c = true.
Proof. exact @winner_not_vetoed. Qed.

(* one supervised step: existing keys never change value, the winner is mapped
   to the sample's class, the map's domain stays = the existing categories; the
   step is undefined only if the underlying search is (never the assertion) *)
Theorem C09_step :
  forall (N : Num) (K : Kernel N),
    (forall a b : N, nleb a b = true \/ nleb b a = true) ->
    (forall a b c : N, nleb a b = true -> nleb b c = true -> nleb a c = true) ->
    forall s x cb m eps p, MapInv s p -> In cb (bl s) ->
    match sam_step K s x cb m eps with
    | Some (s1, ca) =>
        (forall c b, lookup (mp s) c = Some b -> lookup (mp s1) c = Some b) /\
        lookup (mp s1) ca = Some cb /\
        (forall c, lookup (mp s1) c <> None <-> c < length (W (A s1))) /\
        (forall c b, lookup (mp s1) c = Some b -> In b (bl s1)) /\
        labels (A s1) = labels (A s) /\ bl s1 = bl s /\ hasL s1 = hasL s /\
        rho (A s1) = rho (A s) /\ hasW (A s1) = hasW (A s) /\ dim (A s1) = dim (A s)
    | None => step_fit K (A s) x (Some (sam_veto (mp s) cb)) m eps = None
    end.
Proof. exact @sam_step_ok. Qed.

(* fit with any number of epochs >= 1 *)
Theorem C09_fit :
  forall (N : Num) (K : Kernel N),
    (forall a b : N, nleb a b = true \/ nleb b a = true) ->
    (forall a b c : N, nleb a b = true -> nleb b c = true -> nleb a c = true) ->
    forall s X y iters m eps s',
    sam_fit K s X y iters m eps = Some s' -> 1 <= iters ->
    MapInv s' (length X) /\ bl s' = y /\ length (labels (A s')) = length X /\ length X = length y /\
    rho (A s') = rho (A s) /\ hasL s' = true.
Proof. exact @sam_fit_ok. Qed.

(* every state reachable by fit (any epochs) / partial_fit (any batching) *)
Theorem C09_reachable :
  forall (N : Num) (K : Kernel N),
    (forall a b : N, nleb a b = true \/ nleb b a = true) ->
    (forall a b c : N, nleb a b = true -> nleb b c = true -> nleb a c = true) ->
    forall r s, sreach K r s -> SInv s /\ rho (A s) = r.
Proof. exact @sreach_inv. Qed.

(* mapping the stored A-side labels reproduces the supplied targets exactly *)
Theorem C09_map_reproduces_targets :
  forall (N : Num) (s : sam (N:=N)),
    MapInv s (length (bl s)) -> length (labels (A s)) = length (bl s) ->
    map_a2b (mp s) (labels (A s)) = Some (bl s).
Proof. exact @map_reproduces_targets. Qed.

(* predictions are the map of the A-side prediction and are classes seen in training *)
Theorem C09_predict :
  forall (N : Num) (K : Kernel N) s x ca cb p,
    MapInv s p -> sam_step_pred K s x = Some (ca, cb) ->
    lookup (mp s) ca = Some cb /\ In cb (bl s) /\ step_pred K (A s) x = Some ca.
Proof. exact @sam_predict_seen_class. Qed.
(* for every state reachable by any history of fit / partial_fit calls *)
Theorem C09_reachable_state_reproduces_its_targets :
  forall (N : Num) (K : Kernel N),
    (forall a b : N, nleb a b = true \/ nleb b a = true) ->
    (forall a b c : N, nleb a b = true -> nleb b c = true -> nleb a c = true) ->
    forall r s, sreach K r s -> map_a2b (mp s) (labels (A s)) = Some (bl s).
Proof. exact @reach_map_reproduces_targets. Qed.
Theorem C09_reachable_state_predicts_a_seen_class :
  forall (N : Num) (K : Kernel N),
    (forall a b : N, nleb a b = true \/ nleb b a = true) ->
    (forall a b c : N, nleb a b = true -> nleb b c = true -> nleb a c = true) ->
    forall r s x ca cb, sreach K r s -> sam_step_pred K s x = Some (ca, cb) ->
    lookup (mp s) ca = Some cb /\ In cb (bl s) /\ step_pred K (A s) x = Some ca.
Proof. exact @reach_predict_seen_class. Qed.
Theorem C09_a_category_keeps_its_class_for_the_whole_history :
  forall (N : Num) (K : Kernel N),
    (forall a b : N, nleb a b = true \/ nleb b a = true) ->
    (forall a b c : N, nleb a b = true -> nleb b c = true -> nleb a c = true) ->
    forall r s s' c b, sreach K r s -> pf_reach K s s' -> lookup (mp s) c = Some b -> lookup (mp s') c = Some b.
Proof. exact @category_keeps_its_class. Qed.
Print Assumptions C09_a_category_keeps_its_class_for_the_whole_history.
Print Assumptions C09_reachable.
Print Assumptions C09_map_reproduces_targets.
Print Assumptions C09_predict.

(* the order hypotheses are satisfiable: the real instance *)
Example C09_hyp_R : (forall a b : RN, nleb a b = true \/ nleb b a = true) /\
                    (forall a b c : RN, nleb a b = true -> nleb b c = true -> nleb a c = true).
Proof. split; [exact Rleb_total|exact Rleb_trans]. Qed.

(* non-vacuity: contradictory labels on identical samples give two categories of different classes *)
From Coq Require Import QArith.
Open Scope Q_scope.
Example C09_example :
  option_map (fun s => (mp s, labels (A s)))
    (sam_fit (@fuzzyK QN (1#1024) 1) (@sam_init QN [1#4])
             ([[1#2; 1#2]; [1#2; 1#2]; [1#2; 1#2]] : list (list QN)) [0; 1; 0]%nat 1 MTplus (1#1024 : QN))
  = Some ([(0, 0); (1, 1)]%nat, [0; 1; 0]%nat).
Proof. vm_compute. reflexivity. Qed.

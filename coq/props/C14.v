(* C14 - TopoART: two-winner learning, edge counts and pruning keep all
   indices aligned.  Statements only; model in theories/Topo.v. *)
From Coq Require Import List Bool Arith ZArith.
From ART Require Import Num Vec Search Kernel BaseArt DualVig Topo Topo_proofs Fuzzy Topo_labels Topo_epochs.
Import ListNotations.

(* best and second-best winners are different categories (so the edge count never lands on the diagonal) *)
Theorem C14_two_distinct_winners :
  forall (N : Num) (K : Kernel N),
    (forall a b : N, nleb a b = true \/ nleb b a = true) ->
    (forall a b c : N, nleb a b = true -> nleb b c = true -> nleb a c = true) ->
    forall Ms mode eps veto fuel v T res r1 r2 v' l,
    (forall r, res = Some r -> nth_error T r = Some None \/ nth_error T r = None) ->
    tsearch K Ms mode eps veto fuel v T res = (Some r1, Some r2, v', l) -> r1 <> r2.
Proof. exact @tsearch_distinct. Qed.

(* a training step keeps weights, counters, permanence flags and adjacency aligned *)
Theorem C14_step_aligned :
  forall (N : Num) (K Klow : Kernel N),
    (forall a b : N, nleb a b = true \/ nleb b a = true) ->
    (forall a b c : N, nleb a b = true -> nleb b c = true -> nleb a c = true) ->
    forall s x veto mode eps s' c vl,
    Aligned s -> topo_step K Klow s x veto mode eps = Some (s', c, vl) -> Aligned s'.
Proof. exact @topo_step_aligned. Qed.

(* pruning: exactly the categories with >= phi samples or already permanent
   survive, in order; survivors are permanent; everything stays aligned *)
Theorem C14_prune :
  forall (N : Num) (K : Kernel N) phi s X s',
    Aligned s -> prune K phi s X = Some s' ->
    Aligned s' /\
    W (TB s') = select (prune_mask phi s) (W (TB s)) /\
    wsc (TB s') = select (prune_mask phi s) (wsc (TB s)) /\
    Forall (fun b => b = true) (perm s') /\
    (forall k, nth_error (prune_mask phi s) k = Some true <->
               (exists p c, nth_error (perm s) k = Some p /\ nth_error (wsc (TB s)) k = Some c /\ (p = true \/ phi <= c))).
Proof. exact @prune_aligned. Qed.

(* ... and all sample labels are re-indexed consistently: a sample whose category survives keeps that very category
   (same weight, same counter) under its new index; an orphaned sample is re-predicted with the pruned model, or
   marked -1 when nothing survives *)
Theorem C14_prune_labels :
  forall (N : Num) (K : Kernel N) phi (s : topo (N:=N)) X s',
    prune K phi s X = Some s' ->
    forall j x l, nth_error X j = Some x -> nth_error (tlab s) j = Some l ->
      (exists i, (0 <= l)%Z /\ new_index (prune_mask phi s) (Z.to_nat l) = Some i /\
                 nth_error (tlab s') j = Some (Z.of_nat i) /\
                 nth_error (W (TB s')) i = nth_error (W (TB s)) (Z.to_nat l) /\
                 nth_error (wsc (TB s')) i = nth_error (wsc (TB s)) (Z.to_nat l))
      \/ (((l < 0)%Z \/ new_index (prune_mask phi s) (Z.to_nat l) = None) /\ W (TB s') = [] /\ nth_error (tlab s') j = Some (-1)%Z)
      \/ (((l < 0)%Z \/ new_index (prune_mask phi s) (Z.to_nat l) = None) /\ W (TB s') <> [] /\
          exists c, step_pred K (TB s') x = Some c /\ nth_error (tlab s') j = Some (Z.of_nat c)).
Proof. exact @prune_labels. Qed.

(* after any fit, with any number of pruning rounds (also ones that remove
   everything): adjacency is square with one row per category and a zero diagonal *)
Theorem C14_fit_aligned :
  forall (N : Num) (K Klow : Kernel N) tau phi,
    (forall a b : N, nleb a b = true \/ nleb b a = true) ->
    (forall a b c : N, nleb a b = true -> nleb b c = true -> nleb a c = true) ->
    forall s X veto mode eps s' ls,
    topo_fit K Klow tau phi s X veto mode eps = Some (s', ls) -> X <> [] -> Aligned s'.
Proof. exact @topo_fit_aligned. Qed.
(* ... and with several epochs (fit(X, max_iter > 1)): pruning rounds of later epochs meet survivors that own no
   sample at the moment; the alignment is preserved all the same *)
Theorem C14_fit_several_epochs_aligned :
  forall (N : Num) (K Klow : Kernel N) tau phi,
    (forall a b : N, nleb a b = true \/ nleb b a = true) ->
    (forall a b c : N, nleb a b = true -> nleb b c = true -> nleb a c = true) ->
    forall s X iters veto mode eps s' ls,
    topo_fit_iters K Klow tau phi s X iters veto mode eps = Some (s', ls) -> X <> [] -> Aligned s'.
Proof. exact @topo_fit_iters_aligned. Qed.
Print Assumptions C14_fit_aligned.
Print Assumptions C14_fit_several_epochs_aligned.
Print Assumptions C14_prune.
Print Assumptions C14_prune_labels.

(* non-vacuity: tau = 2, phi = 2 on 4 samples: two pruning rounds, the second removes everything *)
From Coq Require Import QArith.
Open Scope Q_scope.
Example C14_example :
  let K := @fuzzyK QN (1#1024) 1 in
  option_map (fun r => (W (TB (fst r)), tlab (fst r), adj (fst r)))
    (topo_fit K K 2 2 (@topo_init QN [7#8])
       ([[0; 1]; [0; 1]; [1; 0]; [1#2; 1#2]] : list (list QN)) (fun _ => None) MTplus (0 : QN))
  = Some ([[0; 1]] : list (list QN), [0; 0; 0; 0]%Z, [[0%nat]]).
Proof. vm_compute. reflexivity. Qed.

(* "the best VIGILANCE-PASSING category ... and the second-best": both winners passed a vigilance at least as large as
   the configured one, under every mode that never lowers it *)
From Coq Require Import Reals.
From ART Require Import NumR Bounds_R Topo_bound.
Theorem C14_both_winners_passed_the_configured_vigilance :
  forall (K : Kernel RN), k_inv K = [false] ->
  forall Ms mode (eps : R) veto (v0 : list R), raising mode eps ->
  forall fuel T r1 r2 v' l, length v0 = 1%nat ->
    tsearch K Ms mode eps veto fuel v0 T None = (r1, r2, v', l) ->
    passed K Ms mode v0 r1 /\ passed K Ms mode v0 r2.
Proof.
  intros K HK Ms mode eps veto v0 Hr fuel T r1 r2 v' l Hv H.
  exact (tsearch_winners_passed K HK Ms mode eps veto v0 Hr fuel v0 T None r1 r2 v' l Hv (Rle_refl _) I H).
Qed.
(* the search as it was before /repo fix 79caf04 (tracking on every veto) returns a winner that fails the configured vigilance *)
Theorem C14_search_before_fix_refuted :
  exists (Ms : list (list (option QN))) (T : list (option QN)) (veto : nat -> bool) (rho : QN),
    fst (fst (tsearch_before_fix (@fuzzyK QN (1#1024)%Q 1%Q) Ms MTplus 0%Q veto 2 [rho] T None)) = Some 1%nat /\
    mbin Ms MTplus [false] [rho] 1 = false /\
    fst (fst (fst (tsearch (@fuzzyK QN (1#1024)%Q 1%Q) Ms MTplus 0%Q veto 2 [rho] T None))) = None.
Proof. exact tsearch_before_fix_refuted. Qed.
Print Assumptions C14_both_winners_passed_the_configured_vigilance.
Print Assumptions C14_search_before_fix_refuted.

(* a pruning round that leaves at least one category leaves no sample of the data set at -1: orphans of this round and
   samples an earlier round had marked -1 are re-predicted with the pruned model (wave-7 seed C17_7 skipped exactly that) *)
From ART Require Import Topo_noise.
Theorem C14_pruning_round_with_survivors_leaves_no_noise :
  forall (N : Num) (K : Kernel N) (phi : nat) (s : topo (N:=N)) X s',
    prune K phi s X = Some s' -> W (TB s') <> [] ->
    forall j : nat, (j < length X)%nat -> (j < length (tlab s))%nat -> exists c : nat, nth_error (tlab s') j = Some (Z.of_nat c).
Proof. exact @prune_leaves_no_noise. Qed.
Theorem C14_earlier_noise_is_relabelled :
  forall (N : Num) (K : Kernel N) (phi : nat) (s : topo (N:=N)) X s' (j : nat),
    prune K phi s X = Some s' -> W (TB s') <> [] -> (j < length X)%nat -> nth_error (tlab s) j = Some (-1)%Z ->
    exists c : nat, nth_error (tlab s') j = Some (Z.of_nat c).
Proof. exact @earlier_noise_is_relabelled. Qed.
Print Assumptions C14_pruning_round_with_survivors_leaves_no_noise.
Print Assumptions C14_earlier_noise_is_relabelled.

(* a fit of a TopoART with a history is the fit of a freshly constructed one: adjacency and permanence flags of the
   earlier history are replaced by the first step (wave-7 seed C14_7 kept the flags) *)
From ART Require Import Topo_refit.
Theorem C14_fit_forgets_the_previous_history :
  forall (N : Num) (K Klow : Kernel N) (tau phi : nat) (s : topo (N:=N)) X veto mode eps,
    X <> [] -> valid K (TB s) X = true -> valid K (TB (topo_init (rho (TB s)))) X = true ->
    topo_fit K Klow tau phi s X veto mode eps = topo_fit K Klow tau phi (topo_init (rho (TB s))) X veto mode eps.
Proof. exact @topo_fit_forgets. Qed.
Print Assumptions C14_fit_forgets_the_previous_history.

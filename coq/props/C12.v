(* C12 - hierarchies are nested and navigable (DeepARTMAP, SMART).
   Statements only; proofs in theories/Deep_proofs.v. *)
From Coq Require Import List Bool Arith.
From ART Require Import Num Vec Search Kernel BaseArt SimpleARTMAP SimpleARTMAP_proofs Deep Deep_proofs Fuzzy Deep_tree.
Import ListNotations.

(* training a chain of layers: every layer satisfies the map invariant for all
   rows and layer j+1's targets are layer j's A-side labels *)
Theorem C12_chain_fit :
  forall (N : Num),
    (forall a b : N, nleb a b = true \/ nleb b a = true) ->
    (forall a b c : N, nleb a b = true -> nleb b c = true -> nleb a c = true) ->
    forall Ks ls Xs y iters m eps (ls' : list (sam (N:=N))),
    chain_fit Ks ls Xs y iters m eps = Some ls' -> 1 <= iters ->
    Forall (fun l => layer_ok l (length y)) ls' /\ chained y ls' /\ length ls' = length Ks.
Proof. exact @chain_fit_ok. Qed.

(* labels_deep_ = targets followed by each layer's own A-side labels *)
Theorem C12_columns :
  forall (N : Num) y (ls : list (sam (N:=N))), chained y ls -> ls <> [] ->
    labels_deep ls = y :: map (fun l => labels (A l)) ls.
Proof. exact @labels_deep_eq. Qed.

(* tree: two samples sharing a category at level j+1 share one at level j *)
Theorem C12_nested :
  forall (N : Num) y (ls : list (sam (N:=N))) n j i i' c,
    Forall (fun l => layer_ok l n) ls -> chained y ls ->
    nth_error (map (fun l => labels (A l)) ls) j = Some (nth j (map (fun l => labels (A l)) ls) []) ->
    nth_error (nth j (map (fun l => labels (A l)) ls) []) i = Some c ->
    nth_error (nth j (map (fun l => labels (A l)) ls) []) i' = Some c ->
    exists b, nth_error (nth j (y :: map (fun l => labels (A l)) ls) []) i = Some b /\
              nth_error (nth j (y :: map (fun l => labels (A l)) ls) []) i' = Some b.
Proof. exact @deep_nested_adjacent. Qed.

(* category counts never decrease with depth *)
Theorem C12_counts_monotone :
  forall (N : Num) (l : sam (N:=N)) n, layer_ok l n -> ndistinct (bl l) <= ndistinct (labels (A l)).
Proof. exact @deep_counts_monotone. Qed.

(* map_deep carries any level's stored labels to the top level *)
Theorem C12_map_deep :
  forall (N : Num) y (ls : list (sam (N:=N))) n level l,
    Forall (fun l => layer_ok l n) ls -> chained y ls -> nth_error ls level = Some l ->
    map_deep ls level (labels (A l)) = Some y.
Proof. exact @map_deep_consistent. Qed.

(* predict: rows sharing a finer predicted label share every coarser one *)
Theorem C12_predict_nested :
  forall (N : Num) (rs : list (sam (N:=N))) cur up,
    preds_up rs cur = Some up ->
    forall i i' c, nth_error cur i = Some c -> nth_error cur i' = Some c ->
    Forall (fun col => exists b, nth_error col i = Some b /\ nth_error col i' = Some b) up.
Proof. exact @preds_up_nested. Qed.
(* "fit and any partial_fit batching": a fresh chain trained in two partial_fit batches ends in exactly the state of
   a one-epoch fit on the concatenated batches, so every statement above about the result of chain_fit (tree shape,
   columns, counts, map_deep) holds for it as well *)
From ART Require Import SAM_hist Deep_hist.
Theorem C12_two_batches_is_a_fit :
  forall (N : Num) (Ks : list (Kernel N)) rs (ls1 ls2 : list (sam (N:=N))) Xs1 Xs2 y1 y2 n1 n2 m eps,
    Forall (fun X => length X = n1) Xs1 -> Forall (fun X => length X = n2) Xs2 ->
    chain_partial_fit Ks (map sam_init rs) Xs1 y1 n1 m eps = Some ls1 ->
    chain_partial_fit Ks ls1 Xs2 y2 n2 m eps = Some ls2 ->
    chain_fit Ks (map sam_init rs) (zipapp Xs1 Xs2) (y1 ++ y2) 1 m eps = Some ls2.
Proof. exact @chain_two_batches_eq_fit. Qed.
(* whole-hierarchy forms: counts never decrease along the WHOLE chain of levels, and sharing a category at a finer
   level implies sharing one at EVERY coarser level *)
Theorem C12_counts_never_decrease_with_depth :
  forall (N : Num) n (ls : list (sam (N:=N))) y,
    Forall (fun l => layer_ok l n) ls -> chained y ls ->
    forall j a b, nth_error (map ndistinct (columns y ls)) j = Some a ->
                  nth_error (map ndistinct (columns y ls)) (S j) = Some b -> a <= b.
Proof. exact @counts_never_decrease_with_depth. Qed.
Theorem C12_nested_at_every_coarser_level :
  forall (N : Num) n (ls : list (sam (N:=N))) y,
    Forall (fun l => layer_ok l n) ls -> chained y ls ->
    forall j k i i' cj, k <= j ->
      nth_error (nth j (columns y ls) []) i = Some cj -> nth_error (nth j (columns y ls) []) i' = Some cj ->
      j < length (columns y ls) -> i < n -> i' < n -> length y = n ->
      exists ck, nth_error (nth k (columns y ls) []) i = Some ck /\ nth_error (nth k (columns y ls) []) i' = Some ck.
Proof. exact @nested_at_every_coarser_level. Qed.
Print Assumptions C12_nested_at_every_coarser_level.
Print Assumptions C12_chain_fit.
Print Assumptions C12_nested.
Print Assumptions C12_map_deep.

From Coq Require Import QArith.
Open Scope Q_scope.
Example C12_example :
  let K := @fuzzyK QN (1#1024) 1 in
  let X : list (list QN) := [[0; 1]; [1#4; 3#4]; [1; 0]; [0; 1]] in
  option_map (@labels_deep QN)
    (chain_fit [K; K] [@sam_init QN [1#2]; @sam_init QN [7#8]] [X; X] [0; 0; 1; 0]%nat 1 MTplus (0 : QN))
  = Some [[0; 0; 1; 0]; [0; 0; 1; 0]; [0; 1; 2; 0]]%nat.
Proof. vm_compute. reflexivity. Qed.

(* predict, level by level: the k-th level above the finest is the composition of the first k+1 layers' maps applied to
   the finest B-side prediction (what map_deep computes), and there are as many levels as layers (wave-7 seed C08_7) *)
From ART Require Import Deep_compose.
Theorem C12_prediction_levels_are_composed_maps :
  forall (N : Num) (rs : list (sam (N:=N))) cur up,
    preds_up rs cur = Some up ->
    forall k col, nth_error up k = Some col -> map_up (firstn (S k) rs) cur = Some col.
Proof. exact @preds_up_is_composition. Qed.
Theorem C12_prediction_has_one_level_per_layer :
  forall (N : Num) (rs : list (sam (N:=N))) cur up, preds_up rs cur = Some up -> length up = length rs.
Proof. exact @preds_up_length. Qed.
Print Assumptions C12_prediction_levels_are_composed_maps.
Print Assumptions C12_prediction_has_one_level_per_layer.

(* C10 - FusionART is the channel-wise conjunction of its modules.
   Statements only.  The fused kernel (theories/Fusion.v) slices the stored
   weight with the data channel indices as the code does; the statements
   hold for modules whose weight is as long as their channel (Fuzzy, ART2-A);
   see known_findings.json for the others. *)
From Coq Require Import List Bool Arith Reals Permutation.
From ART Require Import Num NumR Vec Search Kernel BaseArt BaseArt_folds Fusion Fusion_proofs Fusion_skip Fusion_perm Fusion_w.
Import ListNotations.
Open Scope nat_scope.

(* resonance requires every channel's own vigilance test to pass *)
Theorem C10_all_channels_must_pass :
  forall (N : Num) (Ms : list (list (option N))) m invs v c,
    mbin Ms m invs v c = true ->
    exists Mc, nth_error Ms c = Some Mc /\ forallb (fun b => b) (chan_pass (mt_strict m) invs Mc v) = true.
Proof. exact @fusion_match_all_channels. Qed.

(* learning applies each module's own rule to its slice; the fused weight is the concatenation *)
Theorem C10_update_channelwise :
  forall (N : Num) (mods : list (Kernel N)) gammas dims wdims (x w w' : list N),
    k_update (fusionK mods gammas dims wdims) x w = Some w' ->
    exists parts, w' = concat parts /\
      omap (fun Kp => k_update (fst Kp) (chan (fst (snd Kp)) x) (chan (snd (snd Kp)) w))
           (combine mods (combine (positions 0 dims) (positions 0 wdims))) = Some parts.
Proof. exact @fusion_update_channelwise. Qed.
Theorem C10_new_channelwise :
  forall (N : Num) (mods : list (Kernel N)) gammas dims wdims (x w' : list N),
    k_new (fusionK mods gammas dims wdims) x = Some w' ->
    exists parts, w' = concat parts /\
      omap (fun Kp => k_new (fst Kp) (chan (fst (snd Kp)) x))
           (combine mods (combine (positions 0 dims) (positions 0 wdims))) = Some parts.
Proof. exact @fusion_new_channelwise. Qed.

(* every fused category is the fold of the channel-wise rule over exactly its members *)
Theorem C10_categories_are_folds :
  forall (N : Num) (mods : list (Kernel N)) gammas dims wdims s X veto m eps s' ls,
    fit (fusionK mods gammas dims wdims) s X veto m eps = Some (s', ls) ->
    forall c, c < length (W s') ->
      nth_error (W s') c = fold_members (fusionK mods gammas dims wdims) (members c X (labels s')).
Proof. exact @fusion_categories_are_folds. Qed.
(* the activation of a category is the gamma-weighted sum of the channel modules' own activations *)
Theorem C10_activation_is_the_gamma_weighted_sum :
  forall (mods : list (Kernel RN)) (gammas : list (T RN)) (dims wdims : list nat)
         (Ws : list (list (T RN))) (x w : list (T RN)) (t : R),
    k_choice (fusionK mods gammas dims wdims) Ws x w = Some t ->
    exists ts, length ts = length (combine mods (pos dims wdims)) /\
      (forall k Kp, nth_error (combine mods (pos dims wdims)) k = Some Kp -> nth_error ts k = own Ws x w Kp) /\
      t = wsumR (combine ts gammas).
Proof. exact choice_is_weighted_sum. Qed.
(* the fused weight is the concatenation of the channel weights - through the W attribute in both directions
   (setter after getter, getter after setter; the setter cuts every fused weight at the module weight lengths) *)
Theorem C10_W_setter_after_getter :
  forall (A : Type) (cat : list (list A)), split_fused (map (@length A) cat) (fuse cat) = cat.
Proof. exact @split_fuse. Qed.
Theorem C10_W_getter_after_setter :
  forall (A : Type) (wdims : list nat) (w : list A), fold_right plus 0%nat wdims = length w -> fuse (split_fused wdims w) = w.
Proof. exact @fuse_split. Qed.
Print Assumptions C10_activation_is_the_gamma_weighted_sum.
(* permuting the channels together with their gamma values, widths and vigilances: the fused activation depends only
   on the multiset of (channel activation, gamma) pairs, the fused vigilance test only on the multiset of per-channel
   verdicts (exact arithmetic) *)
Theorem C10_fused_activation_is_permutation_invariant :
  forall (mods mods' : list (Kernel RN)) (gammas gammas' : list (T RN)) (dims wdims dims' wdims' : list nat)
         (Ws Ws' : list (list (T RN))) (x w x' w' : list (T RN)) (t t' : R),
    k_choice (fusionK mods gammas dims wdims) Ws x w = Some t ->
    k_choice (fusionK mods' gammas' dims' wdims') Ws' x' w' = Some t' ->
    length gammas = length (combine mods (pos dims wdims)) -> length gammas' = length (combine mods' (pos dims' wdims')) ->
    Permutation (combine (map (own Ws x w) (combine mods (pos dims wdims))) gammas)
                (combine (map (own Ws' x' w') (combine mods' (pos dims' wdims'))) gammas') ->
    t = t'.
Proof. exact fused_activation_is_permutation_invariant. Qed.
Theorem C10_all_channels_pass_is_permutation_invariant :
  forall verdicts verdicts' : list bool,
    Permutation verdicts verdicts' -> forallb (fun b => b) verdicts = forallb (fun b => b) verdicts'.
Proof. exact all_channels_pass_is_permutation_invariant. Qed.
Print Assumptions C10_fused_activation_is_permutation_invariant.
Print Assumptions C10_categories_are_folds.

(* one channel with gamma = 1 computes the bare module's activation (exact reals) *)
Theorem C10_one_channel_is_bare :
  forall (K : Kernel RN) d Ws (x w : list RN),
    length x = d -> length w = d -> Forall (fun v => length v = d) Ws ->
    k_choice (fusionK [K] [1%R] [d] [d]) Ws x w = k_choice K Ws x w.
Proof. exact fusion1_bare_choice. Qed.
Print Assumptions C10_one_channel_is_bare.

(* non-vacuity: two Fuzzy channels, activation = gamma-weighted sum *)
From Coq Require Import QArith.
From ART Require Import Fuzzy.
Open Scope Q_scope.
Example C10_example :
  let K := @fuzzyK QN (1#8) 1 in
  k_choice (fusionK [K; K] ([1#2; 1#2] : list QN) [2; 2]%nat [2; 2]%nat) []
           ([1#2; 1#2; 1; 0] : list QN) ([1#2; 1#2; 1#2; 0] : list QN)
  = Some (38#45).   (* = 1/2 * (1 / (1/8 + 1)) + 1/2 * ((1/2) / (1/8 + 1/2)) *)
Proof. vm_compute. reflexivity. Qed.

(* C18 - data preparation is invertible; validation gates every entry point
   atomically.  Statements only (exact reals: "to numerical precision" = exactly). *)
From Coq Require Import List Bool Arith Reals.
From ART Require Import Num NumR Vec Search Kernel BaseArt Fuzzy Prep Prep_R Prep_whole.
Import ListNotations.
Open Scope R_scope.

Theorem C18_normalize_range :
  forall lo hi x : list R, Forall2 (fun l h => l < h) lo hi -> Forall2 Rle lo x -> Forall2 Rle x hi ->
    Forall (fun a => 0 <= a <= 1) (@normalize_row RN lo hi x).
Proof. exact normalize_range. Qed.
Theorem C18_denormalize_normalize :
  forall lo hi x : list R, Forall2 (fun l h => l <> h) lo hi -> length x = length lo ->
    @denormalize_row RN lo hi (@normalize_row RN lo hi x) = x.
Proof. exact denormalize_normalize. Qed.
Theorem C18_decc_cc : forall x : list R, @de_compliment_code RN (@compliment_code RN x) = x.
Proof. exact decc_cc. Qed.
Theorem C18_prepared_data_passes_validation :
  forall x : list R, Forall (fun a => 0 <= a <= 1) x -> @fuzzy_valid RN (@compliment_code RN x) = true.
Proof. exact prepared_fuzzy_is_valid. Qed.
(* later calls re-use the first call's column bounds *)
Theorem C18_prepare_reuses_bounds :
  forall (N : Num) (X Y : list (list N)),
    snd (prepare (snd (prepare None X)) Y) = snd (prepare None X) /\
    fst (prepare (snd (prepare None X)) Y) = map (normalize_row (col_min X) (col_max X)) Y.
Proof. intros N X Y. unfold prepare. cbn. auto. Qed.
Theorem C18_reject_atomic :
  forall (K : Kernel RN) (s : st (N:=RN)) X veto m eps,
    valid K s X = false ->
    fit K s X veto m eps = None /\ partial_fit K s X veto m eps = None /\ predict K s X = None.
Proof. exact reject_atomic. Qed.
(* whole calls: the first prepare_data computes the bounds from the data itself *)
Theorem C18_first_call_output_in_unit_cube :
  forall d (X : list (list R)), rect d X -> nonconstant X ->
    Forall (Forall (fun a => 0 <= a <= 1)) (fst (@prepare RN None X)).
Proof. exact prepare_first_in_range. Qed.
Theorem C18_first_call_restored_exactly :
  forall d (X : list (list R)), X <> [] -> rect d X -> nonconstant X ->
    @restore RN (snd (@prepare RN None X)) (fst (@prepare RN None X)) = Some X.
Proof. exact restore_prepare_first. Qed.
Theorem C18_first_call_fuzzy_double_width_and_valid :
  forall d (X : list (list R)), rect d X -> nonconstant X ->
    Forall (fun y => @fuzzy_valid RN y = true /\ length y = (2 * d)%nat) (fst (@prepare_fuzzy RN None X)).
Proof. exact prepare_fuzzy_first_valid. Qed.
Theorem C18_first_call_fuzzy_restored_exactly :
  forall d (X : list (list R)), X <> [] -> rect d X -> nonconstant X ->
    @restore_fuzzy RN (snd (@prepare_fuzzy RN None X)) (fst (@prepare_fuzzy RN None X)) = Some X.
Proof. exact restore_prepare_fuzzy_first. Qed.
Theorem C18_later_data_inside_the_first_bounds :
  forall (lo hi : list R) Y,
    Forall2 (fun l h => l < h) lo hi -> Forall (fun y => Forall2 Rle lo y /\ Forall2 Rle y hi) Y ->
    Forall (Forall (fun a => 0 <= a <= 1)) (fst (@prepare RN (Some (lo, hi)) Y)) /\
    snd (@prepare RN (Some (lo, hi)) Y) = Some (lo, hi).
Proof. exact prepare_later_in_range. Qed.
Theorem C18_later_data_restored_exactly :
  forall (lo hi : list R) Y,
    Forall2 (fun l h => l < h) lo hi -> Forall (fun y => length y = length lo) Y ->
    @restore RN (Some (lo, hi)) (fst (@prepare RN (Some (lo, hi)) Y)) = Some Y.
Proof. exact restore_prepare_later. Qed.
Print Assumptions C18_first_call_fuzzy_restored_exactly.
Print Assumptions C18_denormalize_normalize.
Print Assumptions C18_prepared_data_passes_validation.

From Coq Require Import QArith.
Open Scope Q_scope.
Example C18_example :
  let X : list (list QN) := [[2; 10]; [4; 30]; [3; 20]] in
  fst (prepare_fuzzy None X) = ([[0; 0; 1; 1]; [1; 1; 0; 0]; [1#2; 1#2; 1#2; 1#2]] : list (list QN))
  /\ restore_fuzzy (snd (prepare_fuzzy None X)) (fst (prepare_fuzzy None X)) = Some X.
Proof. vm_compute. split; reflexivity. Qed.

(* C03 - kernel functions compute the published rules.  The kernel
   definitions in theories/{Fuzzy,ART1,ART2A,Hyper,Gauss}.v ARE the published
   equations; their tie to the code is the direct-call correspondence
   (corr/RunKern.v).  The theorems here are the derived facts the property
   names: the operator table of the binary match test, Fuzzy geometry
   accessors, ART1/ART2-A/Hypersphere rule shapes.  Statements only. *)
From Coq Require Import List Bool Arith Reals Lra.
From Coq Require Import QArith Qreals.
From ART Require Import Num NumR Vec Search Kernel Fuzzy Fuzzy_R ART2A ART1 ART1_R ART1_new Hyper Hyper_R Kern_R Transfer.
Import ListNotations.
Open Scope R_scope.

(* binary match test: >= for MT+/MT-/MT1, > for MT0/MT~; reversed for inverted modules *)
Theorem C03_operator_table :
  forall (m : mt) (inv : bool) (M rho : R),
    @op_pass RN (mt_strict m) inv M rho = true <->
    match m, inv with
    | (MTplus | MTminus | MT1), false => rho <= M
    | (MT0 | MTtilde), false => rho < M
    | (MTplus | MTminus | MT1), true => M <= rho
    | (MT0 | MTtilde), true => M < rho
    end.
Proof. exact op_table. Qed.

(* Fuzzy ART bounding box for any number n <= d of leading dimensions *)
Theorem C03_bbox_spec :
  forall (w : list R) n, (n <= length w / 2)%nat ->
    @bbox RN w n = Some (firstn n w,
                         map (fun i => (1 - nth (i + length w / 2) w 0) - nth i w 0) (seq 0 n)).
Proof. exact bbox_spec. Qed.

(* shrink_clusters keeps the centre and stays inside the old box (0 <= ratio <= 1/2) *)
Theorem C03_shrink_same_centre :
  forall (lo hi : list R) ratio, length lo = length hi ->
    @centre RN (@shrink RN (lo ++ hi) ratio) = @centre RN (lo ++ hi).
Proof. exact shrink_same_centre. Qed.
Theorem C03_shrink_contained :
  forall (lo hi : list R) ratio, length lo = length hi -> 0 <= ratio <= 1 / 2 ->
    Forall2 Rle lo (map (fun a => 1 - a) hi) ->                     (* a proper box: lower <= upper *)
    Forall2 Rle lo (firstn (length lo) (@shrink RN (lo ++ hi) ratio)) /\
    Forall2 Rle hi (skipn (length lo) (@shrink RN (lo ++ hi) ratio)).
Proof. exact shrink_contained. Qed.

(* ART2-A: uncommitted-node suppression *)
Theorem C03_art2_suppression :
  forall alpha (x w : list R),
    @art2_match RN alpha x w = (if Rlt_dec (@dot RN x w) (alpha * @vsum RN x) then -1 else @dot RN x w).
Proof. exact art2_suppression. Qed.

(* ART1: update = template AND, bottom-up = L/(L-1+|t'|) t' *)
Theorem C03_art1_update_form :
  forall (L : R) (x w : list R) w', @art1_update RN L x w = Some w' ->
    let t' := @vand RN x (@art1_td RN w (length x)) in
    exists k, w' = @vscale RN k t' ++ t' /\ k * (L - 1 + @l1norm RN t') = L.
Proof. exact art1_update_form. Qed.

(* Fuzzy: fast learning is the fuzzy AND *)
Theorem C03_fuzzy_fast :
  forall x w : list RN, length x = length w -> @fuzzy_update RN 1 x w = @vmin RN x w.
Proof. exact fuzzy_update_fast. Qed.
(* the instance that the correspondence EXECUTES (exact rationals) is, on rational inputs, the real-number
   function the theorems are about: Q2R commutes with the Fuzzy ART kernel functions and with the fold of the
   update rule over a category's members *)
Theorem C03_executed_choice_is_the_real_function : forall (alpha : Q) (x w : list Q),
  option_map Q2R (@fuzzy_choice QN alpha x w) = @fuzzy_choice RN (Q2R alpha) (map Q2R x) (map Q2R w).
Proof. exact fuzzy_choice_QR. Qed.
Theorem C03_executed_match_is_the_real_function : forall (x w : list Q),
  option_map Q2R (@fuzzy_match QN x w) = @fuzzy_match RN (map Q2R x) (map Q2R w).
Proof. exact fuzzy_match_QR. Qed.
Theorem C03_executed_update_is_the_real_function : forall (beta : Q) (x w : list Q),
  map Q2R (@fuzzy_update QN beta x w) = @fuzzy_update RN (Q2R beta) (map Q2R x) (map Q2R w).
Proof. exact fuzzy_update_QR. Qed.
Theorem C03_executed_fold_is_the_real_fold : forall (beta : Q) (members : list (list Q)) (w0 : list Q),
  map Q2R (fold_left (fun w x => @fuzzy_update QN beta x w) members w0) =
  fold_left (fun w x => @fuzzy_update RN (Q2R beta) x w) (map (map Q2R) members) (map Q2R w0).
Proof. exact fuzzy_fold_QR. Qed.
(* ART1: a freshly committed category has bottom-up = L/(L-1+|t|) t like an updated one: presenting the founding
   pattern again leaves the weight unchanged (true since the /repo fix of ART1.new_weight; the former divisor
   L-1+dim is refuted below) *)
Theorem C03_art1_new_weight_obeys_the_bottom_up_rule :
  forall (L : R) (x w : list R),
    @art1_valid RN x = true -> @art1_new RN L x = Some w -> @art1_update RN L x w = Some w.
Proof. exact art1_new_is_a_fixed_point. Qed.
Theorem C03_art1_new_weight_before_fix_refuted :
  exists (L : QN) (x w w' : list QN),
    @art1_valid QN x = true /\ @art1_new_before_fix QN L x = Some w /\ @art1_update QN L x w = Some w' /\
    nth 0 w 0%Q = (2#5)%Q /\ nth 0 w' 0%Q = 1%Q.
Proof. exact art1_new_before_fix_refuted. Qed.
Print Assumptions C03_art1_new_weight_obeys_the_bottom_up_rule.
Print Assumptions C03_operator_table.
Print Assumptions C03_executed_fold_is_the_real_fold.
Print Assumptions C03_shrink_contained.

From Coq Require Import QArith.
Open Scope Q_scope.
Example C03_example_bbox :
  @bbox QN ([1#8; 2#8; 3#8; 4#8; 3#8; 2#8] : list QN) 2 = Some ([1#8; 2#8] : list QN, [3#8; 3#8] : list QN).
Proof. vm_compute. reflexivity. Qed.

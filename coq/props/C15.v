(* C15 - the incremental validity index equals the batch index and gates
   assignments.  Statements only.
   FIRST SENTENCE, in full: C15_any_permitted_sequence_tracks_the_batch_index -
   after any interleaving of add_sample / switch_label (+ update) that the API
   permits, every operation was defined and the tracked criterion value is the
   batch Calinski-Harabasz index of the current labelled data (exact reals; 0 by
   convention while the index is undefined).  The one-step theorems
   (C15_add_sample_step, C15_switch_label_step) expose the invariant.
   The *_partial theorems are the scalar recurrences the proof is built from.
   SECOND SENTENCE: C15_fit_tracks_the_batch_index - for the model of
   iCVIFuzzyART.fit (online and offline, every kernel / mode / epsilon), whenever
   the fit is defined the tracked value is the batch index of (X, labels_).
   GATE: C15_gate (kernel-abstract).  The model of fit is tied to the
   implementation on every run by RunICVI.ifcheck. *)
From Coq Require Import List Bool Arith Reals.
From ART Require Import Num NumR Vec Search Kernel BaseArt ICVI ICVI_R VecR ICVI_full ICVI_switch ICVIFuzzy ICVI_fit CVI_gate ICVI_remove ICVI_remove_inv ICVI_ops3.
Import ListNotations.
Open Scope R_scope.

Theorem C15_mean_add_partial : forall n s1 x : R, 0 < n ->
  let v := s1 / n in v - (-1 * ((1 / (n + 1)) * (x - v))) = (s1 + x) / (n + 1).
Proof. exact ch_mean_add. Qed.
Theorem C15_cp_add_partial : forall n s1 s2 x : R, 0 < n ->
  let v := s1 / n in
  let dV := -1 * ((1 / (n + 1)) * (x - v)) in
  let v' := v - dV in
  (s2 - s1 * s1 / n) + ((x - v') * (x - v') + ((n + 1) - 1) * (dV * dV) + 2 * (dV * 0))
  = (s2 + x * x) - (s1 + x) * (s1 + x) / (n + 1).
Proof. exact ch_cp_add. Qed.
Theorem C15_g_stays_zero_add_partial : forall n s1 x : R, 0 < n ->
  let v := s1 / n in
  let dV := -1 * ((1 / (n + 1)) * (x - v)) in
  let v' := v - dV in
  0 + (x - v') + ((n + 1) - 1) * dV = 0.
Proof. exact ch_g_add. Qed.
Theorem C15_mean_remove_partial : forall n s1 x : R, 1 < n ->
  let v := s1 / n in v + (1 / (n - 1)) * (v - x) = (s1 - x) / (n - 1).
Proof. exact ch_mean_remove. Qed.
Theorem C15_cp_remove_partial : forall n s1 s2 x : R, 1 < n ->
  let v := s1 / n in
  let dp := (1 / (n - 1)) * (v - x) in
  (s2 - s1 * s1 / n) + - ((x - v) * (x - v) + (n - 1) * (dp * dp) + 2 * (dp * 0))
  = (s2 - x * x) - (s1 - x) * (s1 - x) / (n - 1).
Proof. exact ch_cp_remove. Qed.
Theorem C15_g_stays_zero_remove_partial : forall n s1 x : R, 1 < n ->
  let v := s1 / n in
  let dp := (1 / (n - 1)) * (v - x) in
  0 - ((x - v) + (n - 1) * dp) = 0.
Proof. exact ch_g_remove. Qed.
Theorem C15_global_mean_partial : forall n s1 x : R, 0 < n ->
  s1 / n + (1 / (n + 1)) * (x - s1 / n) = (s1 + x) / (n + 1).
Proof. exact ch_mu_add. Qed.
(* s2 - s1^2/n is the sum of squared deviations from the mean *)
Theorem C15_cp_is_within_cluster_ss : forall xs : list R,
  let n := INR (length xs) in
  let s1 := fold_right Rplus 0 xs in
  let s2 := fold_right (fun a acc => a * a + acc) 0 xs in
  xs <> [] ->
  fold_right (fun a acc => (a - s1 / n) * (a - s1 / n) + acc) 0 xs = s2 - s1 * s1 / n.
Proof. exact ss_about_mean. Qed.

(* FULL statement for add_sample (online mode): after ANY sequence of add_sample / update operations on samples
   of one dimension, every operation was defined and the tracked criterion value is the batch
   Calinski-Harabasz index of the labelled data presented so far (0 by convention while it is undefined) *)
Theorem C15_adds_track_the_batch_index : forall (d : nat) (D : list (list R * nat)),
  Forall (fun p => length (fst p) = d) D ->
  exists s, fold_left add_step D (Some (@ch_init RN d)) = Some s /\
            @batch_ch RN D d = Some (h_crit s) /\
            h_n s = INR (length D).
Proof. exact icvi_adds_equal_batch. Qed.
(* one step, from any state that satisfies the invariant *)
Theorem C15_add_sample_step : forall d (s : @ch RN) (D : list (list R * nat)) (x : list R) (l : nat),
  Struct d s D -> length x = d ->
  exists p, @add_sample RN s x l = Some p /\
            Struct d (@update RN s p) (D ++ [(x, l)]) /\
            @batch_ch RN (D ++ [(x, l)]) d = Some (h_crit (@update RN s p)).
Proof. exact add_sample_inv. Qed.

(* moving a sample to another (existing or brand-new) cluster; the API refuses to empty a cluster *)
Theorem C15_switch_label_step : forall d (s : @ch RN) (D : list (list R * nat)) (j : nat) (x : list R) (lold lnew : nat),
  Struct d s D -> nth_error D j = Some (x, lold) -> lnew <> lold -> (2 <= length (members D lold))%nat ->
  exists p, @switch_label RN s x lold lnew = Some p /\
            Struct d (@update RN s p) (set_nth j (x, lnew) D) /\
            @batch_ch RN (set_nth j (x, lnew) D) d = Some (h_crit (@update RN s p)).
Proof. exact switch_label_inv. Qed.
(* any interleaving the API permits, from the empty index *)
Theorem C15_any_permitted_sequence_tracks_the_batch_index : forall (d : nat) (ops : list iop),
  all_permitted d [] ops ->
  exists s D, run_ops ops (@ch_init RN d, []) = Some (s, D) /\
              @batch_ch RN D d = Some (h_crit s).
Proof. exact icvi_tracks_batch_index. Qed.

(* iCVIFuzzyART.fit (model ICVIFuzzy.icvi_fit): online mode adds each sample once, offline mode first puts every
   sample in cluster 0 and then switches labels; either way the tracked value ends as the index of (X, labels_) *)
Theorem C15_fit_tracks_the_batch_index : forall (K : Kernel RN) (offline : bool) (s : st (N:=RN)) (X : list (list R)) m eps s' h',
  icvi_fit K offline s X m eps = Some (s', h') ->
  @batch_ch RN (combine X (labels s')) (length (hd [] X)) = Some (h_crit h') /\ length (labels s') = length X.
Proof. exact icvi_fit_tracks_batch_index. Qed.

(* the gate: joining an existing cluster requires the validity test (strict improvement) to have passed *)
Theorem C15_gate : forall (K : Kernel RN) (s : st (N:=RN)) x (improves : nat -> bool) m eps s' c vl,
  step_fit K s x (Some improves) m eps = Some (s', c, vl) -> (c < length (W s))%nat -> improves c = true.
Proof. exact icvi_gate. Qed.
(* CVIART's gate (scikit-learn's index values are an oracle): a permitted assignment strictly improves the index
   whenever there is an index to compare, an assignment that does not is refused, and a verdict always exists *)
Theorem C15_cviart_gate_strict :
  forall (N : Num) ncat labels i c (lb : bool) (old new : N),
    cvi_match ncat labels i c lb old new = true -> (2 <= ncat)%nat ->
    index_defined labels = true ->
    index_defined (set_at i c labels) = true /\ (if lb then nltb new old else nltb old new) = true.
Proof. exact @gate_strict. Qed.
Theorem C15_cviart_gate_refuses_losing_the_index :
  forall (N : Num) ncat labels i c (lb : bool) (old new : N),
    (2 <= ncat)%nat -> index_defined labels = true -> index_defined (set_at i c labels) = false ->
    cvi_match ncat labels i c lb old new = false.
Proof. exact @gate_refuses_losing_the_index. Qed.
Theorem C15_cviart_gate_refuses_no_improvement :
  forall (N : Num) ncat labels i c (lb : bool) (old new : N),
    (2 <= ncat)%nat -> index_defined labels = true -> index_defined (set_at i c labels) = true ->
    (if lb then nltb new old else nltb old new) = false -> cvi_match ncat labels i c lb old new = false.
Proof. exact @gate_refuses_no_improvement. Qed.
(* remove_sample (a public operation of the same object; its mean update was repaired by /repo 16fa704): the tracked
   value after remove_sample + update is the batch index of the data that remain *)
Theorem C15_remove_sample_tracks_the_batch_index :
  forall d (s : @ch RN) (D : list (list R * nat)) (j : nat) (x : list R) (l : nat),
    Struct d s D -> nth_error D j = Some (x, l) -> (2 <= length (members D l))%nat ->
    exists p D', @remove_sample RN s x l = Some p /\ Permutation.Permutation D (D' ++ [(x, l)]) /\
              Struct d (@update RN s p) D' /\ @batch_ch RN D' d = Some (h_crit (@update RN s p)).
Proof. exact remove_sample_inv. Qed.
Theorem C15_any_permitted_sequence_with_removals_tracks_the_batch_index :
  forall d (ops : list iop3), all_permitted3 d [] ops ->
    exists s D, run_ops3 ops (@ch_init RN d, []) = Some (s, D) /\ @batch_ch RN D d = Some (h_crit s).
Proof. exact icvi_tracks_batch_index_with_removals. Qed.
Print Assumptions C15_remove_sample_tracks_the_batch_index.
Print Assumptions C15_adds_track_the_batch_index.
Print Assumptions C15_any_permitted_sequence_tracks_the_batch_index.
Print Assumptions C15_fit_tracks_the_batch_index.
Print Assumptions C15_cp_add_partial.
Print Assumptions C15_gate.

(* non-vacuity (exact rationals): three points in two clusters, incremental value = batch value *)
From Coq Require Import QArith.
Open Scope Q_scope.
Example C15_example :
  let add := fun oh (xl : list QN * nat) => match oh with Some h => option_map (update h) (add_sample h (fst xl) (snd xl)) | None => None end in
  let D := [([0] : list QN, 0%nat); ([1#2], 0%nat); ([4], 1%nat); ([5], 1%nat)] in
  option_map (@h_crit QN) (fold_left add D (Some (@ch_init QN 1))) = @batch_ch QN D 1
  /\ @batch_ch QN D 1 <> None /\ @batch_ch QN D 1 <> Some 0.
Proof. vm_compute. repeat split; discriminate. Qed.

(* non-vacuity of the sequence theorem: adds and a switch that are all permitted, value <> 0 *)
Example C15_example_ops :
  let ops := [OAdd [0%R] 0; OAdd [1%R] 0; OAdd [4%R] 1; OAdd [5%R] 1; OSwitch 1 1] in
  all_permitted 1 [] ops.
Proof. cbn. repeat split; try reflexivity. exists [1%R], 0%nat. split; [reflexivity|right; cbn; auto]. Qed.

(* the edges of the indices' domain, for every n: one cluster per sample and a single cluster have no index, and the gate
   then permits the assignment without evaluating one (wave-7 seed C04_7) *)
From ART Require Import CVI_gate_edge.
Theorem C15_one_cluster_per_sample_has_no_index :
  forall labels : list nat, NoDup labels -> index_defined labels = false.
Proof. exact one_cluster_per_sample_has_no_index. Qed.
Theorem C15_a_single_cluster_has_no_index :
  forall c n : nat, index_defined (repeat c n) = false.
Proof. exact a_single_cluster_has_no_index. Qed.
Theorem C15_gate_permits_when_every_sample_is_alone :
  forall (N : Num) ncat labels i c lb (old new : N), NoDup labels -> cvi_match ncat labels i c lb old new = true.
Proof. exact @gate_permits_when_every_sample_is_alone. Qed.
Print Assumptions C15_one_cluster_per_sample_has_no_index.
Print Assumptions C15_a_single_cluster_has_no_index.
Print Assumptions C15_gate_permits_when_every_sample_is_alone.

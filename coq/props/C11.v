(* C11 - partial-channel inference ignores withheld channels; channel joins
   round-trip.  Statements only. *)
From Coq Require Import List Bool Arith ZArith Reals.
From ART Require Import Num NumR Vec Search Kernel Fusion Fusion_proofs Fusion_prep Fusion_prep_inv Fusion_skip.
Import ListNotations.
Open Scope nat_scope.

(* with channels skipped, the activation does not read the skipped columns *)
Theorem C11_skip_independent :
  forall (N : Num) (mods : list (Kernel N)) gammas dims wdims skip Ws (x x' w : list N),
    (forall k p, nth_error (positions 0 dims) k = Some p -> existsb (Nat.eqb k) skip = false ->
                 chan p x = chan p x') ->
    fusion_choice_skip mods gammas dims wdims skip Ws x w = fusion_choice_skip mods gammas dims wdims skip Ws x' w.
Proof. exact @skip_independent. Qed.

(* with channels withheld the activation of a category IS the gamma-weighted sum of the remaining channels' own
   activations (a skipped channel contributes nothing), so predict's arg-max is the arg-max of exactly that sum *)
Theorem C11_activation_is_the_weighted_sum_of_the_remaining_channels :
  forall (mods : list (Kernel RN)) (gammas : list (T RN)) (dims wdims skip : list nat) (Ws : list (list (T RN))) (x w : list (T RN)) (t : R),
    fusion_choice_skip mods gammas dims wdims skip Ws x w = Some t ->
    exists ts, length ts = length (combine mods (pos dims wdims)) /\
      (forall k Kp, nth_error (combine mods (pos dims wdims)) k = Some Kp -> existsb (Nat.eqb k) skip = false ->
                    nth_error ts k = own Ws x w Kp) /\
      t = rem_sum 0 skip (combine ts gammas).
Proof. exact skip_choice_is_remaining_sum. Qed.

(* (a constant added to every activation would not move the arg-max either) *)
Theorem C11_argmax_shift :
  forall (k : R) (T : list R), argmax Rleb (map (fun a => (a + k)%R) T) = argmax Rleb T.
Proof. exact argmax_shift. Qed.

(* split_channel_data inverts join_channel_data on the supplied channels *)
Theorem C11_split_join :
  forall (N : Num) (ds : list nat) k skip (data : list (list N)),
    Forall2 (fun c d => length c = d)
            data (map snd (filter (fun kd => negb (existsb (Nat.eqb (fst kd)) skip)) (combine (seq k (length ds)) ds))) ->
    split_row k ds skip (join_row k ds skip data) = data.
Proof. exact @split_join. Qed.
(* prepare_data / restore_data with skipped channels: each supplied channel is prepared and restored by its OWN
   module (the j-th block belongs to the j-th supplied channel), so they are mutually inverse on the supplied channels
   whenever every module's own prepare / restore are *)
Theorem C11_restore_prepare_with_skips :
  forall (N : Num) (prep rest : nat -> list N -> list N) (ds skip : list nat) (raw : list (list N)),
    (forall i, In i (supplied 0 (length ds) skip) ->
               rest i (prep i (nth i raw [])) = nth i raw [] /\ length (prep i (nth i raw [])) = nth i ds 0) ->
    restore_row rest ds skip (prepare_row prep ds skip raw) = map (fun i => nth i raw []) (supplied 0 (length ds) skip).
Proof. exact @restore_prepare. Qed.
Print Assumptions C11_skip_independent.
(* the other direction: prepare_data applied to what restore_data returns (one block per supplied channel) *)
Theorem C11_prepare_restore_with_skips :
  forall (N : Num) (prep rest : nat -> list N -> list N) (ds skip : list nat) (row : list N),
    fold_right plus 0%nat ds <= length row ->
    (forall i b, In i (supplied 0 (length ds) skip) -> In b (split_row 0 ds skip row) -> prep i (rest i b) = b) ->
    split_row 0 ds skip (prepare_row_supplied prep ds skip (restore_row rest ds skip row)) = split_row 0 ds skip row.
Proof. exact @prepare_restore. Qed.
Theorem C11_prepare_takes_restored_data_in_its_own_form :
  forall (N : Num) (prep rest : nat -> list N -> list N) (ds skip : list nat) (row : list N),
    prepare_row_any prep ds skip (restore_row rest ds skip row) = prepare_row_supplied prep ds skip (restore_row rest ds skip row).
Proof. exact @prepare_any_of_restored. Qed.
Print Assumptions C11_restore_prepare_with_skips.
Print Assumptions C11_prepare_restore_with_skips.
Print Assumptions C11_argmax_shift.
Print Assumptions C11_activation_is_the_weighted_sum_of_the_remaining_channels.
Print Assumptions C11_split_join.

(* negative indices name channels from the end *)
Example C11_example_negative_index :
  forall (N : Num) (K : Kernel N), norm_skip [K; K; K] [(-1)%Z; 0%Z] = [2; 0].
Proof. reflexivity. Qed.
From Coq Require Import QArith.
Open Scope Q_scope.
Example C11_example_join :
  split_row (N:=QN) 0 [2; 1; 2]%nat [1%nat] (join_row (N:=QN) 0 [2; 1; 2]%nat [1%nat] ([[1#4; 3#4]; [1; 0]] : list (list QN)))
  = ([[1#4; 3#4]; [1; 0]] : list (list QN)).
Proof. vm_compute. reflexivity. Qed.

(* C07 - hyper-parameters are invariant under learning; match tracking is
   transient.  Statements only. *)
From Coq Require Import List Bool Arith.
From ART Require Import Num Vec Search Kernel BaseArt BaseArt_proofs Fuzzy.
Import ListNotations.

(* a training step restores the vigilance on every exit path (resonance, new
   category, abandoned search, empty model), for every kernel, mode, epsilon, veto *)
Theorem C07_step_restores :
  forall (N : Num) (K : Kernel N) s x veto m eps s' c vl,
    step_fit K s x veto m eps = Some (s', c, vl) -> rho s' = rho s.
Proof. intros N K s x veto m eps s' c vl H. exact (proj1 (step_fit_frame K _ _ _ _ _ _ _ _ H)). Qed.

Theorem C07_fit_invariant :
  forall (N : Num) (K : Kernel N) s X veto m eps s' ls,
    fit K s X veto m eps = Some (s', ls) -> rho s' = rho s.
Proof. exact @fit_rho. Qed.

Theorem C07_partial_fit_invariant :
  forall (N : Num) (K : Kernel N) s X veto m eps s' ls,
    partial_fit K s X veto m eps = Some (s', ls) -> rho s' = rho s.
Proof. exact @partial_fit_rho. Qed.
Print Assumptions C07_step_restores.
Print Assumptions C07_fit_invariant.
Print Assumptions C07_partial_fit_invariant.

(* non-vacuity: a step in which match tracking raised the vigilance (the reset
   function saw rho = 1 for the second candidate) and the state has rho = 1/4 again *)
From Coq Require Import QArith.
Open Scope Q_scope.
Example C07_example :
  let s := @mkSt QN [[1#2; 1#2; 1#2; 1#2]; [1#2; 1#2; 1#2; 1#2]] [0; 1]%nat [1; 1]%nat 2%nat [1#4] true (Some 4%nat) in
  option_map (fun r => (rho (fst (fst r)), snd r))
    (step_fit (@fuzzyK QN (1#1024) 1) s ([1#2; 1#2; 1#2; 1#2] : list QN)
              (Some (fun c => negb (Nat.eqb c 0))) MTplus (0 : QN))
  = Some ([1#4] : list QN, [(0%nat, [1#4] : list QN); (1%nat, [1] : list QN)]).
Proof. vm_compute. reflexivity. Qed.

(* ---- the compound estimators: every training call leaves the wrapped module's vigilance as configured, for every
        kernel, mode, epsilon and reset function (FusionART is a kernel of the BaseART machine: the theorems above
        apply to its vector of channel vigilances) ---- *)
From ART Require Import SimpleARTMAP DualVig Topo Wrap_rho.
Theorem C07_simpleartmap_fit_restores :
  forall (N : Num) (K : Kernel N) (s s' : sam (N:=N)) X y iters m eps,
    sam_fit K s X y iters m eps = Some s' -> rho (A s') = rho (A s).
Proof. exact @sam_fit_rho. Qed.
Theorem C07_simpleartmap_partial_fit_restores :
  forall (N : Num) (K : Kernel N) (s s' : sam (N:=N)) X y m eps,
    sam_partial_fit K s X y m eps = Some s' -> rho (A s') = rho (A s).
Proof. exact @sam_partial_fit_rho. Qed.
Theorem C07_dualvigilance_fit_restores :
  forall (N : Num) (K : Kernel N) (s s' : dv (N:=N)) X veto mode eps lb ls,
    dv_fit K s X veto mode eps lb = Some (s', ls) -> rho (DB s') = rho (DB s).
Proof. exact @dv_fit_rho. Qed.
Theorem C07_dualvigilance_partial_fit_restores :
  forall (N : Num) (K : Kernel N) (s s' : dv (N:=N)) X veto mode eps lb ls,
    dv_partial_fit K s X veto mode eps lb = Some (s', ls) -> rho (DB s') = rho (DB s).
Proof. exact @dv_partial_fit_rho. Qed.
Theorem C07_topoart_fit_restores :
  forall (N : Num) (K Klow : Kernel N) tau phi (s s' : topo (N:=N)) X veto mode eps ls,
    topo_fit K Klow tau phi s X veto mode eps = Some (s', ls) -> rho (TB s') = rho (TB s).
Proof. exact @topo_fit_rho. Qed.
Print Assumptions C07_simpleartmap_fit_restores.
Print Assumptions C07_dualvigilance_fit_restores.
Print Assumptions C07_topoart_fit_restores.

(* C01 - Resonance search: best vigilance-passing, non-vetoed category wins
   (ties to the oldest), else exactly one new category; no other weight
   changes; match tracking adjusts the vigilance only within the sample's
   search.  Statements only; proofs live in theories/. *)
From Coq Require Import List Bool Arith.
From ART Require Import Num Vec Search Search_proofs Kernel BaseArt BaseArt_proofs Fuzzy.
Import ListNotations.

(* the NaN-masking while loop = a left-to-right scan of the visiting order,
   for every activation type, vigilance state, match test, veto and tracking rule *)
Theorem C01_search_is_scan :
  forall (A V : Type) (leb : A -> A -> bool) mbin veto_ok track fuel (v : V) (T : list (option A)),
    search leb mbin veto_ok track fuel v T = scan mbin veto_ok track (order leb fuel T) v.
Proof. exact search_eq_scan. Qed.
Print Assumptions C01_search_is_scan.

(* np.nanargmax picks the oldest maximiser *)
Theorem C01_nanargmax_first_max :
  forall (A : Type) (leb : A -> A -> bool),
    (forall a b, leb a b = true \/ leb b a = true) ->
    (forall a b c, leb a b = true -> leb b c = true -> leb a c = true) ->
    forall T, match nanargmax leb T with
              | Some c => exists a, is_first_max A leb T c a
              | None => forall j, j < length T -> nth_error T j = Some None
              end.
Proof. exact nanargmax_spec. Qed.
Print Assumptions C01_nanargmax_first_max.

(* the visiting order enumerates exactly the live categories, once each,
   by decreasing activation, ties by increasing index; length T iterations suffice *)
Theorem C01_order_sound :
  forall A leb, (forall a b : A, leb a b = true \/ leb b a = true) ->
    (forall a b c, leb a b = true -> leb b c = true -> leb a c = true) ->
    forall fuel T c, In c (order leb fuel T) -> exists a, live A T c a.
Proof. exact order_sound. Qed.
Theorem C01_order_complete :
  forall A leb, (forall a b : A, leb a b = true \/ leb b a = true) ->
    (forall a b c, leb a b = true -> leb b c = true -> leb a c = true) ->
    forall T c a, live A T c a -> In c (order leb (length T) T).
Proof. exact order_full. Qed.
Theorem C01_order_nodup :
  forall A leb, (forall a b : A, leb a b = true \/ leb b a = true) ->
    (forall a b c, leb a b = true -> leb b c = true -> leb a c = true) ->
    forall fuel T, NoDup (order leb fuel T).
Proof. exact order_nodup. Qed.
Theorem C01_order_sorted :
  forall A leb, (forall a b : A, leb a b = true \/ leb b a = true) ->
    (forall a b c, leb a b = true -> leb b c = true -> leb a c = true) ->
    forall fuel T, ForallOrdPairs (before_ok A leb T) (order leb fuel T).
Proof. exact order_sorted. Qed.
Print Assumptions C01_order_sorted.

(* what the scan decides: the reset function sees exactly the visited prefix
   with the vigilance in force (raised/lowered by match tracking only within
   this search); the winner is the first visited category that passes the
   vigilance in force and is not vetoed, and it ends the search *)
Theorem C01_scan_decides :
  forall (V : Type) mbin veto_ok track l (v : V),
    s_log V (scan mbin veto_ok track l v) = vig_at V mbin veto_ok track l v /\
    s_win V (scan mbin veto_ok track l v) =
      option_map fst (find (qualifies V mbin veto_ok) (s_log V (scan mbin veto_ok track l v))) /\
    (forall c, s_win V (scan mbin veto_ok track l v) = Some c ->
       exists pre vc, s_log V (scan mbin veto_ok track l v) = pre ++ [(c, vc)] /\
                      forallb (fun e => negb (qualifies V mbin veto_ok e)) pre = true).
Proof. exact scan_spec. Qed.
Print Assumptions C01_scan_decides.

(* without a reset function: the winner is the highest-activation category
   passing vigilance, ties to the oldest; no winner iff no category passes *)
Theorem C01_noveto_winner :
  forall A V leb, (forall a b : A, leb a b = true \/ leb b a = true) ->
    (forall a b c, leb a b = true -> leb b c = true -> leb a c = true) ->
    forall mbin track T (v : V) c,
    fst (fst (search leb mbin no_veto track (length T) v T)) = Some c ->
    exists a, live A T c a /\ mbin v c = true /\
      forall j b, live A T j b -> mbin v j = true -> leb b a = true /\ (leb a b = true -> c <= j).
Proof. exact search_noveto_winner. Qed.
Theorem C01_noveto_none :
  forall A V leb, (forall a b : A, leb a b = true \/ leb b a = true) ->
    (forall a b c, leb a b = true -> leb b c = true -> leb a c = true) ->
    forall mbin track T (v : V),
    fst (fst (search leb mbin no_veto track (length T) v T)) = None ->
    forall j b, live A T j b -> mbin v j = false.
Proof. exact search_noveto_none. Qed.
Print Assumptions C01_noveto_winner.

(* a training step, for every kernel: either the winner's weight is replaced
   by its update, or exactly one new weight is appended; every other weight,
   the labels and the vigilance parameter are untouched *)
Theorem C01_step_frame :
  forall (N : Num) (K : Kernel N) s x veto m eps s' c vl,
    step_fit K s x veto m eps = Some (s', c, vl) ->
    rho s' = rho s /\ sc s' = S (sc s) /\ labels s' = labels s /\ hasW s' = hasW s /\ dim s' = dim s /\
    step_outcome K s s' x c.
Proof. exact @step_fit_frame. Qed.
Theorem C01_others_untouched :
  forall (N : Num) (K : Kernel N) s x veto m eps s' c vl,
    step_fit K s x veto m eps = Some (s', c, vl) ->
    forall j, j <> c -> j < length (W s) -> nth_error (W s') j = nth_error (W s) j.
Proof. exact @step_fit_others_untouched. Qed.
Theorem C01_step_is_scan :
  forall (N : Num) (K : Kernel N) s x veto m eps s' c vl,
    step_fit K s x veto m eps = Some (s', c, vl) -> W s <> [] ->
    exists Ts, activations K (W s) x (mask_fun m veto) = Some Ts /\
      let Ms := map (k_match K x) (W s) in
      let r := scan (mbin Ms m (k_inv K)) (veto_fun m veto) (track Ms m eps (k_inv K))
                    (order nleb (length (W s)) Ts) (rho s) in
      (fst (fst r) = Some c /\ c < length (W s)) \/ (fst (fst r) = None /\ c = length (W s)).
Proof. exact @step_fit_is_scan. Qed.
Print Assumptions C01_step_is_scan.

(* ---- non-vacuity: a 3-category Fuzzy ART state with an activation tie, one
   vetoed passing winner (MT+ raises rho to its match) and a later winner ---- *)
From Coq Require Import QArith.
Open Scope Q_scope.
Definition exK : Kernel QN := @fuzzyK QN (1#1024) 1.
Definition exS : st (N:=QN) :=
  @mkSt QN [[1#2; 1#2; 1#2; 1#2]; [1#2; 1#2; 1#2; 1#2]; [1#4; 1#4; 1#4; 1#4]]
        [0; 1; 2]%nat [1; 1; 1]%nat 3%nat [1#4] true (Some 4%nat).
Example C01_example_tie_veto :
  (* categories 0 and 1 tie; 0 is vetoed, so MT+ raises rho to M_0 = 1 and 1 (M = 1 >= 1) wins *)
  option_map (fun r => (snd (fst r), snd r))
     (step_fit exK exS ([1#2; 1#2; 1#2; 1#2] : list QN) (Some (fun c => negb (Nat.eqb c 0))) MTplus (0 : QN))
  = Some (1%nat, [(0%nat, [1#4] : list QN); (1%nat, [1] : list QN)]).
Proof. vm_compute. reflexivity. Qed.
Example C01_example_mt0_strict :
  (* same situation under MT0: the raised vigilance is tested strictly, 1 fails, 2 fails, new category 3 *)
  option_map (fun r => snd (fst r))
     (step_fit exK exS ([1#2; 1#2; 1#2; 1#2] : list QN) (Some (fun c => negb (Nat.eqb c 0))) MT0 (0 : QN))
  = Some 3%nat.
Proof. vm_compute. reflexivity. Qed.

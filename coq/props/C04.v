(* C04 - training is total and numerically well-defined.  Statements only.
   The model's kernels are written in an error monad (a zero divisor, a
   missing value or an out-of-range index is None); "defined" = never None.
   Overflow / underflow / cancellation are binary64 phenomena outside the
   exact-arithmetic model (partial; watched on the implementation). *)
From Coq Require Import List Bool Arith Reals.
From ART Require Import Num NumR Vec Search Kernel BaseArt Total Total_R Fuzzy ART2A Hyper.
Import ListNotations.
Open Scope nat_scope.

(* for every kernel: a step is defined whenever the kernel functions are
   defined on the stored weights - every index the search produces is in
   range, every visited match value exists *)
Theorem C04_step_defined :
  forall (N : Num) (K : Kernel N),
    (forall a b : N, nleb a b = true \/ nleb b a = true) ->
    (forall a b c : N, nleb a b = true -> nleb b c = true -> nleb a c = true) ->
    forall (s : st (N:=N)) x veto m eps,
    (forall w, In w (W s) -> k_choice K (W s) x w <> None) ->
    (forall w, In w (W s) -> all_some (k_match K x w) = true) ->
    (forall w, In w (W s) -> k_update K x w <> None) ->
    k_new K x <> None ->
    step_fit K s x veto m eps <> None.
Proof. exact @step_fit_defined. Qed.
Print Assumptions C04_step_defined.

Open Scope R_scope.
Theorem C04_fuzzy_total :
  forall (alpha beta : R) (s : st (N:=RN)) x veto m eps,
    0 < alpha -> (2 <= length x)%nat -> step_fit (@fuzzyK RN alpha beta) s x veto m eps <> None.
Proof. exact fuzzy_step_total. Qed.
Theorem C04_art2a_total :
  forall (alpha beta : R) (s : st (N:=RN)) x veto m eps, step_fit (@art2K RN alpha beta) s x veto m eps <> None.
Proof. exact art2a_step_total. Qed.
Theorem C04_hypersphere_total :
  forall (alpha beta r_hat : R) (s : st (N:=RN)) x veto m eps,
    0 < r_hat -> (forall w, In w (W s) -> 0 < r_hat - @hs_radius RN w + alpha) ->
    step_fit (@hyperK RN alpha beta r_hat) s x veto m eps <> None.
Proof. exact hyper_step_total. Qed.
Print Assumptions C04_fuzzy_total.

(* the repaired Hypersphere update is defined on a repeated sample (the code
   before the fix divided 0 by 0 here) *)
From Coq Require Import QArith.
Open Scope Q_scope.
Example C04_example_duplicate :
  @hs_update QN (1 : QN) ([1#2; 1#2] : list QN) ([1#2; 1#2; 0] : list QN) = Some ([1#2; 1#2; 0] : list QN).
Proof. vm_compute. reflexivity. Qed.

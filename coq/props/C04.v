(* C04 - training is total and numerically well-defined.  Statements only.
   The model's kernels are written in an error monad (a zero divisor, a
   missing value or an out-of-range index is None); "defined" = never None.
   Overflow / underflow / cancellation are binary64 phenomena outside the
   exact-arithmetic model (partial; watched on the implementation). *)
From Coq Require Import List Bool Arith Reals.
From ART Require Import Num NumR Vec Search Kernel BaseArt Total Total_R Total_fit Fuzzy ART2A ART1 ART1_total Hyper Bounds_R Hyper_total Ellip_total Gauss Gauss_total DualVig DualVig_total Topo Topo_total.
Import ListNotations.
Open Scope nat_scope.

(* for every kernel: a step is defined whenever the kernel functions are
   defined on the stored weights - every index the search produces is in
   range, every visited match value exists *)
Theorem C04_step_defined :
  forall (N : Num) (K : Kernel N),
    (forall a b : N, nleb a b = true \/ nleb b a = true) ->
    (forall a b c : N, nleb a b = true -> nleb b c = true -> nleb a c = true) ->
    forall (s : st (N:=N)) x veto m eps,
    (forall w, In w (W s) -> k_choice K (W s) x w <> None) ->
    (forall w, In w (W s) -> all_some (k_match K x w) = true) ->
    (forall w, In w (W s) -> k_update K x w <> None) ->
    k_new K x <> None ->
    step_fit K s x veto m eps <> None.
Proof. exact @step_fit_defined. Qed.
Print Assumptions C04_step_defined.

Open Scope R_scope.
Theorem C04_fuzzy_total :
  forall (alpha beta : R) (s : st (N:=RN)) x veto m eps,
    0 < alpha -> (2 <= length x)%nat -> step_fit (@fuzzyK RN alpha beta) s x veto m eps <> None.
Proof. exact fuzzy_step_total. Qed.
Theorem C04_art2a_total :
  forall (alpha beta : R) (s : st (N:=RN)) x veto m eps, step_fit (@art2K RN alpha beta) s x veto m eps <> None.
Proof. exact art2a_step_total. Qed.
Theorem C04_hypersphere_total :
  forall (alpha beta r_hat : R) (s : st (N:=RN)) x veto m eps,
    0 < r_hat -> (forall w, In w (W s) -> 0 < r_hat - @hs_radius RN w + alpha) ->
    step_fit (@hyperK RN alpha beta r_hat) s x veto m eps <> None.
Proof. exact hyper_step_total. Qed.
(* whole calls: every data set that passes the estimator's own validation can be fitted and incrementally fitted,
   from every state, for every mode / epsilon / reset function; and predicted once a category exists *)
Theorem C04_fuzzy_fit_total :
  forall (alpha beta : R) (s : st (N:=RN)) X veto m eps,
    0 < alpha -> valid (@fuzzyK RN alpha beta) s X = true -> Forall (fun x => (2 <= length x)%nat) X ->
    fit (@fuzzyK RN alpha beta) s X veto m eps <> None /\ partial_fit (@fuzzyK RN alpha beta) s X veto m eps <> None.
Proof. exact fuzzy_fit_total. Qed.
Theorem C04_art2a_fit_total :
  forall (alpha beta : R) (s : st (N:=RN)) X veto m eps,
    valid (@art2K RN alpha beta) s X = true ->
    fit (@art2K RN alpha beta) s X veto m eps <> None /\ partial_fit (@art2K RN alpha beta) s X veto m eps <> None.
Proof. exact art2a_fit_total. Qed.
Theorem C04_fuzzy_predict_total :
  forall (alpha beta : R) (s : st (N:=RN)) X,
    0 < alpha -> hasW s = true -> W s <> [] -> valid (@fuzzyK RN alpha beta) s X = true ->
    predict (@fuzzyK RN alpha beta) s X <> None.
Proof. exact fuzzy_predict_total. Qed.
(* Hypersphere ART: under every mode whose match tracking never lowers the vigilance (no reset function, MT+ with
   eps >= 0, MT0, MT1, MT~) the stored radii stay within r_hat (1 - rho), so - with alpha > 0, or rho > 0 - the
   denominators never vanish and fit / partial_fit are defined on every valid data set *)
Theorem C04_hypersphere_fit_total :
  forall (alpha beta r_hat : R), 0 <= beta <= 1 -> 0 < r_hat ->
  forall (s : st (N:=RN)) X veto m eps rho0,
    raising m eps -> 0 <= rho0 <= 1 -> (0 < alpha \/ (0 <= alpha /\ 0 < rho0)) -> rho s = [rho0] ->
    valid (@hyperK RN alpha beta r_hat) s X = true -> fit (@hyperK RN alpha beta r_hat) s X veto m eps <> None.
Proof. exact hyper_fit_total. Qed.
Theorem C04_hypersphere_partial_fit_total :
  forall (alpha beta r_hat : R), 0 <= beta <= 1 -> 0 < r_hat ->
  forall (s : st (N:=RN)) X veto m eps rho0,
    raising m eps -> 0 <= rho0 <= 1 -> (0 < alpha \/ (0 <= alpha /\ 0 < rho0)) -> HInv r_hat rho0 s ->
    valid (@hyperK RN alpha beta r_hat) s X = true -> partial_fit (@hyperK RN alpha beta r_hat) s X veto m eps <> None.
Proof. exact hyper_partial_fit_total. Qed.
(* ART1 with L > 1 on non-zero rows (the quantifier's standing assumption) *)
Theorem C04_art1_fit_total :
  forall (L : R) (s : st (N:=RN)) X veto m eps,
    1 < L -> valid (@art1K RN L) s X = true -> Forall nonzero_row X ->
    fit (@art1K RN L) s X veto m eps <> None /\ partial_fit (@art1K RN L) s X veto m eps <> None.
Proof. exact art1_fit_total. Qed.
(* Ellipsoid ART: same argument with the bound r_hat (1 - rho) / 2 on the radii; mu <> 0 *)
Theorem C04_ellipsoid_fit_total :
  forall (alpha beta mu r_hat : R), 0 <= beta <= 1 -> 0 < r_hat -> mu <> 0 ->
  forall (s : st (N:=RN)) X veto m eps rho0,
    raising m eps -> 0 <= rho0 <= 1 -> (0 < alpha \/ (0 <= alpha /\ 0 < rho0)) -> rho s = [rho0] ->
    valid (@ellipK RN alpha beta mu r_hat) s X = true -> fit (@ellipK RN alpha beta mu r_hat) s X veto m eps <> None.
Proof. exact ellip_fit_total. Qed.
(* Gaussian ART: every stored weight keeps its layout with positive standard deviations and a count >= 1, so no
   division by zero can occur (alpha >= 0, sigma_init > 0 of the data width d) *)
Theorem C04_gaussian_fit_total :
  forall (sigma_init : list R) (alpha : R) (d : nat),
    0 <= alpha -> length sigma_init = d -> Forall (fun a => 0 < a) sigma_init ->
  forall (s : st (N:=RN)) X veto m eps,
    valid (@gaussK RN sigma_init alpha) s X = true -> Forall (fun x => length x = d) X ->
    fit (@gaussK RN sigma_init alpha) s X veto m eps <> None.
Proof. exact gauss_fit_total. Qed.
(* ---- compound estimators: TopoART and DualVigilanceART over Fuzzy ART (alpha > 0) are defined on every data set
        that passes validation, from every state the API can reach ---- *)
Theorem C04_topoart_fit_total :
  forall (alpha beta beta_lower : R) tau phi (s : topo (N:=RN)) X veto mode eps,
    0 < alpha -> valid (@fuzzyK RN alpha beta) (TB s) X = true -> Forall (fun x => (2 <= length x)%nat) X ->
    topo_fit (@fuzzyK RN alpha beta) (@fuzzyK RN alpha beta_lower) tau phi s X veto mode eps <> None.
Proof. exact topo_fuzzy_fit_total. Qed.
Theorem C04_dualvigilance_fit_total :
  forall (alpha beta : R) (s : dv (N:=RN)) X veto mode eps lb,
    0 < alpha -> valid (@fuzzyK RN alpha beta) (DB s) X = true -> Forall (fun x => (2 <= length x)%nat) X ->
    dv_fit (@fuzzyK RN alpha beta) s X veto mode eps lb <> None /\
    (DOk s -> dv_partial_fit (@fuzzyK RN alpha beta) s X veto mode eps lb <> None).
Proof. exact dv_fuzzy_fit_total. Qed.
Print Assumptions C04_topoart_fit_total.
Print Assumptions C04_dualvigilance_fit_total.
Print Assumptions C04_fuzzy_total.
Print Assumptions C04_fuzzy_fit_total.
Print Assumptions C04_hypersphere_fit_total.

(* the repaired Hypersphere update is defined on a repeated sample (the code
   before the fix divided 0 by 0 here) *)
From Coq Require Import QArith.
Open Scope Q_scope.
Example C04_example_duplicate :
  @hs_update QN (1 : QN) ([1#2; 1#2] : list QN) ([1#2; 1#2; 0] : list QN) = Some ([1#2; 1#2; 0] : list QN).
Proof. vm_compute. reflexivity. Qed.

(* C05 - labels, cluster count and per-category counters stay mutually
   consistent over every history of fit / partial_fit calls.  Statements only. *)
From Coq Require Import List Bool Arith.
From ART Require Import Num Vec Search Kernel BaseArt BaseArt_proofs BaseArt_book Fuzzy BaseArt_epochs.
Import ListNotations.

(* one presented sample preserves the book-keeping relation, for every kernel *)
Theorem C05_book_step :
  forall (N : Num) (K : Kernel N) s L x veto m eps s' c vl,
    Book s L -> step_fit K s x veto m eps = Some (s', c, vl) -> Book s' (L ++ [c]).
Proof. exact @book_step. Qed.

Theorem C05_fit_establishes :
  forall (N : Num) (K : Kernel N) s X veto m eps s' ls,
    fit K s X veto m eps = Some (s', ls) ->
    Inv s' /\ length (labels s') = length X /\ hasW s' = true.
Proof. exact @fit_inv. Qed.

Theorem C05_partial_fit_preserves :
  forall (N : Num) (K : Kernel N) s X veto m eps s' ls,
    Inv s -> partial_fit K s X veto m eps = Some (s', ls) ->
    Inv s' /\ length (labels s') = length (labels s) + length X /\ hasW s' = true.
Proof. exact @partial_fit_inv. Qed.

(* every state reachable by any sequence of fit / partial_fit calls, any batch sizes *)
Theorem C05_reachable :
  forall (N : Num) (K : Kernel N) r s, reach K r s -> Inv s.
Proof. exact @reach_inv. Qed.

(* the invariant in the property's words: every label indexes an existing
   category, none is empty, categories are numbered in order of creation,
   counters = label histogram, sample counter = number of labels *)
Theorem C05_meaning :
  forall (N : Num) (s : st (N:=N)), Inv s ->
    length (wsc s) = length (W s) /\
    Forall (fun l => l < length (W s)) (labels s) /\
    (forall c, c < length (W s) -> In c (labels s)) /\
    rgs 0 (labels s) = Some (length (W s)) /\
    (forall c, c < length (W s) -> nth c (wsc s) 0 = count_occ Nat.eq_dec (labels s) c) /\
    sc s = length (labels s).
Proof. exact @inv_consequences. Qed.

Theorem C05_counters_total :
  forall (N : Num) (s : st (N:=N)), Inv s ->
    fold_right plus 0 (map (fun c => nth c (wsc s) 0) (seq 0 (length (W s)))) = sc s.
Proof. exact @counters_total. Qed.
(* several epochs (fit(X, max_iter > 1)): what the book-keeping is about then - the whole history L of assignments
   (every sample of every epoch): categories numbered in order of first use in L, counters = histogram of L,
   sample_counter_ = |L| = epochs * n, labels_ = the last epoch's part of L *)
Theorem C05_several_epochs_book :
  forall (N : Num) (K : Kernel N) s X iters veto m eps s' ls,
    fit_iters K s X iters veto m eps = Some (s', ls) ->
    exists L, length L = iters * length X /\ Book s' L /\ sc s' = length L /\
              labels s' = skipn (length L - length X) L /\ length (labels s') = length X.
Proof. exact @fit_iters_book. Qed.
Theorem C05_several_epochs_labels_in_range :
  forall (N : Num) (K : Kernel N) s X iters veto m eps s' ls,
    fit_iters K s X iters veto m eps = Some (s', ls) ->
    length (wsc s') = length (W s') /\ Forall (fun l => l < length (W s')) (labels s') /\ sc s' = iters * length X.
Proof. exact @fit_iters_labels_in_range. Qed.
Print Assumptions C05_several_epochs_book.
Print Assumptions C05_reachable.
Print Assumptions C05_meaning.
Print Assumptions C05_counters_total.

(* ---- the A side of SimpleARTMAP / ARTMAP (the quantifier names the A/B sides of the ARTMAP family; the B side of
        ARTMAP is a plain BaseART, covered above): a one-epoch fit establishes, and every partial_fit preserves, the
        same invariant on the A-side module, together with "one stored target per A-side label" ---- *)
From ART Require Import SimpleARTMAP SAM_hist SAM_book.
Theorem C05_simpleartmap_fit_establishes :
  forall (N : Num) (K : Kernel N) (s s' : sam (N:=N)) X y m eps,
    sam_fit K s X y 1 m eps = Some s' -> Inv (A s') /\ counted s' /\ hasW (A s') = hasL s'.
Proof. exact @sam_fit_inv. Qed.
Theorem C05_simpleartmap_partial_fit_preserves :
  forall (N : Num) (K : Kernel N) (s s' : sam (N:=N)) X y m eps,
    Inv (A s) -> counted s -> hasW (A s) = hasL s ->
    sam_partial_fit K s X y m eps = Some s' -> Inv (A s') /\ counted s' /\ hasW (A s') = hasL s'.
Proof. exact @sam_partial_fit_inv. Qed.
Print Assumptions C05_simpleartmap_partial_fit_preserves.

(* non-vacuity: a reachable 2-category state *)
From Coq Require Import QArith.
Open Scope Q_scope.
Example C05_example :
  exists s ls, fit (@fuzzyK QN (1#1024) 1) (@init QN [3#4])
                   ([[0; 1]; [1; 0]; [0; 1]] : list (list QN)) (fun _ => None) MTplus (0 : QN) = Some (s, ls)
               /\ labels s = [0; 1; 0]%nat /\ wsc s = [2; 1]%nat /\ sc s = 3%nat.
Proof. eexists. eexists. vm_compute. repeat split. Qed.

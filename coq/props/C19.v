(* C19 - estimator protocol: parameters round-trip and a model owns its state.
   Statements only.  PARTIAL: the protocol model covers BaseART's
   get_params/set_params/attribute mirroring (theories/Params.v) and an
   ownership model of stored arrays; sklearn.clone, copy.deepcopy and pickle
   are third-party and are exercised on the implementation, not modelled. *)
From Coq Require Import List Bool Arith String.
From ART Require Import Params Params_proofs Params_nested.
Import ListNotations.

Theorem C19_set_get_noop :
  forall (V : Type) pvalid (p : params V), NoDup (map fst p) ->
    set_params V pvalid p (get_params V p) = (p, match p with [] => true | _ => pvalid p end).
Proof. exact set_get_noop. Qed.
Theorem C19_unknown_name_rejected :
  forall (V : Type) pvalid (p : params V) k v, has V p k = false -> snd (set_params V pvalid p [(k, v)]) = false.
Proof. exact set_unknown_rejected. Qed.
Theorem C19_out_of_range_rejected :
  forall (V : Type) pvalid (p : params V) kw p',
    kw <> [] -> assign V p kw = (p', true) -> pvalid p' = false -> snd (set_params V pvalid p kw) = false.
Proof. exact set_invalid_rejected. Qed.
Theorem C19_rejected_call_changes_nothing :
  forall (V : Type) pvalid (p : params V) kw, snd (set_params V pvalid p kw) = false -> fst (set_params V pvalid p kw) = p.
Proof. exact set_rejected_unchanged. Qed.
Theorem C19_accepted_call_installs_valid_values :
  forall (V : Type) pvalid (p : params V) kw p', kw <> [] -> set_params V pvalid p kw = (p', true) ->
    assign V p kw = (p', true) /\ pvalid p' = true.
Proof. exact set_accepted. Qed.
Theorem C19_set_then_attribute_mirrors :
  forall (V : Type) pvalid (p : params V) k v, has V p k = true -> pvalid (pset V p k v) = true ->
    getattr V (fst (set_params V pvalid p [(k, v)])) k = Some v /\
    (forall k', k <> k' -> getattr V (fst (set_params V pvalid p [(k, v)])) k' = getattr V p k') /\
    map fst (fst (set_params V pvalid p [(k, v)])) = map fst p.
Proof. exact set_then_attr. Qed.
Theorem C19_owned_state_unaffected_by_mutation :
  forall (A : Type) (W : list (cell A)) (X X' : list A) (d : A),
    forallb (owned A) W = true -> map (resolve A X d) W = map (resolve A X' d) W.
Proof. exact @ownership_frame. Qed.
(* estimators with sub-estimators (BaseART.set_params / BARTMAP.set_params): own parameters, module replacement and
   nested values in one call *)
Theorem C19_nested_unknown_name_changes_nothing :
  forall (V : Type) pvalid_own pvalid_sub (e : est V) kw,
    kw <> [] -> forallb (known V e) kw = false -> set_params_n V pvalid_own pvalid_sub e kw = (e, false).
Proof. exact unknown_name_changes_nothing. Qed.
Theorem C19_nested_invalid_own_value_changes_nothing :
  forall (V : Type) pvalid_own pvalid_sub (e : est V) kw,
    kw <> [] -> forallb (known V e) kw = true -> pvalid_own (own_after V e kw) = false ->
    set_params_n V pvalid_own pvalid_sub e kw = (e, false).
Proof. exact invalid_own_changes_nothing. Qed.
Theorem C19_replaced_module_receives_the_nested_value :
  forall (V : Type) pvalid_own pvalid_sub (e : est V) m pnew k v (swap : bool),
    has (params V) (e_subs V e) m = true ->
    pvalid_own (e_own V e) = true ->
    set_params V (pvalid_sub m) pnew [(k, v)] = (pset V pnew k v, true) ->
    let kw := if swap then [ANest V m k v; ARepl V m pnew] else [ARepl V m pnew; ANest V m k v] in
    set_params_n V pvalid_own pvalid_sub e kw
    = ({| e_own := e_own V e; e_subs := pset (params V) (e_subs V e) m (pset V pnew k v) |}, true).
Proof. exact replaced_module_receives_the_nested_value. Qed.
Print Assumptions C19_replaced_module_receives_the_nested_value.
Print Assumptions C19_set_get_noop.
Print Assumptions C19_owned_state_unaffected_by_mutation.
Print Assumptions C19_rejected_call_changes_nothing.
Print Assumptions C19_accepted_call_installs_valid_values.

Open Scope string_scope.
Example C19_example :
  let valid := fun p : list (string * nat) => match pget nat p "rho" with Some r => Nat.leb r 8 | None => false end in
  set_params nat valid [("rho", 4); ("beta", 8)] [("rho", 6)] = ([("rho", 6); ("beta", 8)], true) /\
  set_params nat valid [("rho", 4); ("beta", 8)] [("rho", 9)] = ([("rho", 4); ("beta", 8)], false) /\
  snd (set_params nat valid [("rho", 4); ("beta", 8)] [("gamma", 1)]) = false.
Proof. vm_compute. repeat split. Qed.

(* "set_params with new values makes the estimator behave exactly like one constructed with them", for an estimator WITH
   a training history: a used model given a new vigilance and fitted = a freshly constructed model with that vigilance,
   fitted (BaseART-style modules, DualVigilanceART, TopoART, SimpleARTMAP; wave-7 seeds C05_7 / C19_7 / C14_7) *)
From ART Require Import Num Vec Search Kernel BaseArt BaseArt_hist SimpleARTMAP DualVig Topo DualVig_refit Params_refit.
Theorem C19_new_vigilance_on_a_used_module_then_fit :
  forall (N : Num) (K : Kernel N) (s : st (N:=N)) r X veto m eps,
    valid K (set_rho s r) X = true -> valid K (init r) X = true ->
    match fit K (set_rho s r) X veto m eps, fit K (init r) X veto m eps with
    | Some (a, la), Some (b, lb) => tr a = tr b /\ labels a = labels b /\ hasW a = hasW b /\ la = lb
    | None, None => True
    | _, _ => False
    end.
Proof. exact @set_rho_then_fit. Qed.
Theorem C19_new_vigilance_on_a_used_dualvigilance_then_fit :
  forall (N : Num) (K : Kernel N) (s : dv (N:=N)) r X veto mode eps lb,
    X <> [] -> valid K (set_rho (DB s) r) X = true -> valid K (DB (dv_init r)) X = true ->
    match dv_fit K (set_DB s (set_rho (DB s) r)) X veto mode eps lb, dv_fit K (dv_init r) X veto mode eps lb with
    | Some (a, la), Some (b, lb') => same_model a b /\ la = lb'
    | None, None => True
    | _, _ => False
    end.
Proof. exact @dv_set_rho_then_fit. Qed.
Theorem C19_new_vigilance_on_a_used_topoart_then_fit :
  forall (N : Num) (K Klow : Kernel N) (tau phi : nat) (s : topo (N:=N)) r X veto mode eps,
    X <> [] -> valid K (set_rho (TB s) r) X = true -> valid K (TB (topo_init r)) X = true ->
    topo_fit K Klow tau phi {| TB := set_rho (TB s) r; tlab := tlab s; adj := adj s; perm := perm s |} X veto mode eps
    = topo_fit K Klow tau phi (topo_init r) X veto mode eps.
Proof. exact @topo_set_rho_then_fit. Qed.
Theorem C19_new_vigilance_on_a_used_simpleartmap_then_fit :
  forall (N : Num) (K : Kernel N) (s : sam (N:=N)) r X y iters m eps,
    sam_valid K {| A := set_rho (A s) r; mp := mp s; bl := bl s; hasL := hasL s |} X y = true ->
    sam_valid K (sam_init r) X y = true ->
    sam_fit K {| A := set_rho (A s) r; mp := mp s; bl := bl s; hasL := hasL s |} X y iters m eps = sam_fit K (sam_init r) X y iters m eps.
Proof. exact @sam_set_rho_then_fit. Qed.
Print Assumptions C19_new_vigilance_on_a_used_module_then_fit.
Print Assumptions C19_new_vigilance_on_a_used_dualvigilance_then_fit.
Print Assumptions C19_new_vigilance_on_a_used_topoart_then_fit.
Print Assumptions C19_new_vigilance_on_a_used_simpleartmap_then_fit.

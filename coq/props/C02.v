(* C02 - categories summarise exactly their members and respect the vigilance
   bound.  Statements only.  Arithmetic statements are at the real-number
   instance RN (exact arithmetic; binary64 rounding is outside, see DESIGN 3.1). *)
From Coq Require Import List Bool Arith Reals.
From ART Require Import Topo Topo_bound DualVig Wrap_bound Hyper Hyper_total Ellip_total DualVig_bound.
From ART Require Import Num NumR Vec Search Kernel BaseArt BaseArt_proofs BaseArt_folds
     Fuzzy Fuzzy_R Hyper Hyper_R ART1 ART1_R Bounds_R Hyper_total Fuzzy_fit_bound.
Import ListNotations.
Open Scope nat_scope.

(* for EVERY kernel: after one pass, category c is exactly the fold of the
   module's own update rule over exactly the rows labelled c, in order *)
Theorem C02_categories_are_folds :
  forall (N : Num) (K : Kernel N) s X veto m eps s' ls,
    fit K s X veto m eps = Some (s', ls) ->
    forall c, c < length (W s') -> nth_error (W s') c = fold_members K (members c X (labels s')).
Proof. exact @fit_categories_are_folds. Qed.

(* one-update facts lift to every weight of every reachable state / step *)
Theorem C02_lift_invariant :
  forall (N : Num) (K : Kernel N) (P : list N -> Prop),
    (forall x w, k_new K x = Some w -> k_valid K x = true -> P w) ->
    (forall x w w', P w -> k_valid K x = true -> k_update K x w = Some w' -> P w') ->
    (forall s X veto m eps s' ls, fit K s X veto m eps = Some (s', ls) -> Forall P (W s')) /\
    (forall s X veto m eps s' ls, Forall P (W s) -> partial_fit K s X veto m eps = Some (s', ls) -> Forall P (W s')).
Proof. intros N K P H1 H2. split; [exact (P_fit K P H1 H2)|exact (P_partial_fit K P H1 H2)]. Qed.
Theorem C02_lift_relation :
  forall (N : Num) (K : Kernel N) (R : list N -> list N -> Prop),
    (forall w, R w w) ->
    (forall x w w', k_valid K x = true -> k_update K x w = Some w' -> R w w') ->
    forall s x veto m eps s' c vl, k_valid K x = true -> step_fit K s x veto m eps = Some (s', c, vl) ->
    forall j w, nth_error (W s) j = Some w -> exists w', nth_error (W s') j = Some w' /\ R w w'.
Proof. exact @R_step. Qed.
Print Assumptions C02_categories_are_folds.

Open Scope R_scope.
(* ---- Fuzzy ART ---- *)
Theorem C02_fuzzy_weights_never_increase :
  forall beta, 0 <= beta <= 1 -> forall x w : list RN, length x = length w -> vle (@fuzzy_update RN beta x w) w.
Proof. exact fuzzy_update_le. Qed.
Theorem C02_fuzzy_fast_fold_is_meet :
  forall alpha (ms : list (list RN)),
    (forall m m', In m ms -> In m' ms -> length m = length m') ->
    fold_members (@fuzzyK RN alpha 1) ms = meet ms.
Proof. exact fuzzy_fold_is_meet. Qed.
(* exactly the bounding box: a lower bound of all members that is attained in every coordinate *)
Theorem C02_fuzzy_box_contains_members :
  forall (ms : list (list RN)) w,
    (forall m m', In m ms -> In m' ms -> length m = length m') -> meet ms = Some w -> Forall (fun m => vle w m) ms.
Proof. exact fuzzy_box_contains_members. Qed.
Theorem C02_fuzzy_box_tight :
  forall (ms : list (list RN)) w,
    (forall m m', In m ms -> In m' ms -> length m = length m') -> meet ms = Some w ->
    forall j, (j < length w)%nat -> exists m, In m ms /\ nth j w 0 = nth j m 0.
Proof. exact fuzzy_box_tight. Qed.
Theorem C02_fuzzy_enclosed_forever :
  forall beta, 0 <= beta <= 1 -> forall x y w : list RN,
    length y = length w -> vle w x -> @vmin RN x (@fuzzy_update RN beta y w) = @fuzzy_update RN beta y w.
Proof. exact fuzzy_enclosed_forever. Qed.
(* |w| >= rho * d for every category after every step, in every mode that never lowers the vigilance *)
Theorem C02_fuzzy_size_bound :
  forall alpha beta, 0 <= beta <= 1 ->
  forall (s : st (N:=RN)) x veto m eps s' c vl rho0 d,
    raising m eps -> rho s = [rho0] -> rho0 <= 1 -> 0 < d ->
    @dim_original RN x = d -> Forall (fun a => 0 <= a) x -> @vsum RN x = d ->
    Forall (fz_ok rho0 d (length x)) (W s) ->
    step_fit (@fuzzyK RN alpha beta) s x veto m eps = Some (s', c, vl) ->
    Forall (fz_ok rho0 d (length x)) (W s').
Proof. exact fuzzy_step_bound. Qed.
(* ... hence for every category of every state reached by fit on complement-coded rows *)
Theorem C02_fuzzy_size_bound_after_fit :
  forall alpha beta, 0 <= beta <= 1 ->
  forall (s : st (N:=RN)) X veto m eps rho0 d n s' ls,
    raising m eps -> rho0 <= 1 -> 0 < d -> rho s = [rho0] -> Forall (cc_row d n) X ->
    fit (@fuzzyK RN alpha beta) s X veto m eps = Some (s', ls) ->
    Forall (fun w => rho0 * d <= @l1norm RN w) (W s').
Proof. exact fuzzy_fit_size_bound. Qed.
Print Assumptions C02_fuzzy_size_bound.

(* ---- ART1 ---- *)
Theorem C02_art1_template_decreasing :
  forall x t : list R, binary t -> length x = length t -> vle (@vand RN x t) t.
Proof. exact art1_template_decreasing. Qed.
Theorem C02_art1_enclosed_forever :
  forall x y t : list R, length x = length t -> length y = length t ->
    @vand RN x t = t -> @vand RN x (@vand RN y t) = @vand RN y t.
Proof. exact art1_enclosed_forever. Qed.
Theorem C02_art1_update_form :
  forall (L : R) (x w : list R) w', @art1_update RN L x w = Some w' ->
    let t' := @vand RN x (@art1_td RN w (length x)) in
    exists k, w' = @vscale RN k t' ++ t' /\ k * (L - 1 + @l1norm RN t') = L.
Proof. exact art1_update_form. Qed.
Theorem C02_art1_cover :
  forall (x t : list R) rho, @l1norm RN x <> 0 -> 0 < @l1norm RN x ->
    rho <= @l1norm RN (@vand RN x t) / @l1norm RN x -> rho * @l1norm RN x <= @l1norm RN (@vand RN x t).
Proof. exact art1_cover. Qed.

(* ---- the base module of TopoART (the quantifier names it): through both winners' updates, new categories and every
        pruning round, every Fuzzy ART base category keeps |w| >= rho d, under every mode that never lowers the
        vigilance (true only since match tracking fires on vigilance-passing vetoed categories alone: /repo 79caf04) ---- *)
Theorem C02_topo_fuzzy_base_categories_obey_the_size_bound :
  forall (alpha beta beta_lower : R), 0 <= beta <= 1 -> 0 <= beta_lower <= 1 ->
  forall tau phi (s : topo (N:=RN)) X veto mode eps s' ls rho0 d n,
    raising mode eps -> rho0 <= 1 -> 0 < d -> rho (TB s) = [rho0] -> Forall (cc_ok d n) X ->
    topo_fit (@fuzzyK RN alpha beta) (@fuzzyK RN alpha beta_lower) tau phi s X veto mode eps = Some (s', ls) ->
    Forall (fz_ok rho0 d n) (W (TB s')) /\ rho (TB s') = [rho0].
Proof. exact topo_fuzzy_fit_bound. Qed.
Print Assumptions C02_topo_fuzzy_base_categories_obey_the_size_bound.

(* the same clause generically in the base module (Wrap_bound.v), instantiated for Hypersphere ART under TopoART and
   for Fuzzy / Hypersphere ART under DualVigilanceART, at the level of whole fit calls *)
Theorem C02_topo_hypersphere_base_categories_obey_the_radius_bound :
  forall (alpha beta beta_lower r_hat rho0 : R), 0 <= beta <= 1 -> 0 <= beta_lower <= 1 -> 0 < r_hat -> rho0 <= 1 ->
  forall tau phi (s : topo (N:=RN)) X veto mode eps s' ls,
    raising mode eps -> rho (TB s) = [rho0] ->
    topo_fit (@hyperK RN alpha beta r_hat) (@hyperK RN alpha beta_lower r_hat) tau phi s X veto mode eps = Some (s', ls) ->
    Forall (hs_ok r_hat rho0) (W (TB s')) /\ rho (TB s') = [rho0].
Proof. exact topo_hyper_fit_bound. Qed.
Theorem C02_dualvigilance_fuzzy_base_categories_obey_the_size_bound :
  forall (alpha beta rho0 d : R) (n : nat), 0 <= beta <= 1 -> rho0 <= 1 -> 0 < d ->
  forall (s : dv (N:=RN)) X veto mode eps lb s' ls,
    raising mode eps -> rho (DB s) = [rho0] -> Forall (cc_ok d n) X ->
    dv_fit (@fuzzyK RN alpha beta) s X veto mode eps lb = Some (s', ls) ->
    Forall (fz_ok rho0 d n) (W (DB s')) /\ rho (DB s') = [rho0].
Proof. exact dv_fuzzy_fit_bound. Qed.
Theorem C02_dualvigilance_hypersphere_base_categories_obey_the_radius_bound :
  forall (alpha beta r_hat rho0 : R), 0 <= beta <= 1 -> 0 < r_hat -> rho0 <= 1 ->
  forall (s : dv (N:=RN)) X veto mode eps lb s' ls,
    raising mode eps -> rho (DB s) = [rho0] ->
    dv_fit (@hyperK RN alpha beta r_hat) s X veto mode eps lb = Some (s', ls) ->
    Forall (hs_ok r_hat rho0) (W (DB s')) /\ rho (DB s') = [rho0].
Proof. exact dv_hyper_fit_bound. Qed.
Theorem C02_topo_ellipsoid_base_categories_obey_the_radius_bound :
  forall (alpha beta beta_lower mu r_hat rho0 : R), 0 <= beta <= 1 -> 0 <= beta_lower <= 1 -> 0 < r_hat -> rho0 <= 1 ->
  forall tau phi (s : topo (N:=RN)) X veto mode eps s' ls,
    raising mode eps -> rho (TB s) = [rho0] ->
    topo_fit (@ellipK RN alpha beta mu r_hat) (@ellipK RN alpha beta_lower mu r_hat) tau phi s X veto mode eps = Some (s', ls) ->
    Forall (el_ok r_hat rho0) (W (TB s')) /\ rho (TB s') = [rho0].
Proof. exact topo_ellipsoid_fit_bound. Qed.
Theorem C02_dualvigilance_ellipsoid_base_categories_obey_the_radius_bound :
  forall (alpha beta mu r_hat rho0 : R), 0 <= beta <= 1 -> 0 < r_hat -> rho0 <= 1 ->
  forall (s : dv (N:=RN)) X veto mode eps lb s' ls,
    raising mode eps -> rho (DB s) = [rho0] ->
    dv_fit (@ellipK RN alpha beta mu r_hat) s X veto mode eps lb = Some (s', ls) ->
    Forall (el_ok r_hat rho0) (W (DB s')) /\ rho (DB s') = [rho0].
Proof. exact dv_ellipsoid_fit_bound. Qed.
Print Assumptions C02_topo_hypersphere_base_categories_obey_the_radius_bound.
Print Assumptions C02_dualvigilance_hypersphere_base_categories_obey_the_radius_bound.

(* ---- Hypersphere / Ellipsoid ART ---- *)
Theorem C02_hs_new_contains_old :
  forall beta r (c i p : list R),
    0 <= beta <= 1 -> 0 <= r -> length i = length c -> length p = length c ->
    0 < normR (vsubR i c) -> normR (vsubR p c) <= r ->
    normR (vsubR p (hs_centre' beta r (normR (vsubR i c)) c i)) <= hs_radius' beta r (normR (vsubR i c)).
Proof. exact hs_new_contains_old. Qed.
Theorem C02_hs_update_is_that_step :
  forall (alpha beta r_hat : R) (x w : list RN), w <> [] -> hs_dist x (hs_centroid w) <> 0 ->
    @hs_update RN beta x w =
    Some (hs_centre' beta (hs_radius w) (hs_dist x (hs_centroid w)) (hs_centroid w) x
          ++ [hs_radius' beta (hs_radius w) (hs_dist x (hs_centroid w))]).
Proof. exact hs_update_is_step. Qed.
Theorem C02_hs_radius_mono : forall beta r d, 0 <= beta -> r <= hs_radius' beta r d.
Proof. exact hs_radius_mono. Qed.
Theorem C02_hs_radius_bound :
  forall beta r d r_hat rho, 0 <= beta <= 1 -> 0 < r_hat -> 0 <= r ->
    rho <= 1 - Rmax r (Rmax r d) / r_hat -> hs_radius' beta r d <= r_hat * (1 - rho).
Proof. exact hs_radius_bound. Qed.
(* ... and in every state reached by fit, under every mode that never lowers the vigilance *)
Theorem C02_hs_radius_bound_after_fit :
  forall (alpha beta r_hat : R), 0 <= beta <= 1 -> 0 < r_hat ->
  forall (s : st (N:=RN)) X veto m eps rho0 s' ls,
    raising m eps -> rho0 <= 1 -> rho s = [rho0] -> fit (@hyperK RN alpha beta r_hat) s X veto m eps = Some (s', ls) ->
    Forall (fun w => 0 <= @hs_radius RN w <= r_hat * (1 - rho0)) (W s').
Proof. exact hyper_fit_radius_bound. Qed.
Theorem C02_ell_radius_mono : forall beta r d, 0 <= beta -> r <= r + (beta / 2) * (Rmax r d - r).
Proof. exact ell_radius_mono. Qed.
Theorem C02_ell_radius_bound :
  forall beta r d r_hat rho, 0 <= beta <= 1 -> 0 < r_hat -> 0 <= r ->
    rho <= 1 - (r + Rmax r d) / r_hat -> r + (beta / 2) * (Rmax r d - r) <= r_hat * (1 - rho) / 2.
Proof. exact ell_radius_bound. Qed.
(* ---- Gaussian / Bayesian ART: the running mean is the arithmetic mean ---- *)
Theorem C02_running_mean :
  forall (n : R) (mean S x : list R), 0 < n -> length S = length x -> mean = @vscale RN (1 / n) S ->
    @vadd RN (@vscale RN (1 - 1 / (n + 1)) mean) (@vscale RN (1 / (n + 1)) x) = @vscale RN (1 / (n + 1)) (@vadd RN S x).
Proof. exact running_mean. Qed.
Print Assumptions C02_hs_new_contains_old.
Print Assumptions C02_fuzzy_box_tight.

(* non-vacuity (exact rationals): fast-learning Fuzzy ART on 4 points: two boxes = bounding boxes of their members *)
From Coq Require Import QArith.
Open Scope Q_scope.
Example C02_example :
  option_map (fun r => (W (fst r), labels (fst r)))
    (fit (@fuzzyK QN (1#1024) 1) (@init QN [1#2])
         ([[1#8; 7#8]; [3#8; 5#8]; [7#8; 1#8]; [2#8; 6#8]] : list (list QN)) (fun _ => None) MTplus (0 : QN))
  = Some ([[1#8; 5#8]; [7#8; 1#8]] : list (list QN), [0; 0; 1; 0]%nat).
Proof. vm_compute. reflexivity. Qed.

(* Correspondence driver for FusionART (and FALCON, which is FusionART on
   joined state|action|reward rows). *)
From Coq Require Import QArith Qabs List Bool Arith ZArith.
Local Close Scope Q_scope.
Local Open Scope nat_scope.
From ART Require Import Num Vec Search Kernel BaseArt Fusion.
From ARTcorr Require Import RunBase.
Import ListNotations.

Inductive fop :=
| FBase (o : op)
| FPredSkip (X : list (list Q)) (skip : list Z).

Record fcase := mkFCase { f_ks : list kspec; f_rhos : list Q; f_gammas : list Q; f_dims : list nat; f_wdims : list nat;
                          f_ops : list (fop * obs) }.

Fixpoint frun (mods : list (Kernel QN)) (gs : list Q) (ds wds : list nat) (K : Kernel QN) (s : st (N:=QN)) (i : nat) (ops : list (fop * obs)) : nat :=
  match ops with
  | [] => 0
  | (o, ob) :: rest =>
      let r : option (st (N:=QN) * list (nat * list Q) * list nat) :=
        match o with
        | FBase (OpFit X keys v m eps) =>
            match fit K s X (vetos_of keys v) m eps with
            | Some (s', logs) => Some (s', concat logs, [])
            | None => None
            end
        | FBase (OpPFit X keys v m eps) =>
            match partial_fit K s X (vetos_of keys v) m eps with
            | Some (s', logs) => Some (s', concat logs, [])
            | None => None
            end
        | FBase (OpPredict X) =>
            match predict K s X with Some ys => Some (s, [], ys) | None => None end
        | FPredSkip X skip =>
            if hasW s && valid K s X then
              match omap (@fusion_step_pred QN mods gs ds wds (norm_skip mods skip) (W s)) X with
              | Some ys => Some (s, [], ys)
              | None => None
              end
            else None
        end in
      match r, ob with
      | None, ObsUndef => 0
      | None, ObsOk _ _ _ => 100 * (i + 1) + 8
      | Some _, ObsUndef => 100 * (i + 1) + 8
      | Some (s', log, ret), ObsOk sn olog oret =>
          let c := cmp_snap s' sn in
          if negb (Nat.eqb c 0) then 100 * (i + 1) + c
          else if negb (logeq log olog) then 100 * (i + 1) + 6
          else if negb (nleq ret oret) then 100 * (i + 1) + 7
          else frun mods gs ds wds K s' (S i) rest
      end
  end.

Definition fcheck (c : fcase) : nat :=
  let mods := map kernel_of (f_ks c) in
  frun mods (f_gammas c) (f_dims c) (f_wdims c) (@fusionK QN mods (f_gammas c) (f_dims c) (f_wdims c)) (@init QN (f_rhos c)) 0 (f_ops c).

(* Correspondence driver for CVIART.CVI_match: every recorded call of a fit (labelling before the call, candidate,
   number of base categories, scikit-learn's two index values where they exist) against the model's verdict. *)
From Coq Require Import QArith List Bool Arith.
From ART Require Import Num CVI_gate.
From ARTcorr Require Import RunBase.
Import ListNotations.
Record gcase := mkGCase { g_ncat : nat; g_labels : list nat; g_i : nat; g_c : nat; g_lower : bool;
                          g_old : Q; g_new : Q; g_ret : bool }.
Definition gcheck (c : gcase) : nat :=
  if Bool.eqb (@cvi_match QN (g_ncat c) (g_labels c) (g_i c) (g_c c) (g_lower c) (g_old c) (g_new c)) (g_ret c) then 0%nat else 1%nat.

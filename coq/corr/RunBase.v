(* Correspondence driver for BaseART-derived elementary estimators at the
   exact-rational instance: replays the operation list of a case on the model
   and compares every observation taken from the implementation. *)
From Coq Require Import QArith Qabs List Bool Arith ZArith.
Local Close Scope Q_scope.
Local Open Scope nat_scope.
From ART Require Import Num Vec Search Kernel BaseArt Fuzzy ART2A ART1.
Import ListNotations.

Inductive kspec :=
| KFuzzy (alpha beta : Q)
| KART2A (alpha beta : Q)
| KART1 (L : Q).

Definition kernel_of (k : kspec) : Kernel QN :=
  match k with
  | KFuzzy a b => @fuzzyK QN a b
  | KART2A a b => @art2K QN a b
  | KART1 l => @art1K QN l
  end.

Record vspec := mkVspec { v_tbl : list bool; v_a : nat; v_b : nat }.
Definition veto_of (v : vspec) (key c : nat) : bool :=
  nth ((v_a v * key + v_b v * c) mod (length (v_tbl v))) (v_tbl v) true.

Record snap := mkSnap { o_W : list (list Q); o_labels : list nat; o_wsc : list nat; o_sc : nat; o_rho : list Q }.
Inductive obs :=
| ObsUndef
| ObsOk (s : snap) (log : list (nat * list Q)) (ret : list nat).

Inductive op :=
| OpFit (X : list (list Q)) (keys : list nat) (v : option vspec) (m : mt) (eps : Q)
| OpPFit (X : list (list Q)) (keys : list nat) (v : option vspec) (m : mt) (eps : Q)
| OpPredict (X : list (list Q)).

Record case := mkCase { c_k : kspec; c_rho : list Q; c_ops : list (op * obs) }.

(* ---- exact comparisons ---- *)
Fixpoint qleq (x y : list Q) : bool :=
  match x, y with [], [] => true | a :: x', b :: y' => Qeq_bool a b && qleq x' y' | _, _ => false end.
Fixpoint qmeq (x y : list (list Q)) : bool :=
  match x, y with [], [] => true | a :: x', b :: y' => qleq a b && qmeq x' y' | _, _ => false end.
Fixpoint nleq (x y : list nat) : bool :=
  match x, y with [], [] => true | a :: x', b :: y' => Nat.eqb a b && nleq x' y' | _, _ => false end.
(* vigilance values in the reset-function log went through one or two float
   roundings (M = |x^w| / d, M +- eps): compared to 2^-40 *)
Definition qclose (a b : Q) : bool := Qle_bool (Qabs (a - b)) (1 # 1099511627776).
Fixpoint qlclose (x y : list Q) : bool :=
  match x, y with [], [] => true | a :: x', b :: y' => qclose a b && qlclose x' y' | _, _ => false end.
Fixpoint logeq (x y : list (nat * list Q)) : bool :=
  match x, y with
  | [], [] => true
  | (a, r) :: x', (b, r') :: y' => Nat.eqb a b && qlclose r r' && logeq x' y'
  | _, _ => false
  end.

Definition vetos_of (keys : list nat) (v : option vspec) : nat -> option (nat -> bool) :=
  fun i => match v with
           | None => None
           | Some vs => Some (veto_of vs (nth i keys 0))
           end.

(* field-wise comparison of the model state with the implementation snapshot:
   0 = equal, otherwise the number of the first differing field *)
Definition cmp_snap (s : st (N:=QN)) (o : snap) : nat :=
  if negb (qmeq (W s) (o_W o)) then 1
  else if negb (nleq (labels s) (o_labels o)) then 2
  else if negb (nleq (wsc s) (o_wsc o)) then 3
  else if negb (Nat.eqb (sc s) (o_sc o)) then 4
  else if negb (qleq (rho s) (o_rho o)) then 5
  else 0.

(* result code of a case: 0 = agreement; 100*(op index + 1) + field otherwise
   (field 6 = veto log, 7 = return value, 8 = defined-ness) *)
Fixpoint run (K : Kernel QN) (s : st (N:=QN)) (i : nat) (ops : list (op * obs)) : nat :=
  match ops with
  | [] => 0
  | (o, ob) :: rest =>
      let r : option (st (N:=QN) * list (nat * list Q) * list nat) :=
        match o with
        | OpFit X keys v m eps =>
            match fit K s X (vetos_of keys v) m eps with
            | Some (s', logs) => Some (s', concat logs, [])
            | None => None
            end
        | OpPFit X keys v m eps =>
            match partial_fit K s X (vetos_of keys v) m eps with
            | Some (s', logs) => Some (s', concat logs, [])
            | None => None
            end
        | OpPredict X =>
            match predict K s X with
            | Some ys => Some (s, [], ys)
            | None => None
            end
        end in
      match r, ob with
      | None, ObsUndef => run K s (S i) rest      (* both undefined: the call is rejected / fails, the state is unchanged *)
      | None, ObsOk _ _ _ => 100 * (i + 1) + 8
      | Some _, ObsUndef => 100 * (i + 1) + 8
      | Some (s', log, ret), ObsOk sn olog oret =>
          let c := cmp_snap s' sn in
          if negb (Nat.eqb c 0) then 100 * (i + 1) + c
          else if negb (logeq log olog) then 100 * (i + 1) + 6
          else if negb (nleq ret oret) then 100 * (i + 1) + 7
          else run K s' (S i) rest
      end
  end.

Definition check (c : case) : nat := run (kernel_of (c_k c)) (@init QN (c_rho c)) 0 (c_ops c).

(* Correspondence driver for BARTMAP's rows_ / columns_ construction. *)
From Coq Require Import List Bool Arith.
From ART Require Import Bartmap.
Import ListNotations.
Fixpoint bleq' (x y : list bool) : bool :=
  match x, y with [], [] => true | a :: x', b :: y' => Bool.eqb a b && bleq' x' y' | _, _ => false end.
Fixpoint bmeq (x y : list (list bool)) : bool :=
  match x, y with [], [] => true | a :: x', b :: y' => bleq' a b && bmeq x' y' | _, _ => false end.
Record bcase := mkBCase { b_ra : list nat; b_cb : list nat; b_nA : nat; b_nB : nat;
                          b_rows : list (list bool); b_cols : list (list bool) }.
Definition bartcheck (c : bcase) : nat :=
  if negb (bmeq (bm_rows (b_ra c) (b_nA c) (b_nB c)) (b_rows c)) then 1
  else if negb (bmeq (bm_cols (b_cb c) (b_nA c) (b_nB c)) (b_cols c)) then 2 else 0.

(* Correspondence driver for VAT: precomputed dissimilarity matrices at exact rationals. *)
From Coq Require Import QArith List Bool Arith ZArith.
From ART Require Import Search VAT.
Import ListNotations.
Fixpoint natleq (x y : list nat) : bool :=
  match x, y with [], [] => true | a :: x', b :: y' => Nat.eqb a b && natleq x' y' | _, _ => false end.
Fixpoint qleq2 (x y : list Q) : bool :=
  match x, y with [], [] => true | a :: x', b :: y' => Qeq_bool a b && qleq2 x' y' | _, _ => false end.
Fixpoint qmeq2 (x y : list (list Q)) : bool :=
  match x, y with [], [] => true | a :: x', b :: y' => qleq2 a b && qmeq2 x' y' | _, _ => false end.
Record vatcase := mkVat { va_D : list (list Q); va_perm : list nat; va_out : list (list Q) }.
Definition vatcheck (c : vatcase) : nat :=
  match vat Q Qle_bool 0%Q (va_D c) with
  | Some (M, p) => if negb (natleq p (va_perm c)) then 1%nat else if negb (qmeq2 M (va_out c)) then 2%nat else 0%nat
  | None => 8%nat
  end.

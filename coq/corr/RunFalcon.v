(* Correspondence driver for TD_FALCON.calculate_SARSA (exact rationals). *)
From Coq Require Import QArith List Bool Arith ZArith.
From ART Require Import Num Vec Falcon.
From ARTcorr Require Import RunBase.
Import ListNotations.

Record scall := mkScall { sa_alpha : Q; sa_lambda : Q; sa_Q : list Q; sa_rew : list (list Q);
                          sa_out : list (list Q) }.
Definition sacheck (c : scall) : nat :=
  if qmeq (@sarsa_targets QN (sa_alpha c) (sa_lambda c) (sa_Q c) (sa_rew c)) (sa_out c) then 0%nat else 1%nat.

(* whole calculate_SARSA calls: rows kept and targets, episodes of any length, optional single_sample_reward *)
Record scall2 := mkScall2 { sb_alpha : Q; sb_lambda : Q; sb_Q : list Q; sb_rew : list (list Q); sb_single : option Q;
                            sb_rows : nat; sb_out : list (list Q) }.
Definition sacheck2 (c : scall2) : nat :=
  let '(n, out) := @calc_sarsa QN (sb_alpha c) (sb_lambda c) (sb_Q c) (sb_rew c) (sb_single c) in
  if Nat.eqb n (sb_rows c) && qmeq out (sb_out c) then 0%nat else 1%nat.

(* Correspondence driver for TD_FALCON.calculate_SARSA (exact rationals). *)
From Coq Require Import QArith List Bool Arith ZArith.
From ART Require Import Num Vec Falcon.
From ARTcorr Require Import RunBase.
Import ListNotations.

Record scall := mkScall { sa_alpha : Q; sa_lambda : Q; sa_Q : list Q; sa_rew : list (list Q);
                          sa_out : list (list Q) }.
Definition sacheck (c : scall) : nat :=
  if qmeq (@sarsa_targets QN (sa_alpha c) (sa_lambda c) (sa_Q c) (sa_rew c)) (sa_out c) then 0%nat else 1%nat.

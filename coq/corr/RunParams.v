(* Correspondence driver for the params protocol of the elementary estimators. *)
From Coq Require Import QArith List Bool Arith String.
From ART Require Import Params.
Import ListNotations.
Open Scope string_scope.

Inductive pcls := PFuzzy | PART1 | PART2A | PHyper.
Definition qget (p : list (string * Q)) (k : string) : Q := match pget Q p k with Some v => v | None => (-1)%Q end.
Definition in01 (x : Q) : bool := Qle_bool 0 x && Qle_bool x 1.
Definition pvalid_of (c : pcls) (p : list (string * Q)) : bool :=
  match c with
  | PFuzzy => in01 (qget p "rho") && Qle_bool 0 (qget p "alpha") && in01 (qget p "beta") && negb (Qeq_bool (qget p "beta") 0)
  | PART1 => in01 (qget p "rho") && Qle_bool 1 (qget p "L")
  | PART2A => in01 (qget p "rho") && in01 (qget p "alpha") && in01 (qget p "beta")
  | PHyper => in01 (qget p "rho") && Qle_bool 0 (qget p "alpha") && in01 (qget p "beta") && negb (Qle_bool (qget p "r_hat") 0)
  end.

Inductive pop :=
| PSet (kw : list (string * Q)) (ok : bool) (after : list (string * Q))
| PAttr (k : string) (v : option Q).
Record pcase := mkPCase { pc_cls : pcls; pc_init : list (string * Q); pc_ops : list pop }.

Fixpoint peq (a b : list (string * Q)) : bool :=
  match a, b with
  | [], [] => true
  | (k, v) :: a', (k', v') :: b' => String.eqb k k' && Qeq_bool v v' && peq a' b'
  | _, _ => false
  end.
Fixpoint prun (c : pcls) (p : list (string * Q)) (i : nat) (ops : list pop) : nat :=
  match ops with
  | [] => 0%nat
  | PSet kw ok after :: rest =>
      let '(p', ok') := set_params Q (pvalid_of c) p kw in
      if negb (Bool.eqb ok ok') then (10 * (i + 1) + 1)%nat
      else if negb (peq p' after) then (10 * (i + 1) + 2)%nat
      else prun c p' (S i) rest
  | PAttr k v :: rest =>
      match getattr Q p k, v with
      | None, None => prun c p (S i) rest
      | Some a, Some b => if Qeq_bool a b then prun c p (S i) rest else (10 * (i + 1) + 3)%nat
      | _, _ => (10 * (i + 1) + 3)%nat
      end
  end.
Definition pcheck (c : pcase) : nat := prun (pc_cls c) (pc_init c) 0 (pc_ops c).

(* Direct calls of the public kernel functions (category_choice,
   match_criterion, update, new_weight, bounding boxes) compared with the
   model at the fixed-point instance FX to 2^-30 relative tolerance. *)
From Coq Require Import QArith Qabs List Bool Arith ZArith.
From ART Require Import Num Vec Mat Search Kernel Fuzzy ART2A ART1 Hyper Gauss.
Import ListNotations.

Inductive kspecF :=
| FFuzzy (alpha beta : Q)
| FART1 (L : Q)
| FART2A (alpha beta : Q)
| FHyper (alpha beta r_hat : Q)
| FEllip (alpha beta mu r_hat : Q)
| FGauss (sigma : list Q) (alpha : Q)
| FBayes (cov : list Q)
| FQuad (s_init lr_b lr_w lr_s : Q).

Definition fq := fx_of_Q.
Definition kernelF (k : kspecF) : Kernel FX :=
  match k with
  | FFuzzy a b => @fuzzyK FX (fq a) (fq b)
  | FART1 l => @art1K FX (fq l)
  | FART2A a b => @art2K FX (fq a) (fq b)
  | FHyper a b r => @hyperK FX (fq a) (fq b) (fq r)
  | FEllip a b m r => @ellipK FX (fq a) (fq b) (fq m) (fq r)
  | FGauss s a => @gaussK FX (map fq s) (fq a)
  | FBayes c => @bayesK FX (map fq c)
  | FQuad s b w l => @quadK FX (fq s) (fq b) (fq w) (fq l)
  end.

(* |a - b| <= 2^-30 (1 + |b|), in fixed point *)
Definition fclose (a : Z) (b : Q) : bool :=
  let bz := fq b in
  Z.leb (Z.abs (a - bz)) (Z.div (fxs + Z.abs bz) 1073741824).
Fixpoint flclose (a : list Z) (b : list Q) : bool :=
  match a, b with [], [] => true | x :: a', y :: b' => fclose x y && flclose a' b' | _, _ => false end.
Definition oclose (a : option Z) (b : option Q) : bool :=
  match a, b with None, None => true | Some x, Some y => fclose x y | _, _ => false end.
Definition olclose (a : option (list Z)) (b : option (list Q)) : bool :=
  match a, b with None, None => true | Some x, Some y => flclose x y | _, _ => false end.

Record kcall := mkKcall {
  kk : kspecF; kWs : list (list Q); kx : list Q; kw : list Q;
  kT : option Q; kM : option Q; kU : option (list Q); kN : option (list Q) }.

(* 0 = agreement; 1 activation, 2 match, 3 update, 4 new_weight *)
Definition kcheck (c : kcall) : nat :=
  let K := kernelF (kk c) in
  let x := map fq (kx c) in
  let w := map fq (kw c) in
  let Ws := map (map fq) (kWs c) in
  if negb (oclose (k_choice K Ws x w) (kT c)) then 1%nat
  else if negb (oclose (hd None (k_match K x w)) (kM c)) then 2%nat
  else if negb (olclose (k_update K x w) (kU c)) then 3%nat
  else if negb (olclose (k_new K x) (kN c)) then 4%nat
  else 0%nat.

(* get_bounding_box / shrink / centre at exact rationals *)
Fixpoint qleq' (x y : list Q) : bool :=
  match x, y with [], [] => true | a :: x', b :: y' => Qeq_bool a b && qleq' x' y' | _, _ => false end.
Record bcall := mkBcall { bw : list Q; bn : nat; bref : list Q; bwid : list Q;
                          bratio : Q; bshr : list Q }.
Definition bcheck (c : bcall) : nat :=
  match @bbox QN (bw c) (bn c) with
  | Some (r, wd) =>
      if negb (qleq' r (bref c)) then 1%nat
      else if negb (qleq' wd (bwid c)) then 2%nat
      else if negb (qleq' (@shrink QN (bw c) (bratio c)) (bshr c)) then 3%nat
      else 0%nat
  | None => 9%nat
  end.

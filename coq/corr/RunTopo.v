(* Correspondence drivers for DualVigilanceART and TopoART. *)
From Coq Require Import QArith Qabs List Bool Arith ZArith.
Local Close Scope Q_scope.
Local Open Scope nat_scope.
From ART Require Import Num Vec Search Kernel BaseArt SimpleARTMAP DualVig Topo.
From ARTcorr Require Import RunBase RunSam.
Import ListNotations.

(* ---------------- DualVigilanceART ---------------- *)
Inductive vop :=
| VFit (X : list (list Q)) (keys : list nat) (v : option vspec) (m : mt) (eps : Q)
| VPFit (X : list (list Q)) (keys : list nat) (v : option vspec) (m : mt) (eps : Q)
| VPredict (X : list (list Q)).
Inductive vobs :=
| VUndef
| VOk (b : snap) (map_ : list (nat * nat)) (own_sc : nat) (ncl : nat) (log : list (nat * list Q)) (ret : list nat).
Record vcase := mkVCase { v_k : kspec; v_rho : list Q; v_lb : Q; v_ops : list (vop * vobs) }.

Fixpoint vrun (K : Kernel QN) (lb : Q) (s : dv (N:=QN)) (i : nat) (ops : list (vop * vobs)) : nat :=
  match ops with
  | [] => 0
  | (o, ob) :: rest =>
      let r : option (dv (N:=QN) * list (nat * list Q) * list nat) :=
        match o with
        | VFit X keys v m eps => option_map (fun p => (fst p, concat (snd p), [])) (dv_fit K s X (vetos_of keys v) m eps lb)
        | VPFit X keys v m eps => option_map (fun p => (fst p, concat (snd p), [])) (dv_partial_fit K s X (vetos_of keys v) m eps lb)
        | VPredict X => option_map (fun ys => (s, [], ys)) (dv_predict K s X)
        end in
      match r, ob with
      | None, VUndef => 0
      | None, VOk _ _ _ _ _ _ | Some _, VUndef => 100 * (i + 1) + 8
      | Some (s', log, ret), VOk bo mo osc oncl olog oret =>
          (* the base module's own sample_counter_ is never touched by DualVigilanceART *)
          let c := cmp_snap (DB s') bo in
          if negb (Nat.eqb c 0) then 100 * (i + 1) + c
          else if negb (pairs_eq (dmap s') mo) then 100 * (i + 1) + 9
          else if negb (Nat.eqb (dsc s') osc) then 100 * (i + 1) + 10
          else if negb (Nat.eqb (dv_n_clusters s') oncl) then 100 * (i + 1) + 11
          else if negb (logeq log olog) then 100 * (i + 1) + 6
          else if negb (nleq ret oret) then 100 * (i + 1) + 7
          else vrun K lb s' (S i) rest
      end
  end.
Definition vcheck (c : vcase) : nat := vrun (kernel_of (v_k c)) (v_lb c) (@dv_init QN (v_rho c)) 0 (v_ops c).

(* ---------------- TopoART ---------------- *)
Inductive top :=
| TFit (X : list (list Q)) (keys : list nat) (v : option vspec) (m : mt) (eps : Q)
| TPredict (X : list (list Q)).
Inductive tobs :=
| TUndef
| TOk (b : snap) (labels : list Z) (adjm : list (list nat)) (permm : list bool)
      (log : list (nat * list Q)) (ret : list Z).
Record tcase := mkTCase { t_k : kspec; t_klow : kspec; t_rho : list Q; t_tau : nat; t_phi : nat; t_ops : list (top * tobs) }.

Fixpoint zleq (x y : list Z) : bool :=
  match x, y with [], [] => true | a :: x', b :: y' => Z.eqb a b && zleq x' y' | _, _ => false end.
Fixpoint bleq (x y : list bool) : bool :=
  match x, y with [], [] => true | a :: x', b :: y' => Bool.eqb a b && bleq x' y' | _, _ => false end.

(* the snapshot's label field is not used for TopoART (labels are compared as Z) *)
Definition cmp_snap_nolabels (s : st (N:=QN)) (o : snap) : nat :=
  if negb (qmeq (W s) (o_W o)) then 1
  else if negb (nleq (wsc s) (o_wsc o)) then 3
  else if negb (Nat.eqb (sc s) (o_sc o)) then 4
  else if negb (qleq (rho s) (o_rho o)) then 5
  else 0.

Fixpoint trun (K Klow : Kernel QN) (tau phi : nat) (s : topo (N:=QN)) (i : nat) (ops : list (top * tobs)) : nat :=
  match ops with
  | [] => 0
  | (o, ob) :: rest =>
      let r : option (topo (N:=QN) * list (nat * list Q) * list Z) :=
        match o with
        | TFit X keys v m eps => option_map (fun p => (fst p, concat (snd p), [])) (topo_fit K Klow tau phi s X (vetos_of keys v) m eps)
        | TPredict X => option_map (fun ys => (s, [], ys)) (omap (topo_step_pred K s) X)
        end in
      match r, ob with
      | None, TUndef => 0
      | None, TOk _ _ _ _ _ _ | Some _, TUndef => 100 * (i + 1) + 8
      | Some (s', log, ret), TOk bo lo ao po olog oret =>
          let c := cmp_snap_nolabels (TB s') bo in
          if negb (Nat.eqb c 0) then 100 * (i + 1) + c
          else if negb (zleq (tlab s') lo) then 100 * (i + 1) + 2
          else if negb (nmeq (adj s') ao) then 100 * (i + 1) + 12
          else if negb (bleq (perm s') po) then 100 * (i + 1) + 13
          else if negb (logeq log olog) then 100 * (i + 1) + 6
          else if negb (zleq ret oret) then 100 * (i + 1) + 7
          else trun K Klow tau phi s' (S i) rest
      end
  end.
Definition tcheck (c : tcase) : nat :=
  trun (kernel_of (t_k c)) (kernel_of (t_klow c)) (t_tau c) (t_phi c) (@topo_init QN (t_rho c)) 0 (t_ops c).

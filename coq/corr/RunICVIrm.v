(* Correspondence driver for iCVI_CH with remove_sample in the mix: add / switch / remove sequences, the tracked value
   against the implementation and against the batch index of the data that remains. *)
From Coq Require Import QArith Qabs List Bool Arith ZArith.
From ART Require Import Num Vec ICVI ICVI_remove.
From ARTcorr Require Import RunICVI.
Import ListNotations.

Inductive iop2 :=
| IAdd2 (x : list Q) (label : nat) (crit : Q)
| ISwitch2 (x : list Q) (lold lnew : nat) (crit : Q)
| IRemove2 (x : list Q) (label : nat) (crit : Q).
Record icase2 := mkICase2 { i2_dim : nat; i2_ops : list iop2 }.

Fixpoint eqv (a b : list Q) : bool :=
  match a, b with [], [] => true | p :: a', q :: b' => Qeq_bool p q && eqv a' b' | _, _ => false end.
Fixpoint drop_first (D : list (list Q * nat)) (x : list Q) (l : nat) : list (list Q * nat) :=
  match D with
  | [] => []
  | (y, l') :: D' => if Nat.eqb l' l && eqv y x then D' else (y, l') :: drop_first D' x l
  end.

Fixpoint irun2 (d : nat) (s : ch (N:=QN)) (D : list (list Q * nat)) (i : nat) (ops : list iop2) : nat :=
  match ops with
  | [] => 0%nat
  | o :: rest =>
      let r := match o with
               | IAdd2 x l c => option_map (fun p => (update s p, (x, l) :: D, c)) (add_sample s x l)
               | ISwitch2 x lo ln c => option_map (fun p => (update s p, relabel D x lo ln, c)) (switch_label s x lo ln)
               | IRemove2 x l c => option_map (fun p => (update s p, drop_first D x l, c)) (remove_sample s x l)
               end in
      match r with
      | None => (10 * (i + 1) + 1)%nat
      | Some (s', D', c) =>
          if negb (rclose (h_crit s') c) then
            (if Qeq_bool (h_WGSS s') 0 then (10 * (i + 1) + 4)%nat else (10 * (i + 1) + 2)%nat)
          else match @batch_ch QN D' d with
               | Some b => if Qeq_bool b (h_crit s') then irun2 d s' D' (S i) rest else (10 * (i + 1) + 3)%nat
               | None => (10 * (i + 1) + 3)%nat
               end
      end
  end.
Definition icheck2 (c : icase2) : nat := irun2 (i2_dim c) (@ch_init QN (i2_dim c)) [] 0 (i2_ops c).

(* Correspondence driver for SimpleARTMAP, ARTMAP and DeepARTMAP/SMART. *)
From Coq Require Import QArith Qabs List Bool Arith ZArith.
Local Close Scope Q_scope.
Local Open Scope nat_scope.
From ART Require Import Num Vec Search Kernel BaseArt SimpleARTMAP Deep.
From ARTcorr Require Import RunBase.
Import ListNotations.

(* observation of one SimpleARTMAP: module_a snapshot, map items sorted by key, labels_ *)
Record lobs := mkLobs { l_snap : snap; l_map : list (nat * nat); l_bl : list nat }.

Fixpoint pairs_eq (x y : list (nat * nat)) : bool :=
  match x, y with
  | [], [] => true
  | (a, b) :: x', (c, d) :: y' => Nat.eqb a c && Nat.eqb b d && pairs_eq x' y'
  | _, _ => false
  end.

Definition cmp_layer (l : sam (N:=QN)) (o : lobs) : nat :=
  let c := cmp_snap (A l) (l_snap o) in
  if negb (Nat.eqb c 0) then c
  else if negb (pairs_eq (mp l) (l_map o)) then 9
  else if negb (nleq (bl l) (l_bl o)) then 10
  else 0.

(* ---------------- SimpleARTMAP ---------------- *)
Inductive sop :=
| SFit (X : list (list Q)) (y : list nat) (iters : nat) (m : mt) (eps : Q)
| SPFit (X : list (list Q)) (y : list nat) (m : mt) (eps : Q)
| SPredict (X : list (list Q)).
Inductive sobs :=
| SUndef
| SOk (l : lobs) (ret : list (nat * nat)).
Record scase := mkSCase { s_k : kspec; s_rho : list Q; s_ops : list (sop * sobs) }.

Fixpoint srun (K : Kernel QN) (s : sam (N:=QN)) (i : nat) (ops : list (sop * sobs)) : nat :=
  match ops with
  | [] => 0
  | (o, ob) :: rest =>
      let r : option (sam (N:=QN) * list (nat * nat)) :=
        match o with
        | SFit X y it m eps => option_map (fun s' => (s', [])) (sam_fit K s X y it m eps)
        | SPFit X y m eps => option_map (fun s' => (s', [])) (sam_partial_fit K s X y m eps)
        | SPredict X => option_map (fun p => (s, p)) (sam_predict_ab K s X)
        end in
      match r, ob with
      | None, SUndef => 0
      | None, SOk _ _ | Some _, SUndef => 100 * (i + 1) + 8
      | Some (s', ret), SOk lo oret =>
          let c := cmp_layer s' lo in
          if negb (Nat.eqb c 0) then 100 * (i + 1) + c
          else if negb (pairs_eq ret oret) then 100 * (i + 1) + 7
          else srun K s' (S i) rest
      end
  end.
Definition scheck (c : scase) : nat := srun (kernel_of (s_k c)) (@sam_init QN (s_rho c)) 0 (s_ops c).

(* ---------------- ARTMAP ---------------- *)
Inductive aop :=
| AFit (X Y : list (list Q)) (m : mt) (eps : Q)
| APFit (X Y : list (list Q)) (m : mt) (eps : Q)
| APredict (X : list (list Q)).
Inductive aobs :=
| AUndef
| AOk (l : lobs) (b : snap) (ret : list (nat * nat)).
Record acase := mkACase { a_ka : kspec; a_rhoa : list Q; a_kb : kspec; a_rhob : list Q; a_ops : list (aop * aobs) }.

Fixpoint arun (KA KB : Kernel QN) (s : artmap (N:=QN)) (i : nat) (ops : list (aop * aobs)) : nat :=
  match ops with
  | [] => 0
  | (o, ob) :: rest =>
      let r : option (artmap (N:=QN) * list (nat * nat)) :=
        match o with
        | AFit X Y m eps => option_map (fun s' => (s', [])) (artmap_fit KA KB s X Y 1 m eps)
        | APFit X Y m eps => option_map (fun s' => (s', [])) (artmap_partial_fit KA KB s X Y m eps)
        | APredict X => option_map (fun p => (s, p)) (sam_predict_ab KA (SA s) X)
        end in
      match r, ob with
      | None, AUndef => 0
      | None, AOk _ _ _ | Some _, AUndef => 100 * (i + 1) + 8
      | Some (s', ret), AOk lo bo oret =>
          let c := cmp_layer (SA s') lo in
          let cb := cmp_snap (SB s') bo in
          if negb (Nat.eqb c 0) then 100 * (i + 1) + c
          else if negb (Nat.eqb cb 0) then 100 * (i + 1) + 20 + cb
          else if negb (pairs_eq ret oret) then 100 * (i + 1) + 7
          else arun KA KB s' (S i) rest
      end
  end.
Definition acheck (c : acase) : nat :=
  arun (kernel_of (a_ka c)) (kernel_of (a_kb c))
       {| SA := @sam_init QN (a_rhoa c); SB := @init QN (a_rhob c) |} 0 (a_ops c).

(* ---------------- DeepARTMAP (supervised) / SMART-style chains ---------------- *)
Inductive dop :=
| DFit (Xs : list (list (list Q))) (y : list nat) (m : mt) (eps : Q)
| DPFit (Xs : list (list (list Q))) (y : list nat) (m : mt) (eps : Q)
| DPredict (X : list (list Q)).
Inductive dobs :=
| DUndef
| DOk (ls : list lobs) (deep : list (list nat)) (ret : list (list nat)).
Record dcase := mkDCase { d_ks : list kspec; d_rhos : list (list Q); d_ops : list (dop * dobs) }.

Fixpoint cmp_layers (ls : list (sam (N:=QN))) (os : list lobs) (j : nat) : nat :=
  match ls, os with
  | [], [] => 0
  | l :: ls', o :: os' => let c := cmp_layer l o in
                          if negb (Nat.eqb c 0) then 40 + c else cmp_layers ls' os' (S j)
  | _, _ => 99
  end.
Fixpoint nmeq (x y : list (list nat)) : bool :=
  match x, y with [], [] => true | a :: x', b :: y' => nleq a b && nmeq x' y' | _, _ => false end.

Fixpoint last_kernel (Ks : list (Kernel QN)) (d : Kernel QN) : Kernel QN :=
  match Ks with [] => d | [K] => K | _ :: Ks' => last_kernel Ks' d end.

Fixpoint drun (Ks : list (Kernel QN)) (ls : list (sam (N:=QN))) (i : nat) (ops : list (dop * dobs)) : nat :=
  match ops with
  | [] => 0
  | (o, ob) :: rest =>
      let r : option (list (sam (N:=QN)) * list (list nat)) :=
        match o with
        | DFit Xs y m eps => option_map (fun l => (l, [])) (chain_fit Ks ls Xs y 1 m eps)
        | DPFit Xs y m eps => option_map (fun l => (l, [])) (chain_partial_fit Ks ls Xs y (length y) m eps)
        | DPredict X => match Ks with
                        | [] => None
                        | K0 :: _ => option_map (fun p => (ls, p)) (deep_predict (last_kernel Ks K0) ls X)
                        end
        end in
      match r, ob with
      | None, DUndef => 0
      | None, DOk _ _ _ | Some _, DUndef => 100 * (i + 1) + 8
      | Some (ls', ret), DOk los deep oret =>
          let c := cmp_layers ls' los 0 in
          if negb (Nat.eqb c 0) then 100 * (i + 1) + c
          else if negb (nmeq (labels_deep ls') deep) then 100 * (i + 1) + 11
          else if negb (nmeq ret oret) then 100 * (i + 1) + 7
          else drun Ks ls' (S i) rest
      end
  end.
Definition dcheck (c : dcase) : nat :=
  drun (map kernel_of (d_ks c)) (map (fun r => @sam_init QN r) (d_rhos c)) 0 (d_ops c).

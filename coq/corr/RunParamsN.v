(* Correspondence driver for set_params with sub-estimators (DualVigilanceART over Fuzzy ART, BARTMAP over two
   Fuzzy ART modules): own parameters, module replacement and nested values in one call. *)
From Coq Require Import QArith List Bool Arith String.
From ART Require Import Params Params_nested.
From ARTcorr Require Import RunParams.
Import ListNotations.
Open Scope string_scope.

Inductive ncls := NDV | NBART.
Definition own_valid (c : ncls) (p : list (string * Q)) : bool :=
  match c with NDV => Qle_bool 0 (qget p "rho_lower_bound") | NBART => true end.
Record ncase := mkNCase { nc_cls : ncls; nc_own : list (string * Q); nc_subs : list (string * list (string * Q));
                          nc_kw : list (arg Q); nc_ok : bool;
                          nc_own' : list (string * Q); nc_subs' : list (string * list (string * Q)) }.
Fixpoint seq_subs (a b : list (string * list (string * Q))) : bool :=
  match a, b with
  | [], [] => true
  | (k, v) :: a', (k', v') :: b' => String.eqb k k' && peq v v' && seq_subs a' b'
  | _, _ => false
  end.
Definition ncheck (c : ncase) : nat :=
  let '(e', ok) := set_params_n Q (own_valid (nc_cls c)) (fun _ => pvalid_of PFuzzy)
                                {| e_own := nc_own c; e_subs := nc_subs c |} (nc_kw c) in
  if negb (Bool.eqb ok (nc_ok c)) then 1%nat
  else if negb (peq (e_own Q e') (nc_own' c)) then 2%nat
  else if negb (seq_subs (e_subs Q e') (nc_subs' c)) then 3%nat else 0%nat.

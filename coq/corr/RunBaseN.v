(* Correspondence driver for BaseART.fit with several epochs (max_iter > 1). *)
From Coq Require Import QArith Qabs List Bool Arith ZArith.
Local Close Scope Q_scope.
Local Open Scope nat_scope.
From ART Require Import Num Vec Search Kernel BaseArt BaseArt_epochs.
From ARTcorr Require Import RunBase.
Import ListNotations.

Record ncase := mkNEpCase { ne_k : kspec; ne_rho : list Q; ne_X : list (list Q); ne_keys : list nat; ne_v : option vspec;
                            ne_m : mt; ne_eps : Q; ne_iters : nat; ne_obs : obs }.
Definition nepcheck (c : ncase) : nat :=
  match @fit_iters QN (kernel_of (ne_k c)) (@init QN (ne_rho c)) (ne_X c) (ne_iters c) (vetos_of (ne_keys c) (ne_v c)) (ne_m c) (ne_eps c), ne_obs c with
  | None, ObsUndef => 0
  | None, ObsOk _ _ _ | Some _, ObsUndef => 8
  | Some (s', logs), ObsOk sn olog _ =>
      let cc := cmp_snap s' sn in
      if negb (Nat.eqb cc 0) then cc else if negb (logeq (concat logs) olog) then 6 else 0
  end.

(* Correspondence driver for BARTMAP.fit as a whole (Fuzzy ART row and column modules, exact rationals):
   the model's two fits, with the implementation's own row-veto verdicts as the oracle. *)
From Coq Require Import QArith List Bool Arith ZArith.
Local Close Scope Q_scope.
Local Open Scope nat_scope.
From ART Require Import Num Vec Search Kernel BaseArt Fuzzy Bartmap Bartmap_fit.
From ARTcorr Require Import RunBase RunBart.
Import ListNotations.

Record bfcase := mkBF { bf_ka : kspec; bf_rhoa : list Q; bf_kb : kspec; bf_rhob : list Q;
                        bf_Xa : list (list Q); bf_Xb : list (list Q); bf_vk : list bool;
                        bf_ok : bool; bf_sa : snap; bf_sb : snap;
                        bf_rows : list (list bool); bf_cols : list (list bool) }.

(* 0 = agreement; 8 = defined-ness; 10+f / 20+f = field f of the row / column module; 31 / 32 = rows_ / columns_ *)
Definition bfcheck (c : bfcase) : nat :=
  match @bm_fit QN (kernel_of (bf_ka c)) (kernel_of (bf_kb c)) (fun k => nth k (bf_vk c) true) (0#1)%Q
                (@init QN (bf_rhoa c)) (@init QN (bf_rhob c)) (bf_Xa c) (bf_Xb c) with
  | None => if bf_ok c then 8 else 0
  | Some r =>
      if negb (bf_ok c) then 8 else
      let ca := cmp_snap (bm_a r) (bf_sa c) in
      if negb (Nat.eqb ca 0) then 10 + ca else
      let cb := cmp_snap (bm_b r) (bf_sb c) in
      if negb (Nat.eqb cb 0) then 20 + cb else
      if negb (bmeq (bm_rows_ r) (bf_rows c)) then 31 else
      if negb (bmeq (bm_cols_ r) (bf_cols c)) then 32 else 0
  end.

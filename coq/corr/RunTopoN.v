(* Correspondence driver for TopoART.fit with several epochs (max_iter > 1). *)
From Coq Require Import QArith Qabs List Bool Arith ZArith.
Local Close Scope Q_scope.
Local Open Scope nat_scope.
From ART Require Import Num Vec Search Kernel BaseArt Topo Topo_epochs.
From ARTcorr Require Import RunBase RunSam RunTopo.
Import ListNotations.

Record tncase := mkTNCase { tn_k : kspec; tn_klow : kspec; tn_rho : list Q; tn_tau : nat; tn_phi : nat;
                            tn_X : list (list Q); tn_keys : list nat; tn_v : option vspec; tn_m : mt; tn_eps : Q;
                            tn_iters : nat; tn_obs : tobs }.
Definition tncheck (c : tncase) : nat :=
  match @topo_fit_iters QN (kernel_of (tn_k c)) (kernel_of (tn_klow c)) (tn_tau c) (tn_phi c) (@topo_init QN (tn_rho c))
                        (tn_X c) (tn_iters c) (vetos_of (tn_keys c) (tn_v c)) (tn_m c) (tn_eps c), tn_obs c with
  | None, TUndef => 0
  | None, TOk _ _ _ _ _ _ | Some _, TUndef => 8
  | Some (s', logs), TOk bo lo ao po olog _ =>
      let cc := cmp_snap_nolabels (TB s') bo in
      if negb (Nat.eqb cc 0) then cc
      else if negb (zleq (tlab s') lo) then 2
      else if negb (nmeq (adj s') ao) then 12
      else if negb (bleq (perm s') po) then 13
      else if negb (logeq (concat logs) olog) then 6
      else 0
  end.

(* Correspondence driver for the incremental Calinski-Harabasz index: the
   model at exact rationals vs the implementation (2^-30 relative), and vs
   the batch index of the current labelled data (exact equality in Q). *)
From Coq Require Import QArith Qabs List Bool Arith ZArith.
From ART Require Import Num Vec ICVI.
Import ListNotations.

Inductive iop :=
| IAdd (x : list Q) (label : nat) (crit : Q)
| ISwitch (x : list Q) (lold lnew : nat) (crit : Q).
Record icase := mkICase { i_dim : nat; i_ops : list iop }.

Definition rclose (a b : Q) : bool :=
  Qle_bool (Qabs (a - b)) ((1 # 1073741824) * (1 + Qabs b)).

(* replace the first occurrence of (x, lold) by (x, lnew) *)
Fixpoint relabel (D : list (list Q * nat)) (x : list Q) (lold lnew : nat) : list (list Q * nat) :=
  match D with
  | [] => []
  | (y, l) :: D' => if Nat.eqb l lold && (fix eqv (a b : list Q) := match a, b with
                                            | [], [] => true
                                            | p :: a', q :: b' => Qeq_bool p q && eqv a' b'
                                            | _, _ => false end) y x
                    then (y, lnew) :: D' else (y, l) :: relabel D' x lold lnew
  end.

(* 0 = agreement; 10*(i+1) + 1: model undefined; +2: differs from the implementation; +3: differs from the
   batch index; +4: differs from the implementation exactly where the exact WGSS is 0 *)
Fixpoint irun (d : nat) (s : ch (N:=QN)) (D : list (list Q * nat)) (i : nat) (ops : list iop) : nat :=
  match ops with
  | [] => 0%nat
  | o :: rest =>
      let r := match o with
               | IAdd x l c => option_map (fun p => (update s p, (x, l) :: D, c)) (add_sample s x l)
               | ISwitch x lo ln c => option_map (fun p => (update s p, relabel D x lo ln, c)) (switch_label s x lo ln)
               end in
      match r with
      | None => (10 * (i + 1) + 1)%nat
      | Some (s', D', c) =>
          if negb (rclose (h_crit s') c) then
            (* exact within-group dispersion 0 (index 0 by convention) while binary64 keeps a rounding residue *)
            (if Qeq_bool (h_WGSS s') 0 then (10 * (i + 1) + 4)%nat else (10 * (i + 1) + 2)%nat)
          else match @batch_ch QN D' d with
               | Some b => if Qeq_bool b (h_crit s') then irun d s' D' (S i) rest else (10 * (i + 1) + 3)%nat
               | None => (10 * (i + 1) + 3)%nat
               end
      end
  end.
Definition icheck (c : icase) : nat := irun (i_dim c) (@ch_init QN (i_dim c)) [] 0 (i_ops c).

(* ---- iCVIFuzzyART.fit ---- *)
From ART Require Import Search Kernel BaseArt Fuzzy ICVIFuzzy.
From ARTcorr Require Import RunBase.
Record ifcase := mkIFCase { if_alpha : Q; if_beta : Q; if_rho : Q; if_offline : bool; if_X : list (list Q);
                            if_m : mt; if_eps : Q; if_ok : bool;
                            if_W : list (list Q); if_labels : list nat; if_crit : Q }.
Definition ifcheck (c : ifcase) : nat :=
  match icvi_fit (@fuzzyK QN (if_alpha c) (if_beta c)) (if_offline c) (@init QN [if_rho c]) (if_X c) (if_m c) (if_eps c) with
  | None => if if_ok c then 8%nat else 0%nat
  | Some (s, h) =>
      if negb (if_ok c) then 8%nat
      else if negb (qmeq (W s) (if_W c)) then 1%nat
      else if negb (nleq (labels s) (if_labels c)) then 2%nat
      else if negb (rclose (h_crit h) (if_crit c)) then (if Qeq_bool (h_WGSS h) 0 then 4%nat else 3%nat)
      else match @batch_ch QN (combine (if_X c) (labels s)) (length (hd [] (if_X c))) with
           | Some b => if Qeq_bool b (h_crit h) then 0%nat else 5%nat
           | None => 5%nat
           end
  end.

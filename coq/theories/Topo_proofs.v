(* C14: TopoART keeps weights, counters, permanence flags and the adjacency
   matrix aligned (square, one row per category, zero diagonal) through
   two-winner learning and any number of pruning rounds. *)
From Coq Require Import List Bool Arith ZArith Lia.
From ART Require Import Num Vec Search Search_proofs Kernel BaseArt DualVig Topo.
Import ListNotations.

(* ---- select: order-preserving sub-list ---- *)
Fixpoint count_true (m : list bool) : nat :=
  match m with [] => 0 | true :: m' => S (count_true m') | false :: m' => count_true m' end.
Fixpoint kth (m : list bool) (i : nat) : nat :=
  match m with
  | [] => i
  | true :: m' => match i with O => O | S i' => S (kth m' i') end
  | false :: m' => S (kth m' i)
  end.

Lemma select_nil {A} m : @select A m [] = [].
Proof. destruct m as [|[] m]; reflexivity. Qed.
Lemma select_length {A} (m : list bool) : forall (l : list A), length m = length l -> length (select m l) = count_true m.
Proof. induction m as [|[] m IH]; intros [|a l] H; cbn in *; try discriminate; auto. Qed.
Lemma nth_select {A} (m : list bool) : forall (l : list A) d i, length m = length l ->
  nth i (select m l) d = nth (kth m i) l d.
Proof.
  induction m as [|[] m IH]; intros [|a l] d i H; cbn in *; try discriminate; try reflexivity.
  - destruct i; [reflexivity|]. apply IH. lia.
  - apply IH. lia.
Qed.
Lemma select_Forall {A} (P : A -> Prop) (m : list bool) : forall l, Forall P l -> Forall P (select m l).
Proof.
  induction m as [|[] m IH]; intros [|a l] H; cbn; try constructor; inversion H; subst; auto.
Qed.
Lemma select_self_true (m : list bool) : Forall (fun b => b = true) (select m m).
Proof. induction m as [|[] m IH]; cbn; auto. Qed.

Ltac dob H :=
  match type of H with
  | obind ?e _ = _ => let E := fresh "E" in destruct e eqn:E; cbn [obind] in H; [|discriminate H]
  end.

Section P.
  Context {N : Num}.
  Variables (K Klow : Kernel N) (tau phi : nat).
  Hypothesis nleb_total : forall a b : N, nleb a b = true \/ nleb b a = true.
  Hypothesis nleb_trans : forall a b c : N, nleb a b = true -> nleb b c = true -> nleb a c = true.
  Notation topo := (@topo N).

  Definition square (a : list (list nat)) (n : nat) : Prop := length a = n /\ Forall (fun row => length row = n) a.
  Definition zero_diag (a : list (list nat)) : Prop := forall k, nth k (nth k a []) 0 = 0.
  Definition Aligned (s : topo) : Prop :=
    let n := length (W (TB s)) in
    length (wsc (TB s)) = n /\ length (perm s) = n /\ square (adj s) n /\ zero_diag (adj s).

  (* ---- the two winners are distinct ---- *)
  Lemma tsearch_distinct Ms mode eps veto fuel : forall v T res r1 r2 v' l,
    (forall r, res = Some r -> nth_error T r = Some None \/ nth_error T r = None) ->
    tsearch K Ms mode eps veto fuel v T res = (Some r1, Some r2, v', l) -> r1 <> r2.
  Proof.
    induction fuel as [|f IH]; intros v T res r1 r2 v' l Hres H; cbn [tsearch] in H; [inversion H|].
    pose proof (nanargmax_spec N nleb nleb_total nleb_trans T) as S.
    destruct (nanargmax nleb T) as [c|]; [|inversion H].
    destruct S as [a (Hc & _)].
    assert (Hnan : forall r, (nth_error T r = Some None \/ nth_error T r = None) ->
                             nth_error (set_nan c T) r = Some None \/ nth_error (set_nan c T) r = None).
    { intros r Hr. destruct (Nat.eq_dec r c) as [->|Hne]; [rewrite Hc in Hr; destruct Hr; discriminate|].
      rewrite set_nan_other by exact Hne. exact Hr. }
    assert (Hcn : nth_error (set_nan c T) c = Some None).
    { apply set_nan_same. apply nth_error_Some. congruence. }
    destruct (mbin Ms mode (k_inv K) v c && veto c) eqn:E.
    - destruct res as [r|].
      + inversion H; subst. intros ->. destruct (Hres r2 eq_refl) as [Hx|Hx]; rewrite Hc in Hx; discriminate.
      + destruct (tsearch K Ms mode eps veto f v (set_nan c T) (Some c)) as [[[a1 a2] a3] a4] eqn:ET.
        inversion H; subst. eapply IH; [|exact ET]. intros r Hr. inversion Hr; subst. left. exact Hcn.
    - destruct (veto c).
      + destruct (tsearch K Ms mode eps veto f v (set_nan c T) res) as [[[a1 a2] a3] a4] eqn:ET.
        inversion H; subst. eapply IH; [|exact ET]. intros r Hr. apply Hnan. apply Hres. exact Hr.
      + destruct (mbin Ms mode (k_inv K) v c).
        * destruct (dv_track Ms mode eps v c) as [v1 keep]. destruct keep; [|inversion H].
          destruct (tsearch K Ms mode eps veto f v1 (set_nan c T) res) as [[[a1 a2] a3] a4] eqn:ET.
          inversion H; subst. eapply IH; [|exact ET]. intros r Hr. apply Hnan. apply Hres. exact Hr.
        * destruct (tsearch K Ms mode eps veto f v (set_nan c T) res) as [[[a1 a2] a3] a4] eqn:ET.
          inversion H; subst. eapply IH; [|exact ET]. intros r Hr. apply Hnan. apply Hres. exact Hr.
  Qed.

  (* ---- adjacency operations keep the matrix square with a zero diagonal ---- *)
  Lemma adj_incr_square a n r c : square a n -> square (adj_incr a r c) n.
  Proof.
    intros (Hl & Hr). unfold adj_incr, square. rewrite set_nth_length. split; [exact Hl|].
    apply Forall_forall. intros row Hin. apply In_nth_error in Hin as [j Hj].
    destruct (Nat.eq_dec j r) as [->|Hne].
    - assert (r < length a).
      { rewrite <- (set_nth_length r (set_nth c (S (nth c (nth r a []) 0)) (nth r a [])) a). apply nth_error_Some. congruence. }
      rewrite set_nth_same in Hj by assumption. inversion Hj; subst. rewrite set_nth_length.
      rewrite Forall_forall in Hr. apply Hr. apply nth_In. assumption.
    - rewrite set_nth_other in Hj by exact Hne. rewrite Forall_forall in Hr. apply Hr. eapply nth_error_In; eauto.
  Qed.

  Lemma nth_set_nth {A} k (a d : A) : forall l j,
    nth j (set_nth k a l) d = if Nat.eqb j k then (if Nat.ltb k (length l) then a else d) else nth j l d.
  Proof.
    induction k as [|k IHk]; intros [|b l] j.
    - destruct j; reflexivity.
    - destruct j; reflexivity.
    - destruct j as [|j]; [reflexivity|]. cbn. destruct (Nat.eqb j k); reflexivity.
    - destruct j as [|j]; [reflexivity|]. cbn [set_nth nth]. rewrite IHk. reflexivity.
  Qed.

  Lemma adj_incr_zero_diag a r c : r <> c -> zero_diag a -> zero_diag (adj_incr a r c).
  Proof.
    intros Hne Hz k. unfold adj_incr. rewrite nth_set_nth.
    destruct (Nat.eqb k r) eqn:E; [|apply Hz]. apply Nat.eqb_eq in E; subst k.
    destruct (Nat.ltb r (length a)); [|destruct r; reflexivity].
    rewrite nth_set_nth. destruct (Nat.eqb r c) eqn:E2; [apply Nat.eqb_eq in E2; congruence|]. apply Hz.
  Qed.

  Lemma adj_pad_square a n : square a n -> square (adj_pad a) (S n).
  Proof.
    intros (Hl & Hr). unfold adj_pad, square. rewrite app_length, map_length. cbn. split; [lia|].
    apply Forall_app. split.
    - apply Forall_forall. intros row Hin. apply in_map_iff in Hin as (r0 & <- & Hr0).
      rewrite app_length. cbn. rewrite Forall_forall in Hr. rewrite (Hr r0 Hr0). lia.
    - constructor; [|constructor]. cbn [length]. rewrite repeat_length. lia.
  Qed.

  Lemma adj_pad_zero_diag a n : square a n -> zero_diag a -> zero_diag (adj_pad a).
  Proof.
    intros (Hl & Hr) Hz k. unfold adj_pad.
    destruct (Nat.lt_ge_cases k (length a)) as [Hlt|Hge].
    - rewrite app_nth1 by (rewrite map_length; exact Hlt).
      rewrite (nth_indep _ [] ([] ++ [0])) by (rewrite map_length; exact Hlt).
      rewrite (map_nth (fun row => row ++ [0]) a [] k).
      rewrite app_nth1; [apply Hz|]. rewrite Forall_forall in Hr. rewrite (Hr (nth k a [])); [lia|apply nth_In; exact Hlt].
    - rewrite app_nth2 by (rewrite map_length; exact Hge). rewrite map_length.
      destruct (k - length a) as [|j] eqn:E.
      + cbn [nth]. assert (k = length a) by lia. subst k. apply (nth_repeat 0 (S (length a)) (length a)).
      + destruct j; cbn [nth]; destruct k; reflexivity.
  Qed.

  (* ---- one training step ---- *)
  Theorem topo_step_aligned s x veto mode eps s' c vl :
    Aligned s -> topo_step K Klow s x veto mode eps = Some (s', c, vl) -> Aligned s'.
  Proof.
    intros (Hw & Hp & Hsq & Hz) H. unfold topo_step in H. cbn [bump W rho] in H.
    destruct (W (TB s)) as [|w0 Ws] eqn:EW.
    - dob H. inversion H; subst; clear H.
      unfold Aligned. cbn. rewrite ?EW in *. cbn in *. destruct (wsc (TB s)); [|discriminate]. cbn.
      repeat split; auto. intros k. destruct k as [|[|k]]; reflexivity.
    - set (Wl := w0 :: Ws) in *.
      dob H.
      match type of H with context[tsearch ?a ?b ?c ?d ?e ?f ?g ?h ?i] => destruct (tsearch a b c d e f g h i) as [[[r1 r2] v'] log] eqn:ES end.
      destruct (log_undef _ log); [discriminate|].
      assert (LW : forall b : st (N:=N), W b = Wl -> forall c0 w0', length (W (set_weight b c0 w0')) = length Wl).
      { intros b Hb c0 w0'. cbn. rewrite set_nth_length, Hb. reflexivity. }
      destruct r1 as [c1|].
      + dob H. dob H.
        destruct r2 as [c2|].
        * dob H. dob H.
          inversion H; subst; clear H. unfold Aligned. cbn [TB adj perm W wsc set_rho set_weight bump].
          rewrite ?EW. fold Wl. rewrite !set_nth_length. repeat split; auto.
          -- apply adj_incr_square. exact Hsq.
          -- apply adj_incr_square. exact Hsq.
          -- apply adj_incr_zero_diag; [|exact Hz]. eapply tsearch_distinct; [|exact ES]. intros r Hr; discriminate.
        * inversion H; subst; clear H. unfold Aligned. cbn [TB adj perm W wsc set_rho set_weight bump].
          rewrite ?EW. fold Wl. rewrite !set_nth_length. repeat split; auto; apply Hsq.
      + dob H.
        inversion H; subst; clear H. unfold Aligned. cbn [TB adj perm W wsc set_rho add_weight bump].
        rewrite ?EW. fold Wl. rewrite !app_length. cbn [length]. replace (length Wl + 1) with (S (length Wl)) by lia.
        repeat split; try lia.
        * apply adj_pad_square. exact Hsq.
        * apply adj_pad_square. exact Hsq.
        * eapply adj_pad_zero_diag; eauto.
  Qed.

  (* ---- pruning ---- *)
  Definition prune_mask (s : topo) : list bool :=
    map (fun p => orb (fst p) (Nat.leb phi (snd p))) (combine (perm s) (wsc (TB s))).

  Theorem prune_aligned s X s' :
    Aligned s -> prune K phi s X = Some s' ->
    Aligned s' /\
    (* exactly the categories with >= phi samples or already permanent survive, in order, and are permanent *)
    W (TB s') = select (prune_mask s) (W (TB s)) /\
    wsc (TB s') = select (prune_mask s) (wsc (TB s)) /\
    Forall (fun b => b = true) (perm s') /\
    (forall k, nth_error (prune_mask s) k = Some true <->
               (exists p c, nth_error (perm s) k = Some p /\ nth_error (wsc (TB s)) k = Some c /\ (p = true \/ phi <= c))).
  Proof.
    intros (Hw & Hp & (Hal & Har) & Hz) H. unfold prune in H. fold (prune_mask s) in H.
    set (m := prune_mask s) in *.
    destruct (omap _ (combine (tlab s) X)) as [labs|]; cbn [obind] in H; [|discriminate].
    inversion H; subst; clear H. cbn [TB tlab adj perm W wsc].
    assert (Lm : length m = length (W (TB s))).
    { unfold m, prune_mask. rewrite map_length, combine_length. lia. }
    assert (L1 : length (select m (W (TB s))) = count_true m) by (apply select_length; exact Lm).
    split; [|split; [reflexivity|split; [reflexivity|split; [apply select_self_true|]]]].
    - unfold Aligned. cbn [TB W wsc perm adj]. rewrite L1.
      split; [apply select_length; lia|]. split; [apply select_length; reflexivity|]. split; [split|].
      + apply select_length. rewrite map_length. lia.
      + apply select_Forall. apply Forall_forall. intros row Hin. apply in_map_iff in Hin as (r0 & <- & Hr0).
        apply select_length. rewrite Forall_forall in Har. rewrite (Har r0 Hr0). exact Lm.
      + intros k. rewrite (nth_select m (map (select m) (adj s)) [] k) by (rewrite map_length; lia).
        replace (@nil nat) with (select m (@nil nat)) at 1 by apply select_nil.
        rewrite (map_nth (select m) (adj s) [] (kth m k)).
        destruct (Nat.lt_ge_cases (kth m k) (length (adj s))) as [Hlt|Hge].
        * rewrite nth_select; [apply Hz|]. rewrite Forall_forall in Har. rewrite (Har (nth (kth m k) (adj s) [])); [exact Lm|apply nth_In; exact Hlt].
        * rewrite (nth_overflow (adj s)) by exact Hge. rewrite select_nil. destruct k; reflexivity.
    - intros k. unfold m, prune_mask. rewrite nth_error_map.
      destruct (nth_error (combine (perm s) (wsc (TB s))) k) as [[p c]|] eqn:E; cbn.
      + assert (G : nth_error (perm s) k = Some p /\ nth_error (wsc (TB s)) k = Some c).
        { clear - E. revert k E. generalize (perm s) (wsc (TB s)). induction l as [|a l IH]; intros [|b l0] k E; cbn in *; try (destruct k; discriminate).
          destruct k; cbn in *; [inversion E; auto|apply IH; exact E]. }
        destruct G as (G1 & G2). split.
        * intros Ht. inversion Ht as [Ht']. exists p, c. split; [exact G1|]. split; [exact G2|].
          apply orb_true_iff in Ht' as [->|Hle]; [left; reflexivity|right; apply Nat.leb_le; exact Hle].
        * intros (p' & c' & E1 & E2 & Hor). rewrite G1 in E1. rewrite G2 in E2. inversion E1; inversion E2; subst.
          f_equal. apply orb_true_iff. destruct Hor as [->|Hle]; [left; reflexivity|right; apply Nat.leb_le; exact Hle].
      + split; [discriminate|]. intros (p' & c' & E1 & E2 & _). exfalso.
        assert (k < length (combine (perm s) (wsc (TB s)))).
        { rewrite combine_length. apply Nat.min_glb_lt; apply nth_error_Some; congruence. }
        apply nth_error_None in E. lia.
  Qed.

  (* ---- whole fit: aligned after every sample and every pruning round ---- *)
  Lemma topo_loop_aligned X : forall s Xall i veto mode eps s' ls,
    Aligned s -> topo_loop K Klow tau phi s X Xall i veto mode eps = Some (s', ls) -> Aligned s'.
  Proof.
    induction X as [|x X IH]; intros s Xall i veto mode eps s' ls HA H; cbn [topo_loop] in H.
    - inversion H; subst. exact HA.
    - destruct (topo_step K Klow s x (veto i) mode eps) as [[[s1 c] l]|] eqn:E; cbn [obind] in H; [|discriminate].
      pose proof (topo_step_aligned _ _ _ _ _ _ _ _ HA E) as HA1.
      set (s2 := {| TB := TB s1; tlab := _; adj := adj s1; perm := perm s1 |}) in H.
      assert (HA2 : Aligned s2) by exact HA1.
      destruct (post_step K tau phi s2 Xall) as [s3|] eqn:EP; cbn [obind] in H; [|discriminate].
      assert (HA3 : Aligned s3).
      { unfold post_step in EP. destruct (_ && _); [|inversion EP; subst; exact HA2].
        apply (prune_aligned _ _ _ HA2 EP). }
      destruct (topo_loop K Klow tau phi s3 X Xall (S i) veto mode eps) as [[s4 ls4]|] eqn:EL; cbn [obind] in H; [|discriminate].
      inversion H; subst. eapply IH; eauto.
  Qed.

  Theorem topo_fit_aligned s X veto mode eps s' ls :
    topo_fit K Klow tau phi s X veto mode eps = Some (s', ls) -> X <> [] -> Aligned s'.
  Proof.
    unfold topo_fit. destruct (valid K (TB s) X); [|discriminate]. intros H Hne.
    destruct X as [|x X]; [congruence|]. cbn [topo_loop] in H.
    (* the first step starts from an empty model: it re-creates adjacency and mask *)
    match type of H with context[topo_step K Klow ?s0 x ?v mode eps] => destruct (topo_step K Klow s0 x v mode eps) as [[[s1 c] l]|] eqn:E end;
      cbn [obind] in H; [|discriminate].
    assert (HA1 : Aligned s1).
    { unfold topo_step in E. cbn [bump W TB] in E. destruct (k_new K x) as [w|]; cbn [obind] in E; [|discriminate].
      inversion E; subst. unfold Aligned. cbn. repeat split; auto. intros k. destruct k as [|[|k]]; reflexivity. }
    set (s2 := {| TB := TB s1; tlab := _; adj := adj s1; perm := perm s1 |}) in H.
    assert (HA2 : Aligned s2) by exact HA1.
    destruct (post_step K tau phi s2 (x :: X)) as [s3|] eqn:EP; cbn [obind] in H; [|discriminate].
    assert (HA3 : Aligned s3).
    { unfold post_step in EP. destruct (_ && _); [|inversion EP; subst; exact HA2].
      apply (prune_aligned _ _ _ HA2 EP). }
    destruct (topo_loop K Klow tau phi s3 X (x :: X) 1 veto mode eps) as [[s4 ls4]|] eqn:EL; cbn [obind] in H; [|discriminate].
    inversion H; subst. eapply topo_loop_aligned; eauto.
  Qed.
End P.

(* The real-number instance at which the arithmetic theorems are stated. *)
From Coq Require Import Reals Lra ZArith Bool.
From ART Require Import Num.
Open Scope R_scope.

Definition Rleb (a b : R) : bool := if Rle_dec a b then true else false.
Definition Reqb (a b : R) : bool := if Req_EM_T a b then true else false.

Definition RN : Num := {|
  T := R; n0 := 0; n1 := 1;
  nadd := Rplus; nsub := Rminus; nmul := Rmult; ndiv := Rdiv;
  nleb := Rleb; neqb := Reqb; nsqrt := sqrt; nexp := exp; npi := PI; nofZ := IZR |}.

Lemma Rleb_true a b : Rleb a b = true <-> a <= b.
Proof. unfold Rleb; destruct (Rle_dec a b); split; intros; auto; try discriminate; contradiction. Qed.
Lemma Rleb_false a b : Rleb a b = false <-> b < a.
Proof. unfold Rleb; destruct (Rle_dec a b); split; intros; auto; try discriminate; lra. Qed.
Lemma Reqb_true a b : Reqb a b = true <-> a = b.
Proof. unfold Reqb; destruct (Req_EM_T a b); split; intros; auto; try discriminate; contradiction. Qed.
Lemma Reqb_false a b : Reqb a b = false <-> a <> b.
Proof. unfold Reqb; destruct (Req_EM_T a b); split; intros; auto; try discriminate; contradiction. Qed.

Lemma Rleb_total a b : Rleb a b = true \/ Rleb b a = true.
Proof. rewrite !Rleb_true; lra. Qed.
Lemma Rleb_trans a b c : Rleb a b = true -> Rleb b c = true -> Rleb a c = true.
Proof. rewrite !Rleb_true; lra. Qed.

Lemma nmax_R (a b : RN) : nmax a b = Rmax a b.
Proof. unfold nmax, Rmax; cbn; unfold Rleb; destruct (Rle_dec a b); reflexivity. Qed.
Lemma nmin_R (a b : RN) : nmin a b = Rmin a b.
Proof. unfold nmin, Rmin; cbn; unfold Rleb; destruct (Rle_dec a b); reflexivity. Qed.

(* BARTMAP (artlib/biclustering/BARTMAP.py): rows_ / columns_ built from the
   row and column labels, and the checkerboard partition of the data matrix. *)
From Coq Require Import List Bool Arith Lia.
Import ListNotations.

(* rows_[k] = (row_labels_ == k / nB), columns_[k] = (column_labels_ == k mod nB): the comprehension
   [.. for label_a in range(nA) for label_b in range(nB)] enumerates k = label_a * nB + label_b *)
Definition bm_rows (ra : list nat) (nA nB : nat) : list (list bool) :=
  map (fun k => map (Nat.eqb (k / nB)) ra) (seq 0 (nA * nB)).
Definition bm_cols (cb : list nat) (nA nB : nat) : list (list bool) :=
  map (fun k => map (Nat.eqb (k mod nB)) cb) (seq 0 (nA * nB)).

(* cell (i, j) belongs to bicluster k *)
Definition in_bicluster (rows cols : list (list bool)) (k i j : nat) : bool :=
  nth i (nth k rows []) false && nth j (nth k cols []) false.

Theorem bm_shapes ra cb nA nB :
  length (bm_rows ra nA nB) = nA * nB /\ length (bm_cols cb nA nB) = nA * nB /\
  Forall (fun r => length r = length ra) (bm_rows ra nA nB) /\
  Forall (fun c => length c = length cb) (bm_cols cb nA nB).
Proof.
  unfold bm_rows, bm_cols. rewrite !map_length, !seq_length. repeat split.
  - apply Forall_forall. intros r Hr. apply in_map_iff in Hr as (k & <- & _). apply map_length.
  - apply Forall_forall. intros c Hc. apply in_map_iff in Hc as (k & <- & _). apply map_length.
Qed.

Lemma nth_map_seq {B} (f : nat -> B) n k d : k < n -> nth k (map f (seq 0 n)) d = f k.
Proof.
  intros H. rewrite (nth_indep _ d (f 0)) by (rewrite map_length, seq_length; exact H).
  rewrite (map_nth f (seq 0 n) 0 k), seq_nth by exact H. reflexivity.
Qed.
Lemma nth_map_eqb (a : nat) (l : list nat) i : i < length l -> nth i (map (Nat.eqb a) l) false = Nat.eqb a (nth i l 0).
Proof.
  intros H. rewrite (nth_indep _ false (Nat.eqb a 0)) by (rewrite map_length; exact H). apply (map_nth (Nat.eqb a)).
Qed.

(* every cell belongs to exactly one bicluster: the one of its row cluster and column cluster *)
Theorem bm_partition ra cb nA nB i j k :
  i < length ra -> j < length cb -> nth i ra 0 < nA -> nth j cb 0 < nB -> k < nA * nB ->
  in_bicluster (bm_rows ra nA nB) (bm_cols cb nA nB) k i j = true <-> k = nth i ra 0 * nB + nth j cb 0.
Proof.
  intros Hi Hj Ha Hb Hk. unfold in_bicluster, bm_rows, bm_cols.
  rewrite !nth_map_seq by exact Hk. rewrite nth_map_eqb by exact Hi. rewrite nth_map_eqb by exact Hj.
  rewrite andb_true_iff, !Nat.eqb_eq.
  assert (HnB : nB <> 0) by lia.
  split.
  - intros (E1 & E2). rewrite <- E1, <- E2. rewrite (Nat.div_mod k nB HnB) at 1. lia.
  - intros ->. split.
    + rewrite Nat.div_add_l by exact HnB. rewrite Nat.div_small by exact Hb. lia.
    + rewrite Nat.add_comm, Nat.mod_add by exact HnB. apply Nat.mod_small. exact Hb.
Qed.

(* ... and that bicluster exists *)
Theorem bm_cell_covered ra cb nA nB i j :
  i < length ra -> j < length cb -> nth i ra 0 < nA -> nth j cb 0 < nB ->
  nth i ra 0 * nB + nth j cb 0 < nA * nB.
Proof. intros Hi Hj Ha Hb. nia. Qed.

(* membership agrees with the labels *)
Theorem bm_membership ra cb nA nB k i j :
  i < length ra -> j < length cb -> k < nA * nB ->
  in_bicluster (bm_rows ra nA nB) (bm_cols cb nA nB) k i j = Nat.eqb (k / nB) (nth i ra 0) && Nat.eqb (k mod nB) (nth j cb 0).
Proof.
  intros Hi Hj Hk. unfold in_bicluster, bm_rows, bm_cols.
  rewrite !nth_map_seq by exact Hk. rewrite nth_map_eqb by exact Hi. rewrite nth_map_eqb by exact Hj. reflexivity.
Qed.

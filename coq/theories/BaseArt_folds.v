(* Every category is exactly the fold of the module's own update rule over
   exactly its members, in presentation order (C02 exact-summary clauses, for
   every kernel); weight predicates and relations lift from one update to
   whole histories (monotonicity / bound clauses). *)
From Coq Require Import List Bool Arith Lia.
From ART Require Import Num Vec Search Kernel BaseArt BaseArt_proofs BaseArt_book.
Import ListNotations.

Section Folds.
  Context {N : Num}.
  Variable K : Kernel N.
  Notation st := (@st N).

  (* samples labelled c, in presentation order *)
  Definition members (c : nat) (X : list (list N)) (L : list nat) : list (list N) :=
    map fst (filter (fun p => Nat.eqb (snd p) c) (combine X L)).

  Definition fold_members (ms : list (list N)) : option (list N) :=
    match ms with
    | [] => None
    | m :: rest => fold_left (fun ow x => w <- ow ;; k_update K x w) rest (k_new K m)
    end.

  Lemma members_snoc c X L x l : length X = length L ->
    members c (X ++ [x]) (L ++ [l]) = members c X L ++ (if Nat.eqb l c then [x] else []).
  Proof.
    intros H. unfold members. rewrite combine_app' by exact H. cbn [combine].
    rewrite filter_app, map_app. cbn [filter snd]. destruct (Nat.eqb l c); reflexivity.
  Qed.

  Lemma fold_members_snoc ms x : ms <> [] ->
    fold_members (ms ++ [x]) = (w <- fold_members ms ;; k_update K x w).
  Proof.
    destruct ms as [|m rest]; [congruence|]. intros _. cbn [fold_members app].
    rewrite fold_left_app. reflexivity.
  Qed.

  Lemma members_none c X L : Forall (fun a => a < c) L -> members c X L = [].
  Proof.
    unfold members. revert L. induction X as [|x X IH]; intros [|l L] H; cbn; try reflexivity.
    inversion H; subst. destruct (Nat.eqb l c) eqn:E; [apply Nat.eqb_eq in E; lia|]. apply IH. assumption.
  Qed.

  Definition Folded (s : st) (X : list (list N)) (L : list nat) : Prop :=
    forall c, c < length (W s) -> nth_error (W s) c = fold_members (members c X L) /\ members c X L <> [].

  Lemma folded_step s X L x veto m eps s' c vl :
    Book s L -> length X = length L -> Folded s X L ->
    step_fit K s x veto m eps = Some (s', c, vl) -> Folded s' (X ++ [x]) (L ++ [c]).
  Proof.
    intros (Hlen & Hr & _) HXL HF H.
    destruct (rgs_spec _ _ _ Hr) as (_ & Hlt & _).
    destruct (step_fit_frame K _ _ _ _ _ _ _ _ H) as (_ & _ & _ & _ & _ & O).
    intros c' Hc'. rewrite members_snoc by exact HXL.
    destruct O as [(E & -> & w & En & EW & _)|[(_ & Hc & w & w' & Enth & Eu & EW & _)|(_ & -> & w' & En & EW & _)]].
    - rewrite EW in *. cbn in Hc'. assert (c' = 0) by lia; subst c'. cbn [Nat.eqb].
      rewrite E in Hlt. rewrite (members_none 0 X L) by (eapply Forall_impl; [|exact Hlt]; cbn; intros; lia).
      cbn. rewrite En. split; [reflexivity|discriminate].
    - rewrite EW in *. rewrite set_nth_length in Hc'. destruct (Nat.eqb c c') eqn:Ecc.
      + apply Nat.eqb_eq in Ecc; subst c'. destruct (HF c Hc) as (Hf & Hne).
        rewrite set_nth_same by exact Hc. rewrite fold_members_snoc by exact Hne.
        rewrite <- Hf, Enth. cbn [obind]. rewrite Eu. split; [reflexivity|]. intros Hx. apply app_eq_nil in Hx. tauto.
      + apply Nat.eqb_neq in Ecc. rewrite app_nil_r. rewrite set_nth_other by congruence. apply HF. exact Hc'.
    - rewrite EW in *. rewrite app_length in Hc'. cbn in Hc'.
      destruct (Nat.eqb (length (W s)) c') eqn:Ecc.
      + apply Nat.eqb_eq in Ecc; subst c'. rewrite (members_none _ X L Hlt). cbn.
        rewrite nth_error_app2 by lia. rewrite Nat.sub_diag. cbn. rewrite En. split; [reflexivity|discriminate].
      + apply Nat.eqb_neq in Ecc. rewrite app_nil_r. rewrite nth_error_app1 by lia. apply HF. lia.
  Qed.

  Theorem folded_steps X : forall s Xp L i veto m eps s' cs ls,
    Book s L -> length Xp = length L -> Folded s Xp L ->
    steps K s X i veto m eps = Some (s', cs, ls) -> Folded s' (Xp ++ X) (L ++ cs).
  Proof.
    induction X as [|x X IH]; intros s Xp L i veto m eps s' cs ls HB HXL HF H; cbn [steps] in H.
    - inversion H; subst. rewrite !app_nil_r. exact HF.
    - destruct (step_fit K s x (veto i) m eps) as [[[s1 c] l]|] eqn:E; cbn [obind] in H; [|discriminate].
      destruct (steps K s1 X (S i) veto m eps) as [[[s2 cs2] ls2]|] eqn:E2; cbn [obind] in H; [|discriminate].
      inversion H; subst.
      pose proof (folded_step _ _ _ _ _ _ _ _ _ _ HB HXL HF E) as HF1.
      pose proof (book_step K _ _ _ _ _ _ _ _ _ HB E) as HB1.
      assert (HXL1 : length (Xp ++ [x]) = length (L ++ [c])) by (rewrite !app_length; cbn; lia).
      specialize (IH s1 (Xp ++ [x]) (L ++ [c]) (S i) veto m eps s' cs2 ls2 HB1 HXL1 HF1 E2).
      rewrite <- !app_assoc in IH. exact IH.
  Qed.

  (* after one fit on X: W[c] is the fold of the update rule over the rows labelled c *)
  Theorem fit_categories_are_folds s X veto m eps s' ls :
    fit K s X veto m eps = Some (s', ls) ->
    forall c, c < length (W s') -> nth_error (W s') c = fold_members (members c X (labels s')).
  Proof.
    unfold fit. destruct (valid K s X); [|discriminate]. intros H.
    set (s1 := {| W := []; labels := repeat 0 (length X); wsc := []; sc := 0; rho := rho (learn_dim s X);
                  hasW := true; dim := dim (learn_dim s X) |}) in *.
    assert (Hl : 0 + 0 + length X <= length (labels s1)) by (cbn; rewrite repeat_length; lia).
    pose proof (fit_loop_steps K X s1 0 0 veto m eps Hl) as FS. rewrite H in FS.
    destruct (steps K s1 X 0 veto m eps) as [[[s2 cs] ls2]|] eqn:E; [|contradiction].
    destruct FS as (C & _ & Lb & Hn). cbn [labels s1] in Lb. rewrite splice0 in Lb by exact Hn.
    assert (B1 : Book s1 []) by (unfold Book, hist_ok; cbn; repeat split; auto; intros; lia).
    assert (F1 : Folded s1 [] []) by (intros c Hc; cbn in Hc; lia).
    pose proof (folded_steps X s1 [] [] 0 veto m eps s2 cs ls2 B1 eq_refl F1 E) as HF. cbn [app] in HF.
    unfold core in C. injection C as EW _ _ _ _ _. intros c Hc. rewrite Lb, EW. apply HF. rewrite <- EW. exact Hc.
  Qed.

  (* ---- lifting one-update facts to histories ---- *)
  Variable P : list N -> Prop.
  Hypothesis P_new : forall x w, k_new K x = Some w -> k_valid K x = true -> P w.
  Hypothesis P_update : forall x w w', P w -> k_valid K x = true -> k_update K x w = Some w' -> P w'.

  Lemma P_step s x veto m eps s' c vl :
    Forall P (W s) -> k_valid K x = true -> step_fit K s x veto m eps = Some (s', c, vl) -> Forall P (W s').
  Proof.
    intros HP Hv H. destruct (step_fit_frame K _ _ _ _ _ _ _ _ H) as (_ & _ & _ & _ & _ & O).
    destruct O as [(E & _ & w & En & EW & _)|[(_ & Hc & w & w' & Enth & Eu & EW & _)|(_ & _ & w' & En & EW & _)]]; rewrite EW.
    - constructor; [eapply P_new; eauto|constructor].
    - apply Forall_forall. intros y Hy. apply In_nth_error in Hy as [j Hj].
      destruct (Nat.eq_dec j c) as [->|Hne].
      + rewrite set_nth_same in Hj by exact Hc. inversion Hj; subst.
        eapply P_update; eauto. rewrite Forall_forall in HP. apply HP. eapply nth_error_In; eauto.
      + rewrite set_nth_other in Hj by exact Hne. rewrite Forall_forall in HP. apply HP. eapply nth_error_In; eauto.
    - apply Forall_app. split; [exact HP|constructor; [eapply P_new; eauto|constructor]].
  Qed.

  Lemma P_steps X : forall s i veto m eps s' cs ls,
    Forall P (W s) -> forallb (k_valid K) X = true ->
    steps K s X i veto m eps = Some (s', cs, ls) -> Forall P (W s').
  Proof.
    induction X as [|x X IH]; intros s i veto m eps s' cs ls HP Hv H; cbn [steps] in H.
    - inversion H; subst. exact HP.
    - cbn in Hv. apply andb_true_iff in Hv as [Hx Hv].
      destruct (step_fit K s x (veto i) m eps) as [[[s1 c] l]|] eqn:E; cbn [obind] in H; [|discriminate].
      destruct (steps K s1 X (S i) veto m eps) as [[[s2 cs2] ls2]|] eqn:E2; cbn [obind] in H; [|discriminate].
      inversion H; subst. apply (IH s1 (S i) veto m eps s' cs2 ls2); [eapply P_step; eauto|exact Hv|exact E2].
  Qed.

  Theorem P_fit s X veto m eps s' ls : fit K s X veto m eps = Some (s', ls) -> Forall P (W s').
  Proof.
    unfold fit. destruct (valid K s X) eqn:V; [|discriminate]. intros H.
    unfold valid in V. apply andb_true_iff in V as [V _].
    set (s1 := {| W := []; labels := repeat 0 (length X); wsc := []; sc := 0; rho := rho (learn_dim s X);
                  hasW := true; dim := dim (learn_dim s X) |}) in *.
    assert (Hl : 0 + 0 + length X <= length (labels s1)) by (cbn; rewrite repeat_length; lia).
    pose proof (fit_loop_steps K X s1 0 0 veto m eps Hl) as FS. rewrite H in FS.
    destruct (steps K s1 X 0 veto m eps) as [[[s2 cs] ls2]|] eqn:E; [|contradiction].
    destruct FS as (C & _). unfold core in C. injection C as EW _ _ _ _ _. rewrite EW.
    apply (P_steps X s1 0 veto m eps s2 cs ls2); [constructor|exact V|exact E].
  Qed.

  Theorem P_partial_fit s X veto m eps s' ls :
    Forall P (W s) -> partial_fit K s X veto m eps = Some (s', ls) -> Forall P (W s').
  Proof.
    intros HP. unfold partial_fit. destruct (valid K s X) eqn:V; [|discriminate].
    unfold valid in V. apply andb_true_iff in V as [V _].
    assert (EWl : W (learn_dim s X) = W s) by (unfold learn_dim; destruct (dim s), X; reflexivity).
    destruct (hasW (learn_dim s X)); intros H.
    - set (s1 := set_labels _ _) in H.
      assert (Hl : 0 + length (labels (learn_dim s X)) + length X <= length (labels s1)).
      { unfold s1; cbn. rewrite app_length, repeat_length. lia. }
      pose proof (fit_loop_steps K X s1 0 _ veto m eps Hl) as FS. rewrite H in FS.
      destruct (steps K s1 X 0 veto m eps) as [[[s2 cs] ls2]|] eqn:E; [|contradiction].
      destruct FS as (C & _). unfold core in C. injection C as EW _ _ _ _ _. rewrite EW.
      apply (P_steps X s1 0 veto m eps s2 cs ls2); [|exact V|exact E].
      unfold s1. cbn [W set_labels]. rewrite EWl. exact HP.
    - set (s1 := {| W := []; labels := _; wsc := _; sc := _; rho := _; hasW := true; dim := _ |}) in H.
      assert (Hl : 0 + 0 + length X <= length (labels s1)) by (cbn; rewrite repeat_length; lia).
      pose proof (fit_loop_steps K X s1 0 0 veto m eps Hl) as FS. rewrite H in FS.
      destruct (steps K s1 X 0 veto m eps) as [[[s2 cs] ls2]|] eqn:E; [|contradiction].
      destruct FS as (C & _). unfold core in C. injection C as EW _ _ _ _ _. rewrite EW.
      apply (P_steps X s1 0 veto m eps s2 cs ls2); [constructor|exact V|exact E].
  Qed.
End Folds.

(* a relation between the old and the new weight of every category (regions only grow) *)
Section Rel.
  Context {N : Num}.
  Variable K : Kernel N.
  Variable R : list N -> list N -> Prop.
  Hypothesis R_refl : forall w, R w w.
  Hypothesis R_update : forall x w w', k_valid K x = true -> k_update K x w = Some w' -> R w w'.

  Theorem R_step (s : st (N:=N)) x veto m eps s' c vl :
    k_valid K x = true -> step_fit K s x veto m eps = Some (s', c, vl) ->
    forall j w, nth_error (W s) j = Some w -> exists w', nth_error (W s') j = Some w' /\ R w w'.
  Proof.
    intros Hv H j w Hj. destruct (step_fit_frame K _ _ _ _ _ _ _ _ H) as (_ & _ & _ & _ & _ & O).
    assert (Hlt : j < length (W s)) by (apply nth_error_Some; congruence).
    destruct O as [(E & _)|[(_ & Hc & w0 & w' & Enth & Eu & EW & _)|(_ & _ & w' & En & EW & _)]].
    - rewrite E in Hlt. cbn in Hlt. lia.
    - rewrite EW. destruct (Nat.eq_dec j c) as [->|Hne].
      + rewrite set_nth_same by exact Hc. exists w'. split; [reflexivity|].
        rewrite Enth in Hj. inversion Hj; subst. eapply R_update; eauto.
      + rewrite set_nth_other by exact Hne. exists w. split; [exact Hj|apply R_refl].
    - rewrite EW, nth_error_app1 by exact Hlt. exists w. split; [exact Hj|apply R_refl].
  Qed.
End Rel.

(* Data preparation (artlib/common/utils.py, BaseART / FuzzyART prepare_data,
   restore_data) and the validation gates. *)
From Coq Require Import List Bool Arith ZArith Lia.
From ART Require Import Num Vec Search Kernel BaseArt.
Import ListNotations.

Section Prep.
  Context {N : Num}.

  (* normalize / de_normalize, column bounds given (np.min / np.max over the first data set) *)
  Definition normalize_row (dmin dmax x : list N) : list N :=
    vzip ndiv (vsub x dmin) (vsub dmax dmin).
  Definition denormalize_row (dmin dmax x : list N) : list N :=
    vadd (vmul x (vsub dmax dmin)) dmin.
  Definition compliment_code (x : list N) : list N := x ++ vcompl x.
  Definition de_compliment_code (x : list N) : list N :=
    let m := Nat.div (length x) 2 in
    map nhalf (vadd (firstn m x) (vcompl (skipn m x))).

  Fixpoint col_min (rows : list (list N)) : list N :=
    match rows with [] => [] | [r] => r | r :: rest => vzip nmin r (col_min rest) end.
  Fixpoint col_max (rows : list (list N)) : list N :=
    match rows with [] => [] | [r] => r | r :: rest => vzip nmax r (col_max rest) end.

  (* estimator-side state: d_min_, d_max_ are set by the first call and re-used afterwards *)
  Definition bounds := option (list N * list N).
  Definition prepare (b : bounds) (X : list (list N)) : list (list N) * bounds :=
    let '(lo, hi) := match b with Some p => p | None => (col_min X, col_max X) end in
    (map (normalize_row lo hi) X, Some (lo, hi)).
  Definition restore (b : bounds) (X : list (list N)) : option (list (list N)) :=
    match b with Some (lo, hi) => Some (map (denormalize_row lo hi) X) | None => None end.
  Definition prepare_fuzzy (b : bounds) (X : list (list N)) : list (list N) * bounds :=
    let '(Y, b') := prepare b X in (map compliment_code Y, b').
  Definition restore_fuzzy (b : bounds) (X : list (list N)) : option (list (list N)) :=
    restore b (map de_compliment_code X).
End Prep.

(* C12, whole-hierarchy forms: along the WHOLE chain of levels the category counts never decrease, and sharing a
   category at any finer level implies sharing one at EVERY coarser level (not just the next one). *)
From Coq Require Import List Bool Arith Lia Sorted.
From ART Require Import Num Vec Search Kernel BaseArt SimpleARTMAP SimpleARTMAP_proofs Deep Deep_proofs.
Import ListNotations.

Section T.
  Context {N : Num}.

  (* the columns of labels_deep_: the targets, then every level's own labels *)
  Definition columns (y : list nat) (ls : list (sam (N:=N))) : list (list nat) := y :: map (fun l => labels (A l)) ls.

  Theorem counts_never_decrease_with_depth n : forall (ls : list (sam (N:=N))) y,
    Forall (fun l => layer_ok l n) ls -> chained y ls ->
    forall j a b, nth_error (map ndistinct (columns y ls)) j = Some a ->
                  nth_error (map ndistinct (columns y ls)) (S j) = Some b -> a <= b.
  Proof.
    induction ls as [|l ls IH]; intros y HF HC j a b Ha Hb.
    - destruct j; cbn in Hb; discriminate.
    - inversion HF as [|l0 ls0 Hl HF' El]. destruct HC as [Hy HC'].
      destruct j as [|j].
      + cbn in Ha, Hb. inversion Ha as [Ea]. inversion Hb as [Eb]. rewrite <- Hy. apply (deep_counts_monotone l n Hl).
      + apply (IH (labels (A l)) HF' HC' j a b); [exact Ha|exact Hb].
  Qed.

  (* sharing a category at level j (column j+1) implies sharing one at every coarser column k <= j *)
  Theorem nested_at_every_coarser_level n : forall (ls : list (sam (N:=N))) y,
    Forall (fun l => layer_ok l n) ls -> chained y ls ->
    forall j k i i' cj, k <= j ->
      nth_error (nth j (columns y ls) []) i = Some cj -> nth_error (nth j (columns y ls) []) i' = Some cj ->
      j < length (columns y ls) -> i < n -> i' < n -> length y = n ->
      exists ck, nth_error (nth k (columns y ls) []) i = Some ck /\ nth_error (nth k (columns y ls) []) i' = Some ck.
  Proof.
    induction ls as [|l ls IH]; intros y HF HC j k i i' cj Hkj Hi Hi' Hj Hin Hin' Hy.
    - cbn in Hj. assert (j = 0) by lia. subst j. assert (k = 0) by lia. subst k. exists cj. split; assumption.
    - inversion HF as [|l0 ls0 Hl HF' El]. destruct HC as [Hby HC'].
      destruct k as [|k].
      + (* down to the top column: first get to column 1's predecessor by recursion on j *)
        destruct j as [|j]; [exists cj; split; assumption|].
        (* columns (S j) of (y :: labels l :: ...) = column j of the tail hierarchy rooted at labels (A l) *)
        assert (Hl' := Hl). destruct Hl' as (HM & HLa & HLb).
        destruct (IH (labels (A l)) HF' HC' j 0 i i' cj ltac:(lia) Hi Hi' ltac:(cbn in Hj |- *; unfold columns in *; cbn in *; lia) Hin Hin' HLa)
          as (c0 & Hc0 & Hc0').
        cbn [columns nth] in Hc0, Hc0'.
        (* both samples carry A-side label c0 in layer l: the map sends it to one class *)
        destruct HM as (_ & Hlab & _).
        assert (Eb : exists b, nth_error (bl l) i = Some b) by (destruct (nth_error (bl l) i) eqn:E; [eauto|apply nth_error_None in E; lia]).
        assert (Eb' : exists b, nth_error (bl l) i' = Some b) by (destruct (nth_error (bl l) i') eqn:E; [eauto|apply nth_error_None in E; lia]).
        destruct Eb as (b & Eb). destruct Eb' as (b' & Eb').
        pose proof (Hlab i c0 b Hin Hc0 Eb) as L1. pose proof (Hlab i' c0 b' Hin' Hc0' Eb') as L2.
        assert (b = b') by congruence. subst b'.
        exists b. cbn [columns nth]. rewrite <- Hby. split; assumption.
      + destruct j as [|j]; [lia|].
        destruct Hl as (_ & HLa & _).
        apply (IH (labels (A l)) HF' HC' j k i i' cj ltac:(lia) Hi Hi' ltac:(cbn in Hj |- *; unfold columns in *; cbn in *; lia) Hin Hin' HLa).
  Qed.
End T.

(* BaseART (artlib/common/BaseART.py): estimator state, add/set_weight,
   step_fit, fit, partial_fit, step_pred, predict.  One Gallina function per
   Python method, same branch structure. *)
From Coq Require Import List Bool Arith Lia.
From ART Require Import Num Vec Search Kernel.
Import ListNotations.

Section BaseArt.
  Context {N : Num}.
  Variable K : Kernel N.

  Record st := mkSt {
    W : list (list N);                 (* self.W *)
    labels : list nat;           (* self.labels_ *)
    wsc : list nat;              (* self.weight_sample_counter_ *)
    sc : nat;                    (* self.sample_counter_ *)
    rho : list N;                (* the vigilance entry/entries of params that match tracking writes *)
    hasW : bool;                 (* hasattr(self, "W") *)
    dim : option nat             (* self.dim_ *)
  }.

  Definition init (r : list N) : st :=
    {| W := []; labels := []; wsc := []; sc := 0; rho := r; hasW := false; dim := None |}.

  Definition add_weight (s : st) (w : list N) : st :=
    {| W := W s ++ [w]; labels := labels s; wsc := wsc s ++ [1]; sc := sc s;
       rho := rho s; hasW := hasW s; dim := dim s |}.
  Definition set_weight (s : st) (c : nat) (w : list N) : st :=
    {| W := set_nth c w (W s); labels := labels s;
       wsc := set_nth c (S (nth c (wsc s) 0)) (wsc s); sc := sc s;
       rho := rho s; hasW := hasW s; dim := dim s |}.
  Definition set_rho (s : st) (r : list N) : st :=
    {| W := W s; labels := labels s; wsc := wsc s; sc := sc s; rho := r; hasW := hasW s; dim := dim s |}.
  Definition set_labels (s : st) (l : list nat) : st :=
    {| W := W s; labels := l; wsc := wsc s; sc := sc s; rho := rho s; hasW := hasW s; dim := dim s |}.
  Definition bump (s : st) : st :=
    {| W := W s; labels := labels s; wsc := wsc s; sc := S (sc s); rho := rho s; hasW := hasW s; dim := dim s |}.

  Definition vlog := list (nat * list N).   (* (category, vigilance in force) handed to the reset function *)

  (* activations; under MT~ with a reset function, vetoed categories are NaN and not evaluated *)
  Definition activations (Ws : list (list N)) (x : list N) (mask : nat -> bool) : option (list (option N)) :=
    omapi 0 (fun c w => if mask c then (t <- k_choice K Ws x w ;; Some (Some t)) else Some None) Ws.

  Definition step_fit (s : st) (x : list N) (veto : option (nat -> bool)) (m : mt) (eps : N)
    : option (st * nat * vlog) :=
    let s0 := bump s in
    let base := rho s0 in                                   (* base_params = deepcopy(self.params) *)
    match W s0 with
    | [] => w <- k_new K x ;; Some (add_weight s0 w, 0, [])
    | _ =>
      let n := length (W s0) in
      let pre := match m, veto with MTtilde, Some _ => true | _, _ => false end in
      let mask := match m, veto with MTtilde, Some f => f | _, _ => fun _ => true end in
      Ts <- activations (W s0) x mask ;;
      let Ms := map (k_match K x) (W s0) in
      let vf : list N -> nat -> bool :=
        if pre then no_veto else match veto with Some f => fun _ c => f c | None => no_veto end in
      let '(win, v', log) :=
        search nleb (mbin Ms m (k_inv K)) vf (track Ms m eps (k_inv K)) n (rho s0) Ts in
      if log_undef Ms log then None else
      let prelog := if pre then map (fun c => (c, rho s0)) (seq 0 n) else [] in
      let vl := prelog ++ (match veto with Some _ => if pre then [] else log | None => [] end) in
      let s1 := set_rho s0 v' in                             (* match tracking wrote into params *)
      match win with
      | Some c =>
          w <- nth_error (W s1) c ;;
          w' <- k_update K x w ;;
          Some (set_rho (set_weight s1 c w') base, c, vl)      (* _set_params(base_params) *)
      | None =>
          w' <- k_new K x ;;
          Some (set_rho (add_weight s1 w') base, n, vl)
      end
    end.

  (* validate_data + check_dimensions *)
  Definition dims_ok (s : st) (X : list (list N)) : bool :=
    match dim s with
    | Some d => forallb (fun x => Nat.eqb (length x) d) X
    | None => match X with
              | [] => true
              | x :: _ => forallb (fun y => Nat.eqb (length y) (length x)) X && k_dimok K (length x)
              end
    end.
  Definition valid (s : st) (X : list (list N)) : bool := forallb (k_valid K) X && dims_ok s X.
  Definition learn_dim (s : st) (X : list (list N)) : st :=
    match dim s, X with
    | None, x :: _ => {| W := W s; labels := labels s; wsc := wsc s; sc := sc s; rho := rho s;
                         hasW := hasW s; dim := Some (length x) |}
    | _, _ => s
    end.

  (* per-sample veto: the reset function may depend on the position in the stream *)
  Definition vetos := nat -> option (nat -> bool).

  Fixpoint fit_loop (s : st) (X : list (list N)) (i j : nat) (veto : vetos) (m : mt) (eps : N)
    : option (st * list vlog) :=
    match X with
    | [] => Some (s, [])
    | x :: X' =>
        r <- step_fit s x (veto i) m eps ;;
        let '(s1, c, l) := r in
        let s2 := set_labels s1 (set_nth (i + j) c (labels s1)) in   (* self.labels_[i + j] = c *)
        r' <- fit_loop s2 X' (S i) j veto m eps ;;
        Some (fst r', l :: snd r')
    end.

  (* fit re-initialises W, labels_ and (after the fix: commit) the counters *)
  Definition fit (s : st) (X : list (list N)) (veto : vetos) (m : mt) (eps : N)
    : option (st * list vlog) :=
    if valid s X then
      let s0 := learn_dim s X in
      let s1 := {| W := []; labels := repeat 0 (length X); wsc := []; sc := 0; rho := rho s0;
                   hasW := true; dim := dim s0 |} in
      fit_loop s1 X 0 0 veto m eps
    else None.

  Definition partial_fit (s : st) (X : list (list N)) (veto : vetos) (m : mt) (eps : N)
    : option (st * list vlog) :=
    if valid s X then
      let s0 := learn_dim s X in
      if hasW s0 then
        let j := length (labels s0) in
        fit_loop (set_labels s0 (labels s0 ++ repeat 0 (length X))) X 0 j veto m eps
      else
        let s1 := {| W := []; labels := repeat 0 (length X); wsc := wsc s0; sc := sc s0; rho := rho s0;
                     hasW := true; dim := dim s0 |} in
        fit_loop s1 X 0 0 veto m eps
    else None.

  (* step_pred: np.argmax of the activations (first maximum) *)
  Definition step_pred (s : st) (x : list N) : option nat :=
    Ts <- omap (k_choice K (W s) x) (W s) ;;
    argmax nleb Ts.

  Definition predict (s : st) (X : list (list N)) : option (list nat) :=
    if hasW s && valid s X then omap (step_pred s) X else None.
End BaseArt.

Arguments init {N}.

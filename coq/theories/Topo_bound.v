(* C02 (size bound for the base module of TopoART) / C14: with match tracking
   only on vetoed categories that passed the vigilance (after /repo fix
   79caf04), the vigilance in force during TopoART's search never drops below
   the configured one under every mode that never lowers it; both winners
   therefore passed a vigilance >= rho, and with Fuzzy ART as the base module
   every base category keeps |w| >= rho d through steps and pruning rounds. *)
From Coq Require Import List Bool Arith ZArith Reals Lra Lia.
From ART Require Import Num NumR Vec Search Search_proofs Kernel BaseArt BaseArt_proofs
     DualVig DualVig_proofs Topo Topo_proofs Fuzzy Fuzzy_R Bounds_R DualVig_bound.
Import ListNotations.
Open Scope R_scope.

Section TB.
  Variable K : Kernel RN.
  Hypothesis K_single : k_inv K = [false].

  (* a winner passed some vigilance that is at least the one the search started with *)
  Definition passed (Ms : list (list (option RN))) (mode : mt) (v0 : list RN) (r : option nat) : Prop :=
    match r with
    | Some c => exists vr : list RN, length vr = 1%nat /\ vig_le v0 vr /\ mbin Ms mode (k_inv K) vr c = true
    | None => True
    end.

  Lemma tsearch_winners_passed Ms mode eps veto (v0 : list RN) : raising mode eps ->
    forall fuel (v : list RN) T res r1 r2 v' l,
      length v = 1%nat -> vig_le v0 v -> passed Ms mode v0 res ->
      tsearch K Ms mode eps veto fuel v T res = (r1, r2, v', l) ->
      passed Ms mode v0 r1 /\ passed Ms mode v0 r2.
  Proof.
    intros Hr. induction fuel as [|f IH]; intros v T res r1 r2 v' l Hv Hle Hres H; cbn [tsearch] in H.
    - inversion H; subst. split; [exact Hres|exact I].
    - destruct (nanargmax nleb T) as [c|]; [|inversion H; subst; split; [exact Hres|exact I]].
      destruct (mbin Ms mode (k_inv K) v c) eqn:Hm; destruct (veto c) eqn:Hveto; cbn [andb] in H.
      + (* passes, not vetoed *)
        assert (Hc : passed Ms mode v0 (Some c)) by (exists v; auto).
        destruct res as [r|].
        * inversion H; subst. split; [exact Hres|exact Hc].
        * destruct (tsearch K Ms mode eps veto f v (set_nan c T) (Some c)) as [[[a1 a2] a3] a4] eqn:ET.
          inversion H; subst. eapply IH; [exact Hv|exact Hle|exact Hc|exact ET].
      + (* passes, vetoed: the vigilance is raised *)
        destruct (dv_track_raises K K_single Ms mode eps v c Hr Hv Hm) as [L1 Hle1].
        destruct (dv_track Ms mode eps v c) as [v1 keep]. cbn [fst] in *. destruct keep.
        * destruct (tsearch K Ms mode eps veto f v1 (set_nan c T) res) as [[[a1 a2] a3] a4] eqn:ET.
          inversion H; subst. eapply IH; [exact L1| |exact Hres|exact ET]. unfold vig_le in *. lra.
        * inversion H; subst. split; [exact Hres|exact I].
      + (* fails, not vetoed *)
        destruct (tsearch K Ms mode eps veto f v (set_nan c T) res) as [[[a1 a2] a3] a4] eqn:ET.
        inversion H; subst. eapply IH; [exact Hv|exact Hle|exact Hres|exact ET].
      + (* fails, vetoed: nothing moves *)
        destruct (tsearch K Ms mode eps veto f v (set_nan c T) res) as [[[a1 a2] a3] a4] eqn:ET.
        inversion H; subst. eapply IH; [exact Hv|exact Hle|exact Hres|exact ET].
  Qed.
End TB.

Ltac bind_in H Eq :=
  match type of H with
  | @obind _ _ ?m _ = _ => let E := fresh "E" in assert (E : m = _) by (exact Eq); rewrite E in H; clear E; cbn [obind] in H
  end.

(* ---- Fuzzy ART as the base module (learning rates beta and beta_lower) ---- *)
Section TopoFuzzy.
  Variables alpha beta beta_lower : R.
  Hypothesis Hb : 0 <= beta <= 1.
  Hypothesis Hbl : 0 <= beta_lower <= 1.
  Let K := @fuzzyK RN alpha beta.
  Let Klow := @fuzzyK RN alpha beta_lower.

  Lemma Forall_set_nth {A} (P : A -> Prop) k a (l : list A) : Forall P l -> P a -> Forall P (set_nth k a l).
  Proof.
    intros Hl Ha. apply Forall_forall. intros y Hy. apply In_nth_error in Hy as [j Hj].
    destruct (Nat.eq_dec j k) as [->|Hne].
    - destruct (Nat.lt_ge_cases k (length l)) as [Hk|Hk].
      + rewrite set_nth_same in Hj by exact Hk. inversion Hj; subst; exact Ha.
      + assert (Hn : nth_error (set_nth k a l) k = None) by (apply nth_error_None; rewrite set_nth_length; lia). congruence.
    - rewrite set_nth_other in Hj by exact Hne. rewrite Forall_forall in Hl. apply Hl. eapply nth_error_In; eauto.
  Qed.

  (* the match value of a winner is at least the configured vigilance *)
  Lemma passed_match (Wl : list (list R)) (x : list R) mode (rho0 : R) c :
    passed K (map (k_match K x) Wl) mode [rho0] (Some c) ->
    exists w M, nth_error Wl c = Some w /\ @fuzzy_match RN x w = Some M /\ rho0 <= M.
  Proof.
    intros (vr & L & Hle & Hm). unfold mbin in Hm. rewrite nth_error_map in Hm.
    match type of Hm with context[option_map _ ?e] => destruct e as [w|] eqn:Ew end; cbn [option_map] in Hm; [|discriminate].
    cbn [k_match K fuzzyK k_inv] in Hm.
    destruct vr as [|r2 [|? ?]]; cbn in L; try discriminate.
    destruct (@fuzzy_match RN x w) as [M|] eqn:EM; cbn in Hm; [|discriminate].
    rewrite andb_true_r in Hm. exists w, M. split; [exact Ew|]. split; [exact EM|].
    unfold vig_le in Hle. cbn in Hle. unfold op_pass in Hm.
    destruct (mt_strict mode); unfold nltb in Hm; cbn in Hm.
    - apply negb_true_iff in Hm. apply Rleb_false in Hm. lra.
    - apply Rleb_true in Hm. lra.
  Qed.

  Theorem topo_fuzzy_step_bound (s : topo (N:=RN)) x veto mode eps s' c vl rho0 d :
    raising mode eps -> rho (TB s) = [rho0] -> rho0 <= 1 -> 0 < d ->
    @dim_original RN x = d -> Forall (fun a => 0 <= a) x -> @vsum RN x = d ->
    Forall (fz_ok rho0 d (length x)) (W (TB s)) ->
    topo_step K Klow s x veto mode eps = Some (s', c, vl) ->
    Forall (fz_ok rho0 d (length x)) (W (TB s')) /\ rho (TB s') = [rho0].
  Proof.
    intros Hr Hrho Hr1 Hd Hdo Hx Hsum HW H.
    assert (Hnew : fz_ok rho0 d (length x) x).
    { split; [reflexivity|]. split; [exact Hx|]. rewrite l1_nonneg by exact Hx. rewrite Hsum. nra. }
    unfold topo_step in H. cbn [bump W rho] in H.
    destruct (W (TB s)) as [|w0 Ws] eqn:EW.
    - cbn in H. injection H as Es Ec El. rewrite <- Es. cbn. rewrite EW. split; [constructor; [exact Hnew|constructor]|exact Hrho].
    - set (Wl := w0 :: Ws) in *.
      destruct (omap (k_choice K Wl x) Wl) as [Ts|]; cbn [obind] in H; [|discriminate].
      match type of H with context [tsearch K ?Ms mode eps ?vf ?n ?v0 ?T None] =>
        destruct (tsearch K Ms mode eps vf n v0 T None) as [[[r1 r2] v'] log] eqn:ES;
        pose proof (tsearch_winners_passed K eq_refl Ms mode eps vf v0 Hr n v0 T None r1 r2 v' log
                      ltac:(rewrite Hrho; reflexivity) ltac:(unfold vig_le; lra) I ES) as [P1 P2] end.
      rewrite Hrho in P1, P2.
      destruct (log_undef _ log); [discriminate|].
      destruct r1 as [c1|].
      + destruct (passed_match Wl x mode rho0 c1 P1) as (w1 & M1 & Ew1 & EM1 & HM1).
        bind_in H Ew1. cbn [k_update K fuzzyK obind] in H.
        assert (Hok1 : fz_ok rho0 d (length x) w1) by (rewrite Forall_forall in HW; apply HW; eapply nth_error_In; eauto).
        pose proof (fz_update_ok beta Hb x w1 rho0 d M1 Hr1 Hd Hdo Hx Hsum Hok1 EM1 HM1) as Hup1.
        destruct r2 as [c2|].
        * assert (Hne : c1 <> c2).
          { eapply (tsearch_distinct K Rleb_total Rleb_trans); [|exact ES]. intros r Hr0; discriminate. }
          destruct (passed_match Wl x mode rho0 c2 P2) as (w2 & M2 & Ew2 & EM2 & HM2).
          assert (E2 : nth_error (W (set_weight (bump (TB s)) c1 (@fuzzy_update RN beta x w1))) c2 = Some w2).
          { cbn [W set_weight bump]. rewrite EW. rewrite set_nth_other by (intro E; apply Hne; symmetry; exact E). exact Ew2. }
          bind_in H E2. cbn [k_update Klow fuzzyK obind] in H.
          assert (Hok2 : fz_ok rho0 d (length x) w2) by (rewrite Forall_forall in HW; apply HW; eapply nth_error_In; eauto).
          pose proof (fz_update_ok beta_lower Hbl x w2 rho0 d M2 Hr1 Hd Hdo Hx Hsum Hok2 EM2 HM2) as Hup2.
          injection H as Es Ec El. rewrite <- Es. cbn [TB W set_rho set_weight rho bump]. rewrite EW. fold Wl.
          split; [|exact Hrho]. apply Forall_set_nth; [apply Forall_set_nth; [exact HW|exact Hup1]|exact Hup2].
        * injection H as Es Ec El. rewrite <- Es. cbn [TB W set_rho set_weight rho bump]. rewrite EW. fold Wl.
          split; [|exact Hrho]. apply Forall_set_nth; [exact HW|exact Hup1].
      + cbn [k_new K fuzzyK obind] in H.
        injection H as Es Ec El. rewrite <- Es. cbn [TB W set_rho add_weight rho bump]. rewrite EW. fold Wl.
        split; [|exact Hrho]. apply Forall_app. split; [exact HW|constructor; [exact Hnew|constructor]].
  Qed.

  (* data rows the bound is about: complement-coded rows of a fixed width (what Fuzzy ART's validation accepts) *)
  Definition cc_ok (d : R) (n : nat) (x : list R) : Prop :=
    length x = n /\ @dim_original RN x = d /\ Forall (fun a => 0 <= a) x /\ @vsum RN x = d.

  Lemma prune_bound phi (s s' : topo (N:=RN)) X rho0 d n :
    Forall (fz_ok rho0 d n) (W (TB s)) -> rho (TB s) = [rho0] -> prune K phi s X = Some s' ->
    Forall (fz_ok rho0 d n) (W (TB s')) /\ rho (TB s') = [rho0].
  Proof.
    intros HW Hrho H. unfold prune in H.
    match type of H with obind ?e _ = _ => destruct e as [labs|] end; cbn [obind] in H; [|discriminate].
    inversion H; subst. cbn [TB W rho]. split; [apply select_Forall; exact HW|exact Hrho].
  Qed.

  Lemma topo_loop_bound tau phi rho0 d n mode eps veto Xall : raising mode eps -> rho0 <= 1 -> 0 < d ->
    forall X (s : topo (N:=RN)) i s' ls,
      Forall (cc_ok d n) X -> Forall (fz_ok rho0 d n) (W (TB s)) -> rho (TB s) = [rho0] ->
      topo_loop K Klow tau phi s X Xall i veto mode eps = Some (s', ls) ->
      Forall (fz_ok rho0 d n) (W (TB s')) /\ rho (TB s') = [rho0].
  Proof.
    intros Hr Hr1 Hd. induction X as [|x X IH]; intros s i s' ls HX HW Hrho H; cbn [topo_loop] in H.
    - inversion H; subst. auto.
    - inversion HX as [|? ? Hc HX']; subst. destruct Hc as (Hl & Hdo & Hx0 & Hsum).
      destruct (topo_step K Klow s x (veto i) mode eps) as [[[s1 c] l]|] eqn:E1; cbn [obind] in H; [|discriminate].
      assert (HW0 : Forall (fz_ok rho0 d (length x)) (W (TB s))) by (rewrite Hl; exact HW).
      destruct (topo_fuzzy_step_bound s x (veto i) mode eps s1 c l rho0 d Hr Hrho Hr1 Hd Hdo Hx0 Hsum HW0 E1) as [HW1' Hrho1].
      assert (HW1 : Forall (fz_ok rho0 d n) (W (TB s1))) by (rewrite <- Hl; exact HW1').
      match type of H with obind ?e _ = _ => destruct e as [s3|] eqn:E3 end; cbn [obind] in H; [|discriminate].
      assert (H3 : Forall (fz_ok rho0 d n) (W (TB s3)) /\ rho (TB s3) = [rho0]).
      { unfold post_step in E3. cbn [TB] in E3.
        match type of E3 with (if ?b then _ else _) = _ => destruct b end.
        - eapply prune_bound; [| |exact E3]; cbn [TB]; assumption.
        - inversion E3; subst. cbn [TB]. auto. }
      destruct H3 as [HW3 Hrho3].
      match type of H with obind ?e _ = _ => destruct e as [[s4 l4]|] eqn:E4 end; cbn [obind] in H; [|discriminate].
      inversion H; subst. cbn [fst]. eapply IH; [exact HX'|exact HW3|exact Hrho3|exact E4].
  Qed.

  (* whole fit calls: every base category of TopoART(FuzzyART) obeys |w| >= rho d, through both winners' updates,
     new categories and every pruning round *)
  Theorem topo_fuzzy_fit_bound tau phi (s : topo (N:=RN)) X veto mode eps s' ls rho0 d n :
    raising mode eps -> rho0 <= 1 -> 0 < d -> rho (TB s) = [rho0] -> Forall (cc_ok d n) X ->
    topo_fit K Klow tau phi s X veto mode eps = Some (s', ls) ->
    Forall (fz_ok rho0 d n) (W (TB s')) /\ rho (TB s') = [rho0].
  Proof.
    intros Hr Hr1 Hd Hrho HX H. unfold topo_fit in H.
    destruct (valid K (TB s) X); [|discriminate].
    eapply topo_loop_bound; [exact Hr|exact Hr1|exact Hd|exact HX| | |exact H]; cbn [TB W rho].
    - constructor.
    - unfold learn_dim. destruct (dim (TB s)); [exact Hrho|]. destruct X; exact Hrho.
  Qed.
End TopoFuzzy.

(* ---- the search before /repo fix 79caf04 tracked on every veto; a winner could then fail the configured vigilance ---- *)
Section BeforeFix.
  Context {N : Num}.
  Variable K : Kernel N.
  Fixpoint tsearch_before_fix (Ms : list (list (option N))) (mode : mt) (eps : N) (veto : nat -> bool)
           (fuel : nat) (v : list N) (T : list (option N)) (res : option nat)
    : option nat * option nat * list N :=
    match fuel with
    | O => (res, None, v)
    | S f =>
      match nanargmax nleb T with
      | None => (res, None, v)
      | Some c =>
        let m := mbin Ms mode (k_inv K) v c in
        let ok := veto c in
        if m && ok then
          match res with
          | None => tsearch_before_fix Ms mode eps veto f v (set_nan c T) (Some c)
          | Some r => (Some r, Some c, v)
          end
        else if ok then tsearch_before_fix Ms mode eps veto f v (set_nan c T) res
        else
          let '(v1, keep) := dv_track Ms mode eps v c in
          if keep then tsearch_before_fix Ms mode eps veto f v1 (set_nan c T) res else (res, None, v1)
      end
    end.
End BeforeFix.

From Coq Require Import QArith.
Theorem tsearch_before_fix_refuted :
  exists (Ms : list (list (option QN))) (T : list (option QN)) (veto : nat -> bool) (rho : QN),
    (* the old search returns category 1 as the winner ... *)
    fst (fst (tsearch_before_fix (@fuzzyK QN (1#1024)%Q 1%Q) Ms MTplus 0%Q veto 2 [rho] T None)) = Some 1%nat /\
    (* ... although it fails the configured vigilance, and the repaired search founds a new category *)
    mbin Ms MTplus [false] [rho] 1 = false /\
    fst (fst (fst (tsearch (@fuzzyK QN (1#1024)%Q 1%Q) Ms MTplus 0%Q veto 2 [rho] T None))) = None.
Proof.
  exists [[Some (1#2)%Q]; [Some (5#8)%Q]], [Some 1%Q; Some (1#2)%Q], (fun c => negb (Nat.eqb c 0)), (3#4)%Q.
  vm_compute. repeat split.
Qed.

(* C04 lifted from one step to whole calls: for Fuzzy ART with alpha > 0 and for
   ART2-A, fit and partial_fit are defined on EVERY data set that passes the
   estimator's validation (rows of width >= 2 for Fuzzy ART), from every state,
   for every mode, epsilon and reset function. *)
From Coq Require Import List Bool Arith ZArith Reals Lra Lia.
From ART Require Import Num NumR Vec Search Kernel BaseArt Total Total_R Fuzzy ART2A.
Import ListNotations.
Open Scope R_scope.

Section FitTotal.
  Variable K : Kernel RN.
  Variable P : list R -> Prop.
  Hypothesis step_total : forall (s : st (N:=RN)) x veto m eps, P x -> step_fit K s x veto m eps <> None.

  Lemma fit_loop_defined : forall (X : list (list R)) (s : st (N:=RN)) i j veto m eps,
    Forall P X -> fit_loop K s X i j veto m eps <> None.
  Proof.
    induction X as [|x X IH]; intros s i j veto m eps HX; cbn [fit_loop]; [discriminate|].
    apply Forall_cons_iff in HX. destruct HX as [Hx HX].
    destruct (step_fit K s x (veto i) m eps) as [[[s1 c] l]|] eqn:Es; [|exfalso; eapply step_total; eauto].
    cbn [obind].
    match goal with |- context [fit_loop K ?s2 X (S i) j veto m eps] =>
      destruct (fit_loop K s2 X (S i) j veto m eps) as [r|] eqn:Ef; [cbn; discriminate|exfalso; eapply IH; eauto] end.
  Qed.

  Theorem fit_defined (s : st (N:=RN)) X veto m eps : valid K s X = true -> Forall P X -> fit K s X veto m eps <> None.
  Proof. intros Hv HX. unfold fit. rewrite Hv. apply fit_loop_defined. exact HX. Qed.

  Theorem partial_fit_defined (s : st (N:=RN)) X veto m eps : valid K s X = true -> Forall P X -> partial_fit K s X veto m eps <> None.
  Proof. intros Hv HX. unfold partial_fit. rewrite Hv. destruct (hasW (learn_dim s X)); apply fit_loop_defined; exact HX. Qed.
End FitTotal.

Theorem fuzzy_fit_total (alpha beta : R) (s : st (N:=RN)) X veto m eps :
  0 < alpha -> valid (@fuzzyK RN alpha beta) s X = true -> Forall (fun x => (2 <= length x)%nat) X ->
  fit (@fuzzyK RN alpha beta) s X veto m eps <> None /\ partial_fit (@fuzzyK RN alpha beta) s X veto m eps <> None.
Proof.
  intros Ha Hv HX. split.
  - apply (fit_defined _ (fun x => (2 <= length x)%nat)); auto. intros; apply fuzzy_step_total; assumption.
  - apply (partial_fit_defined _ (fun x => (2 <= length x)%nat)); auto. intros; apply fuzzy_step_total; assumption.
Qed.

Theorem art2a_fit_total (alpha beta : R) (s : st (N:=RN)) X veto m eps :
  valid (@art2K RN alpha beta) s X = true ->
  fit (@art2K RN alpha beta) s X veto m eps <> None /\ partial_fit (@art2K RN alpha beta) s X veto m eps <> None.
Proof.
  intros Hv. assert (HX : Forall (fun _ : list R => True) X) by (apply Forall_forall; auto). split.
  - apply (fit_defined _ (fun _ => True)); auto. intros; apply art2a_step_total.
  - apply (partial_fit_defined _ (fun _ => True)); auto. intros; apply art2a_step_total.
Qed.

(* ---- predict ---- *)
Lemma omap_defined {A B} (f : A -> option B) (l : list A) :
  (forall a, In a l -> f a <> None) -> exists r, omap f l = Some r /\ length r = length l.
Proof.
  induction l as [|a l IH]; intros H; cbn; [exists []; auto|].
  destruct (f a) as [b|] eqn:E; [|exfalso; apply (H a); [left; reflexivity|exact E]].
  destruct IH as [r [Er Lr]]; [intros; apply H; right; assumption|].
  cbn. rewrite Er. cbn. exists (b :: r). cbn. auto.
Qed.

Lemma argmax_defined (Ts : list R) : Ts <> [] -> @argmax RN nleb Ts <> None.
Proof.
  intros Hne Hn. unfold argmax in Hn.
  pose proof (Search_proofs.nanargmax_spec R (@nleb RN) Rleb_total Rleb_trans (map Some Ts)) as Sp.
  match type of Sp with match ?e with _ => _ end => assert (E : e = None) by exact Hn; rewrite E in Sp end.
  destruct Ts as [|t Ts]; [congruence|]. specialize (Sp 0%nat). cbn in Sp.
  assert (H0 : (0 < Datatypes.S (length (map Some Ts)))%nat) by lia. specialize (Sp H0). discriminate.
Qed.

Theorem predict_defined (K : Kernel RN) (s : st (N:=RN)) X :
  (forall x w, In x X -> In w (W s) -> k_choice K (W s) x w <> None) ->
  hasW s = true -> W s <> [] -> valid K s X = true -> predict K s X <> None.
Proof.
  intros Hc Hh Hw Hv. unfold predict. rewrite Hh, Hv. cbn [andb].
  destruct (omap_defined (step_pred K s) X) as [r [Er _]]; [|rewrite Er; discriminate].
  intros x Hx. unfold step_pred.
  destruct (omap_defined (k_choice K (W s) x) (W s)) as [Ts [ET LT]]; [intros w Hin; apply Hc; assumption|].
  rewrite ET. cbn [obind]. apply argmax_defined. intros ->. destruct (W s); [congruence|discriminate].
Qed.

Theorem fuzzy_predict_total (alpha beta : R) (s : st (N:=RN)) X :
  0 < alpha -> hasW s = true -> W s <> [] -> valid (@fuzzyK RN alpha beta) s X = true ->
  predict (@fuzzyK RN alpha beta) s X <> None.
Proof.
  intros Ha Hh Hw Hv. apply predict_defined; auto. intros x w _ _. cbn. unfold fuzzy_choice, odiv.
  assert (E : @neqb RN (@nadd RN alpha (@l1norm RN w)) n0 = false).
  { cbn. apply Reqb_false. pose proof (l1norm_nonneg w). lra. }
  rewrite E. discriminate.
Qed.

(* Hypersphere / Ellipsoid ART at the real-number instance: radii never
   decrease, each new hypersphere contains the old one (hence every point it
   enclosed), radius bounds r_hat (1 - rho) and r_hat (1 - rho) / 2. *)
From Coq Require Import List Bool Arith Reals Lra Lia Psatz.
From ART Require Import Num NumR Vec Search Kernel Hyper.
Import ListNotations.
Open Scope R_scope.

Definition dotR (x y : list R) : R := @dot RN x y.
Definition n2R (x : list R) : R := dotR x x.
Definition vaddR (x y : list R) : list R := @vadd RN x y.
Definition vsubR (x y : list R) : list R := @vsub RN x y.
Definition vscaleR (t : R) (x : list R) : list R := @vscale RN t x.
Definition normR (x : list R) : R := sqrt (n2R x).
Lemma n2R_eq (x : list R) : n2R x = @l2norm2 RN x. Proof. reflexivity. Qed.

Lemma dot_cons a b (x y : list R) : dotR (a :: x) (b :: y) = a * b + dotR x y.
Proof. reflexivity. Qed.
Lemma dot_nil_l (y : list R) : dotR [] y = 0. Proof. reflexivity. Qed.

Lemma n2_nonneg (x : list R) : 0 <= n2R x.
Proof. unfold n2R. induction x as [|a x IH]; [rewrite dot_nil_l; lra|]. rewrite dot_cons. nra. Qed.

Lemma n2_vadd_scale (x : list R) : forall (y : list R) t, length x = length y ->
  n2R (vaddR x (vscaleR t y)) = n2R x + 2 * t * dotR x y + t * t * n2R y.
Proof.
  unfold n2R. induction x as [|a x IH]; intros [|b y] t H; cbn [length] in *; try discriminate.
  - change (vaddR [] (vscaleR t [])) with (@nil R). rewrite !dot_nil_l. ring.
  - injection H as H. specialize (IH y t H).
    change (vaddR (a :: x) (vscaleR t (b :: y))) with ((a + t * b) :: vaddR x (vscaleR t y)).
    rewrite !dot_cons, IH. ring.
Qed.

Lemma cauchy_schwarz (x y : list R) : length x = length y -> dotR x y * dotR x y <= n2R x * n2R y.
Proof.
  intros H. pose proof (n2_nonneg y) as Hy. pose proof (n2_nonneg x) as Hx.
  destruct (Req_dec (n2R y) 0) as [Hz|Hnz].
  - assert (Hd : dotR x y = 0).
    { destruct (Req_dec (dotR x y) 0) as [E|E]; [exact E|exfalso].
      pose proof (n2_nonneg (vaddR x (vscaleR (- (n2R x + 1) / (2 * dotR x y)) y))) as Hp.
      rewrite (n2_vadd_scale x y _ H) in Hp. rewrite Hz in Hp.
      replace (2 * (- (n2R x + 1) / (2 * dotR x y)) * dotR x y) with (- (n2R x + 1)) in Hp by (field; exact E).
      lra. }
    rewrite Hd, Hz. lra.
  - pose proof (n2_nonneg (vaddR x (vscaleR (- dotR x y / n2R y) y))) as Hp.
    rewrite (n2_vadd_scale x y _ H) in Hp.
    assert (Hpos : 0 < n2R y) by lra.
    replace (n2R x + 2 * (- dotR x y / n2R y) * dotR x y + - dotR x y / n2R y * (- dotR x y / n2R y) * n2R y)
      with (n2R x - dotR x y * dotR x y / n2R y) in Hp by (field; exact Hnz).
    apply Rmult_le_reg_r with (/ n2R y); [apply Rinv_0_lt_compat; exact Hpos|].
    replace (n2R x * n2R y * / n2R y) with (n2R x) by (field; exact Hnz).
    unfold Rdiv in Hp. lra.
Qed.

Lemma n2_vadd (x : list R) : forall (y : list R), length x = length y ->
  n2R (vaddR x y) = n2R x + 2 * dotR x y + n2R y.
Proof.
  unfold n2R. induction x as [|a x IH]; intros [|b y] H; cbn [length] in *; try discriminate.
  - change (vaddR [] []) with (@nil R). rewrite !dot_nil_l. ring.
  - injection H as H. change (vaddR (a :: x) (b :: y)) with ((a + b) :: vaddR x y).
    rewrite !dot_cons, (IH y H). ring.
Qed.

Lemma triangle (x y : list R) : length x = length y -> normR (vaddR x y) <= normR x + normR y.
Proof.
  intros H. unfold normR.
  pose proof (n2_nonneg x) as Hx. pose proof (n2_nonneg y) as Hy.
  pose proof (sqrt_pos (n2R x)) as Sx. pose proof (sqrt_pos (n2R y)) as Sy.
  apply Rsqr_incr_0_var; [|lra].
  rewrite Rsqr_sqrt by apply n2_nonneg.
  unfold Rsqr. rewrite (n2_vadd x y H).
  assert (Hcs : dotR x y <= sqrt (n2R x) * sqrt (n2R y)).
  { destruct (Rle_dec (dotR x y) 0) as [Hn|Hp]; [nra|].
    apply Rsqr_incr_0_var; [|nra].
    unfold Rsqr. pose proof (cauchy_schwarz x y H) as CS.
    replace (sqrt (n2R x) * sqrt (n2R y) * (sqrt (n2R x) * sqrt (n2R y)))
      with ((sqrt (n2R x) * sqrt (n2R x)) * (sqrt (n2R y) * sqrt (n2R y))) by ring.
    rewrite !sqrt_sqrt by assumption. exact CS. }
  pose proof (sqrt_sqrt _ Hx). pose proof (sqrt_sqrt _ Hy). nra.
Qed.

Lemma norm_scale t (x : list R) : normR (vscaleR t x) = Rabs t * normR x.
Proof.
  unfold normR. assert (E : n2R (vscaleR t x) = (t * t) * n2R x).
  { unfold n2R. induction x as [|a x IH]; [change (vscaleR t []) with (@nil R); rewrite !dot_nil_l; ring|].
    change (vscaleR t (a :: x)) with ((t * a) :: vscaleR t x).
    rewrite !dot_cons, IH. ring. }
  rewrite E. rewrite sqrt_mult_alt by nra. f_equal.
  replace (t * t) with (Rsqr t) by reflexivity. apply sqrt_Rsqr_abs.
Qed.

Lemma vsub_len (x : list R) : forall (y : list R), length x = length y -> length (vsubR x y) = length x.
Proof. unfold vsubR. induction x; intros [|b y] H; cbn in *; try discriminate; auto. Qed.
Lemma vadd_len (x : list R) : forall (y : list R), length x = length y -> length (vaddR x y) = length x.
Proof. unfold vaddR. induction x; intros [|b y] H; cbn in *; try discriminate; auto. Qed.
Lemma vscale_len t (x : list R) : length (vscaleR t x) = length x.
Proof. unfold vscaleR, vscale. apply map_length. Qed.

Lemma vsub_vadd_assoc (p : list R) : forall (c v : list R), length p = length c -> length c = length v ->
  vsubR p (vaddR c v) = vaddR (vsubR p c) (vscaleR (-1) v).
Proof.
  induction p as [|a p IH]; intros [|b c] [|e v] H1 H2; cbn [length] in *; try discriminate; [reflexivity|].
  injection H1 as H1; injection H2 as H2.
  change (vsubR (a :: p) (vaddR (b :: c) (e :: v))) with ((a - (b + e)) :: vsubR p (vaddR c v)).
  change (vaddR (vsubR (a :: p) (b :: c)) (vscaleR (-1) (e :: v)))
    with ((a - b + -1 * e) :: vaddR (vsubR p c) (vscaleR (-1) v)).
  rewrite (IH c v H1 H2). f_equal. ring.
Qed.

(* ---- the Hypersphere update exactly as the kernel computes it (d > 0 branch) ---- *)
Definition hs_centre' (beta r d : R) (c i : list R) : list R :=
  vaddR c (vscaleR ((beta / 2) * (1 - Rmin r d / d)) (vsubR i c)).
Definition hs_radius' (beta r d : R) : R := r + (beta / 2) * (Rmax r d - r).

(* each new hypersphere contains the old one: any point within the old
   radius of the old centre is within the new radius of the new centre *)
Theorem hs_new_contains_old beta r (c i p : list R) :
  0 <= beta <= 1 -> 0 <= r -> length i = length c -> length p = length c ->
  0 < normR (vsubR i c) ->
  normR (vsubR p c) <= r ->
  normR (vsubR p (hs_centre' beta r (normR (vsubR i c)) c i)) <= hs_radius' beta r (normR (vsubR i c)).
Proof.
  intros Hb HR Li Lp Hd Hin. set (d := normR (vsubR i c)) in *.
  unfold hs_centre', hs_radius'.
  set (k := beta / 2 * (1 - Rmin r d / d)).
  assert (Lv : length (vsubR i c) = length c) by (rewrite vsub_len; auto).
  rewrite vsub_vadd_assoc by (rewrite ?vscale_len; lia).
  eapply Rle_trans; [apply triangle; rewrite vscale_len, vsub_len, vscale_len; lia|].
  rewrite !norm_scale. fold d.
  assert (E1 : Rabs (-1) = 1) by (unfold Rabs; destruct (Rcase_abs (-1)); lra).
  rewrite E1.
  assert (Hk : 0 <= k /\ k * d = beta / 2 * (Rmax r d - r)).
  { unfold k, Rmin, Rmax. destruct (Rle_dec r d) as [Hle|Hgt].
    - split.
      + apply Rmult_le_pos; [lra|].
        assert (r / d <= 1) by (apply Rmult_le_reg_r with d; [lra|]; unfold Rdiv; rewrite Rmult_assoc, Rinv_l by lra; lra).
        lra.
      + field. lra.
    - split.
      + replace (1 - d / d) with 0 by (field; lra). lra.
      + replace (1 - d / d) with 0 by (field; lra). lra. }
  destruct Hk as [Hk0 Hkd]. rewrite (Rabs_pos_eq k Hk0). lra.
Qed.

(* the kernel's update is that step (tie between the polymorphic model and the lemma) *)
Theorem hs_update_is_step (alpha beta r_hat : R) (x w : list RN) :
  w <> [] -> hs_dist x (hs_centroid w) <> 0 ->
  @hs_update RN beta x w =
    Some (hs_centre' beta (hs_radius w) (hs_dist x (hs_centroid w)) (hs_centroid w) x
          ++ [hs_radius' beta (hs_radius w) (hs_dist x (hs_centroid w))]).
Proof.
  intros Hw Hd. unfold hs_update.
  assert (E : @neqb RN (hs_dist x (hs_centroid w)) n0 = false).
  { cbn. apply Reqb_false. exact Hd. }
  rewrite E. unfold hs_centre', hs_radius', nhalf, n2, vaddR, vscaleR, vsubR. rewrite nmin_R, nmax_R. cbn.
  repeat f_equal; unfold Rdiv; try ring.
Qed.

(* radii never decrease; radius bound r_hat (1 - rho) from the vigilance test *)
Theorem hs_radius_mono beta r d : 0 <= beta -> r <= hs_radius' beta r d.
Proof. intros Hb. unfold hs_radius'. pose proof (Rmax_l r d). nra. Qed.

Theorem hs_radius_bound beta r d r_hat rho :
  0 <= beta <= 1 -> 0 < r_hat -> 0 <= r ->
  rho <= 1 - Rmax r (Rmax r d) / r_hat ->         (* the match value passed the vigilance in force *)
  hs_radius' beta r d <= r_hat * (1 - rho).
Proof.
  intros Hb Hr Hr0 HM. unfold hs_radius'.
  assert (E : Rmax r (Rmax r d) = Rmax r d).
  { unfold Rmax. destruct (Rle_dec r d); destruct (Rle_dec r d); try lra; destruct (Rle_dec r r); lra. }
  rewrite E in HM.
  assert (Hm : Rmax r d <= r_hat * (1 - rho)).
  { assert (Rmax r d / r_hat <= 1 - rho) by lra.
    apply Rmult_le_compat_r with (r := r_hat) in H; [|lra].
    unfold Rdiv in H. rewrite Rmult_assoc, Rinv_l in H by lra. lra. }
  pose proof (Rmax_l r d). nra.
Qed.

(* Ellipsoid: same radius rule; the vigilance test bounds R + max(R, dist) *)
Theorem ell_radius_mono beta r d : 0 <= beta -> r <= r + (beta / 2) * (Rmax r d - r).
Proof. intros Hb. pose proof (Rmax_l r d). nra. Qed.

Theorem ell_radius_bound beta r d r_hat rho :
  0 <= beta <= 1 -> 0 < r_hat -> 0 <= r ->
  rho <= 1 - (r + Rmax r d) / r_hat ->
  r + (beta / 2) * (Rmax r d - r) <= r_hat * (1 - rho) / 2.
Proof.
  intros Hb Hr Hr0 HM.
  assert (Hm : r + Rmax r d <= r_hat * (1 - rho)).
  { assert ((r + Rmax r d) / r_hat <= 1 - rho) by lra.
    apply Rmult_le_compat_r with (r := r_hat) in H; [|lra].
    unfold Rdiv in H. rewrite Rmult_assoc, Rinv_l in H by lra. lra. }
  pose proof (Rmax_l r d). nra.
Qed.

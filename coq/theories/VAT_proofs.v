(* C20: VAT returns a permutation of all samples, starting at the row of the
   first largest dissimilarity, each next sample being an unvisited one closest
   to the visited set; the returned matrix is the input re-ordered. *)
From Coq Require Import List Bool Arith Lia Permutation.
From ART Require Import Search Search_proofs VAT.
Import ListNotations.

Lemma nth_list_prod {B C} (l1 : list B) (l2 : list C) (db : B) (dc : C) : forall p,
  l2 <> [] -> p < length l1 * length l2 ->
  nth p (list_prod l1 l2) (db, dc) = (nth (p / length l2) l1 db, nth (p mod length l2) l2 dc).
Proof.
  intros p Hne. assert (Hm : 0 < length l2) by (destruct l2; [congruence|cbn; lia]).
  revert p. induction l1 as [|a l1 IH]; intros p Hp; cbn [list_prod length] in *; [lia|].
  destruct (Nat.lt_ge_cases p (length l2)) as [Hlt|Hge].
  - rewrite app_nth1 by (rewrite map_length; exact Hlt).
    rewrite Nat.div_small, Nat.mod_small by exact Hlt. cbn [nth].
    rewrite (nth_indep _ (db, dc) (a, dc)) by (rewrite map_length; exact Hlt).
    apply (map_nth (pair a)).
  - rewrite app_nth2 by (rewrite map_length; exact Hge). rewrite map_length.
    rewrite IH by nia.
    assert (E : p = (p - length l2) + 1 * length l2) by lia.
    rewrite E at 3 4. rewrite Nat.div_add, Nat.mod_add by lia.
    replace ((p - length l2) / length l2 + 1) with (S ((p - length l2) / length l2)) by lia. reflexivity.
Qed.

Section P.
  Variable A : Type.
  Variable leb : A -> A -> bool.
  Hypothesis leb_total : forall a b, leb a b = true \/ leb b a = true.
  Hypothesis leb_trans : forall a b c, leb a b = true -> leb b c = true -> leb a c = true.
  Variable d0 : A.

  Lemma pop_perm k : forall l, k < length l -> Permutation l (nth k l 0 :: pop k l).
  Proof.
    induction k as [|k IH]; intros [|a l] H; cbn in *; try lia; [reflexivity|].
    etransitivity; [apply perm_skip, IH; lia|apply perm_swap].
  Qed.
  Lemma pop_length k : forall l, k < length l -> length (pop k l) = pred (length l).
  Proof. induction k as [|k IH]; intros [|a l] H; cbn in *; try lia. rewrite IH by lia. destruct l; cbn in *; lia. Qed.

  Lemma argmax_in_range (lb : A -> A -> bool) (T : list A) p :
    (forall a b, lb a b = true \/ lb b a = true) -> (forall a b c, lb a b = true -> lb b c = true -> lb a c = true) ->
    argmax lb T = Some p ->
    p < length T /\ (forall q, q < length T -> lb (nth q T d0) (nth p T d0) = true) /\
    (forall q, q < p -> lb (nth p T d0) (nth q T d0) = false).
  Proof.
    intros Ht Htr H. unfold argmax in H.
    pose proof (nanargmax_spec A lb Ht Htr (map Some T)) as S. rewrite H in S.
    destruct S as [a (Hc & Hmax & Hfirst)]. rewrite nth_error_map in Hc.
    destruct (nth_error T p) as [a'|] eqn:E; cbn in Hc; [|discriminate]. inversion Hc; subst a'.
    assert (Hp : p < length T) by (apply nth_error_Some; congruence).
    assert (Ea : nth p T d0 = a) by (apply nth_error_nth; exact E).
    split; [exact Hp|]. rewrite Ea. split.
    - intros q Hq. apply (Hmax q). rewrite nth_error_map, (nth_error_nth' T d0 Hq). reflexivity.
    - intros q Hq. apply (Hfirst q _ Hq). rewrite nth_error_map, (nth_error_nth' T d0) by lia. reflexivity.
  Qed.

  (* one iteration of the loop: the appended index is an unvisited sample at minimal distance from the visited set *)
  Theorem vat_next_spec D vis rem p :
    vis <> [] -> rem <> [] ->
    argmin A leb (map (fun q => dist A d0 D (fst q) (snd q)) (pairs vis rem)) = Some p ->
    let nxt := nth (p mod length rem) rem 0 in
    let from := nth (p / length rem) vis 0 in
    In nxt rem /\ In from vis /\
    (forall i j, In i vis -> In j rem -> leb (dist A d0 D from nxt) (dist A d0 D i j) = true).
  Proof.
    intros Hv Hr H. cbv zeta.
    assert (Hm : 0 < length rem) by (destruct rem; [congruence|cbn; lia]).
    unfold argmin in H.
    assert (Ft : forall a b : A, leb b a = true \/ leb a b = true) by (intros a b; destruct (leb_total b a); auto).
    assert (Ftr : forall a b c : A, leb b a = true -> leb c b = true -> leb c a = true) by (intros a b c H1 H2; exact (leb_trans _ _ _ H2 H1)).
    destruct (argmax_in_range (fun a b => leb b a) _ p Ft Ftr H) as (Hp & Hmin & _).
    rewrite map_length in Hp. unfold pairs in *. rewrite prod_length in Hp.
    assert (Hj : p mod length rem < length rem) by (apply Nat.mod_upper_bound; lia).
    assert (Hi : p / length rem < length vis) by (apply Nat.div_lt_upper_bound; lia).
    split; [apply nth_In; exact Hj|]. split; [apply nth_In; exact Hi|].
    intros i j Hiv Hjr.
    destruct (In_nth _ _ (0, 0) (in_prod _ _ _ _ Hiv Hjr)) as (q & Hq & Eq).
    specialize (Hmin q ltac:(rewrite map_length; exact Hq)). cbv beta in Hmin.
    assert (NM : forall k, k < length (list_prod vis rem) ->
              nth k (map (fun q0 => dist A d0 D (fst q0) (snd q0)) (list_prod vis rem)) d0 =
              dist A d0 D (fst (nth k (list_prod vis rem) (0, 0))) (snd (nth k (list_prod vis rem) (0, 0)))).
    { intros k Hk. rewrite (nth_indep _ d0 (dist A d0 D (fst (0, 0)) (snd (0, 0)))) by (rewrite map_length; exact Hk).
      apply (map_nth (fun q0 => dist A d0 D (fst q0) (snd q0))). }
    rewrite (NM q Hq), (NM p ltac:(rewrite prod_length; exact Hp)) in Hmin.
    rewrite Eq in Hmin. rewrite (nth_list_prod vis rem 0 0 p Hr Hp) in Hmin.
    exact Hmin.
  Qed.

  (* the loop keeps visited ++ remaining a permutation of the initial one and ends with remaining empty *)
  Lemma vat_loop_perm fuel D : forall vis rem out,
    length rem <= fuel -> vat_loop A leb d0 fuel D vis rem = Some out -> Permutation (vis ++ rem) out.
  Proof.
    induction fuel as [|f IH]; intros vis rem out Hf H; cbn [vat_loop] in H.
    - destruct rem; [|cbn in Hf; lia]. inversion H; subst. rewrite app_nil_r. reflexivity.
    - destruct rem as [|r0 rem'] eqn:Er; [inversion H; subst; rewrite app_nil_r; reflexivity|].
      rewrite <- Er in *.
      destruct (argmin A leb _) as [p|]; [|discriminate].
      assert (Hlen : 0 < length rem) by (rewrite Er; cbn; lia).
      assert (Hj : p mod length rem < length rem) by (apply Nat.mod_upper_bound; lia).
      set (jx := p mod length rem) in *.
      specialize (IH (vis ++ [nth jx rem 0]) (pop jx rem) out).
      rewrite pop_length in IH by exact Hj.
      specialize (IH ltac:(lia) H).
      etransitivity; [|exact IH]. rewrite <- app_assoc. apply Permutation_app_head. cbn.
      apply pop_perm. exact Hj.
  Qed.

  Lemma concat_length_square (D : list (list A)) n : Forall (fun r => length r = n) D -> length (concat D) = length D * n.
  Proof. induction 1 as [|r D Hr _ IH]; cbn; [reflexivity|]. rewrite app_length, IH, Hr. lia. Qed.

  (* the returned index vector is a permutation of all samples, and starts at
     the row of the first largest entry of the (square) matrix *)
  Theorem vat_is_permutation D out :
    Forall (fun r => length r = length D) D ->
    vat_order A leb d0 D = Some out ->
    Permutation (seq 0 (length D)) out /\
    exists p, argmax leb (concat D) = Some p /\ hd_error out = Some (p / length D) /\
              (forall q, q < length D * length D -> leb (nth q (concat D) d0) (nth p (concat D) d0) = true) /\
              (forall q, q < p -> leb (nth p (concat D) d0) (nth q (concat D) d0) = false).
  Proof.
    intros Hsq. unfold vat_order. destruct (argmax leb (concat D)) as [p|] eqn:E; [|discriminate]. intros H.
    set (n := length D) in *.
    destruct (argmax_in_range leb _ p leb_total leb_trans E) as (Hp & Hmax & Hfirst).
    rewrite (concat_length_square D n Hsq) in *. fold n in Hp.
    assert (Hn : 0 < n) by (destruct n; lia).
    assert (Hlt : p / n < n) by (apply Nat.div_lt_upper_bound; lia).
    pose proof (vat_loop_perm n D [p / n] (pop (p / n) (seq 0 n)) out) as HP.
    rewrite pop_length in HP by (rewrite seq_length; exact Hlt). rewrite seq_length in HP.
    specialize (HP ltac:(lia) H).
    split.
    - etransitivity; [|exact HP]. cbn [app].
      replace (p / n) with (nth (p / n) (seq 0 n) 0) at 1 by (rewrite seq_nth; lia).
      apply pop_perm. rewrite seq_length. exact Hlt.
    - exists p. split; [reflexivity|]. split; [|split; [exact Hmax|exact Hfirst]].
      (* the loop only appends: the first element stays *)
      assert (G : forall fuel vis rem o, vat_loop A leb d0 fuel D vis rem = Some o -> vis <> [] -> hd_error o = hd_error vis).
      { clear. induction fuel as [|f IH]; intros vis rem o H Hne; cbn [vat_loop] in H; [inversion H; reflexivity|].
        destruct rem; [inversion H; reflexivity|]. destruct (argmin A leb _); [|discriminate].
        rewrite (IH _ _ _ H) by (destruct vis; discriminate). destruct vis; [congruence|reflexivity]. }
      rewrite (G _ _ _ _ H) by discriminate. reflexivity.
  Qed.

  (* the returned matrix is the input re-ordered by the permutation (hence symmetric with zero diagonal when the input is) *)
  Theorem reorder_entry D perm a b : a < length perm -> b < length perm ->
    dist A d0 (reorder A d0 D perm) a b = dist A d0 D (nth a perm 0) (nth b perm 0).
  Proof.
    intros Ha Hb. unfold dist at 1, reorder.
    rewrite (nth_indep _ [] (map (fun j => dist A d0 D 0 j) perm)) by (rewrite map_length; exact Ha).
    rewrite (map_nth (fun i => map (fun j => dist A d0 D i j) perm) perm 0 a).
    rewrite (nth_indep _ d0 (dist A d0 D (nth a perm 0) 0)) by (rewrite map_length; exact Hb).
    apply (map_nth (fun j => dist A d0 D (nth a perm 0) j)).
  Qed.
End P.

(* iCVI_CH.remove_sample (artlib/cvi/iCVIs/CalinkskiHarabasz.py, sign of the mean update repaired by /repo 16fa704):
   the cluster record is the one switch_label's removal half computes (remove_stats), the data mean moves by
   + (mu - x)/(n - 1).  The mean lemma: that update yields the mean of the remaining points - and the update with the
   old sign does not. *)
From Coq Require Import List Bool Arith Reals Lra Lia.
From ART Require Import Num NumR Vec VecR Search Kernel ICVI ICVI_R ICVI_full.
Import ListNotations.
Open Scope R_scope.

Section Model.
  Context {N : Num}.
  Definition remove_sample (s : ch (N:=N)) (x : list N) (label : nat) : option (newp (N:=N)) :=
    rm <- remove_stats s x label ;;
    let '(cd, cpd) := rm in
    let n' := nsub (h_n s) n1 in
    inv <- odiv n1 n' ;;
    let mu' := vadd (h_mu s) (vscale inv (vsub (h_mu s) x)) in
    let SEP := map (fun kc : nat * cstat => let '(i, c) := kc in
                              if Nat.eqb i label then nmul (c_n cd) (sq (vsub (c_v cd) mu'))
                              else nmul (c_n c) (sq (vsub (c_v c) mu'))) (h_CD s) in
    cr <- criterion (length (h_CD s)) n' SEP (nadd (h_WGSS s) cpd) ;;
    Some {| p_n := n'; p_mu := mu'; p_crit := cr; p_label := label; p_CD := cd; p_CPdiff := cpd; p_label2 := None |}.
  (* before the fix: the correction was subtracted *)
  Definition remove_mean_before_fix (mu x : list N) (n' : N) : option (list N) :=
    inv <- odiv n1 n' ;; Some (vsub mu (vscale inv (vsub mu x))).
End Model.

(* the repaired mean update is the mean of the remaining points *)
Lemma meanv_unsnoc d (C : list (list R)) (x : list R) : wf d C -> C <> [] -> length x = d ->
  vaddR (meanv d (C ++ [x])) (vscaleR (1 / INR (length C)) (vsubR (meanv d (C ++ [x])) x)) = meanv d C.
Proof.
  intros HW Hne Hx. pose proof (INR_pos_of_nonempty C Hne) as Hn.
  assert (W' : wf d (C ++ [x])) by (apply wf_app; assumption).
  pose proof (meanv_length d (C ++ [x]) W') as Lm. pose proof (meanv_length d C HW) as Lc.
  assert (Lu : @length R (vsubR (meanv d (C ++ [x])) x) = d) by (rewrite vsub_length; lia).
  assert (Ls : @length R (vscaleR (1 / INR (length C)) (vsubR (meanv d (C ++ [x])) x)) = d) by (rewrite vscale_length; exact Lu).
  assert (E : @length R (meanv d (C ++ [x])) = @length R (vscaleR (1 / INR (length C)) (vsubR (meanv d (C ++ [x])) x))) by lia.
  apply vec_ext.
  - rewrite (vadd_length _ _ E). lia.
  - intros i Hi. rewrite (vadd_length _ _ E), Lm in Hi.
    rewrite (co_vadd _ _ i E) by (rewrite Lm; exact Hi). rewrite co_vscale, co_vsub by lia.
    rewrite !co_meanv by assumption. rewrite s1_app, app_length, plus_INR. cbn [length INR]. field. lra.
Qed.

(* the model's mean after remove_sample, at the real-number instance *)
Theorem remove_sample_mean d (s : chR) (C : list (list R)) (x : list R) (l : nat) p :
  wf d C -> C <> [] -> length x = d ->
  h_mu s = meanv d (C ++ [x]) -> h_n s = INR (length (C ++ [x])) ->
  @remove_sample RN s x l = Some p -> p_mu p = meanv d C /\ p_n p = INR (length C).
Proof.
  intros HW Hne Hx Hmu Hn H. unfold remove_sample in H.
  destruct (@remove_stats RN s x l) as [[cd cpd]|]; cbn [obind] in H; [|discriminate].
  pose proof (INR_pos_of_nonempty C Hne) as Hpos.
  assert (En : @nsub RN (h_n s) n1 = INR (length C)).
  { rewrite Hn, app_length, plus_INR. cbn. lra. }
  rewrite En in H. rewrite (odiv_some (@n1 RN) (INR (length C))) in H by lra. cbn [obind] in H.
  destruct (@criterion RN _ _ _ _) as [cr|]; cbn [obind] in H; [|discriminate].
  inversion H; subst p; clear H. cbn [p_mu p_n]. split; [|reflexivity].
  rewrite Hmu. apply (meanv_unsnoc d C x HW Hne Hx).
Qed.

(* the old sign really was wrong: points 0, 1, 2 on a line, remove 2 - the mean of the rest is 1/2, the old update gives 3/2 *)
From Coq Require Import QArith.
Open Scope Q_scope.
Example remove_mean_before_fix_refuted :
  @remove_mean_before_fix QN [1] [2] 2 = Some [Qred (3#2)] /\ Qred (3#2) <> Qred (1#2).
Proof. vm_compute. split; [reflexivity|discriminate]. Qed.

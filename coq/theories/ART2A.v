(* ART2-A kernel (artlib/elementary/ART2.py). *)
From Coq Require Import List Bool Arith ZArith Lia.
From ART Require Import Num Vec Search Kernel.
Import ListNotations.

Section ART2A.
  Context {N : Num}.
  Variables alpha beta : N.

  Definition art2_choice (x w : list N) : N := dot x w.
  (* uncommitted-node suppression: M = -1 when T < alpha * sum(x) *)
  Definition art2_match (x w : list N) : N :=
    let t := dot x w in
    if nltb t (nmul alpha (vsum x)) then nneg n1 else t.
  Definition art2_update (x w : list N) : list N :=
    vadd (vscale beta x) (vscale (nsub n1 beta) w).
  Definition unit_valid (x : list N) : bool := forallb (fun a => nleb n0 a && nleb a n1) x.
  (* check_dimensions: alpha <= 1/sqrt(dim), i.e. alpha^2 * dim <= 1 for alpha >= 0 *)
  Definition art2_dimok (d : nat) : bool :=
    nleb (nmul (nmul alpha alpha) (nofZ (Z.of_nat d))) n1.

  Definition art2K : Kernel N := {|
    k_choice := fun _ x w => Some (art2_choice x w);
    k_match := fun x w => [Some (art2_match x w)];
    k_inv := [false];
    k_update := fun x w => Some (art2_update x w);
    k_new := fun x => Some x;
    k_valid := unit_valid;
    k_dimok := art2_dimok |}.
End ART2A.

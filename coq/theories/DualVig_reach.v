(* C13: the map invariant (keys = the existing base categories, values exactly
   0..n_clusters-1, total look-ups) holds after every whole fit / partial_fit
   call of DualVigilanceART, from every state the API can reach. *)
From Coq Require Import List Bool Arith Lia.
From ART Require Import Num Vec Search Search_proofs Kernel BaseArt BaseArt_proofs SimpleARTMAP DualVig DualVig_proofs
     Total DualVig_total.
Import ListNotations.

Section DR.
  Context {N : Num}.
  Variable K : Kernel N.

  Lemma dv_loop_ok mode eps lb veto : forall X (s s' : dv (N:=N)) i j ls,
    DOk s -> dv_loop K s X i j veto mode eps lb = Some (s', ls) -> DOk s' /\ (X <> [] -> DInv s').
  Proof.
    induction X as [|x X IH]; intros s s' i j ls Hs H; cbn [dv_loop] in H.
    - inversion H; subst. split; [exact Hs|congruence].
    - destruct (dv_step K s x (veto i) mode eps lb) as [[[s1 c] l]|] eqn:E1; cbn [obind] in H; [|discriminate].
      pose proof (dv_step_ok K _ _ _ _ _ _ _ _ _ Hs E1) as H1.
      match type of H with obind ?e _ = _ => destruct e as [[s4 l4]|] eqn:E4 end; cbn [obind] in H; [|discriminate].
      inversion H; subst. cbn [fst].
      assert (H1' : DInv (set_DB s1 (set_labels (DB s1) (set_nth (i + j) c (labels (DB s1)))))) by exact H1.
      destruct (IH _ _ _ _ _ (or_intror H1') E4) as (Hok & Hinv). split; [exact Hok|]. intros _.
      destruct X as [|x2 X2].
      + cbn [dv_loop] in E4. inversion E4; subst. exact H1'.
      + apply Hinv. discriminate.
  Qed.

  Theorem dv_fit_inv (s s' : dv (N:=N)) X veto mode eps lb ls :
    dv_fit K s X veto mode eps lb = Some (s', ls) -> X <> [] -> DInv s'.
  Proof.
    unfold dv_fit. destruct (valid K (DB s) X); [|discriminate]. intros H Hne.
    eapply dv_loop_ok; [|exact H|exact Hne]. left. reflexivity.
  Qed.

  Theorem dv_partial_fit_inv (s s' : dv (N:=N)) X veto mode eps lb ls :
    DOk s -> dv_partial_fit K s X veto mode eps lb = Some (s', ls) -> DOk s' /\ (X <> [] -> DInv s').
  Proof.
    intros Hs. unfold dv_partial_fit. destruct (valid K (DB s) X); [|discriminate].
    assert (EW : W (learn_dim (DB s) X) = W (DB s)) by (unfold learn_dim; destruct (dim (DB s)); [reflexivity|destruct X; reflexivity]).
    destruct (hasW (learn_dim (DB s) X)); intros H; eapply dv_loop_ok; try exact H.
    - destruct Hs as [Hs|Hs]; [left; cbn [set_DB DB set_labels W]; rewrite EW; exact Hs|].
      right. unfold DInv in *. cbn [set_DB DB set_labels W dmap]. rewrite EW. exact Hs.
    - left. reflexivity.
  Qed.
End DR.

(* C04 / C02 for Hypersphere ART at the level of whole calls: under every mode
   whose match tracking never lowers the vigilance, every stored radius stays
   within [0, r_hat (1 - rho)] in every reachable state, hence (alpha > 0 or
   rho > 0) every activation's denominator r_hat - R + alpha is positive and
   fit / partial_fit are defined on every valid data set. *)
From Coq Require Import List Bool Arith ZArith Reals Lra Lia.
From ART Require Import Num NumR Vec Search Search_proofs Kernel BaseArt BaseArt_proofs
     SimpleARTMAP_proofs Total Total_R Hyper Hyper_R Bounds_R.
Import ListNotations.
Open Scope R_scope.

Section HT.
  Variables alpha beta r_hat : R.
  Hypothesis Hb : 0 <= beta <= 1.
  Hypothesis Hr : 0 < r_hat.
  Let K := @hyperK RN alpha beta r_hat.

  Definition hs_ok (rho0 : R) (w : list R) : Prop := 0 <= @hs_radius RN w <= r_hat * (1 - rho0).

  Lemma last_snoc (l : list R) a : last (l ++ [a]) 0 = a.
  Proof. induction l as [|b l IH]; [reflexivity|]. cbn [app]. destruct (l ++ [a]) eqn:E; [destruct l; discriminate|]. cbn. cbn in IH. exact IH. Qed.

  Lemma hs_update_radius (x w w' : list R) : @hs_update RN beta x w = Some w' ->
    @hs_radius RN w' = hs_radius' beta (@hs_radius RN w) (@hs_dist RN x (@hs_centroid RN w)).
  Proof.
    unfold hs_update. intros H. inversion H as [E]. clear H E.
    unfold hs_radius at 1. change (@n0 RN) with 0. rewrite last_snoc.
    unfold hs_radius', nhalf, n2. rewrite nmax_R. cbn [nadd nsub nmul ndiv RN n1]. replace (1 + 1) with 2 by lra. reflexivity.
  Qed.

  Theorem hyper_step_bound (s : st (N:=RN)) x veto m eps s' c vl rho0 :
    raising m eps -> rho s = [rho0] -> rho0 <= 1 ->
    Forall (hs_ok rho0) (W s) ->
    step_fit K s x veto m eps = Some (s', c, vl) ->
    Forall (hs_ok rho0) (W s').
  Proof.
    intros Hra Hrho Hr1 HW H.
    destruct (step_fit_frame K _ _ _ _ _ _ _ _ H) as (_ & _ & _ & _ & _ & O).
    assert (Hnew : hs_ok rho0 (@hs_new RN x)).
    { unfold hs_ok, hs_radius, hs_new. change (@n0 RN) with 0. rewrite last_snoc. split; [lra|]. apply Rmult_le_pos; lra. }
    destruct O as [(E & _ & w & En & EW & _)|[(_ & Hc & w & w' & Enth & Eu & EW & _)|(_ & _ & w' & En & EW & _)]]; rewrite EW.
    - cbn in En. inversion En; subst. constructor; [exact Hnew|constructor].
    - destruct (winner_passed_rho K eq_refl ltac:(intros; eexists; reflexivity) s x veto m eps s' c vl
                  Rleb_total Rleb_trans Hra ltac:(rewrite Hrho; reflexivity) H Hc) as (w0 & M & Ew0 & EM & HM).
      rewrite Enth in Ew0. inversion Ew0; subst w0. rewrite Hrho in HM. cbn [hd] in HM.
      cbn in EM. unfold hs_match, odiv in EM.
      assert (Er : @neqb RN r_hat n0 = false) by (cbn; apply Reqb_false; lra).
      rewrite Er in EM. cbn [obind] in EM. inversion EM as [EM']. clear EM.
      assert (Hok : hs_ok rho0 w).
      { rewrite Forall_forall in HW. apply HW. eapply nth_error_In; eauto. }
      destruct Hok as [Hr0 _].
      pose proof (hs_update_radius x w w' Eu) as ER.
      apply Forall_forall. intros y Hy. apply In_nth_error in Hy as [j Hj].
      destruct (Nat.eq_dec j c) as [->|Hne].
      + rewrite set_nth_same in Hj by exact Hc. inversion Hj; subst y. unfold hs_ok. rewrite ER.
        set (r := @hs_radius RN w) in *. set (d := @hs_dist RN x (@hs_centroid RN w)) in *.
        split.
        * pose proof (hs_radius_mono beta r d (proj1 Hb)). lra.
        * apply hs_radius_bound; auto. rewrite <- EM' in HM. rewrite !nmax_R in HM. cbn in HM. exact HM.
      + rewrite set_nth_other in Hj by exact Hne. rewrite Forall_forall in HW. apply HW. eapply nth_error_In; eauto.
    - cbn in En. inversion En; subst. apply Forall_app. split; [exact HW|constructor; [exact Hnew|constructor]].
  Qed.

  (* the invariant that makes every step defined *)
  Definition HInv (rho0 : R) (s : st (N:=RN)) : Prop := rho s = [rho0] /\ Forall (hs_ok rho0) (W s).

  Lemma hyper_step_defined_inv (s : st (N:=RN)) x veto m eps rho0 :
    0 <= rho0 <= 1 -> (0 < alpha \/ (0 <= alpha /\ 0 < rho0)) -> HInv rho0 s -> step_fit K s x veto m eps <> None.
  Proof.
    intros Hrho Ha [_ HW]. apply hyper_step_total; [exact Hr|].
    intros w Hin. rewrite Forall_forall in HW. destruct (HW w Hin) as [_ Hup]. cbn.
    assert (r_hat * (1 - rho0) <= r_hat) by nra.
    destruct Ha as [Ha|[Ha0 Hp]]; [lra|]. assert (0 < r_hat * rho0) by (apply Rmult_lt_0_compat; lra). nra.
  Qed.

  Lemma HInv_step (s : st (N:=RN)) x veto m eps s' c vl rho0 :
    raising m eps -> rho0 <= 1 -> HInv rho0 s -> step_fit K s x veto m eps = Some (s', c, vl) -> HInv rho0 s'.
  Proof.
    intros Hra Hr1 [Hrho HW] H. split.
    - destruct (step_fit_frame K _ _ _ _ _ _ _ _ H) as (E & _). rewrite E. exact Hrho.
    - eapply hyper_step_bound; eauto.
  Qed.

  Lemma hyper_fit_loop_defined rho0 m eps : raising m eps -> 0 <= rho0 <= 1 -> (0 < alpha \/ (0 <= alpha /\ 0 < rho0)) ->
    forall (X : list (list R)) (s : st (N:=RN)) i j veto, HInv rho0 s -> fit_loop K s X i j veto m eps <> None.
  Proof.
    intros Hra Hrho Ha. induction X as [|x X IH]; intros s i j veto I; cbn [fit_loop]; [discriminate|].
    destruct (step_fit K s x (veto i) m eps) as [[[s1 c] l]|] eqn:Es; [|exfalso; eapply hyper_step_defined_inv; eauto].
    cbn [obind].
    assert (I1 : HInv rho0 s1) by (eapply HInv_step; eauto; lra).
    match goal with |- context [fit_loop K ?s2 X (S i) j veto m eps] =>
      assert (I2 : HInv rho0 s2) by (destruct I1 as [A B]; split; [exact A|exact B]);
      destruct (fit_loop K s2 X (S i) j veto m eps) as [r|] eqn:Ef; [cbn; discriminate|exfalso; eapply IH; eauto] end.
  Qed.

  (* fit and partial_fit are total on valid data, for every non-lowering mode, every epsilon and reset function *)
  Theorem hyper_fit_total (s : st (N:=RN)) X veto m eps rho0 :
    raising m eps -> 0 <= rho0 <= 1 -> (0 < alpha \/ (0 <= alpha /\ 0 < rho0)) -> rho s = [rho0] ->
    valid K s X = true -> fit K s X veto m eps <> None.
  Proof.
    intros Hra Hrho Ha Hs Hv. unfold fit. rewrite Hv. apply (hyper_fit_loop_defined rho0); auto.
    split; cbn [rho W]; [|constructor]. unfold learn_dim. destruct (dim s); destruct X; exact Hs.
  Qed.

  Theorem hyper_partial_fit_total (s : st (N:=RN)) X veto m eps rho0 :
    raising m eps -> 0 <= rho0 <= 1 -> (0 < alpha \/ (0 <= alpha /\ 0 < rho0)) -> HInv rho0 s ->
    valid K s X = true -> partial_fit K s X veto m eps <> None.
  Proof.
    intros Hra Hrho Ha [Hs HW] Hv. unfold partial_fit. rewrite Hv.
    assert (Hl : rho (learn_dim s X) = [rho0] /\ W (learn_dim s X) = W s).
    { unfold learn_dim. destruct (dim s); destruct X; auto. }
    destruct Hl as [Hl1 Hl2].
    destruct (hasW (learn_dim s X)); apply (hyper_fit_loop_defined rho0); auto.
    - split; cbn [rho W set_labels]; [exact Hl1|rewrite Hl2; exact HW].
    - split; cbn [rho W]; [exact Hl1|constructor].
  Qed.

  (* and the radius bound holds in every state reached by fit *)
  Lemma hyper_fit_loop_bound rho0 m eps : raising m eps -> rho0 <= 1 ->
    forall (X : list (list R)) (s : st (N:=RN)) i j veto s' ls, HInv rho0 s -> fit_loop K s X i j veto m eps = Some (s', ls) -> HInv rho0 s'.
  Proof.
    intros Hra Hr1. induction X as [|x X IH]; intros s i j veto s' ls I H; cbn [fit_loop] in H.
    - inversion H; subst. exact I.
    - destruct (step_fit K s x (veto i) m eps) as [[[s1 c] l]|] eqn:Es; cbn [obind] in H; [|discriminate].
      assert (I1 : HInv rho0 s1) by (eapply HInv_step; eauto).
      match type of H with context [fit_loop K ?s2 X (S i) j veto m eps] =>
        assert (I2 : HInv rho0 s2) by (destruct I1 as [A B]; split; [exact A|exact B]);
        destruct (fit_loop K s2 X (S i) j veto m eps) as [[s3 ls3]|] eqn:Ef; cbn [obind] in H; [|discriminate] end.
      inversion H; subst. cbn [fst]. eapply IH; eauto.
  Qed.

  Theorem hyper_fit_radius_bound (s : st (N:=RN)) X veto m eps rho0 s' ls :
    raising m eps -> rho0 <= 1 -> rho s = [rho0] -> fit K s X veto m eps = Some (s', ls) ->
    Forall (fun w => 0 <= @hs_radius RN w <= r_hat * (1 - rho0)) (W s').
  Proof.
    intros Hra Hr1 Hs H. unfold fit in H. destruct (valid K s X); [|discriminate].
    assert (I0 : HInv rho0 {| W := []; labels := repeat 0%nat (length X); wsc := []; sc := 0; rho := rho (learn_dim s X);
                              hasW := true; dim := dim (learn_dim s X) |}).
    { split; cbn [rho W]; [|constructor]. unfold learn_dim. destruct (dim s); destruct X; exact Hs. }
    destruct (hyper_fit_loop_bound rho0 m eps Hra Hr1 _ _ _ _ _ _ _ I0 H) as [_ B]. exact B.
  Qed.
End HT.

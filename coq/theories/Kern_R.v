(* C03: derived facts about the kernel functions at the real-number instance. *)
From Coq Require Import List Bool Arith Reals Lra Lia.
From ART Require Import Num NumR Vec Search Kernel Fuzzy Fuzzy_R ART2A.
Import ListNotations.
Open Scope R_scope.

Lemma op_table (m : mt) (inv : bool) (M rho : R) :
  @op_pass RN (mt_strict m) inv M rho = true <->
  match m, inv with
  | (MTplus | MTminus | MT1), false => rho <= M
  | (MT0 | MTtilde), false => rho < M
  | (MTplus | MTminus | MT1), true => M <= rho
  | (MT0 | MTtilde), true => M < rho
  end.
Proof.
  unfold op_pass, nltb. destruct m, inv; cbn; rewrite ?negb_true_iff, ?Rleb_true, ?Rleb_false; tauto.
Qed.

Lemma bbox_spec (w : list R) n : (n <= length w / 2)%nat ->
  @bbox RN w n = Some (firstn n w, map (fun i => (1 - nth (i + length w / 2) w 0) - nth i w 0) (seq 0 n)).
Proof.
  intros H. unfold bbox. cbv zeta.
  match goal with |- context[Nat.leb n ?d] => replace (Nat.leb n d) with true by (symmetry; apply Nat.leb_le; exact H) end.
  reflexivity.
Qed.

Lemma art2_suppression alpha (x w : list R) :
  @art2_match RN alpha x w = (if Rlt_dec (@dot RN x w) (alpha * @vsum RN x) then -1 else @dot RN x w).
Proof.
  unfold art2_match, nltb, nneg. cbn. unfold Rleb.
  destruct (Rle_dec (alpha * @vsum RN x) (@dot RN x w)), (Rlt_dec (@dot RN x w) (alpha * @vsum RN x)); cbn; try lra.
Qed.

(* shrink on a weight written as lower ++ complement-of-upper *)
Lemma shrink_split (lo hi : list R) ratio : length lo = length hi ->
  @shrink RN (lo ++ hi) ratio =
  @vadd RN lo (@vscale RN ratio (@vsub RN (@vcompl RN hi) lo)) ++
  @vadd RN hi (@vscale RN ratio (@vsub RN (@vcompl RN hi) lo)).
Proof.
  intros H. unfold shrink. rewrite app_length, <- H.
  replace ((length lo + length lo) / 2)%nat with (length lo)
    by (replace (length lo + length lo)%nat with (length lo * 2)%nat by lia; rewrite Nat.div_mul; lia).
  rewrite firstn_app, firstn_all, Nat.sub_diag, skipn_app, skipn_all, Nat.sub_diag. cbn [firstn skipn].
  rewrite app_nil_r. reflexivity.
Qed.

Lemma len_shift (a lo hi : list R) ratio : length a = length lo -> length lo = length hi ->
  length (@vadd RN a (@vscale RN ratio (@vsub RN (@vcompl RN hi) lo))) = length lo.
Proof.
  revert lo hi. induction a as [|x a IH]; intros [|l lo] [|h hi] H1 H2; cbn in *; try discriminate; [reflexivity|].
  f_equal. apply IH; lia.
Qed.

Lemma half_double (n : nat) : ((n + n) / 2)%nat = n.
Proof. replace (n + n)%nat with (n * 2)%nat by lia. apply Nat.div_mul. lia. Qed.

Lemma shrink_same_centre (lo hi : list R) ratio : length lo = length hi ->
  @centre RN (@shrink RN (lo ++ hi) ratio) = @centre RN (lo ++ hi).
Proof.
  intros H. rewrite shrink_split by exact H. unfold centre.
  pose proof (len_shift lo lo hi ratio eq_refl H) as E1.
  pose proof (len_shift hi lo hi ratio (eq_sym H) H) as E2.
  set (s1 := @vadd RN lo _) in *. set (s2 := @vadd RN hi _) in *.
  rewrite !app_length, E1, E2, <- H, half_double.
  rewrite !firstn_app, !skipn_app, E1, Nat.sub_diag.
  replace (firstn (length lo) s1) with s1 by (rewrite <- E1; symmetry; apply firstn_all).
  replace (skipn (length lo) s1) with (@nil R) by (rewrite <- E1; symmetry; apply skipn_all).
  rewrite firstn_all, skipn_all. cbn [firstn skipn app]. rewrite !app_nil_r.
  unfold s1, s2. clear s1 s2 E1 E2.
  revert hi H. induction lo as [|a lo IH]; intros [|b hi] H; cbn in *; try discriminate; [reflexivity|].
  f_equal; [unfold nhalf, n2; cbn; field|apply IH; lia].
Qed.

Lemma shrink_contained (lo hi : list R) ratio : length lo = length hi -> 0 <= ratio <= 1 / 2 ->
  Forall2 Rle lo (map (fun a => 1 - a) hi) ->
  Forall2 Rle lo (firstn (length lo) (@shrink RN (lo ++ hi) ratio)) /\
  Forall2 Rle hi (skipn (length lo) (@shrink RN (lo ++ hi) ratio)).
Proof.
  intros H Hr Hbox. rewrite shrink_split by exact H.
  pose proof (len_shift lo lo hi ratio eq_refl H) as E1.
  set (s1 := @vadd RN lo _) in *.
  rewrite firstn_app, skipn_app, E1, Nat.sub_diag.
  replace (firstn (length lo) s1) with s1 by (rewrite <- E1; symmetry; apply firstn_all).
  replace (skipn (length lo) s1) with (@nil R) by (rewrite <- E1; symmetry; apply skipn_all).
  cbn [firstn skipn app]. rewrite app_nil_r. unfold s1. clear s1 E1. revert hi H Hbox. induction lo as [|a lo IH]; intros [|b hi] H Hbox; cbn in *; try discriminate.
  - split; constructor.
  - inversion Hbox; subst. destruct (IH hi ltac:(lia) ltac:(assumption)) as [I1 I2].
    split; constructor; try assumption; cbn in *; nra.
Qed.

(* ART1 kernel (artlib/elementary/ART1.py).  A weight is the bottom-up
   vector followed by the binary top-down template. *)
From Coq Require Import List Bool Arith ZArith Lia.
From ART Require Import Num Vec Search Kernel.
Import ListNotations.

Section ART1.
  Context {N : Num}.
  Variable L : N.

  Definition nz (a : N) : bool := negb (neqb a n0).
  (* np.logical_and on 0/1 floats, read back as 0/1 *)
  Definition vand (x y : list N) : list N := vzip (fun a b => if nz a && nz b then n1 else n0) x y.
  Definition art1_bu (w : list N) (d : nat) : list N := firstn d w.
  Definition art1_td (w : list N) (d : nat) : list N := skipn d w.

  Definition art1_choice (x w : list N) : N := dot x (art1_bu w (length x)).
  (* M = |x AND td| / |x| *)
  Definition art1_match (x w : list N) : option N :=
    odiv (l1norm (vand x (art1_td w (length x)))) (l1norm x).
  (* bottom-up = L / (L - 1 + |td|) * td *)
  Definition art1_scale (t : list N) (size : N) : option (list N) :=
    k <- odiv L (nadd (nsub L n1) size) ;; Some (vscale k t).
  Definition art1_update (x w : list N) : option (list N) :=
    let t := vand x (art1_td w (length x)) in
    bu <- art1_scale t (l1norm t) ;; Some (bu ++ t).
  (* new_weight scales by L / (L - 1 + |x|), like update (/repo fix "ART1.new_weight scales the bottom-up weights by
     L/(L-1+|t|)"; before the fix the divisor was L - 1 + dim) *)
  Definition art1_new (x : list N) : option (list N) :=
    bu <- art1_scale x (l1norm x) ;; Some (bu ++ x).
  Definition art1_new_before_fix (x : list N) : option (list N) :=
    bu <- art1_scale x (nofZ (Z.of_nat (length x))) ;; Some (bu ++ x).
  Definition art1_valid (x : list N) : bool := forallb (fun a => neqb a n0 || neqb a n1) x.

  Definition art1K : Kernel N := {|
    k_choice := fun _ x w => Some (art1_choice x w);
    k_match := fun x w => [art1_match x w];
    k_inv := [false];
    k_update := art1_update;
    k_new := art1_new;
    k_valid := art1_valid;
    k_dimok := fun _ => true |}.
End ART1.

(* BARTMAP.fit as a whole (artlib/biclustering/BARTMAP.py, one epoch): both data sets are validated, the column
   module is fitted on the transposed matrix on its own, the row module is fitted on the matrix with BARTMAP's row
   veto as reset function (MT+, epsilon 0 - BaseART.step_fit's defaults), rows_ / columns_ are built from the two
   label vectors.  The veto (some column cluster correlates with row k at least eta) is a function of the ROW
   NUMBER only - BARTMAP.match_reset_func ignores the candidate category - and is a section variable here: the
   correlation is scipy's, the theorem holds for every veto. *)
From Coq Require Import List Bool Arith Lia.
From ART Require Import Num Vec Search Kernel BaseArt BaseArt_book Bartmap.
Import ListNotations.

Section BM.
  Context {N : Num}.
  Variables (Ka Kb : Kernel N).
  Variable vk : nat -> bool.
  Variable eps0 : N.          (* epsilon = 0.0 *)

  Record bm := mkBm { bm_a : st (N:=N); bm_b : st (N:=N); bm_rows_ : list (list bool); bm_cols_ : list (list bool) }.

  Definition row_veto : vetos := fun k => Some (fun _ => vk k).

  Definition bm_fit (sa sb : st (N:=N)) (Xa Xb : list (list N)) : option bm :=
    if valid Ka sa Xa && valid Kb sb Xb then
      rb <- fit Kb sb Xb (fun _ => None) MTplus eps0 ;;
      ra <- fit Ka sa Xa row_veto MTplus eps0 ;;
      let a := fst ra in
      let b := fst rb in
      Some {| bm_a := a; bm_b := b;
              bm_rows_ := bm_rows (labels a) (length (W a)) (length (W b));
              bm_cols_ := bm_cols (labels b) (length (W a)) (length (W b)) |}
    else None.

  (* the column clustering is what the column module alone produces on the transposed matrix *)
  Theorem bm_fit_columns_alone sa sb Xa Xb r :
    bm_fit sa sb Xa Xb = Some r ->
    exists ls, fit Kb sb Xb (fun _ => None) MTplus eps0 = Some (bm_b r, ls).
  Proof.
    unfold bm_fit. destruct (valid Ka sa Xa && valid Kb sb Xb); [|discriminate].
    destruct (fit Kb sb Xb (fun _ => None) MTplus eps0) as [[b lb]|]; cbn [obind]; [|discriminate].
    destruct (fit Ka sa Xa row_veto MTplus eps0) as [[a la]|]; cbn [obind]; [|discriminate].
    intros H. inversion H; subst. cbn. exists lb. reflexivity.
  Qed.

  (* ... and nothing is trained unless both data sets pass validation *)
  Theorem bm_fit_validates_first sa sb Xa Xb r :
    bm_fit sa sb Xa Xb = Some r -> valid Ka sa Xa = true /\ valid Kb sb Xb = true.
  Proof.
    unfold bm_fit. destruct (valid Ka sa Xa); destruct (valid Kb sb Xb); cbn; try discriminate. auto.
  Qed.

  (* the checkerboard, end to end: no hypothesis on the labels - they are what the two fits produce *)
  Theorem bm_fit_checkerboard sa sb Xa Xb r :
    bm_fit sa sb Xa Xb = Some r ->
    let nA := length (W (bm_a r)) in
    let nB := length (W (bm_b r)) in
    length (bm_rows_ r) = nA * nB /\ length (bm_cols_ r) = nA * nB /\
    Forall (fun row => length row = length Xa) (bm_rows_ r) /\
    Forall (fun col => length col = length Xb) (bm_cols_ r) /\
    length (labels (bm_a r)) = length Xa /\ length (labels (bm_b r)) = length Xb /\
    forall i j, i < length Xa -> j < length Xb ->
      let k0 := nth i (labels (bm_a r)) 0 * nB + nth j (labels (bm_b r)) 0 in
      k0 < nA * nB /\
      forall k, k < nA * nB -> (in_bicluster (bm_rows_ r) (bm_cols_ r) k i j = true <-> k = k0).
  Proof.
    unfold bm_fit. destruct (valid Ka sa Xa && valid Kb sb Xb); [|discriminate].
    destruct (fit Kb sb Xb (fun _ => None) MTplus eps0) as [[b lb]|] eqn:Eb; cbn [obind]; [|discriminate].
    destruct (fit Ka sa Xa row_veto MTplus eps0) as [[a la]|] eqn:Ea; cbn [obind]; [|discriminate].
    intros H. inversion H; subst r; clear H. cbn [bm_a bm_b bm_rows_ bm_cols_ fst].
    destruct (fit_inv Ka _ _ _ _ _ _ _ Ea) as (Ia & La & _).
    destruct (fit_inv Kb _ _ _ _ _ _ _ Eb) as (Ib & Lb & _).
    destruct (inv_consequences a Ia) as (_ & Fa & _).
    destruct (inv_consequences b Ib) as (_ & Fb & _).
    destruct (bm_shapes (labels a) (labels b) (length (W a)) (length (W b))) as (S1 & S2 & S3 & S4).
    rewrite La in S3. rewrite Lb in S4.
    repeat (split; [assumption|]).
    intros i j Hi Hj.
    assert (Ha : nth i (labels a) 0 < length (W a)).
    { rewrite Forall_forall in Fa. apply Fa, nth_In. lia. }
    assert (Hb : nth j (labels b) 0 < length (W b)).
    { rewrite Forall_forall in Fb. apply Fb, nth_In. lia. }
    split.
    - apply (bm_cell_covered (labels a) (labels b)); lia.
    - intros k Hk. apply bm_partition; lia.
  Qed.

  (* membership agrees with row_labels_ / column_labels_ *)
  Theorem bm_fit_membership sa sb Xa Xb r k i j :
    bm_fit sa sb Xa Xb = Some r ->
    i < length Xa -> j < length Xb -> k < length (W (bm_a r)) * length (W (bm_b r)) ->
    in_bicluster (bm_rows_ r) (bm_cols_ r) k i j
    = Nat.eqb (k / length (W (bm_b r))) (nth i (labels (bm_a r)) 0) && Nat.eqb (k mod length (W (bm_b r))) (nth j (labels (bm_b r)) 0).
  Proof.
    intros H Hi Hj Hk. pose proof (bm_fit_checkerboard _ _ _ _ _ H) as (_ & _ & _ & _ & La & Lb & _).
    revert H Hk. unfold bm_fit. destruct (valid Ka sa Xa && valid Kb sb Xb); [|discriminate].
    destruct (fit Kb sb Xb (fun _ => None) MTplus eps0) as [[b lb]|]; cbn [obind]; [|discriminate].
    destruct (fit Ka sa Xa row_veto MTplus eps0) as [[a la]|]; cbn [obind]; [|discriminate].
    intros H. inversion H; subst r; clear H. cbn [bm_a bm_b bm_rows_ bm_cols_ fst] in *. intros Hk.
    apply bm_membership; lia.
  Qed.
End BM.

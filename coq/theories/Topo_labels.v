(* C14, label clause of a pruning round: every sample's label is re-indexed
   consistently - a sample whose category survives keeps THAT category (the new
   label names the same weight and the same counter), an orphaned sample is
   re-predicted with the pruned model, or marked -1 when nothing survives. *)
From Coq Require Import List Bool Arith ZArith Lia.
From ART Require Import Num Vec Search Kernel BaseArt SimpleARTMAP Topo Topo_proofs.
Import ListNotations.

Lemma select_new_index {A} (mask : list bool) : forall (l : list A) k i,
  new_index mask k = Some i -> nth_error (select mask l) i = nth_error l k.
Proof.
  induction mask as [|b mask IH]; intros l k i H; [destruct k; discriminate|].
  destruct l as [|a l].
  - rewrite select_nil. destruct i; destruct k; reflexivity.
  - destruct k as [|k]; cbn in H.
    + destruct b; [|discriminate]. inversion H; subst. reflexivity.
    + destruct (new_index mask k) as [i0|] eqn:E; [|discriminate]. cbn in H. inversion H; subst.
      destruct b; cbn; apply IH; exact E.
Qed.

Lemma omap_nth {A B} (f : A -> option B) : forall (l : list A) r j a,
  omap f l = Some r -> nth_error l j = Some a -> exists b, f a = Some b /\ nth_error r j = Some b.
Proof.
  induction l as [|a0 l IH]; intros r j a H Hj; [destruct j; discriminate|].
  cbn in H. destruct (f a0) as [b0|] eqn:E0; cbn in H; [|discriminate].
  destruct (omap f l) as [r0|] eqn:E1; cbn in H; [|discriminate]. inversion H; subst.
  destruct j as [|j]; cbn in Hj.
  - inversion Hj; subst. exists b0. split; [exact E0|reflexivity].
  - destruct (IH r0 j a eq_refl Hj) as [b [Eb En]]. exists b. split; [exact Eb|exact En].
Qed.

Lemma omap_length {A B} (f : A -> option B) : forall (l : list A) r, omap f l = Some r -> length r = length l.
Proof.
  induction l as [|a0 l IH]; intros r H; cbn in H; [inversion H; reflexivity|].
  destruct (f a0); cbn in H; [|discriminate]. destruct (omap f l) as [r0|] eqn:E; cbn in H; [|discriminate].
  inversion H; subst. cbn. f_equal. apply IH. reflexivity.
Qed.

Section TL.
  Context {N : Num}.
  Variable K : Kernel N.
  Variable phi : nat.

  Theorem prune_labels (s : topo (N:=N)) X s' :
    prune K phi s X = Some s' ->
    forall j x l, nth_error X j = Some x -> nth_error (tlab s) j = Some l ->
      (* the category survives: same weight, same counter, under its new index *)
      (exists i, (0 <= l)%Z /\ new_index (prune_mask phi s) (Z.to_nat l) = Some i /\
                 nth_error (tlab s') j = Some (Z.of_nat i) /\
                 nth_error (W (TB s')) i = nth_error (W (TB s)) (Z.to_nat l) /\
                 nth_error (wsc (TB s')) i = nth_error (wsc (TB s)) (Z.to_nat l))
      \/ (* orphan, nothing survived *)
      (((l < 0)%Z \/ new_index (prune_mask phi s) (Z.to_nat l) = None) /\ W (TB s') = [] /\ nth_error (tlab s') j = Some (-1)%Z)
      \/ (* orphan, re-predicted with the pruned model *)
      (((l < 0)%Z \/ new_index (prune_mask phi s) (Z.to_nat l) = None) /\ W (TB s') <> [] /\
       exists c, step_pred K (TB s') x = Some c /\ nth_error (tlab s') j = Some (Z.of_nat c)).
  Proof.
    unfold prune, prune_mask. intros H j x l Hx Hl.
    set (mask := map (fun p => orb (fst p) (Nat.leb phi (snd p))) (combine (perm s) (wsc (TB s)))) in *.
    match type of H with context [omap ?f ?ll] => destruct (omap f ll) as [labs|] eqn:Eo end; cbn [obind] in H; [|discriminate].
    inversion H; subst s'; clear H. cbn [TB tlab W wsc].
    assert (Hc : nth_error (combine (tlab s) X) j = Some (l, x)).
    { clear - Hx Hl. revert j X Hx Hl. generalize (tlab s). induction l0 as [|a t IH]; intros [|j] [|b X] Hx Hl; cbn in *; try discriminate.
      - inversion Hx; inversion Hl; subst. reflexivity.
      - apply IH; assumption. }
    destruct (omap_nth _ _ _ _ _ Eo Hc) as [b [Eb En]].
    assert (Ej : nth_error (labs ++ skipn (length X) (tlab s)) j = Some b).
    { rewrite nth_error_app1; [exact En|]. apply nth_error_Some. congruence. }
    rewrite Ej.
    destruct (Z.ltb l 0) eqn:El.
    - apply Z.ltb_lt in El.
      destruct (select mask (W (TB s))) as [|w0 W'] eqn:EW; cbn in Eb.
      + inversion Eb; subst. right; left. auto.
      + right; right. split; [left; exact El|]. split; [discriminate|].
        match type of Eb with option_map _ ?e = _ => destruct e as [c|] eqn:Ep end; cbn in Eb; [|discriminate].
        inversion Eb; subst. exists c. split; [first [exact Ep|reflexivity]|reflexivity].
    - apply Z.ltb_ge in El.
      destruct (new_index mask (Z.to_nat l)) as [i|] eqn:Ei.
      + cbn in Eb. inversion Eb; subst. left. exists i. repeat split; auto; apply select_new_index; exact Ei.
      + destruct (select mask (W (TB s))) as [|w0 W'] eqn:EW; cbn in Eb.
        * inversion Eb; subst. right; left. auto.
        * right; right. split; [right; reflexivity|]. split; [discriminate|].
          match type of Eb with option_map _ ?e = _ => destruct e as [c|] eqn:Ep end; cbn in Eb; [|discriminate].
          inversion Eb; subst. exists c. split; [first [exact Ep|reflexivity]|reflexivity].
  Qed.
End TL.

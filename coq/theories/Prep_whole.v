(* C18, whole calls: the FIRST prepare_data call computes the column bounds from the data itself; for any rectangular
   data set with non-constant columns its output lies in [0,1], passes Fuzzy ART's validation after complement
   coding, and restore_data returns the data; later data inside the remembered bounds likewise. *)
From Coq Require Import List Bool Arith Reals Lra Lia.
From ART Require Import Num NumR Vec Search Kernel BaseArt Fuzzy Prep Prep_R.
Import ListNotations.
Open Scope R_scope.

Definition rect (d : nat) (X : list (list R)) : Prop := Forall (fun x => length x = d) X.

Lemma vzip_length (f : R -> R -> R) : forall (x y : list R), length x = length y -> length (@vzip RN f x y) = length x.
Proof. induction x as [|a x IH]; intros [|b y] H; cbn in *; try discriminate; [reflexivity|]. f_equal. apply IH. lia. Qed.

Lemma col_min_length d X : X <> [] -> rect d X -> length (@col_min RN X) = d.
Proof.
  induction X as [|r X IH]; intros Hne Hr; [congruence|]. inversion Hr as [|? ? Hl Hr'].
  destruct X as [|r' X']; [exact Hl|].
  change (length (@vzip RN nmin r (@col_min RN (r' :: X'))) = d). rewrite <- Hl.
  apply vzip_length. transitivity d; [exact Hl|symmetry; apply IH; [discriminate|exact Hr']].
Qed.
Lemma col_max_length d X : X <> [] -> rect d X -> length (@col_max RN X) = d.
Proof.
  induction X as [|r X IH]; intros Hne Hr; [congruence|]. inversion Hr as [|? ? Hl Hr'].
  destruct X as [|r' X']; [exact Hl|].
  change (length (@vzip RN nmax r (@col_max RN (r' :: X'))) = d). rewrite <- Hl.
  apply vzip_length. transitivity d; [exact Hl|symmetry; apply IH; [discriminate|exact Hr']].
Qed.

Lemma Forall2_refl_le (x : list R) : Forall2 Rle x x.
Proof. induction x; constructor; [lra|assumption]. Qed.
Lemma Forall2_le_trans (x y z : list R) : Forall2 Rle x y -> Forall2 Rle y z -> Forall2 Rle x z.
Proof.
  intros H. revert z. induction H as [|a b x y Hab _ IH]; intros z Hz; inversion Hz; subst; constructor; [lra|auto].
Qed.
Lemma vzip_min_le (x y : list R) : length x = length y ->
  Forall2 Rle (@vzip RN nmin x y) x /\ Forall2 Rle (@vzip RN nmin x y) y.
Proof.
  revert y. induction x as [|a x IH]; intros [|b y] H; cbn in *; try discriminate; [split; constructor|].
  destruct (IH y ltac:(lia)) as [H1 H2]. rewrite nmin_R. split; constructor; auto; [apply Rmin_l|apply Rmin_r].
Qed.
Lemma vzip_max_ge (x y : list R) : length x = length y ->
  Forall2 Rle x (@vzip RN nmax x y) /\ Forall2 Rle y (@vzip RN nmax x y).
Proof.
  revert y. induction x as [|a x IH]; intros [|b y] H; cbn in *; try discriminate; [split; constructor|].
  destruct (IH y ltac:(lia)) as [H1 H2]. rewrite nmax_R. split; constructor; auto; [apply Rmax_l|apply Rmax_r].
Qed.

(* the column bounds really bound every row *)
Lemma col_bounds d X : rect d X -> Forall (fun x => Forall2 Rle (@col_min RN X) x /\ Forall2 Rle x (@col_max RN X)) X.
Proof.
  induction X as [|r X IH]; intros Hr; [constructor|]. inversion Hr as [|? ? Hl Hr'].
  destruct X as [|r' X'].
  - constructor; [|constructor]. cbn. split; apply Forall2_refl_le.
  - specialize (IH Hr').
    assert (Lm : length r = length (@col_min RN (r' :: X'))) by (transitivity d; [exact Hl|symmetry; apply col_min_length; [discriminate|exact Hr']]).
    assert (LM : length r = length (@col_max RN (r' :: X'))) by (transitivity d; [exact Hl|symmetry; apply col_max_length; [discriminate|exact Hr']]).
    destruct (vzip_min_le r _ Lm) as [m1 m2]. destruct (vzip_max_ge r _ LM) as [M1 M2].
    change (@col_min RN (r :: r' :: X')) with (@vzip RN nmin r (@col_min RN (r' :: X'))).
    change (@col_max RN (r :: r' :: X')) with (@vzip RN nmax r (@col_max RN (r' :: X'))).
    constructor; [split; assumption|].
    rewrite Forall_forall in IH |- *. intros y Hy. destruct (IH y Hy) as [a b]. split.
    + apply (Forall2_le_trans _ _ _ m2 a).
    + apply (Forall2_le_trans _ _ _ b M2).
Qed.

Lemma normalize_row_length : forall (lo hi x : list R), length lo = length x -> length hi = length x ->
  length (@normalize_row RN lo hi x) = length x.
Proof.
  unfold normalize_row, vsub. induction lo as [|l lo IH]; intros [|h hi] [|a x] H1 H2; cbn in *; try discriminate; [reflexivity|].
  f_equal. apply IH; lia.
Qed.

Definition nonconstant (X : list (list R)) : Prop := Forall2 (fun l h => l < h) (@col_min RN X) (@col_max RN X).
Lemma lt_ne (lo hi : list R) : Forall2 (fun l h => l < h) lo hi -> Forall2 (fun l h => l <> h) lo hi.
Proof. induction 1; constructor; [lra|assumption]. Qed.

(* first call, plain modules *)
Theorem prepare_first_in_range d X : rect d X -> nonconstant X ->
  Forall (Forall (fun a => 0 <= a <= 1)) (fst (@prepare RN None X)).
Proof.
  intros Hr Hn. unfold prepare. cbn [fst]. apply Forall_forall. intros y Hy. apply in_map_iff in Hy.
  destruct Hy as (x & <- & Hx). pose proof (col_bounds d X Hr) as B. rewrite Forall_forall in B.
  destruct (B x Hx) as [b1 b2]. apply normalize_range; assumption.
Qed.
Theorem restore_prepare_first d X : X <> [] -> rect d X -> nonconstant X ->
  @restore RN (snd (@prepare RN None X)) (fst (@prepare RN None X)) = Some X.
Proof.
  intros Hne Hr Hn. unfold prepare, restore. cbn [fst snd]. f_equal. rewrite map_map.
  rewrite <- (map_id X) at 2. apply map_ext_in. intros x Hx.
  apply denormalize_normalize; [apply lt_ne; exact Hn|].
  transitivity d; [|symmetry; exact (col_min_length d X Hne Hr)].
  unfold rect in Hr. rewrite Forall_forall in Hr. apply Hr, Hx.
Qed.

(* first call, Fuzzy-based models: double width, accepted by the validation, restored exactly *)
Theorem prepare_fuzzy_first_valid d X : rect d X -> nonconstant X ->
  Forall (fun y => @fuzzy_valid RN y = true /\ length y = (2 * d)%nat) (fst (@prepare_fuzzy RN None X)).
Proof.
  intros Hr Hn. pose proof (prepare_first_in_range d X Hr Hn) as P.
  unfold prepare_fuzzy. destruct (@prepare RN None X) as [Y b] eqn:E. cbn [fst] in *.
  apply Forall_forall. intros y Hy. apply in_map_iff in Hy. destruct Hy as (x & <- & Hx).
  rewrite Forall_forall in P. split; [apply prepared_fuzzy_is_valid, P, Hx|].
  unfold compliment_code, vcompl. rewrite app_length, map_length.
  assert (Lx : length x = d).
  { unfold prepare in E. inversion E; subst Y. apply in_map_iff in Hx. destruct Hx as (x0 & <- & Hx0).
    assert (Hne : X <> []) by (destruct X; [destruct Hx0|discriminate]).
    assert (L0 : length x0 = d) by (unfold rect in Hr; rewrite Forall_forall in Hr; apply Hr, Hx0).
    transitivity (length x0); [|exact L0].
    apply normalize_row_length.
    - transitivity d; [exact (col_min_length d X Hne Hr)|symmetry; exact L0].
    - transitivity d; [exact (col_max_length d X Hne Hr)|symmetry; exact L0]. }
  lia.
Qed.
Theorem restore_prepare_fuzzy_first d X : X <> [] -> rect d X -> nonconstant X ->
  @restore_fuzzy RN (snd (@prepare_fuzzy RN None X)) (fst (@prepare_fuzzy RN None X)) = Some X.
Proof.
  intros Hne Hr Hn. pose proof (restore_prepare_first d X Hne Hr Hn) as R0.
  unfold prepare_fuzzy, restore_fuzzy. destruct (@prepare RN None X) as [Y b]. cbn [fst snd] in *.
  rewrite map_map. rewrite (map_ext _ (fun y => y) (fun y => decc_cc y)), map_id. exact R0.
Qed.

(* later data inside the remembered bounds *)
Theorem prepare_later_in_range lo hi Y :
  Forall2 (fun l h => l < h) lo hi -> Forall (fun y => Forall2 Rle lo y /\ Forall2 Rle y hi) Y ->
  Forall (Forall (fun a => 0 <= a <= 1)) (fst (@prepare RN (Some (lo, hi)) Y)) /\
  snd (@prepare RN (Some (lo, hi)) Y) = Some (lo, hi).
Proof.
  intros Hlt HY. unfold prepare. cbn [fst snd]. split; [|reflexivity].
  apply Forall_forall. intros z Hz. apply in_map_iff in Hz. destruct Hz as (y & <- & Hy).
  rewrite Forall_forall in HY. destruct (HY y Hy). apply normalize_range; assumption.
Qed.
Theorem restore_prepare_later lo hi Y :
  Forall2 (fun l h => l < h) lo hi -> Forall (fun y => length y = length lo) Y ->
  @restore RN (Some (lo, hi)) (fst (@prepare RN (Some (lo, hi)) Y)) = Some Y.
Proof.
  intros Hlt HY. unfold prepare, restore. cbn [fst]. f_equal. rewrite map_map.
  rewrite <- (map_id Y) at 2. apply map_ext_in. intros y Hy.
  apply denormalize_normalize; [apply lt_ne; exact Hlt|]. rewrite Forall_forall in HY. apply HY, Hy.
Qed.

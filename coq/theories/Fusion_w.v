(* C10: "the fused weight is the concatenation of the channel weights", through FusionART's W attribute in both
   directions.  The getter concatenates, per category, the channel modules' weights; the setter (since /repo 61f72ea)
   cuts EVERY fused weight vector at the positions given by the lengths of the module weights and hands channel k
   the k-th pieces.  Setter after getter is the identity on the channel weights, getter after setter the identity on
   fused weights of the right length. *)
From Coq Require Import List Bool Arith Lia.
From ART Require Import Num Vec Search Kernel Fusion.
Import ListNotations.

Section FW.
  Context {A : Type}.

  (* one category: its weight in every channel *)
  Definition fuse (cat : list (list A)) : list A := concat cat.
  Definition split_fused (wdims : list nat) (w : list A) : list (list A) :=
    map (fun p => chan p w) (positions 0 wdims).

  Lemma skipn_skipn' : forall (x y : nat) (l : list A), skipn x (skipn y l) = skipn (y + x) l.
  Proof. intros x y; revert x. induction y as [|y IH]; intros x l; [reflexivity|]. destruct l; [rewrite !skipn_nil; reflexivity|]. cbn. apply IH. Qed.

  (* cutting at positions that start at s = cutting the list without its first s elements at positions from 0 *)
  Lemma chan_skipn (dims : list nat) : forall s (l : list A),
    map (fun p => chan p l) (positions s dims) = map (fun p => chan p (skipn s l)) (positions 0 dims).
  Proof.
    induction dims as [|d dims IH]; intros s l; cbn [positions map]; [reflexivity|]. f_equal.
    - unfold chan, slice. cbn [fst snd skipn]. f_equal. lia.
    - rewrite (IH (s + d) l), (IH (0 + d) (skipn s l)), skipn_skipn'. reflexivity.
  Qed.

  (* setter after getter *)
  Theorem split_fuse (cat : list (list A)) : split_fused (map (@length A) cat) (fuse cat) = cat.
  Proof.
    unfold split_fused, fuse. induction cat as [|c cat IH]; cbn [map positions concat]; [reflexivity|].
    f_equal.
    - unfold chan, slice. cbn [fst snd skipn plus]. rewrite Nat.sub_0_r, firstn_app, firstn_all, Nat.sub_diag. cbn. apply app_nil_r.
    - rewrite chan_skipn. cbn [plus]. rewrite skipn_app, skipn_all, Nat.sub_diag. cbn [skipn app]. exact IH.
  Qed.

  (* getter after setter *)
  Theorem fuse_split (wdims : list nat) : forall (w : list A), fold_right plus 0 wdims = length w ->
    fuse (split_fused wdims w) = w.
  Proof.
    unfold fuse, split_fused. induction wdims as [|d wdims IH]; intros w H; cbn [positions map concat fold_right] in *.
    - destruct w; [reflexivity|discriminate].
    - rewrite chan_skipn. cbn [plus]. rewrite (IH (skipn d w)) by (rewrite skipn_length; lia).
      unfold chan, slice. cbn [fst snd skipn]. rewrite Nat.sub_0_r. apply firstn_skipn.
  Qed.

  (* every channel receives exactly its own piece of every category *)
  Theorem split_fuse_all (cats : list (list (list A))) :
    map (fun cat => split_fused (map (@length A) cat) (fuse cat)) cats = cats.
  Proof. rewrite (map_ext _ (fun c => c) split_fuse). apply map_id. Qed.
End FW.

(* C15 at the real-number instance: the recurrences of the incremental
   Calinski-Harabasz index maintain, per coordinate, the count, the mean, the
   within-cluster sum of squares (CP) and a zero correction term (G); stated
   on the sufficient statistics n, s1 = sum x, s2 = sum x^2 of a cluster. *)
From Coq Require Import List Bool Arith Reals Lra Lia.
From ART Require Import Num NumR Vec Search Search_proofs Kernel BaseArt SimpleARTMAP_proofs ICVI.
Import ListNotations.
Open Scope R_scope.

(* mean after adding x: v' = v - deltaV with deltaV = -(x - v)/(n + 1) *)
Lemma ch_mean_add (n s1 x : R) : 0 < n ->
  let v := s1 / n in
  v - (-1 * ((1 / (n + 1)) * (x - v))) = (s1 + x) / (n + 1).
Proof. intros Hn. cbv zeta. field. lra. Qed.

(* within-cluster sum of squares after adding x (with G = 0) *)
Lemma ch_cp_add (n s1 s2 x : R) : 0 < n ->
  let v := s1 / n in
  let dV := -1 * ((1 / (n + 1)) * (x - v)) in
  let v' := v - dV in
  (s2 - s1 * s1 / n) + ((x - v') * (x - v') + ((n + 1) - 1) * (dV * dV) + 2 * (dV * 0))
  = (s2 + x * x) - (s1 + x) * (s1 + x) / (n + 1).
Proof. intros Hn. cbv zeta. field. lra. Qed.

(* the correction term stays 0 *)
Lemma ch_g_add (n s1 x : R) : 0 < n ->
  let v := s1 / n in
  let dV := -1 * ((1 / (n + 1)) * (x - v)) in
  let v' := v - dV in
  0 + (x - v') + ((n + 1) - 1) * dV = 0.
Proof. intros Hn. cbv zeta. field. lra. Qed.

(* removing x from a cluster of n > 1 members *)
Lemma ch_mean_remove (n s1 x : R) : 1 < n ->
  let v := s1 / n in
  v + (1 / (n - 1)) * (v - x) = (s1 - x) / (n - 1).
Proof. intros Hn. cbv zeta. field. lra. Qed.
Lemma ch_g_remove (n s1 x : R) : 1 < n ->
  let v := s1 / n in
  let dp := (1 / (n - 1)) * (v - x) in
  0 - ((x - v) + (n - 1) * dp) = 0.
Proof. intros Hn. cbv zeta. field. lra. Qed.
Lemma ch_cp_remove (n s1 s2 x : R) : 1 < n ->
  let v := s1 / n in
  let dp := (1 / (n - 1)) * (v - x) in
  (s2 - s1 * s1 / n) + - ((x - v) * (x - v) + (n - 1) * (dp * dp) + 2 * (dp * 0))
  = (s2 - x * x) - (s1 - x) * (s1 - x) / (n - 1).
Proof. intros Hn. cbv zeta. field. lra. Qed.

(* global mean *)
Lemma ch_mu_add (n s1 x : R) : 0 < n ->
  s1 / n + (1 / (n + 1)) * (x - s1 / n) = (s1 + x) / (n + 1).
Proof. intros Hn. field. lra. Qed.

(* CP is the within-cluster sum of squared deviations from the mean *)
Lemma ss_about_mean (xs : list R) :
  let n := INR (length xs) in
  let s1 := fold_right Rplus 0 xs in
  let s2 := fold_right (fun a acc => a * a + acc) 0 xs in
  xs <> [] ->
  fold_right (fun a acc => (a - s1 / n) * (a - s1 / n) + acc) 0 xs = s2 - s1 * s1 / n.
Proof.
  cbv zeta. intros Hne.
  assert (Hn : 0 < INR (length xs)) by (destruct xs; [congruence|]; apply lt_0_INR; cbn; lia).
  set (m := fold_right Rplus 0 xs / INR (length xs)).
  assert (G : forall l, fold_right (fun a acc => (a - m) * (a - m) + acc) 0 l =
                        fold_right (fun a acc => a * a + acc) 0 l - 2 * m * fold_right Rplus 0 l + INR (length l) * m * m).
  { induction l as [|a l IH]; [cbn; ring|]. cbn [fold_right length]. rewrite IH, S_INR. ring. }
  rewrite G. unfold m. field. lra.
Qed.

(* the gate: a sample joins an existing category only if the reset function
   (strict improvement of the index) returned true for it - instance of the
   generic winner_not_vetoed *)
Theorem icvi_gate (K : Kernel RN) (s : st (N:=RN)) x (improves : nat -> bool) m eps s' c vl :
  step_fit K s x (Some improves) m eps = Some (s', c, vl) -> (c < length (W s))%nat -> improves c = true.
Proof. apply (winner_not_vetoed K Rleb_total Rleb_trans). Qed.

(* ARTMAP, DeepARTMAP and SMART (artlib/supervised/ARTMAP.py,
   artlib/hierarchical/DeepARTMAP.py, SMART.py) on top of SimpleARTMAP. *)
From Coq Require Import List Bool Arith Lia.
From ART Require Import Num Vec Search Kernel BaseArt SimpleARTMAP.
Import ListNotations.

Section Deep.
  Context {N : Num}.

  (* last n elements: labels_a[-n:] *)
  Definition lastn {A} (n : nat) (l : list A) : list A := skipn (length l - n) l.

  (* ---------------- ARTMAP ---------------- *)
  Record artmap := mkArtmap { SA : sam (N:=N); SB : st (N:=N) }.
  Definition artmap_fit (KA KB : Kernel N) (s : artmap) (X Y : list (list N)) (iters : nat) (m : mt) (eps : N)
    : option artmap :=
    if valid KA (A (SA s)) X && valid KB (SB s) Y then
      rb <- fit KB (SB s) Y (fun _ => None) m eps ;;
      sa <- sam_fit KA (SA s) X (labels (fst rb)) iters m eps ;;
      Some {| SA := sa; SB := fst rb |}
    else None.
  Definition artmap_partial_fit (KA KB : Kernel N) (s : artmap) (X Y : list (list N)) (m : mt) (eps : N)
    : option artmap :=
    if valid KA (A (SA s)) X && valid KB (SB s) Y then
      rb <- partial_fit KB (SB s) Y (fun _ => None) m eps ;;
      sa <- sam_partial_fit KA (SA s) X (lastn (length X) (labels (fst rb))) m eps ;;
      Some {| SA := sa; SB := fst rb |}
    else None.

  (* ---------------- DeepARTMAP ---------------- *)
  (* a fresh SimpleARTMAP wrapper around an existing module *)
  Definition rewrap (l : sam (N:=N)) : sam := {| A := A l; mp := []; bl := []; hasL := false |}.

  (* layer i is supervised by the A-side labels of layer i-1 *)
  Fixpoint chain_fit (Ks : list (Kernel N)) (ls : list sam) (Xs : list (list (list N))) (y : list nat)
           (iters : nat) (m : mt) (eps : N) : option (list sam) :=
    match Ks, ls, Xs with
    | K :: Ks', l :: ls', X :: Xs' =>
        l' <- sam_fit K (rewrap l) X y iters m eps ;;
        rest <- chain_fit Ks' ls' Xs' (labels (A l')) iters m eps ;;
        Some (l' :: rest)
    | [], [], [] => Some []
    | _, _, _ => None
    end.

  Fixpoint chain_partial_fit (Ks : list (Kernel N)) (ls : list sam) (Xs : list (list (list N))) (y : list nat)
           (n : nat) (m : mt) (eps : N) : option (list sam) :=
    match Ks, ls, Xs with
    | K :: Ks', l :: ls', X :: Xs' =>
        l' <- sam_partial_fit K l X y m eps ;;
        rest <- chain_partial_fit Ks' ls' Xs' (lastn n (labels (A l'))) n m eps ;;
        Some (l' :: rest)
    | [], [], [] => Some []
    | _, _, _ => None
    end.

  (* labels_deep_: one column per layer's own (B-side) labels, plus the finest A-side labels *)
  Definition labels_deep (ls : list (sam (N:=N))) : list (list nat) :=
    map (@bl N) ls ++ match rev ls with l :: _ => [labels (A l)] | [] => [] end.

  (* map_deep(level, y_a) *)
  Fixpoint map_up (ls_rev : list (sam (N:=N))) (ya : list nat) : option (list nat) :=
    match ls_rev with
    | [] => Some ya
    | l :: rest => yb <- map_a2b (mp l) ya ;; map_up rest yb
    end.
  Definition map_deep (ls : list (sam (N:=N))) (level : nat) (ya : list nat) : option (list nat) :=
    map_up (rev (firstn (S level) ls)) ya.

  (* predict: finest A and B predictions, then mapped up; coarsest first *)
  Fixpoint preds_up (ls_rev : list (sam (N:=N))) (cur : list nat) : option (list (list nat)) :=
    match ls_rev with
    | [] => Some []
    | l :: rest => yb <- map_a2b (mp l) cur ;; r <- preds_up rest yb ;; Some (yb :: r)
    end.
  Definition deep_predict (K : Kernel N) (ls : list (sam (N:=N))) (X : list (list N)) : option (list (list nat)) :=
    match rev ls with
    | [] => None
    | l :: rest =>
        ab <- sam_predict_ab K l X ;;
        let pa := map fst ab in
        let pb := map snd ab in
        up <- preds_up rest pb ;;
        Some (rev (pa :: pb :: up))
    end.
End Deep.

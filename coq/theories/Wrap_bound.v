(* C02, size-bound clause "also for the base modules of DualVigilanceART and
   TopoART", generically in the base module: if a new category satisfies a
   predicate ok and an update of an ok category by a sample whose match value
   is at least the configured vigilance rho0 is ok again, then every base
   category of TopoART / DualVigilanceART is ok after every step, pruning
   round and whole fit call, under every mode that never lowers the vigilance.
   Instances: Fuzzy ART (|w| >= rho d) and Hypersphere ART (radius <=
   r_hat (1 - rho)). *)
From Coq Require Import List Bool Arith ZArith Reals Lra Lia.
From ART Require Import Num NumR Vec Search Search_proofs Kernel BaseArt BaseArt_proofs
     SimpleARTMAP DualVig DualVig_proofs Topo Topo_proofs Fuzzy Fuzzy_R Hyper Hyper_R Bounds_R DualVig_bound Topo_bound
     Hyper_total Ellip_total.
Import ListNotations.
Open Scope R_scope.

Section Gen.
  Variables K Klow : Kernel RN.
  Hypothesis K_single : k_inv K = [false].
  Hypothesis K_match1 : forall x w, exists oM, k_match K x w = [oM].
  Variable rho0 : R.
  Variable ok : list R -> Prop.
  Variable P : list R -> Prop.
  Hypothesis new_ok : forall x w, P x -> k_new K x = Some w -> ok w.
  Hypothesis upd_ok : forall x w M w', P x -> ok w -> k_match K x w = [Some M] -> rho0 <= M -> k_update K x w = Some w' -> ok w'.
  Hypothesis upd_low_ok : forall x w M w', P x -> ok w -> k_match K x w = [Some M] -> rho0 <= M -> k_update Klow x w = Some w' -> ok w'.

  Lemma passed_match_gen (Wl : list (list R)) (x : list R) mode c :
    passed K (map (k_match K x) Wl) mode [rho0] (Some c) ->
    exists w M, nth_error Wl c = Some w /\ k_match K x w = [Some M] /\ rho0 <= M.
  Proof.
    intros (vr & L & Hle & Hm). unfold mbin in Hm. rewrite nth_error_map in Hm.
    match type of Hm with context[option_map _ ?e] => destruct e as [w|] eqn:Ew end; cbn [option_map] in Hm; [|discriminate].
    destruct (K_match1 x w) as [oM EoM]. rewrite EoM, K_single in Hm.
    destruct vr as [|r2 [|? ?]]; cbn in L; try discriminate.
    destruct oM as [M|]; cbn in Hm; [|discriminate].
    rewrite andb_true_r in Hm. exists w, M. split; [exact Ew|]. split; [exact EoM|].
    unfold vig_le in Hle. cbn in Hle. unfold op_pass in Hm.
    destruct (mt_strict mode); unfold nltb in Hm; cbn in Hm.
    - apply negb_true_iff in Hm. apply Rleb_false in Hm. lra.
    - apply Rleb_true in Hm. lra.
  Qed.

  Lemma Forall_set_nth' {A} (Q : A -> Prop) k a (l : list A) : Forall Q l -> Q a -> Forall Q (set_nth k a l).
  Proof.
    intros Hl Ha. apply Forall_forall. intros y Hy. apply In_nth_error in Hy as [j Hj].
    destruct (Nat.eq_dec j k) as [->|Hne].
    - destruct (Nat.lt_ge_cases k (length l)) as [Hk|Hk].
      + rewrite set_nth_same in Hj by exact Hk. inversion Hj; subst; exact Ha.
      + assert (Hn : nth_error (set_nth k a l) k = None) by (apply nth_error_None; rewrite set_nth_length; lia). congruence.
    - rewrite set_nth_other in Hj by exact Hne. rewrite Forall_forall in Hl. apply Hl. eapply nth_error_In; eauto.
  Qed.

  (* ---------------------------------------------------------------- TopoART *)
  Theorem topo_step_bound_gen (s : topo (N:=RN)) x veto mode eps s' c vl :
    raising mode eps -> rho (TB s) = [rho0] -> P x -> Forall ok (W (TB s)) ->
    topo_step K Klow s x veto mode eps = Some (s', c, vl) ->
    Forall ok (W (TB s')) /\ rho (TB s') = [rho0].
  Proof.
    intros Hr Hrho Hx HW H.
    unfold topo_step in H. cbn [bump W rho] in H.
    destruct (W (TB s)) as [|w0 Ws] eqn:EW.
    - destruct (k_new K x) as [w|] eqn:En; cbn [obind] in H; [|discriminate].
      injection H as Es Ec El. rewrite <- Es. cbn. rewrite EW. split; [constructor; [eapply new_ok; eauto|constructor]|exact Hrho].
    - set (Wl := w0 :: Ws) in *.
      destruct (omap (k_choice K Wl x) Wl) as [Ts|]; cbn [obind] in H; [|discriminate].
      match type of H with context [tsearch K ?Ms mode eps ?vf ?n ?v0 ?T None] =>
        destruct (tsearch K Ms mode eps vf n v0 T None) as [[[r1 r2] v'] log] eqn:ES;
        pose proof (tsearch_winners_passed K K_single Ms mode eps vf v0 Hr n v0 T None r1 r2 v' log
                      ltac:(rewrite Hrho; reflexivity) ltac:(unfold vig_le; lra) I ES) as [P1 P2] end.
      rewrite Hrho in P1, P2.
      destruct (log_undef _ log); [discriminate|].
      destruct r1 as [c1|].
      + destruct (passed_match_gen Wl x mode c1 P1) as (w1 & M1 & Ew1 & EM1 & HM1).
        bind_in H Ew1.
        destruct (k_update K x w1) as [w1'|] eqn:U1; cbn [obind] in H; [|discriminate].
        assert (Hok1 : ok w1) by (rewrite Forall_forall in HW; apply HW; eapply nth_error_In; eauto).
        pose proof (upd_ok x w1 M1 w1' Hx Hok1 EM1 HM1 U1) as Hup1.
        destruct r2 as [c2|].
        * assert (Hne : c1 <> c2).
          { eapply (tsearch_distinct K Rleb_total Rleb_trans); [|exact ES]. intros r Hr0; discriminate. }
          destruct (passed_match_gen Wl x mode c2 P2) as (w2 & M2 & Ew2 & EM2 & HM2).
          assert (E2 : nth_error (W (set_weight (bump (TB s)) c1 w1')) c2 = Some w2).
          { cbn [W set_weight bump]. rewrite EW. rewrite set_nth_other by (intro E; apply Hne; symmetry; exact E). exact Ew2. }
          bind_in H E2.
          destruct (k_update Klow x w2) as [w2'|] eqn:U2; cbn [obind] in H; [|discriminate].
          assert (Hok2 : ok w2) by (rewrite Forall_forall in HW; apply HW; eapply nth_error_In; eauto).
          pose proof (upd_low_ok x w2 M2 w2' Hx Hok2 EM2 HM2 U2) as Hup2.
          injection H as Es Ec El. rewrite <- Es. cbn [TB W set_rho set_weight rho bump]. rewrite EW. fold Wl.
          split; [|exact Hrho]. apply Forall_set_nth'; [apply Forall_set_nth'; [exact HW|exact Hup1]|exact Hup2].
        * injection H as Es Ec El. rewrite <- Es. cbn [TB W set_rho set_weight rho bump]. rewrite EW. fold Wl.
          split; [|exact Hrho]. apply Forall_set_nth'; [exact HW|exact Hup1].
      + destruct (k_new K x) as [w|] eqn:En; cbn [obind] in H; [|discriminate].
        injection H as Es Ec El. rewrite <- Es. cbn [TB W set_rho add_weight rho bump]. rewrite EW. fold Wl.
        split; [|exact Hrho]. apply Forall_app. split; [exact HW|constructor; [eapply new_ok; eauto|constructor]].
  Qed.

  Lemma prune_bound_gen phi (s s' : topo (N:=RN)) X :
    Forall ok (W (TB s)) -> rho (TB s) = [rho0] -> prune K phi s X = Some s' ->
    Forall ok (W (TB s')) /\ rho (TB s') = [rho0].
  Proof.
    intros HW Hrho H. unfold prune in H.
    match type of H with obind ?e _ = _ => destruct e as [labs|] end; cbn [obind] in H; [|discriminate].
    inversion H; subst. cbn [TB W rho]. split; [apply select_Forall; exact HW|exact Hrho].
  Qed.

  Lemma topo_loop_bound_gen tau phi mode eps veto Xall : raising mode eps ->
    forall X (s : topo (N:=RN)) i s' ls,
      Forall P X -> Forall ok (W (TB s)) -> rho (TB s) = [rho0] ->
      topo_loop K Klow tau phi s X Xall i veto mode eps = Some (s', ls) ->
      Forall ok (W (TB s')) /\ rho (TB s') = [rho0].
  Proof.
    intros Hr. induction X as [|x X IH]; intros s i s' ls HX HW Hrho H; cbn [topo_loop] in H.
    - inversion H; subst. auto.
    - inversion HX as [|? ? Hx HX']; subst.
      destruct (topo_step K Klow s x (veto i) mode eps) as [[[s1 c] l]|] eqn:E1; cbn [obind] in H; [|discriminate].
      destruct (topo_step_bound_gen s x (veto i) mode eps s1 c l Hr Hrho Hx HW E1) as [HW1 Hrho1].
      match type of H with obind ?e _ = _ => destruct e as [s3|] eqn:E3 end; cbn [obind] in H; [|discriminate].
      assert (H3 : Forall ok (W (TB s3)) /\ rho (TB s3) = [rho0]).
      { unfold post_step in E3. cbn [TB] in E3.
        match type of E3 with (if ?b then _ else _) = _ => destruct b end.
        - eapply prune_bound_gen; [| |exact E3]; cbn [TB]; assumption.
        - inversion E3; subst. cbn [TB]. auto. }
      destruct H3 as [HW3 Hrho3].
      match type of H with obind ?e _ = _ => destruct e as [[s4 l4]|] eqn:E4 end; cbn [obind] in H; [|discriminate].
      inversion H; subst. cbn [fst]. eapply IH; [exact HX'|exact HW3|exact Hrho3|exact E4].
  Qed.

  Theorem topo_fit_bound_gen tau phi (s : topo (N:=RN)) X veto mode eps s' ls :
    raising mode eps -> rho (TB s) = [rho0] -> Forall P X ->
    topo_fit K Klow tau phi s X veto mode eps = Some (s', ls) ->
    Forall ok (W (TB s')) /\ rho (TB s') = [rho0].
  Proof.
    intros Hr Hrho HX H. unfold topo_fit in H.
    destruct (valid K (TB s) X); [|discriminate].
    eapply topo_loop_bound_gen; [exact Hr|exact HX| | |exact H]; cbn [TB W rho].
    - constructor.
    - unfold learn_dim. destruct (dim (TB s)); [exact Hrho|]. destruct X; exact Hrho.
  Qed.

  (* ---------------------------------------------------------------- DualVigilanceART *)
  Theorem dv_step_bound_gen (s : dv (N:=RN)) x veto mode eps lb s' l vl :
    raising mode eps -> rho (DB s) = [rho0] -> P x -> Forall ok (W (DB s)) ->
    dv_step K s x veto mode eps lb = Some (s', l, vl) ->
    Forall ok (W (DB s')) /\ rho (DB s') = [rho0].
  Proof.
    intros Hr Hrho Hx HW H.
    unfold dv_step in H.
    destruct (W (DB s)) as [|w0 Ws] eqn:EW.
    - destruct (k_new K x) as [w|] eqn:En; cbn [obind] in H; [|discriminate].
      injection H as Es El Ev. rewrite <- Es. cbn. split; [constructor; [eapply new_ok; eauto|constructor]|exact Hrho].
    - set (Wl := w0 :: Ws) in *.
      destruct (omap (k_choice K Wl x) Wl) as [Ts|]; cbn [obind] in H; [|discriminate].
      rewrite dv_search_eq_scan in H.
      match type of H with context [dv_scan K ?Ms mode eps ?lbv ?vf ?ord ?v0] =>
        pose proof (dv_scan_absorb_vig K K_single Ms mode eps lbv vf Hr ord v0 ltac:(rewrite Hrho; reflexivity)) as Habs;
        destruct (dv_scan K Ms mode eps lbv vf ord v0) as [[r v'] log] eqn:ES end.
      cbn [fst] in Habs.
      destruct (log_undef _ log); [discriminate|].
      destruct r as [c|c|].
      + assert (Pc : passed K (map (k_match K x) Wl) mode [rho0] (Some c)).
        { destruct Habs as (v2 & L2 & Hle & Hm2). exists v2. rewrite Hrho in Hle. auto. }
        destruct (passed_match_gen Wl x mode c Pc) as (w & M & Ew & EM & HM).
        bind_in H Ew.
        destruct (k_update K x w) as [w'|] eqn:U; cbn [obind] in H; [|discriminate].
        destruct (lookup (dmap s) c) as [lab|]; cbn [obind] in H; [|discriminate].
        assert (Hok : ok w) by (rewrite Forall_forall in HW; apply HW; eapply nth_error_In; eauto).
        pose proof (upd_ok x w M w' Hx Hok EM HM U) as Hup.
        injection H as Es El Ev. rewrite <- Es. cbn [DB W set_rho set_weight rho]. rewrite EW. fold Wl.
        split; [|exact Hrho]. apply Forall_set_nth'; [exact HW|exact Hup].
      + destruct (k_new K x) as [w'|] eqn:En; cbn [obind] in H; [|discriminate].
        destruct (lookup (dmap s) c) as [lab|]; cbn [obind] in H; [|discriminate].
        injection H as Es El Ev. rewrite <- Es. cbn [DB W set_rho add_weight rho]. rewrite EW. fold Wl.
        split; [|exact Hrho]. apply Forall_app. split; [exact HW|constructor; [eapply new_ok; eauto|constructor]].
      + destruct (k_new K x) as [w'|] eqn:En; cbn [obind] in H; [|discriminate].
        injection H as Es El Ev. rewrite <- Es. cbn [DB W set_rho add_weight rho]. rewrite EW. fold Wl.
        split; [|exact Hrho]. apply Forall_app. split; [exact HW|constructor; [eapply new_ok; eauto|constructor]].
  Qed.

  Lemma dv_loop_bound_gen mode eps lb veto : raising mode eps ->
    forall X (s : dv (N:=RN)) i j s' ls,
      Forall P X -> Forall ok (W (DB s)) -> rho (DB s) = [rho0] ->
      dv_loop K s X i j veto mode eps lb = Some (s', ls) ->
      Forall ok (W (DB s')) /\ rho (DB s') = [rho0].
  Proof.
    intros Hr. induction X as [|x X IH]; intros s i j s' ls HX HW Hrho H; cbn [dv_loop] in H.
    - inversion H; subst. auto.
    - inversion HX as [|? ? Hx HX']; subst.
      destruct (dv_step K s x (veto i) mode eps lb) as [[[s1 c] l]|] eqn:E1; cbn [obind] in H; [|discriminate].
      destruct (dv_step_bound_gen s x (veto i) mode eps lb s1 c l Hr Hrho Hx HW E1) as [HW1 Hrho1].
      match type of H with obind ?e _ = _ => destruct e as [[s4 l4]|] eqn:E4 end; cbn [obind] in H; [|discriminate].
      inversion H; subst. cbn [fst]. eapply IH; [exact HX'| | |exact E4]; cbn [set_DB DB set_labels W rho]; assumption.
  Qed.

  Theorem dv_fit_bound_gen (s : dv (N:=RN)) X veto mode eps lb s' ls :
    raising mode eps -> rho (DB s) = [rho0] -> Forall P X ->
    dv_fit K s X veto mode eps lb = Some (s', ls) ->
    Forall ok (W (DB s')) /\ rho (DB s') = [rho0].
  Proof.
    intros Hr Hrho HX H. unfold dv_fit in H.
    destruct (valid K (DB s) X); [|discriminate].
    eapply dv_loop_bound_gen; [exact Hr|exact HX| | |exact H]; cbn [DB W rho].
    - constructor.
    - unfold learn_dim. destruct (dim (DB s)); [exact Hrho|]. destruct X; exact Hrho.
  Qed.
End Gen.

(* ---------------------------------------------------------------- Fuzzy ART *)
Section FuzzyInst.
  Variables alpha beta beta_lower rho0 d : R.
  Variable n : nat.
  Hypothesis Hb : 0 <= beta <= 1.
  Hypothesis Hbl : 0 <= beta_lower <= 1.
  Hypothesis Hr1 : rho0 <= 1.
  Hypothesis Hd : 0 < d.
  Let K := @fuzzyK RN alpha beta.
  Let Klow := @fuzzyK RN alpha beta_lower.

  Lemma fuzzy_new_ok (x w : list R) : cc_ok d n x -> k_new K x = Some w -> fz_ok rho0 d n w.
  Proof.
    intros (Hl & Hdo & Hx & Hsum) H. cbn in H. inversion H; subst w. unfold fuzzy_new.
    split; [exact Hl|]. split; [exact Hx|]. rewrite l1_nonneg by exact Hx. rewrite Hsum. nra.
  Qed.
  Lemma fuzzy_upd_ok b (Hb' : 0 <= b <= 1) (x w : list R) M w' :
    cc_ok d n x -> fz_ok rho0 d n w -> k_match K x w = [Some M] -> rho0 <= M ->
    k_update (@fuzzyK RN alpha b) x w = Some w' -> fz_ok rho0 d n w'.
  Proof.
    intros (Hl & Hdo & Hx & Hsum) Hok EM HM U. cbn in EM, U. inversion U; subst w'.
    assert (EM' : @fuzzy_match RN x w = Some M) by (injection EM as E0; exact E0).
    rewrite <- Hl in *. apply (fz_update_ok b Hb' x w rho0 d M Hr1 Hd Hdo Hx Hsum Hok EM' HM).
  Qed.

  Theorem topo_fuzzy_fit_bound' tau phi (s : topo (N:=RN)) X veto mode eps s' ls :
    raising mode eps -> rho (TB s) = [rho0] -> Forall (cc_ok d n) X ->
    topo_fit K Klow tau phi s X veto mode eps = Some (s', ls) ->
    Forall (fz_ok rho0 d n) (W (TB s')) /\ rho (TB s') = [rho0].
  Proof.
    apply (topo_fit_bound_gen K Klow eq_refl ltac:(intros; eexists; reflexivity) rho0 (fz_ok rho0 d n) (cc_ok d n)).
    - exact fuzzy_new_ok.
    - intros x w M w'. apply (fuzzy_upd_ok beta Hb).
    - intros x w M w'. apply (fuzzy_upd_ok beta_lower Hbl).
  Qed.

  Theorem dv_fuzzy_fit_bound (s : dv (N:=RN)) X veto mode eps lb s' ls :
    raising mode eps -> rho (DB s) = [rho0] -> Forall (cc_ok d n) X ->
    dv_fit K s X veto mode eps lb = Some (s', ls) ->
    Forall (fz_ok rho0 d n) (W (DB s')) /\ rho (DB s') = [rho0].
  Proof.
    apply (dv_fit_bound_gen K eq_refl ltac:(intros; eexists; reflexivity) rho0 (fz_ok rho0 d n) (cc_ok d n)).
    - exact fuzzy_new_ok.
    - intros x w M w'. apply (fuzzy_upd_ok beta Hb).
  Qed.
End FuzzyInst.

(* ---------------------------------------------------------------- Hypersphere ART *)
Section HyperInst.
  Variables alpha beta beta_lower r_hat rho0 : R.
  Hypothesis Hb : 0 <= beta <= 1.
  Hypothesis Hbl : 0 <= beta_lower <= 1.
  Hypothesis Hr : 0 < r_hat.
  Hypothesis Hr1 : rho0 <= 1.
  Let K := @hyperK RN alpha beta r_hat.
  Let Klow := @hyperK RN alpha beta_lower r_hat.

  Lemma hyper_new_ok (x w : list R) : True -> k_new K x = Some w -> hs_ok r_hat rho0 w.
  Proof.
    intros _ H. cbn in H. inversion H; subst w.
    unfold hs_ok, hs_radius, hs_new. change (@n0 RN) with 0. rewrite last_snoc. split; [lra|]. apply Rmult_le_pos; lra.
  Qed.
  Lemma hyper_upd_ok b (Hb' : 0 <= b <= 1) (x w : list R) M w' :
    True -> hs_ok r_hat rho0 w -> k_match K x w = [Some M] -> rho0 <= M ->
    k_update (@hyperK RN alpha b r_hat) x w = Some w' -> hs_ok r_hat rho0 w'.
  Proof.
    intros _ [Hr0 _] EM HM U. cbn in EM, U.
    assert (EM0 : @hs_match RN r_hat x w = Some M) by (injection EM as E0; exact E0).
    unfold hs_match, odiv in EM0.
    assert (Er : @neqb RN r_hat n0 = false) by (cbn; apply Reqb_false; lra).
    rewrite Er in EM0. cbn [obind] in EM0. inversion EM0 as [EM']. clear EM0.
    pose proof (hs_update_radius b x w w' U) as ER.
    unfold hs_ok. rewrite ER.
    set (r := @hs_radius RN w) in *. set (dd := @hs_dist RN x (@hs_centroid RN w)) in *.
    split.
    - pose proof (hs_radius_mono b r dd (proj1 Hb')). lra.
    - apply hs_radius_bound; auto. rewrite <- EM' in HM. rewrite !nmax_R in HM. cbn in HM. exact HM.
  Qed.

  Theorem topo_hyper_fit_bound tau phi (s : topo (N:=RN)) X veto mode eps s' ls :
    raising mode eps -> rho (TB s) = [rho0] ->
    topo_fit K Klow tau phi s X veto mode eps = Some (s', ls) ->
    Forall (hs_ok r_hat rho0) (W (TB s')) /\ rho (TB s') = [rho0].
  Proof.
    intros Hra Hrho. apply (topo_fit_bound_gen K Klow eq_refl ltac:(intros; eexists; reflexivity) rho0 (hs_ok r_hat rho0) (fun _ => True)); auto.
    - exact hyper_new_ok.
    - intros x w M w'. apply (hyper_upd_ok beta Hb).
    - intros x w M w'. apply (hyper_upd_ok beta_lower Hbl).
    - apply Forall_forall. auto.
  Qed.

  Theorem dv_hyper_fit_bound (s : dv (N:=RN)) X veto mode eps lb s' ls :
    raising mode eps -> rho (DB s) = [rho0] ->
    dv_fit K s X veto mode eps lb = Some (s', ls) ->
    Forall (hs_ok r_hat rho0) (W (DB s')) /\ rho (DB s') = [rho0].
  Proof.
    intros Hra Hrho. apply (dv_fit_bound_gen K eq_refl ltac:(intros; eexists; reflexivity) rho0 (hs_ok r_hat rho0) (fun _ => True)); auto.
    - exact hyper_new_ok.
    - intros x w M w'. apply (hyper_upd_ok beta Hb).
    - apply Forall_forall. auto.
  Qed.
End HyperInst.

(* ---------------------------------------------------------------- Ellipsoid ART *)
Section EllipInst.
  Variables alpha beta beta_lower mu r_hat rho0 : R.
  Hypothesis Hb : 0 <= beta <= 1.
  Hypothesis Hbl : 0 <= beta_lower <= 1.
  Hypothesis Hr : 0 < r_hat.
  Hypothesis Hr1 : rho0 <= 1.
  Let K := @ellipK RN alpha beta mu r_hat.
  Let Klow := @ellipK RN alpha beta_lower mu r_hat.

  Lemma ellip_new_ok (x w : list R) : True -> k_new K x = Some w -> el_ok r_hat rho0 w.
  Proof.
    intros _ H. cbn in H. inversion H; subst w.
    unfold el_ok, el_radius, el_new. change (@n0 RN) with 0. rewrite last_snoc2. split; [lra|].
    assert (0 <= r_hat * (1 - rho0)) by (apply Rmult_le_pos; lra). lra.
  Qed.
  Lemma ellip_upd_ok b (Hb' : 0 <= b <= 1) (x w : list R) M w' :
    True -> el_ok r_hat rho0 w -> k_match K x w = [Some M] -> rho0 <= M ->
    k_update (@ellipK RN alpha b mu r_hat) x w = Some w' -> el_ok r_hat rho0 w'.
  Proof.
    intros _ [Hr0 _] EM HM U. cbn [k_update ellipK] in U.
    destruct (el_update_radius b mu x w w' U) as [dist [Ed ER]].
    assert (EM0 : @el_match RN mu r_hat x w = Some M) by (cbn [k_match K ellipK] in EM; injection EM as E0; exact E0).
    unfold el_match in EM0. cbv zeta in EM0.
    match type of EM0 with context [@obind _ _ ?e _] => assert (Ed' : e = Some dist) by exact Ed; rewrite Ed' in EM0 end. cbn [obind] in EM0.
    unfold odiv in EM0. assert (Er : @neqb RN r_hat n0 = false) by (cbn; apply Reqb_false; lra).
    rewrite Er in EM0. cbn [obind] in EM0. inversion EM0 as [EM']. clear EM0.
    unfold el_ok. rewrite ER. set (r := @el_radius RN w) in *.
    split.
    - pose proof (ell_radius_mono b r dist (proj1 Hb')). lra.
    - apply ell_radius_bound; auto. rewrite <- EM' in HM. rewrite nmax_R in HM. cbn in HM. exact HM.
  Qed.

  Theorem topo_ellipsoid_fit_bound tau phi (s : topo (N:=RN)) X veto mode eps s' ls :
    raising mode eps -> rho (TB s) = [rho0] ->
    topo_fit K Klow tau phi s X veto mode eps = Some (s', ls) ->
    Forall (el_ok r_hat rho0) (W (TB s')) /\ rho (TB s') = [rho0].
  Proof.
    intros Hra Hrho. apply (topo_fit_bound_gen K Klow eq_refl ltac:(intros; eexists; reflexivity) rho0 (el_ok r_hat rho0) (fun _ => True)); auto.
    - exact ellip_new_ok.
    - intros x w M w'. apply (ellip_upd_ok beta Hb).
    - intros x w M w'. apply (ellip_upd_ok beta_lower Hbl).
    - apply Forall_forall. auto.
  Qed.

  Theorem dv_ellipsoid_fit_bound (s : dv (N:=RN)) X veto mode eps lb s' ls :
    raising mode eps -> rho (DB s) = [rho0] ->
    dv_fit K s X veto mode eps lb = Some (s', ls) ->
    Forall (el_ok r_hat rho0) (W (DB s')) /\ rho (DB s') = [rho0].
  Proof.
    intros Hra Hrho. apply (dv_fit_bound_gen K eq_refl ltac:(intros; eexists; reflexivity) rho0 (el_ok r_hat rho0) (fun _ => True)); auto.
    - exact ellip_new_ok.
    - intros x w M w'. apply (ellip_upd_ok beta Hb).
    - apply Forall_forall. auto.
  Qed.
End EllipInst.

(* C15, second sentence, for CVIART (artlib/cvi/CVIART.py, CVI_match as repaired by /repo 7e6350b): the verdict of the
   validity gate as a function of the labelling before the step, the candidate assignment and the two index values
   (scikit-learn's, an oracle here).  The index exists for 2 .. n-1 distinct labels only; where it does not exist for
   one of the two labellings, or the base module has fewer than two categories, there is nothing to compare and the
   assignment is permitted. *)
From Coq Require Import List Bool Arith Lia.
From ART Require Import Num.
Import ListNotations.

Definition distinct (l : list nat) : nat := length (nodup Nat.eq_dec l).
Definition index_defined (labels : list nat) : bool :=
  Nat.leb 2 (distinct labels) && Nat.leb (distinct labels) (length labels - 1).
Fixpoint set_at (i : nat) (c : nat) (l : list nat) : list nat :=
  match l, i with [], _ => [] | _ :: l', O => c :: l' | a :: l', S i' => a :: set_at i' c l' end.

Section Gate.
  Context {N : Num}.
  (* lower_better: Davies-Bouldin; otherwise Calinski-Harabasz / silhouette *)
  Definition cvi_match (ncat : nat) (labels : list nat) (i c : nat) (lower_better : bool) (old new : N) : bool :=
    if Nat.ltb ncat 2 then true
    else if negb (index_defined labels) then true                    (* nothing to compare with *)
    else if negb (index_defined (set_at i c labels)) then false      (* a defined index would become undefined *)
    else if lower_better then nltb new old else nltb old new.
  (* /repo 7e6350b .. 99d1851: permitted whenever either labelling had no index *)
  Definition cvi_match_lenient (ncat : nat) (labels : list nat) (i c : nat) (lower_better : bool) (old new : N) : bool :=
    if Nat.ltb ncat 2 then true
    else if negb (index_defined labels && index_defined (set_at i c labels)) then true
    else if lower_better then nltb new old else nltb old new.
  (* before the fix the index was evaluated whenever the base module had two categories *)
  Definition cvi_match_before_fix (ncat : nat) (labels : list nat) (i c : nat) (lower_better : bool) (old new : option N) : option bool :=
    if Nat.ltb ncat 2 then Some true
    else match old, new with
         | Some o, Some n => Some (if lower_better then nltb n o else nltb o n)
         | _, _ => None          (* scikit-learn raises ValueError *)
         end.

  (* a permitted assignment keeps the index defined and strictly improves it, whenever there was an index before *)
  Theorem gate_strict ncat labels i c lb old new :
    cvi_match ncat labels i c lb old new = true -> 2 <= ncat ->
    index_defined labels = true ->
    index_defined (set_at i c labels) = true /\ (if lb then nltb new old else nltb old new) = true.
  Proof.
    unfold cvi_match. intros H Hn H1.
    destruct (Nat.ltb_spec ncat 2) as [Hl|_]; [lia|]. rewrite H1 in H. cbn [negb] in H.
    destruct (index_defined (set_at i c labels)); cbn [negb] in H; [split; [reflexivity|exact H]|discriminate].
  Qed.
  (* ... and the verdict exists for every labelling: the gate never fails *)
  Theorem gate_total ncat labels i c lb old new : exists b : bool, cvi_match ncat labels i c lb old new = b.
  Proof. eexists; reflexivity. Qed.
  Theorem gate_refuses_no_improvement ncat labels i c (lb : bool) (old new : N) :
    2 <= ncat -> index_defined labels = true -> index_defined (set_at i c labels) = true ->
    (if lb then nltb new old else nltb old new) = false -> cvi_match ncat labels i c lb old new = false.
  Proof.
    unfold cvi_match. intros Hn H1 H2 H. destruct (Nat.ltb_spec ncat 2) as [Hl|_]; [lia|]. rewrite H1, H2. cbn. exact H.
  Qed.
  Theorem gate_refuses_losing_the_index ncat labels i c (lb : bool) (old new : N) :
    2 <= ncat -> index_defined labels = true -> index_defined (set_at i c labels) = false ->
    cvi_match ncat labels i c lb old new = false.
  Proof.
    unfold cvi_match. intros Hn H1 H2. destruct (Nat.ltb_spec ncat 2) as [Hl|_]; [lia|]. rewrite H1, H2. reflexivity.
  Qed.
End Gate.

(* every sample its own cluster (what a second epoch meets): no index, the old code had nothing to return *)
Example every_sample_its_own_cluster : index_defined [0; 1; 2] = false /\ index_defined [0; 0; 1] = true /\ index_defined [0; 0; 0] = false.
Proof. vm_compute. repeat split; reflexivity. Qed.

(* the lenient variant let a sample leave a labelling with an index for one without: [0;0;1;1] -> every sample alone
   is impossible in one move, but [0;1;2;2] -> [0;1;2;3] is *)
Example lenient_variant_refuted :
  index_defined [0; 1; 2; 2] = true /\ index_defined (set_at 3 3 [0; 1; 2; 2]) = false.
Proof. vm_compute. split; reflexivity. Qed.

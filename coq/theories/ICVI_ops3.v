(* C15, first sentence, with remove_sample in the mix: after ANY sequence of add_sample / switch_label / remove_sample
   (+ update) operations that the API permits, starting from the empty index, every operation was defined and the
   tracked value equals the batch Calinski-Harabasz index of the data that remain. *)
From Coq Require Import List Bool Arith Reals Lra Lia Permutation.
From ART Require Import Num NumR Vec VecR Search Kernel ICVI ICVI_R ICVI_full ICVI_switch ICVI_remove ICVI_remove_inv.
Import ListNotations.
Open Scope R_scope.

Definition remove_nth {A} (j : nat) (l : list A) : list A := firstn j l ++ skipn (S j) l.
Lemma remove_nth_perm {A} (l : list A) j a : nth_error l j = Some a -> Permutation l (remove_nth j l ++ [a]).
Proof.
  intros H. destruct (nth_error_split l j H) as [l1 [l2 [E Lj]]]. subst l. unfold remove_nth.
  rewrite firstn_app, firstn_all2 by lia. replace (j - length l1)%nat with 0%nat by lia. cbn [firstn]. rewrite app_nil_r.
  replace (S j) with (length l1 + 1)%nat by lia. rewrite skipn_app, skipn_all2 by lia.
  replace (length l1 + 1 - length l1)%nat with 1%nat by lia. cbn [skipn app].
  rewrite <- app_assoc. apply Permutation_app_head. apply Permutation_cons_append.
Qed.

Inductive iop3 := O3Add (x : list R) (l : nat) | O3Switch (j : nat) (lnew : nat) | O3Remove (j : nat).

Definition op_step3 (sd : chR * data) (o : iop3) : option (chR * data) :=
  let '(s, D) := sd in
  match o with
  | O3Add x l => op_step (s, D) (OAdd x l)
  | O3Switch j lnew => op_step (s, D) (OSwitch j lnew)
  | O3Remove j =>
      match nth_error D j with
      | Some (x, l) => p <- @remove_sample RN s x l ;; Some (@update RN s p, remove_nth j D)
      | None => None
      end
  end.
Fixpoint run_ops3 (ops : list iop3) (sd : chR * data) : option (chR * data) :=
  match ops with
  | [] => Some sd
  | o :: ops' => sd' <- op_step3 sd o ;; run_ops3 ops' sd'
  end.
Definition permitted3 (d : nat) (D : data) (o : iop3) : Prop :=
  match o with
  | O3Add x l => permitted d D (OAdd x l)
  | O3Switch j lnew => permitted d D (OSwitch j lnew)
  | O3Remove j => exists x l, nth_error D j = Some (x, l) /\ (2 <= length (members D l))%nat
  end.
Definition data_step3 (D : data) (o : iop3) : data :=
  match o with
  | O3Add x l => data_step D (OAdd x l)
  | O3Switch j lnew => data_step D (OSwitch j lnew)
  | O3Remove j => remove_nth j D
  end.
Fixpoint all_permitted3 (d : nat) (D : data) (ops : list iop3) : Prop :=
  match ops with
  | [] => True
  | o :: ops' => permitted3 d D o /\ all_permitted3 d (data_step3 D o) ops'
  end.

Lemma op_step3_inv d (s : chR) (D : data) (o : iop3) : Inv d s D -> permitted3 d D o ->
  exists s', op_step3 (s, D) o = Some (s', data_step3 D o) /\ Inv d s' (data_step3 D o).
Proof.
  intros I P. destruct o as [x l|j lnew|j]; cbn [op_step3 data_step3 permitted3] in *.
  - apply (op_step_inv d s D (OAdd x l) I P).
  - apply (op_step_inv d s D (OSwitch j lnew) I P).
  - destruct I as [St Cr]. destruct P as [x [l [Hj H2]]]. rewrite Hj.
    destruct (remove_sample_inv d s D j x l St Hj H2) as [p [D' [Ep [P1 [St' Cr']]]]].
    rewrite Ep. cbn [obind]. eexists. split; [reflexivity|].
    assert (P2 : Permutation D' (remove_nth j D)).
    { apply (Permutation_app_inv_r [(x, l)]). etransitivity; [apply Permutation_sym; exact P1|]. apply remove_nth_perm. exact Hj. }
    pose proof (Struct_perm d _ _ _ P2 St') as St''.
    split; [exact St''|].
    rewrite (batch_from_stats d _ _ St''). rewrite <- (batch_from_stats d _ _ St'). exact Cr'.
Qed.

Theorem run_ops3_inv d : forall (ops : list iop3) (s : chR) (D : data),
  Inv d s D -> all_permitted3 d D ops ->
  exists s' D', run_ops3 ops (s, D) = Some (s', D') /\ Inv d s' D'.
Proof.
  induction ops as [|o ops IH]; intros s D I P; cbn [run_ops3 all_permitted3] in *.
  - exists s, D. auto.
  - destruct P as [P1 P2]. destruct (op_step3_inv d s D o I P1) as [s1 [E1 I1]].
    rewrite E1. cbn [obind]. apply IH; assumption.
Qed.

Theorem icvi_tracks_batch_index_with_removals d (ops : list iop3) : all_permitted3 d [] ops ->
  exists s D, run_ops3 ops (@ch_init RN d, []) = Some (s, D) /\ @batch_ch RN D d = Some (h_crit s).
Proof.
  intros P. assert (I0 : Inv d (@ch_init RN d) []) by (split; [apply struct_init|unfold batch_ch; cbn; reflexivity]).
  destruct (run_ops3_inv d ops _ _ I0 P) as [s [D [E [_ Cr]]]]. exists s, D. auto.
Qed.

(* C10, last clause, at the level of one category: the fused activation depends
   only on the MULTISET of (channel activation, gamma) pairs and the fused
   vigilance test only on the multiset of per-channel verdicts, so permuting
   the channels together with their gamma values, widths and vigilances
   changes neither (exact arithmetic; binary64 summation order is outside). *)
From Coq Require Import List Bool Arith Lia Reals Lra Permutation.
From ART Require Import Num NumR Vec Search Kernel BaseArt Fusion Fusion_skip.
Import ListNotations.
Open Scope R_scope.

Lemma wsumR_perm (l l' : list (R * R)) : Permutation l l' -> wsumR l = wsumR l'.
Proof.
  induction 1 as [|[t g] l l' _ IH|[t g] [t' g'] l|l l' l'' _ IH1 _ IH2]; cbn [wsumR]; lra.
Qed.

Lemma omap_nth_all {A B} (f : A -> option B) (l : list A) (r : list B) :
  length r = length l -> (forall k a, nth_error l k = Some a -> option_map Some (nth_error r k) = Some (f a)) -> map f l = map Some r.
Proof.
  revert r. induction l as [|a l IH]; intros [|b r] HL H; cbn in *; try discriminate; [reflexivity|].
  f_equal.
  - specialize (H 0%nat a eq_refl). cbn in H. inversion H. reflexivity.
  - apply IH; [lia|]. intros k a' Hk. apply (H (S k) a' Hk).
Qed.

(* the activations collected by FusionART are exactly the channel modules' own activations *)
Lemma choice_collects_own (mods : list (Kernel RN)) (gammas : list (T RN)) (dims wdims : list nat)
      (Ws : list (list (T RN))) (x w : list (T RN)) (t : R) :
  k_choice (fusionK mods gammas dims wdims) Ws x w = Some t ->
  exists ts, map (own Ws x w) (combine mods (pos dims wdims)) = map Some ts /\ t = wsumR (combine ts gammas).
Proof.
  intros H. destruct (choice_is_weighted_sum mods gammas dims wdims Ws x w t H) as (ts & L & Hown & Ht).
  exists ts. split; [|exact Ht]. apply omap_nth_all; [exact L|].
  intros k Kp Hk. rewrite <- (Hown k Kp Hk).
  destruct (nth_error ts k) as [v|] eqn:Ev; [reflexivity|].
  exfalso. apply nth_error_None in Ev. assert (k < length (combine mods (pos dims wdims)))%nat by (apply nth_error_Some; congruence). lia.
Qed.

(* two configurations whose (channel activation, gamma) pairs are permutations of each other activate alike *)
Theorem fused_activation_is_permutation_invariant
        (mods mods' : list (Kernel RN)) (gammas gammas' : list (T RN)) (dims wdims dims' wdims' : list nat)
        (Ws Ws' : list (list (T RN))) (x w x' w' : list (T RN)) (t t' : R) :
  k_choice (fusionK mods gammas dims wdims) Ws x w = Some t ->
  k_choice (fusionK mods' gammas' dims' wdims') Ws' x' w' = Some t' ->
  length gammas = length (combine mods (pos dims wdims)) -> length gammas' = length (combine mods' (pos dims' wdims')) ->
  Permutation (combine (map (own Ws x w) (combine mods (pos dims wdims))) gammas)
              (combine (map (own Ws' x' w') (combine mods' (pos dims' wdims'))) gammas') ->
  t = t'.
Proof.
  intros H H' LG LG' HP.
  destruct (choice_collects_own _ _ _ _ _ _ _ _ H) as (ts & E & Ht).
  destruct (choice_collects_own _ _ _ _ _ _ _ _ H') as (ts' & E' & Ht').
  rewrite E, E' in HP. subst t t'.
  (* strip the Some constructors *)
  assert (G : forall (a b : list R) (ga gb : list R),
             Permutation (combine (map Some a) ga) (combine (map Some b) gb) -> Permutation (combine a ga) (combine b gb)).
  { intros a b ga gb HPm.
    assert (F : forall (u : list R) gu, combine (map Some u) gu = map (fun p : R * R => (Some (fst p), snd p)) (combine u gu)).
    { induction u as [|c u IHu]; intros [|g gu]; cbn; try reflexivity. rewrite IHu. reflexivity. }
    rewrite !F in HPm.
    apply (Permutation_map (fun p : option R * R => (match fst p with Some v => v | None => 0 end, snd p))) in HPm.
    rewrite !map_map in HPm. cbn in HPm.
    assert (I : forall l : list (R * R), map (fun p : R * R => (fst p, snd p)) l = l).
    { induction l as [|[c d] l IHl]; cbn; [reflexivity|]. rewrite IHl. reflexivity. }
    rewrite !I in HPm. exact HPm. }
  apply wsumR_perm. apply G. exact HP.
Qed.

(* the fused vigilance test: "every channel passes" does not depend on the order of the channels *)
Lemma forallb_perm {A} (f : A -> bool) (l l' : list A) : Permutation l l' -> forallb f l = forallb f l'.
Proof.
  induction 1 as [|a l l' _ IH|a b l|l l' l'' _ IH1 _ IH2]; cbn; try reflexivity.
  - rewrite IH. reflexivity.
  - destruct (f a), (f b); reflexivity.
  - rewrite IH1. exact IH2.
Qed.
Theorem all_channels_pass_is_permutation_invariant (verdicts verdicts' : list bool) :
  Permutation verdicts verdicts' -> forallb (fun b => b) verdicts = forallb (fun b => b) verdicts'.
Proof. apply forallb_perm. Qed.

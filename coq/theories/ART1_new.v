(* C03, ART1: a freshly committed category obeys the same bottom-up / template
   relation as an updated one - bottom-up = L/(L-1+|t|) t - so presenting the
   founding pattern again leaves the weight unchanged (true since the /repo fix
   of ART1.new_weight; the earlier divisor L-1+dim is kept as a refuted
   variant). *)
From Coq Require Import List Bool Arith ZArith Reals Lra Lia.
From ART Require Import Num NumR Vec Search Kernel ART1.
Import ListNotations.
Open Scope R_scope.

Lemma Reqb_refl (a : R) : Reqb a a = true.
Proof. apply Reqb_true. reflexivity. Qed.

Lemma vand_self (x : list R) : @art1_valid RN x = true -> @vand RN x x = x.
Proof.
  induction x as [|a x IH]; cbn [art1_valid forallb vand vzip]; [reflexivity|].
  intros H. apply andb_prop in H as [Ha Hx]. unfold vand in IH. rewrite (IH Hx). f_equal.
  unfold nz. cbn in *. apply orb_prop in Ha as [E|E]; apply Reqb_true in E; subst a.
  - rewrite (Reqb_refl 0). reflexivity.
  - assert (E1 : Reqb 1 0 = false) by (apply Reqb_false; lra). rewrite E1. reflexivity.
Qed.

Lemma vscale_length (k : R) (t : list R) : length (@vscale RN k t) = length t.
Proof. unfold vscale. apply map_length. Qed.

Theorem art1_new_is_a_fixed_point (L : R) (x w : list R) :
  @art1_valid RN x = true -> @art1_new RN L x = Some w -> @art1_update RN L x w = Some w.
Proof.
  intros Hv H. unfold art1_new in H. unfold art1_scale in H.
  destruct (@odiv RN L (@nadd RN (@nsub RN L n1) (@l1norm RN x))) as [k|] eqn:Ek; cbn [obind] in H; [|discriminate].
  inversion H; subst w. clear H.
  unfold art1_update, art1_td.
  assert (Lb : length (@vscale RN k x) = length x) by apply vscale_length.
  rewrite skipn_app. rewrite (skipn_all2 (@vscale RN k x)) by (rewrite Lb; apply Nat.le_refl).
  assert (E0 : (length x - length (@vscale RN k x) = 0)%nat) by (rewrite Lb; apply Nat.sub_diag).
  match goal with |- context [skipn ?n x] => replace n with 0%nat by (symmetry; exact E0) end. cbn [skipn app].
  rewrite (vand_self x Hv). unfold art1_scale. rewrite Ek. reflexivity.
Qed.

(* before the fix the relation failed: re-presenting the founding pattern changed the weight (0.4 -> 1) *)
From Coq Require Import QArith.
Theorem art1_new_before_fix_refuted :
  exists (L : QN) (x w w' : list QN),
    @art1_valid QN x = true /\ @art1_new_before_fix QN L x = Some w /\ @art1_update QN L x w = Some w' /\
    nth 0 w 0%Q = (2#5)%Q /\ nth 0 w' 0%Q = 1%Q.
Proof.
  exists 2%Q, [1%Q; 0%Q; 0%Q; 0%Q]. eexists. eexists.
  split; [vm_compute; reflexivity|]. split; [vm_compute; reflexivity|]. split; [vm_compute; reflexivity|].
  split; vm_compute; reflexivity.
Qed.

(* C08 for the label-map carrying estimators: DualVigilanceART and
   SimpleARTMAP predict row by row (so batching, permutation and repetition
   cannot matter), each row receives the map image of the base module's
   oldest arg-max category, and no prediction lies outside the trained range. *)
From Coq Require Import List Bool Arith Lia.
From ART Require Import Num Vec Search Search_proofs Kernel BaseArt BaseArt_proofs BaseArt_hist
     SimpleARTMAP SimpleARTMAP_proofs DualVig DualVig_proofs.
Import ListNotations.

Section WP.
  Context {N : Num}.
  Variable K : Kernel N.

  (* ---- DualVigilanceART ---- *)
  Theorem dv_step_pred_is_map_of_argmax (s : dv (N:=N)) x l :
    dv_step_pred K s x = Some l ->
    exists c, step_pred K (DB s) x = Some c /\ lookup (dmap s) c = Some l.
  Proof.
    unfold dv_step_pred. destruct (step_pred K (DB s) x) as [c|]; cbn [obind]; [|discriminate]. intros H. eauto.
  Qed.
  Theorem dv_step_pred_in_range (s : dv (N:=N)) x l :
    DInv s -> W (DB s) <> [] -> dv_step_pred K s x = Some l -> l < dv_n_clusters s.
  Proof.
    intros HI HW H. destruct (dv_step_pred_is_map_of_argmax s x l H) as (c & _ & Hl).
    destruct (dv_values_contiguous s HI HW) as (_ & Hr). apply Hr. eapply lookup_in; eauto.
  Qed.
  Theorem dv_predict_rowwise (s : dv (N:=N)) X ys i x :
    dv_predict K s X = Some ys -> nth_error X i = Some x ->
    exists l, nth_error ys i = Some l /\ dv_step_pred K s x = Some l.
  Proof.
    unfold dv_predict. destruct (hasW (DB s) && valid K (DB s) X); [|discriminate]. intros H Hx.
    eapply omap_nth; eauto.
  Qed.
  Theorem dv_predict_app (s : dv (N:=N)) X1 X2 y1 y2 :
    omap (dv_step_pred K s) X1 = Some y1 -> omap (dv_step_pred K s) X2 = Some y2 ->
    omap (dv_step_pred K s) (X1 ++ X2) = Some (y1 ++ y2).
  Proof. intros H1 H2. rewrite omap_app, H1. cbn [obind]. rewrite H2. reflexivity. Qed.

  (* ---- SimpleARTMAP ---- *)
  Theorem sam_step_pred_is_map_of_argmax (s : sam (N:=N)) x ca cb :
    sam_step_pred K s x = Some (ca, cb) -> step_pred K (A s) x = Some ca /\ lookup (mp s) ca = Some cb.
  Proof.
    unfold sam_step_pred. destruct (step_pred K (A s) x) as [c|]; cbn [obind]; [|discriminate].
    destruct (lookup (mp s) c) as [b|] eqn:E; cbn [obind]; [|discriminate]. intros H; inversion H; subst. auto.
  Qed.
  Theorem sam_predict_rowwise (s : sam (N:=N)) X ys i x :
    sam_predict_ab K s X = Some ys -> nth_error X i = Some x ->
    exists p, nth_error ys i = Some p /\ sam_step_pred K s x = Some p.
  Proof.
    unfold sam_predict_ab. destruct (hasL s); [|discriminate]. intros H Hx. eapply omap_nth; eauto.
  Qed.
End WP.

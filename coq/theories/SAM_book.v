(* C05 for the A side of SimpleARTMAP / ARTMAP: the book-keeping invariant of
   BaseART (counters parallel to the weights, labels a restricted-growth
   sequence ending at the category count, counters = label histogram, sample
   counter = number of labels) is established by a one-epoch fit and
   preserved by partial_fit, whatever the targets veto. *)
From Coq Require Import List Bool Arith Lia.
From ART Require Import Num Vec Search Search_proofs Kernel BaseArt BaseArt_proofs BaseArt_book BaseArt_hist
     SimpleARTMAP SimpleARTMAP_proofs SAM_hist.
Import ListNotations.

Section SB.
  Context {N : Num}.
  Variable K : Kernel N.
  Notation sam := (@sam N).

  Lemma sam_step_book (s s1 : sam) x cb m eps ca L : Book (A s) L ->
    sam_step K s x cb m eps = Some (s1, ca) ->
    Book (A s1) (L ++ [ca]) /\ sc (A s1) = S (sc (A s)) /\ labels (A s1) = labels (A s).
  Proof.
    intros HB H. unfold sam_step in H.
    destruct (step_fit K (A s) x _ m eps) as [[[a1 c1] v1]|] eqn:EF; cbn [obind] in H; [|discriminate].
    pose proof (book_step K _ _ _ _ _ _ _ _ _ HB EF) as HB1.
    destruct (step_fit_frame K _ _ _ _ _ _ _ _ EF) as (_ & Hsc & Hl & _).
    destruct (lookup (mp s) c1) as [b|]; [destruct (Nat.eqb b cb); [|discriminate]|]; inversion H; subst; cbn [A]; auto.
  Qed.

  Lemma book_labels (a : st (N:=N)) l L : Book a L -> Book (set_labels a l) L.
  Proof. unfold Book. cbn. auto. Qed.

  Lemma sam_loop_book X : forall y (s s' : sam) i j m eps L, length X = length y ->
    Book (A s) L -> i + j + length X <= length (labels (A s)) ->
    sam_loop K s X y i j m eps = Some s' ->
    exists cs, length cs = length X /\ Book (A s') (L ++ cs) /\ sc (A s') = sc (A s) + length X /\
               labels (A s') = splice (labels (A s)) (i + j) cs.
  Proof.
    induction X as [|x X IH]; intros [|c y] s s' i j m eps L HL HB Hlen H; cbn in HL; try discriminate; cbn [sam_loop] in H.
    - inversion H; subst. exists []. rewrite app_nil_r. split; [reflexivity|]. split; [exact HB|]. split; [cbn; lia|].
      unfold splice. cbn [length app]. rewrite Nat.add_0_r, firstn_skipn. reflexivity.
    - destruct (sam_step K s x c m eps) as [[s1 ca]|] eqn:E1; cbn [obind] in H; [|discriminate].
      destruct (sam_step_book _ _ _ _ _ _ _ _ HB E1) as (HB1 & Hsc1 & Hl1).
      cbn [length] in Hlen.
      set (s1' := set_A s1 (set_labels (A s1) (set_nth (i + j) ca (labels (A s1))))) in *.
      assert (HBs : Book (A s1') (L ++ [ca])) by (unfold s1'; cbn [set_A A]; apply book_labels; exact HB1).
      assert (Hls : S i + j + length X <= length (labels (A s1'))).
      { unfold s1'. cbn [set_A A set_labels labels]. rewrite set_nth_length, Hl1. lia. }
      assert (HLy : length X = length y) by lia.
      destruct (IH y s1' s' (S i) j m eps (L ++ [ca]) HLy HBs Hls H) as (cs & Lcs & HB2 & Hsc2 & Hlab).
      unfold s1' in *.
      exists (ca :: cs). cbn [set_A A set_labels labels sc length] in *. rewrite <- app_assoc in HB2. cbn [app] in HB2.
      split; [lia|]. split; [exact HB2|]. split; [lia|].
      rewrite Hlab, Hl1. rewrite set_nth_splice by lia. cbn [plus]. apply splice_splice. lia.
  Qed.

  Theorem sam_partial_fit_inv (s s' : sam) X y m eps :
    Inv (A s) -> counted s -> hasW (A s) = hasL s ->
    sam_partial_fit K s X y m eps = Some s' -> Inv (A s') /\ counted s' /\ hasW (A s') = hasL s'.
  Proof.
    intros (HB & Hsc & H0) Hc Hsync P.
    pose proof (sam_partial_fit_counted K s s' X y m eps Hc P) as (Hh' & Hl').
    assert (Hfresh : hasL s = false -> hasW (A s) = false) by (intros E; rewrite Hsync; exact E).
    split; [|split; [right; split; assumption|]].
    2:{ unfold sam_partial_fit in P. destruct (sam_valid K s X y); [|discriminate].
        destruct (learn_dim_tr (A s) X) as (_ & _ & Eh).
        destruct (hasL s) eqn:EhL.
        - destruct (sam_loop_frame K _ _ _ _ _ _ _ _ P) as (_ & _ & _ & Hw' & _). cbn in Hw'. congruence.
        - destruct (sam_loop_frame K _ _ _ _ _ _ _ _ P) as (_ & _ & _ & Hw' & _). cbn in Hw'. congruence. }
    unfold sam_partial_fit in P.
    destruct (sam_valid K s X y) eqn:V; [|discriminate].
    unfold sam_valid in V. apply andb_prop in V as [V _]. apply andb_prop in V as [Va _]. apply Nat.eqb_eq in Va.
    destruct (learn_dim_tr (A s) X) as (Et & El & Eh).
    destruct Hc as [Hc|[Hc Hl]]; rewrite Hc in P.
    - (* first call: nothing stored yet *)
      destruct (H0 (Hfresh Hc)) as (EW & Ews & ELb).
      set (S0 := {| A := {| W := []; labels := repeat 0 (length X); wsc := wsc (learn_dim (A s) X); sc := sc (learn_dim (A s) X);
                          rho := rho (learn_dim (A s) X); hasW := true; dim := dim (learn_dim (A s) X) |};
                    mp := mp s; bl := y; hasL := true |}) in *.
      assert (HB0 : Book (A S0) []).
      { unfold Book, S0. cbn [A W wsc]. unfold tr in Et. injection Et as E1 E2 E3 E4. rewrite E2, Ews. cbn. repeat split. intros c Hc0. lia. }
      destruct (sam_loop_book X y S0 s' 0 0 m eps [] Va HB0 ltac:(cbn [S0 A labels]; rewrite repeat_length; lia) P) as (cs & Lcs & HB' & Hsc' & Hlab).
      cbn [S0 A labels sc plus app] in *. rewrite splice0 in Hlab by exact Lcs.
      destruct (sam_loop_frame K _ _ _ _ _ _ _ _ P) as (_ & _ & _ & Hw' & _). cbn [S0 A hasW] in Hw'.
      unfold Inv. rewrite Hlab. split; [exact HB'|]. split.
      + unfold tr in Et. injection Et as E1 E2 E3 E4. rewrite Hsc', E3, Hsc, ELb. cbn. lia.
      + intros Hf. congruence.
    - set (a0 := learn_dim (A s) X) in *.
      set (S0 := {| A := set_labels a0 (labels a0 ++ repeat 0 (length X)); mp := mp s; bl := bl s ++ y; hasL := true |}) in *.
      assert (HB0 : Book (A S0) (labels (A s))).
      { unfold S0. cbn [A]. apply book_labels. unfold Book in *. unfold tr in Et. injection Et as E1 E2 E3 E4. rewrite E1, E2. exact HB. }
      destruct (sam_loop_book X y S0 s' 0 (length (bl s)) m eps (labels (A s)) Va HB0
                  ltac:(cbn [S0 A set_labels labels]; rewrite app_length, repeat_length, El; lia) P) as (cs & Lcs & HB' & Hsc' & Hlab).
      cbn [S0 A set_labels labels sc plus] in *. rewrite El, <- Hl in Hlab. rewrite splice_end in Hlab by exact Lcs.
      destruct (sam_loop_frame K _ _ _ _ _ _ _ _ P) as (_ & _ & _ & Hw' & _). cbn [S0 A set_labels hasW] in Hw'.
      unfold Inv. rewrite Hlab. split; [exact HB'|]. split.
      + unfold tr in Et. injection Et as E1 E2 E3 E4. rewrite Hsc', app_length, E3, Hsc, Lcs. reflexivity.
      + intros Hf. exfalso. rewrite Hw', Eh, Hsync, Hc in Hf. discriminate.
  Qed.
  Theorem sam_fit_inv (s s' : sam) X y m eps :
    sam_fit K s X y 1 m eps = Some s' -> Inv (A s') /\ counted s' /\ hasW (A s') = hasL s'.
  Proof.
    intros P. unfold sam_fit in P. destruct (sam_valid K s X y) eqn:V; [|discriminate].
    unfold sam_valid in V. apply andb_prop in V as [V _]. apply andb_prop in V as [Va _]. apply Nat.eqb_eq in Va.
    cbn [sam_epochs] in P.
    match type of P with obind ?e _ = _ => destruct e as [s1|] eqn:E end; cbn [obind] in P; [|discriminate].
    inversion P; subst s1. clear P.
    match type of E with sam_loop K ?S _ _ _ _ _ _ = _ => set (S0 := S) in * end.
    assert (HB0 : Book (A S0) []).
    { unfold Book, S0. cbn [A W wsc]. cbn. repeat split. intros c Hc0. lia. }
    destruct (sam_loop_book X y S0 s' 0 0 m eps [] Va HB0 ltac:(cbn [S0 A labels]; rewrite repeat_length; lia) E) as (cs & Lcs & HB' & Hsc' & Hlab).
    cbn [S0 A labels sc plus app] in *. rewrite splice0 in Hlab by exact Lcs.
    destruct (sam_loop_frame K _ _ _ _ _ _ _ _ E) as (Hbl & HhL & _ & Hw' & Hll). cbn [S0 A hasW bl hasL labels] in Hw', Hbl, HhL, Hll.
    split; [|split].
    - unfold Inv. rewrite Hlab. split; [exact HB'|]. split; [lia|]. intros Hf. congruence.
    - right. split; [exact HhL|]. rewrite Hll, Hbl, repeat_length. exact Va.
    - congruence.
  Qed.
End SB.

(* C06 for the layer chain of DeepARTMAP / SMART: two consecutive partial_fit
   calls of the whole chain equal one call on the concatenated batches (layer
   i+1 is supervised by the last n A-side labels of layer i, and those are
   exactly the labels the concatenated call hands down). *)
From Coq Require Import List Bool Arith Lia.
From ART Require Import Num Vec Search Search_proofs Kernel BaseArt BaseArt_proofs BaseArt_book BaseArt_hist
     SimpleARTMAP SimpleARTMAP_proofs SAM_hist Deep.
Import ListNotations.

Lemma firstn_set_nth {A} k (a : A) : forall l, firstn k (set_nth k a l) = firstn k l.
Proof. induction k as [|k IH]; intros [|b l]; cbn; try reflexivity. f_equal. apply IH. Qed.
Lemma firstn_S_firstn {A} k (l l' : list A) : firstn (S k) l = firstn (S k) l' -> firstn k l = firstn k l'.
Proof.
  intros H. assert (G : forall u : list A, firstn k u = firstn k (firstn (S k) u)).
  { intros u. rewrite firstn_firstn. f_equal. lia. }
  rewrite (G l), (G l'), H. reflexivity.
Qed.
Lemma lastn_app {A} (P c : list A) n : length c = n -> lastn n (P ++ c) = c.
Proof.
  intros H. unfold lastn. rewrite app_length, H. replace (length P + n - n) with (length P) by lia.
  rewrite skipn_app, skipn_all, Nat.sub_diag. reflexivity.
Qed.

Section DH.
  Context {N : Num}.
  Notation sam := (@sam N).

  Lemma sam_loop_prefix K X : forall y (s s' : sam) i j m eps, sam_loop K s X y i j m eps = Some s' ->
    firstn (i + j) (labels (A s')) = firstn (i + j) (labels (A s)).
  Proof.
    induction X as [|x X IH]; intros [|c y] s s' i j m eps H; cbn [sam_loop] in H; try (inversion H; subst; reflexivity).
    destruct (sam_step K s x c m eps) as [[s1 ca]|] eqn:E1; cbn [obind] in H; [|discriminate].
    destruct (sam_step_frame K _ _ _ _ _ _ _ E1) as (_ & _ & _ & _ & L1).
    specialize (IH _ _ _ _ _ _ _ H). cbn [set_A A set_labels labels] in IH.
    change (S i + j) with (S (i + j)) in IH. apply firstn_S_firstn in IH. rewrite IH, firstn_set_nth, L1. reflexivity.
  Qed.

  (* partial_fit only appends to the A-side labels *)
  Lemma sam_partial_fit_appends K (s s1 : sam) X y m eps : counted s ->
    sam_partial_fit K s X y m eps = Some s1 ->
    exists cs, length cs = length X /\
      labels (A s1) = (if hasL s then labels (A s) else []) ++ cs.
  Proof.
    intros Hc P. unfold sam_partial_fit in P. destruct (sam_valid K s X y); [|discriminate].
    destruct (learn_dim_tr (A s) X) as (_ & El & _).
    destruct Hc as [Hc|[Hc Hl]]; rewrite Hc in *.
    - destruct (sam_loop_frame K _ _ _ _ _ _ _ _ P) as (_ & _ & _ & _ & L1). cbn in L1. rewrite repeat_length in L1.
      exists (labels (A s1)). split; [exact L1|reflexivity].
    - pose proof (sam_loop_prefix K _ _ _ _ _ _ _ _ P) as Pf. cbn [A set_labels labels plus] in Pf.
      destruct (sam_loop_frame K _ _ _ _ _ _ _ _ P) as (_ & _ & _ & _ & L1). cbn [A set_labels labels] in L1.
      rewrite app_length, repeat_length, El in L1.
      rewrite <- Hl in Pf. rewrite El in Pf. rewrite firstn_app, firstn_all, Nat.sub_diag in Pf. cbn [firstn] in Pf. rewrite app_nil_r in Pf.
      exists (skipn (length (labels (A s))) (labels (A s1))). split.
      + rewrite skipn_length. lia.
      + rewrite <- Pf at 1. symmetry. apply firstn_skipn.
  Qed.

  Definition zipapp (Xs1 Xs2 : list (list (list N))) : list (list (list N)) :=
    map (fun p => fst p ++ snd p) (combine Xs1 Xs2).

  Theorem chain_partial_fit_app : forall (Ks : list (Kernel N)) (ls ls1 ls2 : list sam) Xs1 Xs2 y1 y2 n1 n2 m eps,
    Forall counted ls ->
    Forall (fun X => length X = n1) Xs1 -> Forall (fun X => length X = n2) Xs2 ->
    chain_partial_fit Ks ls Xs1 y1 n1 m eps = Some ls1 ->
    chain_partial_fit Ks ls1 Xs2 y2 n2 m eps = Some ls2 ->
    chain_partial_fit Ks ls (zipapp Xs1 Xs2) (y1 ++ y2) (n1 + n2) m eps = Some ls2.
  Proof.
    induction Ks as [|K Ks IH]; intros ls ls1 ls2 Xs1 Xs2 y1 y2 n1 n2 m eps Hc H1 H2 P1 P2.
    - destruct ls, Xs1; cbn in P1; try discriminate. inversion P1; subst ls1.
      destruct Xs2; cbn in P2; try discriminate. inversion P2; subst. reflexivity.
    - destruct ls as [|l ls], Xs1 as [|X1 Xs1]; cbn [chain_partial_fit] in P1; try discriminate.
      destruct (sam_partial_fit K l X1 y1 m eps) as [l1|] eqn:E1; cbn [obind] in P1; [|discriminate].
      destruct (chain_partial_fit Ks ls Xs1 (lastn n1 (labels (A l1))) n1 m eps) as [rest1|] eqn:R1; cbn [obind] in P1; [|discriminate].
      inversion P1; subst ls1. clear P1.
      destruct Xs2 as [|X2 Xs2]; cbn [chain_partial_fit] in P2; try discriminate.
      destruct (sam_partial_fit K l1 X2 y2 m eps) as [l2|] eqn:E2; cbn [obind] in P2; [|discriminate].
      destruct (chain_partial_fit Ks rest1 Xs2 (lastn n2 (labels (A l2))) n2 m eps) as [rest2|] eqn:R2; cbn [obind] in P2; [|discriminate].
      inversion P2; subst ls2. clear P2.
      inversion Hc as [|? ? Hcl Hcls]; subst. inversion H1 as [|? ? HX1 HXs1]; subst. inversion H2 as [|? ? HX2 HXs2]; subst.
      cbn [zipapp combine map fst snd chain_partial_fit]. fold (zipapp Xs1 Xs2).
      assert (E12 : sam_partial_fit K l (X1 ++ X2) (y1 ++ y2) m eps = Some l2).
      { destruct Hcl as [Hf|[Ht Hl]]; [eapply sam_partial_fit_app_first; eauto|eapply sam_partial_fit_app; eauto]. }
      rewrite E12. cbn [obind].
      (* the labels handed down *)
      destruct (sam_partial_fit_appends K l l1 X1 y1 m eps Hcl E1) as (c1 & Lc1 & La1).
      destruct (sam_partial_fit_counted K l l1 X1 y1 m eps Hcl E1) as (Hh1 & Hl1).
      destruct (sam_partial_fit_appends K l1 l2 X2 y2 m eps (or_intror (conj Hh1 Hl1)) E2) as (c2 & Lc2 & La2).
      rewrite Hh1 in La2.
      assert (EL : lastn (length X1 + length X2) (labels (A l2)) = lastn (length X1) (labels (A l1)) ++ lastn (length X2) (labels (A l2))).
      { rewrite La2, La1. rewrite (lastn_app _ c1 (length X1) Lc1). rewrite (lastn_app _ c2 (length X2) Lc2).
        rewrite <- app_assoc. apply lastn_app. rewrite app_length. lia. }
      rewrite EL. rewrite (IH ls rest1 rest2 Xs1 Xs2 _ _ (length X1) (length X2) m eps Hcls HXs1 HXs2 R1 R2). reflexivity.
  Qed.
  (* ---- ARTMAP: the B side clusters the targets, the A side is a SimpleARTMAP on the B labels of the batch ---- *)
  Lemma steps_length (K : Kernel N) X : forall (s s' : st (N:=N)) i veto m eps cs ls,
    steps K s X i veto m eps = Some (s', cs, ls) -> length cs = length X.
  Proof.
    induction X as [|x X IH]; intros s s' i veto m eps cs ls H; cbn [steps] in H.
    - inversion H; reflexivity.
    - destruct (step_fit K s x (veto i) m eps) as [[[s1 c] l]|]; cbn [obind] in H; [|discriminate].
      destruct (steps K s1 X (S i) veto m eps) as [[[s2 cs2] ls2]|] eqn:E; cbn [obind] in H; [|discriminate].
      inversion H; subst. cbn. f_equal. eapply IH; eauto.
  Qed.

  Lemma partial_fit_appends (K : Kernel N) (s s' : st (N:=N)) X veto m eps ls : (hasW s = false -> W s = []) ->
    partial_fit K s X veto m eps = Some (s', ls) ->
    exists cs, length cs = length X /\ labels s' = base_labels s ++ cs /\ hasW s' = true.
  Proof.
    intros HW0 P. pose proof (partial_fit_char K s X veto m eps HW0) as C. rewrite P in C.
    destruct C as (_ & s2 & cs & S & _ & L & H & _). exists cs. split; [eapply steps_length; eauto|auto].
  Qed.

  Theorem artmap_partial_fit_app (KA KB : Kernel N) (s s1 s2 : artmap (N:=N)) X1 Y1 X2 Y2 m eps :
    counted (SA s) -> (hasW (SB s) = false -> W (SB s) = []) ->
    length X1 = length Y1 -> length X2 = length Y2 -> Y1 <> [] ->
    artmap_partial_fit KA KB s X1 Y1 m eps = Some s1 ->
    artmap_partial_fit KA KB s1 X2 Y2 m eps = Some s2 ->
    artmap_partial_fit KA KB s (X1 ++ X2) (Y1 ++ Y2) m eps = Some s2.
  Proof.
    intros Hc HW0 L1 L2 Hne P1 P2.
    unfold artmap_partial_fit in P1. destruct (valid KA (A (SA s)) X1 && valid KB (SB s) Y1); [|discriminate].
    destruct (partial_fit KB (SB s) Y1 (fun _ => None) m eps) as [[b1 l1]|] eqn:B1; cbn [obind fst] in P1; [|discriminate].
    destruct (sam_partial_fit KA (SA s) X1 (lastn (length X1) (labels b1)) m eps) as [a1|] eqn:A1; cbn [obind] in P1; [|discriminate].
    inversion P1; subst s1. clear P1. cbn [SA SB] in P2.
    unfold artmap_partial_fit in P2. cbn [SA SB] in P2.
    destruct (valid KA (A a1) X2 && valid KB b1 Y2); [|discriminate].
    destruct (partial_fit KB b1 Y2 (fun _ => None) m eps) as [[b2 l2]|] eqn:B2; cbn [obind fst] in P2; [|discriminate].
    destruct (sam_partial_fit KA a1 X2 (lastn (length X2) (labels b2)) m eps) as [a2|] eqn:A2; cbn [obind] in P2; [|discriminate].
    inversion P2; subst s2. clear P2.
    (* B side *)
    pose proof (partial_fit_app KB (SB s) Y1 Y2 (fun _ => None) (fun _ => None) m eps b1 l1 b2 l2 HW0 Hne ltac:(reflexivity) B1 B2) as B12.
    destruct (partial_fit_appends KB _ _ _ _ _ _ _ HW0 B1) as (c1 & Lc1 & Lb1 & Hb1).
    destruct (partial_fit_appends KB _ _ _ _ _ _ _ ltac:(rewrite Hb1; discriminate) B2) as (c2 & Lc2 & Lb2 & Hb2).
    unfold base_labels in Lb2. rewrite Hb1 in Lb2.
    (* the targets handed to the A side *)
    assert (EY : lastn (length (X1 ++ X2)) (labels b2) = lastn (length X1) (labels b1) ++ lastn (length X2) (labels b2)).
    { rewrite app_length, Lb2, Lb1, L1, L2.
      rewrite (lastn_app _ c1 (length Y1) Lc1), (lastn_app _ c2 (length Y2) Lc2).
      rewrite <- app_assoc. apply lastn_app. rewrite app_length. lia. }
    (* A side *)
    assert (A12 : sam_partial_fit KA (SA s) (X1 ++ X2) (lastn (length (X1 ++ X2)) (labels b2)) m eps = Some a2).
    { rewrite EY. destruct Hc as [Hf|[Ht Hl]]; [eapply sam_partial_fit_app_first; eauto|eapply sam_partial_fit_app; eauto]. }
    unfold artmap_partial_fit.
    assert (VA : valid KA (A (SA s)) (X1 ++ X2) = true).
    { unfold sam_partial_fit in A12. destruct (sam_valid KA (SA s) (X1 ++ X2) _) eqn:V; [|discriminate].
      unfold sam_valid in V. apply andb_prop in V as [_ V]. exact V. }
    assert (VB : valid KB (SB s) (Y1 ++ Y2) = true).
    { unfold partial_fit in B12. destruct (valid KB (SB s) (Y1 ++ Y2)); [reflexivity|discriminate]. }
    rewrite VA, VB. cbn [andb]. rewrite B12. cbn [obind fst]. rewrite A12. cbn [obind]. reflexivity.
  Qed.
  (* ---- a fresh chain: a one-epoch fit is the partial_fit of the whole batch ---- *)
  Lemma lastn_all {A} (l : list A) n : length l = n -> lastn n l = l.
  Proof. intros H. unfold lastn. rewrite H, Nat.sub_diag. reflexivity. Qed.

  Theorem chain_fit_eq_partial_fit_fresh : forall (Ks : list (Kernel N)) (rs : list (list N)) Xs y n m eps,
    Forall (fun X => length X = n) Xs ->
    chain_fit Ks (map sam_init rs) Xs y 1 m eps = chain_partial_fit Ks (map sam_init rs) Xs y n m eps.
  Proof.
    induction Ks as [|K Ks IH]; intros rs Xs y n m eps HX.
    - destruct rs, Xs; reflexivity.
    - destruct rs as [|r rs], Xs as [|X Xs]; cbn [map chain_fit chain_partial_fit]; try reflexivity.
      inversion HX as [|? ? HXn HXs]; subst.
      change (rewrap (sam_init r)) with (@sam_init N r).
      rewrite sam_fit_eq_partial_fit_fresh.
      destruct (sam_partial_fit K (sam_init r) X y m eps) as [l'|] eqn:E; cbn [obind]; [|reflexivity].
      destruct (sam_partial_fit_appends K (sam_init r) l' X y m eps (or_introl eq_refl) E) as (cs & Lcs & La).
      cbn [sam_init hasL app] in La.
      rewrite (lastn_all (labels (A l')) (length X)) by (rewrite La; exact Lcs).
      rewrite (IH rs Xs (labels (A l')) (length X) m eps HXs). reflexivity.
  Qed.
  Lemma zipapp_lengths (Xs1 : list (list (list N))) n1 n2 : forall Xs2,
    Forall (fun X => length X = n1) Xs1 -> Forall (fun X => length X = n2) Xs2 ->
    Forall (fun X => length X = n1 + n2) (zipapp Xs1 Xs2).
  Proof.
    induction Xs1 as [|X1 Xs1 IH]; intros [|X2 Xs2] H1 H2; cbn; try constructor.
    - inversion H1; inversion H2; subst. rewrite app_length. reflexivity.
    - inversion H1; inversion H2; subst. apply IH; assumption.
  Qed.

  (* a fresh DeepARTMAP / SMART chain trained in two batches = one-epoch fit on the concatenation *)
  Corollary chain_two_batches_eq_fit (Ks : list (Kernel N)) rs (ls1 ls2 : list sam) Xs1 Xs2 y1 y2 n1 n2 m eps :
    Forall (fun X => length X = n1) Xs1 -> Forall (fun X => length X = n2) Xs2 ->
    chain_partial_fit Ks (map sam_init rs) Xs1 y1 n1 m eps = Some ls1 ->
    chain_partial_fit Ks ls1 Xs2 y2 n2 m eps = Some ls2 ->
    chain_fit Ks (map sam_init rs) (zipapp Xs1 Xs2) (y1 ++ y2) 1 m eps = Some ls2.
  Proof.
    intros H1 H2 P1 P2.
    rewrite (chain_fit_eq_partial_fit_fresh Ks rs (zipapp Xs1 Xs2) (y1 ++ y2) (n1 + n2) m eps (zipapp_lengths Xs1 n1 n2 Xs2 H1 H2)).
    eapply chain_partial_fit_app; eauto.
    apply Forall_forall. intros l Hl. apply in_map_iff in Hl as [r [<- _]]. left. reflexivity.
  Qed.
End DH.

(* C04 for a compound estimator: TopoART's fit is defined on every data set
   whenever the base module's kernel functions are (two-winner search, both
   updates, new categories, every pruning round incl. the re-prediction of
   orphaned samples); instantiated for Fuzzy ART with alpha > 0. *)
From Coq Require Import List Bool Arith ZArith Reals Lra Lia.
From ART Require Import Num NumR Vec Search Search_proofs Kernel BaseArt BaseArt_proofs Total Total_R Total_fit
     DualVig Topo Topo_proofs Fuzzy.
Import ListNotations.
Local Open Scope nat_scope.

Section TT.
  Context {N : Num}.
  Variables (K Klow : Kernel N).
  Hypothesis nleb_total : forall a b : N, nleb a b = true \/ nleb b a = true.
  Hypothesis nleb_trans : forall a b c : N, nleb a b = true -> nleb b c = true -> nleb a c = true.
  Variable P : list N -> Prop.                      (* what validation guarantees of a row *)
  Hypothesis choice_total : forall Wl x w, P x -> k_choice K Wl x w <> None.
  Hypothesis match_total : forall x w, P x -> all_some (k_match K x w) = true.
  Hypothesis update_total : forall x w, k_update K x w <> None.
  Hypothesis update_low_total : forall x w, k_update Klow x w <> None.
  Hypothesis new_total : forall x, k_new K x <> None.

  (* every category the two-winner search touches is an index of the activation vector *)
  Lemma tsearch_range Ms mode eps veto n : forall fuel v T res r1 r2 v' l,
    length T = n -> (forall r, res = Some r -> r < n) ->
    tsearch K Ms mode eps veto fuel v T res = (r1, r2, v', l) ->
    (forall r, r1 = Some r -> r < n) /\ (forall r, r2 = Some r -> r < n) /\ (forall e, In e l -> fst e < n).
  Proof.
    induction fuel as [|f IH]; intros v T res r1 r2 v' l HT Hres H; cbn [tsearch] in H.
    - injection H as <- <- <- <-. repeat split; auto; try discriminate. intros e [].
    - pose proof (nanargmax_spec N nleb nleb_total nleb_trans T) as S.
      destruct (nanargmax nleb T) as [c|].
      2:{ injection H as <- <- <- <-. repeat split; auto; try discriminate. intros e []. }
      destruct S as [a (Hc & _)]. assert (Hcn : c < n) by (rewrite <- HT; eapply nth_error_lt; eauto).
      assert (HT' : length (set_nan c T) = n) by (rewrite set_nan_length; exact HT).
      destruct (mbin Ms mode (k_inv K) v c && veto c).
      + destruct res as [r|].
        * injection H as <- <- <- <-. repeat split; auto.
          -- intros r0 E; assert (c = r0) by congruence; lia.
          -- intros e [<-|[]]. exact Hcn.
        * destruct (tsearch K Ms mode eps veto f v (set_nan c T) (Some c)) as [[[a1 a2] a3] a4] eqn:ET.
          assert (Hsc : forall r0 : nat, Some c = Some r0 -> r0 < n) by (intros r0 E; assert (c = r0) by congruence; lia).
          injection H as <- <- <- <-. destruct (IH _ _ _ _ _ _ _ HT' Hsc ET) as (I1 & I2 & I3).
          repeat split; auto. intros e [<-|He]; [exact Hcn|auto].
      + destruct (veto c).
        * destruct (tsearch K Ms mode eps veto f v (set_nan c T) res) as [[[a1 a2] a3] a4] eqn:ET.
          injection H as <- <- <- <-. destruct (IH _ _ _ _ _ _ _ HT' Hres ET) as (I1 & I2 & I3).
          repeat split; auto. intros e [<-|He]; [exact Hcn|auto].
        * destruct (mbin Ms mode (k_inv K) v c).
          -- destruct (dv_track Ms mode eps v c) as [v1 keep]. destruct keep.
             ++ destruct (tsearch K Ms mode eps veto f v1 (set_nan c T) res) as [[[a1 a2] a3] a4] eqn:ET.
                injection H as <- <- <- <-. destruct (IH _ _ _ _ _ _ _ HT' Hres ET) as (I1 & I2 & I3).
                repeat split; auto. intros e [<-|He]; [exact Hcn|auto].
             ++ injection H as <- <- <- <-. repeat split; auto; try discriminate. intros e [<-|[]]. exact Hcn.
          -- destruct (tsearch K Ms mode eps veto f v (set_nan c T) res) as [[[a1 a2] a3] a4] eqn:ET.
             injection H as <- <- <- <-. destruct (IH _ _ _ _ _ _ _ HT' Hres ET) as (I1 & I2 & I3).
             repeat split; auto. intros e [<-|He]; [exact Hcn|auto].
  Qed.

  Lemma omap_some {A B} (f : A -> option B) (l : list A) : (forall a, In a l -> f a <> None) -> omap f l <> None.
  Proof. intros H. destruct (omap_defined f l H) as [r [E _]]. congruence. Qed.

  Lemma log_defined (Ms : list (list (option N))) log :
    (forall e, In e log -> fst e < length Ms) -> Forall (fun Mc => all_some Mc = true) Ms -> log_undef Ms log = false.
  Proof.
    intros Hl HM. unfold log_undef. apply not_true_is_false. intros E. apply existsb_exists in E as [e [He E]].
    destruct (nth_error Ms (fst e)) as [Mc|] eqn:En.
    - rewrite Forall_forall in HM. specialize (HM Mc (nth_error_In _ _ En)).
      apply existsb_exists in E as [o [Ho Eo]]. unfold all_some in HM. rewrite forallb_forall in HM. specialize (HM o Ho).
      destruct o; discriminate.
    - apply nth_error_None in En. specialize (Hl e He). lia.
  Qed.

  Theorem topo_step_defined (s : topo (N:=N)) x veto mode eps : P x -> topo_step K Klow s x veto mode eps <> None.
  Proof.
    intros Hx. unfold topo_step. cbn [bump W rho].
    destruct (W (TB s)) as [|w0 Ws] eqn:EW.
    - destruct (k_new K x) eqn:E; cbn [obind]; [discriminate|exfalso; eapply new_total; eauto].
    - set (Wl := w0 :: Ws).
      destruct (omap (k_choice K Wl x) Wl) as [Ts|] eqn:ET; cbn [obind].
      2:{ exfalso. eapply (omap_some (k_choice K Wl x) Wl); [|exact ET]. intros w _. apply choice_total. exact Hx. }
      assert (LT : length Ts = length Wl).
      { destruct (omap_defined (k_choice K Wl x) Wl) as [r [Er Lr]]; [intros w _; apply choice_total; exact Hx|].
        assert (Some r = Some Ts) by (transitivity (omap (k_choice K Wl x) Wl); [symmetry; exact Er|exact ET]).
        assert (r = Ts) by congruence. subst r. exact Lr. }
      match goal with |- context [tsearch K ?Ms mode eps ?vf ?n ?v0 ?T None] =>
        destruct (tsearch K Ms mode eps vf n v0 T None) as [[[r1 r2] v'] log] eqn:ES;
        pose proof (tsearch_range Ms mode eps vf (length Wl) n v0 T None r1 r2 v' log
                      ltac:(rewrite map_length; exact LT) ltac:(intros r E; discriminate) ES) as (R1 & R2 & RL) end.
      rewrite log_defined.
      2:{ rewrite map_length. exact RL. }
      2:{ apply Forall_forall. intros Mc HMc. apply in_map_iff in HMc as [w [<- _]]. apply match_total. exact Hx. }
      destruct r1 as [c1|].
      + specialize (R1 c1 eq_refl). destruct (nth_error Wl c1) as [w1|] eqn:E1; [|apply nth_error_None in E1; lia].
        cbn [obind]. match goal with |- obind ?e _ <> None => destruct e as [w1'|] eqn:U1 end; [|exfalso; eapply update_total; eauto]. cbn [obind].
        destruct r2 as [c2|]; [|discriminate].
        specialize (R2 c2 eq_refl). cbn [set_weight W bump]. rewrite EW. fold Wl.
        match goal with |- obind ?e _ <> None => destruct e as [w2|] eqn:E2 end.
        2:{ exfalso. apply nth_error_None in E2. pose proof (set_nth_length c1 w1' Wl) as L2. unfold wt in *. lia. }
        cbn [obind]. match goal with |- obind ?e _ <> None => destruct e as [w2'|] eqn:U2 end; [|exfalso; eapply update_low_total; eauto].
        cbn [obind]. discriminate.
      + destruct (k_new K x) eqn:E; cbn [obind]; [discriminate|exfalso; eapply new_total; eauto].
  Qed.

  Lemma prune_defined phi (s : topo (N:=N)) X : Forall P X -> prune K phi s X <> None.
  Proof.
    intros HX. unfold prune.
    match goal with |- obind ?e _ <> None => destruct e as [labs|] eqn:E end; cbn [obind]; [discriminate|].
    exfalso. revert E. apply omap_some. intros [l x] Hin.
    assert (Hx : P x) by (rewrite Forall_forall in HX; apply HX; apply in_combine_r in Hin; exact Hin).
    destruct (if (l <? 0)%Z then None else new_index (map _ _) (Z.to_nat l)); [discriminate|].
    match goal with |- match ?W' with [] => _ | _ => _ end <> None => destruct W' as [|w1 W1] eqn:EW' end; [discriminate|].
    unfold step_pred. cbn [W].
    destruct (omap_defined (k_choice K (w1 :: W1) x) (w1 :: W1)) as [Ts [ET LT]]; [intros w _; apply choice_total; exact Hx|].
    rewrite ET. cbn [obind].
    destruct (argmax nleb Ts) eqn:EA; [cbn; discriminate|]. exfalso.
    unfold argmax in EA. pose proof (nanargmax_spec N nleb nleb_total nleb_trans (map Some Ts)) as Sp. rewrite EA in Sp.
    destruct Ts as [|t Ts]; [cbn in LT; discriminate|]. specialize (Sp 0 ltac:(cbn; lia)). discriminate.
  Qed.

  Lemma topo_loop_defined tau phi Xall mode eps veto : Forall P Xall ->
    forall X (s : topo (N:=N)) i, Forall P X -> topo_loop K Klow tau phi s X Xall i veto mode eps <> None.
  Proof.
    intros HXall. induction X as [|x X IH]; intros s i HX; cbn [topo_loop]; [discriminate|].
    apply Forall_cons_iff in HX as [Hx HX].
    destruct (topo_step K Klow s x (veto i) mode eps) as [[[s1 c] l]|] eqn:E1; [|exfalso; eapply topo_step_defined; eauto].
    cbn [obind].
    match goal with |- obind ?e _ <> None => destruct e as [s3|] eqn:E3 end; cbn [obind].
    - match goal with |- obind ?e _ <> None => destruct e as [r|] eqn:E4 end; cbn [obind]; [discriminate|].
      exfalso. eapply IH; eauto.
    - exfalso. unfold post_step in E3. match type of E3 with (if ?b then _ else _) = _ => destruct b end; [|discriminate].
      eapply prune_defined; [exact HXall|exact E3].
  Qed.

  Theorem topo_fit_defined tau phi (s : topo (N:=N)) X veto mode eps :
    valid K (TB s) X = true -> Forall P X -> topo_fit K Klow tau phi s X veto mode eps <> None.
  Proof. intros Hv HX. unfold topo_fit. rewrite Hv. apply topo_loop_defined; exact HX. Qed.
End TT.

(* ---- TopoART over Fuzzy ART ---- *)
Open Scope R_scope.
Theorem topo_fuzzy_fit_total (alpha beta beta_lower : R) tau phi (s : topo (N:=RN)) X veto mode eps :
  0 < alpha -> valid (@fuzzyK RN alpha beta) (TB s) X = true -> Forall (fun x => (2 <= length x)%nat) X ->
  topo_fit (@fuzzyK RN alpha beta) (@fuzzyK RN alpha beta_lower) tau phi s X veto mode eps <> None.
Proof.
  intros Ha Hv HX.
  apply (topo_fit_defined (@fuzzyK RN alpha beta) (@fuzzyK RN alpha beta_lower) Rleb_total Rleb_trans (fun x => (2 <= length x)%nat)); auto.
  - intros Wl x w _. cbn. unfold fuzzy_choice, odiv.
    assert (E : @neqb RN (@nadd RN alpha (@l1norm RN w)) n0 = false).
    { cbn. apply Reqb_false. pose proof (l1norm_nonneg w). lra. }
    rewrite E. discriminate.
  - intros x w Hx. cbn. unfold fuzzy_match, odiv, dim_original.
    assert (E : @neqb RN (@nofZ RN (Z.of_nat (length x / 2))) n0 = false).
    { change (Reqb (IZR (Z.of_nat (length x / 2))) 0 = false). apply Reqb_false. apply not_0_IZR.
      assert ((1 <= length x / 2)%nat) by (apply (Nat.div_le_lower_bound (length x) 2 1); lia). lia. }
    rewrite E. reflexivity.
  - intros x w. cbn. discriminate.
  - intros x w. cbn. discriminate.
  - intros x. cbn. discriminate.
Qed.

(* C05 / C06 / C14 / C19 for TopoART.fit on a model that was trained before: the adjacency matrix and the permanence
   flags of the earlier history reach the loop of the new fit, and its first step replaces them (artlib/topological/
   TopoART.py, step_fit on an empty model) - so a fit of a used model IS the fit of a freshly constructed one with the
   same vigilance, whole state and reset-function log (wave-7 seed C14_7 kept the old permanence flags). *)
From Coq Require Import List Bool Arith ZArith Lia.
From ART Require Import Num Vec Search Kernel BaseArt Topo DualVig_refit.
Import ListNotations.

Section TRefit.
  Context {N : Num}.
  Variable K Klow : Kernel N.
  Variables tau phi : nat.

  Theorem topo_fit_forgets (s : topo (N:=N)) X veto mode eps :
    X <> [] -> valid K (TB s) X = true -> valid K (TB (topo_init (rho (TB s)))) X = true ->
    topo_fit K Klow tau phi s X veto mode eps = topo_fit K Klow tau phi (topo_init (rho (TB s))) X veto mode eps.
  Proof.
    intros HX V1 V2. destruct X as [|x X]; [congruence|].
    unfold topo_fit. rewrite V1, V2.
    pose proof (valid_dim K _ _ _ V1) as D1. pose proof (valid_dim K _ _ _ V2) as D2.
    set (b0 := learn_dim (TB s) (x :: X)) in *. set (c0 := learn_dim (TB (topo_init (rho (TB s)))) (x :: X)) in *.
    assert (R0 : rho b0 = rho (TB s)) by (unfold b0, learn_dim; destruct (dim (TB s)); reflexivity).
    assert (R1 : rho c0 = rho (TB s)) by reflexivity.
    rewrite D1, D2, R0, R1.
    cbn [topo_loop]. unfold topo_step. cbn [TB W bump labels wsc sc rho hasW dim tlab adj perm].
    reflexivity.
  Qed.
End TRefit.

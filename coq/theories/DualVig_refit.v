(* C05 / C06 / C13 / C19 for DualVigilanceART.fit on a model that was trained before: everything the earlier history left -
   base categories, counters, the category-to-cluster map, the wrapper's sample counter - is forgotten; only the
   hyper-parameters and the base module's running sample counter (which nothing reads) survive.  The map is reset by the
   FIRST STEP of the new fit (artlib/topological/DualVigilanceART.py, step_fit on an empty base module), which is what
   the model says too: dv_fit hands the old map to the loop. *)
From Coq Require Import List Bool Arith Lia.
From ART Require Import Num Vec Search Kernel BaseArt SimpleARTMAP DualVig.
Import ListNotations.

Section Refit.
  Context {N : Num}.
  Variable K : Kernel N.

  Definition with_sc (k : nat) (b : st (N:=N)) : st :=
    {| W := W b; labels := labels b; wsc := wsc b; sc := k; rho := rho b; hasW := hasW b; dim := dim b |}.
  Definition dv_with_sc (k : nat) (s : dv (N:=N)) : dv := {| DB := with_sc k (DB s); dmap := dmap s; dsc := dsc s |}.

  (* the step never reads the base module's sample counter *)
  Lemma dv_step_sc k s x veto mode eps lb :
    dv_step K (dv_with_sc k s) x veto mode eps lb =
    match dv_step K s x veto mode eps lb with
    | Some (s1, c, l) => Some (dv_with_sc k s1, c, l)
    | None => None
    end.
  Proof.
    destruct s as [[Wb lb0 wscb scb rb hb db] dm ds].
    unfold dv_step, dv_with_sc, with_sc. cbn [DB W labels wsc sc rho hasW dim dmap dsc].
    destruct Wb as [|w0 Wb'].
    - destruct (k_new K x); cbn; reflexivity.
    - destruct (omap _ _) as [Ts|]; cbn [obind]; [|reflexivity].
      destruct (dv_search _ _ _ _ _ _ _ _) as [[r v'] log].
      destruct (log_undef _ log); [reflexivity|].
      destruct r as [c|c|].
      + destruct (nth_error _ c) as [w|]; cbn [obind]; [|reflexivity].
        destruct (k_update K x w); cbn [obind]; [|reflexivity].
        destruct (lookup dm c); cbn [obind]; reflexivity.
      + destruct (k_new K x); cbn [obind]; [|reflexivity].
        destruct (lookup dm c); cbn [obind]; reflexivity.
      + destruct (k_new K x); cbn [obind]; reflexivity.
  Qed.

  Lemma dv_loop_sc k : forall X s i j veto mode eps lb,
    dv_loop K (dv_with_sc k s) X i j veto mode eps lb =
    match dv_loop K s X i j veto mode eps lb with
    | Some (s1, ls) => Some (dv_with_sc k s1, ls)
    | None => None
    end.
  Proof.
    induction X as [|x X IH]; intros s i j veto mode eps lb; cbn [dv_loop].
    - reflexivity.
    - rewrite dv_step_sc. destruct (dv_step K s x (veto i) mode eps lb) as [[[s1 c] l]|]; cbn [obind]; [|reflexivity].
      change (set_DB (dv_with_sc k s1) (set_labels (DB (dv_with_sc k s1)) (set_nth (i + j) c (labels (DB (dv_with_sc k s1))))))
        with (dv_with_sc k (set_DB s1 (set_labels (DB s1) (set_nth (i + j) c (labels (DB s1)))))).
      rewrite IH.
      destruct (dv_loop K _ X (S i) j veto mode eps lb) as [[s2 ls]|]; cbn [obind fst snd]; reflexivity.
  Qed.

  (* what a state is, up to the counter nothing reads *)
  Definition same_model (a b : dv (N:=N)) : Prop :=
    W (DB a) = W (DB b) /\ labels (DB a) = labels (DB b) /\ wsc (DB a) = wsc (DB b) /\ rho (DB a) = rho (DB b) /\
    hasW (DB a) = hasW (DB b) /\ dim (DB a) = dim (DB b) /\ dmap a = dmap b /\ dsc a = dsc b.

  Lemma same_model_with_sc k s : same_model (dv_with_sc k s) s.
  Proof. unfold same_model, dv_with_sc, with_sc; cbn. repeat split; reflexivity. Qed.

  Lemma valid_dim s x X : valid K s (x :: X) = true -> dim (learn_dim s (x :: X)) = Some (length x).
  Proof.
    unfold valid, dims_ok, learn_dim. intros H. apply andb_prop in H. destruct H as [_ H].
    destruct (dim s) as [d|] eqn:Ed.
    - cbn [forallb] in H. apply andb_prop in H. destruct H as [H _]. apply Nat.eqb_eq in H. rewrite Ed. congruence.
    - reflexivity.
  Qed.

  (* a fit of a model with a history = the fit of a freshly constructed one with the same vigilance *)
  Theorem dv_fit_forgets (s : dv (N:=N)) X veto mode eps lb :
    X <> [] -> valid K (DB s) X = true -> valid K (DB (dv_init (rho (DB s)))) X = true ->
    match dv_fit K s X veto mode eps lb, dv_fit K (dv_init (rho (DB s))) X veto mode eps lb with
    | Some (a, la), Some (b, lb') => same_model a b /\ la = lb'
    | None, None => True
    | _, _ => False
    end.
  Proof.
    intros HX V1 V2. destruct X as [|x X]; [congruence|].
    unfold dv_fit. rewrite V1, V2.
    pose proof (valid_dim _ _ _ V1) as D1. pose proof (valid_dim _ _ _ V2) as D2.
    set (b0 := learn_dim (DB s) (x :: X)) in *. set (c0 := learn_dim (DB (dv_init (rho (DB s)))) (x :: X)) in *.
    assert (R0 : rho b0 = rho (DB s)) by (unfold b0, learn_dim; destruct (dim (DB s)); reflexivity).
    assert (R1 : rho c0 = rho (DB s)) by reflexivity.
    cbn [dv_loop]. unfold dv_step. cbn [DB W labels wsc sc rho hasW dim dmap dsc].
    destruct (k_new K x) as [w|]; cbn [obind]; [|exact I].
    rewrite D1, D2, R0, R1.
    match goal with |- match obind (dv_loop K ?A X 1 0 veto mode eps lb) _ with _ => _ end =>
      match goal with |- context [obind (dv_loop K ?B X 1 0 veto mode eps lb) _] =>
        lazymatch A with B => fail | _ => idtac end;
        assert (E : A = dv_with_sc (sc b0) B) by (unfold dv_with_sc, with_sc, set_DB, set_labels, add_weight; cbn; reflexivity)
      end end.
    rewrite E, dv_loop_sc.
    match goal with |- context [dv_loop K ?B X 1 0 veto mode eps lb] => destruct (dv_loop K B X 1 0 veto mode eps lb) as [[s2 ls]|] end;
      cbn [obind fst snd]; [|exact I].
    split; [apply same_model_with_sc|reflexivity].
  Qed.
End Refit.

(* the premises are satisfiable, and the map of the earlier fit is gone: a model with two clusters, re-fitted on two
   copies of one sample, has one *)
From Coq Require Import QArith.
From ART Require Import Fuzzy.
Example refit_example :
  let K := @fuzzyK QN (1#1024) 1 in
  let s := @mkDv QN (@mkSt QN [[1#2; 1#2]; [1#8; 7#8]] [0; 1]%nat [1; 1]%nat 2%nat [7#8] true (Some 2%nat)) [(0, 0); (1, 1)]%nat 2%nat in
  let X := ([[1#4; 3#4]; [1#4; 3#4]] : list (list QN)) in
  valid K (DB s) X = true /\ valid K (DB (dv_init (rho (DB s)))) X = true /\
  option_map (fun r => (dmap (fst r), labels (DB (fst r)))) (dv_fit K s X (fun _ => None) MTplus (0 : QN) (1#4 : QN)) = Some ([(0, 0)], [0; 0])%nat.
Proof. vm_compute. repeat split; reflexivity. Qed.

(* Incremental Calinski-Harabasz index (artlib/cvi/iCVIs/CalinkskiHarabasz.py)
   and the validity gate of iCVIFuzzyART. *)
From Coq Require Import List Bool Arith ZArith Lia.
From ART Require Import Num Vec Search Kernel SimpleARTMAP.
Import ListNotations.

Section ICVI.
  Context {N : Num}.

  (* per-cluster record CD[label] = {n, v, CP, G} *)
  Record cstat := mkCstat { c_n : N; c_v : list N; c_CP : N; c_G : list N }.
  Record ch := mkCh {
    h_dim : nat;
    h_n : N;                          (* n_samples *)
    h_mu : list N;                    (* [] until the first sample *)
    h_CD : list (nat * cstat);        (* insertion order *)
    h_WGSS : N;
    h_crit : N                        (* criterion_value *)
  }.
  Definition ch_init (d : nat) : ch := {| h_dim := d; h_n := n0; h_mu := []; h_CD := []; h_WGSS := n0; h_crit := n0 |}.

  Fixpoint cd_get (cd : list (nat * cstat)) (l : nat) : option cstat :=
    match cd with [] => None | (k, c) :: cd' => if Nat.eqb k l then Some c else cd_get cd' l end.
  Fixpoint cd_set (cd : list (nat * cstat)) (l : nat) (c : cstat) : list (nat * cstat) :=
    match cd with
    | [] => [(l, c)]
    | (k, c0) :: cd' => if Nat.eqb k l then (k, c) :: cd' else (k, c0) :: cd_set cd' l c
    end.

  Definition nlen {A} (l : list A) : N := nofZ (Z.of_nat (length l)).
  Definition sq (x : list N) : N := dot x x.

  (* the parameter record returned by add_sample / switch_label *)
  Record newp := mkNewp {
    p_n : N; p_mu : list N; p_crit : N;
    p_label : nat; p_CD : cstat; p_CPdiff : N;
    p_label2 : option (nat * cstat * N)          (* switch_label: second cluster, its CP_diff *)
  }.

  (* criterion from the separations: (BGSS / WGSS) (N - k) / (k - 1), 0 when k < 2 or WGSS = 0 *)
  Definition criterion (k : nat) (n : N) (SEP : list N) (WGSS : N) : option N :=
    if Nat.ltb k 2 then Some n0
    else if neqb WGSS n0 then Some n0
    else
      let kk := nofZ (Z.of_nat k) in
      q <- odiv (vsum SEP) WGSS ;;
      r <- odiv (nmul q (nsub n kk)) (nsub kk n1) ;;
      Some r.

  Definition add_stats (s : ch) (x : list N) (label : nat) : option (cstat * N) :=
    match cd_get (h_CD s) label with
    | None => Some ({| c_n := n1; c_v := x; c_CP := n0; c_G := repeat n0 (h_dim s) |}, n0)
    | Some D =>
        let n' := nadd (c_n D) n1 in
        inv <- odiv n1 n' ;;
        (* deltaV = -(x - v)/n' ; v' = v - deltaV *)
        let deltaV := vscale (nneg n1) (vscale inv (vsub x (c_v D))) in
        let v' := vsub (c_v D) deltaV in
        let dxv := vsub x v' in
        let cpd := nadd (nadd (sq dxv) (nmul (nsub n' n1) (sq deltaV))) (nmul n2 (dot deltaV (c_G D))) in
        Some ({| c_n := n'; c_v := v'; c_CP := nadd (c_CP D) cpd;
                 c_G := vadd (vadd (c_G D) dxv) (vscale (nsub n' n1) deltaV) |}, cpd)
    end.

  Definition add_sample (s : ch) (x : list N) (label : nat) : option newp :=
    let n' := nadd (h_n s) n1 in
    mu' <- (match h_mu s with
            | [] => Some x
            | mu => inv <- odiv n1 n' ;; Some (vadd mu (vscale inv (vsub x mu)))
            end) ;;
    st <- add_stats s x label ;;
    let '(cd, cpd) := st in
    let isnew := match cd_get (h_CD s) label with None => true | Some _ => false end in
    let k := (if isnew then S (length (h_CD s)) else length (h_CD s)) in
    let SEP0 := if isnew then [sq (vsub x mu')] else [] in
    let SEP := SEP0 ++ map (fun kc => let '(i, c) := kc in
                                      if Nat.eqb i label then nmul (c_n cd) (sq (vsub (c_v cd) mu'))
                                      else nmul (c_n c) (sq (vsub (c_v c) mu'))) (h_CD s) in
    (* for k < 2 the code returns 0 before looking at the separations *)
    cr <- criterion k n' SEP (nadd (h_WGSS s) cpd) ;;
    Some {| p_n := n'; p_mu := mu'; p_crit := cr; p_label := label; p_CD := cd; p_CPdiff := cpd; p_label2 := None |}.

  Definition remove_stats (s : ch) (x : list N) (label : nat) : option (cstat * N) :=
    D <- cd_get (h_CD s) label ;;
    if nleb (c_n D) n1 then None       (* "Can't remove a value from a cluster of 1" *)
    else
      let n' := nsub (c_n D) n1 in
      inv <- odiv n1 n' ;;
      let dvp := vscale inv (vsub (c_v D) x) in
      let v' := vadd (c_v D) dvp in
      let dxv := vsub x (c_v D) in
      let G' := vsub (c_G D) (vadd dxv (vscale n' dvp)) in
      let cpd := nneg (nadd (nadd (sq dxv) (nmul n' (sq dvp))) (nmul n2 (dot dvp G'))) in
      Some ({| c_n := n'; c_v := v'; c_CP := nadd (c_CP D) cpd; c_G := G' |}, cpd).

  Definition switch_label (s : ch) (x : list N) (lold lnew : nat) : option newp :=
    if Nat.eqb lnew lold then
      D <- cd_get (h_CD s) lold ;;
      Some {| p_n := h_n s; p_mu := h_mu s; p_crit := h_crit s; p_label := lold; p_CD := D; p_CPdiff := n0; p_label2 := None |}
    else
      rm <- remove_stats s x lold ;;
      ad <- add_stats s x lnew ;;
      let '(cdr, cpr) := rm in
      let '(cda, cpa) := ad in
      let isnew := match cd_get (h_CD s) lnew with None => true | Some _ => false end in
      let k := (if isnew then S (length (h_CD s)) else length (h_CD s)) in
      let mu := h_mu s in
      let SEP0 := if isnew then [sq (vsub x mu)] else [] in
      let SEP := SEP0 ++ map (fun kc => let '(i, c) := kc in
                                        if Nat.eqb i lold then nmul (c_n cdr) (sq (vsub (c_v cdr) mu))
                                        else if Nat.eqb i lnew then nmul (c_n cda) (sq (vsub (c_v cda) mu))
                                        else nmul (c_n c) (sq (vsub (c_v c) mu))) (h_CD s) in
      cr <- criterion k (h_n s) SEP (nadd (nadd (h_WGSS s) cpr) cpa) ;;
      Some {| p_n := h_n s; p_mu := mu; p_crit := cr; p_label := lold; p_CD := cdr; p_CPdiff := cpr;
              p_label2 := Some (lnew, cda, cpa) |}.

  Definition update (s : ch) (p : newp) : ch :=
    let cd1 := cd_set (h_CD s) (p_label p) (p_CD p) in
    let w1 := nadd (h_WGSS s) (p_CPdiff p) in
    match p_label2 p with
    | None => {| h_dim := h_dim s; h_n := p_n p; h_mu := p_mu p; h_CD := cd1; h_WGSS := w1; h_crit := p_crit p |}
    | Some (l2, c2, d2) =>
        {| h_dim := h_dim s; h_n := p_n p; h_mu := p_mu p; h_CD := cd_set cd1 l2 c2; h_WGSS := nadd w1 d2; h_crit := p_crit p |}
    end.

  (* ---- batch Calinski-Harabasz index of labelled data (the specification) ---- *)
  Definition vmean (xs : list (list N)) (d : nat) : option (list N) :=
    inv <- odiv n1 (nlen xs) ;; Some (vscale inv (fold_left vadd xs (repeat n0 d))).
  Definition labels_of (D : list (list N * nat)) : list nat := nodup Nat.eq_dec (map snd D).
  Definition cluster (D : list (list N * nat)) (l : nat) : list (list N) :=
    map fst (filter (fun p => Nat.eqb (snd p) l) D).
  Definition batch_ch (D : list (list N * nat)) (d : nat) : option N :=
    let ls := labels_of D in
    let k := length ls in
    if Nat.ltb k 2 then Some n0 else
    mu <- vmean (map fst D) d ;;
    stats <- omap (fun l => let xs := cluster D l in
                            v <- vmean xs d ;;
                            Some (nmul (nlen xs) (sq (vsub v mu)), vsum (map (fun x => sq (vsub x v)) xs))) ls ;;
    let BGSS := vsum (map fst stats) in
    let WGSS := vsum (map snd stats) in
    if neqb WGSS n0 then Some n0 else
    let kk := nofZ (Z.of_nat k) in
    q <- odiv BGSS WGSS ;;
    odiv (nmul q (nsub (nlen D) kk)) (nsub kk n1).
End ICVI.

(* C16: whole calculate_SARSA calls (episodes of every length >= 1, with or without single_sample_reward),
   the untrained case for every td_alpha, and the greedy action "minimal on request". *)
From Coq Require Import List Bool Arith Reals Lra Lia.
From ART Require Import Num NumR Vec Search Search_proofs Kernel Fuzzy Falcon Falcon_R.
Import ListNotations.
Open Scope R_scope.

(* one target per (state, action) row that is kept *)
Theorem calc_sarsa_counts alpha lambda (Q : list R) (rew : list (list R)) single :
  length Q = length rew -> (1 <= length rew)%nat ->
  fst (@calc_sarsa RN alpha lambda Q rew single) = length (snd (@calc_sarsa RN alpha lambda Q rew single)).
Proof.
  intros HQ H1. unfold calc_sarsa. destruct rew as [|r0 [|r1 rew']].
  - cbn in H1. lia.
  - destruct single; reflexivity.
  - cbn [fst snd]. unfold sarsa_targets. rewrite map_length, sarsa_length by (rewrite map_length; exact HQ).
    rewrite HQ. reflexivity.
Qed.

(* every target is a valid reward-channel input whenever the episode's rewards are (and the single reward is in [0,1]) *)
Theorem calc_sarsa_valid alpha lambda (Q : list R) (rew : list (list R)) single :
  Forall (fun row => @fuzzy_valid RN row = true) rew ->
  (forall r, single = Some r -> 0 <= r <= 1) ->
  Forall (fun row => @fuzzy_valid RN row = true) (snd (@calc_sarsa RN alpha lambda Q rew single)).
Proof.
  intros Hv Hs. unfold calc_sarsa. destruct rew as [|r0 [|r1 rew']].
  - destruct single as [r|]; cbn [snd]; [|constructor]. constructor; [apply sarsa_target_valid, Hs; reflexivity|constructor].
  - destruct single as [r|]; cbn [snd]; [|exact Hv]. constructor; [apply sarsa_target_valid, Hs; reflexivity|constructor].
  - cbn [snd]. unfold sarsa_targets. apply Forall_forall. intros row Hin. apply in_map_iff in Hin.
    destruct Hin as (t & <- & Ht). apply sarsa_target_valid.
    pose proof (sarsa_in_range alpha lambda Q (map (@decc RN) (r0 :: r1 :: rew'))) as F.
    rewrite Forall_forall in F. apply F, Ht.
Qed.

(* an episode of one step is trained on its own reward row *)
Theorem calc_sarsa_single alpha lambda (Q : list R) (row : list R) :
  @calc_sarsa RN alpha lambda Q [row] None = (1%nat, [row]).
Proof. reflexivity. Qed.

(* before any training (every predicted reward is 0) the target is clip(alpha r): r alone, scaled by the learning rate *)
Theorem sarsa_untrained_gen alpha lambda (Q r : list R) t r0 :
  Forall (fun q => q = 0) Q -> (S t < length Q)%nat -> nth_error r t = Some r0 ->
  nth_error (@sarsa RN alpha lambda Q r) t = Some (@clip01 RN (alpha * r0)).
Proof.
  intros HQ Hl Hr. rewrite Forall_forall in HQ.
  destruct (nth_error Q t) as [q0|] eqn:E0; [|apply nth_error_None in E0; lia].
  destruct (nth_error Q (S t)) as [q1|] eqn:E1; [|apply nth_error_None in E1; lia].
  rewrite (sarsa_formula alpha lambda Q r t q0 q1 r0 E0 E1 Hr).
  rewrite (HQ q0 (nth_error_In _ _ E0)), (HQ q1 (nth_error_In _ _ E1)). f_equal. f_equal. ring.
Qed.

(* greedy action, minimal on request: the first minimiser of the predicted rewards *)
Lemma Rgeb_total (a b : R) : Rleb b a = true \/ Rleb a b = true.
Proof. destruct (Rleb_total a b); auto. Qed.
Lemma Rgeb_trans (a b c : R) : Rleb b a = true -> Rleb c b = true -> Rleb c a = true.
Proof. intros H1 H2. apply (Rleb_trans c b a); assumption. Qed.

Theorem get_action_first_min {A} (space : list A) (rewards : list R) a :
  @get_action RN A false space rewards = Some a ->
  exists i t, nth_error space i = Some a /\ nth_error rewards i = Some t /\
    (forall j b, nth_error rewards j = Some b -> t <= b) /\
    (forall j b, (j < i)%nat -> nth_error rewards j = Some b -> t < b).
Proof.
  unfold get_action, argmin, argmax.
  pose proof (nanargmax_spec R (fun a b => Rleb b a) Rgeb_total Rgeb_trans (map Some rewards)) as S.
  match goal with |- context[nanargmax ?l ?T] => change (nanargmax l T) with (nanargmax (fun a b => Rleb b a) (map Some rewards)) end.
  destruct (nanargmax (fun a b => Rleb b a) (map Some rewards)) as [i|]; cbn [obind]; [|discriminate].
  intros Ha. destruct S as [t (Hc & Hmax & Hfirst)].
  rewrite nth_error_map in Hc. destruct (nth_error rewards i) as [t'|] eqn:Et; cbn in Hc; [|discriminate].
  inversion Hc; subst t'. exists i, t. split; [exact Ha|]. split; [exact Et|]. split.
  - intros j b Hj. apply Rleb_true. apply (Hmax j b). rewrite nth_error_map, Hj. reflexivity.
  - intros j b Hlt Hj. apply Rleb_false. apply (Hfirst j b Hlt). rewrite nth_error_map, Hj. reflexivity.
Qed.

(* C04 for ART1 with L > 1 on non-zero rows (the quantifier's standing
   assumption): every step, fit and partial_fit is defined. *)
From Coq Require Import List Bool Arith ZArith Reals Lra Lia.
From ART Require Import Num NumR Vec Search Kernel BaseArt Total Total_R Total_fit ART1.
Import ListNotations.
Open Scope R_scope.

Definition nonzero_row (x : list R) : Prop := @l1norm RN x <> 0 /\ x <> [].

Theorem art1_step_total (L : R) (s : st (N:=RN)) x veto m eps :
  1 < L -> nonzero_row x -> step_fit (@art1K RN L) s x veto m eps <> None.
Proof.
  intros HL [Hx Hne]. apply step_fit_defined; try exact Rleb_total; try exact Rleb_trans.
  - intros w _. cbn. discriminate.
  - intros w _. cbn [k_match art1K all_some forallb]. unfold art1_match, odiv.
    assert (E : @neqb RN (@l1norm RN x) n0 = false) by (cbn; apply Reqb_false; exact Hx).
    rewrite E. reflexivity.
  - intros w _. cbn [k_update art1K]. unfold art1_update, art1_scale, odiv.
    match goal with |- context [if ?b then _ else _] => assert (E : b = false) end.
    { cbn. apply Reqb_false. pose proof (l1norm_nonneg (@vand RN x (@art1_td RN w (length x)))). cbn in *. lra. }
    rewrite E. cbn [obind]. discriminate.
  - cbn [k_new art1K]. unfold art1_new, art1_scale, odiv.
    match goal with |- context [if ?b then _ else _] => assert (E : b = false) end.
    { cbn. apply Reqb_false. pose proof (l1norm_nonneg x). cbn in *. lra. }
    rewrite E. cbn [obind]. discriminate.
Qed.

Theorem art1_fit_total (L : R) (s : st (N:=RN)) X veto m eps :
  1 < L -> valid (@art1K RN L) s X = true -> Forall nonzero_row X ->
  fit (@art1K RN L) s X veto m eps <> None /\ partial_fit (@art1K RN L) s X veto m eps <> None.
Proof.
  intros HL Hv HX. split.
  - apply (fit_defined _ nonzero_row); auto. intros; apply art1_step_total; assumption.
  - apply (partial_fit_defined _ nonzero_row); auto. intros; apply art1_step_total; assumption.
Qed.

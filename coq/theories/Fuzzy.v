(* FuzzyART kernel (artlib/elementary/FuzzyART.py). *)
From Coq Require Import List Bool Arith ZArith Lia.
From ART Require Import Num Vec Search Kernel.
Import ListNotations.

Section Fuzzy.
  Context {N : Num}.
  Variables alpha beta : N.

  Definition dim_original (x : list N) : N := nofZ (Z.of_nat (Nat.div (length x) 2)).

  (* T = |x ^ w| / (alpha + |w|) *)
  Definition fuzzy_choice (x w : list N) : option N :=
    odiv (l1norm (vmin x w)) (nadd alpha (l1norm w)).
  (* M = |x ^ w| / dim_original *)
  Definition fuzzy_match (x w : list N) : option N :=
    odiv (l1norm (vmin x w)) (dim_original x).
  (* w' = b (x ^ w) + (1 - b) w *)
  Definition fuzzy_update (x w : list N) : list N :=
    vadd (vscale beta (vmin x w)) (vscale (nsub n1 beta) w).
  Definition fuzzy_new (x : list N) : list N := x.

  (* validate_data: even width, in [0,1], |sum - d/2| <= 0.01 *)
  Definition hundredth : N := ndiv n1 (nofZ 100).
  Definition fuzzy_valid (x : list N) : bool :=
    Nat.even (length x) &&
    forallb (fun a => nleb n0 a && nleb a n1) x &&
    nleb (nabs (nsub (vsum x) (ndiv (nofZ (Z.of_nat (length x))) n2))) hundredth.

  Definition fuzzyK : Kernel N := {|
    k_choice := fun _ x w => fuzzy_choice x w;
    k_match := fun x w => [fuzzy_match x w];
    k_inv := [false];
    k_update := fun x w => Some (fuzzy_update x w);
    k_new := fun x => Some (fuzzy_new x);
    k_valid := fuzzy_valid;
    k_dimok := fun _ => true |}.

  (* get_bounding_box(w, n): reference point w[i], width (1 - w[i + d]) - w[i], for i < n <= d *)
  Definition bbox (w : list N) (n : nat) : option (list N * list N) :=
    let d := Nat.div (length w) 2 in
    if Nat.leb n d then
      Some (firstn n w,
            map (fun i => nsub (nsub n1 (nth (i + d) w n0)) (nth i w n0)) (seq 0 n))
    else None.
  (* shrink_clusters: both halves move by widths * ratio *)
  Definition shrink (w : list N) (ratio : N) : list N :=
    let d := Nat.div (length w) 2 in
    let lo := firstn d w in
    let hi := skipn d w in
    let widths := vsub (vcompl hi) lo in
    vadd lo (vscale ratio widths) ++ vadd hi (vscale ratio widths).
  (* centre of the box in data coordinates (before de-normalisation): (lo + (1 - hi)) / 2 *)
  Definition centre (w : list N) : list N :=
    let d := Nat.div (length w) 2 in
    map nhalf (vadd (firstn d w) (vcompl (skipn d w))).
End Fuzzy.

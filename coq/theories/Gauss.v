(* GaussianART, BayesianART and QuadraticNeuronART kernels. *)
From Coq Require Import List Bool Arith ZArith Lia.
From ART Require Import Num Vec Mat Search Kernel.
Import ListNotations.

Section Gaussian.
  Context {N : Num}.
  Variables (sigma_init : list N) (alpha : N).

  Definition ga_mean (w : list N) (d : nat) := firstn d w.
  Definition ga_sigma (w : list N) (d : nat) := firstn d (skipn d w).
  Definition ga_inv (w : list N) (d : nat) := firstn d (skipn (2 * d) w).
  Definition ga_sqrtdet (w : list N) (d : nat) : N := nth (3 * d) w n0.
  Definition ga_n (w : list N) : N := last w n0.

  Definition ga_expo (x w : list N) : N :=
    let d := length x in
    let dist := vsub (ga_mean w d) x in
    nexp (nmul (nneg (nhalf n1)) (dot dist (vmul (ga_inv w d) dist))).
  Definition ga_choice (Ws : list (list N)) (x w : list N) : option N :=
    let d := length x in
    p <- odiv (ga_expo x w) (nadd alpha (ga_sqrtdet w d)) ;;
    pr <- odiv (ga_n w) (vsum (map ga_n Ws)) ;;
    Some (nmul p pr).
  Definition ga_match (x w : list N) : N := ga_expo x w.
  Definition ga_pack (mean sigma : list N) (n : N) : option (list N) :=
    let s2 := vmul sigma sigma in
    inv <- omap (fun a => odiv n1 a) s2 ;;
    Some (mean ++ sigma ++ inv ++ [nsqrt (vprod s2)] ++ [n]).
  Definition ga_update (x w : list N) : option (list N) :=
    let d := length x in
    let mean := ga_mean w d in
    let sigma := ga_sigma w d in
    let n' := nadd (ga_n w) n1 in
    k <- odiv n1 n' ;;
    let mean' := vadd (vscale (nsub n1 k) mean) (vscale k x) in
    let dev := vsub mean' x in
    let sigma' := map nsqrt (vadd (vscale (nsub n1 k) (vmul sigma sigma)) (vscale k (vmul dev dev))) in
    ga_pack mean' sigma' n'.
  Definition ga_new (x : list N) : option (list N) := ga_pack x sigma_init n1.
  Definition unit_valid (x : list N) : bool := forallb (fun a => nleb n0 a && nleb a n1) x.

  Definition gaussK : Kernel N := {|
    k_choice := ga_choice;
    k_match := fun x w => [Some (ga_match x w)];
    k_inv := [false];
    k_update := ga_update;
    k_new := ga_new;
    k_valid := unit_valid;
    k_dimok := fun _ => true |}.
End Gaussian.

Section Bayesian.
  Context {N : Num}.
  Variable cov_init : list N.     (* d x d, row-major *)

  Definition ba_mean (w : list N) (d : nat) := firstn d w.
  Definition ba_cov (w : list N) (d : nat) : mat := reshape d (firstn (d * d) (skipn d w)).
  Definition ba_n (w : list N) : N := last w n0.

  Definition ba_update (x w : list N) : option (list N) :=
    let d := length x in
    let mean := ba_mean w d in
    let cov := ba_cov w d in
    let n := ba_n w in
    let n' := nadd n n1 in
    k <- odiv n1 n' ;;
    kn <- odiv n n' ;;
    let mean' := vadd (vscale (nsub n1 k) mean) (vscale k x) in
    let dev := vsub x mean' in
    let cov' := madd (mscale kn cov) (mscale k (outer dev dev)) in
    Some (mean' ++ flatten cov' ++ [n']).
  Definition ba_choice (Ws : list (list N)) (x w : list N) : option N :=
    let d := length x in
    let cov := ba_cov w d in
    let dist := vsub (ba_mean w d) x in
    ic <- inv cov ;;
    let e := nexp (nmul (nneg (nhalf n1)) (dot dist (matvec ic dist))) in
    let dt := det cov in
    p <- odiv e (nsqrt (nmul (npow (nmul n2 npi) d) dt)) ;;
    pr <- odiv (ba_n w) (vsum (map ba_n Ws)) ;;
    Some (nmul p pr).
  (* match = det of the covariance the update would produce *)
  Definition ba_match (x w : list N) : option N :=
    w' <- ba_update x w ;; Some (det (ba_cov w' (length x))).
  Definition ba_new (x : list N) : list N := x ++ cov_init ++ [n1].
  Definition unit_valid_b (x : list N) : bool := forallb (fun a => nleb n0 a && nleb a n1) x.

  Definition bayesK : Kernel N := {|
    k_choice := ba_choice;
    k_match := fun x w => [ba_match x w];
    k_inv := [true];                      (* rho >= M, tracking reversed *)
    k_update := ba_update;
    k_new := fun x => Some (ba_new x);
    k_valid := unit_valid_b;
    k_dimok := fun d => Nat.eqb (length cov_init) (d * d) |}.
End Bayesian.

Section QuadNeuron.
  Context {N : Num}.
  Variables s_init lr_b lr_w lr_s : N.

  Definition qn_W (w : list N) (d : nat) : mat := reshape d (firstn (d * d) w).
  Definition qn_b (w : list N) (d : nat) := firstn d (skipn (d * d) w).
  Definition qn_s (w : list N) : N := last w n0.
  Definition qn_l (x w : list N) : N :=
    let d := length x in
    l2norm2 (vsub (matvec (qn_W w d) x) (qn_b w d)).
  Definition qn_T (x w : list N) : N :=
    let s := qn_s w in nexp (nmul (nneg (nmul s s)) (qn_l x w)).
  Definition qn_update (x w : list N) : list N :=
    let d := length x in
    let Wm := qn_W w d in
    let b := qn_b w d in
    let s := qn_s w in
    let z := matvec Wm x in
    let T := qn_T x w in
    let l := qn_l x w in
    let sst2 := nmul (nmul (nmul n2 s) s) T in
    let zb := vsub z b in
    let b' := vadd b (vscale lr_b (vscale sst2 zb)) in
    let W' := madd Wm (mscale lr_w (mscale (nneg sst2) (outer zb x))) in
    let s' := nadd s (nmul lr_s (nmul (nmul (nmul (nneg n2) s) T) l)) in
    flatten W' ++ b' ++ [s'].
  Definition qn_new (x : list N) : list N := flatten (identity (length x)) ++ x ++ [s_init].

  Definition quadK : Kernel N := {|
    k_choice := fun _ x w => Some (qn_T x w);
    k_match := fun x w => [Some (qn_T x w)];
    k_inv := [false];
    k_update := fun x w => Some (qn_update x w);
    k_new := fun x => Some (qn_new x);
    k_valid := fun x => forallb (fun a => nleb n0 a && nleb a n1) x;
    k_dimok := fun _ => true |}.
End QuadNeuron.

(* C16 at the edges of the TD parameters (TD_FALCON.calculate_SARSA, artlib/reinforcement/FALCON.py): without
   bootstrapping (lambda = 0) the target is still built from the CURRENT estimate, clip(Q + alpha (r - Q)) - it is the
   plain reward only when, in addition, alpha = 1; and with alpha = 0 the target is the clipped current estimate (wave-7
   seed C16_7 took the "untrained" short-cut Q = 0 whenever lambda = 0). *)
From Coq Require Import List Bool Arith Reals Lra Lia.
From ART Require Import Num NumR Vec Search Kernel Fuzzy Falcon Falcon_R.
Import ListNotations.
Open Scope R_scope.

Theorem sarsa_without_bootstrapping alpha (Q r : list R) t q0 q1 r0 :
  nth_error Q t = Some q0 -> nth_error Q (S t) = Some q1 -> nth_error r t = Some r0 ->
  nth_error (@sarsa RN alpha 0 Q r) t = Some (@clip01 RN (q0 + alpha * (r0 - q0))).
Proof.
  intros H0 H1 Hr. rewrite (sarsa_formula alpha 0 Q r t q0 q1 r0 H0 H1 Hr). do 2 f_equal. ring.
Qed.

(* ... which is NOT clip(alpha r) unless the estimate is zero or alpha = 1 *)
Theorem shortcut_differs alpha (q0 r0 : R) :
  0 <= alpha < 1 -> 0 < q0 <= 1 -> 0 <= r0 <= 1 ->
  @clip01 RN (q0 + alpha * (r0 - q0)) <> @clip01 RN (alpha * r0).
Proof.
  intros Ha Hq Hr.
  assert (A : 0 <= q0 + alpha * (r0 - q0) <= 1) by nra.
  assert (B : 0 <= alpha * r0 <= 1) by nra.
  rewrite (clip01_id _ A), (clip01_id _ B). nra.
Qed.

Theorem sarsa_alpha_zero lambda (Q r : list R) t q0 q1 r0 :
  nth_error Q t = Some q0 -> nth_error Q (S t) = Some q1 -> nth_error r t = Some r0 ->
  nth_error (@sarsa RN 0 lambda Q r) t = Some (@clip01 RN q0).
Proof.
  intros H0 H1 Hr. rewrite (sarsa_formula 0 lambda Q r t q0 q1 r0 H0 H1 Hr). do 2 f_equal. ring.
Qed.

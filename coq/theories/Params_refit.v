(* C19, "set_params with new values makes the estimator behave exactly like one constructed with them" - for an estimator
   WITH a training history: giving a used model a new vigilance and fitting it is fitting a freshly constructed model
   with that vigilance.  Corollaries of the fit-forgets theorems (BaseArt_hist, DualVig_refit, Topo_refit, SAM_refit)
   for BaseART-style modules, DualVigilanceART, TopoART and SimpleARTMAP. *)
From Coq Require Import List Bool Arith Lia.
From ART Require Import Num Vec Search Kernel BaseArt BaseArt_proofs BaseArt_hist SimpleARTMAP DualVig Topo DualVig_refit Topo_refit SAM_refit.
Import ListNotations.

Section PR.
  Context {N : Num}.
  Variable K : Kernel N.

  Theorem set_rho_then_fit (s : st (N:=N)) r X veto m eps :
    valid K (set_rho s r) X = true -> valid K (init r) X = true ->
    match fit K (set_rho s r) X veto m eps, fit K (init r) X veto m eps with
    | Some (a, la), Some (b, lb) => tr a = tr b /\ labels a = labels b /\ hasW a = hasW b /\ la = lb
    | None, None => True
    | _, _ => False
    end.
  Proof. intros V1 V2. exact (fit_forgets K (set_rho s r) X veto m eps V1 V2). Qed.

  Theorem dv_set_rho_then_fit (s : dv (N:=N)) r X veto mode eps lb :
    X <> [] -> valid K (set_rho (DB s) r) X = true -> valid K (DB (dv_init r)) X = true ->
    match dv_fit K (set_DB s (set_rho (DB s) r)) X veto mode eps lb, dv_fit K (dv_init r) X veto mode eps lb with
    | Some (a, la), Some (b, lb') => same_model a b /\ la = lb'
    | None, None => True
    | _, _ => False
    end.
  Proof. intros HX V1 V2. exact (dv_fit_forgets K (set_DB s (set_rho (DB s) r)) X veto mode eps lb HX V1 V2). Qed.

  Theorem topo_set_rho_then_fit (Klow : Kernel N) (tau phi : nat) (s : topo (N:=N)) r X veto mode eps :
    X <> [] -> valid K (set_rho (TB s) r) X = true -> valid K (TB (topo_init r)) X = true ->
    topo_fit K Klow tau phi {| TB := set_rho (TB s) r; tlab := tlab s; adj := adj s; perm := perm s |} X veto mode eps
    = topo_fit K Klow tau phi (topo_init r) X veto mode eps.
  Proof.
    intros HX V1 V2.
    exact (topo_fit_forgets K Klow tau phi {| TB := set_rho (TB s) r; tlab := tlab s; adj := adj s; perm := perm s |} X veto mode eps HX V1 V2).
  Qed.

  Theorem sam_set_rho_then_fit (s : sam (N:=N)) r X y iters m eps :
    sam_valid K {| A := set_rho (A s) r; mp := mp s; bl := bl s; hasL := hasL s |} X y = true ->
    sam_valid K (sam_init r) X y = true ->
    sam_fit K {| A := set_rho (A s) r; mp := mp s; bl := bl s; hasL := hasL s |} X y iters m eps = sam_fit K (sam_init r) X y iters m eps.
  Proof.
    intros V1 V2. exact (sam_fit_forgets K {| A := set_rho (A s) r; mp := mp s; bl := bl s; hasL := hasL s |} X y iters m eps V1 V2).
  Qed.
End PR.

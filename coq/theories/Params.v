(* The estimator protocol of BaseART (artlib/common/BaseART.py:17-107): a
   params dict, attribute access mirroring it, get_params, set_params
   (validate the new values, then assign - /repo fix "a rejected set_params call
   leaves the estimator unchanged"); and a small ownership model of stored arrays. *)
From Coq Require Import List Bool Arith String QArith.
Import ListNotations.
Open Scope string_scope.

Section Protocol.
  Variable V : Type.                                   (* parameter values *)
  Variable pvalid : list (string * V) -> bool.          (* the class's validate_params *)

  Definition params := list (string * V).
  Fixpoint pget (p : params) (k : string) : option V :=
    match p with [] => None | (a, v) :: p' => if String.eqb a k then Some v else pget p' k end.
  Fixpoint pset (p : params) (k : string) (v : V) : params :=
    match p with [] => [] | (a, w) :: p' => if String.eqb a k then (a, v) :: p' else (a, w) :: pset p' k v end.
  Definition has (p : params) (k : string) : bool := match pget p k with Some _ => true | None => false end.

  (* __getattr__: a key of params reads params; anything else is an AttributeError *)
  Definition getattr (p : params) (k : string) : option V := pget p k.

  (* set_params with keyword arguments kw: the keys are looked up in order (an unknown key raises), the new values
     are collected, validate_params is run on them, and only an accepted call installs them *)
  Fixpoint assign (p : params) (kw : list (string * V)) : params * bool :=
    match kw with
    | [] => (p, true)
    | (k, v) :: kw' => if has p k then assign (pset p k v) kw' else (p, false)
    end.
  Definition set_params (p : params) (kw : list (string * V)) : params * bool :=
    match kw with
    | [] => (p, true)                                  (* "if not params: return self" *)
    | _ => let '(p', ok) := assign p kw in if ok && pvalid p' then (p', true) else (p, false)
    end.
  (* the code before the fix: assign first, validate afterwards (the rejected values stay installed) *)
  Definition set_params_before_fix (p : params) (kw : list (string * V)) : params * bool :=
    match kw with
    | [] => (p, true)
    | _ => let '(p', ok) := assign p kw in if ok then (p', pvalid p') else (p', false)
    end.
  Definition get_params (p : params) : params := p.
End Protocol.

(* ---- ownership: a stored array either belongs to the model or is a view of a caller's array ---- *)
Section Own.
  Variable A : Type.
  Inductive cell := Own (a : A) | View (row : nat).      (* View i = the caller's X[i] itself *)
  Definition resolve (X : list A) (d : A) (c : cell) : A :=
    match c with Own a => a | View i => nth i X d end.
  Definition owned (c : cell) : bool := match c with Own _ => true | View _ => false end.
End Own.

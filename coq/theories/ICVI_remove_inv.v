(* iCVI_CH.remove_sample preserves the structural invariant of ICVI_full.v: after remove_sample + update the tracked
   value is the batch Calinski-Harabasz index of the data that remain (true only since /repo 16fa704: the data mean
   moves by + (mu - x)/(n - 1)). *)
From Coq Require Import List Bool Arith Reals Lra Lia Permutation.
From ART Require Import Num NumR Vec VecR Search Kernel ICVI ICVI_R ICVI_full ICVI_switch ICVI_remove.
Import ListNotations.
Open Scope R_scope.

Theorem remove_sample_inv d (s : chR) (D : data) (j : nat) (x : list R) (l : nat) :
  Struct d s D -> nth_error D j = Some (x, l) -> (2 <= length (members D l))%nat ->
  exists p D', @remove_sample RN s x l = Some p /\ Permutation D (D' ++ [(x, l)]) /\
            Struct d (@update RN s p) D' /\ @batch_ch RN D' d = Some (h_crit (@update RN s p)).
Proof.
  intros St Hj H2.
  destruct (nth_error_split D j Hj) as [D1 [D2 [ED Lj]]].
  set (Dm := D1 ++ D2).
  assert (P1 : Permutation D (Dm ++ [(x, l)])).
  { rewrite ED. unfold Dm. rewrite <- app_assoc. apply Permutation_app_head. cbn. apply Permutation_cons_append. }
  pose proof (Struct_perm d s _ _ P1 St) as St1.
  pose proof St1 as [Hwf Hdim Hn Hmu Hmu0 Hnd Hkeys Hstats Hw].
  assert (Hx : length x = d).
  { apply Forall_app in Hwf. destruct Hwf as [_ Hwf]. inversion Hwf; subst. assumption. }
  assert (Wm : Forall (fun p => length (fst p) = d) Dm) by (apply Forall_app in Hwf; tauto).
  assert (Mold : members (Dm ++ [(x, l)]) l = members Dm l ++ [x]) by apply members_app_same.
  assert (Mne : members Dm l <> []).
  { pose proof (Permutation_length (members_perm _ _ l P1)) as PL. rewrite Mold, app_length in PL. cbn in PL.
    destruct (members Dm l); [cbn in PL; lia|discriminate]. }
  assert (Kold : In l (keys (h_CD s))).
  { apply Hkeys. rewrite map_app, in_app_iff. right. left. reflexivity. }
  destruct (cd_get_present _ _ Kold) as [c Gc].
  pose proof (Hstats _ _ Gc) as Okc. rewrite Mold in Okc.
  destruct (remove_stats_spec s d (members Dm l) c x l (members_wf d Dm l Wm) Mne Hx Gc Okc)
    as [cdr [cpr [Erm [Okr Ecpr]]]].
  assert (LDm : In l (map snd Dm)) by (apply members_nonempty; exact Mne).
  assert (Dne : Dm <> []) by (destruct Dm; [destruct LDm|discriminate]).
  assert (Pne : pts Dm <> []) by (unfold pts; destruct Dm; [congruence|discriminate]).
  (* the global mean and count *)
  assert (Hn' : @nsub RN (h_n s) n1 = INR (length Dm)).
  { rewrite Hn, app_length, plus_INR. cbn. lra. }
  assert (Hpos : 0 < INR (length Dm)) by (apply INR_pos_of_nonempty; exact Dne).
  set (mu' := meanv d (pts Dm)).
  assert (Emu : @vadd RN (h_mu s) (@vscale RN (1 / INR (length Dm)) (@vsub RN (h_mu s) x)) = mu').
  { rewrite (Hmu ltac:(destruct Dm; discriminate)). rewrite pts_app.
    replace (INR (length Dm)) with (INR (length (pts Dm))) by (unfold pts; rewrite map_length; reflexivity).
    apply (meanv_unsnoc d (pts Dm) x (pts_wf d Dm Wm) Pne Hx). }
  (* the state after the removal *)
  set (CD1 := cd_set (h_CD s) l cdr).
  assert (K1 : keys CD1 = keys (h_CD s)) by (apply cd_set_present; exact Kold).
  assert (Nd1 : NoDup (keys CD1)) by (rewrite K1; exact Hnd).
  assert (Keys' : forall l0, In l0 (keys CD1) <-> In l0 (map snd Dm)).
  { intros l0. rewrite K1, Hkeys, map_app, in_app_iff. cbn [map snd In].
    split; [intros [H|[H|[]]]; [exact H|subst l0; exact LDm]|tauto]. }
  assert (Stats' : forall l0 c0, cd_get CD1 l0 = Some c0 -> cluster_ok d (members Dm l0) c0).
  { intros l0 c0 G0. unfold CD1 in G0. destruct (Nat.eq_dec l0 l) as [->|Ho0].
    - rewrite cd_get_set_same in G0. injection G0 as <-. exact Okr.
    - rewrite (cd_get_set_other _ _ _ _ Ho0) in G0. rewrite <- (members_app_other Dm x l l0 Ho0). apply Hstats. exact G0. }
  assert (Wsum : h_WGSS s + cpr = lsum (map CPof CD1)).
  { unfold CD1. rewrite (cd_set_sum_present _ _ _ _ Gc), <- Hw.
    destruct Okc as [_ _ OCPc _]. destruct Okr as [_ _ OCPr _]. rewrite OCPc, OCPr, Ecpr. lra. }
  set (F := fun c0 : cstatR => c_n c0 * @sq RN (vsubR (c_v c0) mu')).
  set (SEP := map (substf F l cdr) (h_CD s)).
  destruct (criterion_defined (length (h_CD s)) (INR (length Dm)) SEP (@nadd RN (h_WGSS s) cpr)) as [cr Ecr].
  set (p := @mkNewp RN (INR (length Dm)) mu' cr l cdr cpr None).
  exists p, Dm.
  assert (Erem : @remove_sample RN s x l = Some p).
  { unfold remove_sample. step_bind Erm. cbv beta iota zeta. rewrite Hn'.
    rewrite (odiv_some (@n1 RN) (INR (length Dm))) by lra. cbn [obind].
    change (@n1 RN / INR (length Dm)) with (1 / INR (length Dm)). rewrite Emu.
    match goal with |- obind (criterion _ _ ?S0 _) _ = _ => replace S0 with SEP end.
    - step_bind Ecr. reflexivity.
    - unfold SEP. apply map_ext. intros [i c0]. unfold substf, F. cbn [fst snd]. reflexivity. }
  split; [exact Erem|]. split; [exact P1|].
  assert (St' : Struct d (@update RN s p) Dm).
  { unfold update, p. cbn [p_label p_CD p_CPdiff p_label2 p_n p_mu p_crit]. fold CD1.
    constructor; cbn [h_dim h_n h_mu h_CD h_WGSS h_crit].
    - exact Wm.
    - exact Hdim.
    - reflexivity.
    - intros _. reflexivity.
    - intros E. contradiction.
    - exact Nd1.
    - exact Keys'.
    - exact Stats'.
    - cbn [nadd RN]. exact Wsum. }
  split; [exact St'|].
  rewrite (batch_from_stats d _ _ St').
  unfold update, p. cbn [p_label p_CD p_CPdiff p_label2 p_n p_mu p_crit h_dim h_n h_mu h_CD h_WGSS h_crit]. fold CD1.
  rewrite <- Ecr.
  assert (Ek : length CD1 = length (h_CD s)).
  { rewrite <- (map_length fst CD1). fold (keys CD1). rewrite K1. apply map_length. }
  rewrite Ek. apply criterion_sum.
  unfold SEP. rewrite (substf_present F l cdr (h_CD s) Hnd Kold). fold CD1. reflexivity.
Qed.

(* TopoART.fit with several epochs (BaseART.fit, max_iter > 1): the sample loop of Topo.v repeated over the same data,
   labels overwritten in place, counters and pruning rounds running on.  In later epochs a surviving category may own no
   sample at a pruning round; the re-indexing is by rank among ALL survivors (Topo.new_index), so the alignment
   invariant is preserved all the same. *)
From Coq Require Import List Bool Arith ZArith Lia.
From ART Require Import Num Vec Search Search_proofs Kernel BaseArt Topo Topo_proofs.
Import ListNotations.

Section E.
  Context {N : Num}.
  Variables (K Klow : Kernel N) (tau phi : nat).

  Fixpoint topo_epochs (n : nat) (s : topo (N:=N)) (X : list (list N)) (veto : vetos) (mode : mt) (eps : N)
    : option (topo (N:=N) * list (list (nat * list N))) :=
    match n with
    | O => Some (s, [])
    | S n' =>
        r <- topo_loop K Klow tau phi s X X 0 veto mode eps ;;
        r' <- topo_epochs n' (fst r) X veto mode eps ;;
        Some (fst r', snd r ++ snd r')
    end.

  (* fit(X, max_iter = S n): the first epoch is Topo.topo_fit (it re-creates adjacency and permanence flags) *)
  Definition topo_fit_iters (s : topo (N:=N)) (X : list (list N)) (iters : nat) (veto : vetos) (mode : mt) (eps : N) :=
    match iters with
    | O => None
    | S n =>
        r <- topo_fit K Klow tau phi s X veto mode eps ;;
        r' <- topo_epochs n (fst r) X veto mode eps ;;
        Some (fst r', snd r ++ snd r')
    end.

  Hypothesis leb_total : forall a b : N, nleb a b = true \/ nleb b a = true.
  Hypothesis leb_trans : forall a b c : N, nleb a b = true -> nleb b c = true -> nleb a c = true.

  Lemma topo_epochs_aligned n : forall s X veto mode eps s' ls,
    Aligned s -> topo_epochs n s X veto mode eps = Some (s', ls) -> Aligned s'.
  Proof.
    induction n as [|n IH]; intros s X veto mode eps s' ls HA H; cbn [topo_epochs] in H.
    - inversion H; subst. exact HA.
    - destruct (topo_loop K Klow tau phi s X X 0 veto mode eps) as [[s1 l1]|] eqn:E1; cbn [obind] in H; [|discriminate].
      cbn [fst snd] in H.
      destruct (topo_epochs n s1 X veto mode eps) as [[s2 l2]|] eqn:E2; cbn [obind] in H; [|discriminate].
      inversion H; subst. eapply IH; [|exact E2].
      eapply (topo_loop_aligned K Klow tau phi leb_total leb_trans); eauto.
  Qed.

  Theorem topo_fit_iters_aligned s X iters veto mode eps s' ls :
    topo_fit_iters s X iters veto mode eps = Some (s', ls) -> X <> [] -> Aligned s'.
  Proof.
    unfold topo_fit_iters. destruct iters as [|n]; [discriminate|].
    destruct (topo_fit K Klow tau phi s X veto mode eps) as [[s1 l1]|] eqn:E1; cbn [obind]; [|discriminate].
    cbn [fst snd].
    destruct (topo_epochs n s1 X veto mode eps) as [[s2 l2]|] eqn:E2; cbn [obind]; [|discriminate].
    intros H Hne. inversion H; subst.
    eapply topo_epochs_aligned; [|exact E2].
    eapply (topo_fit_aligned K Klow tau phi leb_total leb_trans); eauto.
  Qed.

  (* one epoch is the fit of Topo.v *)
  Theorem topo_fit_iters_one s X veto mode eps :
    topo_fit_iters s X 1 veto mode eps = option_map (fun r => (fst r, snd r ++ [])) (topo_fit K Klow tau phi s X veto mode eps).
  Proof.
    unfold topo_fit_iters. destruct (topo_fit K Klow tau phi s X veto mode eps) as [[s1 l1]|]; reflexivity.
  Qed.
End E.

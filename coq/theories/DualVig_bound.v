(* C13, last clause: every base category of DualVigilanceART still obeys the
   base module's upper-vigilance bound.  With match tracking only on vetoed
   categories that passed the upper vigilance (after the fix: commit), the
   vigilance in force never drops below the configured one under every mode
   that never lowers it, so an absorbing category passed a vigilance >= rho;
   instantiated for Fuzzy ART: |w| >= rho d for every base category in every
   reachable step. *)
From Coq Require Import List Bool Arith Reals Lra Lia.
From ART Require Import Num NumR Vec Search Search_proofs Kernel BaseArt BaseArt_proofs
     SimpleARTMAP SimpleARTMAP_proofs DualVig DualVig_proofs Fuzzy Fuzzy_R Bounds_R.
Import ListNotations.
Open Scope R_scope.

Section DB.
  Variable K : Kernel RN.
  Hypothesis K_single : k_inv K = [false].

  Lemma dv_track_raises (Ms : list (list (option RN))) mode eps (v : list RN) c :
    raising mode eps -> length v = 1%nat -> mbin Ms mode (k_inv K) v c = true ->
    length (fst (dv_track Ms mode eps v c)) = 1%nat /\ vig_le v (fst (dv_track Ms mode eps v c)).
  Proof.
    intros Hr Hv Hm. unfold dv_track. unfold mbin in Hm. rewrite K_single in Hm.
    destruct (nth_error Ms c) as [Mc|]; [|discriminate].
    destruct v as [|r [|? ?]]; cbn in Hv; try discriminate.
    destruct Mc as [|[M|] Mc']; cbn [fst]; try (split; [reflexivity|unfold vig_le; cbn; lra]).
    cbn in Hm. apply andb_prop in Hm. destruct Hm as [Hm _].
    split; [reflexivity|]. unfold vig_le. cbn [hd].
    unfold op_pass in Hm. destruct mode; cbn in *; unfold nltb in *; cbn in *.
    - apply Rleb_true in Hm. lra.
    - contradiction.
    - apply negb_true_iff in Hm. apply Rleb_false in Hm. lra.
    - lra.
    - lra.
  Qed.

  (* an absorbing category passed a vigilance at least as large as the one the search started with *)
  Theorem dv_scan_absorb_vig (Ms : list (list (option RN))) mode eps lb veto : raising mode eps ->
    forall l (v : list RN), length v = 1%nat ->
    match fst (fst (dv_scan K Ms mode eps lb veto l v)) with
    | Absorb c => exists v', length v' = 1%nat /\ vig_le v v' /\ mbin Ms mode (k_inv K) v' c = true
    | _ => True
    end.
  Proof.
    intros Hr. induction l as [|c l IH]; intros v Hv; cbn [dv_scan]; [exact I|].
    destruct (veto c) eqn:Hveto.
    - destruct (mbin Ms mode (k_inv K) v c) eqn:Hm; cbn.
      + exists v. split; [exact Hv|]. split; [unfold vig_le; lra|exact Hm].
      + destruct (mbin Ms mode (k_inv K) lb c); cbn; [exact I|].
        specialize (IH v Hv). destruct (dv_scan K Ms mode eps lb veto l v) as [[r v'] lg]. cbn in *. exact IH.
    - destruct (mbin Ms mode (k_inv K) v c) eqn:Hm.
      + destruct (dv_track_raises Ms mode eps v c Hr Hv Hm) as [L1 Hle].
        destruct (dv_track Ms mode eps v c) as [v1 keep]. cbn [fst] in *. destruct keep; [|exact I].
        specialize (IH v1 L1). destruct (dv_scan K Ms mode eps lb veto l v1) as [[r v'] lg]. cbn in *.
        destruct r; try exact I. destruct IH as (v2 & L2 & Hle2 & Hm2). exists v2. split; [exact L2|]. split; [|exact Hm2].
        unfold vig_le in *. lra.
      + specialize (IH v Hv). destruct (dv_scan K Ms mode eps lb veto l v) as [[r v'] lg]. cbn in *. exact IH.
  Qed.
End DB.

(* ---- Fuzzy ART as the base module ---- *)
Section DVFuzzy.
  Variables alpha beta : R.
  Hypothesis Hb : 0 <= beta <= 1.
  Let K := @fuzzyK RN alpha beta.

  Lemma fz_update_ok (x w : list R) (rho0 d M : R) :
    rho0 <= 1 -> 0 < d -> @dim_original RN x = d -> Forall (fun a => 0 <= a) x -> @vsum RN x = d ->
    fz_ok rho0 d (length x) w -> @fuzzy_match RN x w = Some M -> rho0 <= M ->
    fz_ok rho0 d (length x) (@fuzzy_update RN beta x w).
  Proof.
    intros Hr1 Hd Hdo Hx Hsum (Hlw & Hw0 & Hwb) EM HM.
    unfold fuzzy_match, odiv in EM. rewrite Hdo in EM.
    destruct (@neqb RN d n0) eqn:Ed; [discriminate|]. inversion EM as [EM']. clear EM.
    assert (Hmin0 : Forall (fun a => 0 <= a) (@vmin RN x w)).
    { clear - Hx Hw0 Hlw. revert w Hw0 Hlw. induction Hx as [|a x Ha _ IH]; intros [|b w] Hw0 Hlw; cbn in *; try discriminate; constructor.
      - inversion Hw0; subst. apply nmin_glb; assumption.
      - inversion Hw0; subst. apply IH; auto. }
    assert (HMv : rho0 * d <= @vsum RN (@vmin RN x w)).
    { rewrite l1_nonneg in EM' by exact Hmin0. cbn in EM'. rewrite <- EM' in HM.
      apply Rmult_le_compat_r with (r := d) in HM; [|lra]. unfold Rdiv in HM.
      rewrite Rmult_assoc, Rinv_l in HM by lra. lra. }
    rewrite l1_nonneg in Hwb by exact Hw0.
    split; [|split].
    - pose proof (vle_length _ _ (fuzzy_update_le beta Hb x w (eq_sym Hlw))). congruence.
    - apply fuzzy_update_ge0; auto.
    - apply fuzzy_size_bound; auto.
  Qed.

  Theorem dv_fuzzy_step_bound (s : dv (N:=RN)) x veto mode eps lb s' l vl rho0 d :
    raising mode eps -> rho (DB s) = [rho0] -> rho0 <= 1 -> 0 < d ->
    @dim_original RN x = d -> Forall (fun a => 0 <= a) x -> @vsum RN x = d ->
    Forall (fz_ok rho0 d (length x)) (W (DB s)) ->
    dv_step K s x veto mode eps lb = Some (s', l, vl) ->
    Forall (fz_ok rho0 d (length x)) (W (DB s')).
  Proof.
    intros Hr Hrho Hr1 Hd Hdo Hx Hsum HW H.
    assert (Hnew : fz_ok rho0 d (length x) x).
    { split; [reflexivity|]. split; [exact Hx|]. rewrite l1_nonneg by exact Hx. rewrite Hsum. nra. }
    unfold dv_step in H.
    destruct (W (DB s)) as [|w0 Ws] eqn:EW.
    - cbn in H. injection H as Es El Ev. rewrite <- Es. cbn. constructor; [exact Hnew|constructor].
    - set (Wl := w0 :: Ws) in *.
      destruct (omap (k_choice K Wl x) Wl) as [Ts|]; cbn [obind] in H; [|discriminate].
      rewrite dv_search_eq_scan in H.
      match type of H with context [dv_scan K ?Ms mode eps ?lbv ?vf ?ord ?v0] =>
        pose proof (dv_scan_absorb_vig K eq_refl Ms mode eps lbv vf Hr ord v0 ltac:(rewrite Hrho; reflexivity)) as Habs;
        destruct (dv_scan K Ms mode eps lbv vf ord v0) as [[r v'] log] eqn:ES end.
      cbn [fst] in Habs.
      destruct (log_undef _ log); [discriminate|].
      destruct r as [c|c|].
      + destruct (nth_error Wl c) as [w|] eqn:Ew; cbn [obind] in H; [|discriminate].
        cbn [k_update K fuzzyK obind] in H.
        destruct (lookup (dmap s) c) as [lab|]; cbn [obind] in H; [|discriminate].
        injection H as Es El Ev. rewrite <- Es. cbn [DB W set_rho set_weight]. rewrite EW. fold Wl.
        destruct Habs as (v2 & L2 & Hle & Hm2).
        (* the match value of the absorbing category passed v2 >= rho0 *)
        unfold mbin in Hm2. rewrite nth_error_map in Hm2. unfold wt in *. rewrite Ew in Hm2. cbn [option_map k_match K fuzzyK k_inv] in Hm2.
        destruct v2 as [|r2 [|? ?]]; cbn in L2; try discriminate.
        destruct (@fuzzy_match RN x w) as [M|] eqn:EM; cbn in Hm2; [|discriminate].
        rewrite andb_true_r in Hm2.
        assert (HM : rho0 <= M).
        { unfold vig_le in Hle. rewrite Hrho in Hle. cbn in Hle. unfold op_pass in Hm2.
          destruct (mt_strict mode); unfold nltb in Hm2; cbn in Hm2.
          - apply negb_true_iff in Hm2. apply Rleb_false in Hm2. lra.
          - apply Rleb_true in Hm2. lra. }
        assert (Hok : fz_ok rho0 d (length x) w).
        { rewrite Forall_forall in HW. apply HW. eapply nth_error_In; eauto. }
        pose proof (fz_update_ok x w rho0 d M Hr1 Hd Hdo Hx Hsum Hok EM HM) as Hup.
        assert (Hc : (c < length Wl)%nat) by (apply nth_error_Some; congruence).
        apply Forall_forall. intros y Hy. apply In_nth_error in Hy as [j Hj].
        destruct (Nat.eq_dec j c) as [->|Hne].
        * rewrite set_nth_same in Hj by exact Hc. inversion Hj; subst y. exact Hup.
        * rewrite set_nth_other in Hj by exact Hne. rewrite Forall_forall in HW. apply HW. eapply nth_error_In; eauto.
      + cbn [k_new K fuzzyK obind] in H.
        destruct (lookup (dmap s) c) as [lab|]; cbn [obind] in H; [|discriminate].
        injection H as Es El Ev. rewrite <- Es. cbn [DB W set_rho add_weight]. rewrite EW. fold Wl. apply Forall_app. split; [exact HW|constructor; [exact Hnew|constructor]].
      + cbn [k_new K fuzzyK obind] in H.
        injection H as Es El Ev. rewrite <- Es. cbn [DB W set_rho add_weight]. rewrite EW. fold Wl. apply Forall_app. split; [exact HW|constructor; [exact Hnew|constructor]].
  Qed.
End DVFuzzy.

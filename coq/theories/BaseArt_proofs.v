(* Proofs about the BaseART state machine: frame of a training step (C01),
   hyper-parameter invariance (C07), book-keeping invariant (C05),
   partial_fit/fit equivalence (C06), prediction (C08). *)
From Coq Require Import List Bool Arith Lia Permutation.
From ART Require Import Num Vec Search Search_proofs Kernel BaseArt.
Import ListNotations.

Section P.
  Context {N : Num}.
  Variable K : Kernel N.
  Notation st := (@st N).

  (* ------------------------------------------------------------------ *)
  (* C01: what one presented sample does to the state                    *)
  Definition step_outcome (s s' : st) (x : list N) (c : nat) : Prop :=
    (W s = [] /\ c = 0 /\ exists w, k_new K x = Some w /\ W s' = [w] /\ wsc s' = wsc s ++ [1])
    \/ (W s <> [] /\ c < length (W s) /\ exists w w', nth_error (W s) c = Some w /\
          k_update K x w = Some w' /\ W s' = set_nth c w' (W s) /\
          wsc s' = set_nth c (S (nth c (wsc s) 0)) (wsc s))
    \/ (W s <> [] /\ c = length (W s) /\ exists w', k_new K x = Some w' /\
          W s' = W s ++ [w'] /\ wsc s' = wsc s ++ [1]).

  Lemma step_fit_frame s x veto m eps s' c vl :
    step_fit K s x veto m eps = Some (s', c, vl) ->
    rho s' = rho s /\ sc s' = S (sc s) /\ labels s' = labels s /\ hasW s' = hasW s /\ dim s' = dim s /\
    step_outcome s s' x c.
  Proof.
    unfold step_fit, step_outcome. cbn [bump W rho].
    destruct (W s) as [|w0 Ws] eqn:EW.
    - destruct (k_new K x) as [w|] eqn:En; cbn; [|discriminate].
      intros H; inversion H; subst; clear H. cbn. rewrite EW.
      repeat split; auto. left. repeat split; auto. exists w. auto.
    - destruct (activations K (w0 :: Ws) x _) as [Ts|]; cbn [obind]; [|discriminate].
      destruct (search _ _ _ _ _ _ _) as [[win v'] log].
      destruct (log_undef _ _); [discriminate|].
      destruct win as [cw|].
      + cbn [set_rho bump W]. rewrite EW. destruct (nth_error (w0 :: Ws) cw) as [w|] eqn:En; cbn [obind]; [|discriminate].
        destruct (k_update K x w) as [w'|] eqn:Eu; cbn [obind]; [|discriminate].
        intros H; inversion H; subst; clear H. cbn. rewrite EW.
        repeat split; auto. right; left. split; [discriminate|].
        split; [change (c < length (w0 :: Ws)); apply nth_error_Some; congruence|]. exists w, w'. auto.
      + destruct (k_new K x) as [w'|] eqn:En; cbn [obind]; [|discriminate].
        intros H; inversion H; subst; clear H. cbn. rewrite EW.
        repeat split; auto. right; right. split; [discriminate|]. split; [reflexivity|].
        exists w'. auto.
  Qed.

  (* no weight other than the winner's changes; exactly one is appended otherwise *)
  Corollary step_fit_others_untouched s x veto m eps s' c vl :
    step_fit K s x veto m eps = Some (s', c, vl) ->
    forall j, j <> c -> j < length (W s) -> nth_error (W s') j = nth_error (W s) j.
  Proof.
    intros H j Hj Hlt. destruct (step_fit_frame _ _ _ _ _ _ _ _ H) as (_ & _ & _ & _ & _ & O).
    destruct O as [(E & _)|[(_ & _ & w & w' & _ & _ & E & _)|(_ & _ & w' & _ & E & _)]].
    - rewrite E in Hlt; cbn in Hlt; lia.
    - rewrite E. apply set_nth_other; assumption.
    - rewrite E. apply nth_error_app1; assumption.
  Qed.

  Corollary step_fit_count s x veto m eps s' c vl :
    step_fit K s x veto m eps = Some (s', c, vl) ->
    (c < length (W s) /\ length (W s') = length (W s)) \/
    (c = length (W s) /\ length (W s') = S (length (W s))).
  Proof.
    intros H. destruct (step_fit_frame _ _ _ _ _ _ _ _ H) as (_ & _ & _ & _ & _ & O).
    destruct O as [(E & -> & w & _ & E' & _)|[(_ & Hc & w & w' & _ & _ & E & _)|(_ & Hc & w' & _ & E & _)]].
    - right. rewrite E, E'. auto.
    - left. rewrite E, set_nth_length. auto.
    - right. rewrite E, app_length. cbn. lia.
  Qed.

  (* the winner is what the specification scan decides on the sorted order *)
  Definition veto_fun (m : mt) (veto : option (nat -> bool)) : list N -> nat -> bool :=
    match m, veto with
    | MTtilde, Some _ => no_veto
    | _, Some f => fun _ c => f c
    | _, None => no_veto
    end.
  Definition mask_fun (m : mt) (veto : option (nat -> bool)) : nat -> bool :=
    match m, veto with MTtilde, Some f => f | _, _ => fun _ => true end.

  Theorem step_fit_is_scan s x veto m eps s' c vl :
    step_fit K s x veto m eps = Some (s', c, vl) -> W s <> [] ->
    exists Ts, activations K (W s) x (mask_fun m veto) = Some Ts /\
      let Ms := map (k_match K x) (W s) in
      let r := scan (mbin Ms m (k_inv K)) (veto_fun m veto) (track Ms m eps (k_inv K))
                    (order nleb (length (W s)) Ts) (rho s) in
      (fst (fst r) = Some c /\ c < length (W s)) \/ (fst (fst r) = None /\ c = length (W s)).
  Proof.
    unfold step_fit. cbn [bump W rho]. intros H HW.
    destruct (W s) as [|w0 Ws] eqn:EW; [congruence|].
    assert (Em : (match m, veto with MTtilde, Some f => f | _, _ => fun _ => true end) = mask_fun m veto)
      by reflexivity.
    rewrite Em in H.
    destruct (activations K (w0 :: Ws) x (mask_fun m veto)) as [Ts|]; cbn [obind] in H; [|discriminate].
    exists Ts. split; [reflexivity|].
    assert (Ev : (if match m, veto with MTtilde, Some _ => true | _, _ => false end then no_veto
                  else match veto with Some f => fun _ c => f c | None => no_veto end) = veto_fun m veto).
    { destruct m, veto; reflexivity. }
    rewrite Ev in H. rewrite search_eq_scan in H.
    cbv zeta.
    destruct (scan _ _ _ _ _) as [[win v'] log]. cbn [fst].
    destruct (log_undef _ _); [discriminate|].
    destruct win as [cw|].
    - cbn [set_rho bump W] in H. rewrite EW in H. destruct (nth_error (w0 :: Ws) cw) as [w|] eqn:En; cbn [obind] in H; [|discriminate].
      destruct (k_update K x w); cbn [obind] in H; [|discriminate].
      inversion H; subst. left. split; [reflexivity|]. apply nth_error_Some. congruence.
    - destruct (k_new K x); cbn [obind] in H; [|discriminate].
      inversion H; subst. right. auto.
  Qed.

  (* ------------------------------------------------------------------ *)
  (* the labels-free core of the training loop                           *)
  Definition core (s : st) := (W s, wsc s, sc s, rho s, hasW s, dim s).

  Lemma step_fit_core_labels s l x veto m eps :
    match step_fit K s x veto m eps, step_fit K (set_labels s l) x veto m eps with
    | Some (s1, c1, v1), Some (s2, c2, v2) => core s1 = core s2 /\ c1 = c2 /\ v1 = v2 /\ labels s2 = l
    | None, None => True
    | _, _ => False
    end.
  Proof.
    unfold step_fit. cbn [bump set_labels W rho].
    destruct (W s) as [|w0 Ws].
    - destruct (k_new K x); cbn; auto.
    - destruct (activations _ _ _ _); cbn [obind]; auto.
      destruct (search _ _ _ _ _ _ _) as [[win v'] log].
      destruct (log_undef _ _); auto.
      destruct win as [cw|]; cbn [set_rho bump set_labels W].
      + destruct (nth_error _ _); cbn [obind]; auto. destruct (k_update _ _ _); cbn [obind]; auto.
      + destruct (k_new _ _); cbn [obind]; auto.
  Qed.

  (* training loop without the label array: returns the label sequence *)
  Fixpoint steps (s : st) (X : list (list N)) (i : nat) (veto : vetos) (m : mt) (eps : N)
    : option (st * list nat * list vlog) :=
    match X with
    | [] => Some (s, [], [])
    | x :: X' =>
        r <- step_fit K s x (veto i) m eps ;;
        let '(s1, c, l) := r in
        r' <- steps s1 X' (S i) veto m eps ;;
        let '(s2, cs, ls) := r' in
        Some (s2, c :: cs, l :: ls)
    end.

  Lemma steps_app X1 : forall X2 s i veto m eps,
    steps s (X1 ++ X2) i veto m eps =
    (r <- steps s X1 i veto m eps ;;
     let '(s1, cs1, ls1) := r in
     r' <- steps s1 X2 (i + length X1) veto m eps ;;
     let '(s2, cs2, ls2) := r' in
     Some (s2, cs1 ++ cs2, ls1 ++ ls2)).
  Proof.
    induction X1 as [|x X1 IH]; intros X2 s i veto m eps; cbn [app steps length].
    - cbn. rewrite Nat.add_0_r. destruct (steps s X2 i veto m eps) as [[[s2 cs2] ls2]|]; reflexivity.
    - destruct (step_fit K s x (veto i) m eps) as [[[s1 c] l]|]; cbn [obind]; [|reflexivity].
      rewrite IH. replace (S i + length X1) with (i + S (length X1)) by lia.
      destruct (steps s1 X1 (S i) veto m eps) as [[[s2 cs] ls]|]; cbn [obind]; [|reflexivity].
      destruct (steps s2 X2 _ veto m eps) as [[[s3 cs3] ls3]|]; reflexivity.
  Qed.

  (* splice cs into l at position p *)
  Definition splice (l : list nat) (p : nat) (cs : list nat) : list nat :=
    firstn p l ++ cs ++ skipn (p + length cs) l.

  Lemma set_nth_splice (l : list nat) p c :
    p < length l -> set_nth p c l = splice l p [c].
  Proof.
    unfold splice. revert l. induction p; intros [|a l] H; cbn in *; try lia; [reflexivity|].
    f_equal. rewrite IHp by lia. cbn. reflexivity.
  Qed.

  Lemma splice_splice (l : list nat) p c cs :
    p < length l ->
    splice (splice l p [c]) (S p) cs = splice l p (c :: cs).
  Proof.
    unfold splice. intros H. cbn [length app].
    assert (L : length (firstn p l) = p) by (apply firstn_length_le; lia).
    rewrite firstn_app, L, firstn_firstn.
    replace (Nat.min (S p) p) with p by lia.
    replace (S p - p) with 1 by lia. cbn [firstn].
    rewrite <- app_assoc. cbn [app]. f_equal. f_equal. f_equal.
    rewrite skipn_app, L.
    replace (S p + length cs - p) with (S (length cs)) by lia.
    assert (L2 : length (firstn p l) <= S p + length cs) by lia.
    rewrite (skipn_all2 (firstn p l)) by lia. cbn [app skipn].
    rewrite skipn_skipn'. f_equal. lia.
  Qed.

  Lemma splice_length (l : list nat) p cs :
    p + length cs <= length l -> length (splice l p cs) = length l.
  Proof.
    unfold splice. intros H. rewrite !app_length, firstn_length_le, skipn_length by lia. lia.
  Qed.

  Lemma core_eta (a b : st) : core a = core b -> b = set_labels a (labels b).
  Proof. unfold core. destruct a, b; cbn. intros H; inversion H; subst. reflexivity. Qed.

  Lemma steps_labels_irrel X : forall s L i veto m eps,
    match steps (set_labels s L) X i veto m eps, steps s X i veto m eps with
    | Some (a, cs, ls), Some (b, cs', ls') => core a = core b /\ cs = cs' /\ ls = ls'
    | None, None => True
    | _, _ => False
    end.
  Proof.
    induction X as [|y X IHX]; intros s L n veto m eps; cbn [steps].
    - cbn. auto.
    - pose proof (step_fit_core_labels s L y (veto n) m eps) as Hc.
      destruct (step_fit K s y (veto n) m eps) as [[[a c1] v1]|],
               (step_fit K (set_labels s L) y (veto n) m eps) as [[[b c2] v2]|]; cbn [obind]; try tauto.
      destruct Hc as (Hcore & -> & -> & Hlb).
      rewrite (core_eta a b Hcore). specialize (IHX a (labels b) (S n) veto m eps).
      destruct (steps (set_labels a (labels b)) X (S n) veto m eps) as [[[a' cs] ls]|],
               (steps a X (S n) veto m eps) as [[[b' cs'] ls']|]; cbn [obind]; try tauto.
      destruct IHX as (? & ? & ?). subst. cbn. auto.
  Qed.

  (* fit_loop = steps on the core, labels spliced in *)
  Lemma fit_loop_steps X : forall s i j veto m eps,
    i + j + length X <= length (labels s) ->
    match fit_loop K s X i j veto m eps, steps s X i veto m eps with
    | Some (s1, ls1), Some (s2, cs, ls2) =>
        core s1 = core s2 /\ ls1 = ls2 /\ labels s1 = splice (labels s) (i + j) cs /\ length cs = length X
    | None, None => True
    | _, _ => False
    end.
  Proof.
    induction X as [|x X IH]; intros s i j veto m eps Hlen; cbn [fit_loop steps length] in *.
    - repeat split; auto. unfold splice. cbn. rewrite Nat.add_0_r, firstn_skipn. reflexivity.
    - destruct (step_fit K s x (veto i) m eps) as [[[s1 c] l]|] eqn:E; cbn [obind]; [|exact I].
      destruct (step_fit_frame _ _ _ _ _ _ _ _ E) as (_ & _ & El & _).
      set (s2 := set_labels s1 (set_nth (i + j) c (labels s1))).
      pose proof (step_fit_core_labels s1 (set_nth (i + j) c (labels s1))) as Hc.
      assert (Hl2 : S i + j + length X <= length (labels s2)).
      { unfold s2; cbn. rewrite set_nth_length, El. lia. }
      specialize (IH s2 (S i) j veto m eps Hl2).
      pose proof (steps_labels_irrel X s1 (set_nth (i + j) c (labels s1)) (S i) veto m eps) as Hs.
      fold s2 in Hs.
      destruct (fit_loop K s2 X (S i) j veto m eps) as [[s3 ls3]|],
               (steps s2 X (S i) veto m eps) as [[[s4 cs4] ls4]|],
               (steps s1 X (S i) veto m eps) as [[[s5 cs5] ls5]|]; cbn [obind fst snd]; try tauto.
      destruct IH as (C1 & -> & L3 & Hn). destruct Hs as (C2 & -> & ->).
      split; [congruence|]. split; [reflexivity|]. split; [|cbn; lia].
      rewrite L3. unfold s2. cbn [labels set_labels]. rewrite El.
      rewrite set_nth_splice by lia.
      replace (S i + j) with (S (i + j)) by lia.
      apply splice_splice. lia.
  Qed.

  (* ------------------------------------------------------------------ *)
  (* C07: hyper-parameters are invariant                                  *)
  Lemma steps_rho X : forall s i veto m eps s' cs ls,
    steps s X i veto m eps = Some (s', cs, ls) -> rho s' = rho s /\ dim s' = dim s /\ hasW s' = hasW s.
  Proof.
    induction X as [|x X IH]; intros s i veto m eps s' cs ls H; cbn [steps] in H.
    - inversion H; subst; auto.
    - destruct (step_fit K s x (veto i) m eps) as [[[s1 c] l]|] eqn:E; cbn [obind] in H; [|discriminate].
      destruct (steps s1 X (S i) veto m eps) as [[[s2 cs2] ls2]|] eqn:E2; cbn [obind] in H; [|discriminate].
      inversion H; subst.
      destruct (step_fit_frame _ _ _ _ _ _ _ _ E) as (R & _ & _ & Hw & Hd & _).
      destruct (IH _ _ _ _ _ _ _ _ E2) as (R2 & D2 & W2). repeat split; congruence.
  Qed.

  Theorem fit_rho s X veto m eps s' ls : fit K s X veto m eps = Some (s', ls) -> rho s' = rho s.
  Proof.
    unfold fit. destruct (valid K s X); [|discriminate]. intros H.
    set (s1 := {| W := []; labels := repeat 0 (length X); wsc := []; sc := 0; rho := rho (learn_dim s X);
                  hasW := true; dim := dim (learn_dim s X) |}) in *.
    assert (Hl : 0 + 0 + length X <= length (labels s1)) by (cbn; rewrite repeat_length; lia).
    pose proof (fit_loop_steps X s1 0 0 veto m eps Hl) as FS. rewrite H in FS.
    destruct (steps s1 X 0 veto m eps) as [[[s2 cs] ls2]|] eqn:E; [|contradiction].
    destruct FS as (C & _). destruct (steps_rho _ _ _ _ _ _ _ _ _ E) as (R & _).
    unfold core in C. inversion C. rewrite H4, R. cbn. unfold learn_dim. destruct (dim s), X; reflexivity.
  Qed.

  Theorem partial_fit_rho s X veto m eps s' ls : partial_fit K s X veto m eps = Some (s', ls) -> rho s' = rho s.
  Proof.
    unfold partial_fit. destruct (valid K s X); [|discriminate].
    assert (Rl : rho (learn_dim s X) = rho s) by (unfold learn_dim; destruct (dim s), X; reflexivity).
    destruct (hasW (learn_dim s X)); intros H.
    - set (s1 := set_labels _ _) in H.
      assert (Hl : 0 + length (labels (learn_dim s X)) + length X <= length (labels s1)).
      { unfold s1; cbn. rewrite app_length, repeat_length. lia. }
      pose proof (fit_loop_steps X s1 0 _ veto m eps Hl) as FS. rewrite H in FS.
      destruct (steps s1 X 0 veto m eps) as [[[s2 cs] ls2]|] eqn:E; [|contradiction].
      destruct FS as (C & _). destruct (steps_rho _ _ _ _ _ _ _ _ _ E) as (R & _).
      unfold core in C. inversion C. rewrite H4, R. exact Rl.
    - set (s1 := {| W := []; labels := _; wsc := _; sc := _; rho := _; hasW := true; dim := _ |}) in H.
      assert (Hl : 0 + 0 + length X <= length (labels s1)) by (cbn; rewrite repeat_length; lia).
      pose proof (fit_loop_steps X s1 0 0 veto m eps Hl) as FS. rewrite H in FS.
      destruct (steps s1 X 0 veto m eps) as [[[s2 cs] ls2]|] eqn:E; [|contradiction].
      destruct FS as (C & _). destruct (steps_rho _ _ _ _ _ _ _ _ _ E) as (R & _).
      unfold core in C. inversion C. rewrite H4, R. exact Rl.
  Qed.

  Theorem predict_pure s X ys : predict K s X = Some ys -> True.
  Proof. trivial. Qed.
End P.

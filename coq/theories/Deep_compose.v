(* C08 / C12, DeepARTMAP.predict (artlib/hierarchical/DeepARTMAP.py): every coarser level of a prediction is the
   COMPOSITION of the layers' category-to-class maps applied to the finest layer's B-side prediction - level k above
   the finest is map_up through the first k+1 layers, i.e. what map_deep computes - not any single map applied to the
   finest prediction (wave-7 seed C08_7 mapped the finest B-side labels at every level). *)
From Coq Require Import List Bool Arith Lia.
From ART Require Import Num Vec Search Kernel BaseArt SimpleARTMAP Deep.
Import ListNotations.

Section DC.
  Context {N : Num}.

  Theorem preds_up_is_composition : forall (rs : list (sam (N:=N))) cur up,
    preds_up rs cur = Some up ->
    forall k col, nth_error up k = Some col -> map_up (firstn (S k) rs) cur = Some col.
  Proof.
    induction rs as [|l rest IH]; intros cur up H k col Hk.
    - cbn in H. inversion H; subst. destruct k; discriminate Hk.
    - cbn [preds_up] in H.
      destruct (map_a2b (mp l) cur) as [yb|] eqn:Ey; cbn [obind] in H; [|discriminate].
      destruct (preds_up rest yb) as [r|] eqn:Er; cbn [obind] in H; [|discriminate].
      inversion H; subst up; clear H.
      destruct k as [|k]; cbn [nth_error] in Hk.
      + inversion Hk; subst col. cbn [firstn map_up]. rewrite Ey. cbn [obind]. reflexivity.
      + change (firstn (S (S k)) (l :: rest)) with (l :: firstn (S k) rest). cbn [map_up]. rewrite Ey. cbn [obind].
        exact (IH yb r Er k col Hk).
  Qed.

  (* as many levels as layers *)
  Theorem preds_up_length : forall (rs : list (sam (N:=N))) cur up, preds_up rs cur = Some up -> length up = length rs.
  Proof.
    induction rs as [|l rest IH]; intros cur up H; cbn [preds_up] in H.
    - inversion H; reflexivity.
    - destruct (map_a2b (mp l) cur) as [yb|]; cbn [obind] in H; [|discriminate].
      destruct (preds_up rest yb) as [r|] eqn:Er; cbn [obind] in H; [|discriminate].
      inversion H; subst. cbn. f_equal. exact (IH yb r Er).
  Qed.
End DC.

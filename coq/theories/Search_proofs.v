(* Proofs about the generic search: nanargmax picks the first maximum, the
   visiting order is a duplicate-free sorted enumeration of the live (non-NaN)
   categories, and the NaN-masking loop equals a left-to-right scan of it. *)
From Coq Require Import List Bool Arith Lia.
From ART Require Import Search.
Import ListNotations.

Section Proofs.
  Variables A V : Type.
  Variable leb : A -> A -> bool.
  Hypothesis leb_total : forall a b, leb a b = true \/ leb b a = true.
  Hypothesis leb_trans : forall a b c, leb a b = true -> leb b c = true -> leb a c = true.
  Variable mbin : V -> nat -> bool.
  Variable veto_ok : V -> nat -> bool.
  Variable track : V -> nat -> V * bool.

  Notation nanargmax := (nanargmax leb).
  Notation amax := (amax leb).
  Notation order := (order leb).
  Notation search := (search leb mbin veto_ok track).
  Notation scan := (scan mbin veto_ok track).

  Lemma leb_refl a : leb a a = true.
  Proof. destruct (leb_total a a); assumption. Qed.

  (* ---------- search = scan ---------- *)
  Theorem search_eq_scan fuel : forall v T, search fuel v T = scan (order fuel T) v.
  Proof.
    induction fuel as [|f IH]; intros v T; cbn; [reflexivity|].
    destruct (nanargmax T) as [c|]; cbn; [|reflexivity].
    destruct (mbin v c), (veto_ok v c); cbn; try reflexivity.
    - destruct (track v c) as [v' keep]. destruct keep; [rewrite IH|]; reflexivity.
    - rewrite IH; reflexivity.
    - rewrite IH; reflexivity.
  Qed.

  (* ---------- nanargmax ---------- *)
  Definition is_first_max (T : list (option A)) (c : nat) (a : A) : Prop :=
    nth_error T c = Some (Some a) /\
    (forall j b, nth_error T j = Some (Some b) -> leb b a = true) /\
    (forall j b, j < c -> nth_error T j = Some (Some b) -> leb a b = false).

  Lemma amax_spec : forall T i best,
    (match best with None => True | Some (c, _) => c < i end) ->
    match amax i best T with
    | None => best = None /\ forall j, j < length T -> nth_error T j = Some None
    | Some (c, a) =>
        (best = Some (c, a) /\ forall j b, nth_error T j = Some (Some b) -> leb b a = true)
        \/ (i <= c /\ nth_error T (c - i) = Some (Some a)
            /\ (forall j b, nth_error T j = Some (Some b) -> leb b a = true)
            /\ (forall j b, j < c - i -> nth_error T j = Some (Some b) -> leb a b = false)
            /\ (match best with None => True | Some (_, b0) => leb a b0 = false end))
    end.
  Proof.
    induction T as [|t T IH]; intros i best Hb; cbn.
    - destruct best as [[c a]|]; [left; split; [reflexivity|]|split; [reflexivity|]].
      + intros j b H; destruct j; discriminate.
      + intros j H; lia.
    - destruct t as [a|].
      + destruct best as [[c0 b0]|].
        * destruct (leb a b0) eqn:Hab.
          -- specialize (IH (S i) (Some (c0, b0))). cbn in IH.
             assert (Hlt : c0 < S i) by lia. specialize (IH Hlt).
             destruct (amax (S i) (Some (c0, b0)) T) as [[c x]|].
             ++ destruct IH as [[E Hmax]|(Hle & Hn & Hmax & Hfirst & Hb0)].
                ** left. split; [exact E|]. inversion E; subst. intros j b Hj.
                   destruct j; cbn in Hj; [inversion Hj; subst; exact Hab|eauto].
                ** right. split; [lia|]. replace (c - i) with (S (c - S i)) by lia. cbn.
                   split; [exact Hn|]. split; [|split].
                   --- intros j b Hj. destruct j; cbn in Hj; [|eauto].
                       inversion Hj; subst.
                       destruct (leb_total b x) as [H|H]; [exact H|].
                       pose proof (leb_trans _ _ _ H Hab). congruence.
                   --- intros j b Hj Hnth. destruct j; cbn in Hnth.
                       +++ inversion Hnth; subst.
                           destruct (leb x b) eqn:E; [|reflexivity].
                           pose proof (leb_trans _ _ _ E Hab). congruence.
                       +++ apply (Hfirst j b); [lia|exact Hnth].
                   --- exact Hb0.
             ++ destruct IH as [E _]; discriminate.
          -- specialize (IH (S i) (Some (i, a))). cbn in IH.
             assert (Hlt : i < S i) by lia. specialize (IH Hlt).
             destruct (amax (S i) (Some (i, a)) T) as [[c x]|].
             ++ destruct IH as [[E Hmax]|(Hle & Hn & Hmax & Hfirst & Hb0)].
                ** inversion E; subst c x. right. split; [lia|].
                   replace (i - i) with 0 by lia. cbn. split; [reflexivity|]. split; [|split].
                   --- intros j b Hj. destruct j; cbn in Hj; [inversion Hj; subst; apply leb_refl|eauto].
                   --- intros j b Hj; lia.
                   --- exact Hab.
                ** right. split; [lia|]. replace (c - i) with (S (c - S i)) by lia. cbn.
                   split; [exact Hn|]. split; [|split].
                   --- intros j b Hj. destruct j; cbn in Hj; [|eauto].
                       inversion Hj; subst.
                       destruct (leb_total b x) as [H|H]; [exact H|congruence].
                   --- intros j b Hj Hnth. destruct j; cbn in Hnth.
                       +++ inversion Hnth; subst. exact Hb0.
                       +++ apply (Hfirst j b); [lia|exact Hnth].
                   --- destruct (leb x b0) eqn:E; [|reflexivity].
                       destruct (leb_total a x) as [H|H]; [|congruence].
                       pose proof (leb_trans _ _ _ H E). congruence.
             ++ destruct IH as [E _]; discriminate.
        * specialize (IH (S i) (Some (i, a))). cbn in IH.
          assert (Hlt : i < S i) by lia. specialize (IH Hlt).
          destruct (amax (S i) (Some (i, a)) T) as [[c x]|].
          -- destruct IH as [[E Hmax]|(Hle & Hn & Hmax & Hfirst & Hb0)].
             ++ inversion E; subst c x. right. split; [lia|].
                replace (i - i) with 0 by lia. cbn. split; [reflexivity|]. split; [|split; [|exact I]].
                ** intros j b Hj. destruct j; cbn in Hj; [inversion Hj; subst; apply leb_refl|eauto].
                ** intros j b Hj; lia.
             ++ right. split; [lia|]. replace (c - i) with (S (c - S i)) by lia. cbn.
                split; [exact Hn|]. split; [|split; [|exact I]].
                ** intros j b Hj. destruct j; cbn in Hj; [|eauto].
                   inversion Hj; subst.
                   destruct (leb_total b x) as [H|H]; [exact H|congruence].
                ** intros j b Hj Hnth. destruct j; cbn in Hnth.
                   --- inversion Hnth; subst. exact Hb0.
                   --- apply (Hfirst j b); [lia|exact Hnth].
          -- destruct IH as [E _]; discriminate.
      + specialize (IH (S i) best).
        assert (Hb' : match best with None => True | Some (c, _) => c < S i end)
          by (destruct best as [[c ?]|]; [lia|exact I]).
        specialize (IH Hb').
        destruct (amax (S i) best T) as [[c x]|].
        * destruct IH as [[E Hmax]|(Hle & Hn & Hmax & Hfirst & Hb0)].
          -- left. split; [exact E|]. intros j b Hj. destruct j; cbn in Hj; [discriminate|eauto].
          -- right. split; [lia|]. replace (c - i) with (S (c - S i)) by lia. cbn.
             split; [exact Hn|]. split; [|split].
             ++ intros j b Hj. destruct j; cbn in Hj; [discriminate|eauto].
             ++ intros j b Hj Hnth. destruct j; cbn in Hnth; [discriminate|].
                apply (Hfirst j b); [lia|exact Hnth].
             ++ exact Hb0.
        * destruct IH as [E Hall]. split; [exact E|].
          intros j Hj. destruct j; cbn; [reflexivity|]. apply Hall. cbn in Hj. lia.
  Qed.

  Theorem nanargmax_spec : forall T,
    match nanargmax T with
    | Some c => exists a, is_first_max T c a
    | None => forall j, j < length T -> nth_error T j = Some None
    end.
  Proof.
    intros T. unfold Search.nanargmax. pose proof (amax_spec T 0 None I) as S.
    destruct (amax 0 None T) as [[c a]|]; cbn.
    - exists a. destruct S as [[E _]|(_ & Hn & Hmax & Hfirst & _)]; [discriminate|].
      rewrite Nat.sub_0_r in *. repeat split; assumption.
    - destruct S as [_ H]; exact H.
  Qed.

  (* ---------- the visiting order ---------- *)
  Definition live (T : list (option A)) (c : nat) (a : A) := nth_error T c = Some (Some a).
  Fixpoint nlive (T : list (option A)) : nat :=
    match T with [] => 0 | Some _ :: T' => S (nlive T') | None :: T' => nlive T' end.

  Lemma set_nan_length c : forall T : list (option A), length (set_nan c T) = length T.
  Proof. induction c; intros [|t T]; cbn; auto. Qed.
  Lemma set_nan_same c : forall T : list (option A), c < length T -> nth_error (set_nan c T) c = Some None.
  Proof. induction c; intros [|t T] H; cbn in *; try lia; auto. apply IHc; lia. Qed.
  Lemma set_nan_other c : forall (T : list (option A)) j, j <> c -> nth_error (set_nan c T) j = nth_error T j.
  Proof.
    induction c; intros [|t T] j H; cbn; auto.
    - destruct j; [congruence|reflexivity].
    - destruct j; [reflexivity|]. cbn. apply IHc. congruence.
  Qed.
  Lemma nlive_set_nan c : forall T a, live T c a -> S (nlive (set_nan c T)) = nlive T.
  Proof.
    unfold live. induction c; intros [|t T] a H; cbn in *; try discriminate.
    - inversion H; subst. reflexivity.
    - destruct t; cbn; [f_equal|]; eapply IHc; eauto.
  Qed.
  Lemma nlive_zero : forall T, nlive T = 0 -> forall j a, ~ live T j a.
  Proof.
    unfold live. induction T as [|t T IH]; intros H j a Hj.
    - destruct j; discriminate.
    - destruct t; cbn in H; [discriminate|]. destruct j; cbn in Hj; [discriminate|]. eapply IH; eauto.
  Qed.
  Lemma nlive_le_length : forall T, nlive T <= length T.
  Proof. induction T as [|[a|] T IH]; cbn; lia. Qed.
  Lemma nth_error_lt {B} (l : list B) j x : nth_error l j = Some x -> j < length l.
  Proof. intros H. apply nth_error_Some. congruence. Qed.

  Lemma order_sound fuel : forall T c, In c (order fuel T) -> exists a, live T c a.
  Proof.
    induction fuel as [|f IH]; intros T c H; cbn in H; [contradiction|].
    pose proof (nanargmax_spec T) as S. destruct (nanargmax T) as [c0|]; [|contradiction].
    destruct S as [a (Hc & _)]. destruct H as [->|H]; [eauto|].
    destruct (IH _ _ H) as [b Hb]. unfold live in *.
    destruct (Nat.eq_dec c c0) as [->|Hne].
    - rewrite set_nan_same in Hb by (eapply nth_error_lt; eauto). discriminate.
    - rewrite set_nan_other in Hb by assumption. eauto.
  Qed.

  Lemma order_complete fuel : forall T, nlive T <= fuel -> forall c a, live T c a -> In c (order fuel T).
  Proof.
    induction fuel as [|f IH]; intros T Hf c a Hl.
    - exfalso. eapply nlive_zero; eauto. lia.
    - cbn. pose proof (nanargmax_spec T) as S. destruct (nanargmax T) as [c0|].
      + destruct S as [a0 (Hc0 & _)]. destruct (Nat.eq_dec c c0) as [->|Hne]; [left; reflexivity|right].
        apply (IH (set_nan c0 T)) with a.
        * pose proof (nlive_set_nan c0 T a0 Hc0). lia.
        * unfold live. rewrite set_nan_other by assumption. exact Hl.
      + unfold live in Hl. rewrite S in Hl by (eapply nth_error_lt; eauto). discriminate.
  Qed.

  Lemma order_nodup fuel : forall T, NoDup (order fuel T).
  Proof.
    induction fuel as [|f IH]; intros T; cbn; [constructor|].
    pose proof (nanargmax_spec T) as S. destruct (nanargmax T) as [c0|]; [|constructor].
    constructor; [|apply IH]. intros H. destruct (order_sound _ _ _ H) as [b Hb].
    destruct S as [a (Hc & _)]. unfold live in Hb.
    rewrite set_nan_same in Hb by (eapply nth_error_lt; eauto). discriminate.
  Qed.

  (* earlier-visited is >=, and on ties has the smaller index *)
  Definition before_ok (T : list (option A)) (c1 c2 : nat) : Prop :=
    forall a1 a2, live T c1 a1 -> live T c2 a2 ->
      leb a2 a1 = true /\ (leb a1 a2 = true -> c1 < c2).

  Lemma order_sorted fuel : forall T, ForallOrdPairs (before_ok T) (order fuel T).
  Proof.
    induction fuel as [|f IH]; intros T; cbn; [constructor|].
    pose proof (nanargmax_spec T) as S. destruct (nanargmax T) as [c0|]; [|constructor].
    destruct S as [a0 (Hc0 & Hmax & Hfirst)].
    constructor.
    - apply Forall_forall. intros c Hin a1 a2 H1 H2.
      unfold live in *. rewrite Hc0 in H1; inversion H1; subst a1.
      destruct (order_sound _ _ _ Hin) as [b Hb]. unfold live in Hb.
      assert (Hne : c <> c0).
      { intros ->. rewrite set_nan_same in Hb by (eapply nth_error_lt; eauto). discriminate. }
      split; [eapply Hmax; eauto|].
      intros Htie. destruct (lt_eq_lt_dec c c0) as [[Hlt|Heq]|Hgt]; [|congruence|exact Hgt].
      specialize (Hfirst c a2 Hlt H2). congruence.
    - specialize (IH (set_nan c0 T)).
      assert (Hmem : forall c, In c (order f (set_nan c0 T)) -> c <> c0).
      { intros c Hin ->. destruct (order_sound _ _ _ Hin) as [b Hb]. unfold live in Hb.
        rewrite set_nan_same in Hb by (eapply nth_error_lt; eauto). discriminate. }
      revert Hmem. generalize (order f (set_nan c0 T)) IH. clear IH.
      intros l IH. induction IH as [|x l Hx Hl IHl]; intros Hmem; constructor.
      + apply Forall_forall. intros y Hy a1 a2 H1 H2.
        rewrite Forall_forall in Hx. apply (Hx y Hy); unfold live in *;
          rewrite set_nan_other; auto; apply Hmem; cbn; auto.
      + apply IHl. intros c Hc. apply Hmem. right; exact Hc.
  Qed.

  (* fuel = length T is enough: this is the termination argument of the while loop *)
  Corollary order_full T c a : live T c a -> In c (order (length T) T).
  Proof. apply order_complete, nlive_le_length. Qed.

  (* ---------- what scan decides ---------- *)
  (* vigilance state in force when each element of l is visited *)
  Fixpoint vig_at (l : list nat) (v : V) : list (nat * V) :=
    match l with
    | [] => []
    | c :: l' =>
        (c, v) :: (if mbin v c && negb (veto_ok v c)
                   then let '(v', keep) := track v c in if keep then vig_at l' v' else []
                   else if mbin v c && veto_ok v c then [] else vig_at l' v)
    end.

  Definition qualifies (cv : nat * V) : bool := mbin (snd cv) (fst cv) && veto_ok (snd cv) (fst cv).

  Definition s_win (r : sres V) : option nat := fst (fst r).
  Definition s_log (r : sres V) : list (nat * V) := snd r.
  Lemma s_win_clog e r : s_win (clog e r) = s_win r.
  Proof. destruct r as [[w v] l]; reflexivity. Qed.
  Lemma s_log_clog e r : s_log (clog e r) = e :: s_log r.
  Proof. destruct r as [[w v] l]; reflexivity. Qed.

  (* the log is exactly the visited prefix with the vigilance in force;
     the winner is the first visited category that qualifies, if any,
     and it is the last entry of the log *)
  Theorem scan_spec l : forall v,
    s_log (scan l v) = vig_at l v /\
    s_win (scan l v) = option_map fst (find qualifies (s_log (scan l v))) /\
    (forall c, s_win (scan l v) = Some c ->
       exists pre vc, s_log (scan l v) = pre ++ [(c, vc)] /\
                      forallb (fun e => negb (qualifies e)) pre = true).
  Proof.
    induction l as [|c l IH]; intros v; cbn [scan vig_at].
    - cbn. repeat split; auto. intros c H; discriminate.
    - assert (Q : qualifies (c, v) = mbin v c && veto_ok v c) by reflexivity.
      destruct (mbin v c) eqn:Hm, (veto_ok v c) eqn:Hv; cbn [andb negb] in *.
      + cbn. rewrite Q. cbn. repeat split; auto.
        intros c' H; inversion H; subst. exists [], v. split; reflexivity.
      + destruct (track v c) as [v' keep]. destruct keep.
        * destruct (IH v') as (E1 & E2 & E3).
          rewrite s_log_clog, s_win_clog. cbn [find]. rewrite Q.
          split; [congruence|]. split; [exact E2|].
          intros c' H. destruct (E3 c' H) as (pre & vc & Ep & Hp).
          exists ((c, v) :: pre), vc. split; [cbn; congruence|].
          cbn. rewrite Q. exact Hp.
        * cbn. rewrite Q. cbn. repeat split; auto. intros c' H; discriminate.
      + destruct (IH v) as (E1 & E2 & E3).
        rewrite s_log_clog, s_win_clog. cbn [find]. rewrite Q.
        split; [congruence|]. split; [exact E2|].
        intros c' H. destruct (E3 c' H) as (pre & vc & Ep & Hp).
        exists ((c, v) :: pre), vc. split; [cbn; congruence|].
        cbn. rewrite Q. exact Hp.
      + destruct (IH v) as (E1 & E2 & E3).
        rewrite s_log_clog, s_win_clog. cbn [find]. rewrite Q.
        split; [congruence|]. split; [exact E2|].
        intros c' H. destruct (E3 c' H) as (pre & vc & Ep & Hp).
        exists ((c, v) :: pre), vc. split; [cbn; congruence|].
        cbn. rewrite Q. exact Hp.
  Qed.
End Proofs.

(* ---------- closed form without a reset function ---------- *)
Section NoVeto.
  Variables A V : Type.
  Variable leb : A -> A -> bool.
  Hypothesis leb_total : forall a b, leb a b = true \/ leb b a = true.
  Hypothesis leb_trans : forall a b c, leb a b = true -> leb b c = true -> leb a c = true.
  Variable mbin : V -> nat -> bool.
  Variable track : V -> nat -> V * bool.
  Notation ok := (@no_veto V).

  Lemma scan_noveto l : forall v,
    fst (fst (scan mbin ok track l v)) = find (mbin v) l /\ snd (fst (scan mbin ok track l v)) = v.
  Proof.
    induction l as [|c l IH]; intros v; cbn [scan find]; [auto|].
    change (no_veto v c) with true. destruct (mbin v c) eqn:Hm; cbn [andb]; [auto|].
    specialize (IH v). destruct (scan mbin ok track l v) as [[w vf] log]. exact IH.
  Qed.

  (* without a reset function the winner is the highest-activation category
     passing vigilance, ties to the oldest; None iff no category passes *)
  Theorem search_noveto_winner T v c :
    fst (fst (search leb mbin ok track (length T) v T)) = Some c ->
    exists a, live A T c a /\ mbin v c = true /\
      forall j b, live A T j b -> mbin v j = true ->
        leb b a = true /\ (leb a b = true -> c <= j).
  Proof.
    rewrite search_eq_scan. destruct (scan_noveto (order leb (length T) T) v) as [E _].
    rewrite E. intros Hf. apply find_some in Hf as Hin. destruct Hin as [Hin Hm].
    destruct (order_sound A leb leb_total leb_trans _ _ _ Hin) as [a Ha].
    exists a. split; [exact Ha|]. split; [exact Hm|].
    intros j b Hj Hmj.
    destruct (Nat.eq_dec j c) as [->|Hne].
    { unfold live in *. rewrite Ha in Hj; inversion Hj; subst.
      split; [destruct (leb_total b b); assumption|lia]. }
    pose proof (order_full A leb leb_total leb_trans T j b Hj) as Hinj.
    pose proof (order_sorted A leb leb_total leb_trans (length T) T) as Hs.
    (* c comes before j in the order, since find returns the first passing *)
    revert Hf Hin Hinj Hs. generalize (order leb (length T) T). intros l.
    induction l as [|x l IH]; intros Hf Hin Hinj Hs; [contradiction|].
    inversion Hs as [|? ? Hx Hl]; subst. cbn in Hf.
    destruct (mbin v x) eqn:Hmx.
    - inversion Hf; subst x. destruct Hinj as [->|Hinj]; [congruence|].
      rewrite Forall_forall in Hx. destruct (Hx j Hinj a b Ha Hj) as [H1 H2].
      split; [exact H1|]. intros H; specialize (H2 H); lia.
    - destruct Hin as [->|Hin]; [congruence|]. destruct Hinj as [->|Hinj]; [congruence|].
      apply IH; assumption.
  Qed.

  Theorem search_noveto_none T v :
    fst (fst (search leb mbin ok track (length T) v T)) = None ->
    forall j b, live A T j b -> mbin v j = false.
  Proof.
    rewrite search_eq_scan. destruct (scan_noveto (order leb (length T) T) v) as [E _].
    rewrite E. intros Hf j b Hj.
    pose proof (order_full A leb leb_total leb_trans T j b Hj) as Hinj.
    pose proof (find_none _ _ Hf j Hinj) as H. exact H.
  Qed.
End NoVeto.

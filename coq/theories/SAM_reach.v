(* C09 for every reachable state, in the property's own words: after any history of fit / partial_fit calls mapping
   the stored A-side labels reproduces the supplied targets, a prediction is a class seen in training and the map
   image of the A-side prediction, and - between two fits - an A-side category keeps its class for the whole
   history (the map only ever grows). *)
From Coq Require Import List Bool Arith Lia.
From ART Require Import Num Vec Search Kernel BaseArt SimpleARTMAP SimpleARTMAP_proofs.
Import ListNotations.

Section R.
  Context {N : Num}.
  Variable K : Kernel N.
  Hypothesis leb_total : forall a b : N, nleb a b = true \/ nleb b a = true.
  Hypothesis leb_trans : forall a b c : N, nleb a b = true -> nleb b c = true -> nleb a c = true.

  Theorem reach_map_reproduces_targets r s :
    sreach K r s -> map_a2b (mp s) (labels (A s)) = Some (bl s).
  Proof.
    intros H. destruct (sreach_inv K leb_total leb_trans r s H) as ((HI & Hl & _) & _).
    apply map_reproduces_targets; assumption.
  Qed.

  Theorem reach_predict_seen_class r s x ca cb :
    sreach K r s -> sam_step_pred K s x = Some (ca, cb) ->
    lookup (mp s) ca = Some cb /\ In cb (bl s) /\ step_pred K (A s) x = Some ca.
  Proof.
    intros H. destruct (sreach_inv K leb_total leb_trans r s H) as ((HI & _ & _) & _).
    apply (sam_predict_seen_class K s x ca cb _ HI).
  Qed.

  (* histories of incremental calls *)
  Inductive pf_reach (s : sam (N:=N)) : sam (N:=N) -> Prop :=
  | pf_refl : pf_reach s s
  | pf_step s1 X y m eps s2 : pf_reach s s1 -> sam_partial_fit K s1 X y m eps = Some s2 -> pf_reach s s2.

  Lemma pf_reach_sreach r s s' : sreach K r s -> pf_reach s s' -> sreach K r s'.
  Proof. intros H P. induction P as [|s1 X y m eps s2 _ IH E]; [exact H|]. eapply sreach_pfit; eauto. Qed.

  Theorem category_keeps_its_class r s s' c b :
    sreach K r s -> pf_reach s s' -> lookup (mp s) c = Some b -> lookup (mp s') c = Some b.
  Proof.
    intros H P. induction P as [|s1 X y m eps s2 P1 IH E]; [auto|].
    intros Hc. specialize (IH Hc).
    pose proof (pf_reach_sreach r s s1 H P1) as R1.
    destruct (sreach_inv K leb_total leb_trans r s1 R1) as ((HI & Hl & Hu) & _).
    destruct (sam_partial_fit_ok K leb_total leb_trans s1 X y m eps s2 HI Hl Hu E) as (_ & _ & _ & _ & _ & Hp).
    apply Hp. exact IH.
  Qed.

  (* ... and the targets supplied so far are all still reproduced after any number of further batches *)
  Theorem earlier_targets_stay_reproduced r s s' :
    sreach K r s -> pf_reach s s' -> exists more, bl s' = bl s ++ more.
  Proof.
    intros H P. induction P as [|s1 X y m eps s2 P1 [more IH] E]; [exists []; rewrite app_nil_r; reflexivity|].
    pose proof (pf_reach_sreach r s s1 H P1) as R1.
    destruct (sreach_inv K leb_total leb_trans r s1 R1) as ((HI & Hl & Hu) & _).
    destruct (sam_partial_fit_ok K leb_total leb_trans s1 X y m eps s2 HI Hl Hu E) as (_ & Hb & _).
    exists (more ++ y). rewrite Hb, IH, app_assoc. reflexivity.
  Qed.
End R.

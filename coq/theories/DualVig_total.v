(* C04 for a compound estimator: DualVigilanceART's fit / partial_fit are
   defined on every data set whenever the base module's kernel functions are
   (the search over the positive activations, the absorbing update, both kinds
   of new category, and every look-up in the category-to-cluster map, which is
   total by the map invariant); instantiated for Fuzzy ART with alpha > 0. *)
From Coq Require Import List Bool Arith ZArith Reals Lra Lia.
From ART Require Import Num NumR Vec Search Search_proofs Kernel BaseArt BaseArt_proofs Total Total_R Total_fit
     SimpleARTMAP DualVig DualVig_proofs Fuzzy.
Import ListNotations.
Local Open Scope nat_scope.

Section DT.
  Context {N : Num}.
  Variable K : Kernel N.
  Hypothesis nleb_total : forall a b : N, nleb a b = true \/ nleb b a = true.
  Hypothesis nleb_trans : forall a b c : N, nleb a b = true -> nleb b c = true -> nleb a c = true.
  Variable P : list N -> Prop.
  Hypothesis choice_total : forall Wl x w, P x -> k_choice K Wl x w <> None.
  Hypothesis match_total : forall x w, P x -> all_some (k_match K x w) = true.
  Hypothesis update_total : forall x w, k_update K x w <> None.
  Hypothesis new_total : forall x, k_new K x <> None.

  Definition in_range (n : nat) (r : dres) : Prop :=
    match r with Absorb c => c < n | Split c => c < n | Fresh => True end.

  Lemma dv_search_range Ms mode eps lb veto n : forall fuel v T r v' l,
    length T = n -> dv_search K Ms mode eps lb veto fuel v T = (r, v', l) ->
    in_range n r /\ (forall e, In e l -> fst e < n).
  Proof.
    induction fuel as [|f IH]; intros v T r v' l HT H; cbn [dv_search] in H.
    - injection H as <- <- <-. split; [exact I|intros e []].
    - pose proof (nanargmax_spec N nleb nleb_total nleb_trans T) as S.
      destruct (nanargmax nleb T) as [c|].
      2:{ injection H as <- <- <-. split; [exact I|intros e []]. }
      destruct S as [a (Hc & _)]. assert (Hcn : c < n) by (rewrite <- HT; eapply nth_error_lt; eauto).
      assert (HT' : length (set_nan c T) = n) by (rewrite set_nan_length; exact HT).
      destruct (veto c).
      + destruct (mbin Ms mode (k_inv K) v c).
        * injection H as <- <- <-. split; [exact Hcn|intros e [<-|[]]; exact Hcn].
        * destruct (mbin Ms mode (k_inv K) lb c).
          -- injection H as <- <- <-. split; [exact Hcn|intros e [<-|[]]; exact Hcn].
          -- destruct (dv_search K Ms mode eps lb veto f v (set_nan c T)) as [[r0 v0] l0] eqn:ES.
             injection H as <- <- <-. destruct (IH _ _ _ _ _ HT' ES) as [I1 I2]. split; [exact I1|intros e [<-|He]; [exact Hcn|auto]].
      + destruct (mbin Ms mode (k_inv K) v c).
        * destruct (dv_track Ms mode eps v c) as [v1 keep]. destruct keep.
          -- destruct (dv_search K Ms mode eps lb veto f v1 (set_nan c T)) as [[r0 v0] l0] eqn:ES.
             injection H as <- <- <-. destruct (IH _ _ _ _ _ HT' ES) as [I1 I2]. split; [exact I1|intros e [<-|He]; [exact Hcn|auto]].
          -- injection H as <- <- <-. split; [exact I|intros e [<-|[]]; exact Hcn].
        * destruct (dv_search K Ms mode eps lb veto f v (set_nan c T)) as [[r0 v0] l0] eqn:ES.
          injection H as <- <- <-. destruct (IH _ _ _ _ _ HT' ES) as [I1 I2]. split; [exact I1|intros e [<-|He]; [exact Hcn|auto]].
  Qed.

  Lemma log_defined' (Ms : list (list (option N))) log :
    (forall e, In e log -> fst e < length Ms) -> Forall (fun Mc => all_some Mc = true) Ms -> log_undef Ms log = false.
  Proof.
    intros Hl HM. unfold log_undef. apply not_true_is_false. intros E. apply existsb_exists in E as [e [He E]].
    destruct (nth_error Ms (fst e)) as [Mc|] eqn:En.
    - rewrite Forall_forall in HM. specialize (HM Mc (nth_error_In _ _ En)).
      apply existsb_exists in E as [o [Ho Eo]]. unfold all_some in HM. rewrite forallb_forall in HM. specialize (HM o Ho).
      destruct o; discriminate.
    - apply nth_error_None in En. specialize (Hl e He). lia.
  Qed.

  (* the state invariant of the loop: nothing stored yet, or the map invariant *)
  Definition DOk (s : dv (N:=N)) : Prop := W (DB s) = [] \/ DInv s.

  Theorem dv_step_defined (s : dv (N:=N)) x veto mode eps lb : P x -> DOk s -> dv_step K s x veto mode eps lb <> None.
  Proof.
    intros Hx Hs. unfold dv_step.
    destruct (W (DB s)) as [|w0 Ws] eqn:EW.
    - destruct (k_new K x) eqn:E; cbn [obind]; [discriminate|exfalso; eapply new_total; eauto].
    - destruct Hs as [Hs|Hs]; [congruence|].
      set (Wl := w0 :: Ws).
      destruct (omap_defined (k_choice K Wl x) Wl) as [Ts [ET LT]]; [intros w _; apply choice_total; exact Hx|].
      match goal with |- obind ?e _ <> None => assert (E0 : e = Some Ts) by exact ET; rewrite E0; clear E0 end. cbn [obind].
      match goal with |- context [dv_search K ?Ms mode eps ?lbv ?vf ?n ?v0 ?T] =>
        destruct (dv_search K Ms mode eps lbv vf n v0 T) as [[r v'] log] eqn:ES;
        pose proof (dv_search_range Ms mode eps lbv vf (length Wl) n v0 T r v' log
                      ltac:(unfold positive_mask; rewrite map_length; exact LT) ES) as (R1 & RL) end.
      rewrite log_defined'.
      2:{ rewrite map_length. exact RL. }
      2:{ apply Forall_forall. intros Mc HMc. apply in_map_iff in HMc as [w [<- _]]. apply match_total. exact Hx. }
      assert (Hlook : forall c, c < length Wl -> exists l, lookup (dmap s) c = Some l).
      { intros c Hc. apply (dv_map_total s c Hs). rewrite EW. exact Hc. }
      destruct r as [c|c|]; cbn [in_range] in R1.
      + match goal with |- obind ?e _ <> None => destruct e as [w|] eqn:E1 end.
        2:{ exfalso. apply nth_error_None in E1. unfold wt in *. lia. }
        cbn [obind]. match goal with |- obind ?e _ <> None => destruct e as [w'|] eqn:U1 end; [|exfalso; eapply update_total; eauto].
        cbn [obind]. destruct (Hlook c R1) as [l El]. rewrite El. cbn [obind]. discriminate.
      + match goal with |- obind ?e _ <> None => destruct e as [w'|] eqn:U1 end; [|exfalso; eapply new_total; eauto].
        cbn [obind]. destruct (Hlook c R1) as [l El]. rewrite El. cbn [obind]. discriminate.
      + match goal with |- obind ?e _ <> None => destruct e as [w'|] eqn:U1 end; [|exfalso; eapply new_total; eauto].
        cbn [obind]. discriminate.
  Qed.

  Lemma dv_step_ok (s : dv (N:=N)) x veto mode eps lb s' l vl :
    DOk s -> dv_step K s x veto mode eps lb = Some (s', l, vl) -> DInv s'.
  Proof.
    intros [Hs|Hs] H.
    - unfold dv_step in H. rewrite Hs in H. destruct (k_new K x) as [w|]; cbn [obind] in H; [|discriminate].
      injection H as <- _ _. unfold DInv. cbn [DB dmap add_weight W]. cbn. split; [reflexivity|].
      intros l0. split.
      + intros [<-|[]]. split; [discriminate|]. unfold maxval. cbn. lia.
      + intros [_ Hl]. unfold maxval in Hl. cbn in Hl. left. lia.
    - eapply dv_step_inv; eauto.
  Qed.

  Lemma DInv_labels (s : dv (N:=N)) ls : DInv s -> DInv (set_DB s (set_labels (DB s) ls)).
  Proof. intros H. exact H. Qed.

  Lemma dv_loop_defined mode eps lb veto : forall X (s : dv (N:=N)) i j,
    Forall P X -> DOk s -> dv_loop K s X i j veto mode eps lb <> None.
  Proof.
    induction X as [|x X IH]; intros s i j HX Hs; cbn [dv_loop]; [discriminate|].
    apply Forall_cons_iff in HX as [Hx HX].
    destruct (dv_step K s x (veto i) mode eps lb) as [[[s1 c] l]|] eqn:E1; [|exfalso; eapply dv_step_defined; eauto].
    cbn [obind]. pose proof (dv_step_ok _ _ _ _ _ _ _ _ _ Hs E1) as H1.
    match goal with |- obind ?e _ <> None => destruct e as [r|] eqn:E2 end; cbn [obind]; [discriminate|].
    exfalso. eapply IH; [exact HX| |exact E2]. right. exact H1.
  Qed.

  Theorem dv_fit_defined (s : dv (N:=N)) X veto mode eps lb :
    valid K (DB s) X = true -> Forall P X -> dv_fit K s X veto mode eps lb <> None.
  Proof.
    intros Hv HX. unfold dv_fit. rewrite Hv. apply dv_loop_defined; [exact HX|]. left. reflexivity.
  Qed.

  Theorem dv_partial_fit_defined (s : dv (N:=N)) X veto mode eps lb :
    DOk s -> valid K (DB s) X = true -> Forall P X -> dv_partial_fit K s X veto mode eps lb <> None.
  Proof.
    intros Hs Hv HX. unfold dv_partial_fit. rewrite Hv. destruct (hasW (learn_dim (DB s) X)) eqn:Eh.
    - apply dv_loop_defined; [exact HX|].
      assert (EW : W (learn_dim (DB s) X) = W (DB s)) by (unfold learn_dim; destruct (dim (DB s)); [reflexivity|destruct X; reflexivity]).
      destruct Hs as [Hs|Hs]; [left; cbn [set_DB DB set_labels W]; rewrite EW; exact Hs|].
      right. unfold DInv in *. cbn [set_DB DB set_labels W dmap]. rewrite EW. exact Hs.
    - apply dv_loop_defined; [exact HX|]. left. reflexivity.
  Qed.
End DT.

(* ---- DualVigilanceART over Fuzzy ART ---- *)
Open Scope R_scope.
Theorem dv_fuzzy_fit_total (alpha beta : R) (s : dv (N:=RN)) X veto mode eps lb :
  0 < alpha -> valid (@fuzzyK RN alpha beta) (DB s) X = true -> Forall (fun x => (2 <= length x)%nat) X ->
  dv_fit (@fuzzyK RN alpha beta) s X veto mode eps lb <> None /\
  (DOk s -> dv_partial_fit (@fuzzyK RN alpha beta) s X veto mode eps lb <> None).
Proof.
  intros Ha Hv HX.
  assert (C : forall (Wl : list (list (T RN))) (x w : list (T RN)), (2 <= length x)%nat -> k_choice (@fuzzyK RN alpha beta) Wl x w <> None).
  { intros Wl x w _. cbn. unfold fuzzy_choice, odiv.
    assert (E : @neqb RN (@nadd RN alpha (@l1norm RN w)) n0 = false).
    { cbn. apply Reqb_false. pose proof (l1norm_nonneg w). lra. }
    rewrite E. discriminate. }
  assert (M : forall (x w : list (T RN)), (2 <= length x)%nat -> all_some (k_match (@fuzzyK RN alpha beta) x w) = true).
  { intros x w Hx. cbn. unfold fuzzy_match, odiv, dim_original.
    assert (E : @neqb RN (@nofZ RN (Z.of_nat (length x / 2))) n0 = false).
    { change (Reqb (IZR (Z.of_nat (length x / 2))) 0 = false). apply Reqb_false. apply not_0_IZR.
      assert ((1 <= length x / 2)%nat) by (apply (Nat.div_le_lower_bound (length x) 2 1); lia). lia. }
    rewrite E. reflexivity. }
  split.
  - apply (dv_fit_defined (@fuzzyK RN alpha beta) Rleb_total Rleb_trans (fun x => (2 <= length x)%nat)); auto; intros; cbn; discriminate.
  - intros Hs. apply (dv_partial_fit_defined (@fuzzyK RN alpha beta) Rleb_total Rleb_trans (fun x => (2 <= length x)%nat)); auto; intros; cbn; discriminate.
Qed.

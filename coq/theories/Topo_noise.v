(* C14 / C17: a pruning round that leaves at least one category leaves no sample of the data set without one - the rows
   orphaned by this round AND the rows an earlier round had marked -1 are re-predicted with the pruned model
   (TopoART.prune, artlib/topological/TopoART.py; corollary of Topo_labels.prune_labels).  A sample can carry -1 only
   between a round that removed everything and the next round. *)
From Coq Require Import List ZArith Bool Arith Lia.
From ART Require Import Num Kernel BaseArt Topo Topo_labels.
Import ListNotations.

Section TN.
  Context {N : Num}.
  Variable K : Kernel N.
  Variable phi : nat.

  Theorem prune_leaves_no_noise (s : topo (N:=N)) X s' :
    prune K phi s X = Some s' -> W (TB s') <> [] ->
    forall j, j < length X -> j < length (tlab s) ->
      exists c : nat, nth_error (tlab s') j = Some (Z.of_nat c).
  Proof.
    intros H HW j HjX Hjl.
    destruct (nth_error X j) as [x|] eqn:Ex; [|apply nth_error_None in Ex; lia].
    destruct (nth_error (tlab s) j) as [l|] eqn:El; [|apply nth_error_None in El; lia].
    destruct (prune_labels K phi s X s' H j x l Ex El) as [[i [_ [_ [Hi _]]]] | [[_ [HW0 _]] | [_ [_ [c [_ Hc]]]]]].
    - exists i. exact Hi.
    - contradiction.
    - exists c. exact Hc.
  Qed.

  (* in particular a sample that an earlier round had left at -1 gets a category *)
  Corollary earlier_noise_is_relabelled (s : topo (N:=N)) X s' j :
    prune K phi s X = Some s' -> W (TB s') <> [] -> j < length X ->
    nth_error (tlab s) j = Some (-1)%Z ->
    exists c : nat, nth_error (tlab s') j = Some (Z.of_nat c).
  Proof.
    intros H HW Hj Hl. apply (prune_leaves_no_noise s X s' H HW j Hj).
    apply nth_error_Some. congruence.
  Qed.
End TN.

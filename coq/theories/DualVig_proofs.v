(* C13: the dual-vigilance search is a three-way scan of the visiting order;
   the category -> cluster map is total on the base categories and its values
   are exactly 0..n_clusters-1; every returned label is such a cluster label. *)
From Coq Require Import List Bool Arith Lia Permutation.
From ART Require Import Num Vec Search Search_proofs Kernel BaseArt BaseArt_proofs SimpleARTMAP SimpleARTMAP_proofs DualVig.
Import ListNotations.

Section P.
  Context {N : Num}.
  Variable K : Kernel N.

  Theorem dv_search_eq_scan Ms mode eps lb veto fuel : forall v T,
    dv_search K Ms mode eps lb veto fuel v T = dv_scan K Ms mode eps lb veto (order nleb fuel T) v.
  Proof.
    induction fuel as [|f IH]; intros v T; cbn [dv_search order dv_scan]; [reflexivity|].
    destruct (nanargmax nleb T) as [c|]; cbn [dv_scan]; [|reflexivity].
    destruct (veto c).
    - destruct (mbin Ms mode (k_inv K) v c); [reflexivity|].
      destruct (mbin Ms mode (k_inv K) lb c); [reflexivity|]. rewrite IH. reflexivity.
    - destruct (mbin Ms mode (k_inv K) v c); [|rewrite IH; reflexivity].
      destruct (dv_track Ms mode eps v c) as [v1 keep]. destruct keep; [rewrite IH|]; reflexivity.
  Qed.

  (* what the scan decides: the first visited category that is not vetoed and
     passes the upper threshold absorbs; otherwise the first one passing only
     the lower threshold spawns a category of the same cluster; otherwise new *)
  Theorem dv_scan_decides Ms mode eps lb veto l : forall v,
    match fst (fst (dv_scan K Ms mode eps lb veto l v)) with
    | Absorb c => In c l /\ veto c = true /\ exists v', mbin Ms mode (k_inv K) v' c = true
    | Split c => In c l /\ veto c = true /\ mbin Ms mode (k_inv K) lb c = true /\
                 exists v', mbin Ms mode (k_inv K) v' c = false
    | Fresh => True
    end.
  Proof.
    induction l as [|c l IH]; intros v; cbn [dv_scan]; [exact I|].
    destruct (veto c) eqn:Hv.
    - destruct (mbin Ms mode (k_inv K) v c) eqn:Hm; cbn.
      + split; [left; reflexivity|]. split; [exact Hv|]. eauto.
      + destruct (mbin Ms mode (k_inv K) lb c) eqn:Hl; cbn.
        * split; [left; reflexivity|]. split; [exact Hv|]. split; [exact Hl|]. eauto.
        * specialize (IH v). destruct (dv_scan K Ms mode eps lb veto l v) as [[r v'] lg]. cbn in *.
          destruct r; [destruct IH as (Hin & R); split; [right; exact Hin|exact R]..|exact I].
    - destruct (mbin Ms mode (k_inv K) v c) eqn:Hm.
      + destruct (dv_track Ms mode eps v c) as [v1 keep]. destruct keep; [|exact I].
        specialize (IH v1). destruct (dv_scan K Ms mode eps lb veto l v1) as [[r v'] lg]. cbn in *.
        destruct r; [destruct IH as (Hin & R); split; [right; exact Hin|exact R]..|exact I].
      + specialize (IH v). destruct (dv_scan K Ms mode eps lb veto l v) as [[r v'] lg]. cbn in *.
        destruct r; [destruct IH as (Hin & R); split; [right; exact Hin|exact R]..|exact I].
  Qed.

  (* ---- the map invariant ---- *)
  Definition DInv (s : dv (N:=N)) : Prop :=
    map fst (dmap s) = seq 0 (length (W (DB s))) /\
    (forall l, In l (map snd (dmap s)) <-> (W (DB s) <> [] /\ l <= maxval (dmap s))).

  Lemma maxval_app m k l : maxval (m ++ [(k, l)]) = Nat.max (maxval m) l.
  Proof. unfold maxval. induction m as [|[a b] m IH]; cbn; [lia|]. rewrite IH. lia. Qed.
  Lemma maxval_ge m k l : lookup m k = Some l -> l <= maxval m.
  Proof.
    unfold maxval. induction m as [|[a b] m IH]; cbn; [discriminate|].
    destruct (Nat.eqb a k); intros H; [inversion H; subst; lia|specialize (IH H); lia].
  Qed.
  Lemma lookup_in m k l : lookup m k = Some l -> In l (map snd m).
  Proof.
    induction m as [|[a b] m IH]; cbn; [discriminate|].
    destruct (Nat.eqb a k); intros H; [inversion H; subst; left; reflexivity|right; auto].
  Qed.

  Theorem dv_step_inv s x veto mode eps lb s' l vl :
    DInv s -> dv_step K s x veto mode eps lb = Some (s', l, vl) ->
    DInv s' /\ In l (map snd (dmap s')) /\
    (forall c b, lookup (dmap s) c = Some b -> W (DB s) <> [] -> lookup (dmap s') c = Some b) /\
    rho (DB s') = rho (DB s) /\ dsc s' = S (dsc s).
  Proof.
    intros (Hk & Hv) H. unfold dv_step in H.
    destruct (W (DB s)) as [|w0 Ws] eqn:EW.
    - destruct (k_new K x) as [w|]; cbn [obind] in H; [|discriminate]. inversion H; subst; clear H.
      unfold DInv. cbn [DB dmap dsc add_weight W rho map fst snd]. cbn [app length seq maxval fold_right].
      split; [split|].
      + reflexivity.
      + intros l0. split.
        * intros [E|[]]; subst. split; [discriminate|lia].
        * intros (_ & Hl). left. cbn in Hl. lia.
      + split; [left; reflexivity|]. split; [intros c b _ Hne; exfalso; apply Hne; reflexivity|]. split; reflexivity.
    - set (Wl := w0 :: Ws) in *.
      destruct (omap (k_choice K Wl x) Wl) as [Ts|]; cbn [obind] in H; [|discriminate].
      match type of H with context[dv_search ?a ?b ?c ?d ?e ?f ?g ?h ?i] => destruct (dv_search a b c d e f g h i) as [[r v'] log] end.
      destruct (log_undef _ log); [discriminate|].
      assert (HWne : Wl <> []) by discriminate.
      destruct r as [c|c|].
      + destruct (nth_error Wl c) as [w|]; cbn [obind] in H; [|discriminate].
        destruct (k_update K x w) as [w'|]; cbn [obind] in H; [|discriminate].
        destruct (lookup (dmap s) c) as [lc|] eqn:El; cbn [obind] in H; [|discriminate].
        inversion H; subst; clear H. unfold DInv. cbn [DB dmap dsc W set_rho set_weight add_weight rho]. rewrite ?EW.
        split; [split|].
        * rewrite set_nth_length. exact Hk.
        * intros l0. rewrite Hv. split; intros (Hne & Hle); split; auto; try discriminate.
          intros E. apply (f_equal (@length _)) in E. rewrite set_nth_length in E. discriminate.
        * split; [eapply lookup_in; eauto|]. repeat split; auto.
      + destruct (k_new K x) as [w'|]; cbn [obind] in H; [|discriminate].
        destruct (lookup (dmap s) c) as [lc|] eqn:El; cbn [obind] in H; [|discriminate].
        inversion H; subst; clear H. unfold DInv. cbn [DB dmap dsc W set_rho set_weight add_weight rho]. rewrite ?EW.
        pose proof (maxval_ge _ _ _ El) as Hle.
        split; [split|].
        * rewrite map_app, app_length, Hk. cbn. rewrite seq_app. cbn. reflexivity.
        * intros l0. rewrite map_app, in_app_iff, Hv, maxval_app. cbn. split.
          -- intros [(Hne & Hl0)|[E|[]]]; (split; [intros E'; destruct Wl; discriminate|]); subst; lia.
          -- intros (_ & Hl0). left. split; [exact HWne|lia].
        * split; [rewrite map_app, in_app_iff; right; left; reflexivity|].
          split; [|split; reflexivity]. intros c0 b Hc _. rewrite lookup_app, Hc. reflexivity.
      + destruct (k_new K x) as [w'|]; cbn [obind] in H; [|discriminate].
        inversion H; subst; clear H. unfold DInv. cbn [DB dmap dsc W set_rho set_weight add_weight rho]. rewrite ?EW.
        split; [split|].
        * rewrite map_app, app_length, Hk. cbn. rewrite seq_app. cbn. reflexivity.
        * intros l0. rewrite map_app, in_app_iff, Hv, maxval_app. cbn. split.
          -- intros [(Hne & Hl0)|[E|[]]]; (split; [intros E'; destruct Wl; discriminate|]); subst; lia.
          -- intros (_ & Hl0). destruct (Nat.eq_dec l0 (S (maxval (dmap s)))) as [->|Hne]; [right; left; reflexivity|].
             left. split; [exact HWne|lia].
        * split; [rewrite map_app, in_app_iff; right; left; reflexivity|].
          split; [|split; reflexivity]. intros c0 b Hc _. rewrite lookup_app, Hc. reflexivity.
  Qed.

  (* n_clusters = number of distinct map values = largest label + 1: the values are exactly 0..n_clusters-1 *)
  Theorem dv_values_contiguous s :
    DInv s -> W (DB s) <> [] -> dv_n_clusters s = S (maxval (dmap s)) /\
    (forall l, In l (map snd (dmap s)) <-> l < dv_n_clusters s).
  Proof.
    intros (_ & Hv) Hne.
    assert (E : dv_n_clusters s = S (maxval (dmap s))).
    { unfold dv_n_clusters. rewrite <- (seq_length (S (maxval (dmap s))) 0).
      apply Permutation_length. apply NoDup_Permutation; [apply NoDup_nodup|apply seq_NoDup|].
      intros l. rewrite nodup_In, Hv, in_seq. split; [intros (_ & H); lia|intros H; split; [exact Hne|lia]]. }
    split; [exact E|]. intros l. rewrite Hv, E. split; [intros (_ & H); lia|intros H; split; [exact Hne|lia]].
  Qed.

  (* the map is total on the existing base categories *)
  Theorem dv_map_total s c : DInv s -> c < length (W (DB s)) -> exists l, lookup (dmap s) c = Some l.
  Proof.
    intros (Hk & _) Hc.
    assert (G : forall m n, map fst m = seq n (length m) -> forall c, n <= c < n + length m -> exists l, lookup m c = Some l).
    { clear. induction m as [|[a b] m IH]; intros n Hm c Hc; cbn in *; [lia|].
      injection Hm as Ha Hm. subst a. destruct (Nat.eqb n c) eqn:E; [eauto|].
      apply Nat.eqb_neq in E. apply (IH (S n) Hm). lia. }
    assert (Hl : length (dmap s) = length (W (DB s))).
    { rewrite <- (map_length fst), Hk, seq_length. reflexivity. }
    apply (G (dmap s) 0); [rewrite Hl; exact Hk|lia].
  Qed.
End P.

(* HypersphereART and EllipsoidART kernels (artlib/elementary/HypersphereART.py,
   EllipsoidART.py).  The centroid step is the repaired one (no move when the
   sample coincides with the centroid); see known_findings.json. *)
From Coq Require Import List Bool Arith ZArith Lia.
From ART Require Import Num Vec Search Kernel.
Import ListNotations.

Section Hyper.
  Context {N : Num}.
  Variables alpha beta r_hat : N.

  Definition hs_centroid (w : list N) : list N := removelast w.
  Definition hs_radius (w : list N) : N := last w n0.
  Definition hs_dist (x c : list N) : N := nsqrt (l2norm2 (vsub x c)).

  Definition hs_choice (x w : list N) : option N :=
    let r := hs_radius w in
    let d := hs_dist x (hs_centroid w) in
    odiv (nsub r_hat (nmax r d)) (nadd (nsub r_hat r) alpha).
  Definition hs_match (x w : list N) : option N :=
    let r := hs_radius w in
    let d := hs_dist x (hs_centroid w) in
    q <- odiv (nmax r (nmax r d)) r_hat ;; Some (nsub n1 q).
  Definition hs_update (x w : list N) : option (list N) :=
    let c := hs_centroid w in
    let r := hs_radius w in
    let d := hs_dist x c in
    let r' := nadd r (nmul (nhalf beta) (nsub (nmax r d) r)) in
    let c' := if neqb d n0 then c
              else vadd c (vscale (nmul (nhalf beta) (nsub n1 (ndiv (nmin r d) d))) (vsub x c)) in
    Some (c' ++ [r']).
  Definition hs_new (x : list N) : list N := x ++ [n0].
  Definition unit_valid (x : list N) : bool := forallb (fun a => nleb n0 a && nleb a n1) x.

  Definition hyperK : Kernel N := {|
    k_choice := fun _ x w => hs_choice x w;
    k_match := fun x w => [hs_match x w];
    k_inv := [false];
    k_update := hs_update;
    k_new := fun x => Some (hs_new x);
    k_valid := unit_valid;
    k_dimok := fun _ => true |}.
End Hyper.

Section Ellipsoid.
  Context {N : Num}.
  Variables alpha beta mu r_hat : N.

  Definition el_centroid (w : list N) (d : nat) := firstn d w.
  Definition el_axis (w : list N) (d : nat) := firstn d (skipn d w).
  Definition el_radius (w : list N) : N := last w n0.
  Definition el_dist (x c ma : list N) : option N :=
    let ic := vsub x c in
    if existsb (fun a => negb (neqb a n0)) ma then
      k <- odiv n1 mu ;;
      let p := dot ma ic in
      Some (nmul k (nsqrt (nsub (l2norm2 ic) (nmul (nsub n1 (nmul mu mu)) (nmul p p)))))
    else Some (nsqrt (l2norm2 ic)).
  Definition el_choice (x w : list N) : option N :=
    let d := length x in
    let r := el_radius w in
    dist <- el_dist x (el_centroid w d) (el_axis w d) ;;
    odiv (nsub (nsub r_hat r) (nmax r dist)) (nadd (nsub r_hat (nmul n2 r)) alpha).
  Definition el_match (x w : list N) : option N :=
    let d := length x in
    let r := el_radius w in
    dist <- el_dist x (el_centroid w d) (el_axis w d) ;;
    q <- odiv (nadd r (nmax r dist)) r_hat ;; Some (nsub n1 q).
  Definition el_update (x w : list N) : option (list N) :=
    let d := length x in
    let c := el_centroid w d in
    let ma := el_axis w d in
    let r := el_radius w in
    dist <- el_dist x c ma ;;
    let r' := nadd r (nmul (nhalf beta) (nsub (nmax r dist) r)) in
    let c' := if neqb dist n0 then c
              else vadd c (vscale (nmul (nhalf beta) (nsub n1 (ndiv (nmin r dist) dist))) (vsub x c)) in
    (* the pattern that gives a one-point category its extent fixes the major axis; afterwards it is kept
       (/repo fix "EllipsoidART fixes the major axis with the second pattern and keeps it"; before the fix the axis
       was left at zero then and overwritten by every later pattern) *)
    let ma' := if neqb r n0 && nltb n0 r' && forallb (fun a => neqb a n0) ma
               then let v := vsub x c' in
                    let nv := nsqrt (l2norm2 v) in
                    if neqb nv n0 then ma else map (fun a => ndiv a nv) v
               else ma in
    Some (c' ++ ma' ++ [r']).
  Definition el_new (x : list N) : list N := x ++ map (fun _ => n0) x ++ [n0].

  Definition ellipK : Kernel N := {|
    k_choice := fun _ x w => el_choice x w;
    k_match := fun x w => [el_match x w];
    k_inv := [false];
    k_update := el_update;
    k_new := fun x => Some (el_new x);
    k_valid := unit_valid;
    k_dimok := fun _ => true |}.
End Ellipsoid.

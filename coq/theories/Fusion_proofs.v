(* C10 / C11: FusionART is the channel-wise conjunction of its modules;
   withheld channels are ignored; joins round-trip. *)
From Coq Require Import List Bool Arith ZArith Lia.
From ART Require Import Num Vec Search Search_proofs Kernel BaseArt BaseArt_folds Fusion.
Import ListNotations.

Section P.
  Context {N : Num}.

  (* ---- split / join round trip ---- *)
  Theorem split_join (ds : list nat) : forall k skip (data : list (list N)),
    Forall2 (fun c d => length c = d)
            data (map snd (filter (fun kd => negb (existsb (Nat.eqb (fst kd)) skip)) (combine (seq k (length ds)) ds))) ->
    split_row k ds skip (join_row k ds skip data) = data.
  Proof.
    induction ds as [|d ds IH]; intros k skip data H; cbn [split_row join_row].
    - cbn in H. inversion H. reflexivity.
    - cbn [length seq combine filter fst] in H.
      destruct (existsb (Nat.eqb k) skip) eqn:E; cbn [negb] in H.
      + rewrite skipn_app, skipn_all2 by (rewrite repeat_length; lia). rewrite repeat_length, Nat.sub_diag. cbn.
        apply IH. exact H.
      + cbn [map snd] in H. destruct data as [|c data]; [inversion H|]. inversion H as [|? ? ? ? Hc Hr]; subst.
        rewrite firstn_app, firstn_all, Nat.sub_diag. cbn [firstn]. rewrite app_nil_r.
        rewrite skipn_app, skipn_all, Nat.sub_diag. cbn [skipn app]. f_equal. apply IH. exact Hr.
  Qed.

  (* ---- the choice with skipped channels does not read the skipped columns ---- *)
  Theorem skip_independent (mods : list (Kernel N)) gammas dims wdims skip Ws (x x' w : list N) :
    (forall k p, nth_error (positions 0 dims) k = Some p -> existsb (Nat.eqb k) skip = false ->
                 chan p x = chan p x') ->
    fusion_choice_skip mods gammas dims wdims skip Ws x w = fusion_choice_skip mods gammas dims wdims skip Ws x' w.
  Proof.
    intros H. unfold fusion_choice_skip, Fusion.pos.
    set (PP := combine (positions 0 dims) (positions 0 wdims)).
    assert (G : forall (A B : Type) (l1 : list A) (l2 : list B) j a b, nth_error (combine l1 l2) j = Some (a, b) ->
                nth_error l1 j = Some a /\ nth_error l2 j = Some b).
    { clear. induction l1 as [|a1 l1 IH]; intros [|b2 l2] j a b Hn; cbn in *; try (destruct j; discriminate).
      destruct j; cbn in *; [inversion Hn; auto|eapply IH; eauto]. }
    assert (E : forall l i, (forall j K p pw, nth_error l j = Some (K, (p, pw)) -> nth_error (positions 0 dims) (i + j) = Some p) ->
       omapi i (fun k (Kp : Kernel N * ((nat * nat) * (nat * nat))) => let '(K, (p, pw)) := Kp in
                  if existsb (Nat.eqb k) skip then Some n0 else k_choice K (chanW pw Ws) (chan p x) (chan pw w)) l =
       omapi i (fun k (Kp : Kernel N * ((nat * nat) * (nat * nat))) => let '(K, (p, pw)) := Kp in
                  if existsb (Nat.eqb k) skip then Some n0 else k_choice K (chanW pw Ws) (chan p x') (chan pw w)) l).
    { induction l as [|[K [p pw]] l IH]; intros i Hl; cbn [omapi]; [reflexivity|].
      destruct (existsb (Nat.eqb i) skip) eqn:Es.
      - cbn [obind]. rewrite IH; [reflexivity|]. intros j K' p' pw' Hj. replace (S i + j) with (i + S j) by lia. eapply Hl. exact Hj.
      - rewrite (H i p); [|specialize (Hl 0 K p pw eq_refl); rewrite Nat.add_0_r in Hl; exact Hl|exact Es].
        destruct (k_choice K (chanW pw Ws) (chan p x') (chan pw w)); cbn [obind]; [|reflexivity].
        rewrite IH; [reflexivity|]. intros j K' p' pw' Hj. replace (S i + j) with (i + S j) by lia. eapply Hl. exact Hj. }
    rewrite E; [reflexivity|].
    intros j K p pw Hj. cbn [plus].
    destruct (G _ _ _ _ _ _ _ Hj) as [_ Hp]. unfold PP in Hp. destruct (G _ _ _ _ _ _ _ Hp) as [Hp1 _]. exact Hp1.
  Qed.

  (* ---- a category resonates only if every channel's own test passes ---- *)
  Theorem fusion_match_all_channels (Ms : list (list (option N))) m invs v c :
    mbin Ms m invs v c = true ->
    exists Mc, nth_error Ms c = Some Mc /\ forallb (fun b => b) (chan_pass (mt_strict m) invs Mc v) = true.
  Proof.
    unfold mbin. destruct (nth_error Ms c) as [Mc|]; [|discriminate]. intros H. exists Mc. auto.
  Qed.

  (* ---- learning is channel-wise: the update of the fused weight is the
          concatenation of the channel modules' updates on the slices ---- *)
  Theorem fusion_update_channelwise (mods : list (Kernel N)) gammas dims wdims (x w w' : list N) :
    k_update (fusionK mods gammas dims wdims) x w = Some w' ->
    exists parts, w' = concat parts /\
      omap (fun Kp => k_update (fst Kp) (chan (fst (snd Kp)) x) (chan (snd (snd Kp)) w))
           (combine mods (combine (positions 0 dims) (positions 0 wdims))) = Some parts.
  Proof.
    cbn. unfold fusion_update, Fusion.pos. destruct (omap _ _) as [parts|]; cbn [obind]; [|discriminate].
    intros H; inversion H; subst. eauto.
  Qed.
  Theorem fusion_new_channelwise (mods : list (Kernel N)) gammas dims wdims (x w' : list N) :
    k_new (fusionK mods gammas dims wdims) x = Some w' ->
    exists parts, w' = concat parts /\
      omap (fun Kp => k_new (fst Kp) (chan (fst (snd Kp)) x))
           (combine mods (combine (positions 0 dims) (positions 0 wdims))) = Some parts.
  Proof.
    cbn. unfold fusion_new, Fusion.pos. destruct (omap _ _) as [parts|]; cbn [obind]; [|discriminate].
    intros H; inversion H; subst. eauto.
  Qed.

  (* ---- every fused category is the fold of the fused update over its members
          (hence, channel by channel, of each module's own rule on the slices) ---- *)
  Theorem fusion_categories_are_folds (mods : list (Kernel N)) gammas dims wdims s X veto m eps s' ls :
    fit (fusionK mods gammas dims wdims) s X veto m eps = Some (s', ls) ->
    forall c, c < length (W s') ->
      nth_error (W s') c = fold_members (fusionK mods gammas dims wdims) (members c X (labels s')).
  Proof. apply fit_categories_are_folds. Qed.
End P.

(* ---- arg-max is invariant under adding a constant (withheld channels
        contribute the constant sum of their gammas) ---- *)
From Coq Require Import Reals Lra.
From ART Require Import NumR.
Open Scope R_scope.

Lemma amax_shift (k : R) (T : list (option R)) : forall i best,
  amax Rleb i (option_map (fun p => (fst p, snd p + k)) best) (map (option_map (fun a => a + k)) T) =
  option_map (fun p => (fst p, snd p + k)) (amax Rleb i best T).
Proof.
  induction T as [|t T IH]; intros i best; cbn [amax map]; [reflexivity|].
  destruct t as [a|]; cbn [option_map].
  - destruct best as [[c b]|]; cbn [option_map fst snd].
    + assert (E : Rleb (a + k) (b + k) = Rleb a b).
      { unfold Rleb. destruct (Rle_dec (a + k) (b + k)), (Rle_dec a b); try reflexivity; lra. }
      rewrite E. destruct (Rleb a b).
      * apply (IH (S i) (Some (c, b))).
      * apply (IH (S i) (Some (i, a))).
    + apply (IH (S i) (Some (i, a))).
  - apply IH.
Qed.

Theorem argmax_shift (k : R) (T : list R) :
  argmax Rleb (map (fun a => a + k) T) = argmax Rleb T.
Proof.
  unfold argmax, nanargmax. rewrite map_map.
  replace (map (fun x => Some (x + k)) T) with (map (option_map (fun a => a + k)) (map Some T)) by (rewrite map_map; reflexivity).
  pose proof (amax_shift k (map Some T) 0%nat None) as H. cbn [option_map] in H. rewrite H.
  destruct (amax Rleb 0 None (map Some T)) as [[c a]|]; reflexivity.
Qed.

(* one channel with gamma = 1 computes the bare module's values *)
Theorem fusion1_bare_choice (K : Kernel RN) d Ws (x w : list RN) :
  length x = d -> length w = d -> Forall (fun v => length v = d) Ws ->
  k_choice (fusionK [K] [1] [d] [d]) Ws x w = k_choice K Ws x w.
Proof.
  intros Hx Hw HWs. cbn [k_choice fusionK]. unfold fusion_choice, fusion_choice_skip, Fusion.pos. cbn [positions combine omapi existsb].
  assert (Ex : chan (0%nat, (0 + d)%nat) x = x) by (unfold chan, slice; cbn; rewrite Nat.sub_0_r, <- Hx; apply firstn_all).
  assert (Ew : chan (0%nat, (0 + d)%nat) w = w) by (unfold chan, slice; cbn; rewrite Nat.sub_0_r, <- Hw; apply firstn_all).
  assert (EW : chanW (0%nat, (0 + d)%nat) Ws = Ws).
  { unfold chanW. rewrite <- (map_id Ws) at 2. apply map_ext_in. intros v Hv.
    rewrite Forall_forall in HWs. specialize (HWs v Hv).
    unfold chan, slice; cbn. rewrite Nat.sub_0_r, <- HWs. apply firstn_all. }
  rewrite Ex, Ew, EW. destruct (k_choice K Ws x w) as [t|]; cbn; [|reflexivity]. f_equal. ring.
Qed.

(* C07 for the compound estimators: every training call of SimpleARTMAP,
   DualVigilanceART and TopoART leaves the vigilance of the wrapped module
   exactly as configured - match tracking moves it only inside one sample's
   search, on every exit path (resonance, second winner, new category,
   abandoned search, pruning round).  For every kernel, mode, epsilon and
   reset function.  (FusionART is a kernel of the BaseART machine, so C07's
   BaseART theorems apply to its vector of channel vigilances directly.) *)
From Coq Require Import List Bool Arith ZArith Lia.
From ART Require Import Num Vec Search Search_proofs Kernel BaseArt BaseArt_proofs BaseArt_hist
     SimpleARTMAP SAM_hist DualVig Topo.
Import ListNotations.

Section WR.
  Context {N : Num}.

  (* ---------------- SimpleARTMAP ---------------- *)
  Lemma sam_step_rho (K : Kernel N) (s s1 : sam (N:=N)) x cb m eps ca :
    sam_step K s x cb m eps = Some (s1, ca) -> rho (A s1) = rho (A s).
  Proof.
    unfold sam_step. destruct (step_fit K (A s) x _ m eps) as [[[a1 c1] v1]|] eqn:EF; cbn [obind]; [|discriminate].
    destruct (step_fit_frame K _ _ _ _ _ _ _ _ EF) as (Hr & _).
    destruct (lookup (mp s) c1) as [b|]; [destruct (Nat.eqb b cb); [|discriminate]|]; intros H; inversion H; subst; exact Hr.
  Qed.
  Lemma sam_loop_rho (K : Kernel N) X : forall y (s s' : sam (N:=N)) i j m eps,
    sam_loop K s X y i j m eps = Some s' -> rho (A s') = rho (A s).
  Proof.
    induction X as [|x X IH]; intros [|c y] s s' i j m eps H; cbn [sam_loop] in H; try (inversion H; subst; reflexivity).
    destruct (sam_step K s x c m eps) as [[s1 ca]|] eqn:E1; cbn [obind] in H; [|discriminate].
    rewrite (IH _ _ _ _ _ _ _ H). cbn [set_A A set_labels rho]. eapply sam_step_rho; eauto.
  Qed.
  Lemma sam_epochs_rho (K : Kernel N) n : forall (s s' : sam (N:=N)) X y m eps,
    sam_epochs K n s X y m eps = Some s' -> rho (A s') = rho (A s).
  Proof.
    induction n as [|n IH]; intros s s' X y m eps H; cbn [sam_epochs] in H; [inversion H; reflexivity|].
    destruct (sam_loop K s X y 0 0 m eps) as [s1|] eqn:E; cbn [obind] in H; [|discriminate].
    rewrite (IH _ _ _ _ _ _ H). eapply sam_loop_rho; eauto.
  Qed.
  Lemma learn_dim_rho (a : st (N:=N)) X : rho (learn_dim a X) = rho a.
  Proof. unfold learn_dim. destruct (dim a), X; reflexivity. Qed.

  Theorem sam_fit_rho (K : Kernel N) (s s' : sam (N:=N)) X y iters m eps :
    sam_fit K s X y iters m eps = Some s' -> rho (A s') = rho (A s).
  Proof.
    unfold sam_fit. destruct (sam_valid K s X y); [|discriminate]. intros H.
    rewrite (sam_epochs_rho K _ _ _ _ _ _ _ H). cbn [A rho]. apply learn_dim_rho.
  Qed.
  Theorem sam_partial_fit_rho (K : Kernel N) (s s' : sam (N:=N)) X y m eps :
    sam_partial_fit K s X y m eps = Some s' -> rho (A s') = rho (A s).
  Proof.
    unfold sam_partial_fit. destruct (sam_valid K s X y); [|discriminate].
    destruct (hasL s); intros H; rewrite (sam_loop_rho K _ _ _ _ _ _ _ _ H); cbn [A rho set_labels]; apply learn_dim_rho.
  Qed.

  (* ---------------- DualVigilanceART ---------------- *)
  Lemma dv_step_rho (K : Kernel N) (s s' : dv (N:=N)) x veto mode eps lb l vl :
    dv_step K s x veto mode eps lb = Some (s', l, vl) -> rho (DB s') = rho (DB s).
  Proof.
    unfold dv_step. destruct (W (DB s)) as [|w0 Ws].
    - destruct (k_new K x); cbn [obind]; [|discriminate]. intros H; inversion H; subst; reflexivity.
    - destruct (omap _ _) as [Ts|]; cbn [obind]; [|discriminate].
      destruct (dv_search _ _ _ _ _ _ _ _ _) as [[r v'] log].
      destruct (log_undef _ log); [discriminate|].
      destruct r as [c|c|].
      + destruct (nth_error _ c); cbn [obind]; [|discriminate]. destruct (k_update K x _); cbn [obind]; [|discriminate].
        destruct (lookup (dmap s) c); cbn [obind]; [|discriminate]. intros H; inversion H; subst; reflexivity.
      + destruct (k_new K x); cbn [obind]; [|discriminate]. destruct (lookup (dmap s) c); cbn [obind]; [|discriminate].
        intros H; inversion H; subst; reflexivity.
      + destruct (k_new K x); cbn [obind]; [|discriminate]. intros H; inversion H; subst; reflexivity.
  Qed.
  Lemma dv_loop_rho (K : Kernel N) X : forall (s s' : dv (N:=N)) i j veto mode eps lb ls,
    dv_loop K s X i j veto mode eps lb = Some (s', ls) -> rho (DB s') = rho (DB s).
  Proof.
    induction X as [|x X IH]; intros s s' i j veto mode eps lb ls H; cbn [dv_loop] in H; [inversion H; reflexivity|].
    destruct (dv_step K s x (veto i) mode eps lb) as [[[s1 c] l]|] eqn:E1; cbn [obind] in H; [|discriminate].
    match type of H with obind ?e _ = _ => destruct e as [[s4 l4]|] eqn:E4 end; cbn [obind] in H; [|discriminate].
    inversion H; subst. cbn [fst]. rewrite (IH _ _ _ _ _ _ _ _ _ E4). cbn [set_DB DB set_labels rho]. eapply dv_step_rho; eauto.
  Qed.
  Theorem dv_fit_rho (K : Kernel N) (s s' : dv (N:=N)) X veto mode eps lb ls :
    dv_fit K s X veto mode eps lb = Some (s', ls) -> rho (DB s') = rho (DB s).
  Proof.
    unfold dv_fit. destruct (valid K (DB s) X); [|discriminate]. intros H.
    rewrite (dv_loop_rho K _ _ _ _ _ _ _ _ _ _ H). cbn [DB rho]. apply learn_dim_rho.
  Qed.
  Theorem dv_partial_fit_rho (K : Kernel N) (s s' : dv (N:=N)) X veto mode eps lb ls :
    dv_partial_fit K s X veto mode eps lb = Some (s', ls) -> rho (DB s') = rho (DB s).
  Proof.
    unfold dv_partial_fit. destruct (valid K (DB s) X); [|discriminate].
    destruct (hasW (learn_dim (DB s) X)); intros H; rewrite (dv_loop_rho K _ _ _ _ _ _ _ _ _ _ H);
      cbn [set_DB DB rho set_labels]; apply learn_dim_rho.
  Qed.

  (* ---------------- TopoART ---------------- *)
  Lemma topo_step_rho (K Klow : Kernel N) (s s' : topo (N:=N)) x veto mode eps c vl :
    topo_step K Klow s x veto mode eps = Some (s', c, vl) -> rho (TB s') = rho (TB s).
  Proof.
    unfold topo_step. cbn [bump W rho]. destruct (W (TB s)) as [|w0 Ws].
    - destruct (k_new K x); cbn [obind]; [|discriminate]. intros H; inversion H; subst; reflexivity.
    - destruct (omap _ _) as [Ts|]; cbn [obind]; [|discriminate].
      destruct (tsearch _ _ _ _ _ _ _ _ _) as [[[r1 r2] v'] log].
      destruct (log_undef _ log); [discriminate|].
      destruct r1 as [c1|].
      + destruct (nth_error _ c1); cbn [obind]; [|discriminate]. destruct (k_update K x _); cbn [obind]; [|discriminate].
        destruct r2 as [c2|].
        * destruct (nth_error _ c2); cbn [obind]; [|discriminate]. destruct (k_update Klow x _); cbn [obind]; [|discriminate].
          intros H; inversion H; subst; reflexivity.
        * intros H; inversion H; subst; reflexivity.
      + destruct (k_new K x); cbn [obind]; [|discriminate]. intros H; inversion H; subst; reflexivity.
  Qed.
  Lemma prune_rho (K : Kernel N) phi (s s' : topo (N:=N)) X : prune K phi s X = Some s' -> rho (TB s') = rho (TB s).
  Proof.
    unfold prune. match goal with |- obind ?e _ = _ -> _ => destruct e end; cbn [obind]; [|discriminate].
    intros H; inversion H; subst; reflexivity.
  Qed.
  Lemma topo_loop_rho (K Klow : Kernel N) tau phi Xall X : forall (s s' : topo (N:=N)) i veto mode eps ls,
    topo_loop K Klow tau phi s X Xall i veto mode eps = Some (s', ls) -> rho (TB s') = rho (TB s).
  Proof.
    induction X as [|x X IH]; intros s s' i veto mode eps ls H; cbn [topo_loop] in H; [inversion H; reflexivity|].
    destruct (topo_step K Klow s x (veto i) mode eps) as [[[s1 c] l]|] eqn:E1; cbn [obind] in H; [|discriminate].
    match type of H with obind ?e _ = _ => destruct e as [s3|] eqn:E3 end; cbn [obind] in H; [|discriminate].
    match type of H with obind ?e _ = _ => destruct e as [[s4 l4]|] eqn:E4 end; cbn [obind] in H; [|discriminate].
    inversion H; subst. cbn [fst]. rewrite (IH _ _ _ _ _ _ _ E4).
    assert (R3 : rho (TB s3) = rho (TB s1)).
    { unfold post_step in E3. cbn [TB] in E3. match type of E3 with (if ?b then _ else _) = _ => destruct b end.
      - apply prune_rho in E3. exact E3.
      - inversion E3; subst. reflexivity. }
    rewrite R3. eapply topo_step_rho; eauto.
  Qed.
  Theorem topo_fit_rho (K Klow : Kernel N) tau phi (s s' : topo (N:=N)) X veto mode eps ls :
    topo_fit K Klow tau phi s X veto mode eps = Some (s', ls) -> rho (TB s') = rho (TB s).
  Proof.
    unfold topo_fit. destruct (valid K (TB s) X); [|discriminate]. intros H.
    rewrite (topo_loop_rho K Klow _ _ _ _ _ _ _ _ _ _ _ H). cbn [TB rho]. apply learn_dim_rho.
  Qed.
End WR.

(* C19: protocol and ownership theorems. *)
From Coq Require Import List Bool Arith String.
From ART Require Import Params.
Import ListNotations.
Open Scope string_scope.

Section P.
  Variable V : Type.
  Variable pvalid : list (string * V) -> bool.
  Notation params := (params V).

  Lemma pget_pset_same (p : params) k v : has V p k = true -> pget V (pset V p k v) k = Some v.
  Proof.
    unfold has. induction p as [|[a w] p IH]; cbn; [discriminate|].
    destruct (String.eqb a k) eqn:E; cbn; rewrite E; [reflexivity|exact IH].
  Qed.
  Lemma pget_pset_other (p : params) k k' v : k <> k' -> pget V (pset V p k v) k' = pget V p k'.
  Proof.
    intros Hne. induction p as [|[a w] p IH]; cbn; [reflexivity|].
    destruct (String.eqb a k) eqn:E; cbn.
    - apply String.eqb_eq in E; subst a. destruct (String.eqb k k') eqn:E2; [apply String.eqb_eq in E2; congruence|reflexivity].
    - destruct (String.eqb a k'); [reflexivity|exact IH].
  Qed.
  Lemma pset_same_value (p : params) k v : pget V p k = Some v -> pset V p k v = p.
  Proof.
    induction p as [|[a w] p IH]; cbn; [reflexivity|].
    destruct (String.eqb a k) eqn:E; [intros H; inversion H; subst; reflexivity|intros H; rewrite IH by exact H; reflexivity].
  Qed.
  Lemma keys_pset (p : params) k v : map fst (pset V p k v) = map fst p.
  Proof. induction p as [|[a w] p IH]; cbn; [reflexivity|]. destruct (String.eqb a k); cbn; [reflexivity|rewrite IH; reflexivity]. Qed.

  (* set_params with the values get_params returns is a no-op (and succeeds iff the current values are valid) *)
  Theorem set_get_noop (p : params) : NoDup (map fst p) ->
    set_params V pvalid p (get_params V p) = (p, match p with [] => true | _ => pvalid p end).
  Proof.
    intros Hnd. unfold get_params, set_params.
    assert (G : forall q kw, (forall k v, In (k, v) kw -> pget V q k = Some v) -> assign V q kw = (q, true)).
    { intros q kw. revert q. induction kw as [|[k v] kw IH]; intros q H; cbn; [reflexivity|].
      assert (Hk : pget V q k = Some v) by (apply H; left; reflexivity).
      unfold has. rewrite Hk. rewrite (pset_same_value q k v Hk). apply IH. intros k' v' Hin. apply H. right. exact Hin. }
    assert (H : forall k v, In (k, v) p -> pget V p k = Some v).
    { clear G. induction p as [|[a w] p IH]; intros k v Hin; [contradiction|]. cbn in *. inversion Hnd; subst.
      destruct Hin as [E|Hin].
      - inversion E; subst. rewrite String.eqb_refl. reflexivity.
      - destruct (String.eqb a k) eqn:E; [|apply IH; assumption].
        apply String.eqb_eq in E; subst a. exfalso. apply H1. apply in_map_iff. exists (k, v). auto. }
    destruct p as [|x p']; [reflexivity|]. rewrite (G _ _ H). cbn [andb]. destruct (pvalid (x :: p')); reflexivity.
  Qed.

  (* an unknown name is rejected *)
  Theorem set_unknown_rejected (p : params) k v : has V p k = false -> snd (set_params V pvalid p [(k, v)]) = false.
  Proof. intros H. unfold set_params. cbn. rewrite H. reflexivity. Qed.

  (* out-of-range values are rejected (by the class's validate_params on the new values) *)
  Theorem set_invalid_rejected (p : params) kw p' :
    kw <> [] -> assign V p kw = (p', true) -> pvalid p' = false -> snd (set_params V pvalid p kw) = false.
  Proof. intros Hne Ha Hv. unfold set_params. destruct kw; [congruence|]. rewrite Ha, Hv. reflexivity. Qed.

  (* a rejected call (unknown name or out-of-range value) leaves the parameters exactly as they were *)
  Theorem set_rejected_unchanged (p : params) kw : snd (set_params V pvalid p kw) = false -> fst (set_params V pvalid p kw) = p.
  Proof.
    unfold set_params. destruct kw as [|x kw]; [discriminate|].
    destruct (assign V p (x :: kw)) as [p' ok]. destruct (ok && pvalid p'); [discriminate|reflexivity].
  Qed.
  (* an accepted call installs exactly the assigned values, and they are valid *)
  Theorem set_accepted (p : params) kw p' : kw <> [] -> set_params V pvalid p kw = (p', true) ->
    assign V p kw = (p', true) /\ pvalid p' = true.
  Proof.
    unfold set_params. destruct kw as [|x kw]; [congruence|]. intros _.
    destruct (assign V p (x :: kw)) as [q ok]. destruct ok; cbn [andb]; [|discriminate].
    destruct (pvalid q) eqn:E; intros H; inversion H; subst; auto.
  Qed.

  (* set_params on known names = construction with the overridden values; attributes mirror params *)
  Theorem set_then_attr (p : params) k v : has V p k = true -> pvalid (pset V p k v) = true ->
    getattr V (fst (set_params V pvalid p [(k, v)])) k = Some v /\
    (forall k', k <> k' -> getattr V (fst (set_params V pvalid p [(k, v)])) k' = getattr V p k') /\
    map fst (fst (set_params V pvalid p [(k, v)])) = map fst p.
  Proof.
    intros H Hv. unfold set_params, getattr. cbn. rewrite H. cbn. rewrite Hv. cbn.
    repeat split; try (apply pget_pset_same; exact H); try (intros; apply pget_pset_other; assumption); apply keys_pset.
  Qed.
End P.

(* ---- ownership: a model all of whose stored arrays are its own is unaffected by later mutation of X ---- *)
Theorem ownership_frame {A} (W : list (cell A)) (X X' : list A) (d : A) :
  forallb (owned A) W = true -> map (resolve A X d) W = map (resolve A X' d) W.
Proof.
  induction W as [|c W IH]; cbn; [reflexivity|]. intros H. apply andb_true_iff in H as [Hc HW].
  rewrite IH by exact HW. destruct c; [reflexivity|discriminate].
Qed.
(* the code before the fix did keep a rejected value *)
Theorem set_params_before_fix_refuted :
  exists (pvalid : list (string * nat) -> bool) p kw,
    snd (set_params_before_fix nat pvalid p kw) = false /\ fst (set_params_before_fix nat pvalid p kw) <> p.
Proof.
  exists (fun p => match pget nat p "rho" with Some r => Nat.leb r 8 | None => false end), [("rho", 4)], [("rho", 9)].
  vm_compute. split; [reflexivity|discriminate].
Qed.

(* ... and a view is affected: the defect fixed by copying in new_weight *)
Theorem view_is_affected : exists (W : list (cell nat)) X X', map (resolve nat X 0) W <> map (resolve nat X' 0) W.
Proof. exists [View nat 0], [1], [2]. cbn. discriminate. Qed.

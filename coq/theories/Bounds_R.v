(* C02, size-bound clause, lifted to whole histories at the real-number
   instance: under every mode whose match tracking never lowers the vigilance
   (no reset function, MT+ with eps >= 0, MT0, MT1, MT~), a category only ever
   learns from a sample whose match value passed a vigilance >= rho. *)
From Coq Require Import List Bool Arith Reals Lra Lia.
From ART Require Import Num NumR Vec Search Search_proofs Kernel BaseArt BaseArt_proofs
     SimpleARTMAP_proofs Fuzzy Fuzzy_R.
Import ListNotations.
Open Scope R_scope.

Definition vig_le (v v' : list R) : Prop := hd 0 v <= hd 0 v'.

Definition raising (m : mt) (eps : R) : Prop :=
  match m with MTminus => False | MTplus => 0 <= eps | _ => True end.

Section B.
  Variable K : Kernel RN.
  Hypothesis K_single : k_inv K = [false].
  Hypothesis K_match1 : forall x w, exists oM, k_match K x w = [oM].

  Lemma track_raises Ws x m eps (v : list RN) c :
    raising m eps -> length v = 1%nat ->
    let Ms := map (k_match K x) Ws in
    mbin Ms m (k_inv K) v c = true -> vig_le v (fst (track Ms m eps (k_inv K) v c)).
  Proof.
    intros Hr Hv Ms Hm. unfold track, mbin in *. rewrite K_single in *.
    destruct (nth_error Ms c) as [Mc|] eqn:E; [|unfold vig_le; cbn; lra].
    unfold Ms in E. rewrite nth_error_map in E. unfold option_map in E.
    match type of E with context[match ?e with _ => _ end] => destruct e as [w|] end; [|discriminate E].
    destruct (K_match1 x w) as [oM EM]. rewrite EM in E. inversion E; subst Mc. clear E.
    destruct v as [|r [|? ?]]; cbn in Hv; try discriminate. cbn in *.
    destruct oM as [M|]; [|discriminate]. rewrite andb_true_r in Hm. rewrite Hm. unfold vig_le. cbn.
    unfold op_pass in Hm. destruct m; cbn in *; unfold nltb in *; cbn in *.
    - apply Rleb_true in Hm. lra.
    - contradiction.
    - apply negb_true_iff in Hm. apply Rleb_false in Hm. lra.
    - lra.
    - lra.
  Qed.

  (* the winner of a training step passed a vigilance >= the configured one *)
  Theorem winner_passed_rho (s : st (N:=RN)) x veto m eps s' c vl :
    (forall a b : RN, nleb a b = true \/ nleb b a = true) ->
    (forall a b c : RN, nleb a b = true -> nleb b c = true -> nleb a c = true) ->
    raising m eps -> length (rho s) = 1%nat ->
    step_fit K s x veto m eps = Some (s', c, vl) -> (c < length (W s))%nat ->
    exists w M, nth_error (W s) c = Some w /\ k_match K x w = [Some M] /\ hd 0 (rho s) <= M.
  Proof.
    intros Htot Htr Hr Hl H Hc.
    assert (HW : W s <> []) by (destruct (W s); cbn in Hc; [lia|discriminate]).
    destruct (step_fit_is_scan K _ _ _ _ _ _ _ _ H HW) as (Ts & HT & D). cbv zeta in D.
    destruct D as [(Hw & _)|(_ & E)]; [|lia].
    set (Ms := map (k_match K x) (W s)) in *.
    (* vigilance states of length 1 stay of length 1: use the preorder restricted by a length guard *)
    pose (Vle := fun v v' : list RN => length v = 1%nat -> length v' = 1%nat /\ vig_le v v').
    assert (Hup : forall v c0, mbin Ms m (k_inv K) v c0 = true -> veto_fun m veto v c0 = false ->
                               Vle v (fst (track Ms m eps (k_inv K) v c0))).
    { intros v c0 Hm _ Hv. split; [|apply track_raises; assumption].
      unfold track. destruct (nth_error Ms c0) as [Mc|] eqn:EMc; [|exact Hv]. cbn.
      unfold Ms in EMc. rewrite nth_error_map in EMc. unfold option_map in EMc.
      match type of EMc with context[match ?e with _ => _ end] => destruct e as [w0|] end; [|discriminate EMc].
      destruct (K_match1 x w0) as [oM EM]. rewrite EM in EMc. inversion EMc; subst Mc.
      destruct v as [|r [|? ?]]; cbn in Hv; try discriminate Hv. reflexivity. }
    destruct (scan_win_vig Vle _ _ _
                ltac:(intros v Hv; split; [exact Hv|unfold vig_le; lra])
                ltac:(intros a b c0 Hab Hbc Ha; destruct (Hab Ha) as [Hb Hab']; destruct (Hbc Hb) as [Hc' Hbc'];
                      split; [exact Hc'|unfold vig_le in *; lra])
                Hup _ _ _ Hw) as (_ & v' & Hle & _ & Hm).
    destruct (Hle Hl) as (Hl' & Hle').
    unfold mbin in Hm. rewrite K_single in Hm.
    destruct (nth_error Ms c) as [Mc|] eqn:EMc; [|discriminate].
    unfold Ms in EMc. rewrite nth_error_map in EMc. unfold option_map in EMc.
    match type of EMc with context[match ?e with _ => _ end] => destruct e as [w|] eqn:Ew end; [|discriminate EMc].
    destruct (K_match1 x w) as [oM EM]. rewrite EM in EMc. inversion EMc; subst Mc.
    destruct v' as [|r' [|? ?]]; cbn in Hl'; try discriminate. cbn in Hm.
    destruct oM as [M|]; [|discriminate]. rewrite andb_true_r in Hm.
    exists w, M. split; [exact Ew|]. split; [exact EM|].
    unfold vig_le in Hle'. cbn in Hle'. unfold op_pass in Hm.
    destruct (mt_strict m); unfold nltb in Hm; cbn in Hm.
    - apply negb_true_iff in Hm. apply Rleb_false in Hm. lra.
    - apply Rleb_true in Hm. lra.
  Qed.
End B.

(* ---- Fuzzy ART: |w| >= rho * d for every category, in every reachable step ---- *)
Section FuzzyBound.
  Variables alpha beta : R.
  Hypothesis Hb : 0 <= beta <= 1.
  Let K := @fuzzyK RN alpha beta.

  Definition fz_ok (rho d : R) (n : nat) (w : list R) : Prop :=
    length w = n /\ Forall (fun a => 0 <= a) w /\ rho * d <= @l1norm RN w.

  Theorem fuzzy_step_bound (s : st (N:=RN)) x veto m eps s' c vl rho0 d :
    raising m eps -> rho s = [rho0] -> rho0 <= 1 -> 0 < d ->
    @dim_original RN x = d -> Forall (fun a => 0 <= a) x -> @vsum RN x = d ->   (* complement-coded sample *)
    Forall (fz_ok rho0 d (length x)) (W s) ->
    step_fit K s x veto m eps = Some (s', c, vl) ->
    Forall (fz_ok rho0 d (length x)) (W s').
  Proof.
    intros Hr Hrho Hr1 Hd Hdo Hx Hsum HW H.
    destruct (step_fit_frame K _ _ _ _ _ _ _ _ H) as (_ & _ & _ & _ & _ & O).
    assert (Hnew : fz_ok rho0 d (length x) x).
    { split; [reflexivity|]. split; [exact Hx|]. rewrite l1_nonneg by exact Hx. rewrite Hsum. nra. }
    destruct O as [(E & _ & w & En & EW & _)|[(_ & Hc & w & w' & Enth & Eu & EW & _)|(_ & _ & w' & En & EW & _)]]; rewrite EW.
    - cbn in En. inversion En; subst. constructor; [exact Hnew|constructor].
    - destruct (winner_passed_rho K eq_refl ltac:(intros; eexists; reflexivity) s x veto m eps s' c vl
                  Rleb_total Rleb_trans Hr ltac:(rewrite Hrho; reflexivity) H Hc) as (w0 & M & Ew0 & EM & HM).
      rewrite Enth in Ew0. inversion Ew0; subst w0. rewrite Hrho in HM. cbn in HM.
      cbn in EM. unfold fuzzy_match, odiv in EM. rewrite Hdo in EM.
      destruct (@neqb RN d n0) eqn:Ed; [discriminate|]. inversion EM as [EM']. clear EM.
      assert (Hok : fz_ok rho0 d (length x) w).
      { rewrite Forall_forall in HW. apply HW. eapply nth_error_In; eauto. }
      destruct Hok as (Hlw & Hw0 & Hwb).
      cbn in Eu. inversion Eu; subst w'.
      assert (Hmin0 : Forall (fun a => 0 <= a) (@vmin RN x w)).
      { clear - Hx Hw0 Hlw. revert w Hw0 Hlw. induction Hx as [|a x Ha _ IH]; intros [|b w] Hw0 Hlw; cbn in *; try discriminate; constructor.
        - inversion Hw0; subst. apply nmin_glb; assumption.
        - inversion Hw0; subst. apply IH; auto. }
      assert (HMv : rho0 * d <= @vsum RN (@vmin RN x w)).
      { rewrite l1_nonneg in EM' by exact Hmin0. cbn in EM'. rewrite <- EM' in HM.
        apply Rmult_le_compat_r with (r := d) in HM; [|lra]. unfold Rdiv in HM.
        rewrite Rmult_assoc, Rinv_l in HM by lra. lra. }
      rewrite l1_nonneg in Hwb by exact Hw0.
      apply Forall_forall. intros y Hy. apply In_nth_error in Hy as [j Hj].
      destruct (Nat.eq_dec j c) as [->|Hne].
      + rewrite set_nth_same in Hj by exact Hc. inversion Hj; subst y. split; [|split].
        * pose proof (vle_length _ _ (fuzzy_update_le beta Hb x w (eq_sym Hlw))). congruence.
        * apply fuzzy_update_ge0; auto.
        * apply fuzzy_size_bound; auto.
      + rewrite set_nth_other in Hj by exact Hne. rewrite Forall_forall in HW. apply HW. eapply nth_error_In; eauto.
    - cbn in En. inversion En; subst. apply Forall_app. split; [exact HW|constructor; [exact Hnew|constructor]].
  Qed.
End FuzzyBound.

(* Numeric signature of the model.  Every numeric function of the model is
   written once, polymorphic in [N : Num]; theorems are stated at the
   instance [RN] (Coq's reals, file NumR.v), the correspondence check
   executes the very same terms at [QN] (exact rationals) with vm_compute. *)
From Coq Require Import QArith Qreduction List Bool ZArith.
Import ListNotations.

Record Num := mkNum {
  T :> Type;
  n0 : T; n1 : T;
  nadd : T -> T -> T; nsub : T -> T -> T; nmul : T -> T -> T; ndiv : T -> T -> T;
  nleb : T -> T -> bool; neqb : T -> T -> bool;
  nsqrt : T -> T; nexp : T -> T; npi : T;
  nofZ : Z -> T }.

Arguments n0 {_}. Arguments n1 {_}.
Arguments nadd {_}. Arguments nsub {_}. Arguments nmul {_}. Arguments ndiv {_}.
Arguments nleb {_}. Arguments neqb {_}. Arguments nsqrt {_}. Arguments nexp {_}.
Arguments nofZ {_}. Arguments npi {_}.

Section Derived.
  Context {N : Num}.
  Definition nltb (a b : N) : bool := negb (nleb b a).
  Definition nmax (a b : N) : N := if nleb a b then b else a.
  Definition nmin (a b : N) : N := if nleb a b then a else b.
  Definition nneg (a : N) : N := nsub n0 a.
  Definition nabs (a : N) : N := if nleb n0 a then a else nneg a.
  Definition n2 : N := nadd n1 n1.
  Definition nhalf (a : N) : N := ndiv a n2.
  (* partial division: numpy/python raise or produce nan/inf on a zero divisor *)
  Definition odiv (a b : N) : option N := if neqb b n0 then None else Some (ndiv a b).
End Derived.

(* ---- exact rationals, normalised after every operation ---- *)
Definition QN : Num := {|
  T := Q; n0 := 0%Q; n1 := 1%Q;
  nadd := fun a b => Qred (a + b); nsub := fun a b => Qred (a - b);
  nmul := fun a b => Qred (a * b); ndiv := fun a b => Qred (a / b);
  nleb := Qle_bool; neqb := Qeq_bool;
  nsqrt := fun a => a;   (* no sqrt / exp at QN: kernels that need them run at FX only *)
  nexp := fun a => a;
  npi := 884279719003555 # 281474976710656;   (* the binary64 value of np.pi *)
  nofZ := fun z => inject_Z z |}.

(* ---- fixed point Z / 2^80, truncating: executes the sqrt / exp kernels for
   the tolerance-regime correspondence.  No theorem mentions FX. ---- *)
Definition fxs : Z := Z.pow 2 80.
Definition fx_mul (a b : Z) : Z := Z.div (a * b) fxs.
Definition fx_div (a b : Z) : Z := Z.div (a * fxs) b.
Definition fx_sqrt (a : Z) : Z := Z.sqrt (a * fxs).
(* exp by range reduction (divide by 2^10), 18 Taylor terms, 10 squarings;
   arguments below -200 underflow to 0 *)
Fixpoint fx_taylor (n : nat) (i : Z) (term acc a : Z) : Z :=
  match n with
  | O => acc
  | S n' => let term' := Z.div (fx_mul term a) i in fx_taylor n' (i + 1) term' (acc + term') a
  end.
Fixpoint fx_sqr (n : nat) (a : Z) : Z := match n with O => a | S n' => fx_sqr n' (fx_mul a a) end.
Definition fx_exp (a : Z) : Z :=
  if Z.ltb a (-200 * fxs) then 0
  else let a' := Z.div a 1024 in fx_sqr 10 (fx_taylor 18 1 fxs fxs a').
Definition FX : Num := {|
  T := Z; n0 := 0%Z; n1 := fxs;
  nadd := Z.add; nsub := Z.sub; nmul := fx_mul; ndiv := fx_div;
  nleb := Z.leb; neqb := Z.eqb;
  nsqrt := fx_sqrt; nexp := fx_exp;
  npi := Z.div (884279719003555 * fxs) 281474976710656;
  nofZ := fun z => (z * fxs)%Z |}.
Definition fx_of_Q (q : Q) : Z := Z.div (Qnum q * fxs) (Zpos (Qden q)).
Definition fx_to_Q (z : Z) : Q := Qred (z # (Z.to_pos fxs)).

(* Numeric signature of the model.  Every numeric function of the model is
   written once, polymorphic in [N : Num]; theorems are stated at the
   instance [RN] (Coq's reals, file NumR.v), the correspondence check
   executes the very same terms at [QN] (exact rationals) with vm_compute. *)
From Coq Require Import QArith Qreduction List Bool ZArith.
Import ListNotations.

Record Num := mkNum {
  T :> Type;
  n0 : T; n1 : T;
  nadd : T -> T -> T; nsub : T -> T -> T; nmul : T -> T -> T; ndiv : T -> T -> T;
  nleb : T -> T -> bool; neqb : T -> T -> bool;
  nsqrt : T -> T; nexp : T -> T;
  nofZ : Z -> T }.

Arguments n0 {_}. Arguments n1 {_}.
Arguments nadd {_}. Arguments nsub {_}. Arguments nmul {_}. Arguments ndiv {_}.
Arguments nleb {_}. Arguments neqb {_}. Arguments nsqrt {_}. Arguments nexp {_}.
Arguments nofZ {_}.

Section Derived.
  Context {N : Num}.
  Definition nltb (a b : N) : bool := negb (nleb b a).
  Definition nmax (a b : N) : N := if nleb a b then b else a.
  Definition nmin (a b : N) : N := if nleb a b then a else b.
  Definition nneg (a : N) : N := nsub n0 a.
  Definition nabs (a : N) : N := if nleb n0 a then a else nneg a.
  Definition n2 : N := nadd n1 n1.
  Definition nhalf (a : N) : N := ndiv a n2.
  (* partial division: numpy/python raise or produce nan/inf on a zero divisor *)
  Definition odiv (a b : N) : option N := if neqb b n0 then None else Some (ndiv a b).
End Derived.

(* ---- exact rationals, normalised after every operation ---- *)
Definition QN : Num := {|
  T := Q; n0 := 0%Q; n1 := 1%Q;
  nadd := fun a b => Qred (a + b); nsub := fun a b => Qred (a - b);
  nmul := fun a b => Qred (a * b); ndiv := fun a b => Qred (a / b);
  nleb := Qle_bool; neqb := Qeq_bool;
  nsqrt := fun a => a;   (* no sqrt / exp at QN: kernels that need them run at FX only *)
  nexp := fun a => a;
  nofZ := fun z => inject_Z z |}.

(* Non-vacuity of the fit-forgets theorems (Topo_refit, SAM_refit): concrete used models that meet the hypotheses, and
   whose leftover book-keeping (permanence flags and adjacency of three categories; a class map with two entries) is
   indeed gone after the fit. *)
From Coq Require Import List Bool Arith ZArith QArith.
From ART Require Import Num Vec Search Kernel BaseArt SimpleARTMAP Topo Fuzzy Topo_refit SAM_refit.
Import ListNotations.
Open Scope Q_scope.

Example topo_refit_example :
  let K := @fuzzyK QN (1#1024) 1 in
  let used := @mkTopo QN (@mkSt QN [[0; 1]; [1; 0]; [1#2; 1#2]] [] [3; 2; 2]%nat 7%nat [7#8] true (Some 2%nat))
                      [0; 1; 2; 0; 1; 2; 0]%Z [[0; 1; 0]; [1; 0; 1]; [0; 1; 0]]%nat [true; true; false] in
  let X := ([[0; 1]; [0; 1]; [1; 0]] : list (list QN)) in
  valid K (TB used) X = true /\ valid K (TB (topo_init (rho (TB used)))) X = true /\
  option_map (fun r => (W (TB (fst r)), tlab (fst r), adj (fst r), perm (fst r)))
    (topo_fit K K 2 2 used X (fun _ => None) MTplus (0 : QN))
  = option_map (fun r => (W (TB (fst r)), tlab (fst r), adj (fst r), perm (fst r)))
    (topo_fit K K 2 2 (@topo_init QN [7#8]) X (fun _ => None) MTplus (0 : QN)) /\
  topo_fit K K 2 2 used X (fun _ => None) MTplus (0 : QN) <> None.
Proof. vm_compute. repeat split; try reflexivity; discriminate. Qed.

Example sam_refit_example :
  let K := @fuzzyK QN (1#1024) 1 in
  let used := @mkSam QN (@mkSt QN [[0; 1]; [1; 0]] [0; 1; 0]%nat [2; 1]%nat 3%nat [3#4] true (Some 2%nat)) [(0, 1); (1, 0)]%nat [1; 0; 1]%nat true in
  let X := ([[1#2; 1#2]; [0; 1]] : list (list QN)) in
  sam_valid K used X [0; 0]%nat = true /\ sam_valid K (sam_init (rho (A used))) X [0; 0]%nat = true /\
  option_map (fun s => (mp s, bl s, W (A s))) (sam_fit K used X [0; 0]%nat 1 MTplus (0 : QN))
  = Some ([(0, 0); (1, 0)]%nat, [0; 0]%nat, [[1#2; 1#2]; [0; 1]] : list (list QN)).
Proof. vm_compute. repeat split; reflexivity. Qed.

(* TopoART (artlib/topological/TopoART.py): two-winner learning, edge counts,
   pruning with re-indexing of weights / counters / permanence flags /
   adjacency / labels. *)
From Coq Require Import List Bool Arith ZArith Lia.
From ART Require Import Num Vec Search Kernel BaseArt DualVig.
Import ListNotations.

Section Topo.
  Context {N : Num}.
  Variables (K Klow : Kernel N).     (* the base module at beta, and at beta_lower *)
  Variables (tau phi : nat).

  Record topo := mkTopo {
    TB : st (N:=N);               (* W, weight_sample_counter_, sample_counter_, rho, hasattr W, dim_ (labels unused) *)
    tlab : list Z;                (* labels_ (-1 = noise) *)
    adj : list (list nat);        (* adjacency *)
    perm : list bool              (* _permanent_mask *)
  }.
  Definition topo_init (r : list N) : topo := {| TB := init r; tlab := []; adj := []; perm := [] |}.

  (* the search: first and second vigilance-passing, non-vetoed categories *)
  Fixpoint tsearch (Ms : list (list (option N))) (mode : mt) (eps : N) (veto : nat -> bool)
           (fuel : nat) (v : list N) (T : list (option N)) (res : option nat)
    : option nat * option nat * list N * list (nat * list N) :=
    match fuel with
    | O => (res, None, v, [])
    | S f =>
      match nanargmax nleb T with
      | None => (res, None, v, [])
      | Some c =>
        let m := mbin Ms mode (k_inv K) v c in
        let ok := veto c in
        if m && ok then
          match res with
          | None => let '(r1, r2, v', l) := tsearch Ms mode eps veto f v (set_nan c T) (Some c) in (r1, r2, v', (c, v) :: l)
          | Some r => (Some r, Some c, v, [(c, v)])
          end
        else if ok then
          let '(r1, r2, v', l) := tsearch Ms mode eps veto f v (set_nan c T) res in (r1, r2, v', (c, v) :: l)
        else if m then
          (* only the veto of a vigilance-passing category moves the vigilance (as in BaseART.step_fit; /repo fix 79caf04) *)
          let '(v1, keep) := dv_track Ms mode eps v c in
          if keep then let '(r1, r2, v', l) := tsearch Ms mode eps veto f v1 (set_nan c T) res in (r1, r2, v', (c, v) :: l)
          else (res, None, v1, [(c, v)])
        else
          let '(r1, r2, v', l) := tsearch Ms mode eps veto f v (set_nan c T) res in (r1, r2, v', (c, v) :: l)
      end
    end.

  (* adjacency[r, c] += 1 *)
  Definition adj_incr (a : list (list nat)) (r c : nat) : list (list nat) :=
    set_nth r (set_nth c (S (nth c (nth r a []) 0)) (nth r a [])) a.
  (* np.pad(adjacency, ((0,1),(0,1))) *)
  Definition adj_pad (a : list (list nat)) : list (list nat) :=
    map (fun row => row ++ [0]) a ++ [repeat 0 (S (length a))].

  Definition set_TB (s : topo) (b : st (N:=N)) : topo := {| TB := b; tlab := tlab s; adj := adj s; perm := perm s |}.

  Definition topo_step (s : topo) (x : list N) (veto : option (nat -> bool)) (mode : mt) (eps : N)
    : option (topo * nat * list (nat * list N)) :=
    let b := bump (TB s) in
    let base := rho b in
    match W b with
    | [] =>
        w <- k_new K x ;;
        Some ({| TB := add_weight b w; tlab := tlab s; adj := [[0]]; perm := [false] |}, 0, [])
    | _ =>
        let n := length (W b) in
        Ts <- omap (k_choice K (W b) x) (W b) ;;
        let Ms := map (k_match K x) (W b) in
        let vf := match veto with Some f => f | None => fun _ => true end in
        let '(r1, r2, v', log) := tsearch Ms mode eps vf n base (map Some Ts) None in
        if log_undef Ms log then None else
        let vlog := match veto with Some _ => log | None => [] end in
        match r1 with
        | None =>
            w' <- k_new K x ;;
            Some ({| TB := set_rho (add_weight b w') base; tlab := tlab s; adj := adj_pad (adj s); perm := perm s ++ [false] |},
                  n, vlog)
        | Some c1 =>
            w1 <- nth_error (W b) c1 ;;
            w1' <- k_update K x w1 ;;
            let b1 := set_weight b c1 w1' in
            match r2 with
            | None => Some ({| TB := set_rho b1 base; tlab := tlab s; adj := adj s; perm := perm s |}, c1, vlog)
            | Some c2 =>
                w2 <- nth_error (W b1) c2 ;;
                w2' <- k_update Klow x w2 ;;
                Some ({| TB := set_rho (set_weight b1 c2 w2') base; tlab := tlab s;
                         adj := adj_incr (adj s) c1 c2; perm := perm s |}, c1, vlog)
            end
        end
    end.

  (* ---- pruning ---- *)
  Fixpoint select {A} (mask : list bool) (l : list A) : list A :=
    match mask, l with
    | true :: m', a :: l' => a :: select m' l'
    | false :: m', _ :: l' => select m' l'
    | _, _ => []
    end.
  (* position of old index k among the survivors *)
  Fixpoint new_index (mask : list bool) (k : nat) : option nat :=
    match mask, k with
    | [], _ => None
    | b :: _, O => if b then Some 0 else None
    | b :: m', S k' => option_map (fun i => if b then S i else i) (new_index m' k')
    end.

  Definition prune (s : topo) (X : list (list N)) : option topo :=
    let b := TB s in
    let mask := map (fun p => orb (fst p) (Nat.leb phi (snd p))) (combine (perm s) (wsc b)) in
    let W' := select mask (W b) in
    let b' := {| W := W'; labels := labels b; wsc := select mask (wsc b); sc := sc b; rho := rho b;
                 hasW := hasW b; dim := dim b |} in
    labs <- omap (fun lx =>
              let '(l, x) := lx in
              match (if Z.ltb l 0 then None else new_index mask (Z.to_nat l)) with
              | Some i => Some (Z.of_nat i)
              | None => match W' with
                        | [] => Some (-1)%Z
                        | _ => option_map Z.of_nat (step_pred K b' x)
                        end
              end) (combine (tlab s) X) ;;
    Some {| TB := b'; tlab := labs ++ skipn (length X) (tlab s);
            adj := select mask (map (select mask) (adj s)); perm := select mask mask |}.

  Definition post_step (s : topo) (X : list (list N)) : option topo :=
    if Nat.ltb 0 (sc (TB s)) && Nat.eqb (Nat.modulo (sc (TB s)) tau) 0 then prune s X else Some s.

  Fixpoint topo_loop (s : topo) (X Xall : list (list N)) (i : nat) (veto : vetos) (mode : mt) (eps : N)
    : option (topo * list (list (nat * list N))) :=
    match X with
    | [] => Some (s, [])
    | x :: X' =>
        r <- topo_step s x (veto i) mode eps ;;
        let '(s1, c, l) := r in
        let s2 := {| TB := TB s1; tlab := set_nth i (Z.of_nat c) (tlab s1); adj := adj s1; perm := perm s1 |} in
        s3 <- post_step s2 Xall ;;
        r' <- topo_loop s3 X' Xall (S i) veto mode eps ;;
        Some (fst r', l :: snd r')
    end.

  Definition topo_fit (s : topo) (X : list (list N)) (veto : vetos) (mode : mt) (eps : N) :=
    if valid K (TB s) X then
      let b0 := learn_dim (TB s) X in
      let b1 := {| W := []; labels := []; wsc := []; sc := 0; rho := rho b0; hasW := true; dim := dim b0 |} in
      topo_loop {| TB := b1; tlab := repeat 0%Z (length X); adj := adj s; perm := perm s |} X X 0 veto mode eps
    else None.

  (* predict: -1 when nothing survived (fix: commit) *)
  Definition topo_step_pred (s : topo) (x : list N) : option Z :=
    match W (TB s) with [] => Some (-1)%Z | _ => option_map Z.of_nat (step_pred K (TB s) x) end.
End Topo.
Arguments topo_init {N}.

(* SimpleARTMAP and ARTMAP (artlib/supervised/SimpleARTMAP.py, ARTMAP.py),
   on top of the BaseART model. *)
From Coq Require Import List Bool Arith Lia.
From ART Require Import Num Vec Search Kernel BaseArt.
Import ListNotations.

Fixpoint lookup (m : list (nat * nat)) (k : nat) : option nat :=
  match m with
  | [] => None
  | (a, b) :: m' => if Nat.eqb a k then Some b else lookup m' k
  end.

Section SAM.
  Context {N : Num}.
  Variable K : Kernel N.

  Record sam := mkSam {
    A : st (N:=N);               (* module_a *)
    mp : list (nat * nat);       (* self.map, in insertion order *)
    bl : list nat;               (* self.labels_ (the supplied targets) *)
    hasL : bool                  (* hasattr(self, "labels_") *)
  }.
  Definition sam_init (r : list N) : sam := {| A := init r; mp := []; bl := []; hasL := false |}.

  (* match_reset_func: veto categories already mapped to another class *)
  Definition sam_veto (m : list (nat * nat)) (cb : nat) (c : nat) : bool :=
    match lookup m c with Some b => Nat.eqb b cb | None => true end.

  Definition sam_step (s : sam) (x : list N) (cb : nat) (m : mt) (eps : N) : option (sam * nat) :=
    r <- step_fit K (A s) x (Some (sam_veto (mp s) cb)) m eps ;;
    let '(a', ca, _) := r in
    match lookup (mp s) ca with
    | None => Some ({| A := a'; mp := mp s ++ [(ca, cb)]; bl := bl s; hasL := hasL s |}, ca)
    | Some b => if Nat.eqb b cb
                then Some ({| A := a'; mp := mp s; bl := bl s; hasL := hasL s |}, ca)
                else None                                   (* assert self.map[c_a] == c_b *)
    end.

  Definition set_A (s : sam) (a : st (N:=N)) : sam := {| A := a; mp := mp s; bl := bl s; hasL := hasL s |}.

  (* one pass over (X, y); the A-side label of sample i goes to position i + j *)
  Fixpoint sam_loop (s : sam) (X : list (list N)) (y : list nat) (i j : nat) (m : mt) (eps : N) : option sam :=
    match X, y with
    | x :: X', cb :: y' =>
        r <- sam_step s x cb m eps ;;
        let '(s1, ca) := r in
        let a2 := set_labels (A s1) (set_nth (i + j) ca (labels (A s1))) in
        sam_loop (set_A s1 a2) X' y' (S i) j m eps
    | _, _ => Some s
    end.

  Fixpoint sam_epochs (n : nat) (s : sam) (X : list (list N)) (y : list nat) (m : mt) (eps : N) : option sam :=
    match n with
    | O => Some s
    | S n' => s1 <- sam_loop s X y 0 0 m eps ;; sam_epochs n' s1 X y m eps
    end.

  Definition sam_valid (s : sam) (X : list (list N)) (y : list nat) : bool :=
    Nat.eqb (length X) (length y) && negb (Nat.eqb (length X) 0) && valid K (A s) X.

  (* fit: after the fix commits it forgets the map and the A-side counters *)
  Definition sam_fit (s : sam) (X : list (list N)) (y : list nat) (iters : nat) (m : mt) (eps : N) : option sam :=
    if sam_valid s X y then
      let a0 := learn_dim (A s) X in
      let a1 := {| W := []; labels := repeat 0 (length X); wsc := []; sc := 0; rho := rho a0;
                   hasW := true; dim := dim a0 |} in
      sam_epochs iters {| A := a1; mp := []; bl := y; hasL := true |} X y m eps
    else None.

  Definition sam_partial_fit (s : sam) (X : list (list N)) (y : list nat) (m : mt) (eps : N) : option sam :=
    if sam_valid s X y then
      let a0 := learn_dim (A s) X in
      if hasL s then
        let j := length (bl s) in
        let a1 := set_labels a0 (labels a0 ++ repeat 0 (length X)) in
        sam_loop {| A := a1; mp := mp s; bl := bl s ++ y; hasL := true |} X y 0 j m eps
      else
        let a1 := {| W := []; labels := repeat 0 (length X); wsc := wsc a0; sc := sc a0; rho := rho a0;
                     hasW := true; dim := dim a0 |} in
        sam_loop {| A := a1; mp := mp s; bl := y; hasL := true |} X y 0 0 m eps
    else None.

  (* step_pred / predict_ab *)
  Definition sam_step_pred (s : sam) (x : list N) : option (nat * nat) :=
    ca <- step_pred K (A s) x ;; cb <- lookup (mp s) ca ;; Some (ca, cb).
  Definition sam_predict_ab (s : sam) (X : list (list N)) : option (list (nat * nat)) :=
    if hasL s then omap (sam_step_pred s) X else None.
  (* map_a2b on an array of A labels *)
  Definition map_a2b (m : list (nat * nat)) (ya : list nat) : option (list nat) := omap (lookup m) ya.
End SAM.

Arguments sam_init {N}.

(* Vector operations on [list N] mirroring the numpy primitives the library
   uses (np.minimum, np.sum, np.dot, elementwise + - *, slicing). *)
From Coq Require Import List Bool ZArith Arith Lia.
From ART Require Import Num.
Import ListNotations.

Section Vec.
  Context {N : Num}.
  Definition vec := list N.

  Fixpoint vzip (f : N -> N -> N) (x y : vec) : vec :=
    match x, y with a :: x', b :: y' => f a b :: vzip f x' y' | _, _ => [] end.
  Definition vadd := vzip nadd.
  Definition vsub := vzip nsub.
  Definition vmul := vzip nmul.
  Definition vmin := vzip nmin.      (* fuzzy_and = np.minimum *)
  Definition vscale (t : N) (x : vec) : vec := map (nmul t) x.
  Fixpoint vsum (x : vec) : N := match x with [] => n0 | a :: x' => nadd a (vsum x') end.
  Definition l1norm (x : vec) : N := vsum (map nabs x).
  Definition dot (x y : vec) : N := vsum (vmul x y).
  Definition l2norm2 (x : vec) : N := dot x x.
  Definition vconst (n : nat) (c : N) : vec := repeat c n.
  Definition vall (p : N -> bool) (x : vec) : bool := forallb p x.
  Fixpoint veqb (x y : vec) : bool :=
    match x, y with
    | [], [] => true
    | a :: x', b :: y' => neqb a b && veqb x' y'
    | _, _ => false
    end.
  Definition slice {A} (lo hi : nat) (l : list A) : list A := firstn (hi - lo) (skipn lo l).
  (* 1 - x, elementwise *)
  Definition vcompl (x : vec) : vec := map (nsub n1) x.
End Vec.

(* update the k-th element *)
Fixpoint set_nth {A} (k : nat) (a : A) (l : list A) : list A :=
  match l, k with
  | [], _ => []
  | _ :: l', O => a :: l'
  | b :: l', S k' => b :: set_nth k' a l'
  end.

Lemma set_nth_length {A} k (a : A) : forall l, length (set_nth k a l) = length l.
Proof. induction k; intros [|b l]; cbn; auto. Qed.
Lemma set_nth_same {A} k (a : A) : forall l, k < length l -> nth_error (set_nth k a l) k = Some a.
Proof. induction k; intros [|b l] H; cbn in *; try lia; auto. apply IHk; lia. Qed.
Lemma set_nth_other {A} k (a : A) : forall l j, j <> k -> nth_error (set_nth k a l) j = nth_error l j.
Proof.
  induction k; intros [|b l] j H; cbn; auto.
  - destruct j; [congruence|reflexivity].
  - destruct j; [reflexivity|]. cbn. apply IHk. congruence.
Qed.

Lemma skipn_skipn' {A} (m : nat) : forall n (l : list A), skipn n (skipn m l) = skipn (m + n) l.
Proof.
  induction m as [|m IH]; intros n l; cbn; [reflexivity|].
  destruct l as [|a l]; [destruct n; reflexivity|]. apply IH.
Qed.

Lemma combine_app' {A B} (l1 : list A) : forall (l2 : list B) l1' l2', length l1 = length l2 ->
  combine (l1 ++ l1') (l2 ++ l2') = combine l1 l2 ++ combine l1' l2'.
Proof.
  induction l1 as [|a l1 IH]; intros [|b l2] l1' l2' H; cbn in *; try discriminate; [reflexivity|].
  f_equal. apply IH. lia.
Qed.

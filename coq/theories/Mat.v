(* Small dense matrices as row-major lists (np.reshape / flatten, matmul,
   np.linalg.det / inv by cofactor expansion).  Modelled, not verified, for
   the third-party routines. *)
From Coq Require Import List Bool Arith Lia.
From ART Require Import Num Vec.
Import ListNotations.

Section Mat.
  Context {N : Num}.
  Definition mat := list (list N).

  Fixpoint chunk (fuel d : nat) (l : list N) : mat :=
    match fuel with
    | O => []
    | S f => match l with [] => [] | _ => firstn d l :: chunk f d (skipn d l) end
    end.
  Definition reshape (d : nat) (l : list N) : mat := chunk d d l.        (* d x d *)
  Definition flatten (m : mat) : list N := concat m.
  Definition matvec (m : mat) (x : list N) : list N := map (fun r => dot r x) m.
  Definition outer (u v : list N) : mat := map (fun a => map (nmul a) v) u.
  Definition madd (a b : mat) : mat := map (fun p => vadd (fst p) (snd p)) (combine a b).
  Definition mscale (t : N) (a : mat) : mat := map (vscale t) a.
  Fixpoint drop_nth {A} (k : nat) (l : list A) : list A :=
    match l, k with [] , _ => [] | _ :: l', O => l' | a :: l', S k' => a :: drop_nth k' l' end.
  Definition minor (m : mat) (i j : nat) : mat := map (drop_nth j) (drop_nth i m).

  (* Laplace expansion along the first row *)
  Fixpoint det_fuel (fuel : nat) (m : mat) : N :=
    match fuel with
    | O => n1
    | S f =>
      match m with
      | [] => n1
      | row :: _ =>
          let terms := map (fun j =>
              let c := nmul (nth j row n0) (det_fuel f (minor m 0 j)) in
              if Nat.even j then c else nneg c) (seq 0 (length row)) in
          vsum terms
      end
    end.
  Definition det (m : mat) : N := det_fuel (length m) m.
  (* inverse by the adjugate; None when singular *)
  Definition inv (m : mat) : option mat :=
    let d := det m in
    if neqb d n0 then None else
    let n := length m in
    Some (map (fun i => map (fun j =>
            let c := det (minor m j i) in
            ndiv (if Nat.even (i + j) then c else nneg c) d) (seq 0 n)) (seq 0 n)).
  Definition identity (d : nat) : mat :=
    map (fun i => map (fun j => if Nat.eqb i j then n1 else n0) (seq 0 d)) (seq 0 d).
  Fixpoint vprod (x : list N) : N := match x with [] => n1 | a :: x' => nmul a (vprod x') end.
  Fixpoint npow (a : N) (k : nat) : N := match k with O => n1 | S k' => nmul a (npow a k') end.
End Mat.

(* The estimator protocol with sub-estimators (BaseART.set_params / BARTMAP.set_params as repaired: artlib/common/
   BaseART.py, artlib/biclustering/BARTMAP.py): keyword arguments are own parameters, whole sub-estimators
   (replacement) or nested values module__key.  Every top-level name must be known and the own parameters valid
   before anything is touched; nested groups are then handed, in order of first appearance, to the sub-estimator
   that will be installed by this very call if the call replaces it (/repo fix "set_params hands nested values to a
   sub-estimator replaced in the same call"), otherwise to the current one; finally own parameters and replacements
   are assigned.  A failing nested group stops the call; groups applied before it stay applied (recorded finding). *)
From Coq Require Import List Bool Arith String.
From ART Require Import Params.
Import ListNotations.
Open Scope string_scope.

Section Nested.
  Variable V : Type.
  Variable pvalid_own : params V -> bool.
  Variable pvalid_sub : string -> params V -> bool.

  Record est := mkEst { e_own : params V; e_subs : list (string * params V) }.
  Inductive arg := AOwn (k : string) (v : V) | ARepl (m : string) (p : params V) | ANest (m k : string) (v : V).

  Definition known (e : est) (a : arg) : bool :=
    match a with
    | AOwn k _ => has V (e_own e) k
    | ARepl m _ => has (params V) (e_subs e) m
    | ANest m _ _ => has (params V) (e_subs e) m
    end.
  Definition own_after (e : est) (kw : list arg) : params V :=
    fold_left (fun p a => match a with AOwn k v => pset V p k v | _ => p end) kw (e_own e).
  Fixpoint repl_of (kw : list arg) (m : string) : option (params V) :=
    match kw with
    | [] => None
    | ARepl m' p :: kw' => if String.eqb m' m then Some p else repl_of kw' m
    | _ :: kw' => repl_of kw' m
    end.
  Fixpoint group (kw : list arg) (m : string) : list (string * V) :=
    match kw with
    | [] => []
    | ANest m' k v :: kw' => if String.eqb m' m then (k, v) :: group kw' m else group kw' m
    | _ :: kw' => group kw' m
    end.
  Fixpoint group_names (kw : list arg) (seen : list string) : list string :=
    match kw with
    | [] => []
    | ANest m _ _ :: kw' => if existsb (String.eqb m) seen then group_names kw' seen else m :: group_names kw' (m :: seen)
    | _ :: kw' => group_names kw' seen
    end.

  (* the nested groups, one after another; repl = the replacements as they will be installed *)
  Fixpoint apply_groups (towards_new : bool) (kw : list arg) (ms : list string)
           (subs : list (string * params V)) (repl : list (string * params V))
    : list (string * params V) * list (string * params V) * bool :=
    match ms with
    | [] => (subs, repl, true)
    | m :: ms' =>
        match (if towards_new then pget (params V) repl m else None) with
        | Some target =>
            let '(t', ok) := set_params V (pvalid_sub m) target (group kw m) in
            if ok then apply_groups towards_new kw ms' subs (pset (params V) repl m t') else (subs, repl, false)
        | None =>
            match pget (params V) subs m with
            | Some target =>
                let '(t', ok) := set_params V (pvalid_sub m) target (group kw m) in
                if ok then apply_groups towards_new kw ms' (pset (params V) subs m t') repl else (subs, repl, false)
            | None => (subs, repl, false)
            end
        end
    end.

  Definition repls (kw : list arg) : list (string * params V) :=
    fold_right (fun a acc => match a with ARepl m p => (m, p) :: acc | _ => acc end) [] kw.
  Definition install (subs repl : list (string * params V)) : list (string * params V) :=
    fold_left (fun s mp => pset (params V) s (fst mp) (snd mp)) repl subs.

  Definition set_params_gen (towards_new : bool) (e : est) (kw : list arg) : est * bool :=
    match kw with
    | [] => (e, true)
    | _ =>
      if negb (forallb (known e) kw) then (e, false)
      else if negb (pvalid_own (own_after e kw)) then (e, false)
      else
        let '(subs', repl', ok) := apply_groups towards_new kw (group_names kw []) (e_subs e) (repls kw) in
        if ok then ({| e_own := own_after e kw; e_subs := install subs' repl' |}, true)
        else ({| e_own := e_own e; e_subs := subs' |}, false)
    end.
  Definition set_params_n := set_params_gen true.
  (* before the fix: the nested values always went to the module in place, which the call then replaced *)
  Definition set_params_n_before_fix := set_params_gen false.

  (* ---- theorems ---- *)
  Theorem unknown_name_changes_nothing e kw :
    kw <> [] -> forallb (known e) kw = false -> set_params_n e kw = (e, false).
  Proof. intros Hne H. unfold set_params_n, set_params_gen. destruct kw; [congruence|]. rewrite H. reflexivity. Qed.

  Theorem invalid_own_changes_nothing e kw :
    kw <> [] -> forallb (known e) kw = true -> pvalid_own (own_after e kw) = false -> set_params_n e kw = (e, false).
  Proof. intros Hne H1 H2. unfold set_params_n, set_params_gen. destruct kw; [congruence|]. rewrite H1, H2. reflexivity. Qed.

  (* a sub-estimator replaced together with one of its parameters: the installed module is the NEW one with the value *)
  Theorem replaced_module_receives_the_nested_value e m pnew k v (swap : bool) :
    has (params V) (e_subs e) m = true ->
    pvalid_own (e_own e) = true ->
    set_params V (pvalid_sub m) pnew [(k, v)] = (pset V pnew k v, true) ->
    let kw := if swap then [ANest m k v; ARepl m pnew] else [ARepl m pnew; ANest m k v] in
    set_params_n e kw = ({| e_own := e_own e; e_subs := pset (params V) (e_subs e) m (pset V pnew k v) |}, true).
  Proof.
    intros Hm Ho Hs kw. unfold set_params_n, set_params_gen.
    destruct swap; subst kw; cbn [forallb known own_after fold_left group_names existsb repls fold_right]; rewrite Hm; cbn [andb negb];
      rewrite Ho; cbn [negb apply_groups pget group]; rewrite String.eqb_refl; cbn [group];
      rewrite ?String.eqb_refl; cbn [group]; rewrite Hs; cbn [pset apply_groups install fold_left fst snd];
      rewrite String.eqb_refl; reflexivity.
  Qed.
End Nested.

(* the pairing before the fix really was wrong (DualVigilanceART: base_module replaced by a module of vigilance 6/10
   together with base_module__rho = 9/10): the installed module kept 6/10 *)
From Coq Require Import QArith.
Open Scope Q_scope.
Definition dv0 : est Q := {| e_own := [("rho_lower_bound", 3#10)]; e_subs := [("base_module", [("rho", 1#2); ("alpha", 0); ("beta", 1)])] |}.
Definition newmod : params Q := [("rho", 6#10); ("alpha", 0); ("beta", 1)].
Example nested_before_fix_refuted :
  fst (set_params_n_before_fix Q (fun _ => true) (fun _ _ => true) dv0 [ARepl Q "base_module" newmod; ANest Q "base_module" "rho" (9#10)])
  = {| e_own := e_own Q dv0; e_subs := [("base_module", newmod)] |}
  /\ fst (set_params_n Q (fun _ => true) (fun _ _ => true) dv0 [ARepl Q "base_module" newmod; ANest Q "base_module" "rho" (9#10)])
  = {| e_own := e_own Q dv0; e_subs := [("base_module", [("rho", 9#10); ("alpha", 0); ("beta", 1)])] |}
  /\ set_params_n Q (fun _ => true) (fun _ _ => true) dv0 [ARepl Q "base_module" newmod; AOwn Q "nope" 1] = (dv0, false).
Proof. vm_compute. repeat split; reflexivity. Qed.

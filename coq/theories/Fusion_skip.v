(* C11: with channels withheld, FusionART's activation IS the gamma-weighted sum
   of the remaining channels' own activations (after /repo fix ee23ec6 a skipped
   channel contributes 0, so nothing but the supplied channels enters the sum). *)
From Coq Require Import List Bool Arith Lia Reals Lra.
From ART Require Import Num NumR Vec Search Kernel BaseArt Fusion.
Import ListNotations.
Open Scope R_scope.

(* the sum over the channels that are not skipped, by channel number *)
Fixpoint rem_sum (k : nat) (skip : list nat) (tg : list (R * R)) : R :=
  match tg with
  | [] => 0
  | (t, g) :: tg' => (if existsb (Nat.eqb k) skip then 0 else t * g) + rem_sum (S k) skip tg'
  end.

Lemma fold_acc (l : list (R * R)) : forall acc,
  fold_left (fun a (p : R * R) => a + fst p * snd p) l acc = acc + fold_left (fun a (p : R * R) => a + fst p * snd p) l 0.
Proof.
  induction l as [|p l IH]; intros acc; cbn [fold_left]; [lra|].
  rewrite (IH (acc + fst p * snd p)), (IH (0 + fst p * snd p)). lra.
Qed.

Section S.
  Variables (mods : list (Kernel RN)) (gammas : list (T RN)) (dims wdims : list nat) (skip : list nat).
  Variables (Ws : list (list (T RN))) (x w : list (T RN)).

  Definition own (Kp : Kernel RN * ((nat * nat) * (nat * nat))) : option R :=
    let '(K, (p, pw)) := Kp in k_choice K (chanW pw Ws) (chan p x) (chan pw w).
  Definition skf (k : nat) (Kp : Kernel RN * ((nat * nat) * (nat * nat))) : option R :=
    let '(K, (p, pw)) := Kp in
    if existsb (Nat.eqb k) skip then Some 0 else k_choice K (chanW pw Ws) (chan p x) (chan pw w).

  (* what omapi collects: 0 for a skipped channel, the module's own activation otherwise *)
  Lemma omapi_skf l : forall i ts, omapi i skf l = Some ts ->
    length ts = length l /\
    forall j Kp, nth_error l j = Some Kp ->
      nth_error ts j = if existsb (Nat.eqb (i + j)) skip then Some 0 else own Kp.
  Proof.
    induction l as [|Kp0 l IH]; intros i ts H; cbn [omapi] in H.
    - inversion H; subst. split; [reflexivity|]. intros [|j] Kp Hj; discriminate.
    - destruct (skf i Kp0) as [t0|] eqn:E0; cbn [obind] in H; [|discriminate].
      destruct (omapi (S i) skf l) as [r|] eqn:Er; cbn [obind] in H; [|discriminate].
      inversion H; subst. destruct (IH _ _ Er) as [L Hn]. split; [cbn; lia|].
      intros [|j] Kp Hj; cbn [nth_error] in *.
      + inversion Hj; subst. rewrite Nat.add_0_r. unfold skf in E0. destruct Kp as [K [p pw]].
        destruct (existsb (Nat.eqb i) skip); [symmetry; exact E0|]. unfold own. symmetry; exact E0.
      + rewrite (Hn j Kp Hj). replace (S i + j)%nat with (i + S j)%nat by lia. reflexivity.
  Qed.

  (* the left-to-right sum with zeros at the skipped positions is the sum over the remaining channels *)
  Lemma fold_rem (ts : list R) : forall i gs,
    (forall j, (j < length ts)%nat -> existsb (Nat.eqb (i + j)) skip = true -> nth_error ts j = Some 0) ->
    fold_left (fun a (p : R * R) => a + fst p * snd p) (combine ts gs) 0 = rem_sum i skip (combine ts gs).
  Proof.
    induction ts as [|t ts IH]; intros i gs H; [reflexivity|].
    destruct gs as [|g gs]; [reflexivity|]. cbn [combine fold_left rem_sum fst snd].
    rewrite fold_acc. rewrite (IH (S i) gs).
    - destruct (existsb (Nat.eqb i) skip) eqn:E; [|lra].
      specialize (H 0%nat ltac:(cbn; lia)). rewrite Nat.add_0_r in H. specialize (H E). cbn in H. inversion H; subst. lra.
    - intros j Hj Hs. specialize (H (S j) ltac:(cbn; lia)). replace (i + S j)%nat with (S i + j)%nat in H by lia. apply (H Hs).
  Qed.

  Theorem skip_choice_is_remaining_sum t :
    fusion_choice_skip mods gammas dims wdims skip Ws x w = Some t ->
    exists ts, length ts = length (combine mods (pos dims wdims)) /\
      (forall k Kp, nth_error (combine mods (pos dims wdims)) k = Some Kp -> existsb (Nat.eqb k) skip = false ->
                    nth_error ts k = own Kp) /\
      t = rem_sum 0 skip (combine ts gammas).
  Proof.
    unfold fusion_choice_skip. intros H.
    match type of H with context[omapi 0 ?f ?l] => destruct (omapi 0 f l) as [ts|] eqn:E end; cbn [obind] in H; [|discriminate].
    inversion H; subst. destruct (omapi_skf _ _ _ E) as [L Hn].
    exists ts. split; [exact L|]. split.
    - intros k Kp Hk Hs. rewrite (Hn k Kp Hk). cbn [plus]. rewrite Hs. reflexivity.
    - change (fold_left (fun (acc : RN) (tg : RN * RN) => nadd acc (nmul (fst tg) (snd tg))) (combine ts gammas) n0)
        with (fold_left (fun a (p : R * R) => a + fst p * snd p) (combine ts gammas) 0).
      apply fold_rem. intros j Hj Hs. cbn [plus] in Hs.
      destruct (nth_error (combine mods (pos dims wdims)) j) as [Kp|] eqn:Ej.
      + rewrite (Hn j Kp Ej). cbn [plus]. rewrite Hs. reflexivity.
      + apply nth_error_None in Ej. lia.
  Qed.
End S.

(* nothing withheld: the activation of a FusionART category is the gamma-weighted sum of the channel modules' own
   activations (C10) *)
Fixpoint wsumR (tg : list (R * R)) : R := match tg with [] => 0 | (t, g) :: tg' => t * g + wsumR tg' end.
Lemma rem_sum_nil k tg : rem_sum k [] tg = wsumR tg.
Proof. revert k. induction tg as [|[t g] tg IH]; intros k; cbn [rem_sum wsumR existsb]; [reflexivity|]. rewrite IH. reflexivity. Qed.

Theorem choice_is_weighted_sum (mods : list (Kernel RN)) (gammas : list (T RN)) (dims wdims : list nat)
        (Ws : list (list (T RN))) (x w : list (T RN)) (t : R) :
  k_choice (fusionK mods gammas dims wdims) Ws x w = Some t ->
  exists ts, length ts = length (combine mods (pos dims wdims)) /\
    (forall k Kp, nth_error (combine mods (pos dims wdims)) k = Some Kp -> nth_error ts k = own Ws x w Kp) /\
    t = wsumR (combine ts gammas).
Proof.
  cbn [k_choice fusionK]. unfold fusion_choice. intros H.
  destruct (skip_choice_is_remaining_sum mods gammas dims wdims [] Ws x w t H) as (ts & L & Hown & Ht).
  exists ts. split; [exact L|]. split.
  - intros k Kp Hk. apply Hown; [exact Hk|reflexivity].
  - rewrite Ht. apply rem_sum_nil.
Qed.

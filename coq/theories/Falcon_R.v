(* C16 at the real-number instance: SARSA targets are in [0,1] and their
   complement coding is a valid Fuzzy ART input of width 2. *)
From Coq Require Import List Bool Arith Reals Lra Lia.
From ART Require Import Num NumR Vec Search Search_proofs Kernel Fuzzy Falcon.
Import ListNotations.
Open Scope R_scope.

Lemma clip01_range (a : R) : 0 <= @clip01 RN a <= 1.
Proof.
  unfold clip01. rewrite nmax_R, nmin_R. cbn. unfold Rmax, Rmin.
  destruct (Rle_dec a 1); destruct (Rle_dec _ 0); lra.
Qed.
Lemma clip01_id (a : R) : 0 <= a <= 1 -> @clip01 RN a = a.
Proof.
  intros H. unfold clip01. rewrite nmax_R, nmin_R. cbn. unfold Rmax, Rmin.
  destruct (Rle_dec a 1); [|lra]. destruct (Rle_dec a 0); lra.
Qed.

Theorem sarsa_in_range alpha lambda (Q r : list R) :
  Forall (fun t => 0 <= t <= 1) (@sarsa RN alpha lambda Q r).
Proof.
  revert r. induction Q as [|q0 Q IH]; intros r; [constructor|].
  destruct Q as [|q1 Q']; [destruct r; constructor|]. destruct r as [|r0 r']; [constructor|].
  cbn [sarsa]. constructor; [apply clip01_range|apply IH].
Qed.

(* every transition but the last gets a target *)
Theorem sarsa_length alpha lambda (Q r : list R) :
  length Q = length r -> length (@sarsa RN alpha lambda Q r) = pred (length Q).
Proof.
  revert r. induction Q as [|q0 Q IH]; intros r H; [reflexivity|].
  destruct Q as [|q1 Q']; [destruct r; reflexivity|]. destruct r as [|r0 r']; [discriminate|].
  cbn [length] in H. change (length (@sarsa RN alpha lambda (q0 :: q1 :: Q') (r0 :: r'))) with (S (length (@sarsa RN alpha lambda (q1 :: Q') r'))).
  rewrite (IH r') by (cbn [length]; lia). reflexivity.
Qed.

(* the formula, in the property's words *)
Theorem sarsa_formula alpha lambda (Q r : list R) t q0 q1 r0 :
  nth_error Q t = Some q0 -> nth_error Q (S t) = Some q1 -> nth_error r t = Some r0 ->
  nth_error (@sarsa RN alpha lambda Q r) t = Some (@clip01 RN (q0 + alpha * (r0 + lambda * q1 - q0))).
Proof.
  revert Q r. induction t as [|t IH]; intros Q r H0 H1 Hr.
  - destruct Q as [|a Q]; [discriminate H0|]. destruct Q as [|b Q']; [discriminate H1|].
    destruct r as [|c r']; [discriminate Hr|]. cbn in H0, H1, Hr.
    inversion H0; inversion H1; inversion Hr; subst. reflexivity.
  - destruct Q as [|a Q]; [discriminate H0|]. destruct Q as [|b Q'].
    { cbn in H0. destruct t; discriminate H0. }
    destruct r as [|c r']; [discriminate Hr|].
    change (nth_error (@sarsa RN alpha lambda (a :: b :: Q') (c :: r')) (S t))
      with (nth_error (@sarsa RN alpha lambda (b :: Q') r') t).
    apply IH; assumption.
Qed.

(* before any training Q = 0: with alpha = 1 the target is the reward itself *)
Theorem sarsa_untrained r0 (rest : list R) :
  0 <= r0 <= 1 -> hd_error (@sarsa RN 1 1 (0 :: 0 :: map (fun _ => 0) rest) (r0 :: 0 :: rest)) = Some r0.
Proof.
  intros H. cbn. f_equal. rewrite <- (clip01_id r0 H) at 2. f_equal. ring.
Qed.

(* targets are valid reward-channel inputs: complement-coded, in the unit square *)
Theorem sarsa_target_valid (t : R) : 0 <= t <= 1 -> @fuzzy_valid RN (@cc RN t) = true.
Proof.
  intros H. unfold fuzzy_valid, cc. cbn.
  assert (E1 : Rleb 0 t = true) by (apply Rleb_true; lra).
  assert (E2 : Rleb t 1 = true) by (apply Rleb_true; lra).
  assert (E3 : Rleb 0 (1 - t) = true) by (apply Rleb_true; lra).
  assert (E4 : Rleb (1 - t) 1 = true) by (apply Rleb_true; lra).
  rewrite E1, E2, E3, E4. cbn.
  unfold nabs, hundredth, n2. cbn.
  replace (t + (1 - t + 0) - 2 / (1 + 1)) with 0 by (field; lra).
  assert (E5 : Rleb 0 0 = true) by (apply Rleb_true; lra). rewrite E5.
  apply Rleb_true. lra.
Qed.

(* greedy action: the first maximiser of the predicted rewards *)
Theorem get_action_first_max {A} (space : list A) (rewards : list R) a :
  @get_action RN A true space rewards = Some a ->
  exists i t, nth_error space i = Some a /\ nth_error rewards i = Some t /\
    (forall j b, nth_error rewards j = Some b -> b <= t) /\
    (forall j b, (j < i)%nat -> nth_error rewards j = Some b -> b < t).
Proof.
  unfold get_action, argmax.
  pose proof (nanargmax_spec R Rleb Rleb_total Rleb_trans (map Some rewards)) as S.
  match goal with |- context[nanargmax ?l ?T] => change (nanargmax l T) with (nanargmax Rleb (map Some rewards)) end.
  destruct (nanargmax Rleb (map Some rewards)) as [i|]; cbn [obind]; [|discriminate].
  intros Ha. destruct S as [t (Hc & Hmax & Hfirst)].
  rewrite nth_error_map in Hc. destruct (nth_error rewards i) as [t'|] eqn:Et; cbn in Hc; [|discriminate].
  inversion Hc; subst t'. exists i, t. split; [exact Ha|]. split; [exact Et|]. split.
  - intros j b Hj. apply Rleb_true. apply (Hmax j b). rewrite nth_error_map, Hj. reflexivity.
  - intros j b Hlt Hj. apply Rleb_false. apply (Hfirst j b Hlt). rewrite nth_error_map, Hj. reflexivity.
Qed.

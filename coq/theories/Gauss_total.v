(* C04 for Gaussian ART at the level of whole calls: every stored weight keeps
   the layout mean ++ sigma ++ 1/sigma^2 ++ [sqrt(prod sigma^2)] ++ [n] with
   positive sigmas and n >= 1, hence (alpha >= 0, sigma_init > 0 of the data
   width) no division by zero occurs: every step, fit and partial_fit on rows
   of that width is defined, for every mode, epsilon and reset function. *)
From Coq Require Import List Bool Arith ZArith Reals Lra Lia.
From ART Require Import Num NumR Vec Mat Search Search_proofs Kernel BaseArt BaseArt_proofs
     SimpleARTMAP_proofs Total Total_R Hyper_total VecR Gauss.
Import ListNotations.
Open Scope R_scope.

Section GT.
  Variable sigma_init : list R.
  Variable alpha : R.
  Variable d : nat.
  Hypothesis Ha : 0 <= alpha.
  Hypothesis Hs_len : length sigma_init = d.
  Hypothesis Hs_pos : Forall (fun a => 0 < a) sigma_init.
  Let K := @gaussK RN sigma_init alpha.

  Definition inv2 (sigma : list R) : list R := map (fun a => 1 / (a * a)) sigma.
  Definition sqdet (sigma : list R) : R := sqrt (@vprod RN (@vmul RN sigma sigma)).

  (* the layout invariant of a stored weight *)
  Definition ga_ok (w : list R) : Prop :=
    exists mean sigma n, length mean = d /\ length sigma = d /\ Forall (fun a => 0 < a) sigma /\ 1 <= n /\
                         w = mean ++ sigma ++ inv2 sigma ++ [sqdet sigma] ++ [n].

  Lemma vmul_self_pos (sigma : list R) : Forall (fun a => 0 < a) sigma -> Forall (fun a => 0 < a) (@vmul RN sigma sigma).
  Proof. induction 1 as [|a l Ha0 _ IH]; cbn; constructor; [nra|exact IH]. Qed.

  Lemma vprod_pos (l : list R) : Forall (fun a => 0 < a) l -> 0 < @vprod RN l.
  Proof. induction 1 as [|a l Ha0 _ IH]; cbn; [lra|]. apply Rmult_lt_0_compat; assumption. Qed.

  Lemma sqdet_pos (sigma : list R) : Forall (fun a => 0 < a) sigma -> 0 < sqdet sigma.
  Proof. intros H. unfold sqdet. apply sqrt_lt_R0. apply vprod_pos. apply vmul_self_pos. exact H. Qed.

  Lemma omap_inv (sigma : list R) : Forall (fun a => 0 < a) sigma ->
    omap (fun a => @odiv RN n1 a) (@vmul RN sigma sigma) = Some (inv2 sigma).
  Proof.
    induction 1 as [|a l Ha0 _ IH]; cbn [vmul vzip omap inv2 map]; [reflexivity|].
    change (@vzip RN (@nmul RN) l l) with (@vmul RN l l). rewrite IH. unfold odiv.
    assert (E : @neqb RN (@nmul RN a a) n0 = false) by (cbn; apply Reqb_false; nra).
    rewrite E. cbn [obind]. reflexivity.
  Qed.

  Lemma ga_pack_ok (mean sigma : list R) (n : R) :
    length mean = d -> length sigma = d -> Forall (fun a => 0 < a) sigma -> 1 <= n ->
    exists w, @ga_pack RN mean sigma n = Some w /\ ga_ok w.
  Proof.
    intros Lm Ls Hp Hn. unfold ga_pack. cbv zeta. rewrite (omap_inv sigma Hp). cbn [obind].
    eexists. split; [reflexivity|]. exists mean, sigma, n. repeat split; auto.
  Qed.

  Lemma firstn_app_len {A} (a b : list A) n : length a = n -> firstn n (a ++ b) = a.
  Proof. intros <-. induction a as [|x a IH]; cbn; [destruct b; reflexivity|]. rewrite IH. reflexivity. Qed.
  Lemma skipn_app_len {A} (a b : list A) n : length a = n -> skipn n (a ++ b) = b.
  Proof. intros <-. induction a as [|x a IH]; cbn; [reflexivity|exact IH]. Qed.
  Lemma nth_app_len (a b : list R) n : length a = n -> nth n (a ++ b) 0 = nth 0 b 0.
  Proof. intros <-. induction a as [|x a IH]; cbn; [reflexivity|exact IH]. Qed.

  (* slicing a well-formed weight *)
  Lemma ga_slices (w : list R) : ga_ok w ->
    exists mean sigma n, length mean = d /\ length sigma = d /\ Forall (fun a => 0 < a) sigma /\ 1 <= n /\
      @ga_mean RN w d = mean /\ @ga_sigma RN w d = sigma /\ @ga_n RN w = n /\ @ga_sqrtdet RN w d = sqdet sigma.
  Proof.
    intros (mean & sigma & n & Lm & Ls & Hp & Hn & ->). exists mean, sigma, n. repeat split; auto.
    - unfold ga_mean. apply firstn_app_len. exact Lm.
    - unfold ga_sigma. rewrite (skipn_app_len mean _ d Lm). apply firstn_app_len. exact Ls.
    - unfold ga_n. rewrite !app_assoc. change (@n0 RN) with 0. apply last_snoc.
    - unfold ga_sqrtdet. assert (Li : length (inv2 sigma) = d) by (unfold inv2; rewrite map_length; exact Ls).
      change (@n0 RN) with 0. rewrite !app_assoc.
      assert (L3 : length ((mean ++ sigma) ++ inv2 sigma) = (3 * d)%nat) by (rewrite !app_length, Lm, Ls, Li; lia).
      rewrite <- app_assoc. rewrite (nth_app_len _ _ _ L3). reflexivity.
  Qed.

  (* the new standard deviations stay positive *)
  Lemma sigma_new_pos (a b : R) : 0 < a -> 0 <= b -> forall (Sg Dv : list R),
    Forall (fun t => 0 < t) Sg -> Forall (fun t => 0 <= t) Dv -> length Sg = length Dv ->
    (Forall (fun t => 0 < t) (map sqrt (vaddR (vscaleR a Sg) (vscaleR b Dv))) /\
     length (map sqrt (vaddR (vscaleR a Sg) (vscaleR b Dv))) = length Sg)%type.
  Proof.
    intros Hpa Hpb. induction Sg as [|s0 Sg IH]; intros [|t Dv] HS HD HL; cbn in *; try discriminate; [split; [constructor|reflexivity]|].
    inversion HS; subst. inversion HD; subst. destruct (IH Dv) as [F L]; auto. split; [|cbn; f_equal; exact L].
    constructor; [|exact F]. apply sqrt_lt_R0. assert (0 < a * s0) by (apply Rmult_lt_0_compat; assumption).
    assert (0 <= b * t) by (apply Rmult_le_pos; assumption). lra.
  Qed.

  Lemma vmul_self_nonneg (v : list R) : Forall (fun t => 0 <= t) (@vmul RN v v) /\ length (@vmul RN v v) = length v.
  Proof. induction v as [|a v [F L]]; cbn; [split; [constructor|reflexivity]|]. split; [constructor; [nra|exact F]|f_equal; exact L]. Qed.

  Lemma vmul_self_pos_len (v : list R) : length (@vmul RN v v) = length v.
  Proof. apply vmul_self_nonneg. Qed.

  Lemma ga_update_ok (x w : list R) : length x = d -> ga_ok w -> exists w', @ga_update RN x w = Some w' /\ ga_ok w'.
  Proof.
    intros Hx Hok. destruct (ga_slices w Hok) as (mean & sigma & n & Lm & Ls & Hp & Hn & Em & Esg & En & _).
    unfold ga_update. cbv zeta. change (T RN) with R. rewrite Hx, Em, Esg, En.
    assert (Hn1 : @nadd RN n n1 <> 0) by (cbn; lra).
    unfold odiv at 1. assert (E : @neqb RN (@nadd RN n n1) n0 = false) by (cbn; apply Reqb_false; cbn in Hn1; exact Hn1).
    rewrite E. cbn [obind]. cbn [nadd ndiv nsub RN n1].
    set (k := 1 / (n + 1)).
    assert (Hk : 0 < k <= 1 / 2).
    { unfold k. split; [apply Rdiv_lt_0_compat; lra|]. apply Rmult_le_reg_r with (n + 1); [lra|]. unfold Rdiv. rewrite Rmult_assoc, Rinv_l by lra. lra. }
    set (mean' := vaddR (vscaleR (1 - k) mean) (vscaleR k x)).
    assert (Lm' : length mean' = d).
    { unfold mean'. rewrite vadd_length; rewrite !vscale_length; [exact Lm|transitivity d; [exact Lm|symmetry; exact Hx]]. }
    set (dev := vsubR mean' x).
    destruct (vmul_self_nonneg dev) as [Fd Ld].
    assert (Ldev : length dev = d) by (unfold dev; rewrite vsub_length; [exact Lm'|transitivity d; [exact Lm'|symmetry; exact Hx]]).
    assert (LS2 : length (@vmul RN sigma sigma) = d) by (etransitivity; [apply vmul_self_pos_len|exact Ls]).
    assert (LD2 : length (@vmul RN dev dev) = d) by (etransitivity; [exact Ld|exact Ldev]).
    destruct (sigma_new_pos (1 - k) k ltac:(lra) ltac:(lra) (@vmul RN sigma sigma) (@vmul RN dev dev)
                (vmul_self_pos sigma Hp) Fd ltac:(transitivity d; [exact LS2|symmetry; exact LD2])) as [Fs' Ls'].
    assert (Ls'' : length (map sqrt (vaddR (vscaleR (1 - k) (@vmul RN sigma sigma)) (vscaleR k (@vmul RN dev dev)))) = d)
      by (etransitivity; [exact Ls'|exact LS2]).
    destruct (ga_pack_ok mean' _ (n + 1) Lm' Ls'' Fs' ltac:(lra)) as [w' [Ew' Ok']].
    exists w'. split; [exact Ew'|exact Ok'].
  Qed.

  Lemma ga_new_ok (x : list R) : length x = d -> exists w, @ga_new RN sigma_init x = Some w /\ ga_ok w.
  Proof. intros Hx. unfold ga_new. apply ga_pack_ok; auto. cbn. lra. Qed.

  Lemma sum_n_pos (Ws : list (list R)) : Forall ga_ok Ws -> Ws <> [] -> 1 <= @vsum RN (map (@ga_n RN) Ws).
  Proof.
    intros H Hne. destruct Ws as [|w Ws]; [congruence|]. clear Hne. revert w H.
    induction Ws as [|w2 Ws IH]; intros w H; cbn [map vsum].
    - inversion H as [|? ? Hw _]; subst. destruct (ga_slices w Hw) as (_ & _ & n & _ & _ & _ & Hn & _ & _ & En & _). rewrite En. cbn. lra.
    - inversion H as [|? ? Hw H']; subst. destruct (ga_slices w Hw) as (_ & _ & n & _ & _ & _ & Hn & _ & _ & En & _). rewrite En.
      specialize (IH w2 H'). cbn [map vsum] in IH. cbn in *. lra.
  Qed.

  Theorem gauss_step_defined (s : st (N:=RN)) x veto m eps :
    length x = d -> Forall ga_ok (W s) -> step_fit K s x veto m eps <> None.
  Proof.
    intros Hx HW. apply step_fit_defined; try exact Rleb_total; try exact Rleb_trans.
    - intros w Hin. cbn [k_choice K gaussK]. unfold ga_choice. cbv zeta. change (T RN) with R.
      rewrite Forall_forall in HW. destruct (ga_slices w (HW w Hin)) as (_ & sigma & n & _ & _ & Hp & Hn & _ & _ & En & Ed).
      match goal with |- context [ga_sqrtdet ?ww ?dd] =>
        assert (E0 : ga_sqrtdet ww dd = sqdet sigma) by (rewrite <- Ed; f_equal; exact Hx); rewrite E0 end.
      unfold odiv.
      assert (E1 : @neqb RN (@nadd RN alpha (sqdet sigma)) n0 = false).
      { cbn. apply Reqb_false. pose proof (sqdet_pos sigma Hp). lra. }
      rewrite E1. cbn [obind].
      match goal with |- context [if ?b then _ else _] => assert (E2 : b = false) end.
      { cbn. apply Reqb_false. assert (W s <> []) by (intros E; rewrite E in Hin; contradiction).
        pose proof (sum_n_pos (W s) ltac:(apply Forall_forall; exact HW) H). cbn in *. lra. }
      rewrite E2. cbn [obind]. discriminate.
    - intros w _. reflexivity.
    - intros w Hin. cbn [k_update K gaussK]. rewrite Forall_forall in HW.
      destruct (ga_update_ok x w Hx (HW w Hin)) as [w' [E _]]. rewrite E. discriminate.
    - cbn [k_new K gaussK]. destruct (ga_new_ok x Hx) as [w [E _]]. rewrite E. discriminate.
  Qed.

  Lemma gauss_step_inv (s : st (N:=RN)) x veto m eps s' c vl :
    length x = d -> Forall ga_ok (W s) -> step_fit K s x veto m eps = Some (s', c, vl) -> Forall ga_ok (W s').
  Proof.
    intros Hx HW H.
    destruct (step_fit_frame K _ _ _ _ _ _ _ _ H) as (_ & _ & _ & _ & _ & O).
    destruct (ga_new_ok x Hx) as [wn [En On]].
    destruct O as [(E & _ & w & Enew & EW & _)|[(_ & Hc & w & w' & Enth & Eu & EW & _)|(_ & _ & w' & Enew & EW & _)]]; rewrite EW.
    - cbn [k_new K gaussK] in Enew. rewrite En in Enew. inversion Enew; subst. constructor; [exact On|constructor].
    - assert (Hok : ga_ok w) by (rewrite Forall_forall in HW; apply HW; eapply nth_error_In; eauto).
      destruct (ga_update_ok x w Hx Hok) as [w2 [E2 O2]]. cbn [k_update K gaussK] in Eu. rewrite E2 in Eu. inversion Eu; subst w2.
      apply Forall_forall. intros y Hy. apply In_nth_error in Hy as [j Hj].
      destruct (Nat.eq_dec j c) as [->|Hne].
      + rewrite set_nth_same in Hj by exact Hc. inversion Hj; subst y. exact O2.
      + rewrite set_nth_other in Hj by exact Hne. rewrite Forall_forall in HW. apply HW. eapply nth_error_In; eauto.
    - cbn [k_new K gaussK] in Enew. rewrite En in Enew. inversion Enew; subst. apply Forall_app. split; [exact HW|constructor; [exact On|constructor]].
  Qed.

  Lemma gauss_fit_loop_defined m eps : forall (X : list (list R)) (s : st (N:=RN)) i j veto,
    Forall (fun x => length x = d) X -> Forall ga_ok (W s) -> fit_loop K s X i j veto m eps <> None.
  Proof.
    induction X as [|x X IH]; intros s i j veto HX I; cbn [fit_loop]; [discriminate|].
    apply Forall_cons_iff in HX. destruct HX as [Hx HX].
    destruct (step_fit K s x (veto i) m eps) as [[[s1 c] l]|] eqn:Es; [|exfalso; eapply gauss_step_defined; eauto].
    cbn [obind].
    assert (I1 : Forall ga_ok (W s1)) by (eapply gauss_step_inv; eauto).
    match goal with |- context [fit_loop K ?s2 X (S i) j veto m eps] =>
      destruct (fit_loop K s2 X (S i) j veto m eps) as [r|] eqn:Ef; [cbn; discriminate|exfalso; eapply (IH s2); eauto] end.
  Qed.

  (* fit and partial_fit are total on rows of width d, for every mode, epsilon and reset function *)
  Theorem gauss_fit_total (s : st (N:=RN)) X veto m eps :
    valid K s X = true -> Forall (fun x => length x = d) X -> fit K s X veto m eps <> None.
  Proof. intros Hv HX. unfold fit. rewrite Hv. apply gauss_fit_loop_defined; [exact HX|constructor]. Qed.

  Theorem gauss_partial_fit_total (s : st (N:=RN)) X veto m eps :
    valid K s X = true -> Forall (fun x => length x = d) X -> Forall ga_ok (W s) -> partial_fit K s X veto m eps <> None.
  Proof.
    intros Hv HX HW. unfold partial_fit. rewrite Hv.
    assert (Hl : W (learn_dim s X) = W s) by (unfold learn_dim; destruct (dim s); destruct X; reflexivity).
    destruct (hasW (learn_dim s X)); apply gauss_fit_loop_defined; auto.
    - cbn [W set_labels]. rewrite Hl. exact HW.
    - constructor.
  Qed.
End GT.

(* VAT (artlib/common/VAT.py): Prim-style re-ordering of a dissimilarity
   matrix.  Generic in the (totally pre-ordered) distance type. *)
From Coq Require Import List Bool Arith Lia Permutation.
From ART Require Import Search Search_proofs.
Import ListNotations.

Section VAT.
  Variable A : Type.
  Variable leb : A -> A -> bool.
  Variable d0 : A.

  Definition dist (D : list (list A)) (i j : nat) : A := nth j (nth i D []) d0.
  Definition argmin (T : list A) : option nat := argmax (fun a b => leb b a) T.

  (* pop(k): remove the element at position k *)
  Fixpoint pop (k : nat) (l : list nat) : list nat :=
    match l, k with [], _ => [] | _ :: l', O => l' | a :: l', S k' => a :: pop k' l' end.

  (* rows = visited (in visiting order), columns = remaining: row-major pairs of np.ix_(indices, remaining) *)
  Definition pairs (vis rem : list nat) : list (nat * nat) := list_prod vis rem.

  Fixpoint vat_loop (fuel : nat) (D : list (list A)) (vis rem : list nat) : option (list nat) :=
    match fuel with
    | O => Some vis
    | S f =>
      match rem with
      | [] => Some vis
      | _ =>
        match argmin (map (fun p => dist D (fst p) (snd p)) (pairs vis rem)) with
        | None => None
        | Some p =>
            let jx := Nat.modulo p (length rem) in        (* unravel_index(..)[1] *)
            vat_loop f D (vis ++ [nth jx rem 0]) (pop jx rem)
        end
      end
    end.

  Definition vat_order (D : list (list A)) : option (list nat) :=
    let n := length D in
    match argmax leb (concat D) with            (* pairwise_dist.argmax() on the flattened matrix *)
    | None => None
    | Some p =>
        let ix := Nat.div p n in                 (* unravel_index(..)[0] *)
        vat_loop n D [ix] (pop ix (seq 0 n))
    end.

  Definition reorder (D : list (list A)) (perm : list nat) : list (list A) :=
    map (fun i => map (fun j => dist D i j) perm) perm.
  Definition vat (D : list (list A)) : option (list (list A) * list nat) :=
    option_map (fun p => (reorder D p, p)) (vat_order D).
End VAT.

(* C04 / C02 for Ellipsoid ART at the level of whole calls (same shape as
   Hyper_total.v): under every mode that never lowers the vigilance the stored
   radii stay within [0, r_hat (1 - rho) / 2]; with mu <> 0 and (alpha > 0 or
   rho > 0) every step, fit and partial_fit is defined on valid data. *)
From Coq Require Import List Bool Arith ZArith Reals Lra Lia.
From ART Require Import Num NumR Vec Search Search_proofs Kernel BaseArt BaseArt_proofs
     SimpleARTMAP_proofs Total Total_R Hyper Hyper_R Bounds_R Hyper_total.
Import ListNotations.
Open Scope R_scope.

Section ET.
  Variables alpha beta mu r_hat : R.
  Hypothesis Hb : 0 <= beta <= 1.
  Hypothesis Hr : 0 < r_hat.
  Hypothesis Hmu : mu <> 0.
  Let K := @ellipK RN alpha beta mu r_hat.

  Definition el_ok (rho0 : R) (w : list R) : Prop := 0 <= @el_radius RN w <= r_hat * (1 - rho0) / 2.

  Lemma el_dist_defined (x c ma : list R) : @el_dist RN mu x c ma <> None.
  Proof.
    unfold el_dist. match goal with |- context [if ?b then _ else _] => destruct b end; [|discriminate].
    unfold odiv. assert (E : @neqb RN mu n0 = false) by (cbn; apply Reqb_false; exact Hmu). rewrite E. cbn [obind]. discriminate.
  Qed.

  Lemma last_snoc2 (a b : list R) r : last (a ++ b ++ [r]) 0 = r.
  Proof. rewrite app_assoc. apply last_snoc. Qed.

  Lemma el_update_radius (x w w' : list R) : @el_update RN beta mu x w = Some w' ->
    exists dist, @el_dist RN mu x (@el_centroid RN w (length x)) (@el_axis RN w (length x)) = Some dist /\
                 @el_radius RN w' = @el_radius RN w + (beta / 2) * (Rmax (@el_radius RN w) dist - @el_radius RN w).
  Proof.
    unfold el_update. intros H. cbv zeta in H.
    match type of H with context [@obind _ _ ?e _] => destruct e as [dist|] eqn:Ed end; cbn [obind] in H; [|discriminate H].
    inversion H as [E]. clear H E. exists dist. split; [exact Ed|].
    unfold el_radius at 1. change (@n0 RN) with 0. rewrite last_snoc2.
    unfold nhalf, n2. rewrite nmax_R. cbn [nadd nsub nmul ndiv RN n1]. replace (1 + 1) with 2 by lra. reflexivity.
  Qed.

  Theorem ellip_step_bound (s : st (N:=RN)) x veto m eps s' c vl rho0 :
    raising m eps -> rho s = [rho0] -> rho0 <= 1 ->
    Forall (el_ok rho0) (W s) ->
    step_fit K s x veto m eps = Some (s', c, vl) ->
    Forall (el_ok rho0) (W s').
  Proof.
    intros Hra Hrho Hr1 HW H.
    destruct (step_fit_frame K _ _ _ _ _ _ _ _ H) as (_ & _ & _ & _ & _ & O).
    assert (Hnew : el_ok rho0 (@el_new RN x)).
    { unfold el_ok, el_radius, el_new. change (@n0 RN) with 0. rewrite last_snoc2. split; [lra|].
      assert (0 <= r_hat * (1 - rho0)) by (apply Rmult_le_pos; lra). lra. }
    destruct O as [(E & _ & w & En & EW & _)|[(_ & Hc & w & w' & Enth & Eu & EW & _)|(_ & _ & w' & En & EW & _)]]; rewrite EW.
    - cbn in En. inversion En; subst. constructor; [exact Hnew|constructor].
    - destruct (winner_passed_rho K eq_refl ltac:(intros; eexists; reflexivity) s x veto m eps s' c vl
                  Rleb_total Rleb_trans Hra ltac:(rewrite Hrho; reflexivity) H Hc) as (w0 & M & Ew0 & EM & HM).
      rewrite Enth in Ew0. inversion Ew0; subst w0. rewrite Hrho in HM. cbn [hd] in HM.
      destruct (el_update_radius x w w' Eu) as [dist [Ed ER]].
      unfold K in EM. cbn [k_match ellipK] in EM. unfold el_match in EM. cbv zeta in EM.
      match type of EM with context [@obind _ _ ?e _] => assert (Ed' : e = Some dist) by exact Ed; rewrite Ed' in EM end. cbn [obind] in EM.
      unfold odiv in EM. assert (Er : @neqb RN r_hat n0 = false) by (cbn; apply Reqb_false; lra).
      rewrite Er in EM. cbn [obind] in EM. inversion EM as [EM']. clear EM.
      assert (Hok : el_ok rho0 w).
      { rewrite Forall_forall in HW. apply HW. eapply nth_error_In; eauto. }
      destruct Hok as [Hr0 _].
      apply Forall_forall. intros y Hy. apply In_nth_error in Hy as [j Hj].
      destruct (Nat.eq_dec j c) as [->|Hne].
      + rewrite set_nth_same in Hj by exact Hc. inversion Hj; subst y. unfold el_ok. rewrite ER.
        set (r := @el_radius RN w) in *.
        split.
        * pose proof (ell_radius_mono beta r dist (proj1 Hb)). lra.
        * apply ell_radius_bound; auto. rewrite <- EM' in HM. rewrite nmax_R in HM. cbn in HM. exact HM.
      + rewrite set_nth_other in Hj by exact Hne. rewrite Forall_forall in HW. apply HW. eapply nth_error_In; eauto.
    - cbn in En. inversion En; subst. apply Forall_app. split; [exact HW|constructor; [exact Hnew|constructor]].
  Qed.

  Definition EInv (rho0 : R) (s : st (N:=RN)) : Prop := rho s = [rho0] /\ Forall (el_ok rho0) (W s).

  Lemma ellip_step_defined_inv (s : st (N:=RN)) x veto m eps rho0 :
    0 <= rho0 <= 1 -> (0 < alpha \/ (0 <= alpha /\ 0 < rho0)) -> EInv rho0 s -> step_fit K s x veto m eps <> None.
  Proof.
    intros Hrho Ha [_ HW]. apply step_fit_defined; try exact Rleb_total; try exact Rleb_trans.
    - intros w Hin. cbn [k_choice K ellipK]. unfold el_choice.
      match goal with |- context [@obind _ _ ?e _] => destruct e as [dist|] eqn:Ed end; [|exfalso; eapply el_dist_defined; eauto].
      cbn [obind]. unfold odiv.
      match goal with |- context [if ?b then _ else _] => assert (E : b = false) end.
      { cbn. apply Reqb_false. rewrite Forall_forall in HW. destruct (HW w Hin) as [_ Hup]. unfold n2. cbn.
        destruct Ha as [Ha|[Ha0 Hp]]; [nra|]. assert (0 < r_hat * rho0) by (apply Rmult_lt_0_compat; lra). nra. }
      rewrite E. discriminate.
    - intros w _. cbn [k_match K ellipK all_some forallb]. unfold el_match.
      match goal with |- context [@obind _ _ ?e _] => destruct e as [dist|] eqn:Ed end; [|exfalso; eapply el_dist_defined; eauto].
      cbn [obind]. unfold odiv. assert (Er : @neqb RN r_hat n0 = false) by (cbn; apply Reqb_false; lra). rewrite Er. reflexivity.
    - intros w _. cbn [k_update K ellipK]. unfold el_update.
      match goal with |- context [@obind _ _ ?e _] => destruct e as [dist|] eqn:Ed end; [|exfalso; eapply el_dist_defined; eauto].
      cbn [obind]. discriminate.
    - cbn. discriminate.
  Qed.

  Lemma EInv_step (s : st (N:=RN)) x veto m eps s' c vl rho0 :
    raising m eps -> rho0 <= 1 -> EInv rho0 s -> step_fit K s x veto m eps = Some (s', c, vl) -> EInv rho0 s'.
  Proof.
    intros Hra Hr1 [Hrho HW] H. split.
    - destruct (step_fit_frame K _ _ _ _ _ _ _ _ H) as (E & _). rewrite E. exact Hrho.
    - eapply ellip_step_bound; eauto.
  Qed.

  Lemma ellip_fit_loop_defined rho0 m eps : raising m eps -> 0 <= rho0 <= 1 -> (0 < alpha \/ (0 <= alpha /\ 0 < rho0)) ->
    forall (X : list (list R)) (s : st (N:=RN)) i j veto, EInv rho0 s -> fit_loop K s X i j veto m eps <> None.
  Proof.
    intros Hra Hrho Ha. induction X as [|x X IH]; intros s i j veto I; cbn [fit_loop]; [discriminate|].
    destruct (step_fit K s x (veto i) m eps) as [[[s1 c] l]|] eqn:Es; [|exfalso; eapply ellip_step_defined_inv; eauto].
    cbn [obind].
    assert (I1 : EInv rho0 s1) by (eapply EInv_step; eauto; lra).
    match goal with |- context [fit_loop K ?s2 X (S i) j veto m eps] =>
      assert (I2 : EInv rho0 s2) by (destruct I1 as [A B]; split; [exact A|exact B]);
      destruct (fit_loop K s2 X (S i) j veto m eps) as [r|] eqn:Ef; [cbn; discriminate|exfalso; eapply IH; eauto] end.
  Qed.

  Theorem ellip_fit_total (s : st (N:=RN)) X veto m eps rho0 :
    raising m eps -> 0 <= rho0 <= 1 -> (0 < alpha \/ (0 <= alpha /\ 0 < rho0)) -> rho s = [rho0] ->
    valid K s X = true -> fit K s X veto m eps <> None.
  Proof.
    intros Hra Hrho Ha Hs Hv. unfold fit. rewrite Hv. apply (ellip_fit_loop_defined rho0); auto.
    split; cbn [rho W]; [|constructor]. unfold learn_dim. destruct (dim s); destruct X; exact Hs.
  Qed.
End ET.

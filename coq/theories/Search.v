(* The generic resonance search of BaseART.step_fit (artlib/common/BaseART.py),
   kernel-agnostic: it sees an activation vector T (None = NaN), a match test
   [mbin] against the vigilance state in force, a veto (reset function) and a
   match-tracking rule.  Code-shaped: NaN-masking loop on explicit fuel. *)
From Coq Require Import List Bool Arith Lia.
Import ListNotations.

Section Search.
  Variables A V : Type.
  Variable leb : A -> A -> bool.            (* a <= b on activations *)
  Variable mbin : V -> nat -> bool.         (* vigilance test of category c under v *)
  Variable veto_ok : V -> nat -> bool.      (* reset function: true = not vetoed *)
  Variable track : V -> nat -> V * bool.    (* match tracking: new v, keep searching? *)

  (* np.nanargmax: index of the first maximum, NaN ignored *)
  Fixpoint amax (i : nat) (best : option (nat * A)) (T : list (option A)) : option (nat * A) :=
    match T with
    | [] => best
    | None :: T' => amax (S i) best T'
    | Some a :: T' =>
        match best with
        | None => amax (S i) (Some (i, a)) T'
        | Some (_, b) => if leb a b then amax (S i) best T' else amax (S i) (Some (i, a)) T'
        end
    end.
  Definition nanargmax (T : list (option A)) : option nat := option_map fst (amax 0 None T).

  (* T[c] = np.nan *)
  Fixpoint set_nan (c : nat) (T : list (option A)) : list (option A) :=
    match T, c with
    | [], _ => []
    | _ :: T', O => None :: T'
    | t :: T', S c' => t :: set_nan c' T'
    end.

  (* result: winner (None = no resonance -> new category), vigilance state at
     exit (before the caller restores it), and the visited (category, vigilance) log *)
  Definition sres := (option nat * V * list (nat * V))%type.
  Definition clog (e : nat * V) (r : sres) : sres :=
    let '(w, v, l) := r in (w, v, e :: l).

  Fixpoint search (fuel : nat) (v : V) (T : list (option A)) : sres :=
    match fuel with
    | O => (None, v, [])
    | S f =>
      match nanargmax T with
      | None => (None, v, [])
      | Some c =>
        let m := mbin v c in
        let ok := veto_ok v c in         (* consulted even when m = false, as in the code *)
        if m && ok then (Some c, v, [(c, v)])
        else
          let T' := set_nan c T in
          if m then                       (* m && not ok : match tracking *)
            let '(v', keep) := track v c in
            if keep then clog (c, v) (search f v' T') else (None, v', [(c, v)])
          else clog (c, v) (search f v T')
      end
    end.

  (* ---- specification: left-to-right scan of the visiting order ---- *)
  Fixpoint order (fuel : nat) (T : list (option A)) : list nat :=
    match fuel with
    | O => []
    | S f => match nanargmax T with
             | None => []
             | Some c => c :: order f (set_nan c T)
             end
    end.

  Fixpoint scan (l : list nat) (v : V) : sres :=
    match l with
    | [] => (None, v, [])
    | c :: l' =>
      let m := mbin v c in
      let ok := veto_ok v c in
      if m && ok then (Some c, v, [(c, v)])
      else if m then
        let '(v', keep) := track v c in
        if keep then clog (c, v) (scan l' v') else (None, v', [(c, v)])
      else clog (c, v) (scan l' v)
    end.

  (* np.argmax on a NaN-free tuple: first maximum *)
  Definition argmax (T : list A) : option nat := nanargmax (map Some T).
End Search.

(* "match_reset_func is None" *)
Definition no_veto {V : Type} (_ : V) (_ : nat) : bool := true.

Arguments amax {A}. Arguments nanargmax {A}. Arguments set_nan {A}.
Arguments search {A V}. Arguments order {A}. Arguments scan {V}. Arguments argmax {A}.
Arguments clog {V}.

(* Kernel interface: what BaseART.step_fit needs from an elementary module
   (category_choice, match_criterion, update, new_weight, validate_data), in
   a form that also covers FusionART (a vector of per-channel vigilances). *)
From Coq Require Import List Bool Arith Lia.
From ART Require Import Num Vec Search.
Import ListNotations.

Inductive mt := MTplus | MTminus | MT0 | MT1 | MTtilde.

Definition mt_strict (m : mt) : bool :=
  match m with MT0 | MTtilde => true | _ => false end.

(* option monad *)
Definition obind {A B} (o : option A) (f : A -> option B) : option B :=
  match o with Some a => f a | None => None end.
Notation "x <- e ;; k" := (obind e (fun x => k)) (at level 61, e at next level, right associativity).
Fixpoint omap {A B} (f : A -> option B) (l : list A) : option (list B) :=
  match l with
  | [] => Some []
  | a :: l' => b <- f a ;; r <- omap f l' ;; Some (b :: r)
  end.
Fixpoint omapi {A B} (i : nat) (f : nat -> A -> option B) (l : list A) : option (list B) :=
  match l with
  | [] => Some []
  | a :: l' => b <- f i a ;; r <- omapi (S i) f l' ;; Some (b :: r)
  end.

Section Kernel.
  Context {N : Num}.
  Definition wt := list N.

  Record Kernel := mkKernel {
    k_choice : list wt -> list N -> wt -> option N;  (* all weights (priors), sample, weight *)
    k_match  : list N -> wt -> list (option N);      (* match value(s), one per channel *)
    k_inv    : list bool;                            (* per channel: inverted vigilance test (BayesianART) *)
    k_update : list N -> wt -> option wt;
    k_new    : list N -> option wt;
    k_valid  : list N -> bool;                       (* validate_data on one row *)
    k_dimok  : nat -> bool                           (* extra check_dimensions constraint on first sight *)
  }.

  (* _match_tracking_operator + match_criterion_bin: op(M, rho), reversed for inverted modules *)
  Definition op_pass (strict inv : bool) (M rho : N) : bool :=
    if inv then (if strict then nltb M rho else nleb M rho)
    else (if strict then nltb rho M else nleb rho M).

  Fixpoint chan_pass (strict : bool) (invs : list bool) (Mc : list (option N)) (v : list N) : list bool :=
    match Mc, v with
    | oM :: Mc', r :: v' =>
        let inv := hd false invs in
        (match oM with Some M => op_pass strict inv M r | None => false end)
          :: chan_pass strict (tl invs) Mc' v'
    | _, _ => []
    end.

  (* match_criterion_bin of category c under the vigilance vector in force *)
  Definition mbin (Ms : list (list (option N))) (m : mt) (invs : list bool) (v : list N) (c : nat) : bool :=
    match nth_error Ms c with
    | Some Mc => forallb (fun b => b) (chan_pass (mt_strict m) invs Mc v)
    | None => false
    end.

  (* _match_tracking: only channels that passed are tracked *)
  Definition track1 (m : mt) (eps : N) (inv : bool) (M r : N) : N :=
    match m with
    | MTplus => if inv then nsub M eps else nadd M eps
    | MTminus => if inv then nadd M eps else nsub M eps
    | MT0 => M
    | MT1 => r        (* the code writes +-inf; never read again: the search is abandoned *)
    | MTtilde => r
    end.
  Fixpoint track_vec (m : mt) (eps : N) (strict : bool) (invs : list bool)
           (Mc : list (option N)) (v : list N) : list N :=
    match Mc, v with
    | oM :: Mc', r :: v' =>
        let inv := hd false invs in
        (match oM with
         | Some M => if op_pass strict inv M r then track1 m eps inv M r else r
         | None => r
         end) :: track_vec m eps strict (tl invs) Mc' v'
    | _, v => v
    end.
  Definition track (Ms : list (list (option N))) (m : mt) (eps : N) (invs : list bool)
             (v : list N) (c : nat) : list N * bool :=
    match nth_error Ms c with
    | Some Mc => (track_vec m eps (mt_strict m) invs Mc v,
                  match m with MT1 => false | _ => true end)
    | None => (v, true)
    end.

  (* a visited category whose match value is undefined makes the step undefined *)
  Definition log_undef (Ms : list (list (option N))) (log : list (nat * list N)) : bool :=
    existsb (fun e => match nth_error Ms (fst e) with
                      | Some Mc => existsb (fun o => match o with None => true | Some _ => false end) Mc
                      | None => true end) log.
End Kernel.
Arguments Kernel N : clear implicits.

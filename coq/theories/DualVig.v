(* DualVigilanceART (artlib/topological/DualVigilanceART.py): its own search
   loop (visits only categories with positive activation; an upper and a lower
   threshold; match tracking on the veto of a category that passes the upper
   threshold) and the category -> cluster map. *)
From Coq Require Import List Bool Arith Lia.
From ART Require Import Num Vec Search Kernel BaseArt SimpleARTMAP.
Import ListNotations.

Section DV.
  Context {N : Num}.
  Variable K : Kernel N.

  Record dv := mkDv {
    DB : st (N:=N);              (* base_module: W, labels_, counters, params *)
    dmap : list (nat * nat);     (* self.map: base category -> cluster label, insertion order *)
    dsc : nat                    (* self.sample_counter_ *)
  }.
  Definition dv_init (r : list N) : dv := {| DB := init r; dmap := []; dsc := 0 |}.

  Inductive dres := Absorb (c : nat) | Split (c : nat) | Fresh.

  Definition maxval (m : list (nat * nat)) : nat := fold_right (fun p acc => Nat.max (snd p) acc) 0 m.

  (* DualVigilanceART._match_tracking: writes M +- eps (not inverted) *)
  Definition dv_track (Ms : list (list (option N))) (mode : mt) (eps : N) (v : list N) (c : nat) : list N * bool :=
    match nth_error Ms c with
    | Some (Some M :: _) =>
        (match v with r :: v' => track1 mode eps false M r :: v' | [] => [] end,
         match mode with MT1 => false | _ => true end)
    | _ => (v, match mode with MT1 => false | _ => true end)
    end.

  (* the while loop, on the activations masked to the positive ones *)
  Fixpoint dv_search (Ms : list (list (option N))) (mode : mt) (eps : N) (lb : list N)
           (veto : nat -> bool) (fuel : nat) (v : list N) (T : list (option N))
    : dres * list N * list (nat * list N) :=
    match fuel with
    | O => (Fresh, v, [])
    | S f =>
      match nanargmax nleb T with
      | None => (Fresh, v, [])
      | Some c =>
        let m1 := mbin Ms mode (k_inv K) v c in
        if veto c then
          if m1 then (Absorb c, v, [(c, v)])
          else if mbin Ms mode (k_inv K) lb c then (Split c, v, [(c, v)])
          else let '(r, v', l) := dv_search Ms mode eps lb veto f v (set_nan c T) in (r, v', (c, v) :: l)
        else if m1 then
          (* only the veto of a vigilance-passing category moves the vigilance (as in BaseART.step_fit; fix: commit) *)
          let '(v1, keep) := dv_track Ms mode eps v c in
          if keep then let '(r, v', l) := dv_search Ms mode eps lb veto f v1 (set_nan c T) in (r, v', (c, v) :: l)
          else (Fresh, v1, [(c, v)])
        else let '(r, v', l) := dv_search Ms mode eps lb veto f v (set_nan c T) in (r, v', (c, v) :: l)
      end
    end.

  (* specification: scan of the visiting order *)
  Fixpoint dv_scan (Ms : list (list (option N))) (mode : mt) (eps : N) (lb : list N)
           (veto : nat -> bool) (l : list nat) (v : list N)
    : dres * list N * list (nat * list N) :=
    match l with
    | [] => (Fresh, v, [])
    | c :: l' =>
        let m1 := mbin Ms mode (k_inv K) v c in
        if veto c then
          if m1 then (Absorb c, v, [(c, v)])
          else if mbin Ms mode (k_inv K) lb c then (Split c, v, [(c, v)])
          else let '(r, v', lg) := dv_scan Ms mode eps lb veto l' v in (r, v', (c, v) :: lg)
        else if m1 then
          let '(v1, keep) := dv_track Ms mode eps v c in
          if keep then let '(r, v', lg) := dv_scan Ms mode eps lb veto l' v1 in (r, v', (c, v) :: lg)
          else (Fresh, v1, [(c, v)])
        else let '(r, v', lg) := dv_scan Ms mode eps lb veto l' v in (r, v', (c, v) :: lg)
    end.

  Definition positive_mask (Ts : list N) : list (option N) :=
    map (fun t => if nltb n0 t then Some t else None) Ts.

  Definition set_DB (s : dv) (b : st (N:=N)) : dv := {| DB := b; dmap := dmap s; dsc := dsc s |}.

  Definition dv_step (s : dv) (x : list N) (veto : option (nat -> bool)) (mode : mt) (eps : N) (lb : N)
    : option (dv * nat * list (nat * list N)) :=
    let b := DB s in
    let base := rho b in
    let sc' := S (dsc s) in
    match W b with
    | [] =>
        (* first sample of a (re-)fit: forget the previous fit's bookkeeping (fix: commit) *)
        w <- k_new K x ;;
        let b0 := {| W := W b; labels := labels b; wsc := []; sc := sc b; rho := rho b; hasW := hasW b; dim := dim b |} in
        Some ({| DB := add_weight b0 w; dmap := [(0, 0)]; dsc := sc' |}, 0, [])
    | _ =>
        let n := length (W b) in
        Ts <- omap (k_choice K (W b) x) (W b) ;;
        let Ms := map (k_match K x) (W b) in
        (* the reset function is handed the cluster label of the category *)
        let vf := fun c => match veto with
                           | None => true
                           | Some f => match lookup (dmap s) c with Some l => f l | None => true end
                           end in
        let '(r, v', log) := dv_search Ms mode eps [lb] vf n base (positive_mask Ts) in
        if log_undef Ms log then None else
        let vlog := match veto with
                    | Some _ => map (fun e => (match lookup (dmap s) (fst e) with Some l => l | None => 0 end, snd e)) log
                    | None => [] end in
        match r with
        | Absorb c =>
            w <- nth_error (W b) c ;;
            w' <- k_update K x w ;;
            l <- lookup (dmap s) c ;;
            Some ({| DB := set_rho (set_weight (set_rho b v') c w') base; dmap := dmap s; dsc := sc' |}, l, vlog)
        | Split c =>
            w' <- k_new K x ;;
            l <- lookup (dmap s) c ;;
            Some ({| DB := set_rho (add_weight (set_rho b v') w') base; dmap := dmap s ++ [(n, l)]; dsc := sc' |}, l, vlog)
        | Fresh =>
            w' <- k_new K x ;;
            let l := S (maxval (dmap s)) in
            Some ({| DB := set_rho (add_weight (set_rho b v') w') base; dmap := dmap s ++ [(n, l)]; dsc := sc' |}, l, vlog)
        end
    end.

  (* BaseART.fit / partial_fit with DualVigilanceART's step; labels_ is the base module's *)
  Fixpoint dv_loop (s : dv) (X : list (list N)) (i j : nat) (veto : vetos) (mode : mt) (eps lb : N)
    : option (dv * list (list (nat * list N))) :=
    match X with
    | [] => Some (s, [])
    | x :: X' =>
        r <- dv_step s x (veto i) mode eps lb ;;
        let '(s1, c, l) := r in
        let b2 := set_labels (DB s1) (set_nth (i + j) c (labels (DB s1))) in
        r' <- dv_loop (set_DB s1 b2) X' (S i) j veto mode eps lb ;;
        Some (fst r', l :: snd r')
    end.

  Definition dv_fit (s : dv) (X : list (list N)) (veto : vetos) (mode : mt) (eps lb : N) :=
    if valid K (DB s) X then
      let b0 := learn_dim (DB s) X in
      let b1 := {| W := []; labels := repeat 0 (length X); wsc := wsc b0; sc := sc b0; rho := rho b0;
                   hasW := true; dim := dim b0 |} in
      (* BaseART.fit resets DualVigilanceART's own counters; the base module's are reset by the first step *)
      dv_loop {| DB := b1; dmap := dmap s; dsc := 0 |} X 0 0 veto mode eps lb
    else None.

  Definition dv_partial_fit (s : dv) (X : list (list N)) (veto : vetos) (mode : mt) (eps lb : N) :=
    if valid K (DB s) X then
      let b0 := learn_dim (DB s) X in
      if hasW b0 then
        dv_loop (set_DB s (set_labels b0 (labels b0 ++ repeat 0 (length X)))) X 0 (length (labels b0)) veto mode eps lb
      else
        let b1 := {| W := []; labels := repeat 0 (length X); wsc := wsc b0; sc := sc b0; rho := rho b0;
                     hasW := true; dim := dim b0 |} in
        dv_loop (set_DB s b1) X 0 0 veto mode eps lb
    else None.

  (* step_pred: cluster label of the arg-max category; n_clusters = number of distinct map values *)
  Definition dv_step_pred (s : dv) (x : list N) : option nat :=
    c <- step_pred K (DB s) x ;; lookup (dmap s) c.
  Definition dv_predict (s : dv) (X : list (list N)) : option (list nat) :=
    if hasW (DB s) && valid K (DB s) X then omap (dv_step_pred s) X else None.
  Definition dv_n_clusters (s : dv) : nat := length (nodup Nat.eq_dec (map snd (dmap s))).
End DV.
Arguments dv_init {N}.

(* C15, full statement for add_sample: after ANY sequence of add_sample /
   update operations the tracked Calinski-Harabasz value equals the batch
   index of the current labelled data (exact real arithmetic), and every such
   operation is defined.  Invariant: the dictionary holds, for exactly the
   labels in use, the count, mean, within-cluster sum of squares and a zero
   correction vector of that label's members; WGSS is the sum of the CPs; mu is
   the global mean. *)
From Coq Require Import List Bool Arith ZArith Reals Lra Lia Permutation.
From ART Require Import Num NumR Vec VecR Search Kernel SimpleARTMAP ICVI ICVI_R.
Import ListNotations.
Open Scope R_scope.

Notation chR := (@ch RN).
Notation cstatR := (@cstat RN).
Definition data := list (list R * nat).
Definition pts (D : data) : list (list R) := map fst D.
Definition members (D : data) (l : nat) : list (list R) := @cluster RN D l.

Definition sqR (x : list R) : R := dotR x x.
Definition meanv (d : nat) (C : list (list R)) : list R :=
  vscaleR (1 / INR (length C)) (fold_left vaddR C (repeat 0 d)).
Definition css (d : nat) (C : list (list R)) : R :=
  lsum (map (fun y : list R => sqR (vsubR y (meanv d C))) C).

(* per-coordinate sufficient statistics of a list of vectors *)
Definition s1 (C : list (list R)) (i : nat) : R := lsum (map (co i) C).
Definition s2 (C : list (list R)) (i : nat) : R := lsum (map (fun y => co i y * co i y) C).

Definition wf (d : nat) (C : list (list R)) : Prop := Forall (fun y => length y = d) C.

Ltac normT := change (T RN) with R in *.
(* rewrite the head of an option-monad bind with an equation that holds up to conversion *)
Ltac step_bind H :=
  match goal with
  | |- @obind _ _ ?m _ = _ => let E := fresh "E" in assert (E : m = _) by (exact H); rewrite E; clear E; cbn [obind]
  end.

(* ------------------------------------------------------------------ small facts *)
Lemma nlen_INR {A} (l : list A) : @nlen RN A l = INR (length l).
Proof. unfold nlen. cbn. symmetry. apply INR_IZR_INZ. Qed.

Lemma INR_pos_of_nonempty {A} (l : list A) : l <> [] -> 0 < INR (length l).
Proof. destruct l; [congruence|]. intros _. apply lt_0_INR. cbn. lia. Qed.

Lemma odiv_some (a b : R) : b <> 0 -> @odiv RN a b = Some (a / b).
Proof. intros H. unfold odiv. cbn. apply Reqb_false in H. rewrite H. reflexivity. Qed.

Lemma obind_some_id {A} (o : option A) : (r <- o ;; Some r) = o.
Proof. destruct o; reflexivity. Qed.

Lemma omap_some {A B} (f : A -> option B) (g : A -> B) (l : list A) :
  (forall a, In a l -> f a = Some (g a)) -> omap f l = Some (map g l).
Proof.
  induction l as [|a l IH]; intros H; cbn; [reflexivity|].
  rewrite (H a) by (left; reflexivity). cbn. rewrite IH by (intros; apply H; right; assumption). reflexivity.
Qed.

Lemma meanv_length d C : wf d C -> @length R (meanv d C) = d.
Proof.
  intros H. unfold meanv. rewrite vscale_length.
  apply (proj1 (co_fold_vadd d C (repeat 0 d) (repeat_length 0 d) H)).
Qed.

Lemma co_meanv d C i : wf d C -> (i < d)%nat -> co i (meanv d C) = s1 C i / INR (length C).
Proof.
  intros H Hi. unfold meanv. rewrite co_vscale.
  rewrite (proj2 (co_fold_vadd d C (repeat 0 d) (repeat_length 0 d) H) i Hi).
  rewrite co_repeat by exact Hi. unfold s1. lra.
Qed.

Lemma s1_app C x i : s1 (C ++ [x]) i = s1 C i + co i x.
Proof. unfold s1. rewrite map_app, lsum_app. unfold lsum. cbn. lra. Qed.
Lemma s2_app C x i : s2 (C ++ [x]) i = s2 C i + co i x * co i x.
Proof. unfold s2. rewrite map_app, lsum_app. unfold lsum. cbn. lra. Qed.

Lemma wf_app d C x : wf d C -> length x = d -> wf d (C ++ [x]).
Proof. intros H Hx. apply Forall_app. split; [exact H|]. constructor; [exact Hx|constructor]. Qed.

(* the within-cluster sum of squares, coordinate by coordinate *)
Lemma css_coord d C : wf d C -> C <> [] ->
  css d C = bigsum d (fun i => s2 C i - s1 C i * s1 C i / INR (length C)).
Proof.
  intros H Hne. unfold css.
  assert (E : forall y, In y C -> sqR (vsubR y (meanv d C)) =
                                  bigsum d (fun i => (co i y - s1 C i / INR (length C)) * (co i y - s1 C i / INR (length C)))).
  { intros y Hy. assert (Ly : length y = d) by (eapply Forall_forall in H; eauto).
    pose proof (meanv_length d C H) as Lm.
    unfold sqR. rewrite (dot_bigsum _ _ d) by (rewrite vsub_length; lia).
    apply bigsum_ext. intros i Hi. rewrite co_vsub by lia. rewrite co_meanv by assumption. reflexivity. }
  rewrite (lsum_map_ext _ _ C E). rewrite lsum_bigsum. apply bigsum_ext. intros i Hi.
  pose proof (ss_about_mean (map (co i) C)) as S. cbv zeta in S.
  assert (Hm : map (co i) C <> []) by (destruct C; [congruence|discriminate]).
  specialize (S Hm). rewrite map_length in S.
  change (fold_right Rplus 0 (map (co i) C)) with (s1 C i) in S.
  transitivity (fold_right (fun a acc => (a - s1 C i / INR (length C)) * (a - s1 C i / INR (length C)) + acc) 0 (map (co i) C)).
  { unfold lsum. generalize (s1 C i / INR (length C)). intros m. clear.
    induction C as [|y C IH]; cbn; [reflexivity|]. rewrite IH. reflexivity. }
  rewrite S. f_equal. unfold s2, lsum. clear.
  induction C as [|y C IH]; cbn; [reflexivity|]. rewrite IH. reflexivity.
Qed.

(* ------------------------------------------------------------------ one cluster gains a member *)
Record cluster_ok (d : nat) (C : list (list R)) (D : cstatR) : Prop := {
  ok_n : c_n D = INR (length C);
  ok_v : c_v D = meanv d C;
  ok_CP : c_CP D = css d C;
  ok_G : c_G D = repeat 0 d }.

Lemma cluster_ok_first d (x : list R) : length x = d ->
  cluster_ok d [x] (@mkCstat RN 1 x 0 (repeat 0 d)).
Proof.
  intros Hx. assert (W1 : wf d [x]) by (constructor; [exact Hx|constructor]).
  assert (Mx : meanv d [x] = x).
  { apply vec_ext; [rewrite meanv_length by exact W1; lia|].
    intros i Hi. rewrite meanv_length in Hi by exact W1. rewrite co_meanv by assumption.
    unfold s1, lsum. cbn. field. }
  constructor; cbn [c_n c_v c_CP c_G]; auto.
  unfold css. cbn [map]. rewrite Mx. unfold lsum. cbn [fold_right].
  unfold sqR. rewrite (dot_bigsum _ _ d) by (rewrite vsub_length; lia).
  rewrite (bigsum_ext d _ (fun _ => 0)); [rewrite bigsum_0; lra|].
  intros i Hi. rewrite co_vsub by lia. lra.
Qed.

Lemma add_stats_existing (s : chR) d (C : list (list R)) (D : cstatR) (x : list R) (l : nat) :
  wf d C -> C <> [] -> length x = d ->
  cd_get (h_CD s) l = Some D -> cluster_ok d C D ->
  exists D' cpd, add_stats s x l = Some (D', cpd) /\ cluster_ok d (C ++ [x]) D' /\ cpd = css d (C ++ [x]) - css d C.
Proof.
  intros HW Hne Hx Hget [On Ov OCP OG].
  pose proof (INR_pos_of_nonempty C Hne) as Hn.
  assert (W' : wf d (C ++ [x])) by (apply wf_app; assumption).
  assert (Ne' : C ++ [x] <> []) by (destruct C; discriminate).
  assert (Len' : INR (length (C ++ [x])) = INR (length C) + 1) by (rewrite app_length, plus_INR; cbn; lra).
  unfold add_stats. rewrite Hget. cbn [nadd RN n1].
  rewrite odiv_some by (rewrite On; lra). cbn [obind].
  set (n := INR (length C)) in *.
  set (v := c_v D). normT.
  assert (Lv : @length R v = d) by (unfold v; rewrite Ov; apply meanv_length; exact HW).
  set (u := vsubR x v). normT.
  assert (Lu : @length R u = d) by (unfold u; rewrite vsub_length; lia).
  set (dV := @vscale RN (@nneg RN 1) (@vscale RN (1 / (c_n D + 1)) u)). normT.
  assert (LdV : @length R dV = d) by (unfold dV; rewrite !vscale_length; exact Lu).
  set (v' := vsubR v dV). normT.
  assert (Lv' : @length R v' = d) by (unfold v'; rewrite vsub_length; lia).
  set (dxv := vsubR x v'). normT.
  assert (Ldxv : @length R dxv = d) by (unfold dxv; rewrite vsub_length; lia).
  assert (CdV : forall i, (i < d)%nat -> co i dV = (0 - 1) * ((1 / (n + 1)) * (co i x - s1 C i / n))).
  { intros i Hi. unfold dV. rewrite !co_vscale. unfold u. rewrite co_vsub by lia.
    unfold v. rewrite Ov, co_meanv by assumption. rewrite On. reflexivity. }
  assert (Cv' : forall i, (i < d)%nat -> co i v' = (s1 C i + co i x) / (n + 1)).
  { intros i Hi. unfold v'. rewrite co_vsub by lia. rewrite CdV by exact Hi.
    unfold v. rewrite Ov, co_meanv by assumption. fold n. field. lra. }
  assert (Cdxv : forall i, (i < d)%nat -> co i dxv = co i x - (s1 C i + co i x) / (n + 1)).
  { intros i Hi. unfold dxv. rewrite co_vsub by lia. rewrite Cv' by exact Hi. reflexivity. }
  eexists. eexists. split; [reflexivity|]. split.
  - constructor; cbn [c_n c_v c_CP c_G].
    + rewrite On. fold n. lra.
    + apply vec_ext; [rewrite meanv_length by exact W'; exact Lv'|].
      intros i Hi. rewrite Lv' in Hi. rewrite Cv' by exact Hi. rewrite co_meanv by assumption.
      rewrite s1_app, Len'. reflexivity.
    + rewrite OCP. rewrite (css_coord d C HW Hne), (css_coord d (C ++ [x]) W' Ne').
      unfold sq.
      rewrite (dot_bigsum dxv dxv d Ldxv Ldxv), (dot_bigsum dV dV d LdV LdV).
      rewrite (dot_bigsum dV (c_G D) d LdV) by (rewrite OG; apply repeat_length).
      cbn [nadd nsub nmul RN n1 n2]. unfold n2. cbn [nadd RN n1].
      rewrite <- !bigsum_scal, <- !bigsum_plus. apply bigsum_ext. intros i Hi.
      rewrite OG, co_repeat by exact Hi. rewrite Cdxv, CdV by exact Hi.
      rewrite s1_app, s2_app, Len', On. fold n. field. lra.
    + rewrite OG.
      assert (L1 : @length R (vaddR (repeat 0 d) dxv) = d)
        by (rewrite vadd_length; rewrite repeat_length; [reflexivity|symmetry; exact Ldxv]).
      assert (L2 : @length R (vscaleR (@nsub RN (c_n D + 1) 1) dV) = d) by (rewrite vscale_length; exact LdV).
      assert (L12 : @length R (vaddR (repeat 0 d) dxv) = @length R (vscaleR (@nsub RN (c_n D + 1) 1) dV))
        by (transitivity d; [exact L1|symmetry; exact L2]).
      assert (L0 : @length R (repeat 0 d) = @length R dxv) by (rewrite repeat_length; symmetry; exact Ldxv).
      apply vec_ext.
      * normT. rewrite (vadd_length _ _ L12). rewrite repeat_length. exact L1.
      * intros i Hi. normT. rewrite (vadd_length _ _ L12) in Hi.
        assert (Hi' : (i < d)%nat) by (rewrite <- L1; exact Hi).
        rewrite (co_vadd _ _ i L12 Hi).
        rewrite (co_vadd _ _ i L0) by (rewrite repeat_length; exact Hi').
        rewrite co_vscale, !co_repeat by exact Hi'. rewrite Cdxv, CdV by exact Hi'.
        cbn [nsub nadd RN n1]. rewrite On. field. lra.
  - rewrite (css_coord d C HW Hne), (css_coord d (C ++ [x]) W' Ne').
    unfold sq.
    rewrite (dot_bigsum dxv dxv d Ldxv Ldxv), (dot_bigsum dV dV d LdV LdV).
    rewrite (dot_bigsum dV (c_G D) d LdV) by (rewrite OG; apply repeat_length).
    cbn [nadd nsub nmul RN n1 n2]. unfold n2. cbn [nadd RN n1].
    rewrite <- bigsum_minus, <- !bigsum_scal, <- !bigsum_plus. apply bigsum_ext. intros i Hi.
    rewrite OG, co_repeat by exact Hi. rewrite Cdxv, CdV by exact Hi.
    rewrite s1_app, s2_app, Len', On. fold n. field. lra.
Qed.

(* ------------------------------------------------------------------ the dictionary *)
Definition keys (cd : list (nat * cstatR)) : list nat := map fst cd.
Definition CPof (kc : nat * cstatR) : R := c_CP (snd kc).

Lemma cd_get_in (cd : list (nat * cstatR)) l c : cd_get cd l = Some c -> In (l, c) cd.
Proof.
  induction cd as [|[k c0] cd IH]; cbn; [discriminate|].
  destruct (Nat.eqb_spec k l) as [->|Hne]; intros H; [injection H as ->; left; reflexivity|right; auto].
Qed.

Lemma cd_get_none (cd : list (nat * cstatR)) l : cd_get cd l = None <-> ~ In l (keys cd).
Proof.
  induction cd as [|[k c0] cd IH]; cbn; [tauto|].
  destruct (Nat.eqb_spec k l) as [->|Hne]; [split; [discriminate|intros H; exfalso; apply H; left; reflexivity]|].
  rewrite IH. split; intros H; [intros [E|E]; [congruence|tauto]|tauto].
Qed.

Lemma cd_get_some_key (cd : list (nat * cstatR)) l c : cd_get cd l = Some c -> In l (keys cd).
Proof. intros H. apply cd_get_in in H. apply (in_map fst) in H. exact H. Qed.

Lemma cd_get_nodup (cd : list (nat * cstatR)) l c : NoDup (keys cd) -> In (l, c) cd -> cd_get cd l = Some c.
Proof.
  induction cd as [|[k c0] cd IH]; cbn; [tauto|]. intros ND [E|E].
  - injection E as -> ->. rewrite Nat.eqb_refl. reflexivity.
  - inversion ND as [|? ? Hk ND']; subst.
    destruct (Nat.eqb_spec k l) as [->|Hne]; [exfalso; apply Hk; apply (in_map fst) in E; exact E|auto].
Qed.

Lemma cd_set_present (cd : list (nat * cstatR)) l c : In l (keys cd) -> keys (cd_set cd l c) = keys cd.
Proof.
  unfold keys. induction cd as [|[k c0] cd IH]; cbn; [tauto|].
  destruct (Nat.eqb_spec k l) as [->|Hne]; cbn; [reflexivity|]. intros [E|E]; [congruence|]. f_equal. apply IH. exact E.
Qed.

Lemma cd_set_absent (cd : list (nat * cstatR)) l c : ~ In l (keys cd) -> cd_set cd l c = cd ++ [(l, c)].
Proof.
  induction cd as [|[k c0] cd IH]; cbn; [reflexivity|]. intros H.
  destruct (Nat.eqb_spec k l) as [->|Hne]; [exfalso; apply H; left; reflexivity|]. rewrite IH by tauto. reflexivity.
Qed.

Lemma cd_get_set_same (cd : list (nat * cstatR)) l c : cd_get (cd_set cd l c) l = Some c.
Proof.
  induction cd as [|[k c0] cd IH]; cbn; [rewrite Nat.eqb_refl; reflexivity|].
  destruct (Nat.eqb_spec k l) as [->|Hne]; cbn; [rewrite Nat.eqb_refl; reflexivity|].
  destruct (Nat.eqb_spec k l); [congruence|exact IH].
Qed.

Lemma cd_get_set_other (cd : list (nat * cstatR)) l l' c : l' <> l -> cd_get (cd_set cd l c) l' = cd_get cd l'.
Proof.
  intros Hne. induction cd as [|[k c0] cd IH]; cbn.
  - destruct (Nat.eqb_spec l l'); [congruence|reflexivity].
  - destruct (Nat.eqb_spec k l) as [->|Hkl]; cbn.
    + destruct (Nat.eqb_spec l l'); [congruence|reflexivity].
    + destruct (Nat.eqb_spec k l'); [reflexivity|exact IH].
Qed.

Lemma cd_set_sum_present (cd : list (nat * cstatR)) l c c' : cd_get cd l = Some c ->
  lsum (map CPof (cd_set cd l c')) = lsum (map CPof cd) - c_CP c + c_CP c'.
Proof.
  unfold lsum, CPof. induction cd as [|[k c0] cd IH]; cbn; [discriminate|].
  destruct (Nat.eqb_spec k l) as [->|Hne]; cbn; intros H; [injection H as ->; lra|]. rewrite IH by exact H. lra.
Qed.

Lemma cd_set_sum_absent (cd : list (nat * cstatR)) l c' : cd_get cd l = None ->
  lsum (map CPof (cd_set cd l c')) = lsum (map CPof cd) + c_CP c'.
Proof.
  intros H. apply cd_get_none in H. rewrite cd_set_absent by exact H.
  rewrite map_app, lsum_app. unfold lsum, CPof. cbn. lra.
Qed.

(* ------------------------------------------------------------------ the labelled data *)
Lemma members_app_same (D : data) x l : members (D ++ [(x, l)]) l = members D l ++ [x].
Proof. unfold members, cluster. rewrite filter_app, map_app. cbn. rewrite Nat.eqb_refl. reflexivity. Qed.

Lemma members_app_other (D : data) x l l' : l' <> l -> members (D ++ [(x, l)]) l' = members D l'.
Proof.
  intros H. unfold members, cluster. rewrite filter_app, map_app. cbn.
  destruct (Nat.eqb_spec l l'); [congruence|]. cbn. apply app_nil_r.
Qed.

Lemma members_nonempty (D : data) l : In l (map snd D) <-> members D l <> [].
Proof.
  unfold members, cluster. induction D as [|[y k] D IH]; cbn; [tauto|].
  destruct (Nat.eqb_spec k l) as [->|Hne]; cbn; [split; [discriminate|auto]|].
  rewrite <- IH. split; [intros [E|E]; [congruence|exact E]|auto].
Qed.

Lemma members_wf d (D : data) l : Forall (fun p => length (fst p) = d) D -> wf d (members D l).
Proof.
  unfold members, cluster, wf. intros H. apply Forall_forall. intros y Hy.
  apply in_map_iff in Hy. destruct Hy as [[y' k] [E Hin]]. cbn in E. subst y'.
  apply filter_In in Hin. destruct Hin as [Hin _]. eapply Forall_forall in H; eauto. exact H.
Qed.

Lemma pts_app (D : data) x l : pts (D ++ [(x, l)]) = pts D ++ [x].
Proof. unfold pts. rewrite map_app. reflexivity. Qed.

Lemma pts_wf d (D : data) : Forall (fun p => length (fst p) = d) D -> wf d (pts D).
Proof. unfold pts, wf. intros H. apply Forall_map. exact H. Qed.

Lemma meanv_single d (x : list R) : length x = d -> meanv d [x] = x.
Proof.
  intros Hx. assert (W1 : wf d [x]) by (constructor; [exact Hx|constructor]).
  apply vec_ext; [rewrite meanv_length by exact W1; lia|].
  intros i Hi. rewrite meanv_length in Hi by exact W1. rewrite co_meanv by assumption.
  unfold s1, lsum. cbn. field.
Qed.

Lemma meanv_snoc d (C : list (list R)) (x : list R) : wf d C -> C <> [] -> length x = d ->
  vaddR (meanv d C) (vscaleR (1 / (INR (length C) + 1)) (vsubR x (meanv d C))) = meanv d (C ++ [x]).
Proof.
  intros HW Hne Hx. pose proof (INR_pos_of_nonempty C Hne) as Hn.
  assert (W' : wf d (C ++ [x])) by (apply wf_app; assumption).
  pose proof (meanv_length d C HW) as Lm.
  assert (Lu : @length R (vsubR x (meanv d C)) = d) by (rewrite vsub_length; lia).
  assert (Ls : @length R (vscaleR (1 / (INR (length C) + 1)) (vsubR x (meanv d C))) = d) by (rewrite vscale_length; exact Lu).
  assert (E : @length R (meanv d C) = @length R (vscaleR (1 / (INR (length C) + 1)) (vsubR x (meanv d C)))) by lia.
  apply vec_ext.
  - rewrite (vadd_length _ _ E). rewrite (meanv_length d (C ++ [x]) W'). exact Lm.
  - intros i Hi. rewrite (vadd_length _ _ E), Lm in Hi.
    rewrite (co_vadd _ _ i E) by (rewrite Lm; exact Hi). rewrite co_vscale, co_vsub by lia.
    rewrite !co_meanv by assumption. rewrite s1_app, app_length, plus_INR. cbn [length INR]. field. lra.
Qed.

(* ------------------------------------------------------------------ the structural invariant *)
Record Struct (d : nat) (s : chR) (D : data) : Prop := {
  st_wf : Forall (fun p => length (fst p) = d) D;
  st_dim : h_dim s = d;
  st_n : h_n s = INR (length D);
  st_mu : D <> [] -> h_mu s = meanv d (pts D);
  st_mu0 : D = [] -> h_mu s = [];
  st_nodup : NoDup (keys (h_CD s));
  st_keys : forall l, In l (keys (h_CD s)) <-> In l (map snd D);
  st_stats : forall l c, cd_get (h_CD s) l = Some c -> cluster_ok d (members D l) c;
  st_wgss : h_WGSS s = lsum (map CPof (h_CD s)) }.

Definition sepf (mu : list R) (kc : nat * cstatR) : R := c_n (snd kc) * @sq RN (vsubR (c_v (snd kc)) mu).

Lemma criterion_sum (k : nat) (n : R) (SEP SEP' : list R) (W : R) :
  vsumR SEP = vsumR SEP' -> @criterion RN k n SEP W = @criterion RN k n SEP' W.
Proof. intros H. unfold criterion. rewrite H. reflexivity. Qed.

Lemma vmean_some d (C : list (list R)) : C <> [] -> @vmean RN C d = Some (meanv d C).
Proof.
  intros Hne. unfold vmean. rewrite nlen_INR. normT. rewrite odiv_some by (pose proof (INR_pos_of_nonempty C Hne); lra).
  reflexivity.
Qed.

(* the batch index, computed from a dictionary that satisfies the structural invariant *)
Lemma batch_from_stats d (s : chR) (D : data) : Struct d s D ->
  @batch_ch RN D d = @criterion RN (length (h_CD s)) (h_n s) (map (sepf (h_mu s)) (h_CD s)) (h_WGSS s).
Proof.
  intros [Hwf Hdim Hn Hmu Hmu0 Hnd Hkeys Hstats Hw].
  unfold batch_ch.
  assert (Perm : Permutation (@labels_of RN D) (keys (h_CD s))).
  { apply NoDup_Permutation; [apply NoDup_nodup|exact Hnd|].
    intros l. unfold labels_of. rewrite nodup_In. symmetry. apply Hkeys. }
  assert (Lk : length (@labels_of RN D) = length (h_CD s)).
  { rewrite (Permutation_length Perm). unfold keys. apply map_length. }
  rewrite Lk. unfold criterion.
  destruct (Nat.ltb (length (h_CD s)) 2) eqn:Ek; [reflexivity|].
  apply Nat.ltb_ge in Ek.
  assert (Dne : D <> []).
  { intros ->. cbn in Lk. lia. }
  assert (Pne : pts D <> []) by (unfold pts; destruct D; [congruence|discriminate]).
  change (@vmean RN (map fst D) d) with (@vmean RN (pts D) d).
  rewrite (vmean_some d (pts D) Pne). cbn [obind].
  rewrite <- (Hmu Dne).
  set (mu := h_mu s).
  set (g := fun l : nat => (INR (length (members D l)) * @sq RN (vsubR (meanv d (members D l)) mu),
                            css d (members D l))).
  rewrite (omap_some _ g).
  2:{ intros l Hl. unfold labels_of in Hl. rewrite nodup_In in Hl.
      apply members_nonempty in Hl. change (@cluster RN D l) with (members D l).
      rewrite (vmean_some d (members D l) Hl). cbn [obind]. unfold g. rewrite nlen_INR.
      rewrite vsum_lsum. reflexivity. }
  cbn [obind].
  assert (EB : vsumR (map fst (map g (@labels_of RN D))) = vsumR (map (sepf mu) (h_CD s))).
  { rewrite !vsum_lsum, map_map. rewrite (lsum_perm _ _ (Permutation_map (fun l => fst (g l)) Perm)).
    unfold keys. rewrite map_map. apply lsum_map_ext. intros [k c] Hin. cbn [fst snd].
    pose proof (cd_get_nodup _ _ _ Hnd Hin) as G. destruct (Hstats _ _ G) as [On Ov _ _].
    unfold sepf. cbn [fst snd]. rewrite On, Ov. reflexivity. }
  assert (EW : vsumR (map snd (map g (@labels_of RN D))) = h_WGSS s).
  { rewrite Hw, vsum_lsum, map_map. rewrite (lsum_perm _ _ (Permutation_map (fun l => snd (g l)) Perm)).
    unfold keys. rewrite map_map. apply lsum_map_ext. intros [k c] Hin. cbn [fst snd].
    pose proof (cd_get_nodup _ _ _ Hnd Hin) as G. destruct (Hstats _ _ G) as [_ _ OCP _].
    unfold CPof. cbn [snd]. rewrite OCP. reflexivity. }
  normT. rewrite EB, EW. rewrite nlen_INR, <- Hn.
  destruct (@neqb RN (h_WGSS s) n0); [reflexivity|].
  destruct (@odiv RN (vsumR (map (sepf mu) (h_CD s))) (h_WGSS s)) as [q|]; cbn [obind]; [|reflexivity].
  rewrite obind_some_id. reflexivity.
Qed.

(* ------------------------------------------------------------------ add_sample preserves the invariant *)
Lemma criterion_defined (k : nat) (n : R) (SEP : list R) (W : R) : exists cr, @criterion RN k n SEP W = Some cr.
Proof.
  unfold criterion. destruct (Nat.ltb k 2) eqn:Ek; [eexists; reflexivity|]. apply Nat.ltb_ge in Ek.
  destruct (@neqb RN W n0) eqn:EW; [eexists; reflexivity|].
  cbn in EW. apply Reqb_false in EW. rewrite (odiv_some _ _ EW). cbn [obind].
  assert (Hk : @nsub RN (@nofZ RN (Z.of_nat k)) n1 <> 0).
  { cbn. rewrite <- INR_IZR_INZ. assert (2 <= INR k) by (apply (le_INR 2); exact Ek). lra. }
  rewrite (odiv_some _ _ Hk). cbn [obind]. eexists; reflexivity.
Qed.

Definition substf (F : cstatR -> R) (l : nat) (cd : cstatR) (kc : nat * cstatR) : R :=
  let '(i, c) := kc in if Nat.eqb i l then F cd else F c.

Lemma substf_absent F l cd (cd0 : list (nat * cstatR)) : ~ In l (keys cd0) ->
  map (substf F l cd) cd0 = map (fun kc => F (snd kc)) cd0.
Proof.
  induction cd0 as [|[k c0] cd0 IH]; cbn; [reflexivity|]. intros H.
  destruct (Nat.eqb_spec k l) as [->|Hne]; [exfalso; apply H; left; reflexivity|]. rewrite IH by tauto. reflexivity.
Qed.

Lemma substf_present F l cd (cd0 : list (nat * cstatR)) : NoDup (keys cd0) -> In l (keys cd0) ->
  map (substf F l cd) cd0 = map (fun kc => F (snd kc)) (cd_set cd0 l cd).
Proof.
  induction cd0 as [|[k c0] cd0 IH]; cbn; [tauto|]. intros ND Hin. inversion ND as [|? ? Hk ND']; subst.
  destruct (Nat.eqb_spec k l) as [->|Hne]; cbn.
  - f_equal. apply substf_absent. exact Hk.
  - f_equal. apply IH; [exact ND'|]. destruct Hin as [E|E]; [congruence|exact E].
Qed.

Lemma cd_set_length_present (cd0 : list (nat * cstatR)) l c : In l (keys cd0) -> length (cd_set cd0 l c) = length cd0.
Proof. intros H. rewrite <- (map_length fst (cd_set cd0 l c)). fold (keys (cd_set cd0 l c)). rewrite cd_set_present by exact H. apply map_length. Qed.

Lemma NoDup_snoc {A} (l : list A) (a : A) : NoDup l -> ~ In a l -> NoDup (l ++ [a]).
Proof. intros H1 H2. apply (Permutation_NoDup (l := a :: l)); [apply Permutation_cons_append|constructor; assumption]. Qed.

Lemma length_zero_nil {A} (l : list A) : length l = 0%nat -> l = [].
Proof. destruct l; [reflexivity|discriminate]. Qed.

Theorem add_sample_inv d (s : chR) (D : data) (x : list R) (l : nat) :
  Struct d s D -> length x = d ->
  exists p, @add_sample RN s x l = Some p /\
            Struct d (@update RN s p) (D ++ [(x, l)]) /\
            @batch_ch RN (D ++ [(x, l)]) d = Some (h_crit (@update RN s p)).
Proof.
  intros St Hx. pose proof St as [Hwf Hdim Hn Hmu Hmu0 Hnd Hkeys Hstats Hw].
  set (D' := D ++ [(x, l)]).
  assert (Wf' : Forall (fun p => length (fst p) = d) D').
  { apply Forall_app. split; [exact Hwf|]. constructor; [exact Hx|constructor]. }
  (* the new global mean *)
  assert (Emu : exists mu', (match h_mu s with
                             | [] => Some x
                             | mu => inv <- @odiv RN n1 (@nadd RN (h_n s) n1) ;; Some (@vadd RN mu (@vscale RN inv (@vsub RN x mu)))
                             end) = Some mu' /\ mu' = meanv d (pts D')).
  { unfold D'. rewrite pts_app. destruct D as [|p0 D0] eqn:ED.
    - rewrite (Hmu0 eq_refl). eexists. split; [reflexivity|]. cbn [pts map app]. symmetry. apply meanv_single. exact Hx.
    - rewrite <- ED in *. assert (Dne : D <> []) by (rewrite ED; discriminate).
      assert (Pne : pts D <> []) by (unfold pts; rewrite ED; discriminate).
      pose proof (pts_wf d D Hwf) as PW.
      destruct (h_mu s) as [|m0 mu] eqn:Em.
      + (* only possible when d = 0 *)
        pose proof (meanv_length d (pts D) PW) as L. rewrite <- (Hmu Dne) in L. cbn in L.
        assert (Lx : length x = 0%nat) by (rewrite Hx; symmetry; exact L).
        eexists. split; [reflexivity|]. rewrite (length_zero_nil x Lx). symmetry. apply length_zero_nil.
        rewrite meanv_length; [symmetry; exact L|]. apply wf_app; [exact PW|exact L].
      + rewrite (Hmu Dne).
        assert (Hn1 : @nadd RN (h_n s) n1 <> 0).
        { cbn. rewrite Hn. pose proof (pos_INR (length D)). lra. }
        rewrite (odiv_some _ _ Hn1). cbn [obind]. eexists. split; [reflexivity|].
        cbn [nadd RN n1]. rewrite Hn. replace (length D) with (length (pts D)) by (unfold pts; apply map_length).
        apply meanv_snoc; assumption. }
  destruct Emu as [mu' [Emu1 Emu2]].
  (* the cluster that gains the sample *)
  assert (Est : exists cd cpd, @add_stats RN s x l = Some (cd, cpd) /\
                               cluster_ok d (members D' l) cd /\
                               h_WGSS s + cpd = lsum (map CPof (cd_set (h_CD s) l cd)) /\
                               (cd_get (h_CD s) l = None -> cd = @mkCstat RN 1 x 0 (repeat 0 d))).
  { unfold D'. rewrite members_app_same. destruct (cd_get (h_CD s) l) as [c|] eqn:G.
    - pose proof (Hstats _ _ G) as Ok.
      assert (Mne : members D l <> []) by (apply members_nonempty, Hkeys; eapply cd_get_some_key; exact G).
      destruct (add_stats_existing s d (members D l) c x l (members_wf d D l Hwf) Mne Hx G Ok) as [cd [cpd [E1 [E2 E3]]]].
      exists cd, cpd. split; [exact E1|]. split; [exact E2|]. split; [|discriminate].
      rewrite (cd_set_sum_present _ _ _ _ G). rewrite Hw. destruct Ok as [_ _ OCP _]. destruct E2 as [_ _ OCP' _].
      rewrite OCP, OCP', E3. lra.
    - assert (Mem : members D l = []).
      { destruct (members D l) eqn:EM; [reflexivity|]. exfalso.
        assert (In l (map snd D)) by (apply members_nonempty; rewrite EM; discriminate).
        apply Hkeys in H. apply cd_get_none in G. contradiction. }
      unfold add_stats. rewrite G. rewrite Hdim. eexists. eexists. split; [reflexivity|].
      rewrite Mem. cbn [app]. split; [apply cluster_ok_first; exact Hx|]. split; [|reflexivity].
      rewrite (cd_set_sum_absent _ _ _ G). rewrite Hw. cbn. lra. }
  destruct Est as [cd [cpd [Est1 [Est2 [Est3 Est4]]]]].
  (* the new dictionary *)
  set (CD' := cd_set (h_CD s) l cd).
  assert (Keys' : forall l0, In l0 (keys CD') <-> In l0 (map snd D')).
  { intros l0. unfold D'. rewrite map_app, in_app_iff. cbn [map snd In].
    unfold CD'. destruct (cd_get (h_CD s) l) as [c|] eqn:G.
    - rewrite cd_set_present by (eapply cd_get_some_key; exact G). rewrite Hkeys.
      split; [tauto|]. intros [H|[H|[]]]; [exact H|]. subst l0. apply Hkeys. eapply cd_get_some_key; exact G.
    - apply cd_get_none in G. rewrite (cd_set_absent _ _ _ G). unfold keys. rewrite map_app, in_app_iff. cbn [map fst In].
      fold (keys (h_CD s)). rewrite Hkeys. tauto. }
  assert (Nd' : NoDup (keys CD')).
  { unfold CD'. destruct (cd_get (h_CD s) l) as [c|] eqn:G.
    - rewrite cd_set_present by (eapply cd_get_some_key; exact G). exact Hnd.
    - apply cd_get_none in G. rewrite (cd_set_absent _ _ _ G). unfold keys. rewrite map_app. cbn [map fst].
      apply NoDup_snoc; assumption. }
  assert (Stats' : forall l0 c, cd_get CD' l0 = Some c -> cluster_ok d (members D' l0) c).
  { intros l0 c G0. unfold CD' in G0. destruct (Nat.eq_dec l0 l) as [->|Hne].
    - rewrite cd_get_set_same in G0. injection G0 as <-. exact Est2.
    - rewrite (cd_get_set_other _ _ _ _ Hne) in G0. unfold D'. rewrite (members_app_other _ _ _ _ Hne). apply Hstats. exact G0. }
  (* the criterion *)
  set (isnew := match cd_get (h_CD s) l with None => true | Some _ => false end).
  set (k := if isnew then S (length (h_CD s)) else length (h_CD s)).
  set (SEP := (if isnew then [@sq RN (@vsub RN x mu')] else []) ++
              map (fun kc : nat * cstatR => let '(i, c) := kc in
                                            if Nat.eqb i l then @nmul RN (c_n cd) (@sq RN (@vsub RN (c_v cd) mu'))
                                            else @nmul RN (c_n c) (@sq RN (@vsub RN (c_v c) mu'))) (h_CD s)).
  destruct (criterion_defined k (@nadd RN (h_n s) n1) SEP (@nadd RN (h_WGSS s) cpd)) as [cr Ecr].
  exists (@mkNewp RN (@nadd RN (h_n s) n1) mu' cr l cd cpd None).
  assert (Eadd : @add_sample RN s x l = Some (@mkNewp RN (@nadd RN (h_n s) n1) mu' cr l cd cpd None)).
  { unfold add_sample. cbv zeta. step_bind Emu1. step_bind Est1. cbv beta iota. step_bind Ecr. reflexivity. }
  split; [exact Eadd|].
  assert (St' : Struct d (@update RN s (@mkNewp RN (@nadd RN (h_n s) n1) mu' cr l cd cpd None)) D').
  { unfold update. cbn [p_label p_CD p_CPdiff p_label2 p_n p_mu p_crit]. fold CD'.
    constructor; cbn [h_dim h_n h_mu h_CD h_WGSS h_crit].
    - exact Wf'.
    - exact Hdim.
    - cbn [nadd RN n1]. rewrite Hn. unfold D'. rewrite app_length, plus_INR. cbn. lra.
    - intros _. exact Emu2.
    - intros E. unfold D' in E. destruct D; discriminate.
    - exact Nd'.
    - exact Keys'.
    - exact Stats'.
    - cbn [nadd RN]. exact Est3. }
  split; [exact St'|].
  rewrite (batch_from_stats d _ D' St').
  unfold update. cbn [p_label p_CD p_CPdiff p_label2 p_n p_mu p_crit h_dim h_n h_mu h_CD h_WGSS h_crit]. fold CD'.
  rewrite <- Ecr.
  assert (Ek : length CD' = k).
  { unfold CD', k, isnew. destruct (cd_get (h_CD s) l) as [c|] eqn:G.
    - apply cd_set_length_present. eapply cd_get_some_key; exact G.
    - apply cd_get_none in G. rewrite (cd_set_absent _ _ _ G), app_length. cbn. lia. }
  rewrite Ek. apply criterion_sum.
  rewrite !vsum_lsum. unfold SEP, CD', isnew.
  change (fun kc : nat * cstatR => let '(i, c) := kc in
            if Nat.eqb i l then @nmul RN (c_n cd) (@sq RN (@vsub RN (c_v cd) mu'))
            else @nmul RN (c_n c) (@sq RN (@vsub RN (c_v c) mu')))
    with (substf (fun c : cstatR => c_n c * @sq RN (vsubR (c_v c) mu')) l cd).
  change (sepf mu') with (fun kc : nat * cstatR => (fun c : cstatR => c_n c * @sq RN (vsubR (c_v c) mu')) (snd kc)).
  destruct (cd_get (h_CD s) l) as [c|] eqn:G.
  - cbn [app]. rewrite (substf_present _ l cd (h_CD s) Hnd) by (eapply cd_get_some_key; exact G). reflexivity.
  - pose proof G as G'. apply cd_get_none in G'. rewrite (substf_absent _ l cd (h_CD s) G').
    rewrite (cd_set_absent _ _ _ G'). rewrite map_app, !lsum_app. rewrite (Est4 eq_refl).
    match goal with |- ?A + _ = _ + ?A => generalize A; intros A0 end.
    unfold lsum. cbn [map fold_right snd c_n c_v]. lra.
Qed.

(* ------------------------------------------------------------------ any sequence of add_sample / update *)
Definition add_step (oh : option chR) (xl : list R * nat) : option chR :=
  match oh with
  | Some h => option_map (@update RN h) (@add_sample RN h (fst xl) (snd xl))
  | None => None
  end.

Lemma struct_init d : Struct d (@ch_init RN d) [].
Proof.
  constructor; cbn; auto.
  - intros H0; congruence.
  - constructor.
  - intros l0; tauto.
  - intros l0 c H0; discriminate.
Qed.

Lemma adds_from d : forall (E : data) (s0 : chR) (D0 : data),
  Struct d s0 D0 -> @batch_ch RN D0 d = Some (h_crit s0) -> Forall (fun p => length (fst p) = d) E ->
  exists s, fold_left add_step E (Some s0) = Some s /\ Struct d s (D0 ++ E) /\ @batch_ch RN (D0 ++ E) d = Some (h_crit s).
Proof.
  induction E as [|[x l] E IH]; intros s0 D0 St Cr HE.
  - exists s0. rewrite app_nil_r. cbn. auto.
  - apply Forall_cons_iff in HE. destruct HE as [Hx HE']. cbn [fst] in Hx.
    destruct (add_sample_inv d s0 D0 x l St Hx) as [p [Ep [St' Cr']]].
    cbn [fold_left add_step fst snd]. rewrite Ep. cbn [option_map].
    destruct (IH _ _ St' Cr' HE') as [s [F [S2 C2]]].
    exists s. rewrite <- app_assoc in S2, C2. cbn [app] in S2, C2. auto.
Qed.

(* C15, first sentence, for add_sample: after any sequence of add_sample/update operations on
   well-formed samples every operation was defined and the tracked value is the batch index *)
Theorem icvi_adds_equal_batch d (D : data) : Forall (fun p => length (fst p) = d) D ->
  exists s, fold_left add_step D (Some (@ch_init RN d)) = Some s /\
            @batch_ch RN D d = Some (h_crit s) /\ h_n s = INR (length D).
Proof.
  intros H. destruct (adds_from d D (@ch_init RN d) [] (struct_init d)) as [s [F [St Cr]]]; [|exact H|].
  - unfold batch_ch. cbn. reflexivity.
  - exists s. cbn [app] in *. split; [exact F|]. split; [exact Cr|]. destruct St; assumption.
Qed.
